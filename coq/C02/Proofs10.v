(* C02/Proofs10.v — round 5: stream types with / without a reader, unimplemented_streams, the regenerated stream_vendor and
   list padding arms; the Mac crash info reader; linux_list_iter *)
From Coq Require Import Lia Bool.
From RM Require Import C02.Model C02.ModelR5 C02.Proofs1 C02.Proofs2 C02.Proofs3 C02.Proofs5 C02.Proofs7.
Open Scope Z_scope.

(* ------------------------------------------------------------------ stream types *)
Lemma existsb_eqb_In : forall x l, existsb (Z.eqb x) l = true <-> In x l.
Proof.
  intros x l. rewrite existsb_exists. split.
  - intros [y [Hy E]]. apply Z.eqb_eq in E. subst. exact Hy.
  - intro H. exists x. split; [exact H|apply Z.eqb_refl].
Qed.

Lemma has_reader_In : forall ty, has_reader ty = true <-> In ty (map snd RD_IMPLEMENTED).
Proof.
  intro ty. unfold has_reader. rewrite existsb_exists, in_map_iff. split.
  - intros [p [Hp E]]. apply Z.eqb_eq in E. exists p. split; assumption.
  - intros [p [E Hp]]. exists p. split; [exact Hp|apply Z.eqb_eq; exact E].
Qed.

Fixpoint nodupb (l : list Z) : bool :=
  match l with [] => true | x :: t => negb (existsb (Z.eqb x) t) && nodupb t end.
Lemma nodupb_NoDup : forall l, nodupb l = true -> NoDup l.
Proof.
  induction l as [|x t IH]; intro H; [constructor|]. cbn [nodupb] in H. apply andb_prop in H. destruct H as [H1 H2].
  constructor; [|apply IH; exact H2]. intro Hin. apply existsb_eqb_In in Hin. rewrite Hin in H1. discriminate.
Qed.

Lemma nodup_app_disjoint : forall (a b : list Z) x, NoDup (a ++ b) -> In x a -> In x b -> False.
Proof.
  induction a as [|y a IH]; cbn [app In]; intros b x ND Ha Hb; [contradiction|].
  inversion ND; subst. destruct Ha as [E|Ha].
  - subst. apply H1. apply in_or_app. right. exact Hb.
  - exact (IH b x H2 Ha Hb).
Qed.

Lemma nodup_app_l : forall (a b : list Z), NoDup (a ++ b) -> NoDup a.
Proof.
  induction a as [|y a IH]; cbn [app]; intros b ND; [constructor|].
  inversion ND; subst. constructor; [|exact (IH b H2)]. intro Hin. apply H1. apply in_or_app. left. exact Hin.
Qed.

(* the three checks are evaluated on the tables regenerated from the source on this run *)
Lemma named_covered : forallb (fun t => has_reader t || existsb (Z.eqb t) RD_UNIMPLEMENTED) ST_ALL_NAMED = true.
Proof. vm_compute. reflexivity. Qed.
Lemma tables_named : forallb is_named (map snd RD_IMPLEMENTED ++ RD_UNIMPLEMENTED) = true.
Proof. vm_compute. reflexivity. Qed.
Lemma tables_disjoint : nodupb (map snd RD_IMPLEMENTED ++ RD_UNIMPLEMENTED) = true.
Proof. vm_compute. reflexivity. Qed.

Lemma unimplemented_In : forall ty, is_unimplemented ty = true <-> In ty RD_UNIMPLEMENTED.
Proof.
  intro ty. unfold is_unimplemented. rewrite andb_true_iff, existsb_eqb_In. split; [tauto|].
  intro H. split; [|exact H]. pose proof tables_named as T. rewrite forallb_forall in T. apply T. apply in_or_app. right. exact H.
Qed.

(* every u32 is of exactly one kind: a typed reader exists / listed by unimplemented_streams / unknown (no name);
   no two readers claim one stream type *)
Theorem stream_type_partition :
  NoDup (map snd RD_IMPLEMENTED) /\
  forall ty,
    (is_named ty = true <-> has_reader ty = true \/ is_unimplemented ty = true) /\
    (has_reader ty = true -> is_unimplemented ty = false).
Proof.
  pose proof (nodupb_NoDup _ tables_disjoint) as ND.
  split; [exact (nodup_app_l _ _ ND)|].
  intro ty. split; [split|].
  - intro H. unfold is_named in H. apply existsb_eqb_In in H.
    pose proof named_covered as C. rewrite forallb_forall in C. specialize (C ty H). apply orb_prop in C.
    destruct C as [C|C]; [left; exact C|right]. apply unimplemented_In. apply existsb_eqb_In. exact C.
  - pose proof tables_named as T. rewrite forallb_forall in T.
    intros [H|H]; apply T; apply in_or_app; [left; apply has_reader_In; exact H|right; apply unimplemented_In; exact H].
  - intro H. destruct (is_unimplemented ty) eqn:E; [|reflexivity]. exfalso.
    apply has_reader_In in H. apply unimplemented_In in E.
    exact (nodup_app_disjoint _ _ ty ND H E).
Qed.

(* unimplemented_streams(): exactly the served entries (the last of their type) whose type is in the table *)
Theorem unimplemented_streams_spec : forall d ty v,
  In (ty, v) (unimplemented_streams d) <-> last_entry 0 d ty = Some v /\ In ty RD_UNIMPLEMENTED.
Proof.
  intros d ty v. unfold unimplemented_streams. rewrite filter_In. cbn [fst].
  destruct (served_dir_map [] d) as [_ [_ [H _]]]. rewrite H, unimplemented_In. reflexivity.
Qed.

(* all_streams() = the entries some typed reader serves + unimplemented_streams() + unknown_streams() *)
Theorem served_classified : forall d p,
  In p (served_dir d) <->
  (In p (served_dir d) /\ has_reader (fst p) = true) \/ In p (unimplemented_streams d) \/ In p (unknown_streams d).
Proof.
  intros d p. unfold unimplemented_streams, unknown_streams. rewrite !filter_In. split; [|tauto].
  intro H. destruct stream_type_partition as [_ P]. destruct (P (fst p)) as [[P1 _] _].
  destruct (is_named (fst p)) eqn:E.
  - destruct (P1 eq_refl) as [R|U]; [left; tauto|right; left; tauto].
  - right. right. split; [exact H|reflexivity].
Qed.

Theorem stream_vendor_regenerated : forall ty, stream_vendor ty = stream_vendor_rd ty.
Proof.
  intro ty. cbv [stream_vendor stream_vendor_rd RD_VENDOR_LIMIT RD_VENDOR_MASK RD_VENDOR_ARMS RD_VENDOR_DEFAULT zassoc ST_LastReservedStream].
  destruct (ty <=? 65535); [reflexivity|].
  destruct (Z.land ty 4294901760 =? 1197932544); [reflexivity|].
  destruct (Z.land ty 4294901760 =? 1299841024); reflexivity.
Qed.

(* the 0-or-4 rule of the model's read_stream_list is the regenerated match of the source *)
Theorem list_padding_regenerated : forall e esize bs,
  dec_list_hdr e esize bs =
  obnd (take 4 bs) (fun hr =>
    let n := dec_uint e (fst hr) in
    if zlen bs <? 4 + n * esize then None
    else match list_pad_skip (zlen bs - (4 + n * esize)) with
         | Some k => Some (n, skipn (Z.to_nat k) (snd hr))
         | None => None
         end).
Proof.
  intros e esize bs. unfold dec_list_hdr. destruct (take 4 bs) as [[h r]|]; [|reflexivity]. cbn [obnd fst snd].
  destruct (zlen bs <? 4 + dec_uint e h * esize); [reflexivity|].
  unfold list_pad_skip. cbn [RD_LIST_PAD_ARMS zassoc].
  destruct (zlen bs - (4 + dec_uint e h * esize) =? 0); [reflexivity|].
  destruct (zlen bs - (4 + dec_uint e h * esize) =? 4); reflexivity.
Qed.

(* ------------------------------------------------------------------ Mac crash info *)
Lemma all_u64_app : forall a b, all_u64 (a ++ b) = all_u64 a && all_u64 b.
Proof. induction a as [|x a IH]; intro b; cbn [app all_u64]; [reflexivity|]. rewrite IH, !andb_assoc. reflexivity. Qed.

Lemma enc_u64s_app : forall e a b, enc_u64s e (a ++ b) = enc_u64s e a ++ enc_u64s e b.
Proof. intros. unfold enc_u64s. apply flat_map_app. Qed.

Lemma zlen_enc_u64s : forall e l, zlen (enc_u64s e l) = 8 * zlen l.
Proof.
  intros e l. induction l as [|x l IH]; [reflexivity|]. unfold enc_u64s in *. cbn [flat_map].
  rewrite zlen_app, zlen_enc_uint, IH, zlen_cons. lia.
Qed.

Lemma dec_u64s_enc : forall e l rest, all_u64 l = true -> dec_u64s e (length l) (enc_u64s e l ++ rest) = Some l.
Proof.
  intros e l. induction l as [|x l IH]; intros rest H; [reflexivity|].
  cbn [all_u64] in H. bdestr. b2z. unfold enc_u64s in *. cbn [flat_map length dec_u64s]. rewrite <- app_assoc.
  rewrite take_app by apply length_enc_uint. rewrite IH by assumption. rewrite dec_enc_uint by lia. reflexivity.
Qed.

Lemma dec_u64s_prefix : forall e a b rest, all_u64 (a ++ b) = true ->
  dec_u64s e (length a) (enc_u64s e (a ++ b) ++ rest) = Some a.
Proof.
  intros e a b rest H. rewrite all_u64_app in H. bdestr. rewrite enc_u64s_app, <- app_assoc. apply dec_u64s_enc. assumption.
Qed.

Lemma cstr_split_app : forall s rest, forallb (fun c => negb (c =? 0)) s = true -> cstr_split (s ++ 0 :: rest) = Some (s, rest).
Proof.
  induction s as [|c s IH]; intros rest H; [reflexivity|]. cbn [forallb] in H. bdestr.
  cbn [app cstr_split]. apply negb_true_iff in H. rewrite H, IH by assumption. reflexivity.
Qed.

Lemma read_cstrings_enc : forall ss trail, forallb cstr_ok ss = true ->
  read_cstrings (length ss) (flat_map (fun s => s ++ [0]) ss ++ trail) = Some ss.
Proof.
  induction ss as [|s ss IH]; intros trail H; [reflexivity|]. cbn [forallb] in H. bdestr. unfold cstr_ok in H. bdestr.
  cbn [flat_map length read_cstrings]. rewrite <- !app_assoc. cbn [app].
  rewrite cstr_split_app by assumption. rewrite H, IH by assumption. reflexivity.
Qed.

Lemma mac_variant_In : forall ver tbl x, mac_variant ver tbl = Some x -> In x tbl /\ fst x <= ver.
Proof.
  induction tbl as [|[mv y] t IH]; intros x H; [discriminate|]. cbn [mac_variant] in H.
  destruct (mv <=? ver) eqn:E.
  - inversion H; subst. split; [left; reflexivity|apply Z.leb_le; exact E].
  - destruct (IH x H) as [A B]. split; [right; exact A|exact B].
Qed.

(* every entry of the regenerated table: the fixed record is a whole number (>= 2) of u64 fields, string count >= 0 *)
Lemma mac_table_sane : forallb (fun x => (fst (snd x) mod 8 =? 0) && (16 <=? fst (snd x)) && (0 <=? snd (snd x)) && (1 <=? fst x)) RD_MAC_VERSIONS = true.
Proof. vm_compute. reflexivity. Qed.

(* the table's sizes are the sizes of the layouts regenerated from format.rs, newest first; every such layout is a
   sequence of u64 fields, so reading it = reading that many u64 *)
Lemma mac_table_layouts :
  map (fun x => fst (snd x)) RD_MAC_VERSIONS
  = [lsize L_MINIDUMP_MAC_CRASH_INFO_RECORD_5; lsize L_MINIDUMP_MAC_CRASH_INFO_RECORD_4; lsize L_MINIDUMP_MAC_CRASH_INFO_RECORD].
Proof. reflexivity. Qed.
Ltac takes := repeat match goal with
                     | |- context [take 8 ?x] => destruct (take 8 x) as [[? ?]|]; cbn [option_map vflat fst app]
                     end; try reflexivity.
Lemma mac_record_layouts : forall e bs,
  dec_u64s e 2 bs = option_map (fun p => vflat (fst p)) (dec e L_MINIDUMP_MAC_CRASH_INFO_RECORD bs) /\
  dec_u64s e 4 bs = option_map (fun p => vflat (fst p)) (dec e L_MINIDUMP_MAC_CRASH_INFO_RECORD_4 bs) /\
  dec_u64s e 5 bs = option_map (fun p => vflat (fst p)) (dec e L_MINIDUMP_MAC_CRASH_INFO_RECORD_5 bs).
Proof.
  intros e bs. unfold L_MINIDUMP_MAC_CRASH_INFO_RECORD, L_MINIDUMP_MAC_CRASH_INFO_RECORD_4, L_MINIDUMP_MAC_CRASH_INFO_RECORD_5.
  cbn [dec dec_u64s]. repeat split; takes.
Qed.

Lemma read_mac_record_enc : forall e start r gap trail, wf_mcrec start r gap = true ->
  read_mac_record e start (rec_bytes e r gap trail) (rec_version r) = Some (Some r) /\
  dec_u64s e 2 (rec_bytes e r gap trail) = Some [nth 0 (cr_ints r) 0; rec_version r].
Proof.
  intros e start [ints ss] gap trail H. unfold wf_mcrec, rec_version, rec_bytes in *. cbn [cr_ints cr_strings] in *.
  destruct ints as [|st [|ver more]]; try discriminate. cbn [nth].
  destruct (mac_variant ver RD_MAC_VERSIONS) as [[mv [fsize nstr]]|] eqn:E; [|discriminate].
  destruct (andb_prop _ _ H) as [W1 Wss]. destruct (andb_prop _ _ W1) as [W2 Wn]. destruct (andb_prop _ _ W2) as [W3 Wg].
  destruct (andb_prop _ _ W3) as [Wl Wu]. clear H W1 W2 W3.
  apply Z.eqb_eq in Wl, Wg, Wn.
  destruct (mac_variant_In _ _ _ E) as [Hin _].
  pose proof mac_table_sane as S. rewrite forallb_forall in S. specialize (S _ Hin). cbn [fst snd] in S.
  destruct (andb_prop _ _ S) as [S1 S4]. destruct (andb_prop _ _ S1) as [S2 S3]. destruct (andb_prop _ _ S2) as [Sm S16]. clear S S1 S2.
  apply Z.eqb_eq in Sm. apply Z.leb_le in S16, S3, S4.
  pose proof (zlen_nonneg _ gap) as Hg.
  assert (Hf : fsize = 8 * (fsize / 8)) by (apply Z_div_exact_2; lia).
  split.
  - unfold read_mac_record. rewrite E. rewrite <- Wl, zlen_to_nat.
    rewrite dec_u64s_enc by assumption.
    replace (start <? fsize) with false by (symmetry; apply Z.ltb_ge; lia).
    replace (Z.to_nat nstr) with (length ss) by (rewrite <- zlen_to_nat, Wn; reflexivity).
    replace (zlen (enc_u64s e (st :: ver :: more) ++ gap ++ flat_map (fun s => s ++ [0]) ss ++ trail) <? start) with false.
    2:{ symmetry. apply Z.ltb_ge. rewrite !zlen_app, zlen_enc_u64s, Wl.
        pose proof (zlen_nonneg _ (flat_map (fun s => s ++ [0]) ss)). pose proof (zlen_nonneg _ trail). lia. }
    rewrite app_assoc.
    replace (Z.to_nat start) with (length (enc_u64s e (st :: ver :: more) ++ gap)).
    2:{ rewrite <- zlen_to_nat, zlen_app, zlen_enc_u64s. rewrite Wl. f_equal. lia. }
    rewrite skipn_app, Nat.sub_diag, skipn_all. cbn [app skipn].
    rewrite read_cstrings_enc by assumption. reflexivity.
  - change (st :: ver :: more) with ([st; ver] ++ more) in *.
    apply (dec_u64s_prefix e [st; ver] more). assumption.
Qed.

Inductive records_at (e : endian) (all : list Z) (start : Z) : list (Z * Z) -> list mcrec -> Prop :=
| ra_nil : records_at e all start [] []
| ra_cons : forall size rva r gap trail locs rs,
    slice all rva size = Some (rec_bytes e r gap trail) -> wf_mcrec start r gap = true ->
    records_at e all start locs rs -> records_at e all start ((size, rva) :: locs) (r :: rs).

Lemma mac_walk_ok : forall e all start locs recs, records_at e all start locs recs ->
  (forall a b, In a recs -> In b recs -> rec_version a = rec_version b) ->
  forall prev, (forall r p, prev = Some p -> In r recs -> rec_version r = p) ->
  mac_walk e all start locs prev = Some recs.
Proof.
  intros e all start locs recs R. induction R as [|size rva r gap trail locs rs Hs Hw R IH]; intros Same prev Hp; [reflexivity|].
  cbn [mac_walk]. rewrite Hs. destruct (read_mac_record_enc e start r gap trail Hw) as [A B]. rewrite B.
  replace (match prev with Some p => negb (p =? rec_version r) | None => false end) with false.
  2:{ destruct prev as [p|]; [|reflexivity]. rewrite (Hp r p eq_refl (or_introl eq_refl)), Z.eqb_refl. reflexivity. }
  rewrite A. rewrite IH; [reflexivity| |].
  - intros a b Ha Hb. apply Same; right; assumption.
  - intros r' p Ep Hr. inversion Ep; subst. apply Same; [right; exact Hr|left; reflexivity].
Qed.

Definition unpairs (l : list (Z * Z)) : list Z := flat_map (fun p => [fst p; snd p]) l.
Lemma pairs_unpairs : forall l, pairs (unpairs l) = l.
Proof. induction l as [|[a b] l IH]; [reflexivity|]. unfold unpairs in *. cbn [flat_map fst snd app pairs]. rewrite IH. reflexivity. Qed.

(* wherever the records lie in the file and in whatever order: if the first [length recs] locations of the header slice
   to well-formed records of one version, the stream reads back as exactly these records, in header order *)
Theorem maccrash_any_placement : forall e all v rest stype start alllocs recs,
  wt L_MINIDUMP_MAC_CRASH_INFO v = true -> zlen recs <= RD_MAC_RECORDS_MAX ->
  vflat v = stype :: zlen recs :: start :: unpairs alllocs ->
  records_at e all start (firstn (length recs) alllocs) recs ->
  (forall a b, In a recs -> In b recs -> rec_version a = rec_version b) ->
  dec_maccrash e all (enc e L_MINIDUMP_MAC_CRASH_INFO v ++ rest) = Some recs.
Proof.
  intros e all v rest stype start alllocs recs Hwt Hmax Hv R Same. unfold dec_maccrash.
  rewrite dec_enc by exact Hwt. rewrite Hv, pairs_unpairs, Z.min_l by exact Hmax. rewrite zlen_to_nat.
  apply mac_walk_ok; [exact R|exact Same|]. intros r p E. discriminate.
Qed.

(* ------------------------------------------------------------------ linux_list_iter *)
Lemma split_on_aux_line : forall line rest cur, forallb (fun c => negb (c =? 10)) line = true ->
  split_on_aux 10 (line ++ 10 :: rest) cur = (rev cur ++ line) :: split_on_aux 10 rest [].
Proof.
  induction line as [|c line IH]; intros rest cur H.
  - cbn [app split_on_aux]. rewrite Z.eqb_refl, app_nil_r. reflexivity.
  - cbn [forallb] in H. bdestr. apply negb_true_iff in H. cbn [app split_on_aux]. rewrite H, IH by assumption.
    cbn [rev]. rewrite <- app_assoc. reflexivity.
Qed.

Lemma split_once_app : forall sep k v pre, forallb (fun c => negb (c =? sep)) k = true ->
  split_once sep (k ++ sep :: v) pre = Some (rev pre ++ k, v).
Proof.
  induction k as [|c k IH]; intros v pre H.
  - cbn [app split_once]. rewrite Z.eqb_refl, app_nil_r. reflexivity.
  - cbn [forallb] in H. bdestr. apply negb_true_iff in H. cbn [app split_once]. rewrite H, IH by assumption.
    cbn [rev]. rewrite <- app_assoc. reflexivity.
Qed.

Lemma strip_quotes_plain : forall s, plain s = true -> strip_quotes s = s.
Proof.
  intros s H. unfold plain in H. destruct (andb_prop _ _ H) as [H1 HC]. destruct (andb_prop _ _ H1) as [HA HB]. clear H H1.
  unfold strip_quotes, trim.
  assert (T1 : trim_left s = s).
  { destruct s as [|c t]; [reflexivity|]. destruct (andb_prop _ _ HB) as [B1 _]. apply negb_true_iff in B1.
    cbn [trim_left]. rewrite B1. reflexivity. }
  rewrite T1.
  assert (T2 : trim_left (rev s) = rev s).
  { destruct (rev s) as [|c t]; [reflexivity|]. apply negb_true_iff in HC. cbn [trim_left]. rewrite HC. reflexivity. }
  rewrite T2, rev_involutive.
  destruct s as [|c t]; [reflexivity|]. destruct (andb_prop _ _ HB) as [_ B2]. apply negb_true_iff in B2. apply Z.eqb_neq in B2.
  destruct c as [|p|p]; try reflexivity.
  do 6 (destruct p as [p|p|]; try reflexivity). exfalso. apply B2. reflexivity.
Qed.

Lemma no_lf_app : forall a b, forallb (fun c => negb (c =? 10)) (a ++ b) = forallb (fun c => negb (c =? 10)) a && forallb (fun c => negb (c =? 10)) b.
Proof. intros. apply forallb_app. Qed.

Lemma kv_line_shape : forall (k v r : list Z) sep, (k ++ [sep] ++ v ++ [10]) ++ r = (k ++ sep :: v) ++ 10 :: r.
Proof. intros. rewrite <- !app_assoc. cbn [app]. reflexivity. Qed.

(* `key<sep>value\n` lines whose sides need no trimming read back as exactly these pairs, in order *)
Theorem kv_roundtrip : forall sep l, sep <> 10 -> forallb (wf_kv_line sep) l = true -> kv_pairs sep (kv_text sep l) = l.
Proof.
  intros sep l Hsep. unfold kv_pairs, split_on.
  induction l as [|[k v] l IH]; intro H.
  - cbn. reflexivity.
  - cbn [forallb] in H. destruct (andb_prop _ _ H) as [Hkv Hl]. clear H. unfold wf_kv_line in Hkv. cbn [fst snd] in Hkv.
    destruct (andb_prop _ _ Hkv) as [Hp Hks]. destruct (andb_prop _ _ Hp) as [Pk Pv]. clear Hkv Hp.
    assert (Lk : forallb (fun c => negb (c =? 10)) k = true).
    { unfold plain in Pk. destruct (andb_prop _ _ Pk) as [X _]. destruct (andb_prop _ _ X) as [Y _]. exact Y. }
    assert (Lv : forallb (fun c => negb (c =? 10)) v = true).
    { unfold plain in Pv. destruct (andb_prop _ _ Pv) as [X _]. destruct (andb_prop _ _ X) as [Y _]. exact Y. }
    unfold kv_text in *. cbn [flat_map fst snd].
    rewrite kv_line_shape.
    rewrite split_on_aux_line.
    2:{ rewrite forallb_app. cbn [forallb]. apply Z.eqb_neq in Hsep. rewrite Hsep. cbn [negb andb]. rewrite Lk, Lv. reflexivity. }
    cbn [flat_map rev app]. rewrite split_once_app by assumption. cbn [rev app].
    rewrite !strip_quotes_plain by assumption. cbn [app]. f_equal. apply IH. assumption.
Qed.

(* directory and stream together: the last directory entry of the type points at a stream that starts with the header *)
Theorem maccrash_served : forall e all v rest stype start alllocs recs l1 size rva l3,
  wt L_MINIDUMP_MAC_CRASH_INFO v = true -> zlen recs <= RD_MAC_RECORDS_MAX ->
  vflat v = stype :: zlen recs :: start :: unpairs alllocs ->
  records_at e all start (firstn (length recs) alllocs) recs ->
  (forall a b, In a recs -> In b recs -> rec_version a = rec_version b) ->
  slice all rva size = Some (enc e L_MINIDUMP_MAC_CRASH_INFO v ++ rest) ->
  ~ In ST_MozMacosCrashInfoStream (map fst l3) ->
  get_stream dec_maccrash e all (l1 ++ (ST_MozMacosCrashInfoStream, (size, rva)) :: l3) ST_MozMacosCrashInfoStream = SOk recs.
Proof.
  intros e all v rest stype start alllocs recs l1 size rva l3 Hwt Hmax Hv R Same Hs Hnot.
  unfold get_stream. rewrite last_entry_wins by exact Hnot. rewrite Hs.
  rewrite (maccrash_any_placement e all v rest stype start alllocs recs Hwt Hmax Hv R Same). reflexivity.
Qed.

(* ------------------------------------------------------------------ Minidump::read: the regenerated order of steps *)
From Coq Require Import String.
Definition DOC_READ_STEPS : list string :=
  ["header_little_endian"; "signature_or_swapped"; "header_big_endian"; "version_low_half"; "seek_directory"; "map_empty";
   "walk_count_entries"; "insert_replaces_earlier"; "system_info_from_map"; "result"]%string.
Theorem read_steps_regenerated :
  RD_READ_STEPS = DOC_READ_STEPS /\
  (forall version, 0 <= version -> Z.land version RD_VERSION_MASK = version mod 65536).
Proof.
  split; [reflexivity|]. intros version H. change RD_VERSION_MASK with (Z.ones 16). rewrite Z.land_ones by lia. reflexivity.
Qed.

(* each typed reader looks its stream up under the stream type the model's decode_dump uses for it *)
Definition DOC_READERS : list (string * Z) :=
  [("MinidumpThreadNames", ST_ThreadNamesStream); ("MinidumpModuleList", ST_ModuleListStream);
   ("MinidumpUnloadedModuleList", ST_UnloadedModuleListStream); ("MinidumpHandleDataStream", ST_HandleDataStream);
   ("MinidumpMemoryList", ST_MemoryListStream); ("MinidumpMemory64List", ST_Memory64ListStream);
   ("MinidumpMemoryInfoList", ST_MemoryInfoListStream); ("MinidumpLinuxMaps", ST_LinuxMaps);
   ("MinidumpThreadList", ST_ThreadListStream); ("MinidumpThreadInfoList", ST_ThreadInfoListStream);
   ("MinidumpSystemInfo", ST_SystemInfoStream); ("MinidumpMiscInfo", ST_MiscInfoStream);
   ("MinidumpMacCrashInfo", ST_MozMacosCrashInfoStream); ("MinidumpMacBootargs", ST_MozMacosBootargsStream);
   ("MinidumpLinuxLsbRelease", ST_LinuxLsbRelease); ("MinidumpLinuxEnviron", ST_LinuxEnviron);
   ("MinidumpLinuxProcStatus", ST_LinuxProcStatus); ("MinidumpLinuxProcLimits", ST_MozLinuxLimits);
   ("MinidumpSoftErrors", ST_MozSoftErrors); ("MinidumpLinuxCpuInfo", ST_LinuxCpuInfo);
   ("MinidumpBreakpadInfo", ST_BreakpadInfoStream); ("MinidumpException", ST_ExceptionStream);
   ("MinidumpAssertion", ST_AssertionInfoStream); ("MinidumpCrashpadInfo", ST_CrashpadInfoStream)]%string.
Theorem reader_stream_types : RD_IMPLEMENTED = DOC_READERS.
Proof. reflexivity. Qed.
