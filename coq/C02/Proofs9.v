(* C02/Proofs9.v — handle object-information chains: whatever order the records are stored in, the reader returns the chain *)
From Coq Require Import Lia.
From RM Require Import C02.Model.
Open Scope Z_scope.

(* the records of [infos] are in the file, linked in this order from [r], the last link is null *)
Inductive chain_at (e : endian) (all : list Z) : Z -> list (Z * Z) -> Prop :=
| chain_nil : chain_at e all 0 []
| chain_cons : forall r next ty size rest,
    r <> 0 -> dec_at L_MINIDUMP_HANDLE_OBJECT_INFORMATION e all r = Some [next; ty; size] ->
    known_info_type ty = true -> chain_at e all next rest ->
    chain_at e all r ((ty, size) :: rest).

Lemma walk_chain_spec : forall e all r infos, chain_at e all r infos ->
  forall fuel, (length infos <= fuel)%nat -> walk_chain fuel e all r = infos.
Proof.
  intros e all r infos H. induction H as [|r next ty size rest Hr Hd Hk Hc IH]; intros fuel Hf.
  - destruct fuel; reflexivity.
  - destruct fuel as [|f]; [cbn [length] in Hf; lia|]. cbn [walk_chain].
    replace (r =? 0) with false by (symmetry; apply Z.eqb_neq; exact Hr).
    rewrite Hd, Hk. rewrite IH by (cbn [length] in Hf; lia). reflexivity.
Qed.

(* no requirement on where the records lie or in which direction the links point *)
Theorem handle_chain_any_placement : forall e all r infos, chain_at e all r infos ->
  Z.of_nat (length infos) <= zlen all / 12 -> read_chain e all r = infos.
Proof.
  intros e all r infos H Hn. unfold read_chain. apply walk_chain_spec; [exact H|]. lia.
Qed.
