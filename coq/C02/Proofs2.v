(* C02/Proofs2.v — list framing and the per-stream round trips *)
From Coq Require Import Lia.
From RM Require Import C02.Model C02.Proofs1.
Open Scope Z_scope.

Definition U32M : Z := 4294967295.
Lemma wbits4 : wbits 4 = 4294967296. Proof. reflexivity. Qed.
Lemma wbits8 : wbits 8 = 18446744073709551616. Proof. reflexivity. Qed.
Lemma wbits2 : wbits 2 = 65536. Proof. reflexivity. Qed.
Lemma wbits1 : wbits 1 = 256. Proof. reflexivity. Qed.

Ltac zl := rewrite ?zlen_app, ?zlen_enc_uint, ?zlen_enc_string, ?zlen_cons, ?zlen_nil in *.
Ltac b2z :=
  repeat match goal with
         | H : (_ <=? _) = true |- _ => apply Z.leb_le in H
         | H : (_ <? _) = true |- _ => apply Z.ltb_lt in H
         | H : (_ =? _) = false |- _ => apply Z.eqb_neq in H
         | H : (_ >? _) = false |- _ => rewrite Z.gtb_ltb in H; apply Z.ltb_ge in H
         | H : negb _ = true |- _ => apply negb_true_iff in H
         | H : _ || _ = false |- _ => apply orb_false_elim in H; destruct H
         end.
Ltac u32_goal := apply andb_true_intro; split; [apply Z.leb_le | apply Z.ltb_lt]; rewrite ?wbits4, ?wbits8, ?wbits2; unfold U32M in *; try lia.

(* ------------------------------------------------------------------ items *)
Record icodec_ok {A} (c : icodec A) (e : endian) (wfA : A -> bool) : Prop := {
  ok_size : 1 <= lsize (ic_layout c) < 4294967296;
  ok_len : forall a off, wfA a = true -> shape (ic_layout c) (ic_value c a off) = true;
  ok_wt : forall a off, wfA a = true -> 0 <= off -> off + zlen (ic_aux c e a) <= U32M ->
          wt (ic_layout c) (ic_value c a off) = true;
  ok_read : forall a pre post, wfA a = true -> 0 < zlen pre -> zlen pre + zlen (ic_aux c e a) <= U32M ->
            ic_read c e (pre ++ ic_aux c e a ++ post) (ic_value c a (zlen pre)) = Some (Some a)
}.

Section Items.
Context {A : Type} (c : icodec A) (e : endian) (wfA : A -> bool) (OK : icodec_ok c e wfA).

Lemma enc_items_aux_len_nonneg : forall l off, 0 <= zlen (snd (enc_items c e off l)).
Proof. intros. apply zlen_nonneg. Qed.

Lemma enc_items_fst_len : forall l off, forallb wfA l = true ->
  zlen (fst (enc_items c e off l)) = zlen l * lsize (ic_layout c).
Proof.
  induction l as [|a l IH]; intros off Hwf; [reflexivity|].
  cbn [forallb] in Hwf. apply andb_prop in Hwf. destruct Hwf as [Ha Hl].
  cbn [enc_items fst snd] in *. rewrite zlen_app, zlen_cons.
  rewrite (enc_zlen_shape e _ _ (ok_len c e wfA OK a off Ha)). rewrite IH by assumption. lia.
Qed.

Lemma dec_items_enc : forall l pre post rest, forallb wfA l = true -> 0 < zlen pre ->
  zlen pre + zlen (snd (enc_items c e (zlen pre) l)) <= U32M ->
  dec_items c e (pre ++ snd (enc_items c e (zlen pre) l) ++ post) (length l)
            (fst (enc_items c e (zlen pre) l) ++ rest) = Some l.
Proof.
  induction l as [|a l IH]; intros pre post rest Hwf Hpre Hb; [reflexivity|].
  cbn [forallb] in Hwf. apply andb_prop in Hwf. destruct Hwf as [Ha Hl].
  cbn [enc_items fst snd length dec_items] in *. rewrite zlen_app in Hb.
  pose proof (zlen_nonneg _ (ic_aux c e a)) as Hax.
  pose proof (zlen_nonneg _ (snd (enc_items c e (zlen pre + zlen (ic_aux c e a)) l))) as Hrest.
  rewrite <- app_assoc.
  rewrite dec_enc by (apply (ok_wt c e wfA OK); [assumption|lia|lia]).
  rewrite <- (app_assoc (ic_aux c e a)).
  rewrite (ok_read c e wfA OK) by (try assumption; lia).
  specialize (IH (pre ++ ic_aux c e a) post rest Hl).
  rewrite zlen_app in IH. rewrite <- app_assoc in IH.
  rewrite IH by lia. reflexivity.
Qed.
Lemma dec_items_enc' : forall l pre post off, off = zlen pre -> forallb wfA l = true -> 0 < zlen pre ->
  off + zlen (snd (enc_items c e off l)) <= U32M ->
  dec_items c e (pre ++ snd (enc_items c e off l) ++ post) (length l) (fst (enc_items c e off l)) = Some l.
Proof.
  intros l pre post off Hoff Hwf Hpre Hb. subst off.
  rewrite <- (app_nil_r (fst (enc_items c e (zlen pre) l))). apply dec_items_enc; assumption.
Qed.
End Items.

(* a stream section and its reader agree *)
Definition sec_ok {A} (enc : Z -> A -> section) (dec : list Z -> list Z -> option A) (wf : A -> bool) : Prop :=
  forall a pre post, wf a = true -> 0 < zlen pre -> zlen pre + zlen (snd (enc (zlen pre) a)) <= U32M ->
    0 <= fst (enc (zlen pre) a) <= zlen (snd (enc (zlen pre) a)) /\
    exists body, slice (pre ++ snd (enc (zlen pre) a) ++ post) (zlen pre) (fst (enc (zlen pre) a)) = Some body
              /\ dec (pre ++ snd (enc (zlen pre) a) ++ post) body = Some a.

Lemma dec_list_hdr_enc : forall e pad n esize ents, 0 <= n < wbits 4 -> 0 <= esize -> zlen ents = n * esize ->
  dec_list_hdr e esize (enc_list_hdr e pad n ++ ents) = Some (n, ents).
Proof.
  intros e pad n esize ents Hn Hes Hlen. unfold dec_list_hdr, enc_list_hdr.
  rewrite <- app_assoc. rewrite take_app by apply length_enc_uint.
  cbn [obnd fst snd]. rewrite dec_enc_uint by exact Hn.
  destruct pad; zl; rewrite Hlen.
  - replace (Z.of_nat 4 + (1 + (1 + (1 + (1 + 0))) + n * esize) <? 4 + n * esize) with false by (symmetry; apply Z.ltb_ge; lia).
    replace (Z.of_nat 4 + (1 + (1 + (1 + (1 + 0))) + n * esize) - (4 + n * esize) =? 0) with false by (symmetry; apply Z.eqb_neq; lia).
    replace (Z.of_nat 4 + (1 + (1 + (1 + (1 + 0))) + n * esize) - (4 + n * esize) =? 4) with true by (symmetry; apply Z.eqb_eq; lia).
    reflexivity.
  - replace (Z.of_nat 4 + (0 + n * esize) <? 4 + n * esize) with false by (symmetry; apply Z.ltb_ge; lia).
    replace (Z.of_nat 4 + (0 + n * esize) - (4 + n * esize) =? 0) with true by (symmetry; apply Z.eqb_eq; lia).
    reflexivity.
Qed.

Lemma lsize_nonneg : forall L, 0 <= lsize L.
Proof. induction L; cbn [lsize]; nia. Qed.

Section Lists.
Context {A : Type} (c : icodec A) (e : endian) (wfA : A -> bool) (OK : icodec_ok c e wfA).

(* extended header: the two configurations the serializer writes *)
Lemma dec_exlist_hdr_enc : forall wide hsize cw n esize ents,
  (wide = true /\ hsize = 16 /\ cw = 8%nat) \/ (wide = false /\ hsize = 12 /\ cw = 4%nat) ->
  0 <= n < wbits 4 -> 0 <= esize < wbits 4 -> zlen ents = n * esize ->
  dec_exlist_hdr e wide esize (enc_exlist_hdr e hsize cw esize n ++ ents) = Some (n, ents).
Proof.
  intros wide hsize cw n esize ents Hcfg Hn Hes Hlen.
  unfold dec_exlist_hdr, enc_exlist_hdr.
  assert (Hz : zlen (enc_uint e 4 hsize ++ enc_uint e 4 esize ++ enc_uint e cw n) = 8 + Z.of_nat cw) by (zl; lia).
  rewrite Hz. rewrite wbits4 in *.
  destruct Hcfg as [[Hw [Hh Hc]]|[Hw [Hh Hc]]]; subst wide hsize cw.
  - change (Z.to_nat (16 - (8 + Z.of_nat 8))) with 0%nat. cbn [repeat]. rewrite app_nil_r, <- !app_assoc.
    rewrite take_app by apply length_enc_uint. cbn [obnd fst snd].
    rewrite take_app by apply length_enc_uint. cbn [obnd fst snd].
    rewrite !dec_enc_uint by (rewrite ?wbits4; lia).
    change (true && (16 <=? 16)) with true. cbn iota.
    rewrite take_app by apply length_enc_uint. cbn [obnd fst snd].
    rewrite dec_enc_uint by (rewrite wbits8; lia).
    rewrite Z.eqb_refl. cbn [negb]. zl. rewrite Hlen.
    replace (Z.of_nat 4 + (Z.of_nat 4 + (Z.of_nat 8 + n * esize)) <? n * esize + 16) with false by (symmetry; apply Z.ltb_ge; lia).
    reflexivity.
  - change (Z.to_nat (12 - (8 + Z.of_nat 4))) with 0%nat. cbn [repeat]. rewrite app_nil_r, <- !app_assoc.
    rewrite take_app by apply length_enc_uint. cbn [obnd fst snd].
    rewrite take_app by apply length_enc_uint. cbn [obnd fst snd].
    rewrite !dec_enc_uint by (rewrite ?wbits4; lia).
    cbn [andb]. cbn iota.
    rewrite take_app by apply length_enc_uint. cbn [obnd fst snd].
    rewrite dec_enc_uint by (rewrite wbits4; lia).
    rewrite Z.eqb_refl. cbn [negb]. zl. rewrite Hlen.
    replace (Z.of_nat 4 + (Z.of_nat 4 + (Z.of_nat 4 + n * esize)) <? n * esize + 12) with false by (symmetry; apply Z.ltb_ge; lia).
    reflexivity.
Qed.

Lemma framed_roundtrip : forall (hdr : list Z) (dech : list Z -> option (Z * list Z)) l pre post,
  (forall ents, zlen ents = zlen l * lsize (ic_layout c) -> dech (hdr ++ ents) = Some (zlen l, ents)) ->
  forallb wfA l = true -> 0 < zlen pre ->
  let ssize := zlen hdr + zlen l * lsize (ic_layout c) in
  let r := enc_items c e (zlen pre + ssize) l in
  zlen pre + zlen (hdr ++ fst r ++ snd r) <= U32M ->
  0 <= ssize <= zlen (hdr ++ fst r ++ snd r) /\
  exists body, slice (pre ++ (hdr ++ fst r ++ snd r) ++ post) (zlen pre) ssize = Some body /\
     obnd (dech body) (fun nr => dec_items c e (pre ++ (hdr ++ fst r ++ snd r) ++ post) (Z.to_nat (fst nr)) (snd nr)) = Some l.
Proof.
  intros hdr dech l pre post Hdech Hwf Hpre ssize r Hb.
  set (esize := lsize (ic_layout c)) in *.
  set (off := zlen pre + ssize) in *.
  pose proof (lsize_nonneg (ic_layout c)) as Hes. fold esize in Hes.
  pose proof (zlen_nonneg _ l) as Hl. pose proof (zlen_nonneg _ hdr) as Hh.
  assert (Hmul : 0 <= zlen l * esize) by (apply Z.mul_nonneg_nonneg; lia).
  rewrite !zlen_app in *.
  pose proof (zlen_nonneg _ (snd r)) as Hax.
  pose proof (zlen_nonneg _ (fst r)) as Hfs.
  assert (Hssdef : ssize = zlen hdr + zlen l * esize) by reflexivity.
  assert (Hoffdef : off = zlen pre + ssize) by reflexivity.
  assert (Hflen : zlen (fst r) = zlen l * esize)
    by (apply (enc_items_fst_len c e wfA OK); assumption).
  assert (Hbound : off + zlen (snd r) <= U32M) by lia.
  split; [lia|].
  exists (hdr ++ fst r). split.
  - replace (pre ++ (hdr ++ fst r ++ snd r) ++ post) with (pre ++ (hdr ++ fst r) ++ (snd r ++ post))
      by (rewrite <- !app_assoc; reflexivity).
    apply slice_mid'; [reflexivity|]. rewrite zlen_app, Hflen. reflexivity.
  - rewrite Hdech by exact Hflen.
    cbn [obnd fst snd]. rewrite zlen_to_nat.
    replace (pre ++ (hdr ++ fst r ++ snd r) ++ post) with ((pre ++ hdr ++ fst r) ++ snd r ++ post)
      by (rewrite <- !app_assoc; reflexivity).
    assert (Hoff' : off = zlen (pre ++ hdr ++ fst r)).
    { rewrite !zlen_app, Hflen. lia. }
    apply (dec_items_enc' c e wfA OK); try assumption.
    rewrite !zlen_app. pose proof (zlen_nonneg _ (hdr ++ fst r)). lia.
Qed.

Lemma count_bound : forall (l : list A) (hdr : list Z) x, zlen hdr + zlen l * lsize (ic_layout c) <= x -> x <= U32M ->
  0 <= zlen l < wbits 4.
Proof.
  intros l hdr x H1 H2. pose proof (ok_size c e wfA OK). pose proof (zlen_nonneg _ l). pose proof (zlen_nonneg _ hdr).
  rewrite wbits4. unfold U32M in *. split; [lia|]. nia.
Qed.

Theorem list_roundtrip : forall pad, sec_ok (enc_list c e pad) (dec_list c e) (forallb wfA).
Proof.
  intros pad l pre post Hwf Hpre Hb.
  unfold enc_list in *. cbn [fst snd] in *. unfold dec_list.
  apply (framed_roundtrip (enc_list_hdr e pad (zlen l)) (dec_list_hdr e (lsize (ic_layout c)))); try assumption.
  intros ents Hents. apply dec_list_hdr_enc; try assumption; [|apply lsize_nonneg].
  pose proof (framed_roundtrip (enc_list_hdr e pad (zlen l)) (fun _ => None) l pre post) as _.
  eapply count_bound with (hdr := enc_list_hdr e pad (zlen l)); [|exact Hb].
  rewrite !zlen_app. rewrite (enc_items_fst_len c e wfA OK) by assumption.
  pose proof (zlen_nonneg _ pre). pose proof (zlen_nonneg _ (snd (enc_items c e (zlen pre + (zlen (enc_list_hdr e pad (zlen l)) + zlen l * lsize (ic_layout c))) l))). lia.
Qed.

Theorem exlist_roundtrip : forall wide hsize cw,
  (wide = true /\ hsize = 16 /\ cw = 8%nat) \/ (wide = false /\ hsize = 12 /\ cw = 4%nat) ->
  sec_ok (enc_exlist c e hsize cw) (fun all bs => dec_exlist c e wide all bs) (forallb wfA).
Proof.
  intros wide hsize cw Hcfg l pre post Hwf Hpre Hb.
  unfold enc_exlist in *. cbn [fst snd] in *. unfold dec_exlist.
  set (hdr := enc_exlist_hdr e hsize cw (lsize (ic_layout c)) (zlen l)) in *.
  assert (Hx : zlen hdr + zlen l * lsize (ic_layout c) <= U32M).
  { rewrite !zlen_app in Hb. rewrite (enc_items_fst_len c e wfA OK) in Hb by assumption.
    pose proof (zlen_nonneg _ pre). pose proof (zlen_nonneg _ (snd (enc_items c e (zlen pre + (zlen hdr + zlen l * lsize (ic_layout c))) l))). lia. }
  apply (framed_roundtrip hdr (dec_exlist_hdr e wide (lsize (ic_layout c)))); try assumption.
  intros ents Hents. unfold hdr. apply dec_exlist_hdr_enc; try assumption.
  - eapply count_bound with (hdr := hdr); [apply Z.le_refl|exact Hx].
  - pose proof (ok_size c e wfA OK). rewrite wbits4. lia.
Qed.

End Lists.
