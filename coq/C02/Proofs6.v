(* C02/Proofs6.v — CPU contexts (bytes -> registers) and the identifier derivations *)
From Coq Require Import Lia.
From RM Require Import C02.Model C02.Proofs1 C02.Proofs2 C02.Proofs3 C02.Proofs4.
Open Scope Z_scope.

(* ------------------------------------------------------------------ contexts *)
Theorem context_roundtrip : forall e arch L cf v rest,
  ctx_spec arch = Some (L, cf) -> wt L v = true ->
  read_context e arch (enc e L v ++ rest) = if flags_ok cf (ctx_flags arch v) then Some v else None.
Proof.
  intros e arch L cf v rest Hs Hw. unfold read_context. rewrite Hs. rewrite dec_enc by exact Hw. reflexivity.
Qed.

Lemma ctx_spec_table :
  ctx_spec PROCESSOR_ARCHITECTURE_INTEL = Some (L_CONTEXT_X86, CF_CONTEXT_X86) /\
  ctx_spec PROCESSOR_ARCHITECTURE_IA32_ON_WIN64 = Some (L_CONTEXT_X86, CF_CONTEXT_X86) /\
  ctx_spec PROCESSOR_ARCHITECTURE_AMD64 = Some (L_CONTEXT_AMD64, CF_CONTEXT_AMD64) /\
  ctx_spec PROCESSOR_ARCHITECTURE_ARM = Some (L_CONTEXT_ARM, CF_CONTEXT_ARM) /\
  ctx_spec PROCESSOR_ARCHITECTURE_ARM64 = Some (L_CONTEXT_ARM64, CF_CONTEXT_ARM64) /\
  ctx_spec PROCESSOR_ARCHITECTURE_ARM64_OLD = Some (L_CONTEXT_ARM64_OLD, CF_CONTEXT_ARM64_OLD) /\
  ctx_spec PROCESSOR_ARCHITECTURE_MIPS = Some (L_CONTEXT_MIPS, CF_CONTEXT_MIPS) /\
  ctx_spec PROCESSOR_ARCHITECTURE_PPC = Some (L_CONTEXT_PPC, CF_CONTEXT_PPC) /\
  ctx_spec PROCESSOR_ARCHITECTURE_PPC64 = Some (L_CONTEXT_PPC64, CF_CONTEXT_PPC64) /\
  ctx_spec PROCESSOR_ARCHITECTURE_SPARC = Some (L_CONTEXT_SPARC, CF_CONTEXT_SPARC) /\
  ctx_spec PROCESSOR_ARCHITECTURE_MIPS64 = None.
Proof. repeat split. Qed.

(* a context shorter than its struct is refused *)
Lemma dec_short : forall e L bs, zlen bs < lsize L -> dec e L bs = None.
Proof.
  intros e. induction L as [w|w|n t IHt| |t IHt r IHr]; intros bs H.
  - cbn [dec lsize] in *. unfold take. replace (w <=? length bs)%nat with false; [reflexivity|].
    symmetry. apply Nat.leb_gt. unfold zlen in H. lia.
  - cbn [dec lsize] in *. unfold take. replace (w <=? length bs)%nat with false; [reflexivity|].
    symmetry. apply Nat.leb_gt. unfold zlen in H. lia.
  - cbn [dec lsize] in *. revert bs H. induction n as [|n IHn]; intros bs H.
    + pose proof (zlen_nonneg _ bs). cbn in H. lia.
    + destruct (dec e t bs) as [[a bs1]|] eqn:E; [|reflexivity].
      assert (Hl : zlen bs1 < Z.of_nat n * lsize t).
      { destruct (Z_lt_le_dec (zlen bs) (lsize t)) as [Hs|Hs]; [rewrite (IHt bs Hs) in E; discriminate|].
        assert (Hd : zlen bs = lsize t + zlen bs1).
        { clear -E. revert bs a bs1 E. generalize t. clear t.
          induction t as [w|w|n t IHt| |t IHt r IHr]; intros bs a bs1 E.
          - cbn [dec] in E. destruct (take w bs) as [[h r]|] eqn:Et; [|discriminate]. inversion E; subst.
            apply take_some in Et. destruct Et as [E1 E2]. subst bs. rewrite zlen_app. cbn [lsize]. unfold zlen. lia.
          - cbn [dec] in E. destruct (take w bs) as [[h r]|] eqn:Et; [|discriminate]. inversion E; subst.
            apply take_some in Et. destruct Et as [E1 E2]. subst bs. rewrite zlen_app. cbn [lsize]. unfold zlen. lia.
          - cbn [dec lsize] in E |- *. revert bs a bs1 E. induction n as [|n IHn]; intros bs a bs1 E.
            + inversion E; subst. lia.
            + destruct (dec e t bs) as [[x b1]|] eqn:E1; [|discriminate].
              match type of E with match ?X with _ => _ end = _ => destruct X as [[y b2]|] eqn:E2; [|discriminate] end.
              inversion E; subst. apply IHt in E1. apply IHn in E2. lia.
          - cbn in E. inversion E; subst. cbn. lia.
          - cbn [dec lsize] in E |- *. destruct (dec e t bs) as [[x b1]|] eqn:E1; [|discriminate].
            destruct (dec e r b1) as [[y b2]|] eqn:E2; [|discriminate].
            inversion E; subst. apply IHt in E1. apply IHr in E2. lia. }
        rewrite Nat2Z.inj_succ in H. lia. }
      rewrite (IHn bs1 Hl). reflexivity.
  - cbn [lsize] in H. pose proof (zlen_nonneg _ bs). lia.
  - cbn [dec lsize] in *. destruct (dec e t bs) as [[a bs1]|] eqn:E; [|reflexivity].
    destruct (dec e r bs1) as [[b bs2]|] eqn:E2; [|reflexivity].
    exfalso.
    assert (Hsz : forall L bs a bs1, dec e L bs = Some (a, bs1) -> zlen bs = lsize L + zlen bs1).
    { clear. induction L as [w|w|n t IHt| |t IHt r IHr]; intros bs a bs1 E.
      - cbn [dec] in E. destruct (take w bs) as [[h r]|] eqn:Et; [|discriminate]. inversion E; subst.
        apply take_some in Et. destruct Et as [E1 E2]. subst bs. rewrite zlen_app. cbn [lsize]. unfold zlen. lia.
      - cbn [dec] in E. destruct (take w bs) as [[h r]|] eqn:Et; [|discriminate]. inversion E; subst.
        apply take_some in Et. destruct Et as [E1 E2]. subst bs. rewrite zlen_app. cbn [lsize]. unfold zlen. lia.
      - cbn [dec lsize] in E |- *. revert bs a bs1 E. induction n as [|n IHn]; intros bs a bs1 E.
        + inversion E; subst. lia.
        + destruct (dec e t bs) as [[x b1]|] eqn:E1; [|discriminate].
          match type of E with match ?X with _ => _ end = _ => destruct X as [[y b2]|] eqn:E2; [|discriminate] end.
          inversion E; subst. apply IHt in E1. apply IHn in E2. lia.
      - cbn in E. inversion E; subst. cbn. lia.
      - cbn [dec lsize] in E |- *. destruct (dec e t bs) as [[x b1]|] eqn:E1; [|discriminate].
        destruct (dec e r b1) as [[y b2]|] eqn:E2; [|discriminate].
        inversion E; subst. apply IHt in E1. apply IHr in E2. lia. }
    apply Hsz in E. apply Hsz in E2. pose proof (zlen_nonneg _ bs2). lia.
Qed.

Theorem context_short : forall e arch L cf bytes,
  ctx_spec arch = Some (L, cf) -> zlen bytes < lsize L -> read_context e arch bytes = None.
Proof. intros e arch L cf bytes Hs Hl. unfold read_context. rewrite Hs, dec_short by exact Hl. reflexivity. Qed.

(* ------------------------------------------------------------------ identifiers *)
Lemma all_zero_spec : forall l, all_zero l = true <-> Forall (fun b => b = 0) l.
Proof.
  induction l as [|b l IH]; cbn [all_zero forallb]; [split; [constructor|reflexivity]|].
  fold (all_zero l). rewrite andb_true_iff, IH, Z.eqb_eq. split.
  - intros [H1 H2]. constructor; assumption.
  - intro H. inversion H; subst. split; [reflexivity|assumption].
Qed.

(* PDB 7.0: no identifier for the nil GUID whatever the age; otherwise the GUID as text order bytes and the age *)
Lemma debug_id_pdb70 : forall e d1 d2 d3 d4 age f,
  read_debug_id e (CvPdb70 d1 d2 d3 d4 age f) =
    if all_zero (uuid_of_fields d1 d2 d3 d4) then DbgNone else DbgUuid (uuid_of_fields d1 d2 d3 d4) age.
Proof. reflexivity. Qed.
Lemma debug_id_pdb70_nil : forall e age f, read_debug_id e (CvPdb70 0 0 0 [0; 0; 0; 0; 0; 0; 0; 0] age f) = DbgNone.
Proof. reflexivity. Qed.
Lemma debug_id_pdb20 : forall e off s age f, read_debug_id e (CvPdb20 off s age f) = DbgPdb20 s age.
Proof. reflexivity. Qed.
Lemma debug_id_elf_zero : forall e bid, all_zero bid = true -> read_debug_id e (CvElf bid) = DbgNone.
Proof. intros e bid H. cbn [read_debug_id]. rewrite H. reflexivity. Qed.

(* bytes <-> integer, the converse direction of ule_dec_enc *)
Lemma ule_enc_dec : forall l, all_in 1 l = true -> ule_enc (length l) (ule_dec l) = l.
Proof.
  induction l as [|b l IH]; intro H; [reflexivity|].
  cbn [all_in] in H. apply andb_prop in H. destruct H as [Hb Hl]. apply andb_prop in Hb. destruct Hb as [H0 H1].
  apply Z.leb_le in H0. apply Z.ltb_lt in H1. rewrite wbits1 in H1.
  cbn [length ule_enc ule_dec].
  replace ((b + 256 * ule_dec l) mod 256) with b.
  2:{ apply (Z.mod_unique _ _ (ule_dec l)); lia. }
  replace ((b + 256 * ule_dec l) / 256) with (ule_dec l).
  2:{ apply (Z.div_unique _ _ _ b); lia. }
  rewrite IH by exact Hl. reflexivity.
Qed.
Lemma be_enc_dec : forall l, all_in 1 l = true -> enc_uint BE (length l) (dec_uint BE l) = l.
Proof.
  intros l H. unfold enc_uint, dec_uint. rewrite <- (rev_length l).
  rewrite ule_enc_dec; [apply rev_involutive|].
  clear -H. induction l as [|b l IH]; [reflexivity|].
  cbn [all_in] in H. apply andb_prop in H. destruct H as [Hb Hl]. cbn [rev].
  assert (Happ : forall a c, all_in 1 a = true -> all_in 1 c = true -> all_in 1 (a ++ c) = true).
  { induction a as [|x a IHa]; intros c Ha Hc; [exact Hc|]. cbn [app all_in] in *. apply andb_prop in Ha. destruct Ha as [Hx Ha'].
    rewrite Hx. cbn [andb]. apply IHa; assumption. }
  apply Happ; [apply IH; exact Hl|]. cbn [all_in]. rewrite Hb. reflexivity.
Qed.

(* ELF build id in a big-endian dump: the identifier is the build id itself, zero-padded or cut to 16 bytes *)
Lemma debug_id_elf_be : forall bid, all_zero bid = false -> all_in 1 bid = true ->
  read_debug_id BE (CvElf bid) = DbgUuid (firstn 16 (bid ++ repeat 0 16)) 0.
Proof.
  intros bid Hz Hin. cbn [read_debug_id]. rewrite Hz.
  set (g := firstn 16 (bid ++ repeat 0 16)).
  assert (Hlen : length g = 16%nat).
  { unfold g. rewrite firstn_length, app_length, repeat_length. lia. }
  assert (Hg : all_in 1 g = true).
  { unfold g. clear -Hin.
    assert (Hgen : forall n l, all_in 1 l = true -> all_in 1 (firstn n l) = true).
    { induction n as [|n IHn]; intros l Hl; [reflexivity|]. destruct l as [|x l]; [reflexivity|].
      cbn [firstn all_in] in *. apply andb_prop in Hl. destruct Hl as [Hx Hl]. rewrite Hx. cbn [andb]. apply IHn. exact Hl. }
    apply Hgen. induction bid as [|x bid IH]; [reflexivity|]. cbn [app all_in] in *. apply andb_prop in Hin. destruct Hin as [Hx Hb].
    rewrite Hx. cbn [andb]. apply IH. exact Hb. }
  do 16 (destruct g as [|? g]; [discriminate|]). destruct g; [|discriminate].
  cbn [all_in] in Hg. bdestr.
  unfold uuid_of_fields. cbn [firstn skipn].
  pose proof (be_enc_dec [z; z0; z1; z2] ltac:(cbn [all_in]; bsplit; assumption)) as E1.
  pose proof (be_enc_dec [z3; z4] ltac:(cbn [all_in]; bsplit; assumption)) as E2.
  pose proof (be_enc_dec [z5; z6] ltac:(cbn [all_in]; bsplit; assumption)) as E3.
  cbn [length] in E1, E2, E3. rewrite E1, E2, E3. reflexivity.
Qed.


(* ELF build id in a little-endian dump: the three leading GUID fields are byte-swapped (the historical
   Breakpad convention), the last eight bytes are kept *)
Lemma be_enc_le_dec : forall l, all_in 1 l = true -> enc_uint BE (length l) (dec_uint LE l) = rev l.
Proof. intros l H. unfold enc_uint, dec_uint. rewrite ule_enc_dec by exact H. reflexivity. Qed.

Lemma debug_id_elf_le : forall bid g0 g1 g2 g3 g4 g5 g6 g7 tl, all_zero bid = false -> all_in 1 bid = true ->
  firstn 16 (bid ++ repeat 0 16) = g0 :: g1 :: g2 :: g3 :: g4 :: g5 :: g6 :: g7 :: tl ->
  read_debug_id LE (CvElf bid) = DbgUuid (g3 :: g2 :: g1 :: g0 :: g5 :: g4 :: g7 :: g6 :: tl) 0.
Proof.
  intros bid g0 g1 g2 g3 g4 g5 g6 g7 tl Hz Hin Hg. cbn [read_debug_id]. rewrite Hz, Hg.
  assert (Hall : all_in 1 (g0 :: g1 :: g2 :: g3 :: g4 :: g5 :: g6 :: g7 :: tl) = true).
  { rewrite <- Hg. clear -Hin.
    assert (Hgen : forall n l, all_in 1 l = true -> all_in 1 (firstn n l) = true).
    { induction n as [|n IHn]; intros l Hl; [reflexivity|]. destruct l as [|x l]; [reflexivity|].
      cbn [firstn all_in] in *. apply andb_prop in Hl. destruct Hl as [Hx Hl]. rewrite Hx. cbn [andb]. apply IHn. exact Hl. }
    apply Hgen. induction bid as [|x bid IH]; [reflexivity|]. cbn [app all_in] in *. apply andb_prop in Hin. destruct Hin as [Hx Hb].
    rewrite Hx. cbn [andb]. apply IH. exact Hb. }
  cbn [all_in] in Hall. bdestr.
  unfold uuid_of_fields. cbn [firstn skipn].
  pose proof (be_enc_le_dec [g0; g1; g2; g3] ltac:(cbn [all_in]; bsplit; try assumption; reflexivity)) as E1.
  pose proof (be_enc_le_dec [g4; g5] ltac:(cbn [all_in]; bsplit; try assumption; reflexivity)) as E2.
  pose proof (be_enc_le_dec [g6; g7] ltac:(cbn [all_in]; bsplit; try assumption; reflexivity)) as E3.
  cbn [length rev app] in E1, E2, E3. rewrite E1, E2, E3. reflexivity.
Qed.

(* code identifiers are lower-case hexadecimal *)
Definition lower_hex (c : Z) : bool := ((48 <=? c) && (c <=? 57)) || ((97 <=? c) && (c <=? 102)).
Lemma hexdigit_lower : forall d, 0 <= d < 16 -> lower_hex (hexdigit false d) = true.
Proof.
  intros d H. unfold hexdigit, lower_hex. destruct (d <? 10) eqn:E; [apply Z.ltb_lt in E|apply Z.ltb_ge in E].
  - apply orb_true_iff. left. apply andb_true_iff. split; apply Z.leb_le; lia.
  - apply orb_true_iff. right. apply andb_true_iff. split; apply Z.leb_le; lia.
Qed.
Lemma forallb_app' : forall (f : Z -> bool) a b, forallb f a = true -> forallb f b = true -> forallb f (a ++ b) = true.
Proof. intros. rewrite forallb_app. apply andb_true_iff. split; assumption. Qed.
Lemma hex_fixed_lower : forall n z, forallb lower_hex (hex_fixed false n z) = true.
Proof.
  induction n as [|n IH]; intro z; [reflexivity|]. cbn [hex_fixed]. apply forallb_app'; [apply IH|].
  cbn [forallb]. rewrite hexdigit_lower by (apply Z.mod_pos_bound; lia). reflexivity.
Qed.
Lemma hex_min_aux_lower : forall f z, 0 <= z -> forallb lower_hex (hex_min_aux f z) = true.
Proof.
  induction f as [|f IH]; intros z Hz; [reflexivity|]. cbn [hex_min_aux].
  destruct (z <? 16) eqn:E.
  - apply Z.ltb_lt in E. cbn [forallb]. rewrite hexdigit_lower by lia. reflexivity.
  - apply forallb_app'; [apply IH; apply Z.div_pos; lia|]. cbn [forallb].
    rewrite hexdigit_lower by (apply Z.mod_pos_bound; lia). reflexivity.
Qed.
Lemma hex_bytes_lower : forall l, forallb lower_hex (hex_bytes false l) = true.
Proof.
  induction l as [|b l IH]; [reflexivity|]. unfold hex_bytes in *. cbn [flat_map]. apply forallb_app'; [apply hex_fixed_lower|exact IH].
Qed.
Theorem code_id_lower_hex : forall os time size c id, 0 <= size ->
  code_identifier os time size c = Some id -> forallb lower_hex id = true.
Proof.
  intros os time size c id Hs H.
  assert (Hts : forallb lower_hex (time_size_id time size) = true).
  { unfold time_size_id. apply forallb_app'; [apply hex_fixed_lower|apply hex_min_aux_lower; exact Hs]. }
  destruct c as [|d1 d2 d3 d4 age f|off s age f|bid|raw]; cbn [code_identifier] in H.
  - destruct os; try discriminate; injection H as H; subst id; exact Hts.
  - assert (Hmac : forallb lower_hex (hex_fixed false 8 d1 ++ hex_fixed false 4 d2 ++ hex_fixed false 4 d3 ++ hex_bytes false d4) = true).
    { apply forallb_app'; [apply hex_fixed_lower|]. apply forallb_app'; [apply hex_fixed_lower|].
      apply forallb_app'; [apply hex_fixed_lower|apply hex_bytes_lower]. }
    destruct os; injection H as H; subst id; try exact Hts. exact Hmac.
  - injection H as H; subst id. exact Hts.
  - destruct (all_zero bid); [discriminate|]. injection H as H; subst id. apply hex_bytes_lower.
  - discriminate.
Qed.

(* the identifiers of every module read back from a serialized model are the documented functions
   (read_debug_id / code_identifier / debug_file / module_version above) of the model's own records *)
Definition module_ids (e : endian) (os : os_class) (m : mmodule) :=
  (debug_id_string (read_debug_id e (md_cv m)), code_identifier os (md_time m) (md_size m) (md_cv m),
   debug_file (md_name m) (md_cv m), module_version os (md_ver m)).
Definition view_os (v : dview) : os_class :=
  os_of_platform (match v_sysinfo v with SOk s => Some (si_platform s) | _ => None end).
Definition view_module_ids (v : dview) :=
  match v_modules v with SOk l => Some (map (module_ids (v_endian v) (view_os v)) l) | _ => None end.

Theorem identifiers_derivation : forall e m mods, wf_model e m = true -> m_modules m = Some mods ->
  option_map view_module_ids (decode_dump (encode_dump e m)) =
  Some (Some (map (module_ids e (os_of_platform (option_map si_platform (m_sysinfo m)))) mods)).
Proof.
  intros e m mods Hwf Hm. rewrite (dump_roundtrip e m Hwf). cbn [option_map].
  unfold view_module_ids, view_of, view_os. cbn [v_modules v_endian v_sysinfo]. rewrite Hm. cbn [sres_of].
  destruct (m_sysinfo m); reflexivity.
Qed.

(* ------------------------------------------------------------------ statements used by Properties.v *)
Lemma all_layouts_roundtrip :
  Forall (fun p => forall e v rest, wt (snd p) v = true ->
                   dec e (snd p) (enc e (snd p) v ++ rest) = Some (v, rest) /\ zlen (enc e (snd p) v) = lsize (snd p)) ALL_LAYOUTS.
Proof. apply Forall_forall. intros p _ e v rest H. split; [apply dec_enc; exact H|apply enc_zlen; exact H]. Qed.

Lemma debug_id_spec :
  (forall e d1 d2 d3 d4 age f, read_debug_id e (CvPdb70 d1 d2 d3 d4 age f) =
     if all_zero (uuid_of_fields d1 d2 d3 d4) then DbgNone else DbgUuid (uuid_of_fields d1 d2 d3 d4) age) /\
  (forall e age f, read_debug_id e (CvPdb70 0 0 0 [0; 0; 0; 0; 0; 0; 0; 0] age f) = DbgNone) /\
  (forall e off s age f, read_debug_id e (CvPdb20 off s age f) = DbgPdb20 s age) /\
  (forall e bid, all_zero bid = true -> read_debug_id e (CvElf bid) = DbgNone) /\
  (forall bid, all_zero bid = false -> all_in 1 bid = true ->
     read_debug_id BE (CvElf bid) = DbgUuid (firstn 16 (bid ++ repeat 0 16)) 0) /\
  (forall bid g0 g1 g2 g3 g4 g5 g6 g7 tl, all_zero bid = false -> all_in 1 bid = true ->
     firstn 16 (bid ++ repeat 0 16) = g0 :: g1 :: g2 :: g3 :: g4 :: g5 :: g6 :: g7 :: tl ->
     read_debug_id LE (CvElf bid) = DbgUuid (g3 :: g2 :: g1 :: g0 :: g5 :: g4 :: g7 :: g6 :: tl) 0).
Proof.
  split; [exact debug_id_pdb70|]. split; [exact debug_id_pdb70_nil|]. split; [exact debug_id_pdb20|].
  split; [exact debug_id_elf_zero|]. split; [exact debug_id_elf_be|exact debug_id_elf_le].
Qed.
