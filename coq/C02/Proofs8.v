(* C02/Proofs8.v — round 4 streams: MozSoftErrors, Mac boot args, Crashpad info (simple annotations, module list with list /
   simple / object annotations): serialize -> read = model, either byte order, at any offset of any file below 4 GiB *)
From Coq Require Import Lia.
From RM Require Import C02.Model C02.Proofs1 C02.Proofs2 C02.Proofs3.
Open Scope Z_scope.

(* ------------------------------------------------------------------ MozSoftErrors *)
Theorem softerr_roundtrip : forall e, sec_ok (enc_raw e) (dec_softerr e) valid_utf8.
Proof.
  intros e b pre post Hwf Hpre Hb. unfold enc_raw. cbn [fst snd]. pose proof (zlen_nonneg _ b).
  split; [lia|]. exists b. split; [apply slice_mid|]. unfold dec_softerr. rewrite Hwf. reflexivity.
Qed.

(* ------------------------------------------------------------------ MINIDUMP_UTF8_STRING *)
Definition wf_utf8 (s : list Z) : bool := valid_utf8 s && (zlen s <? wbits 4).

Lemma zlen_utf8z : forall e s, zlen (enc_utf8z e s) = 5 + zlen s.
Proof. intros. unfold enc_utf8z. rewrite !zlen_app, zlen_enc_uint, zlen_cons, zlen_nil. lia. Qed.

Lemma read_utf8z_enc : forall e s pre post, wf_utf8 s = true ->
  read_utf8z e (pre ++ enc_utf8z e s ++ post) (zlen pre) = Some s.
Proof.
  intros e s pre post H. unfold wf_utf8 in H. apply andb_prop in H. destruct H as [Hv Hl]. apply Z.ltb_lt in Hl.
  pose proof (zlen_nonneg _ s) as Hs.
  unfold read_utf8z, enc_utf8z. rewrite <- !app_assoc.
  rewrite (slice_mid' pre (enc_uint e 4 (zlen s)) _ (zlen pre) 4) by (rewrite ?zlen_enc_uint; reflexivity).
  cbn [obnd]. rewrite dec_enc_uint by lia.
  rewrite app_assoc.
  rewrite (slice_mid' (pre ++ enc_uint e 4 (zlen s)) s _) by (rewrite ?zlen_app, ?zlen_enc_uint; lia).
  cbn [obnd]. rewrite Hv.
  replace ((pre ++ enc_uint e 4 (zlen s)) ++ s ++ [0] ++ post) with (((pre ++ enc_uint e 4 (zlen s)) ++ s) ++ [0] ++ post)
    by (rewrite <- !app_assoc; reflexivity).
  rewrite (slice_mid' ((pre ++ enc_uint e 4 (zlen s)) ++ s) [0] post) by (rewrite ?zlen_app, ?zlen_enc_uint; reflexivity || lia).
  reflexivity.
Qed.

Lemma read_utf8u_enc : forall e s pre post, wf_utf8 s = true ->
  read_utf8u e (pre ++ (enc_uint e 4 (zlen s) ++ s) ++ post) (zlen pre) = Some s.
Proof.
  intros e s pre post H. unfold wf_utf8 in H. apply andb_prop in H. destruct H as [Hv Hl]. apply Z.ltb_lt in Hl.
  pose proof (zlen_nonneg _ s) as Hs.
  unfold read_utf8u. rewrite <- !app_assoc.
  rewrite (slice_mid' pre (enc_uint e 4 (zlen s)) _ (zlen pre) 4) by (rewrite ?zlen_enc_uint; reflexivity).
  cbn [obnd]. rewrite dec_enc_uint by lia.
  rewrite app_assoc.
  rewrite (slice_mid' (pre ++ enc_uint e 4 (zlen s)) s _) by (rewrite ?zlen_app, ?zlen_enc_uint; lia).
  cbn [obnd]. rewrite Hv. reflexivity.
Qed.

(* ------------------------------------------------------------------ Mac boot args *)
Definition wf_bootargs (x : mbootargs) : bool :=
  u32b (ba_type x) && match ba_args x with Some u => wf_string u | None => false end.

Theorem bootargs_roundtrip : forall e, sec_ok (enc_bootargs e) (dec_bootargs e) wf_bootargs.
Proof.
  intros e [ty args] pre post H Hpre Hb. unfold wf_bootargs in H. cbn [ba_type ba_args] in H.
  destruct args as [u|]; [|bdestr; discriminate].
  unfold enc_bootargs in *. cbn [fst snd ba_type ba_args ostring] in *.
  set (ss := lsize L_MINIDUMP_MAC_BOOTARGS) in *.
  assert (Hss : ss = 12) by reflexivity.
  set (v := vtuple [VInt ty; VInt (zlen pre + ss)]) in *.
  pose proof (zlen_nonneg _ u). pose proof (zlen_nonneg _ pre).
  assert (Hlen : zlen (enc e L_MINIDUMP_MAC_BOOTARGS v) = ss) by (apply enc_zlen_shape; reflexivity).
  rewrite zlen_app, Hlen, zlen_enc_string in Hb.
  assert (Hwt : wt L_MINIDUMP_MAC_BOOTARGS v = true).
  { unfold v, L_MINIDUMP_MAC_BOOTARGS. hyps. wtsolve. }
  assert (Hdec : dec e L_MINIDUMP_MAC_BOOTARGS (enc e L_MINIDUMP_MAC_BOOTARGS v) = Some (v, [])) by (apply dec_enc_nil; exact Hwt).
  set (bs := enc e L_MINIDUMP_MAC_BOOTARGS v) in *.
  split; [rewrite zlen_app, Hlen; pose proof (zlen_nonneg _ (enc_string e u)); lia|].
  exists bs. split.
  - rewrite <- app_assoc. apply slice_mid'; [reflexivity|]. symmetry. exact Hlen.
  - unfold dec_bootargs. rewrite Hdec. unfold v. cbn [vtuple].
    replace (pre ++ (bs ++ enc_string e u) ++ post) with ((pre ++ bs) ++ enc_string e u ++ post) by (rewrite <- !app_assoc; reflexivity).
    replace (zlen pre + ss) with (zlen (pre ++ bs)) by (rewrite zlen_app, Hlen; reflexivity).
    bdestr. rewrite read_string_enc by assumption. reflexivity.
Qed.

(* ------------------------------------------------------------------ counted lists behind a location descriptor *)
Section Counted.
Context {A : Type} (c : icodec A) (e : endian) (wfA : A -> bool) (OK : icodec_ok c e wfA).

Theorem counted_roundtrip : forall bound, sec_ok (enc_counted c e) (counted_body c bound e) (forallb wfA).
Proof.
  intros bound l pre post Hwf Hpre Hb. unfold enc_counted in *. cbn [fst snd] in *.
  set (es := lsize (ic_layout c)) in *.
  set (ssize := 4 + zlen l * es) in *.
  set (r := enc_items c e (zlen pre + ssize) l) in *.
  set (hdr := enc_uint e 4 (zlen l)) in *.
  pose proof (lsize_nonneg (ic_layout c)) as Hes. fold es in Hes.
  pose proof (zlen_nonneg _ l) as Hl. pose proof (zlen_nonneg _ pre) as Hp. pose proof (zlen_nonneg _ post) as Hpo.
  pose proof (zlen_nonneg _ (snd r)) as Hax.
  assert (Hmul : 0 <= zlen l * es) by (apply Z.mul_nonneg_nonneg; lia).
  assert (Hflen : zlen (fst r) = zlen l * es) by (apply (enc_items_fst_len c e wfA OK); assumption).
  assert (Hh : zlen hdr = 4) by (unfold hdr; rewrite zlen_enc_uint; reflexivity).
  rewrite !zlen_app, Hh, Hflen in Hb.
  assert (Hn : 0 <= zlen l < wbits 4).
  { eapply (count_bound c e wfA OK) with (hdr := hdr) (x := ssize); [rewrite Hh; unfold ssize; lia|unfold ssize; lia]. }
  split; [rewrite !zlen_app, Hh, Hflen; unfold ssize; lia|].
  exists (hdr ++ fst r). split.
  - replace (pre ++ (hdr ++ fst r ++ snd r) ++ post) with (pre ++ (hdr ++ fst r) ++ (snd r ++ post))
      by (rewrite <- !app_assoc; reflexivity).
    apply slice_mid'; [reflexivity|]. rewrite zlen_app, Hh, Hflen. reflexivity.
  - unfold counted_body.
    replace (zlen (hdr ++ fst r) =? 0) with false by (symmetry; apply Z.eqb_neq; rewrite zlen_app, Hh, Hflen; lia).
    rewrite take_app by apply length_enc_uint. cbn [obnd fst snd].
    replace (dec_uint e hdr) with (zlen l) by (unfold hdr; rewrite dec_enc_uint by exact Hn; reflexivity).
    fold es.
    replace (bound && (zlen (pre ++ (hdr ++ fst r ++ snd r) ++ post) <? zlen l * es)) with false.
    2:{ symmetry. apply andb_false_intro2. apply Z.ltb_ge. rewrite !zlen_app, Hh, Hflen. lia. }
    rewrite zlen_to_nat.
    replace (pre ++ (hdr ++ fst r ++ snd r) ++ post) with ((pre ++ hdr ++ fst r) ++ snd r ++ post)
      by (rewrite <- !app_assoc; reflexivity).
    apply (dec_items_enc' c e wfA OK); try assumption.
    + rewrite !zlen_app, Hh, Hflen. unfold ssize. lia.
    + rewrite !zlen_app, Hh, Hflen. lia.
    + change (zlen pre + ssize + zlen (snd r) <= U32M). unfold ssize. lia.
Qed.

Lemma counted_size : forall off l, fst (enc_counted c e off l) = 4 + zlen l * lsize (ic_layout c).
Proof. reflexivity. Qed.
End Counted.

(* ------------------------------------------------------------------ the three annotation item kinds *)
Definition wf_kv (kv : list Z * list Z) : bool := wf_utf8 (fst kv) && wf_utf8 (snd kv).

Lemma dict_ok : forall e, icodec_ok dict_codec e wf_kv.
Proof.
  intro e. constructor.
  - cbn [ic_layout dict_codec]. lsize_tac.
  - intros kv off H. reflexivity.
  - intros [k v] off H Hoff Hb. unfold wf_kv in H. cbn [fst snd ic_aux ic_value ic_layout dict_codec] in *.
    rewrite zlen_app, !zlen_utf8z in Hb. pose proof (zlen_nonneg _ k). pose proof (zlen_nonneg _ v).
    unfold L_MINIDUMP_SIMPLE_STRING_DICTIONARY_ENTRY. hyps. wtsolve.
  - intros [k v] pre post H Hpre Hb. unfold wf_kv in H. cbn [fst snd ic_aux ic_value ic_read dict_codec vtuple] in *. bdestr.
    rewrite <- app_assoc. rewrite read_utf8z_enc by assumption.
    replace (pre ++ enc_utf8z e k ++ enc_utf8z e v ++ post) with ((pre ++ enc_utf8z e k) ++ enc_utf8z e v ++ post)
      by (rewrite <- !app_assoc; reflexivity).
    replace (zlen pre + 5 + zlen k) with (zlen (pre ++ enc_utf8z e k)) by (rewrite zlen_app, zlen_utf8z; lia).
    rewrite read_utf8z_enc by assumption. reflexivity.
Qed.

Lemma strlist_ok : forall e, icodec_ok strlist_codec e wf_utf8.
Proof.
  intro e. constructor.
  - cbn [ic_layout strlist_codec]. lsize_tac.
  - intros s off H. reflexivity.
  - intros s off H Hoff Hb. cbn [ic_aux ic_value ic_layout strlist_codec] in *.
    rewrite zlen_utf8z in Hb. pose proof (zlen_nonneg _ s).
    unfold L_MINIDUMP_RVA_LIST. hyps. wtsolve.
  - intros s pre post H Hpre Hb. cbn [ic_aux ic_value ic_read strlist_codec vtuple] in *.
    rewrite read_utf8z_enc by assumption. reflexivity.
Qed.

(* the value RVA of a non-string annotation is an arbitrary u32; type 1 carries a string *)
Definition wf_annot (a : mannot) : bool :=
  wf_utf8 (an_name a) && u16b (an_ty a) && u16b (an_reserved a)
  && match an_value a with
     | inl s => (an_ty a =? ANNOT_STRING) && wf_utf8 s
     | inr r => negb (an_ty a =? ANNOT_STRING) && u32b r
     end.

Lemma annot_ok : forall e, icodec_ok annot_codec e wf_annot.
Proof.
  intro e. constructor.
  - cbn [ic_layout annot_codec]. lsize_tac.
  - intros a off H. reflexivity.
  - intros [name ty rs val] off H Hoff Hb. unfold wf_annot in H. cbn [an_name an_ty an_reserved an_value ic_aux ic_value ic_layout annot_codec] in *.
    rewrite zlen_app, zlen_utf8z in Hb. pose proof (zlen_nonneg _ name).
    destruct val as [s|r].
    + rewrite zlen_app, zlen_enc_uint in Hb. pose proof (zlen_nonneg _ s).
      unfold L_MINIDUMP_ANNOTATION. hyps. wtsolve.
    + unfold L_MINIDUMP_ANNOTATION. hyps. wtsolve.
  - intros [name ty rs val] pre post H Hpre Hb. unfold wf_annot in H.
    cbn [an_name an_ty an_reserved an_value ic_aux ic_value ic_read annot_codec vtuple] in *. bdestr.
    rewrite <- app_assoc. rewrite read_utf8z_enc by assumption.
    destruct val as [s|r]; bdestr.
    + match goal with Hx : (ty =? ANNOT_STRING) = true |- _ => rewrite Hx end.
      replace (pre ++ enc_utf8z e name ++ (enc_uint e 4 (zlen s) ++ s) ++ post)
        with ((pre ++ enc_utf8z e name) ++ (enc_uint e 4 (zlen s) ++ s) ++ post) by (rewrite <- !app_assoc; reflexivity).
      replace (zlen pre + 5 + zlen name) with (zlen (pre ++ enc_utf8z e name)) by (rewrite zlen_app, zlen_utf8z; lia).
      rewrite read_utf8u_enc by assumption. reflexivity.
    + match goal with Hx : negb (ty =? ANNOT_STRING) = true |- _ => apply negb_true_iff in Hx; rewrite Hx end.
      reflexivity.
Qed.

(* ------------------------------------------------------------------ per-module Crashpad information *)
Lemma counted_at : forall (A : Type) (c : icodec A) e wfA, icodec_ok c e wfA ->
  forall bound l all pre post off, off = zlen pre ->
  forallb wfA l = true -> 0 < zlen pre ->
  all = pre ++ snd (enc_counted c e off l) ++ post ->
  off + zlen (snd (enc_counted c e off l)) <= U32M ->
  0 <= fst (enc_counted c e off l) <= zlen (snd (enc_counted c e off l)) /\
  dec_counted c e all bound (fst (enc_counted c e off l)) off = Some l.
Proof.
  intros A c e wfA OK bound l all pre post off Hoff Hwf Hpre Hall Hb. subst off all.
  destruct (counted_roundtrip c e wfA OK bound l pre post Hwf Hpre Hb) as [Hs [body [Hsl Hd]]].
  split; [exact Hs|]. unfold dec_counted. rewrite Hsl. exact Hd.
Qed.

Lemma skipn_pre : forall (pre x : list Z), skipn (length pre) (pre ++ x) = x.
Proof. induction pre as [|a p IH]; intro x; [reflexivity|]. cbn [length app skipn]. apply IH. Qed.

Lemma dec_at_enc : forall L e v pre rest, wt L v = true ->
  dec_at L e (pre ++ enc e L v ++ rest) (zlen pre) = Some (vflat v).
Proof.
  intros L e v pre rest Hwt. unfold dec_at. pose proof (zlen_nonneg _ pre). pose proof (zlen_nonneg _ (enc e L v ++ rest)).
  replace ((0 <=? zlen pre) && (zlen pre <=? zlen (pre ++ enc e L v ++ rest))) with true.
  2:{ symmetry. apply andb_true_intro. split; apply Z.leb_le; [lia|rewrite zlen_app; lia]. }
  rewrite zlen_to_nat, skipn_pre, dec_enc by exact Hwt. reflexivity.
Qed.

Definition wf_cmodule (m : cmodule) : bool :=
  u32b (cm_index m) && u32b (cm_version m) && forallb wf_utf8 (cm_list m) && forallb wf_kv (cm_simple m)
  && forallb wf_annot (cm_objects m).

Lemma cmodule_read : forall e m pre post, wf_cmodule m = true -> 0 < zlen pre ->
  zlen pre + zlen (enc_cmodule_aux e (zlen pre) m) <= U32M ->
  ic_read cmodule_codec e (pre ++ enc_cmodule_aux e (zlen pre) m ++ post)
          (vtuple [VInt (cm_index m); vloc CMOD_SIZE (zlen pre)]) = Some (Some m).
Proof.
  intros e [idx ver l sm ob] pre post H Hpre Hb. unfold wf_cmodule in H.
  cbn [cm_index cm_version cm_list cm_simple cm_objects] in H. bdestr.
  unfold enc_cmodule_aux in *. cbn [cm_index cm_version cm_list cm_simple cm_objects] in *.
  change CMOD_SIZE with 28 in *.
  set (o1 := zlen pre + 28) in *.
  set (s1 := enc_counted strlist_codec e o1 l) in *.
  set (o2 := o1 + zlen (snd s1)) in *.
  set (s2 := enc_counted dict_codec e o2 sm) in *.
  set (o3 := o2 + zlen (snd s2)) in *.
  set (s3 := enc_counted annot_codec e o3 ob) in *.
  set (v := vtuple [VInt ver; vloc (fst s1) o1; vloc (fst s2) o2; vloc (fst s3) o3]) in *.
  set (S := enc e L_MINIDUMP_MODULE_CRASHPAD_INFO v) in *.
  assert (HS : zlen S = 28) by (apply enc_zlen_shape; reflexivity).
  rewrite !zlen_app, HS in Hb.
  pose proof (zlen_nonneg _ pre) as Hp. pose proof (zlen_nonneg _ (snd s1)) as Hn1.
  pose proof (zlen_nonneg _ (snd s2)) as Hn2. pose proof (zlen_nonneg _ (snd s3)) as Hn3.
  set (all := pre ++ (S ++ snd s1 ++ snd s2 ++ snd s3) ++ post) in *.
  destruct (counted_at _ strlist_codec e wf_utf8 (strlist_ok e) true l all (pre ++ S) (snd s2 ++ snd s3 ++ post) o1) as [Hz1 Hd1];
    try assumption.
  { rewrite zlen_app, HS. reflexivity. }
  { rewrite zlen_app. lia. }
  { unfold all. fold s1. rewrite <- !app_assoc. reflexivity. }
  { fold s1. lia. }
  destruct (counted_at _ dict_codec e wf_kv (dict_ok e) false sm all (pre ++ S ++ snd s1) (snd s3 ++ post) o2) as [Hz2 Hd2];
    try assumption.
  { rewrite !zlen_app, HS. unfold o2, o1. lia. }
  { rewrite !zlen_app. lia. }
  { unfold all. fold s2. rewrite <- !app_assoc. reflexivity. }
  { fold s2. unfold o2, o1. lia. }
  destruct (counted_at _ annot_codec e wf_annot (annot_ok e) false ob all (pre ++ S ++ snd s1 ++ snd s2) post o3) as [Hz3 Hd3];
    try assumption.
  { rewrite !zlen_app, HS. unfold o3, o2, o1. lia. }
  { rewrite !zlen_app. lia. }
  { unfold all. fold s3. rewrite <- !app_assoc. reflexivity. }
  { fold s3. unfold o3, o2, o1. lia. }
  fold s1 in Hz1, Hd1. fold s2 in Hz2, Hd2. fold s3 in Hz3, Hd3.
  assert (Hwt : wt L_MINIDUMP_MODULE_CRASHPAD_INFO v = true).
  { unfold v, L_MINIDUMP_MODULE_CRASHPAD_INFO, L_MINIDUMP_LOCATION_DESCRIPTOR. unfold o3, o2, o1 in *. hyps. wtsolve. }
  assert (Hda : dec_at L_MINIDUMP_MODULE_CRASHPAD_INFO e all (zlen pre) = Some (vflat v)).
  { replace all with (pre ++ enc e L_MINIDUMP_MODULE_CRASHPAD_INFO v ++ (snd s1 ++ snd s2 ++ snd s3 ++ post))
      by (unfold all, S; rewrite <- !app_assoc; reflexivity).
    apply dec_at_enc. exact Hwt. }
  cbn [ic_read cmodule_codec vtuple vloc]. rewrite Hda.
  unfold v. cbn [vtuple vloc vflat app].
  rewrite Hd1, Hd2, Hd3. reflexivity.
Qed.

(* ------------------------------------------------------------------ the module list *)
Lemma cmodules_fst_len : forall e l off, zlen (fst (enc_cmodules e off l)) = zlen l * 12.
Proof.
  induction l as [|m l IH]; intro off; [reflexivity|].
  cbn [enc_cmodules fst snd]. rewrite zlen_app, zlen_cons, IH.
  rewrite enc_zlen_shape by reflexivity. change (lsize L_MINIDUMP_MODULE_CRASHPAD_INFO_LINK) with 12. lia.
Qed.

Lemma cmodules_dec : forall e l pre post rest, forallb wf_cmodule l = true -> 0 < zlen pre ->
  zlen pre + zlen (snd (enc_cmodules e (zlen pre) l)) <= U32M ->
  dec_items cmodule_codec e (pre ++ snd (enc_cmodules e (zlen pre) l) ++ post) (length l)
            (fst (enc_cmodules e (zlen pre) l) ++ rest) = Some l.
Proof.
  induction l as [|m l IH]; intros pre post rest Hwf Hpre Hb; [reflexivity|].
  cbn [forallb] in Hwf. apply andb_prop in Hwf. destruct Hwf as [Hm Hl].
  cbn [enc_cmodules fst snd length dec_items] in *. rewrite zlen_app in Hb.
  set (ax := enc_cmodule_aux e (zlen pre) m) in *.
  pose proof (zlen_nonneg _ ax) as Hax.
  pose proof (zlen_nonneg _ (snd (enc_cmodules e (zlen pre + zlen ax) l))) as Hrest.
  rewrite <- app_assoc.
  change (ic_layout cmodule_codec) with L_MINIDUMP_MODULE_CRASHPAD_INFO_LINK.
  rewrite dec_enc.
  2:{ pose proof Hm as Hm'. unfold wf_cmodule in Hm'. change CMOD_SIZE with 28.
      unfold L_MINIDUMP_MODULE_CRASHPAD_INFO_LINK, L_MINIDUMP_LOCATION_DESCRIPTOR. hyps. wtsolve. }
  rewrite <- (app_assoc ax).
  unfold ax at 1. rewrite cmodule_read by (try assumption; fold ax; lia).
  fold ax.
  specialize (IH (pre ++ ax) post rest Hl).
  rewrite zlen_app in IH. rewrite <- app_assoc in IH.
  rewrite IH by lia. reflexivity.
Qed.

Lemma cmodules_dec' : forall e l pre post off, off = zlen pre -> forallb wf_cmodule l = true -> 0 < zlen pre ->
  off + zlen (snd (enc_cmodules e off l)) <= U32M ->
  dec_items cmodule_codec e (pre ++ snd (enc_cmodules e off l) ++ post) (length l) (fst (enc_cmodules e off l)) = Some l.
Proof.
  intros e l pre post off Hoff Hwf Hpre Hb. subst off.
  rewrite <- (app_nil_r (fst (enc_cmodules e (zlen pre) l))). apply cmodules_dec; assumption.
Qed.

Theorem cmodule_list_roundtrip : forall e bound,
  sec_ok (enc_cmodule_list e) (counted_body cmodule_codec bound e) (forallb wf_cmodule).
Proof.
  intros e bound l pre post Hwf Hpre Hb. unfold enc_cmodule_list in *. cbn [fst snd] in *.
  change (lsize L_MINIDUMP_MODULE_CRASHPAD_INFO_LINK) with 12 in *.
  set (ssize := 4 + zlen l * 12) in *.
  set (r := enc_cmodules e (zlen pre + ssize) l) in *.
  set (hdr := enc_uint e 4 (zlen l)) in *.
  pose proof (zlen_nonneg _ l) as Hl. pose proof (zlen_nonneg _ pre) as Hp. pose proof (zlen_nonneg _ post) as Hpo.
  pose proof (zlen_nonneg _ (snd r)) as Hax.
  assert (Hflen : zlen (fst r) = zlen l * 12) by apply cmodules_fst_len.
  assert (Hh : zlen hdr = 4) by (unfold hdr; rewrite zlen_enc_uint; reflexivity).
  rewrite !zlen_app, Hh, Hflen in Hb.
  assert (Hn : 0 <= zlen l < wbits 4) by (rewrite wbits4; unfold U32M in *; lia).
  split; [rewrite !zlen_app, Hh, Hflen; unfold ssize; lia|].
  exists (hdr ++ fst r). split.
  - replace (pre ++ (hdr ++ fst r ++ snd r) ++ post) with (pre ++ (hdr ++ fst r) ++ (snd r ++ post))
      by (rewrite <- !app_assoc; reflexivity).
    apply slice_mid'; [reflexivity|]. rewrite zlen_app, Hh, Hflen. reflexivity.
  - unfold counted_body.
    replace (zlen (hdr ++ fst r) =? 0) with false by (symmetry; apply Z.eqb_neq; rewrite zlen_app, Hh, Hflen; lia).
    rewrite take_app by apply length_enc_uint. cbn [obnd fst snd].
    replace (dec_uint e hdr) with (zlen l) by (unfold hdr; rewrite dec_enc_uint by exact Hn; reflexivity).
    change (lsize (ic_layout cmodule_codec)) with 12.
    replace (bound && (zlen (pre ++ (hdr ++ fst r ++ snd r) ++ post) <? zlen l * 12)) with false.
    2:{ symmetry. apply andb_false_intro2. apply Z.ltb_ge. rewrite !zlen_app, Hh, Hflen. lia. }
    rewrite zlen_to_nat.
    replace (pre ++ (hdr ++ fst r ++ snd r) ++ post) with ((pre ++ hdr ++ fst r) ++ snd r ++ post)
      by (rewrite <- !app_assoc; reflexivity).
    apply cmodules_dec'; try assumption.
    + rewrite !zlen_app, Hh, Hflen. unfold ssize. lia.
    + rewrite !zlen_app, Hh. lia.
    + change (zlen pre + ssize + zlen (snd r) <= U32M). unfold ssize. lia.
Qed.

Lemma cmodlist_at : forall e bound l all pre post off, off = zlen pre ->
  forallb wf_cmodule l = true -> 0 < zlen pre ->
  all = pre ++ snd (enc_cmodule_list e off l) ++ post ->
  off + zlen (snd (enc_cmodule_list e off l)) <= U32M ->
  0 <= fst (enc_cmodule_list e off l) <= zlen (snd (enc_cmodule_list e off l)) /\
  dec_counted cmodule_codec e all bound (fst (enc_cmodule_list e off l)) off = Some l.
Proof.
  intros e bound l all pre post off Hoff Hwf Hpre Hall Hb. subst off all.
  destruct (cmodule_list_roundtrip e bound l pre post Hwf Hpre Hb) as [Hs [body [Hsl Hd]]].
  split; [exact Hs|]. unfold dec_counted. rewrite Hsl. exact Hd.
Qed.

(* ------------------------------------------------------------------ the Crashpad info stream *)
Definition byteb (b : Z) : bool := (0 <=? b) && (b <? 256).
Definition wf_guid (g : list Z) : bool :=
  match g with
  | [d1; d2; d3; b0; b1; b2; b3; b4; b5; b6; b7] =>
      u32b d1 && u16b d2 && u16b d3 && byteb b0 && byteb b1 && byteb b2 && byteb b3 && byteb b4 && byteb b5 && byteb b6 && byteb b7
  | _ => false
  end.
Definition wf_crashpad (x : mcrashpad) : bool :=
  u32b (cp_version x) && negb (cp_version x =? 0) && wf_guid (cp_report x) && wf_guid (cp_client x)
  && forallb wf_kv (cp_simple x) && forallb wf_cmodule (cp_modules x).

Lemma wf_guid_shape : forall g, wf_guid g = true ->
  exists d1 d2 d3 b0 b1 b2 b3 b4 b5 b6 b7, g = [d1; d2; d3; b0; b1; b2; b3; b4; b5; b6; b7].
Proof.
  intros g H. unfold wf_guid in H. do 11 (destruct g as [|? g]; [discriminate|]). destruct g; [|discriminate].
  repeat eexists.
Qed.

Definition guidv (d1 d2 d3 b0 b1 b2 b3 b4 b5 b6 b7 : Z) : value :=
  vtuple [VInt d1; VInt d2; VInt d3; vtuple [VInt b0; VInt b1; VInt b2; VInt b3; VInt b4; VInt b5; VInt b6; VInt b7]].

Theorem crashpad_roundtrip : forall e, sec_ok (enc_crashpad e) (dec_crashpad e) wf_crashpad.
Proof.
  intros e [ver rep cl sm ms] pre post H Hpre Hb. unfold wf_crashpad in H.
  cbn [cp_version cp_report cp_client cp_simple cp_modules] in H.
  apply andb_prop in H. destruct H as [H Hms]. apply andb_prop in H. destruct H as [H Hsm].
  apply andb_prop in H. destruct H as [H Hcl]. apply andb_prop in H. destruct H as [H Hrep].
  apply andb_prop in H. destruct H as [Hver Hnz].
  destruct (wf_guid_shape rep Hrep) as [r1 [r2 [r3 [p0 [p1 [p2 [p3 [p4 [p5 [p6 [p7 Er]]]]]]]]]]]. subst rep.
  destruct (wf_guid_shape cl Hcl) as [c1 [c2 [c3 [q0 [q1 [q2 [q3 [q4 [q5 [q6 [q7 Ec]]]]]]]]]]]. subst cl.
  unfold enc_crashpad in *. cbn [cp_version cp_report cp_client cp_simple cp_modules] in *.
  change CPAD_SIZE with 52 in *.
  set (o1 := zlen pre + 52) in *.
  set (s1 := enc_counted dict_codec e o1 sm) in *.
  set (o2 := o1 + zlen (snd s1)) in *.
  set (s2 := enc_cmodule_list e o2 ms) in *.
  set (v := vtuple [VInt ver; guidv r1 r2 r3 p0 p1 p2 p3 p4 p5 p6 p7; guidv c1 c2 c3 q0 q1 q2 q3 q4 q5 q6 q7;
                    vloc (fst s1) o1; vloc (fst s2) o2]).
  assert (Hun : unflat L_MINIDUMP_CRASHPAD_INFO
                  ([ver] ++ [r1; r2; r3; p0; p1; p2; p3; p4; p5; p6; p7] ++ [c1; c2; c3; q0; q1; q2; q3; q4; q5; q6; q7]
                   ++ [fst s1; o1; fst s2; o2]) = Some (v, [])) by reflexivity.
  rewrite Hun in *. cbn [fst snd] in *.
  set (S := enc e L_MINIDUMP_CRASHPAD_INFO v) in *.
  assert (HS : zlen S = 52) by (apply enc_zlen_shape; reflexivity).
  rewrite !zlen_app, HS in Hb.
  pose proof (zlen_nonneg _ pre) as Hp. pose proof (zlen_nonneg _ (snd s1)) as Hn1. pose proof (zlen_nonneg _ (snd s2)) as Hn2.
  set (all := pre ++ (S ++ snd s1 ++ snd s2) ++ post) in *.
  destruct (counted_at _ dict_codec e wf_kv (dict_ok e) false sm all (pre ++ S) (snd s2 ++ post) o1) as [Hz1 Hd1]; try assumption.
  { rewrite zlen_app, HS. reflexivity. }
  { rewrite zlen_app. lia. }
  { unfold all. fold s1. rewrite <- !app_assoc. reflexivity. }
  { fold s1. lia. }
  destruct (cmodlist_at e true ms all (pre ++ S ++ snd s1) post o2) as [Hz2 Hd2]; try assumption.
  { rewrite !zlen_app, HS. unfold o2, o1. lia. }
  { rewrite !zlen_app. lia. }
  { unfold all. fold s2. rewrite <- !app_assoc. reflexivity. }
  { fold s2. unfold o2, o1. lia. }
  fold s1 in Hz1, Hd1. fold s2 in Hz2, Hd2.
  assert (Hwt : wt L_MINIDUMP_CRASHPAD_INFO v = true).
  { unfold wf_guid, byteb in Hrep, Hcl.
    unfold v, guidv, L_MINIDUMP_CRASHPAD_INFO, L_GUID, L_MINIDUMP_LOCATION_DESCRIPTOR, vloc. cbn [vtuple wt].
    unfold o2, o1 in *. hyps. rewrite ?wbits4, ?wbits2, ?wbits1.
    bsplit; try reflexivity; try (apply Z.leb_le; unfold U32M in *; lia); try (apply Z.ltb_lt; unfold U32M in *; lia). }
  split; [rewrite !zlen_app, HS; lia|].
  exists S. split.
  - unfold all. rewrite <- app_assoc. apply slice_mid'; [reflexivity|]. symmetry. exact HS.
  - unfold dec_crashpad, dec_flat. unfold S. rewrite dec_enc_nil by exact Hwt.
    unfold v, guidv. cbn [vtuple vloc vflat app skipn firstn].
    apply negb_true_iff in Hnz. rewrite Hnz.
    fold all. rewrite Hd1, Hd2. reflexivity.
Qed.

(* ------------------------------------------------------------------ directory + stream: what get_stream returns *)
From RM Require Import C02.Proofs4 C02.Proofs5.
Theorem stream_served : forall (A : Type) (enc : Z -> A -> section) (dec : endian -> list Z -> list Z -> option A)
    (wf : A -> bool) (a : A) e pre post l1 ty l3,
  sec_ok enc (dec e) wf -> wf a = true -> 0 < zlen pre -> zlen pre + zlen (snd (enc (zlen pre) a)) <= U32M ->
  ~ In ty (map fst l3) ->
  get_stream dec e (pre ++ snd (enc (zlen pre) a) ++ post)
             (l1 ++ (ty, (fst (enc (zlen pre) a), zlen pre)) :: l3) ty = SOk a.
Proof.
  intros A enc dec wf a e pre post l1 ty l3 Hok Hwf Hpre Hb Hnot.
  unfold get_stream. rewrite last_entry_wins by exact Hnot.
  destruct (Hok a pre post Hwf Hpre Hb) as [_ [body [Hs Hd]]]. rewrite Hs, Hd. reflexivity.
Qed.

Lemma more_stream_roundtrips : forall e,
  sec_ok (enc_raw e) (dec_softerr e) valid_utf8 /\
  sec_ok (enc_bootargs e) (dec_bootargs e) wf_bootargs /\
  (forall bound, sec_ok (enc_counted dict_codec e) (counted_body dict_codec bound e) (forallb wf_kv)) /\
  (forall bound, sec_ok (enc_counted strlist_codec e) (counted_body strlist_codec bound e) (forallb wf_utf8)) /\
  (forall bound, sec_ok (enc_counted annot_codec e) (counted_body annot_codec bound e) (forallb wf_annot)) /\
  (forall bound, sec_ok (enc_cmodule_list e) (counted_body cmodule_codec bound e) (forallb wf_cmodule)) /\
  sec_ok (enc_crashpad e) (dec_crashpad e) wf_crashpad.
Proof.
  intro e.
  exact (conj (softerr_roundtrip e) (conj (bootargs_roundtrip e)
        (conj (fun b => counted_roundtrip dict_codec e wf_kv (dict_ok e) b)
        (conj (fun b => counted_roundtrip strlist_codec e wf_utf8 (strlist_ok e) b)
        (conj (fun b => counted_roundtrip annot_codec e wf_annot (annot_ok e) b)
        (conj (fun b => cmodule_list_roundtrip e b) (crashpad_roundtrip e))))))).
Qed.
