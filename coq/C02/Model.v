(* C02/Model.v — executable model of the minidump container: serializer and reader.
   Mirrors (reader side):
     minidump/src/minidump.rs   Minidump::read (signature/endianness detection, directory walk,
                                last duplicate wins), get_stream / get_raw_stream / location_slice,
                                read_stream_list (0-or-4 padding), read_ex_stream_list,
                                read_string_utf16, read_codeview, read_debug_id,
                                MinidumpModule::{read, code_identifier, debug_file, version},
                                MinidumpModuleList / UnloadedModuleList / ThreadList / ThreadNames /
                                MemoryList / Memory64List / MemoryInfoList / Exception / SystemInfo /
                                MiscInfo ::read, MinidumpMemory::read, MinidumpThread::stack_memory,
                                memory_at_address, get_memory_at_address
     minidump-common/src/format.rs   layouts, through coq/Gen/Layouts.v (regenerated every run)
   The serializer side ([encode_dump]) is the documented format written positionally; it is
   cross-checked against minidump-synth by the harness.  Definitions only. *)
From RM Require Export Base.Word C02.Layout Gen.Layouts.
From RM Require Import C08.Model.

(* ------------------------------------------------------------------ small helpers *)
Definition all_zero (l : list Z) : bool := forallb (fun b => b =? 0) l.
Definition obnd {A B} (o : option A) (f : A -> option B) : option B :=
  match o with Some a => f a | None => None end.

(* ------------------------------------------------------------------ UTF-16 strings *)
Definition is_high (u : Z) : bool := (55296 <=? u) && (u <=? 56319).   (* D800..DBFF *)
Definition is_low (u : Z) : bool := (56320 <=? u) && (u <=? 57343).    (* DC00..DFFF *)
(* encoding_rs decode_without_bom_handling_and_without_replacement: None on any unpaired surrogate *)
Fixpoint valid_utf16 (l : list Z) : bool :=
  match l with
  | [] => true
  | u :: t =>
      if is_high u then match t with
                        | lo :: t' => is_low lo && valid_utf16 t'
                        | [] => false
                        end
      else if is_low u then false
      else valid_utf16 t
  end.

Definition enc_units (e : endian) (u : list Z) : list Z := flat_map (enc_uint e 2) u.
Fixpoint dec_units (e : endian) (bs : list Z) : list Z :=
  match bs with
  | a :: b :: t => dec_uint e [a; b] :: dec_units e t
  | _ => []
  end.
(* MINIDUMP_STRING: u32 byte length, then UTF-16 code units, no terminator required *)
Definition enc_string (e : endian) (u : list Z) : list Z :=
  enc_uint e 4 (2 * zlen u) ++ enc_units e u.
(* read_string_utf16(&mut offset, bytes, endian) *)
Definition read_string (e : endian) (all : list Z) (off : Z) : option (list Z) :=
  obnd (slice all off 4) (fun h =>
    let size := dec_uint e h in
    if negb (size mod 2 =? 0) || (zlen all <? off + 4 + size) then None
    else obnd (slice all (off + 4) size) (fun bs =>
           let u := dec_units e bs in
           if valid_utf16 u then Some u else None)).

(* ------------------------------------------------------------------ CodeView records *)
Inductive cvrec :=
| CvNone                                                   (* cv_record.data_size = 0 *)
| CvPdb70 (d1 d2 d3 : Z) (d4 : list Z) (age : Z) (file : list Z)
| CvPdb20 (cv_offset sig age : Z) (file : list Z)
| CvElf (build_id : list Z)
| CvUnknown (raw : list Z).

Definition enc_cv (e : endian) (c : cvrec) : list Z :=
  match c with
  | CvNone => []
  | CvPdb70 d1 d2 d3 d4 age file =>
      enc e L_CV_INFO_PDB70
          (vtuple [VInt CV_SIG_Pdb70; vtuple [VInt d1; VInt d2; VInt d3; varr d4]; VInt age]) ++ file
  | CvPdb20 off sig age file =>
      enc e L_CV_INFO_PDB20 (vtuple [VInt CV_SIG_Pdb20; VInt off; VInt sig; VInt age]) ++ file
  | CvElf bid => enc e L_CV_INFO_ELF (vtuple [VInt CV_SIG_Elf]) ++ bid
  | CvUnknown raw => raw
  end.

(* read_codeview on the located bytes (data_size <> 0) *)
Definition dec_cv (e : endian) (bs : list Z) : option cvrec :=
  obnd (take 4 bs) (fun hr =>
    let sig := dec_uint e (fst hr) in
    if sig =? CV_SIG_Pdb70 then
      match dec e L_CV_INFO_PDB70 bs with
      | Some (VSeq _ (VSeq (VSeq (VInt d1) (VSeq (VInt d2) (VSeq (VInt d3) (VSeq d4 VNil)))) (VSeq (VInt age) VNil)), rest) =>
          obnd (unvarr d4) (fun d4l => Some (CvPdb70 d1 d2 d3 d4l age rest))
      | _ => None
      end
    else if sig =? CV_SIG_Pdb20 then
      match dec e L_CV_INFO_PDB20 bs with
      | Some (VSeq _ (VSeq (VInt off) (VSeq (VInt s) (VSeq (VInt age) VNil))), rest) => Some (CvPdb20 off s age rest)
      | _ => None
      end
    else if sig =? CV_SIG_Elf then
      match dec e L_CV_INFO_ELF bs with
      | Some (_, rest) => Some (CvElf rest)
      | None => None
      end
    else Some (CvUnknown bs)).

(* ------------------------------------------------------------------ identifier derivations *)
Definition hexdigit (upper : bool) (d : Z) : Z :=
  if d <? 10 then 48 + d else (if upper then 55 else 87) + d.
Fixpoint hex_fixed (upper : bool) (n : nat) (z : Z) : list Z :=
  match n with O => [] | S n' => hex_fixed upper n' (z / 16) ++ [hexdigit upper (z mod 16)] end.
Fixpoint hex_min_aux (fuel : nat) (z : Z) : list Z :=
  match fuel with
  | O => []
  | S f => if z <? 16 then [hexdigit false z] else hex_min_aux f (z / 16) ++ [hexdigit false (z mod 16)]
  end.
Definition hex_min (z : Z) : list Z := hex_min_aux 16 z.           (* {:x} of a u32/u64 *)
Fixpoint dec_min_aux (fuel : nat) (z : Z) : list Z :=
  match fuel with
  | O => []
  | S f => if z <? 10 then [48 + z] else dec_min_aux f (z / 10) ++ [48 + z mod 10]
  end.
Definition dec_str (z : Z) : list Z := dec_min_aux 20 z.            (* {} of a u32 *)
Definition hex_bytes (upper : bool) (l : list Z) : list Z := flat_map (hex_fixed upper 2) l.

Inductive debugid := DbgNone | DbgUuid (uuid : list Z) (age : Z) | DbgPdb20 (ts age : Z).

(* Uuid::from_fields(d1, d2, d3, d4): big-endian field bytes *)
Definition uuid_of_fields (d1 d2 d3 : Z) (d4 : list Z) : list Z :=
  enc_uint BE 4 d1 ++ enc_uint BE 2 d2 ++ enc_uint BE 2 d3 ++ d4.

(* read_debug_id(codeview, endian) *)
Definition read_debug_id (e : endian) (c : cvrec) : debugid :=
  match c with
  | CvPdb70 d1 d2 d3 d4 age _ =>
      let u := uuid_of_fields d1 d2 d3 d4 in
      if all_zero u then DbgNone else DbgUuid u age
  | CvPdb20 _ sig age _ => DbgPdb20 sig age
  | CvElf bid =>
      if all_zero bid then DbgNone
      else let g := firstn 16 (bid ++ repeat 0 16) in      (* pad with zeros / truncate to a GUID *)
           DbgUuid (uuid_of_fields (dec_uint e (firstn 4 g)) (dec_uint e (firstn 2 (skipn 4 g)))
                                   (dec_uint e (firstn 2 (skipn 6 g))) (skipn 8 g)) 0
  | _ => DbgNone
  end.
(* DebugId::breakpad().to_string() *)
Definition debug_id_string (d : debugid) : option (list Z) :=
  match d with
  | DbgNone => None
  | DbgUuid u age => Some (hex_bytes true u ++ hex_min age)
  | DbgPdb20 ts age => Some (hex_fixed true 8 ts ++ hex_min age)
  end.

Inductive os_class := OsWindows | OsMacIos | OsOther.
Definition os_of_platform (p : option Z) : os_class :=
  match p with
  | None => OsOther
  | Some id => if (id =? PLATFORM_VER_PLATFORM_WIN32_WINDOWS) || (id =? PLATFORM_VER_PLATFORM_WIN32_NT) then OsWindows
               else if (id =? PLATFORM_MacOs) || (id =? PLATFORM_Ios) then OsMacIos
               else OsOther
  end.

(* "{:08X}{:x}" of (time_date_stamp, size_of_image), lower-cased by CodeId::new *)
Definition time_size_id (time size : Z) : list Z := hex_fixed false 8 time ++ hex_min size.

(* MinidumpModule::code_identifier *)
Definition code_identifier (os : os_class) (time size : Z) (c : cvrec) : option (list Z) :=
  match c with
  | CvPdb70 d1 d2 d3 d4 _ _ =>
      match os with
      | OsMacIos => Some (hex_fixed false 8 d1 ++ hex_fixed false 4 d2 ++ hex_fixed false 4 d3 ++ hex_bytes false d4)
      | _ => Some (time_size_id time size)
      end
  | CvPdb20 _ _ _ _ => Some (time_size_id time size)
  | CvElf bid => if all_zero bid then None else Some (hex_bytes false bid)
  | CvNone => match os with OsWindows => Some (time_size_id time size) | _ => None end
  | CvUnknown _ => None
  end.

Fixpoint until_nul (l : list Z) : list Z :=
  match l with [] => [] | b :: t => if b =? 0 then [] else b :: until_nul t end.
(* MinidumpModule::debug_file: PDB file name bytes up to the first NUL (UTF-8, lossy), or the
   module name for ELF.  inl = raw bytes, inr = UTF-16 units of the module name *)
Definition debug_file (name : list Z) (c : cvrec) : option (list Z + list Z) :=
  match c with
  | CvPdb70 _ _ _ _ _ file => Some (inl (until_nul file))
  | CvPdb20 _ _ _ file => Some (inl (until_nul file))
  | CvElf _ => Some (inr name)
  | _ => None
  end.

Definition dotted (a b c d : Z) : list Z :=
  dec_str a ++ [46] ++ dec_str b ++ [46] ++ dec_str c ++ [46] ++ dec_str d.
(* MinidumpModule::version; ver = the 13 u32 of VS_FIXEDFILEINFO *)
Definition module_version (os : os_class) (ver : list Z) : option (list Z) :=
  match ver with
  | sig :: sv :: fvh :: fvl :: pvh :: pvl :: _ =>
      if (sig =? VS_FFI_SIGNATURE) && (sv =? VS_FFI_STRUCVERSION) then
        match os with
        | OsOther => Some (dotted fvh fvl pvh pvl)
        | _ => Some (dotted (fvh / 65536) (fvh mod 65536) (fvl / 65536) (fvl mod 65536))
        end
      else None
  | _ => None
  end.


(* ------------------------------------------------------------------ CPU contexts *)
(* MinidumpContext::read: the layout is chosen by the raw processor_architecture of the system info;
   the struct is read; ContextFlagsCpu::from_flags(context_flags) (= flags & CONTEXT_CPU_MASK, restricted
   to the declared cpu bits; u64 flag words are truncated to u32 first) must equal the architecture's constant *)
Definition ctx_spec (arch : Z) : option (layout * Z) :=
  if (arch =? PROCESSOR_ARCHITECTURE_INTEL) || (arch =? PROCESSOR_ARCHITECTURE_IA32_ON_WIN64) then Some (L_CONTEXT_X86, CF_CONTEXT_X86)
  else if arch =? PROCESSOR_ARCHITECTURE_AMD64 then Some (L_CONTEXT_AMD64, CF_CONTEXT_AMD64)
  else if arch =? PROCESSOR_ARCHITECTURE_PPC then Some (L_CONTEXT_PPC, CF_CONTEXT_PPC)
  else if arch =? PROCESSOR_ARCHITECTURE_PPC64 then Some (L_CONTEXT_PPC64, CF_CONTEXT_PPC64)
  else if arch =? PROCESSOR_ARCHITECTURE_SPARC then Some (L_CONTEXT_SPARC, CF_CONTEXT_SPARC)
  else if arch =? PROCESSOR_ARCHITECTURE_ARM then Some (L_CONTEXT_ARM, CF_CONTEXT_ARM)
  else if arch =? PROCESSOR_ARCHITECTURE_ARM64 then Some (L_CONTEXT_ARM64, CF_CONTEXT_ARM64)
  else if arch =? PROCESSOR_ARCHITECTURE_ARM64_OLD then Some (L_CONTEXT_ARM64_OLD, CF_CONTEXT_ARM64_OLD)
  else if arch =? PROCESSOR_ARCHITECTURE_MIPS then Some (L_CONTEXT_MIPS, CF_CONTEXT_MIPS)
  else None.
(* context_flags is the first field, except in CONTEXT_AMD64 where six home registers precede it *)
Definition ctx_flags (arch : Z) (v : value) : Z :=
  nth (if arch =? PROCESSOR_ARCHITECTURE_AMD64 then 6%nat else 0%nat) (vflat v) 0.
Definition flags_ok (cf flags : Z) : bool :=
  Z.land (Z.land (flags mod 4294967296) CONTEXT_CPU_MASK) CF_ALL_BITS =? cf.
Definition read_context (e : endian) (arch : Z) (bytes : list Z) : option value :=
  match ctx_spec arch with
  | None => None
  | Some (L, cf) =>
      match dec e L bytes with
      | None => None
      | Some (v, _) => if flags_ok cf (ctx_flags arch v) then Some v else None
      end
  end.

(* ------------------------------------------------------------------ list framing *)
(* read_stream_list header: u32 count; the stream is exactly 4 + n*size bytes, or 4 more (padding) *)
Definition dec_list_hdr (e : endian) (esize : Z) (bs : list Z) : option (Z * list Z) :=
  obnd (take 4 bs) (fun hr =>
    let n := dec_uint e (fst hr) in
    let counted := 4 + n * esize in
    if zlen bs <? counted then None
    else if zlen bs - counted =? 0 then Some (n, snd hr)
    else if zlen bs - counted =? 4 then Some (n, skipn 4 (snd hr))
    else None).
Definition enc_list_hdr (e : endian) (pad : bool) (n : Z) : list Z :=
  enc_uint e 4 n ++ (if pad then [0; 0; 0; 0] else []).

(* read_ex_stream_list_with header: size_of_header, size_of_entry (u32 each), number_of_entries, then
   the rest of the header skipped.  number_of_entries is a u32, except that with [wide]
   (MINIDUMP_MEMORY_INFO_LIST) a header of 16 bytes or more stores it as a u64 *)
Definition dec_exlist_hdr (e : endian) (wide : bool) (esize : Z) (bs : list Z) : option (Z * list Z) :=
  obnd (take 4 bs) (fun a => obnd (take 4 (snd a)) (fun b =>
    let hsize := dec_uint e (fst a) in
    let es := dec_uint e (fst b) in
    let cw := if wide && (16 <=? hsize) then 8%nat else 4%nat in
    obnd (take cw (snd b)) (fun c =>
    let n := dec_uint e (fst c) in
    if negb (es =? esize) then None
    else if zlen bs <? n * es + hsize then None
    else if hsize <? 8 + Z.of_nat cw then None
    else Some (n, skipn (Z.to_nat (hsize - 8 - Z.of_nat cw)) (snd c))))).
(* the serializer: header of [hsize] bytes whose count field is [cw] bytes wide (4 for
   MINIDUMP_UNLOADED_MODULE_LIST, 8 for MINIDUMP_MEMORY_INFO_LIST), zero-filled up to hsize *)
Definition enc_exlist_hdr (e : endian) (hsize : Z) (cw : nat) (esize n : Z) : list Z :=
  let h := enc_uint e 4 hsize ++ enc_uint e 4 esize ++ enc_uint e cw n in
  h ++ repeat 0 (Z.to_nat (hsize - zlen h)).

(* one list item type: its entry layout, its out-of-line data, how the entry refers to it and how
   the reader resolves an entry.  ic_read: None = the whole stream is an error; Some None = the
   entry is skipped; Some (Some a) = item *)
Record icodec (A : Type) := {
  ic_layout : layout;
  ic_aux : endian -> A -> list Z;
  ic_value : A -> Z -> value;
  ic_read : endian -> list Z -> value -> option (option A)
}.
Arguments ic_layout {A}. Arguments ic_aux {A}. Arguments ic_value {A}. Arguments ic_read {A}.

Fixpoint enc_items {A} (c : icodec A) (e : endian) (auxoff : Z) (l : list A) : list Z * list Z :=
  match l with
  | [] => ([], [])
  | a :: t =>
      let ax := ic_aux c e a in
      let r := enc_items c e (auxoff + zlen ax) t in
      (enc e (ic_layout c) (ic_value c a auxoff) ++ fst r, ax ++ snd r)
  end.
Fixpoint dec_items {A} (c : icodec A) (e : endian) (all : list Z) (n : nat) (bs : list Z) : option (list A) :=
  match n with
  | O => Some []
  | S n' =>
      match dec e (ic_layout c) bs with
      | None => None
      | Some (v, r) =>
          match ic_read c e all v with
          | None => None
          | Some oa =>
              match dec_items c e all n' r with
              | None => None
              | Some l => Some (match oa with Some a => a :: l | None => l end)
              end
          end
      end
  end.

(* a stream section: (size of the stream proper, stream bytes followed by its out-of-line data) *)
Definition section := (Z * list Z)%type.

Definition enc_list {A} (c : icodec A) (e : endian) (pad : bool) (off : Z) (l : list A) : section :=
  let hdr := enc_list_hdr e pad (zlen l) in
  let ssize := zlen hdr + zlen l * lsize (ic_layout c) in
  let r := enc_items c e (off + ssize) l in
  (ssize, hdr ++ fst r ++ snd r).
Definition dec_list {A} (c : icodec A) (e : endian) (all bs : list Z) : option (list A) :=
  obnd (dec_list_hdr e (lsize (ic_layout c)) bs) (fun nr => dec_items c e all (Z.to_nat (fst nr)) (snd nr)).

Definition enc_exlist {A} (c : icodec A) (e : endian) (hsize : Z) (cw : nat) (off : Z) (l : list A) : section :=
  let hdr := enc_exlist_hdr e hsize cw (lsize (ic_layout c)) (zlen l) in
  let ssize := zlen hdr + zlen l * lsize (ic_layout c) in
  let r := enc_items c e (off + ssize) l in
  (ssize, hdr ++ fst r ++ snd r).
Definition dec_exlist {A} (c : icodec A) (e : endian) (wide : bool) (all bs : list Z) : option (list A) :=
  obnd (dec_exlist_hdr e wide (lsize (ic_layout c)) bs) (fun nr => dec_items c e all (Z.to_nat (fst nr)) (snd nr)).

(* ------------------------------------------------------------------ the items *)
Definition vloc (size rva : Z) : value := vtuple [VInt size; VInt rva].
(* location that no reader can resolve (used to serialize "absent" out-of-line data) *)
Definition BAD_RVA : Z := 4294967295.

(* --- memory regions (MemoryList) *)
Record mregion := { mr_base : Z; mr_bytes : list Z }.
Definition region_codec : icodec mregion := {|
  ic_layout := L_MINIDUMP_MEMORY_DESCRIPTOR;
  ic_aux := fun _ r => mr_bytes r;
  ic_value := fun r off => vtuple [VInt (mr_base r); vloc (zlen (mr_bytes r)) off];
  ic_read := fun _ all v =>
    match v with
    | VSeq (VInt base) (VSeq (VSeq (VInt size) (VSeq (VInt rva) VNil)) VNil) =>
        (* MinidumpMemory::read: null rva or size, or out of bounds: the region is skipped *)
        if (rva =? 0) || (size =? 0) then Some None
        else match slice all rva size with
             | Some b => Some (Some {| mr_base := base; mr_bytes := b |})
             | None => Some None
             end
    | _ => None
    end |}.

(* --- threads *)
Record mthread := {
  th_id : Z; th_suspend : Z; th_pclass : Z; th_prio : Z; th_teb : Z;
  th_stack_base : Z;
  th_stack : option (list Z);      (* None: null stack descriptor (size 0, rva 0) *)
  th_ctx : option (list Z)         (* None: context location out of bounds *)
}.
Definition obytes (o : option (list Z)) : list Z := match o with Some b => b | None => [] end.
Definition thread_codec : icodec mthread := {|
  ic_layout := L_MINIDUMP_THREAD;
  ic_aux := fun _ t => obytes (th_stack t) ++ obytes (th_ctx t);
  ic_value := fun t off =>
    vtuple [VInt (th_id t); VInt (th_suspend t); VInt (th_pclass t); VInt (th_prio t); VInt (th_teb t);
            vtuple [VInt (th_stack_base t);
                    match th_stack t with Some b => vloc (zlen b) off | None => vloc 0 0 end];
            match th_ctx t with
            | Some c => vloc (zlen c) (off + zlen (obytes (th_stack t)))
            | None => vloc 1 BAD_RVA
            end];
  ic_read := fun _ all v =>
    match v with
    | VSeq (VInt id) (VSeq (VInt su) (VSeq (VInt pc) (VSeq (VInt pr) (VSeq (VInt teb)
        (VSeq (VSeq (VInt sb) (VSeq (VSeq (VInt ssz) (VSeq (VInt srva) VNil)) VNil))
        (VSeq (VSeq (VInt csz) (VSeq (VInt crva) VNil)) VNil)))))) =>
        Some (Some {| th_id := id; th_suspend := su; th_pclass := pc; th_prio := pr; th_teb := teb;
                      th_stack_base := sb;
                      th_stack := if (srva =? 0) || (ssz =? 0) then None else slice all srva ssz;
                      th_ctx := slice all crva csz |})
    | _ => None
    end |}.

(* --- modules *)
Record mmodule := {
  md_base : Z; md_size : Z; md_checksum : Z; md_time : Z;
  md_name : list Z;                (* UTF-16 code units *)
  md_ver : list Z;                 (* VS_FIXEDFILEINFO: 13 u32 *)
  md_cv : cvrec;
  md_misc : Z * Z;                 (* misc_record location, never followed by the reader *)
  md_res : list Z                  (* reserved0, reserved1: 4 u32 *)
}.
Definition bad_image (base size : Z) : bool := (size =? 0) || (size >? U64MAX - base).
Definition module_codec : icodec mmodule := {|
  ic_layout := L_MINIDUMP_MODULE;
  ic_aux := fun e m => enc_string e (md_name m) ++ enc_cv e (md_cv m);
  ic_value := fun m off =>
    let nlen := 4 + 2 * zlen (md_name m) in
    vtuple [VInt (md_base m); VInt (md_size m); VInt (md_checksum m); VInt (md_time m); VInt off;
            varr (md_ver m);
            vloc (zlen (enc_cv LE (md_cv m))) (off + nlen);     (* size 0 = no CodeView record *)
            vloc (fst (md_misc m)) (snd (md_misc m));
            varr (firstn 2 (md_res m)); varr (skipn 2 (md_res m))];
  ic_read := fun e all v =>
    match v with
    | VSeq (VInt base) (VSeq (VInt size) (VSeq (VInt ck) (VSeq (VInt tm) (VSeq (VInt nrva)
        (VSeq ver (VSeq (VSeq (VInt cvsz) (VSeq (VInt cvrva) VNil))
        (VSeq (VSeq (VInt msz) (VSeq (VInt mrva) VNil)) (VSeq r0 (VSeq r1 VNil))))))))) =>
        if bad_image base size then Some None
        else
          obnd (read_string e all nrva) (fun name =>
          obnd (if cvsz =? 0 then Some CvNone else obnd (slice all cvrva cvsz) (dec_cv e)) (fun cv =>
          obnd (unvarr ver) (fun verl => obnd (unvarr r0) (fun r0l => obnd (unvarr r1) (fun r1l =>
            Some (Some {| md_base := base; md_size := size; md_checksum := ck; md_time := tm;
                          md_name := name; md_ver := verl; md_cv := cv; md_misc := (msz, mrva);
                          md_res := r0l ++ r1l |}))))))
    | _ => None
    end |}.

(* --- unloaded modules *)
Record munloaded := { um_base : Z; um_size : Z; um_checksum : Z; um_time : Z; um_name : list Z }.
Definition unloaded_codec : icodec munloaded := {|
  ic_layout := L_MINIDUMP_UNLOADED_MODULE;
  ic_aux := fun e m => enc_string e (um_name m);
  ic_value := fun m off => vtuple [VInt (um_base m); VInt (um_size m); VInt (um_checksum m); VInt (um_time m); VInt off];
  ic_read := fun e all v =>
    match v with
    | VSeq (VInt base) (VSeq (VInt size) (VSeq (VInt ck) (VSeq (VInt tm) (VSeq (VInt nrva) VNil)))) =>
        if bad_image base size then None          (* the whole stream is refused *)
        else obnd (read_string e all nrva) (fun name =>
               Some (Some {| um_base := base; um_size := size; um_checksum := ck; um_time := tm; um_name := name |}))
    | _ => None
    end |}.

(* --- thread names: (thread id, name); an unreadable name drops the entry only *)
Definition tname_codec : icodec (Z * list Z) := {|
  ic_layout := L_MINIDUMP_THREAD_NAME;
  ic_aux := fun e n => enc_string e (snd n);
  ic_value := fun n off => vtuple [VInt (fst n); VInt off];
  ic_read := fun e all v =>
    match v with
    | VSeq (VInt id) (VSeq (VInt rva) VNil) =>
        match read_string e all rva with
        | Some name => Some (Some (id, name))
        | None => Some None
        end
    | _ => None
    end |}.

(* --- memory info: the nine integers of MINIDUMP_MEMORY_INFO, no out-of-line data *)
Definition meminfo_codec : icodec (list Z) := {|
  ic_layout := L_MINIDUMP_MEMORY_INFO;
  ic_aux := fun _ _ => [];
  ic_value := fun l _ => varr l;
  ic_read := fun _ _ v => match unvarr v with Some l => Some (Some l) | None => None end |}.

(* --- Memory64List: u64 count, u64 base RVA, descriptors; the contents follow one another from
   the base RVA in descriptor order *)
Definition enc_desc64 (e : endian) (r : mregion) : list Z :=
  enc e L_MINIDUMP_MEMORY_DESCRIPTOR64 (vtuple [VInt (mr_base r); VInt (zlen (mr_bytes r))]).
Definition enc_mem64 (e : endian) (off : Z) (l : list mregion) : section :=
  let ssize := 16 + zlen l * lsize L_MINIDUMP_MEMORY_DESCRIPTOR64 in
  (ssize, enc_uint e 8 (zlen l) ++ enc_uint e 8 (off + ssize) ++ flat_map (enc_desc64 e) l
          ++ flat_map mr_bytes l).
Fixpoint dec_mem64_regions (e : endian) (all : list Z) (n : nat) (rva : Z) (bs : list Z) : option (list mregion) :=
  match n with
  | O => Some []
  | S n' =>
      match dec e L_MINIDUMP_MEMORY_DESCRIPTOR64 bs with
      | Some (VSeq (VInt base) (VSeq (VInt size) VNil), r) =>
          obnd (checked_add 64 rva size) (fun fin =>
          obnd (slice all rva size) (fun b =>
          obnd (dec_mem64_regions e all n' fin r) (fun l =>
            Some ({| mr_base := base; mr_bytes := b |} :: l))))
      | _ => None
      end
  end.
Definition dec_mem64 (e : endian) (all bs : list Z) : option (list mregion) :=
  obnd (take 8 bs) (fun a => obnd (take 8 (snd a)) (fun b =>
    let n := dec_uint e (fst a) in
    let rva := dec_uint e (fst b) in
    if negb (zlen bs =? 16 + n * lsize L_MINIDUMP_MEMORY_DESCRIPTOR64) then None
    else dec_mem64_regions e all (Z.to_nat n) rva (snd b))).

(* --- exception *)
Record mexception := {
  ex_thread_id : Z; ex_align : Z; ex_code : Z; ex_flags : Z; ex_record : Z; ex_address : Z;
  ex_nparams : Z; ex_align2 : Z; ex_info : list Z; ex_ctx : option (list Z)
}.
Definition enc_exception (e : endian) (off : Z) (x : mexception) : section :=
  let ssize := lsize L_MINIDUMP_EXCEPTION_STREAM in
  (ssize,
   enc e L_MINIDUMP_EXCEPTION_STREAM
       (vtuple [VInt (ex_thread_id x); VInt (ex_align x);
                vtuple [VInt (ex_code x); VInt (ex_flags x); VInt (ex_record x); VInt (ex_address x);
                        VInt (ex_nparams x); VInt (ex_align2 x); varr (ex_info x)];
                match ex_ctx x with Some c => vloc (zlen c) (off + ssize) | None => vloc 1 BAD_RVA end])
   ++ obytes (ex_ctx x)).
Definition dec_exception (e : endian) (all bs : list Z) : option mexception :=
  match dec e L_MINIDUMP_EXCEPTION_STREAM bs with
  | Some (VSeq (VInt tid) (VSeq (VInt al)
       (VSeq (VSeq (VInt code) (VSeq (VInt fl) (VSeq (VInt rec) (VSeq (VInt addr) (VSeq (VInt np) (VSeq (VInt al2) (VSeq info VNil)))))))
       (VSeq (VSeq (VInt csz) (VSeq (VInt crva) VNil)) VNil))), _) =>
      obnd (unvarr info) (fun il =>
        Some {| ex_thread_id := tid; ex_align := al; ex_code := code; ex_flags := fl; ex_record := rec;
                ex_address := addr; ex_nparams := np; ex_align2 := al2; ex_info := il;
                ex_ctx := slice all crva csz |})
  | _ => None
  end.

(* --- system info *)
Record msysinfo := {
  si_arch : Z; si_level : Z; si_revision : Z; si_nproc : Z; si_ptype : Z;
  si_major : Z; si_minor : Z; si_build : Z; si_platform : Z;
  si_suite : Z; si_reserved2 : Z; si_cpu : list Z;       (* CPU_INFORMATION: 24 bytes *)
  si_csd : option (list Z)                              (* None: csd_version unreadable *)
}.
Definition enc_sysinfo (e : endian) (off : Z) (s : msysinfo) : section :=
  let ssize := lsize L_MINIDUMP_SYSTEM_INFO in
  (ssize,
   enc e L_MINIDUMP_SYSTEM_INFO
       (vtuple [VInt (si_arch s); VInt (si_level s); VInt (si_revision s); VInt (si_nproc s); VInt (si_ptype s);
                VInt (si_major s); VInt (si_minor s); VInt (si_build s); VInt (si_platform s);
                VInt (match si_csd s with Some _ => off + ssize | None => BAD_RVA end);
                VInt (si_suite s); VInt (si_reserved2 s); vtuple [varr (si_cpu s)]])
   ++ match si_csd s with Some u => enc_string e u | None => [] end).
Definition dec_sysinfo (e : endian) (all bs : list Z) : option msysinfo :=
  match dec e L_MINIDUMP_SYSTEM_INFO bs with
  | Some (VSeq (VInt ar) (VSeq (VInt lv) (VSeq (VInt rv) (VSeq (VInt np) (VSeq (VInt pt)
       (VSeq (VInt mj) (VSeq (VInt mn) (VSeq (VInt bn) (VSeq (VInt pf) (VSeq (VInt crva)
       (VSeq (VInt su) (VSeq (VInt r2) (VSeq (VSeq cpu VNil) VNil)))))))))))), _) =>
      obnd (unvarr cpu) (fun cl =>
        Some {| si_arch := ar; si_level := lv; si_revision := rv; si_nproc := np; si_ptype := pt;
                si_major := mj; si_minor := mn; si_build := bn; si_platform := pf;
                si_suite := su; si_reserved2 := r2; si_cpu := cl; si_csd := read_string e all crva |})
  | _ => None
  end.

(* --- misc info: (revision 1..5, the struct's integers in declaration order) *)
Definition misc_layout (k : Z) : layout :=
  if k =? 5 then L_MINIDUMP_MISC_INFO_5 else if k =? 4 then L_MINIDUMP_MISC_INFO_4
  else if k =? 3 then L_MINIDUMP_MISC_INFO_3 else if k =? 2 then L_MINIDUMP_MISC_INFO_2
  else L_MINIDUMP_MISC_INFO.
Definition enc_misc (e : endian) (off : Z) (m : Z * list Z) : section :=
  match unflat (misc_layout (fst m)) (snd m) with
  | Some (v, _) => (lsize (misc_layout (fst m)), enc e (misc_layout (fst m)) v)
  | None => (0, [])
  end.
(* the largest revision that fits is read *)
Definition misc_try (e : endian) (bs : list Z) (k : Z) : option (Z * list Z) :=
  if lsize (misc_layout k) <=? zlen bs
  then match dec e (misc_layout k) bs with Some (v, _) => Some (k, vflat v) | None => None end
  else None.
Definition dec_misc (e : endian) (all bs : list Z) : option (Z * list Z) :=
  match misc_try e bs 5 with Some r => Some r | None =>
  match misc_try e bs 4 with Some r => Some r | None =>
  match misc_try e bs 3 with Some r => Some r | None =>
  match misc_try e bs 2 with Some r => Some r | None => misc_try e bs 1 end end end end.

(* --- handle data stream: 16-byte header (size_of_header, size_of_descriptor, number_of_descriptors,
   reserved), descriptors of 32 bytes (MINIDUMP_HANDLE_DESCRIPTOR) or 40 (.._2); type and object names are
   MINIDUMP_STRINGs, RVA 0 = none.  Object-information chains (object_info_rva <> 0) are not modelled. *)
Record mhandle := {
  h_handle : Z; h_type : option (list Z); h_object : option (list Z);
  h_attr : Z; h_access : Z; h_hcount : Z; h_pcount : Z
}.
Definition ostring (e : endian) (o : option (list Z)) : list Z :=
  match o with Some u => enc_string e u | None => [] end.
Definition ostring_len (o : option (list Z)) : Z :=
  match o with Some u => 4 + 2 * zlen u | None => 0 end.
Definition orva (o : option (list Z)) (off : Z) : Z := match o with Some _ => off | None => 0 end.
Definition read_ostring (e : endian) (all : list Z) (rva : Z) : option (list Z) :=
  if rva =? 0 then None else read_string e all rva.
Definition handle_codec (v2 : bool) : icodec mhandle := {|
  ic_layout := if v2 then L_MINIDUMP_HANDLE_DESCRIPTOR_2 else L_MINIDUMP_HANDLE_DESCRIPTOR;
  ic_aux := fun e h => ostring e (h_type h) ++ ostring e (h_object h);
  ic_value := fun h off =>
    vtuple ([VInt (h_handle h); VInt (orva (h_type h) off); VInt (orva (h_object h) (off + ostring_len (h_type h)));
             VInt (h_attr h); VInt (h_access h); VInt (h_hcount h); VInt (h_pcount h)]
            ++ (if v2 then [VInt 0; VInt 0] else []));
  ic_read := fun e all v =>
    match v with
    | VSeq (VInt hd) (VSeq (VInt trva) (VSeq (VInt orv) (VSeq (VInt at_) (VSeq (VInt ac) (VSeq (VInt hc) (VSeq (VInt pc) _)))))) =>
        Some (Some {| h_handle := hd; h_type := read_ostring e all trva; h_object := read_ostring e all orv;
                      h_attr := at_; h_access := ac; h_hcount := hc; h_pcount := pc |})
    | _ => None
    end |}.
Definition HANDLE_HDR : Z := lsize L_MINIDUMP_HANDLE_DATA_STREAM.
Definition handle_esize (v2 : bool) : Z := lsize (ic_layout (handle_codec v2)).
Definition enc_handles (e : endian) (off : Z) (x : bool * list mhandle) : section :=
  enc_exlist (handle_codec (fst x)) e HANDLE_HDR 4 off (snd x).
(* -> (descriptor size, (count, descriptor bytes)) *)
Definition dec_handle_hdr (e : endian) (bs : list Z) : option (Z * (Z * list Z)) :=
  obnd (take 4 bs) (fun a => obnd (take 4 (snd a)) (fun b => obnd (take 4 (snd b)) (fun c =>
    let hsize := dec_uint e (fst a) in
    let ds := dec_uint e (fst b) in
    let n := dec_uint e (fst c) in
    if negb ((ds =? handle_esize false) || (ds =? handle_esize true)) then None
    else if zlen bs <? n * ds + hsize then None
    else Some (ds, (n, skipn (Z.to_nat hsize) bs))))).
Definition dec_handles (e : endian) (all bs : list Z) : option (bool * list mhandle) :=
  obnd (dec_handle_hdr e bs) (fun r =>
    let v2 := fst r =? handle_esize true in
    match dec_items (handle_codec v2) e all (Z.to_nat (fst (snd r))) (snd (snd r)) with
    | Some l => Some (v2, l)
    | None => None
    end).

(* --- structs carried as their flat integer lists: Breakpad info, assertion info, thread info entries *)
Definition enc_flat (L : layout) (e : endian) (off : Z) (ints : list Z) : section :=
  match unflat L ints with
  | Some (v, _) => (lsize L, enc e L v)
  | None => (0, [])
  end.
Definition dec_flat (L : layout) (e : endian) (all bs : list Z) : option (list Z) :=
  match dec e L bs with Some (v, _) => Some (vflat v) | None => None end.
Definition flat_codec (L : layout) : icodec (list Z) := {|
  ic_layout := L;
  ic_aux := fun _ _ => [];
  ic_value := fun l _ => match unflat L l with Some (v, _) => v | None => VNil end;
  ic_read := fun _ _ v => Some (Some (vflat v)) |}.
(* --- streams the reader keeps as raw bytes (Linux /proc text, limits): read() = the stream itself *)
Definition enc_raw (e : endian) (off : Z) (b : list Z) : section := (zlen b, b).
Definition dec_raw (e : endian) (all bs : list Z) : option (list Z) := Some bs.

(* ------------------------------------------------------------------ the dump *)
Record model := {
  m_version : Z;            (* low 16 bits = MINIDUMP_VERSION *)
  m_checksum : Z; m_time : Z; m_flags : Z;
  m_extra_dir : list (Z * (Z * Z));      (* leading directory entries (type, (size, rva)) *)
  m_pad_lists : bool;                    (* write the 4 padding bytes after list counts *)
  m_sysinfo : option msysinfo;
  m_threads : option (list mthread);
  m_modules : option (list mmodule);
  m_memory : option (list mregion);
  m_memory64 : option (list mregion);
  m_exception : option mexception;
  m_tnames : option (list (Z * list Z));
  m_unloaded : option (list munloaded);
  m_meminfo : option (list (list Z));
  m_misc : option (Z * list Z);
  m_breakpad : option (list Z);          (* MINIDUMP_BREAKPAD_INFO: 3 integers *)
  m_assertion : option (list Z);         (* MINIDUMP_ASSERTION_INFO: 3*128 UTF-16 units, line, type *)
  m_thread_info : option (list (list Z)); (* MINIDUMP_THREAD_INFO entries *)
  m_lx_cpuinfo : option (list Z); m_lx_status : option (list Z); m_lx_lsb : option (list Z);
  m_lx_environ : option (list Z); m_lx_maps : option (list Z); m_lx_limits : option (list Z);
  m_handles : option (bool * list mhandle)   (* descriptor version 2?, handles *)
}.

Definition UNLOADED_HDR : Z := 12.
Definition MEMINFO_HDR : Z := lsize L_MINIDUMP_MEMORY_INFO_LIST.     (* 16: the count is a u64 *)
Definition THREADINFO_HDR : Z := 12.

Definition ob {A} (ty : Z) (o : option A) (f : Z -> A -> section) : Z * option (Z -> section) :=
  (ty, match o with Some a => Some (fun off => f off a) | None => None end).

(* stream table in file order *)
Definition table (e : endian) (m : model) : list (Z * option (Z -> section)) :=
  [ ob ST_SystemInfoStream (m_sysinfo m) (enc_sysinfo e);
    ob ST_ThreadListStream (m_threads m) (enc_list thread_codec e (m_pad_lists m));
    ob ST_ModuleListStream (m_modules m) (enc_list module_codec e (m_pad_lists m));
    ob ST_MemoryListStream (m_memory m) (enc_list region_codec e (m_pad_lists m));
    ob ST_Memory64ListStream (m_memory64 m) (enc_mem64 e);
    ob ST_ExceptionStream (m_exception m) (enc_exception e);
    ob ST_ThreadNamesStream (m_tnames m) (enc_list tname_codec e (m_pad_lists m));
    ob ST_UnloadedModuleListStream (m_unloaded m) (enc_exlist unloaded_codec e UNLOADED_HDR 4);
    ob ST_MemoryInfoListStream (m_meminfo m) (enc_exlist meminfo_codec e MEMINFO_HDR 8);
    ob ST_MiscInfoStream (m_misc m) (enc_misc e);
    ob ST_BreakpadInfoStream (m_breakpad m) (enc_flat L_MINIDUMP_BREAKPAD_INFO e);
    ob ST_AssertionInfoStream (m_assertion m) (enc_flat L_MINIDUMP_ASSERTION_INFO e);
    ob ST_ThreadInfoListStream (m_thread_info m) (enc_exlist (flat_codec L_MINIDUMP_THREAD_INFO) e THREADINFO_HDR 4);
    ob ST_LinuxCpuInfo (m_lx_cpuinfo m) (enc_raw e);
    ob ST_LinuxProcStatus (m_lx_status m) (enc_raw e);
    ob ST_LinuxLsbRelease (m_lx_lsb m) (enc_raw e);
    ob ST_LinuxEnviron (m_lx_environ m) (enc_raw e);
    ob ST_LinuxMaps (m_lx_maps m) (enc_raw e);
    ob ST_MozLinuxLimits (m_lx_limits m) (enc_raw e);
    ob ST_HandleDataStream (m_handles m) (enc_handles e) ].

(* place the present sections one after the other from [off]: (type, (offset, section)) *)
Fixpoint place (t : list (Z * option (Z -> section))) (off : Z) : list (Z * (Z * section)) :=
  match t with
  | [] => []
  | (ty, None) :: r => place r off
  | (ty, Some b) :: r => let s := b off in (ty, (off, s)) :: place r (off + zlen (snd s))
  end.

Definition enc_dir_entry (e : endian) (d : Z * (Z * Z)) : list Z :=
  enc e L_MINIDUMP_DIRECTORY (vtuple [VInt (fst d); vloc (fst (snd d)) (snd (snd d))]).

Definition HEADER_SIZE : Z := lsize L_MINIDUMP_HEADER.
Definition DIR_ENTRY_SIZE : Z := lsize L_MINIDUMP_DIRECTORY.

Definition count_present (t : list (Z * option (Z -> section))) : Z :=
  zlen (filter (fun x => match snd x with Some _ => true | None => false end) t).

Definition encode_dump (e : endian) (m : model) : list Z :=
  let t := table e m in
  let ndir := zlen (m_extra_dir m) + count_present t in
  let placed := place t (HEADER_SIZE + ndir * DIR_ENTRY_SIZE) in
  let dir := m_extra_dir m ++ map (fun p => (fst p, (fst (snd (snd p)), fst (snd p)))) placed in
  enc e L_MINIDUMP_HEADER
      (vtuple [VInt MINIDUMP_SIGNATURE; VInt (m_version m); VInt ndir; VInt HEADER_SIZE;
               VInt (m_checksum m); VInt (m_time m); VInt (m_flags m)])
  ++ flat_map (enc_dir_entry e) dir
  ++ flat_map (fun p => snd (snd (snd p))) placed.

(* ---- reader *)
Inductive sres (A : Type) := SMissing | SErr | SOk (a : A).
Arguments SMissing {A}. Arguments SErr {A}. Arguments SOk {A} a.

Record dview := {
  v_endian : endian;
  v_version : Z; v_checksum : Z; v_time : Z; v_flags : Z;
  v_sysinfo : sres msysinfo;
  v_threads : sres (list mthread);
  v_modules : sres (list mmodule);
  v_memory : sres (list mregion);
  v_memory64 : sres (list mregion);
  v_exception : sres mexception;
  v_tnames : sres (list (Z * list Z));
  v_unloaded : sres (list munloaded);
  v_meminfo : sres (list (list Z));
  v_misc : sres (Z * list Z);
  v_breakpad : sres (list Z); v_assertion : sres (list Z); v_thread_info : sres (list (list Z));
  v_lx_cpuinfo : sres (list Z); v_lx_status : sres (list Z); v_lx_lsb : sres (list Z);
  v_lx_environ : sres (list Z); v_lx_maps : sres (list Z); v_lx_limits : sres (list Z);
  v_handles : sres (bool * list mhandle)
}.

(* BTreeMap::insert in file order: a later entry of the same type replaces the earlier one *)
Fixpoint dir_lookup (d : list (Z * (Z * Z))) (ty : Z) : option (Z * Z) :=
  match d with
  | [] => None
  | (t, loc) :: r => match dir_lookup r ty with
                     | Some l => Some l
                     | None => if t =? ty then Some loc else None
                     end
  end.

Fixpoint dec_dir (e : endian) (n : nat) (bs : list Z) : option (list (Z * (Z * Z))) :=
  match n with
  | O => Some []
  | S n' =>
      match dec e L_MINIDUMP_DIRECTORY bs with
      | Some (VSeq (VInt ty) (VSeq (VSeq (VInt size) (VSeq (VInt rva) VNil)) VNil), r) =>
          obnd (dec_dir e n' r) (fun l => Some ((ty, (size, rva)) :: l))
      | _ => None
      end
  end.

Definition get_stream {A} (d : endian -> list Z -> list Z -> option A)
           (e : endian) (all : list Z) (dir : list (Z * (Z * Z))) (ty : Z) : sres A :=
  match dir_lookup dir ty with
  | None => SMissing
  | Some (size, rva) =>
      match slice all rva size with
      | None => SErr
      | Some body => match d e all body with Some a => SOk a | None => SErr end
      end
  end.

Definition dec_header (e : endian) (all : list Z) : option (list Z) :=
  match dec e L_MINIDUMP_HEADER all with
  | Some (v, _) => Some (vflat v)
  | None => None
  end.

(* The header is first read little-endian (this only fails when fewer than 32 bytes are there);
   its first field decides the byte order: equal to the signature -> LE; byte-swapped signature ->
   the header is read again big-endian and its signature must match; anything else is refused. *)
Definition detect_endian (all : list Z) : option endian :=
  if zlen all <? HEADER_SIZE then None
  else let sig := dec_uint LE (firstn 4 all) in
       if sig =? MINIDUMP_SIGNATURE then Some LE
       else if dec_uint BE (enc_uint LE 4 sig) =? MINIDUMP_SIGNATURE       (* swap_bytes *)
            then (if dec_uint BE (firstn 4 all) =? MINIDUMP_SIGNATURE then Some BE else None)
            else None.

(* Minidump::read, then get_stream for every modelled stream type *)
Definition decode_dump (all : list Z) : option dview :=
  obnd (detect_endian all) (fun e =>
  obnd (dec_header e all) (fun h =>
  match h with
  | [_; version; count; dir_rva; checksum; time; flags] =>
      if negb (version mod 65536 =? MINIDUMP_VERSION) then None
      else
        obnd (dec_dir e (Z.to_nat count) (if dir_rva <=? zlen all then skipn (Z.to_nat dir_rva) all else [])) (fun dir =>
        Some {| v_endian := e; v_version := version; v_checksum := checksum; v_time := time; v_flags := flags;
                v_sysinfo := get_stream dec_sysinfo e all dir ST_SystemInfoStream;
                v_threads := get_stream (dec_list thread_codec) e all dir ST_ThreadListStream;
                v_modules := get_stream (dec_list module_codec) e all dir ST_ModuleListStream;
                v_memory := get_stream (dec_list region_codec) e all dir ST_MemoryListStream;
                v_memory64 := get_stream dec_mem64 e all dir ST_Memory64ListStream;
                v_exception := get_stream dec_exception e all dir ST_ExceptionStream;
                v_tnames := get_stream (dec_list tname_codec) e all dir ST_ThreadNamesStream;
                v_unloaded := get_stream (fun e => dec_exlist unloaded_codec e false) e all dir ST_UnloadedModuleListStream;
                v_meminfo := get_stream (fun e => dec_exlist meminfo_codec e true) e all dir ST_MemoryInfoListStream;
                v_misc := get_stream dec_misc e all dir ST_MiscInfoStream;
                v_breakpad := get_stream (dec_flat L_MINIDUMP_BREAKPAD_INFO) e all dir ST_BreakpadInfoStream;
                v_assertion := get_stream (dec_flat L_MINIDUMP_ASSERTION_INFO) e all dir ST_AssertionInfoStream;
                v_thread_info := get_stream (fun e => dec_exlist (flat_codec L_MINIDUMP_THREAD_INFO) e false) e all dir ST_ThreadInfoListStream;
                v_lx_cpuinfo := get_stream dec_raw e all dir ST_LinuxCpuInfo;
                v_lx_status := get_stream dec_raw e all dir ST_LinuxProcStatus;
                v_lx_lsb := get_stream dec_raw e all dir ST_LinuxLsbRelease;
                v_lx_environ := get_stream dec_raw e all dir ST_LinuxEnviron;
                v_lx_maps := get_stream dec_raw e all dir ST_LinuxMaps;
                v_lx_limits := get_stream dec_raw e all dir ST_MozLinuxLimits;
                v_handles := get_stream dec_handles e all dir ST_HandleDataStream |})
  | _ => None
  end)).

Definition sres_of {A} (o : option A) : sres A := match o with Some a => SOk a | None => SMissing end.
Definition view_of (e : endian) (m : model) : dview :=
  {| v_endian := e; v_version := m_version m; v_checksum := m_checksum m; v_time := m_time m; v_flags := m_flags m;
     v_sysinfo := sres_of (m_sysinfo m); v_threads := sres_of (m_threads m); v_modules := sres_of (m_modules m);
     v_memory := sres_of (m_memory m); v_memory64 := sres_of (m_memory64 m); v_exception := sres_of (m_exception m);
     v_tnames := sres_of (m_tnames m); v_unloaded := sres_of (m_unloaded m); v_meminfo := sres_of (m_meminfo m);
     v_misc := sres_of (m_misc m);
     v_breakpad := sres_of (m_breakpad m); v_assertion := sres_of (m_assertion m); v_thread_info := sres_of (m_thread_info m);
     v_lx_cpuinfo := sres_of (m_lx_cpuinfo m); v_lx_status := sres_of (m_lx_status m); v_lx_lsb := sres_of (m_lx_lsb m);
     v_lx_environ := sres_of (m_lx_environ m); v_lx_maps := sres_of (m_lx_maps m); v_lx_limits := sres_of (m_lx_limits m);
     v_handles := sres_of (m_handles m) |}.

(* ------------------------------------------------------------------ memory lookups *)
(* MinidumpMemoryBase::memory_range *)
Definition region_range (r : mregion) : option range := mk_range (mr_base r) (zlen (mr_bytes r)).
(* memory_at_address: the range map built by from_regions (C08), then the region by index *)
Definition memory_at (rs : list mregion) (x : Z) : option mregion :=
  match build_indexed (map region_range rs) with
  | Ret t => match rm_get t x with
             | Some i => nth_error rs (Z.to_nat i)
             | None => None
             end
  | _ => None
  end.
(* get_memory_at_address::<u8> *)
Definition region_byte (r : mregion) (x : Z) : option Z :=
  if x <? mr_base r then None else nth_error (mr_bytes r) (Z.to_nat (x - mr_base r)).
Definition memory_byte (rs : list mregion) (x : Z) : option Z :=
  obnd (memory_at rs x) (fun r => region_byte r x).
(* MinidumpThread::stack_memory *)
Definition stack_memory (t : mthread) (mem : list mregion) : option mregion :=
  match th_stack t with
  | Some b => Some {| mr_base := th_stack_base t; mr_bytes := b |}
  | None => memory_at mem (th_stack_base t)
  end.

(* ------------------------------------------------------------------ the directory as a whole *)
(* Minidump::read up to and including the directory walk: byte order and the directory entries in
   file order (type, (data_size, rva)) *)
Definition read_directory (all : list Z) : option (endian * list (Z * (Z * Z))) :=
  obnd (detect_endian all) (fun e =>
  obnd (dec_header e all) (fun h =>
  match h with
  | [_; version; count; dir_rva; _; _; _] =>
      if negb (version mod 65536 =? MINIDUMP_VERSION) then None
      else obnd (dec_dir e (Z.to_nat count) (if dir_rva <=? zlen all then skipn (Z.to_nat dir_rva) all else []))
                (fun dir => Some (e, dir))
  | _ => None
  end)).

(* `streams: BTreeMap<u32, (u32, MINIDUMP_DIRECTORY)>`: stream type -> (directory index, (size, rva)),
   kept in ascending order of the type; BTreeMap::insert replaces the value of an existing key *)
Definition dmap := list (Z * (Z * (Z * Z))).
Fixpoint dmap_insert (k : Z) (v : Z * (Z * Z)) (l : dmap) : dmap :=
  match l with
  | [] => [(k, v)]
  | (k', v') :: t => if k <? k' then (k, v) :: l
                     else if k =? k' then (k, v) :: t
                     else (k', v') :: dmap_insert k v t
  end.
Fixpoint dmap_build (i : Z) (d : list (Z * (Z * Z))) (acc : dmap) : dmap :=
  match d with
  | [] => acc
  | (ty, loc) :: r => dmap_build (i + 1) r (dmap_insert ty (i, loc) acc)
  end.
(* the map Minidump::read ends up with = what all_streams() iterates over *)
Definition served_dir (d : list (Z * (Z * Z))) : dmap := dmap_build 0 d [].
Fixpoint dmap_get (l : dmap) (k : Z) : option (Z * (Z * Z)) :=
  match l with
  | [] => None
  | (k', v) :: t => if k' =? k then Some v else dmap_get t k
  end.
(* get_raw_stream(stream_type), for ANY u32: location_slice of the served entry *)
Definition raw_stream (all : list Z) (d : list (Z * (Z * Z))) (ty : Z) : sres (list Z) :=
  match dmap_get (served_dir d) ty with
  | None => SMissing
  | Some (_, (size, rva)) => match slice all rva size with Some b => SOk b | None => SErr end
  end.
(* MINIDUMP_STREAM_TYPE::from_u32(ty).is_some() *)
Definition is_named (ty : Z) : bool := existsb (Z.eqb ty) ST_ALL_NAMED.
(* unknown_streams(): the served entries whose type has no name *)
Definition unknown_streams (d : list (Z * (Z * Z))) : dmap := filter (fun p => negb (is_named (fst p))) (served_dir d).
(* stream_vendor: 0 Official, 1 Google Extension, 2 Mozilla Extension, 3 Unknown Extension *)
Definition stream_vendor (ty : Z) : Z :=
  if ty <=? ST_LastReservedStream then 0
  else let hi := Z.land ty 4294901760 in
       if hi =? 1197932544 then 1 else if hi =? 1299841024 then 2 else 3.
(* the specification side: the last entry of type [ty] in a directory whose first entry has index [i] *)
Fixpoint last_entry (i : Z) (d : list (Z * (Z * Z))) (ty : Z) : option (Z * (Z * Z)) :=
  match d with
  | [] => None
  | (t, loc) :: r => match last_entry (i + 1) r ty with
                     | Some x => Some x
                     | None => if t =? ty then Some (i, loc) else None
                     end
  end.

(* ------------------------------------------------------------------ round 4: more streams *)
(* std::str::from_utf8: well-formed UTF-8 (Unicode Table 3-7: no overlong forms, no surrogates, at most U+10FFFF) *)
Definition cont8 (b : Z) : bool := (128 <=? b) && (b <=? 191).
Fixpoint valid_utf8 (l : list Z) : bool :=
  match l with
  | [] => true
  | b0 :: t =>
      if (0 <=? b0) && (b0 <? 128) then valid_utf8 t
      else if (194 <=? b0) && (b0 <=? 223) then
        match t with b1 :: t' => cont8 b1 && valid_utf8 t' | _ => false end
      else if b0 =? 224 then
        match t with b1 :: b2 :: t' => (160 <=? b1) && (b1 <=? 191) && cont8 b2 && valid_utf8 t' | _ => false end
      else if ((225 <=? b0) && (b0 <=? 236)) || (b0 =? 238) || (b0 =? 239) then
        match t with b1 :: b2 :: t' => cont8 b1 && cont8 b2 && valid_utf8 t' | _ => false end
      else if b0 =? 237 then
        match t with b1 :: b2 :: t' => (128 <=? b1) && (b1 <=? 159) && cont8 b2 && valid_utf8 t' | _ => false end
      else if b0 =? 240 then
        match t with b1 :: b2 :: b3 :: t' => (144 <=? b1) && (b1 <=? 191) && cont8 b2 && cont8 b3 && valid_utf8 t' | _ => false end
      else if (241 <=? b0) && (b0 <=? 243) then
        match t with b1 :: b2 :: b3 :: t' => cont8 b1 && cont8 b2 && cont8 b3 && valid_utf8 t' | _ => false end
      else if b0 =? 244 then
        match t with b1 :: b2 :: b3 :: t' => (128 <=? b1) && (b1 <=? 143) && cont8 b2 && cont8 b3 && valid_utf8 t' | _ => false end
      else false
  end.

(* --- MozSoftErrors: the stream is a UTF-8 (JSON) text; anything else is a DataError *)
Definition dec_softerr (e : endian) (all bs : list Z) : option (list Z) := if valid_utf8 bs then Some bs else None.

(* --- MozMacosBootargsStream: MINIDUMP_MAC_BOOTARGS { stream_type: u32, bootargs: RVA64 } + a MINIDUMP_STRING *)
Record mbootargs := { ba_type : Z; ba_args : option (list Z) }.      (* None: the string is unreadable *)
Definition enc_bootargs (e : endian) (off : Z) (x : mbootargs) : section :=
  let ssize := lsize L_MINIDUMP_MAC_BOOTARGS in
  (ssize,
   enc e L_MINIDUMP_MAC_BOOTARGS
       (vtuple [VInt (ba_type x); VInt (match ba_args x with Some _ => off + ssize | None => BAD_RVA end)])
   ++ ostring e (ba_args x)).
Definition dec_bootargs (e : endian) (all bs : list Z) : option mbootargs :=
  match dec e L_MINIDUMP_MAC_BOOTARGS bs with
  | Some (VSeq (VInt ty) (VSeq (VInt rva) VNil), _) => Some {| ba_type := ty; ba_args := read_string e all rva |}
  | _ => None
  end.

(* --- Crashpad info.  MINIDUMP_UTF8_STRING: u32 length, the bytes, a NUL *)
Definition enc_utf8z (e : endian) (s : list Z) : list Z := enc_uint e 4 (zlen s) ++ s ++ [0].
(* read_string_utf8_unterminated / read_string_utf8 *)
Definition read_utf8u (e : endian) (all : list Z) (off : Z) : option (list Z) :=
  obnd (slice all off 4) (fun h =>
  obnd (slice all (off + 4) (dec_uint e h)) (fun s => if valid_utf8 s then Some s else None)).
Definition read_utf8z (e : endian) (all : list Z) (off : Z) : option (list Z) :=
  obnd (slice all off 4) (fun h =>
  let n := dec_uint e h in
  obnd (slice all (off + 4) n) (fun s =>
    if valid_utf8 s then match slice all (off + 4 + n) 1 with
                         | Some [z] => if z =? 0 then Some s else None
                         | _ => None
                         end
    else None)).

(* a counted list behind a location descriptor: an empty location is the empty list; u32 count; the entries
   are read one after the other ([bound]: ensure_count_in_bound: count * entry size against the length of the whole file) *)
Definition counted_body {A} (c : icodec A) (bound : bool) (e : endian) (all bs : list Z) : option (list A) :=
  if zlen bs =? 0 then Some []
  else obnd (take 4 bs) (fun hr =>
         let n := dec_uint e (fst hr) in
         if bound && (zlen all <? n * lsize (ic_layout c)) then None
         else dec_items c e all (Z.to_nat n) (snd hr)).
Definition dec_counted {A} (c : icodec A) (e : endian) (all : list Z) (bound : bool) (size rva : Z) : option (list A) :=
  obnd (slice all rva size) (counted_body c bound e all).
Definition enc_counted {A} (c : icodec A) (e : endian) (off : Z) (l : list A) : section :=
  let ssize := 4 + zlen l * lsize (ic_layout c) in
  let r := enc_items c e (off + ssize) l in
  (ssize, enc_uint e 4 (zlen l) ++ fst r ++ snd r).

(* simple annotations: MINIDUMP_SIMPLE_STRING_DICTIONARY_ENTRY { key: RVA, value: RVA } *)
Definition dict_codec : icodec (list Z * list Z) := {|
  ic_layout := L_MINIDUMP_SIMPLE_STRING_DICTIONARY_ENTRY;
  ic_aux := fun e kv => enc_utf8z e (fst kv) ++ enc_utf8z e (snd kv);
  ic_value := fun kv off => vtuple [VInt off; VInt (off + 5 + zlen (fst kv))];
  ic_read := fun e all v =>
    match v with
    | VSeq (VInt k) (VSeq (VInt va) VNil) =>
        match read_utf8z e all k, read_utf8z e all va with
        | Some a, Some b => Some (Some (a, b))
        | _, _ => None
        end
    | _ => None
    end |}.
(* list annotations: MINIDUMP_RVA_LIST of MINIDUMP_UTF8_STRINGs *)
Definition strlist_codec : icodec (list Z) := {|
  ic_layout := L_MINIDUMP_RVA_LIST;                    (* one u32: the RVA *)
  ic_aux := fun e s => enc_utf8z e s;
  ic_value := fun _ off => vtuple [VInt off];
  ic_read := fun e all v =>
    match v with
    | VSeq (VInt r) VNil => match read_utf8z e all r with Some s => Some (Some s) | None => None end
    | _ => None
    end |}.
(* annotation objects: MINIDUMP_ANNOTATION { name: RVA, ty: u16, _reserved: u16, value: RVA }.
   ty 1: the value is a length-prefixed, unterminated UTF-8 string (inl); any other ty: the value RVA is kept raw (inr) *)
Record mannot := { an_name : list Z; an_ty : Z; an_reserved : Z; an_value : list Z + Z }.
Definition ANNOT_STRING : Z := 1.
Definition annot_codec : icodec mannot := {|
  ic_layout := L_MINIDUMP_ANNOTATION;
  ic_aux := fun e a => enc_utf8z e (an_name a)
                       ++ match an_value a with inl s => enc_uint e 4 (zlen s) ++ s | inr _ => [] end;
  ic_value := fun a off =>
    vtuple [VInt off; VInt (an_ty a); VInt (an_reserved a);
            VInt (match an_value a with inl _ => off + 5 + zlen (an_name a) | inr r => r end)];
  ic_read := fun e all v =>
    match v with
    | VSeq (VInt nr) (VSeq (VInt ty) (VSeq (VInt rs) (VSeq (VInt vr) VNil))) =>
        match read_utf8z e all nr with
        | None => None
        | Some name =>
            if ty =? ANNOT_STRING then
              match read_utf8u e all vr with
              | Some s => Some (Some {| an_name := name; an_ty := ty; an_reserved := rs; an_value := inl s |})
              | None => None
              end
            else Some (Some {| an_name := name; an_ty := ty; an_reserved := rs; an_value := inr vr |})
        end
    | _ => None
    end |}.
(* per-module information: MINIDUMP_MODULE_CRASHPAD_INFO_LINK { minidump_module_list_index, location } ->
   MINIDUMP_MODULE_CRASHPAD_INFO { version, list_annotations, simple_annotations, annotation_objects } *)
Record cmodule := { cm_index : Z; cm_version : Z; cm_list : list (list Z);
                    cm_simple : list (list Z * list Z); cm_objects : list mannot }.
Definition CMOD_SIZE : Z := lsize L_MINIDUMP_MODULE_CRASHPAD_INFO.
Definition enc_cmodule_aux (e : endian) (off : Z) (m : cmodule) : list Z :=
  let o1 := off + CMOD_SIZE in
  let s1 := enc_counted strlist_codec e o1 (cm_list m) in
  let o2 := o1 + zlen (snd s1) in
  let s2 := enc_counted dict_codec e o2 (cm_simple m) in
  let o3 := o2 + zlen (snd s2) in
  let s3 := enc_counted annot_codec e o3 (cm_objects m) in
  enc e L_MINIDUMP_MODULE_CRASHPAD_INFO
      (vtuple [VInt (cm_version m); vloc (fst s1) o1; vloc (fst s2) o2; vloc (fst s3) o3])
  ++ snd s1 ++ snd s2 ++ snd s3.
Definition dec_at (L : layout) (e : endian) (all : list Z) (off : Z) : option (list Z) :=
  if (0 <=? off) && (off <=? zlen all)
  then match dec e L (skipn (Z.to_nat off) all) with Some (v, _) => Some (vflat v) | None => None end
  else None.
Definition cmodule_codec : icodec cmodule := {|
  ic_layout := L_MINIDUMP_MODULE_CRASHPAD_INFO_LINK;
  ic_aux := fun e m => enc_cmodule_aux e 0 m;     (* placeholder offset: see enc_cmodules, which places the modules itself *)
  ic_value := fun m off => vtuple [VInt (cm_index m); vloc CMOD_SIZE off];
  ic_read := fun e all v =>
    match v with
    | VSeq (VInt idx) (VSeq (VSeq (VInt _) (VSeq (VInt rva) VNil)) VNil) =>
        match dec_at L_MINIDUMP_MODULE_CRASHPAD_INFO e all rva with
        | Some [ver; lsz; lrva; ssz; srva; osz; orva_] =>
            match dec_counted strlist_codec e all true lsz lrva,
                  dec_counted dict_codec e all false ssz srva,
                  dec_counted annot_codec e all false osz orva_ with
            | Some l, Some s, Some o =>
                Some (Some {| cm_index := idx; cm_version := ver; cm_list := l; cm_simple := s; cm_objects := o |})
            | _, _, _ => None
            end
        | _ => None
        end
    | _ => None
    end |}.
(* the module list section: count, links, then each module's structure and lists *)
Fixpoint enc_cmodules (e : endian) (auxoff : Z) (l : list cmodule) : list Z * list Z :=
  match l with
  | [] => ([], [])
  | m :: t =>
      let ax := enc_cmodule_aux e auxoff m in
      let r := enc_cmodules e (auxoff + zlen ax) t in
      (enc e L_MINIDUMP_MODULE_CRASHPAD_INFO_LINK (vtuple [VInt (cm_index m); vloc CMOD_SIZE auxoff]) ++ fst r, ax ++ snd r)
  end.
Definition enc_cmodule_list (e : endian) (off : Z) (l : list cmodule) : section :=
  let ssize := 4 + zlen l * lsize L_MINIDUMP_MODULE_CRASHPAD_INFO_LINK in
  let r := enc_cmodules e (off + ssize) l in
  (ssize, enc_uint e 4 (zlen l) ++ fst r ++ snd r).

Record mcrashpad := { cp_version : Z; cp_report : list Z; cp_client : list Z;     (* GUIDs: d1, d2, d3, 8 bytes *)
                      cp_simple : list (list Z * list Z); cp_modules : list cmodule }.
Definition CPAD_SIZE : Z := lsize L_MINIDUMP_CRASHPAD_INFO.
Definition enc_crashpad (e : endian) (off : Z) (x : mcrashpad) : section :=
  let o1 := off + CPAD_SIZE in
  let s1 := enc_counted dict_codec e o1 (cp_simple x) in
  let o2 := o1 + zlen (snd s1) in
  let s2 := enc_cmodule_list e o2 (cp_modules x) in
  match unflat L_MINIDUMP_CRASHPAD_INFO ([cp_version x] ++ cp_report x ++ cp_client x ++ [fst s1; o1; fst s2; o2]) with
  | Some (v, _) => (CPAD_SIZE, enc e L_MINIDUMP_CRASHPAD_INFO v ++ snd s1 ++ snd s2)
  | None => (0, [])
  end.
Definition dec_crashpad (e : endian) (all bs : list Z) : option mcrashpad :=
  match dec_flat L_MINIDUMP_CRASHPAD_INFO e all bs with
  | Some (ver :: r) =>
      match skipn 22 r with
      | [ssz; srva; msz; mrva] =>
          if ver =? 0 then None
          else match dec_counted dict_codec e all false ssz srva,
                     dec_counted cmodule_codec e all true msz mrva with
               | Some s, Some ms => Some {| cp_version := ver; cp_report := firstn 11 r; cp_client := firstn 11 (skipn 11 r);
                                            cp_simple := s; cp_modules := ms |}
               | _, _ => None
               end
      | _ => None
      end
  | _ => None
  end.

(* ------------------------------------------------------------------ handle object-information chains *)
(* MINIDUMP_HANDLE_DESCRIPTOR_2.object_info_rva starts a linked list of MINIDUMP_HANDLE_OBJECT_INFORMATION
   { next_info_rva, info_type, size_of_info } records, each read at its RVA in the whole file; the walk ends at a null
   link, at an unreadable record, at a record of an unknown type, or after len(file)/12 records *)
Definition known_info_type (ty : Z) : bool := (0 <=? ty) && (ty <=? 9).     (* MINIDUMP_HANDLE_OBJECT_INFORMATION_TYPE::from_u32 *)
Fixpoint walk_chain (fuel : nat) (e : endian) (all : list Z) (rva : Z) : list (Z * Z) :=
  match fuel with
  | O => []
  | S f =>
      if rva =? 0 then []
      else match dec_at L_MINIDUMP_HANDLE_OBJECT_INFORMATION e all rva with
           | Some [next; ty; size] => if known_info_type ty then (ty, size) :: walk_chain f e all next else []
           | _ => []
           end
  end.
Definition read_chain (e : endian) (all : list Z) (rva : Z) : list (Z * Z) :=
  walk_chain (Z.to_nat (zlen all / 12)) e all rva.
(* the object_info_rva of every descriptor of a handle data stream (0 for the 32-byte descriptors) *)
Fixpoint handle_info_rvas (e : endian) (v2 : bool) (n : nat) (bs : list Z) : list Z :=
  match n with
  | O => []
  | S n' =>
      match dec e (if v2 then L_MINIDUMP_HANDLE_DESCRIPTOR_2 else L_MINIDUMP_HANDLE_DESCRIPTOR) bs with
      | Some (v, r) => (if v2 then nth 7 (vflat v) 0 else 0) :: handle_info_rvas e v2 n' r
      | None => []
      end
  end.
Definition dec_handle_chains (e : endian) (all bs : list Z) : option (list (list (Z * Z))) :=
  obnd (dec_handle_hdr e bs) (fun r =>
    let v2 := fst r =? handle_esize true in
    Some (map (read_chain e all) (handle_info_rvas e v2 (Z.to_nat (fst (snd r))) (snd (snd r))))).
(* a chain as a writer may lay it out: the k-th record of the chain is stored at [nth k rvas]; e.g. in chain order
   (forward links) or last record first (every link points to a lower offset) *)
Definition enc_info_record (e : endian) (next : Z) (i : Z * Z) : list Z :=
  enc e L_MINIDUMP_HANDLE_OBJECT_INFORMATION (vtuple [VInt next; VInt (fst i); VInt (snd i)]).
Fixpoint enc_chain_fwd (e : endian) (off : Z) (l : list (Z * Z)) : list Z :=
  match l with
  | [] => []
  | [i] => enc_info_record e 0 i
  | i :: t => enc_info_record e (off + 12) i ++ enc_chain_fwd e (off + 12) t
  end.
(* last record first: returns the bytes; the first record of the chain sits at off + 12 * (n - 1) *)
Fixpoint enc_chain_bwd (e : endian) (off : Z) (l : list (Z * Z)) : list Z :=
  match l with
  | [] => []
  | i :: t => enc_chain_bwd e off t
              ++ enc_info_record e (match t with [] => 0 | _ => off + 12 * (zlen t - 1) end) i
  end.
