(* C02/Documented.v — the minidump structures as Microsoft documents them (minidumpapiset.h /
   MINIDUMP_* pages on learn.microsoft.com; CodeView records as in Breakpad's minidump_format.h):
   field names, order and types, stream-type numbers, signatures.  Hand-maintained; the layouts
   regenerated from format.rs on every run (coq/Gen/Layouts.v) must equal these
   (theorem c02_layouts_documented), so a re-ordered, re-typed, added or dropped field in
   format.rs breaks the proof gate. *)
From Coq Require Import ZArith List String.
From RM Require Import C02.Layout.
Import ListNotations.
Open Scope string_scope.
Open Scope Z_scope.
Definition D_MINIDUMP_HEADER : layout := (LSeq (LU 4) (LSeq (LU 4) (LSeq (LU 4) (LSeq (LU 4) (LSeq (LU 4) (LSeq (LU 4) (LSeq (LU 8) LNil))))))).
Definition DN_MINIDUMP_HEADER : list string := ["signature"; "version"; "stream_count"; "stream_directory_rva"; "checksum"; "time_date_stamp"; "flags"].
Definition D_MINIDUMP_LOCATION_DESCRIPTOR : layout := (LSeq (LU 4) (LSeq (LU 4) LNil)).
Definition DN_MINIDUMP_LOCATION_DESCRIPTOR : list string := ["data_size"; "rva"].
Definition D_MINIDUMP_MEMORY_DESCRIPTOR : layout := (LSeq (LU 8) (LSeq D_MINIDUMP_LOCATION_DESCRIPTOR LNil)).
Definition DN_MINIDUMP_MEMORY_DESCRIPTOR : list string := ["start_of_memory_range"; "memory"].
Definition D_MINIDUMP_MEMORY_DESCRIPTOR64 : layout := (LSeq (LU 8) (LSeq (LU 8) LNil)).
Definition DN_MINIDUMP_MEMORY_DESCRIPTOR64 : list string := ["start_of_memory_range"; "data_size"].
Definition D_MINIDUMP_DIRECTORY : layout := (LSeq (LU 4) (LSeq D_MINIDUMP_LOCATION_DESCRIPTOR LNil)).
Definition DN_MINIDUMP_DIRECTORY : list string := ["stream_type"; "location"].
Definition D_MINIDUMP_THREAD : layout := (LSeq (LU 4) (LSeq (LU 4) (LSeq (LU 4) (LSeq (LU 4) (LSeq (LU 8) (LSeq D_MINIDUMP_MEMORY_DESCRIPTOR (LSeq D_MINIDUMP_LOCATION_DESCRIPTOR LNil))))))).
Definition DN_MINIDUMP_THREAD : list string := ["thread_id"; "suspend_count"; "priority_class"; "priority"; "teb"; "stack"; "thread_context"].
Definition D_MINIDUMP_THREAD_NAME : layout := (LSeq (LU 4) (LSeq (LU 8) LNil)).
Definition DN_MINIDUMP_THREAD_NAME : list string := ["thread_id"; "thread_name_rva"].
Definition D_VS_FIXEDFILEINFO : layout := (LSeq (LU 4) (LSeq (LU 4) (LSeq (LU 4) (LSeq (LU 4) (LSeq (LU 4) (LSeq (LU 4) (LSeq (LU 4) (LSeq (LU 4) (LSeq (LU 4) (LSeq (LU 4) (LSeq (LU 4) (LSeq (LU 4) (LSeq (LU 4) LNil))))))))))))).
Definition DN_VS_FIXEDFILEINFO : list string := ["signature"; "struct_version"; "file_version_hi"; "file_version_lo"; "product_version_hi"; "product_version_lo"; "file_flags_mask"; "file_flags"; "file_os"; "file_type"; "file_subtype"; "file_date_hi"; "file_date_lo"].
Definition D_MINIDUMP_MODULE : layout := (LSeq (LU 8) (LSeq (LU 4) (LSeq (LU 4) (LSeq (LU 4) (LSeq (LU 4) (LSeq D_VS_FIXEDFILEINFO (LSeq D_MINIDUMP_LOCATION_DESCRIPTOR (LSeq D_MINIDUMP_LOCATION_DESCRIPTOR (LSeq (LArr 2 (LU 4)) (LSeq (LArr 2 (LU 4)) LNil)))))))))).
Definition DN_MINIDUMP_MODULE : list string := ["base_of_image"; "size_of_image"; "checksum"; "time_date_stamp"; "module_name_rva"; "version_info"; "cv_record"; "misc_record"; "reserved0"; "reserved1"].
Definition D_MINIDUMP_UNLOADED_MODULE : layout := (LSeq (LU 8) (LSeq (LU 4) (LSeq (LU 4) (LSeq (LU 4) (LSeq (LU 4) LNil))))).
Definition DN_MINIDUMP_UNLOADED_MODULE : list string := ["base_of_image"; "size_of_image"; "checksum"; "time_date_stamp"; "module_name_rva"].
Definition D_GUID : layout := (LSeq (LU 4) (LSeq (LU 2) (LSeq (LU 2) (LSeq (LArr 8 (LU 1)) LNil)))).
Definition DN_GUID : list string := ["data1"; "data2"; "data3"; "data4"].
Definition D_MINIDUMP_EXCEPTION : layout := (LSeq (LU 4) (LSeq (LU 4) (LSeq (LU 8) (LSeq (LU 8) (LSeq (LU 4) (LSeq (LU 4) (LSeq (LArr 15 (LU 8)) LNil))))))).
Definition DN_MINIDUMP_EXCEPTION : list string := ["exception_code"; "exception_flags"; "exception_record"; "exception_address"; "number_parameters"; "__align"; "exception_information"].
Definition D_MINIDUMP_EXCEPTION_STREAM : layout := (LSeq (LU 4) (LSeq (LU 4) (LSeq D_MINIDUMP_EXCEPTION (LSeq D_MINIDUMP_LOCATION_DESCRIPTOR LNil)))).
Definition DN_MINIDUMP_EXCEPTION_STREAM : list string := ["thread_id"; "__align"; "exception_record"; "thread_context"].
Definition D_CPU_INFORMATION : layout := (LSeq (LArr 24 (LU 1)) LNil).
Definition DN_CPU_INFORMATION : list string := ["data"].
Definition D_X86CpuInfo : layout := (LSeq (LArr 3 (LU 4)) (LSeq (LU 4) (LSeq (LU 4) (LSeq (LU 4) LNil)))).
Definition DN_X86CpuInfo : list string := ["vendor_id"; "version_information"; "feature_information"; "amd_extended_cpu_features"].
Definition D_ARMCpuInfo : layout := (LSeq (LU 4) (LSeq (LU 4) LNil)).
Definition DN_ARMCpuInfo : list string := ["cpuid"; "elf_hwcaps"].
Definition D_OtherCpuInfo : layout := (LSeq (LArr 2 (LU 8)) LNil).
Definition DN_OtherCpuInfo : list string := ["processor_features"].
Definition D_MINIDUMP_SYSTEM_INFO : layout := (LSeq (LU 2) (LSeq (LU 2) (LSeq (LU 2) (LSeq (LU 1) (LSeq (LU 1) (LSeq (LU 4) (LSeq (LU 4) (LSeq (LU 4) (LSeq (LU 4) (LSeq (LU 4) (LSeq (LU 2) (LSeq (LU 2) (LSeq D_CPU_INFORMATION LNil))))))))))))).
Definition DN_MINIDUMP_SYSTEM_INFO : list string := ["processor_architecture"; "processor_level"; "processor_revision"; "number_of_processors"; "product_type"; "major_version"; "minor_version"; "build_number"; "platform_id"; "csd_version_rva"; "suite_mask"; "reserved2"; "cpu"].
Definition D_MINIDUMP_MEMORY_INFO_LIST : layout := (LSeq (LU 4) (LSeq (LU 4) (LSeq (LU 8) LNil))).
Definition DN_MINIDUMP_MEMORY_INFO_LIST : list string := ["size_of_header"; "size_of_entry"; "number_of_entries"].
Definition D_MINIDUMP_MEMORY_INFO : layout := (LSeq (LU 8) (LSeq (LU 8) (LSeq (LU 4) (LSeq (LU 4) (LSeq (LU 8) (LSeq (LU 4) (LSeq (LU 4) (LSeq (LU 4) (LSeq (LU 4) LNil))))))))).
Definition DN_MINIDUMP_MEMORY_INFO : list string := ["base_address"; "allocation_base"; "allocation_protection"; "__alignment1"; "region_size"; "state"; "protection"; "_type"; "__alignment2"].
Definition D_SYSTEMTIME : layout := (LSeq (LU 2) (LSeq (LU 2) (LSeq (LU 2) (LSeq (LU 2) (LSeq (LU 2) (LSeq (LU 2) (LSeq (LU 2) (LSeq (LU 2) LNil)))))))).
Definition DN_SYSTEMTIME : list string := ["year"; "month"; "day_of_week"; "day"; "hour"; "minute"; "second"; "milliseconds"].
Definition D_TIME_ZONE_INFORMATION : layout := (LSeq (LI 4) (LSeq (LArr 32 (LU 2)) (LSeq D_SYSTEMTIME (LSeq (LI 4) (LSeq (LArr 32 (LU 2)) (LSeq D_SYSTEMTIME (LSeq (LI 4) LNil))))))).
Definition DN_TIME_ZONE_INFORMATION : list string := ["bias"; "standard_name"; "standard_date"; "standard_bias"; "daylight_name"; "daylight_date"; "daylight_bias"].
Definition D_XSTATE_FEATURE : layout := (LSeq (LU 4) (LSeq (LU 4) LNil)).
Definition DN_XSTATE_FEATURE : list string := ["offset"; "size"].
Definition D_XSTATE_CONFIG_FEATURE_MSC_INFO : layout := (LSeq (LU 4) (LSeq (LU 4) (LSeq (LU 8) (LSeq (LArr 64 D_XSTATE_FEATURE) LNil)))).
Definition DN_XSTATE_CONFIG_FEATURE_MSC_INFO : list string := ["size_of_info"; "context_size"; "enabled_features"; "features"].
Definition D_CV_INFO_PDB20 : layout := (LSeq (LU 4) (LSeq (LU 4) (LSeq (LU 4) (LSeq (LU 4) LNil)))).
Definition DN_CV_INFO_PDB20 : list string := ["cv_signature"; "cv_offset"; "signature"; "age"].
Definition D_CV_INFO_PDB70 : layout := (LSeq (LU 4) (LSeq D_GUID (LSeq (LU 4) LNil))).
Definition DN_CV_INFO_PDB70 : list string := ["cv_signature"; "signature"; "age"].
Definition D_CV_INFO_ELF : layout := (LSeq (LU 4) LNil).
Definition DN_CV_INFO_ELF : list string := ["cv_signature"].
Definition D_MINIDUMP_MISC_INFO : layout := (LSeq (LU 4) (LSeq (LU 4) (LSeq (LU 4) (LSeq (LU 4) (LSeq (LU 4) (LSeq (LU 4) LNil)))))).
Definition DN_MINIDUMP_MISC_INFO : list string := ["size_of_info"; "flags1"; "process_id"; "process_create_time"; "process_user_time"; "process_kernel_time"].
Definition D_MINIDUMP_MISC_INFO_2 : layout := (LSeq (LU 4) (LSeq (LU 4) (LSeq (LU 4) (LSeq (LU 4) (LSeq (LU 4) (LSeq (LU 4) (LSeq (LU 4) (LSeq (LU 4) (LSeq (LU 4) (LSeq (LU 4) (LSeq (LU 4) LNil))))))))))).
Definition DN_MINIDUMP_MISC_INFO_2 : list string := ["size_of_info"; "flags1"; "process_id"; "process_create_time"; "process_user_time"; "process_kernel_time"; "processor_max_mhz"; "processor_current_mhz"; "processor_mhz_limit"; "processor_max_idle_state"; "processor_current_idle_state"].
Definition D_MINIDUMP_MISC_INFO_3 : layout := (LSeq (LU 4) (LSeq (LU 4) (LSeq (LU 4) (LSeq (LU 4) (LSeq (LU 4) (LSeq (LU 4) (LSeq (LU 4) (LSeq (LU 4) (LSeq (LU 4) (LSeq (LU 4) (LSeq (LU 4) (LSeq (LU 4) (LSeq (LU 4) (LSeq (LU 4) (LSeq (LU 4) (LSeq D_TIME_ZONE_INFORMATION LNil)))))))))))))))).
Definition DN_MINIDUMP_MISC_INFO_3 : list string := ["size_of_info"; "flags1"; "process_id"; "process_create_time"; "process_user_time"; "process_kernel_time"; "processor_max_mhz"; "processor_current_mhz"; "processor_mhz_limit"; "processor_max_idle_state"; "processor_current_idle_state"; "process_integrity_level"; "process_execute_flags"; "protected_process"; "time_zone_id"; "time_zone"].
Definition D_MINIDUMP_MISC_INFO_4 : layout := (LSeq (LU 4) (LSeq (LU 4) (LSeq (LU 4) (LSeq (LU 4) (LSeq (LU 4) (LSeq (LU 4) (LSeq (LU 4) (LSeq (LU 4) (LSeq (LU 4) (LSeq (LU 4) (LSeq (LU 4) (LSeq (LU 4) (LSeq (LU 4) (LSeq (LU 4) (LSeq (LU 4) (LSeq D_TIME_ZONE_INFORMATION (LSeq (LArr 260 (LU 2)) (LSeq (LArr 40 (LU 2)) LNil)))))))))))))))))).
Definition DN_MINIDUMP_MISC_INFO_4 : list string := ["size_of_info"; "flags1"; "process_id"; "process_create_time"; "process_user_time"; "process_kernel_time"; "processor_max_mhz"; "processor_current_mhz"; "processor_mhz_limit"; "processor_max_idle_state"; "processor_current_idle_state"; "process_integrity_level"; "process_execute_flags"; "protected_process"; "time_zone_id"; "time_zone"; "build_string"; "dbg_bld_str"].
Definition D_MINIDUMP_MISC_INFO_5 : layout := (LSeq (LU 4) (LSeq (LU 4) (LSeq (LU 4) (LSeq (LU 4) (LSeq (LU 4) (LSeq (LU 4) (LSeq (LU 4) (LSeq (LU 4) (LSeq (LU 4) (LSeq (LU 4) (LSeq (LU 4) (LSeq (LU 4) (LSeq (LU 4) (LSeq (LU 4) (LSeq (LU 4) (LSeq D_TIME_ZONE_INFORMATION (LSeq (LArr 260 (LU 2)) (LSeq (LArr 40 (LU 2)) (LSeq D_XSTATE_CONFIG_FEATURE_MSC_INFO (LSeq (LU 4) LNil)))))))))))))))))))).
Definition DN_MINIDUMP_MISC_INFO_5 : list string := ["size_of_info"; "flags1"; "process_id"; "process_create_time"; "process_user_time"; "process_kernel_time"; "processor_max_mhz"; "processor_current_mhz"; "processor_mhz_limit"; "processor_max_idle_state"; "processor_current_idle_state"; "process_integrity_level"; "process_execute_flags"; "protected_process"; "time_zone_id"; "time_zone"; "build_string"; "dbg_bld_str"; "xstate_data"; "process_cookie"].
Definition DOC_MINIDUMP_SIGNATURE : Z := 1347241037.
Definition DOC_MINIDUMP_VERSION : Z := 42899.
Definition DOC_VS_FFI_SIGNATURE : Z := 4277077181.
Definition DOC_VS_FFI_STRUCVERSION : Z := 65536.
Definition DOC_ST_UnusedStream : Z := 0.
Definition DOC_ST_ThreadListStream : Z := 3.
Definition DOC_ST_ModuleListStream : Z := 4.
Definition DOC_ST_MemoryListStream : Z := 5.
Definition DOC_ST_ExceptionStream : Z := 6.
Definition DOC_ST_SystemInfoStream : Z := 7.
Definition DOC_ST_Memory64ListStream : Z := 9.
Definition DOC_ST_UnloadedModuleListStream : Z := 14.
Definition DOC_ST_MiscInfoStream : Z := 15.
Definition DOC_ST_MemoryInfoListStream : Z := 16.
Definition DOC_ST_ThreadNamesStream : Z := 24.
Definition DOC_CV_SIG_Pdb20 : Z := 808534606.
Definition DOC_CV_SIG_Pdb70 : Z := 1396986706.
Definition DOC_CV_SIG_Elf : Z := 1114654028.
Definition DOC_PLATFORM_VER_PLATFORM_WIN32_WINDOWS : Z := 2.
Definition DOC_PLATFORM_VER_PLATFORM_WIN32_NT : Z := 3.
Definition DOC_PLATFORM_MacOs : Z := 33025.
Definition DOC_PLATFORM_Ios : Z := 33026.
Definition DOC_PLATFORM_Linux : Z := 33281.
Definition DOC_PLATFORM_Solaris : Z := 33282.
Definition DOC_PLATFORM_Android : Z := 33283.
Definition DOC_PLATFORM_Ps3 : Z := 33284.
Definition DOC_PLATFORM_NaCl : Z := 33285.
