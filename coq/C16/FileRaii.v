(* C16/FileRaii.v — fetch_lookup as a PROGRAM run under Rust's ownership rules (the counterpart of C16/Raii.v for the binaries path).
   The program is the step list that translate/c16_fsops.py extracts from `fn fetch_lookup` (Gen/C16Ops.v [lookup_steps]); the
   interpreter gives a meaning to ANY list of such steps.  The droppable locals live in a [qframe]; there is ONE drop site, [qleave],
   applied whenever the frame is left: `Ok(..)`, an error through `?` (also a step the frame is not ready for), the future dropped
   while suspended at an await (`send()`, `res.chunk()`).  `let mut temp = ..` drops the old value of the slot.
   `temp.persist_noclobber(path)` takes the NamedTempFile BY VALUE: on success the file has become the cache entry and nothing is
   left to drop; on failure the error value owns the file and is dropped by the `?`.  Definitions only. *)
From RM Require Import C16.Model C16.FileFetch Gen.C16Ops.
Open Scope Z_scope.

Section FileRaii.
  Variable p : path.

  Record qframe := mkqf {
    qf_res : bool;              (* `res`: a response whose status was accepted *)
    qf_temp : option Z;         (* `temp: NamedTempFile` (None: not yet created / moved out) *)
    qf_got : bytes              (* what has been written so far *)
  }.
  Definition qframe0 : qframe := mkqf false None [].

  Definition qleave (f : fs) (fr : qframe) : fs := drop_temp f (qf_temp fr).

  Inductive jstate :=
  | JRun (rest : list server) (cur : server) (pc : list lstep) (fr : qframe)
  | JDone (r : qresult)
  | JDropped.
  Record jst := mkj { j_fs : fs; j_log : list Z; j_l : jstate }.

  Variable prog : list lstep.

  Definition jnext (f : fs) (log : list Z) (ss : list server) : jst :=
    match ss with
    | [] => mkj f log (JDone QNotFound)
    | s :: rest => mkj f (log ++ [s_id s]) (JRun rest s prog qframe0)
    end.

  Definition jexit_err (f : fs) (log : list Z) (rest : list server) (fr : qframe) : jst :=
    jnext (qleave f fr) log rest.

  (* steps without an await, run until the next await step *)
  Fixpoint jsilent (n : nat) (f : fs) (log : list Z) (rest : list server) (cur : server) (pc : list lstep) (fr : qframe) : jst :=
    match n with
    | O => mkj f log (JRun rest cur pc fr)
    | S k =>
        match pc with
        | [] => jexit_err f log rest fr
        | LSend :: _ | LWriteLoopQ :: _ => mkj f log (JRun rest cur pc fr)
        | LCreateQ :: pc' =>
            (* let mut temp = create_cache_file(..)?; *)
            let f0 := drop_temp f (qf_temp fr) in
            match create_cache_file p (s_env cur) f0 with
            | (f1, Some n0) => jsilent k f1 log rest cur pc' (mkqf (qf_res fr) (Some n0) [] )
            | (f1, None) => jexit_err f1 log rest (mkqf (qf_res fr) None (qf_got fr))
            end
        | LPersistNoclobberQ :: pc' =>
            (* temp.persist_noclobber(&final_cache_path)?  — by value *)
            match qf_temp fr with
            | Some n0 =>
                let moved := mkqf (qf_res fr) None (qf_got fr) in
                match cache f p with
                | None =>
                    if persist_ok (s_env cur)
                    then jsilent k (rm_tmp (set_cache f p (Some (File (qf_got fr)))) n0) log rest cur pc' moved
                    else jexit_err (rm_tmp f n0) log rest moved        (* the PersistError owns the file; dropped by `?` *)
                | Some _ => jexit_err (rm_tmp f n0) log rest moved
                end
            | None => jexit_err f log rest fr
            end
        | LReturnOk :: _ => mkj (qleave f fr) log (JDone (QFetched (s_id cur)))
        end
    end.

  Definition jgo (f : fs) (log : list Z) (rest : list server) (cur : server) (pc : list lstep) (fr : qframe) : jst :=
    jsilent (S (length pc)) f log rest cur pc fr.

  Definition jstep (s : jst) (ev : event) : jst :=
    match j_l s with
    | JDone _ | JDropped => s
    | JRun rest cur pc fr =>
        let f := j_fs s in
        let log := j_log s in
        match ev with
        | EDrop => mkj (qleave f fr) log JDropped
        | _ =>
            match pc with
            | LSend :: pc' =>
                match ev with
                | EHead code =>
                    if 400 <=? code then jexit_err f log rest fr
                    else jgo f log rest cur pc' (mkqf true (qf_temp fr) (qf_got fr))
                | _ => jexit_err f log rest fr
                end
            | LWriteLoopQ :: pc' =>
                match qf_res fr, qf_temp fr with
                | true, Some n0 =>
                    match ev with
                    | EChunk bs =>
                        let got' := qf_got fr ++ bs in
                        if wr_ok (s_env cur) (Z.of_nat (length got'))
                        then mkj (write_tmp f n0 got') log (JRun rest cur pc (mkqf true (Some n0) got'))
                        else jexit_err f log rest fr
                    | EEof => jgo f log rest cur pc' fr
                    | _ => jexit_err f log rest fr
                    end
                | _, _ => jexit_err f log rest fr
                end
            | _ => jexit_err f log rest fr
            end
        end
    end.

  Definition jrun (s : jst) (evs : list event) : jst := fold_left jstep evs s.
  Definition jstart (f : fs) (ss : list server) : jst := jnext f [] ss.
End FileRaii.
