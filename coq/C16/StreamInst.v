(* C16/StreamInst.v — the streaming fetch (C16/Stream.v) with the recogniser of the real parser's model
   (C09/Grammar.v: recog_pst / finish, the instance C10's theorems about parse_async are stated for).
   Definitions only (extracted). *)
From Coq Require Import ZArith List Bool.
From RM Require Import Base.Word C08.Model C11.Model C09.Model C09.Grammar C09.Driver C10.Model C10.Stream C16.Model C16.Stream.
Import ListNotations.
Open Scope Z_scope.

(* a byte string as the model's input: complete lines (run-length strings) and the length of the unterminated rest *)
Definition split_c (b : bytes) : list rle * Z :=
  let '(ls, tl) := split_bytes b [] in (map to_rle ls, Z.of_nat (length tl)).

(* SymbolParser::finish; it cannot panic on a state the recogniser produced (C09/ProofsFinish.v) *)
Definition finish_c (q : pst) : option table :=
  match finish q with Ret t => Some t | _ => None end.

Definition stream_fetch_c (p : path) (e : env) (u : bytes) (f : fs) (b : bytes) (script : list sev) : fs * fres table :=
  stream_fetch rle cllen pst init_pst recog_pst bump_pst lineno_pst table finish_c split_c p e u f b script.

Definition stream_fetch_dropped_c (p : path) (e : env) (f : fs) (b : bytes) (script : list sev) (k : nat) : fs :=
  stream_fetch_dropped rle cllen pst init_pst recog_pst bump_pst lineno_pst split_c p e f b script k.
