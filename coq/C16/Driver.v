(* C16/Driver.v — entry points for the correspondence run.
   The model's parser parameter is instantiated with a line recogniser for the subset of the
   Breakpad text format that the case generator emits (MODULE first, INFO, INFO URL, FILE,
   FUNC with line records, PUBLIC, STACK CFI INIT/STACK CFI, empty lines; anything else is a
   corrupt line; an unterminated last line is an error unless it is over-long, over-long
   lines are discarded).  It yields the observable part of the symbol table: the number
   of FUNC and PUBLIC records, and the last INFO URL record. *)
From RM Require Import C09.Grammar C10.Model C16.Model C16.Shared Gen.C16Ops.
From RM Require Import C16.FileFetch.
Open Scope Z_scope.

Definition GIANT : Z := 100000.   (* generated lines are < 4 KiB or > 170 KiB *)

Fixpoint starts_with (pre l : bytes) : bool :=
  match pre, l with
  | [], _ => true
  | a :: pre', b :: l' => (a =? b) && starts_with pre' l'
  | _ :: _, [] => false
  end.
Fixpoint drop_n (n : nat) (l : bytes) : bytes :=
  match n, l with O, _ => l | S n', _ :: l' => drop_n n' l' | S _, [] => [] end.

(* complete lines (without the NL) and the unterminated tail *)
Fixpoint lines_of (b : bytes) (cur : bytes) : list bytes * bytes :=
  match b with
  | [] => ([], rev_append cur [])
  | c :: r => if c =? NL then let '(ls, tl) := lines_of r [] in (rev_append cur [] :: ls, tl)
              else lines_of r (c :: cur)
  end.

Definition KW_MODULE : bytes := [77; 79; 68; 85; 76; 69; 32].
Definition KW_FILE : bytes := [70; 73; 76; 69; 32].
Definition KW_FUNC : bytes := [70; 85; 78; 67; 32].
Definition KW_PUBLIC : bytes := [80; 85; 66; 76; 73; 67; 32].
Definition KW_INFO : bytes := [73; 78; 70; 79; 32].
Definition KW_CFI_INIT : bytes := [83; 84; 65; 67; 75; 32; 67; 70; 73; 32; 73; 78; 73; 84; 32].
Definition KW_CFI : bytes := [83; 84; 65; 67; 75; 32; 67; 70; 73; 32].

Definition is_hex (c : Z) : bool :=
  ((48 <=? c) && (c <=? 57)) || ((97 <=? c) && (c <=? 102)) || ((65 <=? c) && (c <=? 70)).

Record pst := mkpst {
  p_nf : Z; p_np : Z; p_url : option bytes;
  p_ctx : Z;        (* 0 top level, 1 inside FUNC, 2 inside STACK CFI INIT *)
  p_first : bool    (* no line seen yet *)
}.
Definition pst0 : pst := mkpst 0 0 None 0 true.

Definition line_step (g : Z) (s : pst) (l : bytes) : option pst :=
  let top (nf np : Z) (u : option bytes) (ctx : Z) := Some (mkpst nf np u ctx false) in
  if g <=? Z.of_nat (length l) then top (p_nf s) (p_np s) (p_url s) (p_ctx s)       (* discarded *)
  else if starts_with KW_MODULE l then
    (if p_first s then top (p_nf s) (p_np s) (p_url s) 0 else None)
  else if starts_with INFO_URL l then top (p_nf s) (p_np s) (Some (drop_n (length INFO_URL) l)) 0
  else if starts_with KW_INFO l then top (p_nf s) (p_np s) (p_url s) 0
  else if starts_with KW_FILE l then top (p_nf s) (p_np s) (p_url s) 0
  else if starts_with KW_FUNC l then top (p_nf s + 1) (p_np s) (p_url s) 1
  else if starts_with KW_PUBLIC l then top (p_nf s) (p_np s + 1) (p_url s) 0
  else if starts_with KW_CFI_INIT l then top (p_nf s) (p_np s) (p_url s) 2
  else if starts_with KW_CFI l then (if p_ctx s =? 2 then top (p_nf s) (p_np s) (p_url s) 2 else None)
  else match l with
       | [] => top (p_nf s) (p_np s) (p_url s) 0
       | c :: _ => if is_hex c && (p_ctx s =? 1) then top (p_nf s) (p_np s) (p_url s) 1 else None
       end.

Fixpoint lines_fold (g : Z) (s : pst) (ls : list bytes) : option pst :=
  match ls with
  | [] => Some s
  | l :: r => match line_step g s l with Some s' => lines_fold g s' r | None => None end
  end.

Definition table := (Z * Z)%type.

Definition parse_lite_g (g : Z) (b : bytes) : option (table * option bytes) :=
  let '(ls, tl) := lines_of b [] in
  match lines_fold g pst0 ls with
  | None => None
  | Some s =>
      match tl with
      | [] => if p_first s then None (* empty file *) else Some ((p_nf s, p_np s), p_url s)
      | _ => if g <=? Z.of_nat (length tl) then Some ((p_nf s, p_np s), p_url s) else None
      end
  end.

Definition parse_lite : bytes -> option (table * option bytes) := parse_lite_g GIANT.

(* the complete lines of the prefix already contain a corrupt line *)
Definition early_lite (b : bytes) : bool :=
  let '(ls, _) := lines_of b [] in
  match lines_fold GIANT pst0 ls with None => true | Some _ => false end.

(* ---------------------------------------------------------------- the driver's parser instance *)
(* longest line (or unterminated rest) of the input *)
Fixpoint max_line (b : bytes) (cur best : Z) : Z :=
  match b with
  | [] => Z.max cur best
  | c :: r => if c =? NL then max_line r 0 (Z.max cur best) else max_line r (cur + 1) best
  end.
Definition FUZZY_LO : Z := 60000.    (* below: C09/C10's parse_bytes is what the code answers (all lines < 80 KiB) *)
Definition FUZZY_HI : Z := 170000.   (* from here on a line is always discarded by the recovery mode *)
(* 0: every line short; 1: over-long lines, none in the alignment-dependent band; 2: not predicted *)
Fixpoint fuzzy_line (b : bytes) (cur : Z) : bool :=
  let hit := (FUZZY_LO <=? cur) && (cur <? FUZZY_HI) in
  match b with
  | [] => hit
  | c :: r => if c =? NL then hit || fuzzy_line r 0 else fuzzy_line r (cur + 1)
  end.
Definition line_class (b : bytes) : Z :=
  if fuzzy_line b 0 then 2 else if max_line b 0 0 <? FUZZY_LO then 0 else 1.
(* Short-line inputs: the parser model of C09/C10, projected to the observable part of the table.
   Inputs with over-long lines: the line recogniser above (parse_bytes has no recovery mode). *)
(* round 5: bodies with a 4-60 KB line (a record that does not fit the parser's 10 KiB buffer) are generated from the
   subset of the format the line recogniser knows; C09's run-length recogniser needs seconds per such line *)
Definition LITE_FROM : Z := 4100.
Definition NEVER : Z := 1000000000.      (* no line is that long: nothing is discarded *)
Definition parse_drv (b : bytes) : option (table * option bytes) :=
  if max_line b 0 0 <? LITE_FROM then
    match parse_bytes b with
    | Some (t, u) => Some ((Z.of_nat (length (t_funcs t)), Z.of_nat (length (t_publics t))), u)
    | None => None
    end
  else if max_line b 0 0 <? FUZZY_LO then parse_lite_g NEVER b
  else parse_lite b.
Definition early_drv (b : bytes) : bool := false.

(* ---------------------------------------------------------------- scripts -> events *)
(* ending of a response as the client sees it: 0 clean end, 1 error/cut/timeout *)
Definition script_events (status : Z) (no_head : bool) (chunks : list bytes) (ending : Z) : list event :=
  if no_head then [ESendErr]
  else if 400 <=? status then [EHead status]
  else EHead status :: map EChunk chunks ++ [if ending =? 0 then EEof else EBodyErr].

Definition P0 : path := 7.

Definition init_fs (pre : Z) (prec : bytes) : fs :=
  mkfs (fun q => if q =? P0 then (if pre =? 1 then Some (File prec) else if pre =? 2 then Some Dir else None) else None)
       (fun q => if q =? P0 then negb (pre =? 0) else false)
       [].

Definition mk_env (mk cr : bool) (wlim : Z) (rm ps : bool) : env :=
  mkenv mk cr (fun n => (wlim <? 0) || (n <=? wlim)) rm ps.

Definition lookup (f : fs) (locals : list (option bytes)) (race : option bytes)
           (ss : list server) (evs : list event) : st table :=
  locate table parse_drv early_drv P0 f locals race ss evs.

(* observables of a state *)
Definition o_result (s : st table) : Z * (Z * Z) * option bytes :=
  match s_l s with
  | LDone (ROk (nf, np) u) => (0, (nf, np), u)
  | LDone RNotFound => (1, (0, 0), None)
  | LDone RParse => (2, (0, 0), None)
  | LDropped => (3, (0, 0), None)
  | LRun _ _ _ => (4, (0, 0), None)
  end.
Definition o_log (s : st table) : list Z := s_log s.
Definition o_cache (s : st table) : option node := cache (s_fs s) P0.
Definition o_tmp (s : st table) : list Z := map (fun e => Z.of_nat (length (snd e))) (tmp (s_fs s)).
Definition o_cdir (s : st table) : bool := cdir (s_fs s) P0.
Definition o_fs (s : st table) : fs := s_fs s.
Definition o_pending (s : st table) : bool := match s_l s with LRun _ _ _ => true | _ => false end.
Definition o_cur (s : st table) : Z := match s_l s with LRun _ cur _ => s_id cur | _ => -1 end.
Definition take_events (n : Z) (evs : list event) : list event := firstn (Z.to_nat n) evs.
Definition ev_drop : event := EDrop.

(* ---------------------------------------------------------------- shared cache (several clients) *)
(* The machine of C16/Shared.v with the operation programs extracted from the source (Gen.C16Ops). *)
Definition sh_init (pre : Z) (prec : bytes) : mfs :=
  mkmfs (if pre =? 1 then Some (File prec) else if pre =? 2 then Some Dir else None) (negb (pre =? 0)) (fun _ => None).
Definition sh_state := mstate table.
Definition sh_start (f : mfs) (srv : Z -> list server) : sh_state := minit table f srv.
Definition sh_step (s : sh_state) (i : Z) (a : action) : sh_state :=
  mstep table parse_drv create_ops commit_ops s (i, a).
(* run client i's pending file-system operations to the end of the function it is in
   (create_cache_file / commit_cache_file contain no await: the harness cannot observe them half done) *)
Fixpoint sh_ticks (n : nat) (s : sh_state) (i : Z) : sh_state :=
  match n with
  | O => s
  | S k => match c_ph (ms_cl s i) with
           | CCreate _ | CCommit _ _ _ => sh_ticks k (sh_step s i ATick) i
           | _ => s
           end
  end.
Definition sh_net (s : sh_state) (i : Z) (ev : event) : sh_state := sh_ticks 32 (sh_step s i (ANet ev)) i.
Definition sh_begin (s : sh_state) (i : Z) : sh_state := sh_step s i AStart.
Definition sh_cache (s : sh_state) : option node := m_cache (ms_fs s).
Fixpoint sh_count (n : nat) (s : sh_state) : Z :=
  match n with
  | O => 0
  | S k => (match m_tmp (ms_fs s) (Z.of_nat k) with Some _ => 1 | None => 0 end) + sh_count k s
  end.
Definition sh_ntmp (s : sh_state) (nc : Z) : Z := sh_count (Z.to_nat nc) s.
Definition sh_result (s : sh_state) (i : Z) : Z * (Z * Z) * option bytes :=
  match c_ph (ms_cl s i) with
  | CDone (ROk (nf, np) u) => (0, (nf, np), u)
  | CDone RNotFound => (1, (0, 0), None)
  | CDone RParse => (2, (0, 0), None)
  | CDropped => (3, (0, 0), None)
  | CIdle => (5, (0, 0), None)
  | _ => (4, (0, 0), None)
  end.
Definition sh_fs (s : sh_state) : mfs := ms_fs s.

(* ---------------------------------------------------------------- the streaming fetch (round 5)
   Entry point of the correspondence run for C16/Stream.v: one download = create_cache_file, parse_async's loop
   over the scripted body with the tee callback, commit_cache_file.  Two recogniser instances of the SAME generic
   [stream_fetch] (the theorems of C16/StreamProofs.v hold for every recogniser): the model of the real parser
   (C09/Grammar.v) for bodies whose lines are shorter than LITE_FROM, and the line recogniser above for the
   generated bodies with longer lines (the loop -- buffer growth, EOF detection, recovery -- is the same; only
   parse_more's verdict on a complete line comes from the small recogniser). *)
From RM Require Import C09.Model C10.Stream C16.Stream C16.StreamInst.
Definition llen_lite (l : bytes) : Z := Z.of_nat (length l) + 1.
Definition recog_lite (s : pst) (l : bytes) : pst + Z :=
  match line_step NEVER s l with Some s' => inl s' | None => inr 1 end.
(* a line discarded by the recovery mode: `parser.lines += 1` *)
Definition bump_lite (s : pst) : pst := mkpst (p_nf s) (p_np s) (p_url s) (p_ctx s) false.
Definition finish_lite (s : pst) : option table := Some (p_nf s, p_np s).
Definition split_lite (b : bytes) : list bytes * Z :=
  let '(ls, tl) := lines_of b [] in (ls, Z.of_nat (length tl)).

Definition stream_fetch_lite (p : path) (e : env) (u : bytes) (f : fs) (b : bytes) (script : list sev) : fs * fres table :=
  stream_fetch bytes llen_lite pst pst0 recog_lite bump_lite (fun _ => 0) table finish_lite split_lite p e u f b script.

Definition script_of (sizes : list Z) (failing : bool) : list sev :=
  map SChunk sizes ++ (if failing then [SFail] else []).

(* result kind (0 Ok, 1 Err code, 2 panic, 3 out of fuel), (#FUNC, #PUBLIC) or (code, 0), file system afterwards *)
Definition stream_run (e : env) (u : bytes) (f : fs) (b : bytes) (sizes : list Z) (failing : bool)
  : (Z * (Z * Z)) * fs :=
  let script := script_of sizes failing in
  if max_line b 0 0 <? LITE_FROM then
    let '(f', r) := stream_fetch_c P0 e u f b script in
    (match r with
     | FOk t => (0, (Z.of_nat (length (t_funcs t)), Z.of_nat (length (t_publics t))))
     | FErr c => (1, (c, 0))
     | FPanic => (2, (0, 0))
     | FFuel => (3, (0, 0))
     end, f')
  else
    let '(f', r) := stream_fetch_lite P0 e u f b script in
    (match r with
     | FOk t => (0, t)
     | FErr c => (1, (c, 0))
     | FPanic => (2, (0, 0))
     | FFuel => (3, (0, 0))
     end, f').

Definition fs_cache (f : fs) : option node := cache f P0.
Definition fs_tmp (f : fs) : list Z := map (fun e => Z.of_nat (length (snd e))) (tmp f).
Definition fs_cdir (f : fs) : bool := cdir f P0.

(* the whole network part of a lookup (every server in turn) with the streaming download inside: C16/Stream.v lookup_stream *)
Definition resp_of (status : Z) (no_head : bool) (final : bytes) (b : bytes) (sizes : list Z) (failing : bool) : resp :=
  if no_head then RNoHead else RHead status final b (script_of sizes failing).
Definition resp_short (r : resp) : bool :=
  match r with RNoHead => true | RHead _ _ b _ => max_line b 0 0 <? LITE_FROM end.
(* result kind (0 Ok, 1 NotFound), (#FUNC, #PUBLIC), url, file system afterwards, request log *)
Definition stream_lookup (f : fs) (ss : list (server * resp)) : (Z * (Z * Z) * option bytes) * fs * list Z :=
  if forallb (fun sr => resp_short (snd sr)) ss then
    let '(f', res, lg) := lookup_stream rle cllen C09.Grammar.pst init_pst recog_pst bump_pst lineno_pst C09.Grammar.table finish_c split_c P0 note_url_src report_url_src f ss in
    (match res with
     | Some (t, u) => (0, (Z.of_nat (length (t_funcs t)), Z.of_nat (length (t_publics t))), Some u)
     | None => (1, (0, 0), None)
     end, f', lg)
  else
    let '(f', res, lg) := lookup_stream bytes llen_lite pst pst0 recog_lite bump_lite (fun _ => 0) table finish_lite split_lite P0 note_url_src report_url_src f ss in
    (match res with
     | Some (t, u) => (0, t, Some u)
     | None => (1, (0, 0), None)
     end, f', lg).


(* ---------------------------------------------------------------- fetch_lookup / locate_file (C16/FileFetch.v): binaries, extra debug info *)
Definition file_lookup (f : fs) (locals : list bool) (ss : list server) (evs : list event) : qst :=
  FileFetch.locate_file P0 f locals ss evs.
(* 0 found locally (local path or cache), 1 downloaded, 2 NotFound, 3 dropped, 4 pending *)
Definition q_result (s : qst) : Z :=
  match q_l s with
  | QDone QLocal => 0 | QDone (QFetched _) => 1 | QDone QNotFound => 2 | QDropped => 3 | QRun _ _ _ => 4
  end.
Definition q_olog (s : qst) : list Z := q_log s.
Definition q_ofs (s : qst) : fs := q_fs s.
Definition q_pending (s : qst) : bool := match q_l s with QRun _ _ _ => true | _ => false end.
Definition q_cur (s : qst) : Z := match q_l s with QRun _ cur _ => s_id cur | _ => -1 end.
