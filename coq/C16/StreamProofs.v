(* C16/StreamProofs.v — fetch_symbol_file over the streaming parser (C16/Stream.v): a cache entry is made only
   from the whole body, for every chunking; no temp file survives any exit edge. *)
From Coq Require Import Lia ZArith List Bool.
From RM Require Import Base.Word C09.Model C10.Model C10.Stream C10.ProofsStream C16.Model C16.Proofs C16.Stream.
Import ListNotations.
Open Scope Z_scope.

Lemma filter_idem : forall (A : Type) (g : A -> bool) l, filter g (filter g l) = filter g l.
Proof.
  induction l as [|a l IH]; cbn [filter]; [reflexivity|].
  destruct (g a) eqn:E; cbn [filter]; [rewrite E, IH; reflexivity|exact IH].
Qed.

Section StreamFetchProofs.
  Variable L : Type.
  Variable llen : L -> Z.
  Variable PS : Type.
  Variable init_ps : PS.
  Variable recog : PS -> L -> PS + Z.
  Variable bump : PS -> PS.
  Variable lineno : PS -> Z.
  Variable T : Type.
  Variable finish : PS -> option T.
  Variable split : bytes -> list L * Z.
  Variable p : path.
  Hypothesis llen_pos : forall l, 1 <= llen l.

  Notation sst := (@sst L PS).
  Notation sres := (@sres L PS).
  Notation step_stream := (step_stream L llen PS recog bump lineno).
  Notation iter_stream := (iter_stream L llen PS recog bump lineno).
  Notation iter_fetch := (iter_fetch L llen PS recog bump lineno).
  Notation steps_fetch := (steps_fetch L llen PS recog bump lineno).
  Notation tee_step := (tee_step L llen PS bump).
  Notation stream_fetch := (stream_fetch L llen PS init_ps recog bump lineno T finish split p).
  Notation stream_fetch_dropped := (stream_fetch_dropped L llen PS init_ps recog bump lineno split p).
  Notation stream_fetch_inflight := (stream_fetch_inflight L llen PS init_ps recog bump lineno split p).
  Notation drive_stream := (drive_stream L llen PS init_ps recog bump lineno).

  (* ---------------------------------------------------------------- the tee never changes the loop *)
  Lemma iter_fetch_fst : forall e q x w, fst (iter_fetch e q x w) = iter_stream q x.
  Proof.
    intros e. induction q as [q IH|q IH|]; intros x w; cbn [Stream.iter_fetch Stream.iter_stream].
    - destruct (step_stream x) as [x1|r x1|t] eqn:S; cbn [fst]; try reflexivity.
      pose proof (IH x1 (tee_step e x (SNext x1) w)) as H1.
      destruct (iter_fetch e q x1 (tee_step e x (SNext x1) w)) as [r1 w1]. cbn [fst] in H1. rewrite <- H1.
      destruct r1 as [x2|r2 x2|t2]; cbn [fst]; try reflexivity. apply IH.
    - pose proof (IH x w) as H1. destruct (iter_fetch e q x w) as [r1 w1]. cbn [fst] in H1. rewrite <- H1.
      destruct r1 as [x2|r2 x2|t2]; cbn [fst]; try reflexivity. apply IH.
    - reflexivity.
  Qed.

  (* ---------------------------------------------------------------- what the temp file holds *)
  (* the handle is the one create_cache_file returned *)
  Definition tee_name (tf : option Z) (w : tee) : Prop :=
    match w with TOpen n _ => tf = Some n | TNone => True end.
  (* ... and the file holds exactly the bytes the callback has been given *)
  Definition tee_at (tf : option Z) (c : Z) (w : tee) : Prop :=
    match w with TOpen n len => tf = Some n /\ len = c | TNone => True end.

  Lemma tee_at_name : forall tf c w, tee_at tf c w -> tee_name tf w.
  Proof. intros tf c [n len|]; cbn; [intros [H _]; exact H|trivial]. Qed.

  Lemma tee_to_at : forall e c w tf, tee_name tf w -> tee_at tf c (tee_to e c w).
  Proof.
    intros e c [n len|] tf H; cbn [tee_to tee_name tee_at] in *; [|trivial].
    destruct (Z.eqb_spec c len) as [E|E]; cbn [tee_at]; [split; [exact H|symmetry; exact E]|].
    destruct (wr_ok e c); cbn [tee_at]; [split; [exact H|reflexivity]|trivial].
  Qed.

  Definition res_at (tf : option Z) (r : sres) (w : tee) : Prop :=
    match r with
    | SNext x' => tee_at tf (cbsum (core x')) w
    | SDone _ x' => tee_at tf (cbsum (core x')) w
    | SPanic _ => tee_name tf w
    end.

  Lemma tee_step_at : forall e x r w tf, tee_name tf w -> res_at tf r (tee_step e x r w).
  Proof.
    intros e x r w tf H. unfold Stream.tee_step.
    assert (H1 : tee_name tf (if pr (core x) then tee_to e (cbsum (recovery L llen PS bump (core x))) w else w)).
    { destruct (pr (core x)); [|exact H]. eapply tee_at_name. apply tee_to_at. exact H. }
    destruct r as [x'|r' x'|t]; cbn [res_at]; [apply tee_to_at; exact H1|apply tee_to_at; exact H1|exact H1].
  Qed.

  Lemma res_at_name : forall tf r w, res_at tf r w -> tee_name tf w.
  Proof. intros tf [x'|r' x'|t] w H; cbn [res_at] in H; [eapply tee_at_name; exact H|eapply tee_at_name; exact H|exact H]. Qed.

  Lemma iter_fetch_at : forall e q x w tf, tee_name tf w ->
    res_at tf (fst (iter_fetch e q x w)) (snd (iter_fetch e q x w)).
  Proof.
    intros e. induction q as [q IH|q IH|]; intros x w tf H; cbn [Stream.iter_fetch].
    - pose proof (tee_step_at e x (step_stream x) w tf H) as H0.
      destruct (step_stream x) as [x1|r x1|t] eqn:S; cbn [fst snd]; try exact H0.
      pose proof (IH x1 (tee_step e x (SNext x1) w) tf (res_at_name _ _ _ H0)) as H1.
      destruct (iter_fetch e q x1 (tee_step e x (SNext x1) w)) as [r1 w1]. cbn [fst snd] in H1.
      destruct r1 as [x2|r2 x2|t2]; cbn [fst snd]; try exact H1.
      apply IH. eapply res_at_name. exact H1.
    - pose proof (IH x w tf H) as H1. destruct (iter_fetch e q x w) as [r1 w1]. cbn [fst snd] in H1.
      destruct r1 as [x2|r2 x2|t2]; cbn [fst snd]; try exact H1.
      apply IH. eapply res_at_name. exact H1.
    - apply tee_step_at. exact H.
  Qed.

  Lemma steps_fetch_name : forall e k x w tf, tee_name tf w -> tee_name tf (snd (steps_fetch e k x w)).
  Proof.
    intros e. induction k as [|k IH]; intros x w tf H; cbn [Stream.steps_fetch]; [exact H|].
    pose proof (tee_step_at e x (step_stream x) w tf H) as H0.
    destruct (step_stream x) as [x1|r x1|t] eqn:S; cbn [snd]; [|eapply res_at_name; exact H0|exact H0].
    apply IH. eapply res_at_name. exact H0.
  Qed.

  (* ---------------------------------------------------------------- create_cache_file *)
  Lemma create_inv : forall e f,
    cache_eq (fst (create_cache_file p e f)) f /\
    tmp_inv f (fst (create_cache_file p e f)) (snd (create_cache_file p e f)) /\
    (forall n, snd (create_cache_file p e f) = Some n -> exists c, tmp (fst (create_cache_file p e f)) = (n, c) :: tmp f).
  Proof.
    intros e f. unfold create_cache_file.
    destruct (mk_ok e); [destruct (create_ok e)|]; cbn [fst snd tmp_inv add_tmp set_cdir tmp cache].
    - split; [intros q; reflexivity|]. split; [split; [reflexivity|exists []; reflexivity]|].
      intros n H. inversion H; subst. exists []. reflexivity.
    - split; [intros q; reflexivity|]. split; [reflexivity|intros n H; discriminate].
    - split; [intros q; reflexivity|]. split; [reflexivity|intros n H; discriminate].
  Qed.

  Lemma take_all : forall (b : bytes), take (Z.of_nat (length b)) b = b.
  Proof. intros b. unfold take. rewrite Nat2Z.id. apply firstn_all. Qed.

  Lemma write_tmp_inv : forall f0 f1 n c,
    cache_eq f1 f0 -> tmp_inv f0 f1 (Some n) ->
    cache_eq (write_tmp f1 n c) f0 /\ n = fresh (tmp f0) /\ tmp (write_tmp f1 n c) = (n, c) :: tmp f0.
  Proof.
    intros f0 f1 n c Hc [Hn [c0 Ht]]. split; [exact Hc|]. split; [exact Hn|].
    cbn [write_tmp tmp]. rewrite Ht, Hn. apply write_fresh.
  Qed.

  (* ---------------------------------------------------------------- the download *)
  (* [b] is the byte string the body delivers; [split] decomposes it faithfully *)
  Definition split_ok (b : bytes) : Prop :=
    input_len L llen (fst (split b)) (snd (split b)) = Z.of_nat (length b).

  Definition unchanged (f f' : fs) : Prop := cache_eq f' f /\ tmp f' = tmp f.

  (* Everything the property says about ONE download through the streaming parser, for every body script. *)
  Lemma stream_fetch_cases : forall e u f b script,
    split_ok b -> delivered script = Z.of_nat (length b) ->
    let f' := fst (stream_fetch e u f b script) in
    tmp f' = tmp f /\ (forall q, q <> p -> cache f' q = cache f q) /\
    match snd (stream_fetch e u f b script) with
    | FOk t =>
        fails script = false /\
        (exists ps x, drive_stream (fst (split b)) (snd (split b)) script = Ret (C09.Model.ROk ps, x) /\
                      finish ps = Some t /\ cbsum (core x) = Z.of_nat (length b)) /\
        commit_post p f f' b u
    | FErr c =>
        cache_eq f' f /\
        exists ln x, drive_stream (fst (split b)) (snd (split b)) script = Ret (C09.Model.RErr c ln, x)
    | FPanic => cache_eq f' f
    | FFuel => False
    end.
  Proof.
    intros e u f b script Hs Hd. unfold Stream.stream_fetch.
    destruct (create_inv e f) as [Hc [Ht Hsome]].
    destruct (create_cache_file p e f) as [f1 tf]. cbn [fst snd] in Hc, Ht, Hsome.
    unfold split_ok in Hs. destruct (split b) as [lines tail]. cbn [fst snd] in *.
    rewrite <- Hs in Hd.
    destruct (stream_total L llen PS init_ps recog bump lineno llen_pos lines tail script Hd)
      as [r0 [x0 [Hdrv [_ [_ Hok]]]]].
    pose proof (iter_fetch_fst e (fuel_for L llen lines tail) (init_stream L llen PS init_ps lines tail script) (tee0 tf)) as Hf.
    assert (Hn0 : tee_name tf (tee0 tf)) by (destruct tf; cbn; trivial).
    pose proof (iter_fetch_at e (fuel_for L llen lines tail) (init_stream L llen PS init_ps lines tail script) (tee0 tf) tf Hn0) as Hat.
    destruct (iter_fetch e (fuel_for L llen lines tail) (init_stream L llen PS init_ps lines tail script) (tee0 tf)) as [r w].
    cbn [fst snd] in Hf, Hat.
    unfold Stream.drive_stream in Hdrv. rewrite <- Hf in Hdrv.
    destruct (drop_temp_inv f f1 tf Hc Ht) as [Hgc Hgt].
    assert (Hgone : tmp (drop_temp f1 tf) = tmp f /\ (forall q, q <> p -> cache (drop_temp f1 tf) q = cache f q)).
    { split; [exact Hgt|intros q _; apply Hgc]. }
    destruct r as [x1|r1 x1|t1]; try discriminate.
    inversion Hdrv; subst r1 x1. clear Hdrv.
    destruct r0 as [ps|c ln]; cbn [fst snd].
    - destruct (finish ps) as [t|] eqn:Hfin; cbn [fst snd].
      + assert (Hfl : fails script = false).
        { destruct (fails script) eqn:Hfl; [|reflexivity]. exfalso.
          refine (stream_fail_not_ok L llen PS init_ps recog bump lineno llen_pos lines tail script Hd Hfl (C09.Model.ROk ps) x0 _ ps eq_refl).
          unfold Stream.drive_stream. rewrite <- Hf. reflexivity. }
        assert (Hdr : drive_stream lines tail script = Ret (C09.Model.ROk ps, x0)).
        { unfold Stream.drive_stream. rewrite <- Hf. reflexivity. }
        pose proof (Hok ps eq_refl) as Hcb.
        destruct w as [n len|]; cbn [fst snd].
        * cbn [res_at tee_at] in Hat. destruct Hat as [Htf Hlen]. subst tf.
          rewrite Hlen, Hcb, Hs, take_all.
          destruct (write_tmp_inv f f1 n b Hc Ht) as [Hwc [Hwn Hwt]].
          destruct (commit_ok p e f (write_tmp f1 n b) n b b u Hwc Hwn Hwt) as [H1 [H2 H3]].
          split; [exact H1|]. split; [exact H2|]. split; [exact Hfl|]. split; [|exact H3].
          exists ps, x0. split; [exact Hdr|]. split; [exact Hfin|]. rewrite Hcb. exact Hs.
        * destruct Hgone as [G1 G2]. split; [exact G1|]. split; [exact G2|]. split; [exact Hfl|]. split.
          -- exists ps, x0. split; [exact Hdr|]. split; [exact Hfin|]. rewrite Hcb. exact Hs.
          -- right. left. apply Hgc.
      + destruct Hgone as [G1 G2]. split; [exact G1|]. split; [exact G2|]. exact Hgc.
    - destruct Hgone as [G1 G2]. split; [exact G1|]. split; [exact G2|]. split; [exact Hgc|].
      exists ln, x0. unfold Stream.drive_stream. rewrite <- Hf. reflexivity.
  Qed.

  (* the verdict does not depend on the chunking: it is the schedule-free [spec] of the whole body *)
  Definition verdict (lines : list L) (tail : Z) : fres T :=
    match spec L PS init_ps recog lineno lines tail with
    | C09.Model.ROk ps => match finish ps with Some t => FOk t | None => FPanic end
    | C09.Model.RErr c _ => FErr c
    end.

  Lemma stream_fetch_verdict : forall e u f b script,
    split_ok b -> delivered script = Z.of_nat (length b) ->
    short_lines llen (fst (split b)) (snd (split b)) -> fails script = false ->
    snd (stream_fetch e u f b script) = verdict (fst (split b)) (snd (split b)).
  Proof.
    intros e u f b script Hs Hd Hshort Hfl. unfold Stream.stream_fetch, verdict.
    destruct (create_cache_file p e f) as [f1 tf].
    unfold split_ok in Hs. destruct (split b) as [lines tail]. cbn [fst snd] in *.
    rewrite <- Hs in Hd.
    destruct (stream_is_spec L llen PS init_ps recog bump lineno llen_pos lines tail Hshort script Hd) as [x0 Hdrv].
    pose proof (iter_fetch_fst e (fuel_for L llen lines tail) (init_stream L llen PS init_ps lines tail script) (tee0 tf)) as Hf.
    destruct (iter_fetch e (fuel_for L llen lines tail) (init_stream L llen PS init_ps lines tail script) (tee0 tf)) as [r w].
    cbn [fst] in Hf. unfold Stream.drive_stream in Hdrv. rewrite <- Hf in Hdrv.
    unfold spec_stream in Hdrv. rewrite Hfl in Hdrv.
    destruct r as [x1|r1 x1|t1]; try discriminate. inversion Hdrv; subst r1 x1.
    destruct (spec L PS init_ps recog lineno lines tail) as [ps|c ln]; [|reflexivity].
    destruct (finish ps); [|reflexivity]. destruct w; reflexivity.
  Qed.

  (* a body that fails (connection cut, framing error, timeout) never yields Ok, whatever was delivered *)
  Lemma stream_fetch_failed_body : forall e u f b script,
    split_ok b -> delivered script = Z.of_nat (length b) -> fails script = true ->
    unchanged f (fst (stream_fetch e u f b script)) /\ forall t, snd (stream_fetch e u f b script) <> FOk t.
  Proof.
    intros e u f b script Hs Hd Hfl.
    pose proof (stream_fetch_cases e u f b script Hs Hd) as H. cbv zeta in H.
    destruct H as [Ht [Ho H]].
    destruct (snd (stream_fetch e u f b script)) as [t|c| |].
    - destruct H as [H _]. rewrite Hfl in H. discriminate.
    - destruct H as [H _]. split; [split; assumption|intros t; discriminate].
    - split; [split; assumption|intros t; discriminate].
    - contradiction.
  Qed.

  (* ---------------------------------------------------------------- dropped / in flight *)
  Lemma stream_fetch_dropped_clean : forall e f b script k,
    unchanged f (stream_fetch_dropped e f b script k).
  Proof.
    intros e f b script k. unfold Stream.stream_fetch_dropped.
    destruct (create_inv e f) as [Hc [Ht _]].
    destruct (create_cache_file p e f) as [f1 tf]. cbn [fst snd] in Hc, Ht.
    destruct (split b) as [lines tail].
    assert (Hn0 : tee_name tf (tee0 tf)) by (destruct tf; cbn; trivial).
    pose proof (steps_fetch_name e k (init_stream L llen PS init_ps lines tail script) (tee0 tf) tf Hn0) as Hn.
    destruct (steps_fetch e k (init_stream L llen PS init_ps lines tail script) (tee0 tf)) as [r w]. cbn [snd] in Hn.
    destruct w as [n len|].
    - cbn [tee_name] in Hn. subst tf.
      destruct (write_tmp_inv f f1 n (take len b) Hc Ht) as [Hwc [Hwn Hwt]].
      split; [exact Hwc|]. unfold drop_temp, rm_tmp. cbn [tmp]. rewrite Hwt, Hwn. apply rm_fresh.
    - destruct (drop_temp_inv f f1 tf Hc Ht) as [Hgc Hgt].
      destruct tf as [n|]; cbn [drop_temp] in *.
      + split; [exact Hgc|]. cbn [rm_tmp tmp] in *. rewrite filter_idem. exact Hgt.
      + split; assumption.
  Qed.

  Lemma stream_fetch_inflight_one : forall e f b script k,
    let g := stream_fetch_inflight e f b script k in
    cache_eq g f /\ (tmp g = tmp f \/ exists n c, n = fresh (tmp f) /\ tmp g = (n, c) :: tmp f).
  Proof.
    intros e f b script k. unfold Stream.stream_fetch_inflight.
    destruct (create_inv e f) as [Hc [Ht _]].
    destruct (create_cache_file p e f) as [f1 tf]. cbn [fst snd] in Hc, Ht.
    destruct (split b) as [lines tail].
    assert (Hn0 : tee_name tf (tee0 tf)) by (destruct tf; cbn; trivial).
    pose proof (steps_fetch_name e k (init_stream L llen PS init_ps lines tail script) (tee0 tf) tf Hn0) as Hn.
    destruct (steps_fetch e k (init_stream L llen PS init_ps lines tail script) (tee0 tf)) as [r w]. cbn [snd] in Hn.
    destruct w as [n len|].
    - cbn [tee_name] in Hn. subst tf.
      destruct (write_tmp_inv f f1 n (take len b) Hc Ht) as [Hwc [Hwn Hwt]].
      split; [exact Hwc|]. right. exists n, (take len b). split; assumption.
    - destruct (drop_temp_inv f f1 tf Hc Ht) as [Hgc Hgt]. split; [exact Hgc|]. left. exact Hgt.
  Qed.

  (* ---------------------------------------------------------------- the whole network part of a lookup *)
  Variable note_src report_src : urlsrc.
  Notation lookup_stream := (lookup_stream L llen PS init_ps recog bump lineno T finish split p note_src report_src).

  Definition resp_ok (sr : server * resp) : Prop :=
    match snd sr with
    | RHead _ _ b script => split_ok b /\ delivered script = Z.of_nat (length b)
    | RNoHead => True
    end.
  Definition ids (l : list (server * resp)) : list Z := map (fun sr => s_id (fst sr)) l.

  Lemma commit_post_eq : forall f0 f1 f' b u, cache_eq f1 f0 -> commit_post p f1 f' b u -> commit_post p f0 f' b u.
  Proof.
    intros f0 f1 f' b u Hc [H|[H|[H [c Hc1]]]]; [left; exact H|right; left; rewrite H; apply Hc|].
    right. right. split; [exact H|]. exists c. rewrite <- Hc. exact Hc1.
  Qed.

  Lemma lookup_stream_cases : forall ss f, Forall resp_ok ss ->
    let f' := fst (fst (lookup_stream f ss)) in
    tmp f' = tmp f /\ (forall q, q <> p -> cache f' q = cache f q) /\
    match snd (fst (lookup_stream f ss)) with
    | None => cache_eq f' f /\ snd (lookup_stream f ss) = ids ss
    | Some (t, u) =>
        exists pre s code final b script post,
          ss = pre ++ (s, RHead code final b script) :: post /\ u = pick_url report_src (s_url s) final /\
          code < 400 /\ fails script = false /\
          (exists ps x, drive_stream (fst (split b)) (snd (split b)) script = Ret (C09.Model.ROk ps, x) /\
                        finish ps = Some t /\ cbsum (core x) = Z.of_nat (length b)) /\
          commit_post p f f' b (pick_url note_src (s_url s) final) /\
          snd (lookup_stream f ss) = ids (pre ++ [(s, RHead code final b script)])
    end.
  Proof.
    induction ss as [|[s r] rest IH]; intros f Hok; cbn [Stream.lookup_stream].
    - cbn [fst snd]. split; [reflexivity|]. split; [reflexivity|]. split; [intros q; reflexivity|reflexivity].
    - inversion Hok as [|x l Hr Hrest]; subst.
      (* what happens when this server is skipped with the file system [g], cache_eq g f, tmp g = tmp f *)
      assert (Hskip : forall g, cache_eq g f -> tmp g = tmp f ->
                let R := (let '(g', res, lg) := lookup_stream g rest in (g', res, s_id s :: lg)) in
                tmp (fst (fst R)) = tmp f /\ (forall q, q <> p -> cache (fst (fst R)) q = cache f q) /\
                match snd (fst R) with
                | None => cache_eq (fst (fst R)) f /\ snd R = ids ((s, r) :: rest)
                | Some (t, u) =>
                    exists pre s0 code final b script post,
                      (s, r) :: rest = pre ++ (s0, RHead code final b script) :: post /\
                      u = pick_url report_src (s_url s0) final /\ code < 400 /\
                      fails script = false /\
                      (exists ps x, drive_stream (fst (split b)) (snd (split b)) script = Ret (C09.Model.ROk ps, x) /\
                                    finish ps = Some t /\ cbsum (core x) = Z.of_nat (length b)) /\
                      commit_post p f (fst (fst R)) b (pick_url note_src (s_url s0) final) /\
                      snd R = ids (pre ++ [(s0, RHead code final b script)])
                end).
      { intros g Hgc Hgt. specialize (IH g Hrest). cbv zeta in IH.
        destruct (lookup_stream g rest) as [[g' res] lg]. cbn [fst snd] in *.
        destruct IH as [I1 [I2 I3]]. split; [rewrite I1; exact Hgt|]. split; [intros q Hq; rewrite I2 by exact Hq; apply Hgc|].
        destruct res as [[t u]|].
        - destruct I3 as [pre [s0 [code [final [b [script [post [E [Eu [Hcode [Hfl [Hdr [Hpost Hlg]]]]]]]]]]]]].
          exists ((s, r) :: pre), s0, code, final, b, script, post.
          split; [rewrite E; reflexivity|]. split; [exact Eu|]. split; [exact Hcode|]. split; [exact Hfl|].
          split; [exact Hdr|]. split; [eapply commit_post_eq; [exact Hgc|exact Hpost]|].
          rewrite Hlg. reflexivity.
        - destruct I3 as [I3 Hlg]. split; [intros q; rewrite I3; apply Hgc|]. rewrite Hlg. reflexivity. }
      destruct r as [|code final b script].
      + apply Hskip; [intros q; reflexivity|reflexivity].
      + destruct (Z.leb_spec 400 code) as [Hge|Hlt]; [apply Hskip; [intros q; reflexivity|reflexivity]|].
        unfold resp_ok in Hr. cbn [snd] in Hr. destruct Hr as [Hs Hd].
        pose proof (stream_fetch_cases (s_env s) (pick_url note_src (s_url s) final) f b script Hs Hd) as H. cbv zeta in H.
        destruct (stream_fetch (s_env s) (pick_url note_src (s_url s) final) f b script) as [f1 res1]. cbn [fst snd] in H.
        destruct H as [H1 [H2 H3]].
        destruct res1 as [t|c| |].
        * cbn [fst snd]. destruct H3 as [Hfl [Hdr Hpost]].
          split; [exact H1|]. split; [exact H2|].
          exists [], s, code, final, b, script, rest. cbn [app].
          split; [reflexivity|]. split; [reflexivity|]. split; [exact Hlt|]. split; [exact Hfl|].
          split; [exact Hdr|]. split; [exact Hpost|reflexivity].
        * destruct H3 as [H3 _]. apply Hskip; assumption.
        * apply Hskip; assumption.
        * contradiction.
  Qed.
End StreamFetchProofs.

(* ---------------------------------------------------------------- closed form when every write succeeds
   (the other file-system calls — create_dir_all, NamedTempFile::new_in, remove_file, persist — stay arbitrary):
   the outcome of the download is a function of the body alone, and it is what C16/Model.v computes from the
   events of that response with the whole-body verdict as its parser. *)
Section ClosedForm.
  Variable L : Type.
  Variable llen : L -> Z.
  Variable PS : Type.
  Variable init_ps : PS.
  Variable recog : PS -> L -> PS + Z.
  Variable bump : PS -> PS.
  Variable lineno : PS -> Z.
  Variable T : Type.
  Variable finish : PS -> option T.
  Variable split : bytes -> list L * Z.
  Variable p : path.
  Hypothesis llen_pos : forall l, 1 <= llen l.

  Notation step_stream := (step_stream L llen PS recog bump lineno).
  Notation iter_fetch := (iter_fetch L llen PS recog bump lineno).
  Notation tee_step := (tee_step L llen PS bump).
  Notation stream_fetch := (stream_fetch L llen PS init_ps recog bump lineno T finish split p).
  Notation verdict := (verdict L PS init_ps recog lineno T finish).

  Definition writes_ok (e : env) : Prop := forall n, wr_ok e n = true.

  Definition tee_open (w : tee) : Prop := match w with TOpen _ _ => True | TNone => False end.

  Lemma tee_to_open : forall e c w, writes_ok e -> tee_open w -> tee_open (tee_to e c w).
  Proof.
    intros e c [n len|] He H; cbn [tee_to tee_open] in *; [|exact H].
    destruct (c =? len); [exact I|]. rewrite He. exact I.
  Qed.

  Lemma tee_step_open : forall e x r w, writes_ok e -> tee_open w -> tee_open (tee_step e x r w).
  Proof.
    intros e x r w He H. unfold Stream.tee_step.
    assert (H1 : tee_open (if pr (core x) then tee_to e (cbsum (recovery L llen PS bump (core x))) w else w)).
    { destruct (pr (core x)); [apply tee_to_open; assumption|exact H]. }
    destruct r; try (apply tee_to_open; assumption). exact H1.
  Qed.

  Lemma iter_fetch_open : forall e q x w, writes_ok e -> tee_open w -> tee_open (snd (iter_fetch e q x w)).
  Proof.
    intros e. induction q as [q IH|q IH|]; intros x w He H; cbn [Stream.iter_fetch].
    - pose proof (tee_step_open e x (step_stream x) w He H) as H0.
      destruct (step_stream x) as [x1|r x1|t]; cbn [snd]; try exact H0.
      pose proof (IH x1 _ He H0) as H1.
      destruct (iter_fetch e q x1 (tee_step e x (SNext x1) w)) as [r1 w1]. cbn [snd] in H1.
      destruct r1 as [x2|r2 x2|t2]; cbn [snd]; try exact H1. apply IH; assumption.
    - pose proof (IH x w He H) as H1. destruct (iter_fetch e q x w) as [r1 w1]. cbn [snd] in H1.
      destruct r1 as [x2|r2 x2|t2]; cbn [snd]; try exact H1. apply IH; assumption.
    - apply tee_step_open; assumption.
  Qed.

  (* what the download does, without any loop: create, then by the verdict on the whole body *)
  Definition fetch_closed (e : env) (u : bytes) (f : fs) (b : bytes) : fs * fres T :=
    let '(f1, tf) := create_cache_file p e f in
    match verdict (fst (split b)) (snd (split b)) with
    | FOk t => (match tf with
                | Some n => commit_cache_file p e (write_tmp f1 n b) n b u
                | None => f1
                end, FOk t)
    | r => (drop_temp f1 tf, r)
    end.

  Lemma stream_fetch_closed_form : forall e u f b script,
    writes_ok e -> split_ok L llen split b -> delivered script = Z.of_nat (length b) ->
    short_lines llen (fst (split b)) (snd (split b)) -> fails script = false ->
    stream_fetch e u f b script = fetch_closed e u f b.
  Proof.
    intros e u f b script He Hs Hd Hshort Hfl.
    pose proof (stream_fetch_verdict L llen PS init_ps recog bump lineno T finish split p llen_pos e u f b script Hs Hd Hshort Hfl) as Hv.
    unfold Stream.stream_fetch, fetch_closed in *.
    destruct (create_cache_file p e f) as [f1 tf].
    unfold split_ok in Hs. destruct (split b) as [lines tail]. cbn [fst snd] in *.
    rewrite <- Hs in Hd.
    destruct (stream_total L llen PS init_ps recog bump lineno llen_pos lines tail script Hd) as [r0 [x0 [Hdrv [_ [_ Hok]]]]].
    pose proof (iter_fetch_fst L llen PS recog bump lineno e (fuel_for L llen lines tail) (init_stream L llen PS init_ps lines tail script) (tee0 tf)) as Hf.
    assert (Hn0 : tee_name tf (tee0 tf)) by (destruct tf; cbn; trivial).
    pose proof (iter_fetch_at L llen PS recog bump lineno e (fuel_for L llen lines tail) (init_stream L llen PS init_ps lines tail script) (tee0 tf) tf Hn0) as Hat.
    pose proof (iter_fetch_open e (fuel_for L llen lines tail) (init_stream L llen PS init_ps lines tail script) (tee0 tf) He) as Hop.
    destruct (iter_fetch e (fuel_for L llen lines tail) (init_stream L llen PS init_ps lines tail script) (tee0 tf)) as [r w].
    cbn [fst snd] in *.
    unfold Stream.drive_stream in Hdrv. rewrite <- Hf in Hdrv.
    destruct r as [x1|r1 x1|t1]; try discriminate. inversion Hdrv; subst r1 x1. clear Hdrv.
    destruct r0 as [ps|c ln].
    - destruct (finish ps) as [t|] eqn:Hfin.
      + rewrite <- Hv. destruct w as [n len|].
        * cbn [res_at tee_at] in Hat. destruct Hat as [Htf Hlen]. subst tf.
          rewrite Hlen, (Hok ps eq_refl), Hs, take_all. reflexivity.
        * destruct tf as [n|]; [exfalso; apply Hop; exact I|]. reflexivity.
      + rewrite <- Hv. reflexivity.
    - rewrite <- Hv. reflexivity.
  Qed.
End ClosedForm.
