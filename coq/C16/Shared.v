(* C16/Shared.v — several clients (HttpSymbolSupplier instances, processes) sharing ONE cache
   directory and ONE tmp directory and downloading the same module.  Executable definitions only.

   The file-system work of create_cache_file and commit_cache_file is a PROGRAM: a list of
   [fsop]s that an interpreter ([exec_op]) runs one operation per scheduler step, so operations
   of different clients interleave at every point (each operation is one system call or one
   std::fs / tempfile call).  The two programs are parameters of the machine; C16/Properties.v
   instantiates them with the lists that translate/c16_fsops.py extracts from
   breakpad-symbols/src/http.rs (RM.Gen.C16Ops), so the theorems are about the operation order
   of the source as it is now.

   One cache path (the module's), the leaf directory flag, and the tmp directory as a map from
   the owning client to the content of its in-flight NamedTempFile (names are unique by
   O_EXCL + random suffix: one key per client, at most one temp file per client at a time). *)
From RM Require Export C16.Model.
Open Scope Z_scope.

Inductive fsop :=
| OMkdirAll          (* fs::create_dir_all(base)? *)
| ORemoveIfExists    (* if final_path.exists() { fs::remove_file(final_path)?; } *)
| ONewTemp           (* NamedTempFile::new_in(tmp_path) *)
| OWriteSep          (* if !ends_with_newline { temp.write_all(b"\n")?; } *)
| OWriteNote         (* temp.write_all(format!("INFO URL {url}\n").as_bytes())? *)
| OPersist.          (* temp.persist_noclobber(final_path)? *)

Definition fsop_eqb (a b : fsop) : bool :=
  match a, b with
  | OMkdirAll, OMkdirAll | ORemoveIfExists, ORemoveIfExists | ONewTemp, ONewTemp
  | OWriteSep, OWriteSep | OWriteNote, OWriteNote | OPersist, OPersist => true
  | _, _ => false
  end.

(* what create_cache_file may do: nothing that touches the entry *)
Definition create_allowed (o : fsop) : bool :=
  match o with OMkdirAll | ONewTemp => true | _ => false end.

(* commit_cache_file as it is in the source *)
Definition std_commit : list fsop := [OWriteSep; OWriteNote; ORemoveIfExists; OPersist].

Record mfs := mkmfs {
  m_cache : option node;          (* object at the module's cache path *)
  m_cdir : bool;                  (* its directory exists *)
  m_tmp : Z -> option bytes       (* in-flight temp file of client i *)
}.
Definition set_mtmp (f : mfs) (i : Z) (v : option bytes) : mfs :=
  mkmfs (m_cache f) (m_cdir f) (fun j => if j =? i then v else m_tmp f j).
Definition set_mcache (f : mfs) (v : option node) : mfs := mkmfs v (m_cdir f) (m_tmp f).
Definition set_mcdir (f : mfs) : mfs := mkmfs (m_cache f) true (m_tmp f).

Definition env_ok : env := mkenv true true (fun _ => true) true true.

(* scheduler actions: start the lookup, deliver a network event, run the next fs operation *)
Inductive action := AStart | ANet (ev : event) | ATick.

Section SharedMachine.
  Variable T : Type.
  Variable parse : bytes -> option (T * option bytes).
  Variable create_ops : list fsop.
  Variable commit_ops : list fsop.

  Inductive cphase :=
  | CIdle                                            (* locate_symbols not called yet *)
  | CSend                                            (* cache missed; awaiting client.get(url).send() *)
  | CCreate (ops : list fsop)                        (* inside create_cache_file *)
  | CBody (got : bytes)                              (* inside parse_async *)
  | CCommit (ops : list fsop) (body : bytes) (t : T) (* parse returned Ok; inside commit_cache_file *)
  | CDone (r : result T)
  | CDropped.

  (* servers still to try; the head is the current one *)
  Record client := mkclient { c_srv : list server; c_ph : cphase }.
  Definition url_of (c : client) : bytes := match c_srv c with s :: _ => s_url s | [] => [] end.
  Definition env_of (c : client) : env := match c_srv c with s :: _ => s_env s | [] => env_ok end.
  Definition set_ph (c : client) (ph : cphase) : client := mkclient (c_srv c) ph.
  (* the `for url in &self.urls` loop: any Err of fetch_symbol_file moves on *)
  Definition fail_over (c : client) : client :=
    match c_srv c with
    | _ :: (_ :: _) as tl => mkclient tl CSend
    | _ => mkclient [] (CDone RNotFound)
    end.

  (* one operation of client i; false = the call returned Err (the `?` leaves the function) *)
  Definition exec_op (e : env) (i : Z) (body u : bytes) (f : mfs) (o : fsop) : mfs * bool :=
    match o with
    | OMkdirAll => if mk_ok e then (set_mcdir f, true) else (f, false)
    | ONewTemp => if create_ok e then (set_mtmp f i (Some []), true) else (f, false)
    | ORemoveIfExists =>
        match m_cache f with
        | None => (f, true)
        | Some Dir => (f, false)                                   (* remove_file on a directory fails *)
        | Some (File _) => if rm_ok e then (set_mcache f None, true) else (f, false)
        end
    | OWriteSep =>
        match m_tmp f i with
        | None => (f, true)
        | Some c => if ends_nl body then (f, true)
                    else if wr_ok e (Z.of_nat (length (c ++ [NL]))) then (set_mtmp f i (Some (c ++ [NL])), true)
                    else (f, false)
        end
    | OWriteNote =>
        match m_tmp f i with
        | None => (f, true)
        | Some c => if wr_ok e (Z.of_nat (length (c ++ trailer u))) then (set_mtmp f i (Some (c ++ trailer u)), true)
                    else (f, false)
        end
    | OPersist =>
        match m_tmp f i with
        | None => (f, false)
        | Some c =>
            match m_cache f with
            | None => if persist_ok e then (set_mtmp (set_mcache f (Some (File c))) i None, true) else (f, false)
            | Some _ => (f, false)                                 (* noclobber: something is there *)
            end
        end
    end.

  Definition step_client (i : Z) (f : mfs) (c : client) (a : action) : mfs * client :=
    let e := env_of c in
    match c_ph c, a with
    | CIdle, AStart =>
        match m_cache f with
        | Some (File b) => (f, set_ph c (CDone (match parse b with Some (t, u) => ROk t u | None => RParse end)))
        | _ => (f, match c_srv c with [] => set_ph c (CDone RNotFound) | _ => set_ph c CSend end)
        end
    | CSend, ANet EDrop => (f, set_ph c CDropped)
    | CSend, ANet (EHead code) => if 400 <=? code then (f, fail_over c) else (f, set_ph c (CCreate create_ops))
    | CSend, ANet _ => (f, fail_over c)
    | CCreate [], ATick => (f, set_ph c (CBody []))
    | CCreate (o :: r), ATick =>
        let '(f1, ok) := exec_op e i [] (url_of c) f o in
        if ok then (f1, set_ph c (CCreate r)) else (set_mtmp f1 i None, set_ph c (CBody []))
    | CBody got, ANet EDrop => (set_mtmp f i None, set_ph c CDropped)
    | CBody got, ANet (EChunk bs) =>
        let got' := got ++ bs in
        (match m_tmp f i with
         | None => f
         | Some _ => if wr_ok e (Z.of_nat (length got')) then set_mtmp f i (Some got') else set_mtmp f i None
         end, set_ph c (CBody got'))
    | CBody got, ANet EEof =>
        match parse got with
        | None => (set_mtmp f i None, fail_over c)
        | Some (t, _) =>
            match m_tmp f i with
            | None => (f, set_ph c (CDone (ROk t (Some (url_of c)))))        (* caching was given up *)
            | Some _ => (f, set_ph c (CCommit commit_ops got t))
            end
        end
    | CBody got, ANet _ => (set_mtmp f i None, fail_over c)
    | CCommit [] body t, ATick => (set_mtmp f i None, set_ph c (CDone (ROk t (Some (url_of c)))))
    | CCommit (o :: r) body t, ATick =>
        let '(f1, ok) := exec_op e i body (url_of c) f o in
        if ok then (f1, set_ph c (CCommit r body t))
        else (set_mtmp f1 i None, set_ph c (CDone (ROk t (Some (url_of c)))))
    | _, _ => (f, c)       (* nothing to do for this client at this point of the schedule *)
    end.

  Record mstate := mkms { ms_fs : mfs; ms_cl : Z -> client }.
  Definition mstep (s : mstate) (x : Z * action) : mstate :=
    let '(i, a) := x in
    let '(f1, c1) := step_client i (ms_fs s) (ms_cl s i) a in
    mkms f1 (fun j => if j =? i then c1 else ms_cl s j).
  Definition mrun (s : mstate) (sched : list (Z * action)) : mstate := fold_left mstep sched s.

  Definition committing (ph : cphase) : bool := match ph with CCommit _ _ _ => true | _ => false end.
  Definition cfinished (ph : cphase) : bool := match ph with CDone _ | CDropped | CIdle => true | _ => false end.
  (* no step of the schedule is a step of a client that is inside commit_cache_file *)
  Fixpoint quiet (s : mstate) (sched : list (Z * action)) : Prop :=
    match sched with
    | [] => True
    | x :: r => committing (c_ph (ms_cl s (fst x))) = false /\ quiet (mstep s x) r
    end.
  Definition minit (f : mfs) (srv : Z -> list server) : mstate := mkms f (fun i => mkclient (srv i) CIdle).
End SharedMachine.

Arguments CIdle {T}.
Arguments CSend {T}.
Arguments CCreate {T} ops.
Arguments CBody {T} got.
Arguments CCommit {T} ops body t.
Arguments CDone {T} r.
Arguments CDropped {T}.
Arguments c_srv {T} c.
Arguments c_ph {T} c.
Arguments ms_fs {T} m.
Arguments ms_cl {T} m.
