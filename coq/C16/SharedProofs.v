(* C16/SharedProofs.v — invariant of the shared-cache machine for every schedule (any number of
   clients, any interleaving of their network events and file-system operations). *)
From Coq Require Import Lia.
From RM Require Import C16.Model C16.Shared.
Open Scope Z_scope.

Section SharedInv.
  Variable T : Type.
  Variable parse : bytes -> option (T * option bytes).
  Variable create_ops : list fsop.
  Variable commit_ops : list fsop.
  (* what the theorems need of the two programs (checked by computation on the generated lists) *)
  Hypothesis Hcreate : forallb create_allowed create_ops = true.
  Hypothesis Hcommit : commit_ops = std_commit.
  Variable c0 : option node.      (* what was at the cache path before any client started *)

  Let client := client T.
  Let mstate := mstate T.
  Let step_client := step_client T parse create_ops commit_ops.
  Let mstep := mstep T parse create_ops commit_ops.
  Let mrun := mrun T parse create_ops commit_ops.

  (* a complete entry: the file that was there at the beginning, or the committed form of a body
     that the parser accepted as a whole *)
  Definition Good (c : bytes) : Prop :=
    c0 = Some (File c) \/ exists body u t x, parse body = Some (t, x) /\ c = cached_form body u.

  Definition cache_good (f : mfs) : Prop :=
    match m_cache f with Some (File c) => Good c | Some Dir => c0 = Some Dir | None => True end.

  Definition commit_pos (ops : list fsop) (body u : bytes) (tm : option bytes) : Prop :=
    match ops with
    | [OWriteSep; OWriteNote; ORemoveIfExists; OPersist] => tm = Some body
    | [OWriteNote; ORemoveIfExists; OPersist] => tm = Some (body ++ sep body)
    | [ORemoveIfExists; OPersist] => tm = Some (cached_form body u)
    | [OPersist] => tm = Some (cached_form body u)
    | [] => tm = None
    | _ => False
    end.

  Definition client_ok (i : Z) (f : mfs) (c : client) : Prop :=
    match c_ph c with
    | CIdle | CSend | CDone _ | CDropped => m_tmp f i = None
    | CCreate ops => forallb create_allowed ops = true /\ (forall b, m_tmp f i = Some b -> b = [])
    | CBody got => forall b, m_tmp f i = Some b -> b = got
    | CCommit ops body t => (exists x, parse body = Some (t, x)) /\ commit_pos ops body (url_of T c) (m_tmp f i)
    end.

  Definition Inv (s : mstate) : Prop :=
    cache_good (ms_fs s) /\ forall i, client_ok i (ms_fs s) (ms_cl s i).

  Lemma commit_pos_cases : forall ops body u tm, commit_pos ops body u tm ->
    (ops = [] /\ tm = None) \/
    (ops = std_commit /\ tm = Some body) \/
    (ops = [OWriteNote; ORemoveIfExists; OPersist] /\ tm = Some (body ++ sep body)) \/
    (ops = [ORemoveIfExists; OPersist] /\ tm = Some (cached_form body u)) \/
    (ops = [OPersist] /\ tm = Some (cached_form body u)).
  Proof.
    intros ops body u tm H. unfold std_commit.
    destruct ops as [|o1 r1]; [left; split; [reflexivity|exact H]|].
    destruct o1; cbn in H; try contradiction;
    destruct r1 as [|o2 r2]; cbn in H; try contradiction; try (destruct o2; cbn in H; try contradiction);
    try (destruct r2 as [|o3 r3]; cbn in H; try contradiction; try (destruct o3; cbn in H; try contradiction));
    try (destruct r3 as [|o4 r4]; cbn in H; try contradiction; try (destruct o4; cbn in H; try contradiction));
    try (destruct r4 as [|o5 r5]; cbn in H; try contradiction);
    auto 10.
  Qed.

  Lemma fail_over_ph : forall c : client,
    c_ph (fail_over T c) = CSend \/ c_ph (fail_over T c) = CDone RNotFound.
  Proof.
    intros [srv ph]. unfold fail_over. cbn. destruct srv as [|a [|b r]]; cbn; auto.
  Qed.

  Lemma client_ok_fail_over : forall i f (c : client), m_tmp f i = None -> client_ok i f (fail_over T c).
  Proof.
    intros i f c H. unfold client_ok. destruct (fail_over_ph c) as [E|E]; rewrite E; exact H.
  Qed.

  Lemma tmp_set_same : forall f i v, m_tmp (set_mtmp f i v) i = v.
  Proof. intros. cbn. rewrite Z.eqb_refl. reflexivity. Qed.
  Lemma tmp_set_other : forall f i j v, j <> i -> m_tmp (set_mtmp f i v) j = m_tmp f j.
  Proof. intros. cbn. destruct (Z.eqb_spec j i); [contradiction|reflexivity]. Qed.

  (* one operation: what it does to the cache and to the temp files *)
  Lemma exec_op_frame : forall e i body u f o f1 ok,
    exec_op e i body u f o = (f1, ok) -> forall j, j <> i -> m_tmp f1 j = m_tmp f j.
  Proof.
    intros e i body u f o f1 ok H j Hj.
    destruct o; cbn in H;
    repeat match type of H with
           | context [match ?x with _ => _ end] => destruct x
           end;
    inversion H; subst; cbn; try reflexivity;
    destruct (Z.eqb_spec j i); try contradiction; reflexivity.
  Qed.

  Lemma exec_op_create_allowed : forall e i body u f o f1 ok,
    create_allowed o = true -> exec_op e i body u f o = (f1, ok) ->
    m_cache f1 = m_cache f /\ (forall b, m_tmp f1 i = Some b -> b = [] \/ m_tmp f i = Some b).
  Proof.
    intros e i body u f o f1 ok Ha H.
    destruct o; cbn in Ha; try discriminate; cbn in H.
    - destruct (mk_ok e); inversion H; subst; cbn; auto.
    - destruct (create_ok e); inversion H; subst; cbn; [|auto].
      split; [reflexivity|]. intros b. rewrite Z.eqb_refl. intros E. inversion E. auto.
  Qed.

  (* the step of one client: invariant, frame, and where the cache can change *)
  Lemma step_client_inv : forall i f (c : client) a f1 c1,
    cache_good f -> client_ok i f c ->
    step_client i f c a = (f1, c1) ->
    cache_good f1 /\ client_ok i f1 c1 /\
    (forall j, j <> i -> m_tmp f1 j = m_tmp f j) /\
    (committing T (c_ph c) = false -> m_cache f1 = m_cache f).
  Proof.
    intros i f [srv ph] a f1 c1 Hg Hc Hs.
    unfold step_client, Shared.step_client in Hs. cbn [c_ph] in Hs.
    unfold client_ok in Hc. cbn [c_ph] in Hc.
    destruct ph as [| |ops|got|ops body t|r|].
    - (* CIdle *)
      destruct a; try (inversion Hs; subst; cbn; auto; fail).
      destruct (m_cache f) as [[b|]|] eqn:E; inversion Hs; subst; clear Hs;
      (split; [exact Hg|]); (split; [|split; auto]); unfold client_ok; cbn;
      try exact Hc; destruct srv; cbn; exact Hc.
    - (* CSend *)
      destruct a as [|ev|]; try (inversion Hs; subst; cbn; auto; fail).
      destruct ev as [code| |bs| | |]; try (inversion Hs; subst; clear Hs;
        (split; [exact Hg|]); (split; [|split; auto]);
        first [apply client_ok_fail_over; exact Hc | exact Hc]; fail).
      destruct (400 <=? code); inversion Hs; subst; clear Hs;
      (split; [exact Hg|]); (split; [|split; auto]).
      + apply client_ok_fail_over; exact Hc.
      + unfold client_ok; cbn. split; [exact Hcreate|]. intros b Hb. rewrite Hc in Hb. discriminate.
    - (* CCreate *)
      destruct Hc as [Hall Hemp].
      destruct a as [|ev|].
      + destruct ops; inversion Hs; subst; cbn; unfold client_ok; cbn; auto.
      + destruct ops; destruct ev; inversion Hs; subst; cbn; unfold client_ok; cbn; auto.
      + destruct ops as [|o r].
        * inversion Hs; subst; clear Hs. split; [exact Hg|]. split; [|split; auto].
          unfold client_ok; cbn. exact Hemp.
        * cbn in Hall. apply andb_prop in Hall. destruct Hall as [Ho Hr].
          destruct (exec_op (env_of T {| c_srv := srv; c_ph := CCreate (o :: r) |}) i []
                            (url_of T {| c_srv := srv; c_ph := CCreate (o :: r) |}) f o) as [f2 ok] eqn:E.
          pose proof (exec_op_create_allowed _ _ _ _ _ _ _ _ Ho E) as [Hcache Htmp].
          pose proof (exec_op_frame _ _ _ _ _ _ _ _ E) as Hfr.
          destruct ok; inversion Hs; subst; clear Hs.
          -- split; [unfold cache_good; rewrite Hcache; exact Hg|]. split; [|split; auto].
             unfold client_ok; cbn. split; [exact Hr|]. intros b Hb. destruct (Htmp b Hb) as [?|H1]; auto.
          -- split; [unfold cache_good; cbn; rewrite Hcache; exact Hg|]. split; [|split].
             ++ unfold client_ok; cbn. rewrite Z.eqb_refl. intros b Hb. discriminate.
             ++ intros j Hj. rewrite tmp_set_other by exact Hj. apply Hfr; exact Hj.
             ++ intros _. cbn. exact Hcache.
    - (* CBody *)
      destruct a as [|ev|]; try (inversion Hs; subst; cbn; unfold client_ok; cbn; auto; fail).
      destruct ev as [code| |bs| | |].
      + inversion Hs; subst; clear Hs. split; [exact Hg|]. split; [|split].
        * apply client_ok_fail_over. apply tmp_set_same.
        * intros j Hj. apply tmp_set_other; exact Hj.
        * reflexivity.
      + inversion Hs; subst; clear Hs. split; [exact Hg|]. split; [|split].
        * apply client_ok_fail_over. apply tmp_set_same.
        * intros j Hj. apply tmp_set_other; exact Hj.
        * reflexivity.
      + destruct (m_tmp f i) as [b|] eqn:Et.
        * destruct (wr_ok _ _); inversion Hs; subst; clear Hs; (split; [exact Hg|]); (split; [|split]);
          try (intros j Hj; apply tmp_set_other; exact Hj); try reflexivity;
          unfold client_ok; cbn; rewrite Z.eqb_refl; intros b' Hb'; inversion Hb'; reflexivity.
        * inversion Hs; subst; clear Hs. split; [exact Hg|]. split; [|split; auto].
          unfold client_ok; cbn. intros b' Hb'. rewrite Et in Hb'. discriminate.
      + inversion Hs; subst; clear Hs. split; [exact Hg|]. split; [|split].
        * apply client_ok_fail_over. apply tmp_set_same.
        * intros j Hj. apply tmp_set_other; exact Hj.
        * reflexivity.
      + (* EEof *)
        destruct (parse got) as [[t x]|] eqn:Ep.
        * destruct (m_tmp f i) as [b|] eqn:Et; inversion Hs; subst; clear Hs;
          (split; [exact Hg|]); (split; [|split; auto]); unfold client_ok; cbn.
          -- split; [exists x; exact Ep|]. try rewrite Hcommit. cbn. rewrite Et. f_equal. apply Hc. reflexivity.
          -- exact Et.
        * inversion Hs; subst; clear Hs. split; [exact Hg|]. split; [|split].
          -- apply client_ok_fail_over. apply tmp_set_same.
          -- intros j Hj. apply tmp_set_other; exact Hj.
          -- reflexivity.
      + inversion Hs; subst; clear Hs. split; [exact Hg|]. split; [|split].
        * unfold client_ok; cbn. rewrite Z.eqb_refl. reflexivity.
        * intros j Hj. apply tmp_set_other; exact Hj.
        * reflexivity.
    - (* CCommit *)
      destruct Hc as [[x Hp] Hpos].
      destruct a as [|ev|].
      + destruct ops; inversion Hs; subst; cbn; unfold client_ok; cbn; eauto 6.
      + destruct ops; destruct ev; inversion Hs; subst; cbn; unfold client_ok; cbn; eauto 6.
      + cbn [url_of c_srv] in Hpos.
        apply commit_pos_cases in Hpos.
        destruct Hpos as [[E Et]|[[E Et]|[[E Et]|[[E Et]|[E Et]]]]]; subst ops.
        * inversion Hs; subst; clear Hs. split; [exact Hg|]. split; [|split].
          -- unfold client_ok; cbn. rewrite Z.eqb_refl. reflexivity.
          -- intros j Hj. apply tmp_set_other; exact Hj.
          -- cbn. discriminate.
        * (* OWriteSep *)
          unfold std_commit in Hs. cbn [exec_op] in Hs. rewrite Et in Hs.
          destruct (ends_nl body) eqn:En.
          -- inversion Hs; subst; clear Hs. split; [exact Hg|]. split; [|split; auto; cbn; discriminate].
             unfold client_ok; cbn. split; [eauto|]. rewrite Et. unfold sep. rewrite En. rewrite app_nil_r. reflexivity.
          -- destruct (wr_ok _ _); inversion Hs; subst; clear Hs; (split; [exact Hg|]); (split; [|split]);
             try (intros j Hj; repeat rewrite tmp_set_other by exact Hj; reflexivity); try (cbn; discriminate).
             ++ unfold client_ok; cbn. split; [eauto|]. rewrite Z.eqb_refl. unfold sep. rewrite En. reflexivity.
             ++ unfold client_ok; cbn. rewrite Z.eqb_refl. reflexivity.
        * (* OWriteNote *)
          cbn [exec_op] in Hs. rewrite Et in Hs.
          destruct (wr_ok _ _); inversion Hs; subst; clear Hs; (split; [exact Hg|]); (split; [|split]);
          try (intros j Hj; repeat rewrite tmp_set_other by exact Hj; reflexivity); try (cbn; discriminate).
          -- unfold client_ok; cbn. split; [eauto|]. rewrite Z.eqb_refl. unfold cached_form.
             rewrite <- app_assoc. reflexivity.
          -- unfold client_ok; cbn. rewrite Z.eqb_refl. reflexivity.
        * (* ORemoveIfExists *)
          cbn [exec_op] in Hs.
          destruct (m_cache f) as [[cc|]|] eqn:Ec.
          -- destruct (rm_ok _); inversion Hs; subst; clear Hs; (split; [|split; [|split]]);
             try (intros j Hj; repeat rewrite tmp_set_other by exact Hj; reflexivity); try (cbn; discriminate).
             ++ unfold cache_good; cbn. exact I.
             ++ unfold client_ok; cbn. split; [eauto|]. exact Et.
             ++ unfold cache_good; cbn. unfold cache_good in Hg. rewrite Ec in Hg. rewrite Ec. exact Hg.
             ++ unfold client_ok; cbn. rewrite Z.eqb_refl. reflexivity.
          -- inversion Hs; subst; clear Hs. split; [|split; [|split]];
             try (intros j Hj; repeat rewrite tmp_set_other by exact Hj; reflexivity); try (cbn; discriminate).
             ++ unfold cache_good; cbn. unfold cache_good in Hg. rewrite Ec in Hg. rewrite Ec. exact Hg.
             ++ unfold client_ok; cbn. rewrite Z.eqb_refl. reflexivity.
          -- inversion Hs; subst; clear Hs. split; [exact Hg|]. split; [|split; auto; cbn; discriminate].
             unfold client_ok; cbn. split; [eauto|]. exact Et.
        * (* OPersist *)
          cbn [exec_op] in Hs. rewrite Et in Hs.
          destruct (m_cache f) as [nd|] eqn:Ec.
          -- inversion Hs; subst; clear Hs. split; [|split; [|split]];
             try (intros j Hj; repeat rewrite tmp_set_other by exact Hj; reflexivity); try (cbn; discriminate).
             ++ unfold cache_good; cbn. unfold cache_good in Hg. rewrite Ec in Hg. rewrite Ec. exact Hg.
             ++ unfold client_ok; cbn. rewrite Z.eqb_refl. reflexivity.
          -- destruct (persist_ok _); inversion Hs; subst; clear Hs; (split; [|split; [|split]]);
             try (intros j Hj; repeat rewrite tmp_set_other by exact Hj; reflexivity); try (cbn; discriminate).
             ++ unfold cache_good; cbn. right. exists body, (url_of T {| c_srv := srv; c_ph := CCommit [OPersist] body t |}), t, x.
                split; [exact Hp|reflexivity].
             ++ unfold client_ok; cbn. split; [eauto|]. rewrite Z.eqb_refl. reflexivity.
             ++ unfold cache_good; cbn. unfold cache_good in Hg. rewrite Ec in Hg. rewrite Ec. exact Hg.
             ++ unfold client_ok; cbn. rewrite Z.eqb_refl. reflexivity.
    - (* CDone *)
      destruct a as [|ev|]; try destruct ev; inversion Hs; subst; cbn; unfold client_ok; cbn; auto.
    - (* CDropped *)
      destruct a as [|ev|]; try destruct ev; inversion Hs; subst; cbn; unfold client_ok; cbn; auto.
  Qed.

  Lemma client_ok_frame : forall i f f1 (c : client),
    m_tmp f1 i = m_tmp f i -> client_ok i f c -> client_ok i f1 c.
  Proof. intros i f f1 c E H. unfold client_ok in *. rewrite E. exact H. Qed.

  Lemma mstep_inv : forall s x, Inv s -> Inv (mstep s x).
  Proof.
    intros s [i a] [Hg Hc]. unfold mstep, Shared.mstep.
    destruct (Shared.step_client T parse create_ops commit_ops i (ms_fs s) (ms_cl s i) a) as [f1 c1] eqn:E.
    destruct (step_client_inv i (ms_fs s) (ms_cl s i) a f1 c1 Hg (Hc i) E) as [Hg1 [Hc1 [Hfr _]]].
    split; cbn; [exact Hg1|].
    intros j. destruct (Z.eqb_spec j i) as [->|Hne]; [exact Hc1|].
    apply (client_ok_frame j (ms_fs s)); [apply Hfr; exact Hne|apply Hc].
  Qed.

  Lemma mrun_inv : forall sched s, Inv s -> Inv (mrun s sched).
  Proof.
    induction sched as [|x r IH]; intros s H; [exact H|].
    apply (IH (mstep s x)). apply mstep_inv. exact H.
  Qed.

  Lemma mstep_cache_change : forall s i a, Inv s ->
    m_cache (ms_fs (mstep s (i, a))) <> m_cache (ms_fs s) -> committing T (c_ph (ms_cl s i)) = true.
  Proof.
    intros s i a [Hg Hc] Hne. unfold mstep, Shared.mstep in Hne.
    destruct (Shared.step_client T parse create_ops commit_ops i (ms_fs s) (ms_cl s i) a) as [f1 c1] eqn:E.
    destruct (step_client_inv i (ms_fs s) (ms_cl s i) a f1 c1 Hg (Hc i) E) as [_ [_ [_ Hk]]].
    destruct (committing T (c_ph (ms_cl s i))); [reflexivity|]. exfalso. apply Hne. cbn. apply Hk. reflexivity.
  Qed.

  Lemma quiet_cache : forall sched s, Inv s -> quiet T parse create_ops commit_ops s sched ->
    m_cache (ms_fs (mrun s sched)) = m_cache (ms_fs s).
  Proof.
    induction sched as [|[i a] r IH]; intros s Hi Hq; [reflexivity|].
    destruct Hq as [Hn Hq]. cbn [fst] in Hn.
    change (mrun s ((i, a) :: r)) with (mrun (mstep s (i, a)) r).
    rewrite (IH (mstep s (i, a)) (mstep_inv s (i, a) Hi) Hq).
    destruct Hi as [Hg Hc]. unfold mstep, Shared.mstep.
    destruct (Shared.step_client T parse create_ops commit_ops i (ms_fs s) (ms_cl s i) a) as [f1 c1] eqn:E.
    destruct (step_client_inv i (ms_fs s) (ms_cl s i) a f1 c1 Hg (Hc i) E) as [_ [_ [_ Hk]]].
    cbn. apply Hk. exact Hn.
  Qed.

  Lemma init_inv : forall f srv, m_cache f = c0 -> (forall i, m_tmp f i = None) -> Inv (minit T f srv).
  Proof.
    intros f srv Hc Ht. split; cbn.
    - unfold cache_good. rewrite Hc.
      assert (G : forall z, z = c0 -> match z with Some (File c) => Good c | Some Dir => c0 = Some Dir | None => True end).
      { intros z Ez. destruct z as [[c|]|]; auto. left. symmetry. exact Ez. }
      apply G. reflexivity.
    - intros i. unfold client_ok; cbn. apply Ht.
  Qed.

  (* ---- the statements used by C16/Properties.v *)
  Lemma shared_cache_inv : forall f srv sched,
    m_cache f = c0 -> (forall i, m_tmp f i = None) ->
    let s := mrun (minit T f srv) sched in
    (forall c, m_cache (ms_fs s) = Some (File c) -> Good c) /\
    (forall i, cfinished T (c_ph (ms_cl s i)) = true -> m_tmp (ms_fs s) i = None) /\
    (forall i b, m_tmp (ms_fs s) i = Some b ->
       match c_ph (ms_cl s i) with
       | CCreate _ => b = []
       | CBody got => b = got
       | CCommit _ body _ => exists x t, parse body = Some (t, x) /\
                             (b = body \/ b = body ++ sep body \/ b = cached_form body (url_of T (ms_cl s i)))
       | _ => False
       end).
  Proof.
    intros f srv sched Hc Ht s.
    pose proof (mrun_inv sched _ (init_inv f srv Hc Ht)) as [Hg Hcl]. fold s in Hg, Hcl.
    split; [|split].
    - intros c E. unfold cache_good in Hg. rewrite E in Hg. exact Hg.
    - intros i Hf. specialize (Hcl i). unfold client_ok in Hcl.
      destruct (c_ph (ms_cl s i)); cbn in Hf; try discriminate; exact Hcl.
    - intros i b Hb. specialize (Hcl i). unfold client_ok in Hcl.
      destruct (c_ph (ms_cl s i)) as [| |ops|got|ops body t|r|]; try (rewrite Hcl in Hb; discriminate).
      + destruct Hcl as [_ H]. apply H. exact Hb.
      + apply Hcl. exact Hb.
      + destruct Hcl as [[x Hp] Hpos]. exists x, t. split; [exact Hp|].
        apply commit_pos_cases in Hpos.
        destruct Hpos as [[E Et]|[[E Et]|[[E Et]|[[E Et]|[E Et]]]]]; rewrite Et in Hb; inversion Hb; auto.
  Qed.

  Lemma shared_entry_survives : forall f srv pre post,
    m_cache f = c0 -> (forall i, m_tmp f i = None) ->
    let s1 := mrun (minit T f srv) pre in
    quiet T parse create_ops commit_ops s1 post ->
    m_cache (ms_fs (mrun s1 post)) = m_cache (ms_fs s1).
  Proof.
    intros f srv pre post Hc Ht s1 Hq.
    apply quiet_cache; [|exact Hq]. apply mrun_inv. apply init_inv; assumption.
  Qed.

  Lemma shared_cache_changes_only_in_commit : forall f srv sched i a,
    m_cache f = c0 -> (forall i, m_tmp f i = None) ->
    let s := mrun (minit T f srv) sched in
    m_cache (ms_fs (mstep s (i, a))) <> m_cache (ms_fs s) ->
    exists ops body t x, c_ph (ms_cl s i) = CCommit ops body t /\ parse body = Some (t, x).
  Proof.
    intros f srv sched i a Hc Ht s Hne.
    pose proof (mrun_inv sched _ (init_inv f srv Hc Ht)) as Hi. fold s in Hi.
    pose proof (mstep_cache_change s i a Hi Hne) as Hk.
    destruct Hi as [_ Hcl]. specialize (Hcl i). unfold client_ok in Hcl.
    destruct (c_ph (ms_cl s i)) as [| |ops|got|ops body t|r|]; cbn in Hk; try discriminate.
    destruct Hcl as [[x Hp] _]. exists ops, body, t, x. split; [reflexivity|exact Hp].
  Qed.
End SharedInv.
