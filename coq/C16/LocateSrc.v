(* C16/LocateSrc.v — HttpSymbolSupplier::locate_symbols assembled from what translate/c16_locate.py extracts from the source
   (coq/Gen/C16Locate.v): which outcomes of the local lookup go on to the network ([cascades], translated from the pattern of
   `if !matches!(local_result, ..) { return .. }`), what the server loop does with a fetch result ([server_loop]) and the value
   after the loop ([after_loop]).  [Model.locate] is proved to be this function. *)
From RM Require Import C16.Model Gen.C16Locate.
Open Scope Z_scope.

Section LocateSrc.
  Variable T : Type.
  Variable parse : bytes -> option (T * option bytes).
  Variable early : bytes -> bool.
  Variable p : path.

  (* SimpleSymbolSupplier::locate_symbols over the local paths and the cache directory: the first existing file decides;
     it is parsed with SymbolFile::from_file *)
  Definition local_lookup (f : fs) (locals : list (option bytes)) : local_res * option (T * option bytes) :=
    match first_file (locals ++ [cache_file f p]) with
    | Some c => match parse c with
                | Some r => (LOk, Some r)
                | None => (LParseError, None)
                end
    | None => (LNotFound, None)
    end.

  (* `return local_result.map(..)` *)
  Definition return_local (f : fs) (r : local_res) (v : option (T * option bytes)) : st T :=
    match r, v with
    | LOk, Some (t, u) => mkst f [] (LDone (ROk t u))
    | LNotFound, _ => mkst f [] (LDone RNotFound)
    | _, _ => mkst f [] (LDone RParse)
    end.

  Definition locate_src (f : fs) (locals : list (option bytes)) (race : option bytes)
             (ss : list server) (evs : list event) : st T :=
    let '(r, v) := local_lookup f locals in
    if cascades r then
      let f1 := match race, ss with
                | Some c, _ :: _ => set_cache (set_cdir f p) p (Some (File c))
                | _, _ => f
                end in
      (* the server loop: [Model.run] returns at the first Ok and goes on after any Err (server_loop = SReturnFirstOk),
         and ends in NotFound (after_loop = ANotFound) *)
      run T parse early p (net_start T f1 ss) evs
    else return_local f r v.

  Lemma locate_is_source :
    server_loop = SReturnFirstOk /\ after_loop = ANotFound /\
    forall f locals race ss evs, locate T parse early p f locals race ss evs = locate_src f locals race ss evs.
  Proof.
    split; [reflexivity|]. split; [reflexivity|].
    intros f locals race ss evs. unfold locate, locate_src, local_lookup.
    destruct (first_file (locals ++ [cache_file f p])) as [c|]; [|reflexivity].
    destruct (parse c) as [[t u]|]; reflexivity.
  Qed.
End LocateSrc.
