(* C16/InProcess.v — several lookups of the SAME module at the same time inside ONE process.

   In a process every lookup of a module goes through `Symbolizer::get_symbols`: a slot per module key
   (`CachedAsyncResult`: an async mutex around an `Option<Arc<Result<..>>>`) in front of the supplier.  C12's model of that
   slot (C12/Model.v: any number of tasks, any lookups, every executor schedule, suspensions of the supplier future at any
   point) proves that the supplier is called at most once per module key (C12/Proofs.v [at_most_once]).
   What ONE call of the supplier does to the servers and to the symbol cache is the lookup of C16/Model.v ([locate]).
   Composed: whatever the tasks, the schedule and the circumstances of each call (the file system it finds, the events its
   requests meet), the servers see for one module, during the whole life of the process, the requests of ONE lookup — a
   prefix of the server list, each server at most once — and the cache directory is as one lookup leaves it (so all the
   single-lookup theorems apply to the process as a whole).  Concurrent downloads of the same entry therefore only ever
   come from DIFFERENT processes: that is the shared-cache machine of C16/Shared.v. *)
From Coq Require Import List Arith Lia ZArith.
From RM Require C12.Model C12.Proofs C12.FileModel C12.FileProofs.
From RM Require Import C16.Model C16.Proofs C16.FileFetch.
Import ListNotations.

Section InProcess.
  Variable T : Type.
  Variable parse : bytes -> option (T * option bytes).
  Variable early : bytes -> bool.
  Variable p : path.
  Variable locals : list (option bytes).
  Variable ss : list server.
  (* the circumstances of the i-th call of the supplier for this module: the events its requests meet (arbitrary) *)
  Variable evs_of : nat -> list event.

  Definition call (f : fs) (i : nat) : st T := locate T parse early p f locals None ss (evs_of i).

  (* n calls one after the other (the slot's mutex serialises them): request log of all of them, and the file system at the end *)
  Fixpoint calls_from (f : fs) (i n : nat) : list Z * fs :=
    match n with
    | O => ([], f)
    | S n' => let s := call f i in
              let '(lg, f') := calls_from (s_fs s) (S i) n' in (s_log s ++ lg, f')
    end.

  (* the process: C12's Symbolizer under schedule [sched]; the module is key [k] *)
  Definition process (c : C12.Model.config) (sched : list C12.Model.task) (k : C12.Model.key) (f : fs) : list Z * fs :=
    calls_from f 0 (C12.Model.supplier_calls (C12.Model.run c sched) k).

  Lemma locate_log_prefix : forall f evs,
    exists dn rest, ss = dn ++ rest /\ s_log (locate T parse early p f locals None ss evs) = map s_id dn.
  Proof.
    intros f evs. unfold locate.
    destruct (first_file (locals ++ [cache_file f p])) as [c|].
    - exists [], ss. split; [reflexivity|]. destruct (parse c) as [[t u]|]; reflexivity.
    - apply (net_requests_prefix T parse early p).
  Qed.

  Theorem process_is_one_lookup : forall c sched k f,
    process c sched k f = ([], f) \/
    process c sched k f = (s_log (call f 0), s_fs (call f 0)).
  Proof.
    intros c sched k f. unfold process.
    pose proof (C12.Proofs.at_most_once c sched k) as H.
    destruct (C12.Model.supplier_calls (C12.Model.run c sched) k) as [|[|n]]; [left; reflexivity| |lia].
    right. cbn [calls_from]. rewrite app_nil_r. reflexivity.
  Qed.

  Theorem process_requests_prefix : forall c sched k f,
    exists dn rest, ss = dn ++ rest /\ fst (process c sched k f) = map s_id dn.
  Proof.
    intros c sched k f. destruct (process_is_one_lookup c sched k f) as [H|H]; rewrite H; cbn [fst].
    - exists [], ss. split; reflexivity.
    - apply locate_log_prefix.
  Qed.
End InProcess.

(* The same for files (binaries, extra debug info): HttpSymbolSupplier::locate_file_internal keeps its own slot per (module, kind)
   (`cached_file_paths`: the same CachedAsyncResult); C12/FileModel.v maps those slots onto C12's machine and proves that the fetch
   closure runs at most once per file key under every schedule (C12/FileProofs.v [files_at_most_once]).  One run of the closure is one
   [locate_file] of C16/FileFetch.v. *)
Section InProcessFiles.
  Variable p : path.
  Variable locals : list bool.
  Variable ss : list server.
  Variable evs_of : nat -> list event.

  Definition fcall (f : fs) (i : nat) : qst := FileFetch.locate_file p f locals ss (evs_of i).

  Fixpoint fcalls_from (f : fs) (i n : nat) : list Z * fs :=
    match n with
    | O => ([], f)
    | S n' => let s := fcall f i in
              let '(lg, f') := fcalls_from (q_fs s) (S i) n' in (q_log s ++ lg, f')
    end.

  Definition process_file (fc : C12.FileModel.fconfig) (sched : list C12.Model.task) (fk : C12.FileModel.fkey) (f : fs) : list Z * fs :=
    fcalls_from f 0 (C12.Model.supplier_calls (C12.Model.run (C12.FileModel.to_config fc) sched) (C12.FileModel.enc fk)).

  Theorem process_file_is_one_lookup : forall fc sched fk f,
    process_file fc sched fk f = ([], f) \/
    process_file fc sched fk f = (q_log (fcall f 0), q_fs (fcall f 0)).
  Proof.
    intros fc sched fk f. unfold process_file.
    pose proof (C12.FileProofs.files_at_most_once fc sched fk) as H.
    destruct (C12.Model.supplier_calls (C12.Model.run (C12.FileModel.to_config fc) sched) (C12.FileModel.enc fk)) as [|[|n]];
      [left; reflexivity| |lia].
    right. cbn [fcalls_from]. rewrite app_nil_r. reflexivity.
  Qed.
End InProcessFiles.
