(* C16/FileRaiiProofs.v — (1) for EVERY program over the steps of fetch_lookup: a frame that has been left owns nothing in tmp;
   (2) the machine of C16/FileFetch.v IS the interpreter of C16/FileRaii.v on the step list translated from the source. *)
From Coq Require Import Lia.
From RM Require Import C16.Model C16.Proofs C16.FileFetch Gen.C16Ops C16.FileRaii.
Open Scope Z_scope.

Section FileRaiiProofs.
  Variable p : path.
  Notation jsilent := (jsilent p).
  Notation jgo := (jgo p).
  Notation jstep := (jstep p).
  Notation jrun := (jrun p).

  Definition tmp_owned (f0 f : fs) (tf : option Z) : Prop :=
    match tf with
    | None => tmp f = tmp f0
    | Some n => n = fresh (tmp f0) /\ exists c, tmp f = (n, c) :: tmp f0
    end.

  Definition JInv (f0 : fs) (s : jst) : Prop :=
    match j_l s with
    | JRun _ _ _ fr => tmp_owned f0 (j_fs s) (qf_temp fr)
    | JDone _ | JDropped => tmp (j_fs s) = tmp f0
    end.

  Lemma jdrop_tmp : forall f0 f tf, tmp_owned f0 f tf -> tmp (drop_temp f tf) = tmp f0.
  Proof.
    intros f0 f [n|] H; cbn [drop_temp tmp_owned] in *; [|exact H].
    destruct H as [Hn [c Hc]]. cbn [rm_tmp tmp]. rewrite Hc, Hn. apply rm_fresh.
  Qed.

  Lemma jcreate_tmp : forall f0 f e, tmp f = tmp f0 ->
    tmp_owned f0 (fst (create_cache_file p e f)) (snd (create_cache_file p e f)).
  Proof.
    intros f0 f e H. unfold create_cache_file.
    destruct (mk_ok e); [destruct (create_ok e)|]; cbn [fst snd tmp_owned add_tmp set_cdir tmp]; try exact H.
    rewrite H. split; [reflexivity|]. exists []. reflexivity.
  Qed.

  Section AnyProgram.
    Variable prog : list lstep.

    Lemma jnext_inv : forall f0 f log ss, tmp f = tmp f0 -> JInv f0 (jnext prog f log ss).
    Proof. intros f0 f log [|s r] H; unfold JInv; cbn; exact H. Qed.

    Lemma jexit_inv : forall f0 f log rest fr, tmp_owned f0 f (qf_temp fr) -> JInv f0 (jexit_err prog f log rest fr).
    Proof. intros. unfold jexit_err. apply jnext_inv. apply jdrop_tmp. assumption. Qed.

    Lemma jsilent_inv : forall f0 n f log rest cur pc fr,
      tmp_owned f0 f (qf_temp fr) -> JInv f0 (jsilent prog n f log rest cur pc fr).
    Proof.
      intros f0. induction n as [|k IH]; intros f log rest cur pc fr H; cbn [FileRaii.jsilent]; [exact H|].
      destruct pc as [|[| | | |] pc']; try exact H.
      - apply jexit_inv; exact H.
      - (* LCreateQ *)
        pose proof (jcreate_tmp f0 (drop_temp f (qf_temp fr)) (s_env cur) (jdrop_tmp f0 f _ H)) as Hc.
        destruct (create_cache_file p (s_env cur) (drop_temp f (qf_temp fr))) as [f1 [n0|]]; cbn [fst snd] in Hc.
        + apply IH. cbn [qf_temp]. exact Hc.
        + apply jexit_inv. cbn [qf_temp]. exact Hc.
      - (* LPersistNoclobberQ *)
        destruct (qf_temp fr) as [n0|] eqn:E; [|apply jexit_inv; rewrite E; exact H].
        cbn [tmp_owned] in H. destruct H as [Hn [c Hc]].
        assert (Hrm : forall g, tmp g = tmp f -> tmp (rm_tmp g n0) = tmp f0).
        { intros g Hg. cbn [rm_tmp tmp]. rewrite Hg, Hc, Hn. apply rm_fresh. }
        destruct (cache f p).
        + apply jexit_inv. cbn [qf_temp tmp_owned]. apply Hrm. reflexivity.
        + destruct (persist_ok (s_env cur)).
          * apply IH. cbn [qf_temp tmp_owned]. apply Hrm. reflexivity.
          * apply jexit_inv. cbn [qf_temp tmp_owned]. apply Hrm. reflexivity.
      - (* LReturnOk *)
        unfold JInv; cbn [j_l j_fs]. apply jdrop_tmp. exact H.
    Qed.

    Lemma jstep_inv : forall f0 s ev, JInv f0 s -> JInv f0 (jstep prog s ev).
    Proof.
      intros f0 s ev H. unfold FileRaii.jstep. unfold JInv in H.
      destruct (j_l s) as [rest cur pc fr|r|] eqn:El; [|unfold JInv; rewrite El; exact H|unfold JInv; rewrite El; exact H].
      assert (Hdrop : JInv f0 (mkj (qleave (j_fs s) fr) (j_log s) JDropped)).
      { unfold JInv; cbn [j_l j_fs]. apply jdrop_tmp. exact H. }
      assert (Herr : JInv f0 (jexit_err prog (j_fs s) (j_log s) rest fr)) by (apply jexit_inv; exact H).
      destruct ev as [code| |bs| | |]; try exact Hdrop.
      - destruct pc as [|[| | | |] pc']; try exact Herr.
        + destruct (400 <=? code); [exact Herr|]. apply jsilent_inv. exact H.
        + destruct (qf_res fr); [|exact Herr]. destruct (qf_temp fr); exact Herr.
      - destruct pc as [|[| | | |] pc']; try exact Herr.
        destruct (qf_res fr); [|exact Herr]. destruct (qf_temp fr); exact Herr.
      - destruct pc as [|[| | | |] pc']; try exact Herr.
        destruct (qf_res fr); [|exact Herr]. destruct (qf_temp fr) as [n0|] eqn:E; [|exact Herr].
        destruct (wr_ok (s_env cur) (Z.of_nat (length (qf_got fr ++ bs)))); [|exact Herr].
        unfold JInv; cbn [j_l j_fs qf_temp tmp_owned]. cbn [tmp_owned] in H. destruct H as [Hn [c Hc]].
        split; [exact Hn|]. exists (qf_got fr ++ bs). cbn [write_tmp tmp]. rewrite Hc, Hn. apply write_fresh.
      - destruct pc as [|[| | | |] pc']; try exact Herr.
        destruct (qf_res fr); [|exact Herr]. destruct (qf_temp fr); exact Herr.
      - destruct pc as [|[| | | |] pc']; try exact Herr.
        destruct (qf_res fr); [|exact Herr]. destruct (qf_temp fr) as [n0|] eqn:E; [|exact Herr].
        apply jsilent_inv. rewrite E. exact H.
    Qed.

    Lemma jrun_inv : forall f0 evs s, JInv f0 s -> JInv f0 (jrun prog s evs).
    Proof.
      intros f0. induction evs as [|e evs IH]; intros s H; [exact H|].
      cbn [FileRaii.jrun fold_left]. apply IH. apply jstep_inv. exact H.
    Qed.

    (* EVERY program, every server list, every event list (EDrop anywhere), every outcome of every fs call *)
    Lemma file_raii_any_program : forall f0 ss evs, JInv f0 (jrun prog (jstart prog f0 ss) evs).
    Proof. intros. apply jrun_inv. apply jnext_inv. reflexivity. Qed.
  End AnyProgram.

  (* ---------------------------------------------------------------- (2) FileFetch.v is the interpreter on the source's program *)
  Definition qbody_pc : list lstep := [LWriteLoopQ; LPersistNoclobberQ; LReturnOk].

  Definition qembed (s : qst) : jst :=
    mkj (q_fs s) (q_log s)
      match q_l s with
      | QRun rest cur QSend => JRun rest cur lookup_steps qframe0
      | QRun rest cur (QBody n got) => JRun rest cur qbody_pc (mkqf true (Some n) got)
      | QDone r => JDone r
      | QDropped => JDropped
      end.

  Lemma qembed_next : forall f log rest, qembed (qnext f log rest) = jnext lookup_steps f log rest.
  Proof. intros f log [|s r]; reflexivity. Qed.

  Lemma qembed_step : forall s ev, jstep lookup_steps (qembed s) ev = qembed (qstep p s ev).
  Proof.
    intros [f log l] ev. unfold qembed, FileRaii.jstep, FileFetch.qstep. cbn [q_l q_fs q_log j_l j_fs j_log].
    destruct l as [rest cur ph|r|]; [|reflexivity|reflexivity].
    destruct ph as [|n got].
    - change lookup_steps with [LSend; LCreateQ; LWriteLoopQ; LPersistNoclobberQ; LReturnOk].
      destruct ev as [code| |bs| | |]; try (unfold jexit_err, qleave; cbn [qf_temp qframe0 drop_temp]; symmetry; apply qembed_next).
      + destruct (400 <=? code).
        * unfold jexit_err, qleave. cbn [qf_temp qframe0 drop_temp]. symmetry. apply qembed_next.
        * unfold FileRaii.jgo. cbn [length FileRaii.jsilent qframe0 qf_temp qf_res qf_got drop_temp].
          destruct (create_cache_file p (s_env cur) f) as [f1 [n0|]]; [reflexivity|].
          unfold jexit_err, qleave. cbn [qf_temp drop_temp]. symmetry. apply qembed_next.
      + reflexivity.
    - unfold qbody_pc. cbn [qf_res qf_temp qf_got].
      destruct ev as [code| |bs| | |]; try (unfold jexit_err, qleave; cbn [qf_temp drop_temp]; symmetry; apply qembed_next).
      + destruct (wr_ok (s_env cur) (Z.of_nat (length (got ++ bs)))); [reflexivity|].
        unfold jexit_err, qleave. cbn [qf_temp drop_temp]. symmetry. apply qembed_next.
      + unfold FileRaii.jgo. cbn [length FileRaii.jsilent qf_temp qf_res qf_got].
        destruct (cache f p).
        * unfold jexit_err, qleave. cbn [qf_temp drop_temp]. symmetry. apply qembed_next.
        * destruct (persist_ok (s_env cur)).
          -- unfold qleave. cbn [qf_temp drop_temp]. reflexivity.
          -- unfold jexit_err, qleave. cbn [qf_temp drop_temp]. symmetry. apply qembed_next.
      + reflexivity.
  Qed.

  Lemma qembed_run : forall evs s, jrun lookup_steps (qembed s) evs = qembed (qrun p s evs).
  Proof.
    induction evs as [|e evs IH]; intros s; [reflexivity|].
    cbn [FileRaii.jrun FileFetch.qrun fold_left]. rewrite qembed_step. apply IH.
  Qed.

  Lemma file_model_is_program : forall f0 ss evs,
    qembed (qrun p (qnet_start f0 ss) evs) = jrun lookup_steps (jstart lookup_steps f0 ss) evs.
  Proof. intros. rewrite <- qembed_run. unfold qnet_start, jstart. rewrite qembed_next. reflexivity. Qed.

  (* the RAII statement about the machine of FileFetch.v, derived from (1) and (2) *)
  Lemma file_no_stray_tmp_from_ownership : forall f0 ss evs,
    let s := qrun p (qnet_start f0 ss) evs in
    match q_l s with
    | QRun _ _ (QBody n _) => n = fresh (tmp f0) /\ exists c, tmp (q_fs s) = (n, c) :: tmp f0
    | _ => tmp (q_fs s) = tmp f0
    end.
  Proof.
    intros f0 ss evs s.
    pose proof (file_raii_any_program lookup_steps f0 ss evs) as H. rewrite <- file_model_is_program in H. fold s in H.
    unfold JInv, qembed in H. cbn [j_l j_fs] in H.
    destruct (q_l s) as [rest cur [|n got]|r|]; exact H.
  Qed.
End FileRaiiProofs.
