(* C16/Stream.v — fetch_symbol_file with the REAL streaming parser inside: the loop of SymbolFile::parse_async
   (C10/Stream.v: [step_stream], whose refill block, guards and buffer arithmetic are regenerated from
   sym_file/mod.rs and circular by translate/symfile_loop.py / c10_stream.py) composed with the tee callback of
   fetch_symbol_file, create_cache_file and commit_cache_file (C16/Model.v).

   C16/Model.v takes the parser as a function of the whole byte string and says "the temp file holds all bytes
   received".  Here nothing of that is assumed: the body of the response is a script of what
   `response.chunk().await` returns (chunks of any size, EMPTY chunks, a failure at any point), the parser decides
   by itself when the body has ended (a 0-byte read with `fully_consumed`), the callback is called with the
   slices the loop hands out, and every call writes to the temp file (or gives up caching when the write fails).
   That a cache entry is made only from the WHOLE body is then a theorem about the loop's EOF detection
   (C16/StreamProofs.v), for every chunking.  Definitions only (this file is extracted). *)
From Coq Require Import ZArith List Bool.
From RM Require Import Base.Word C09.Model C10.Stream C16.Model.
Import ListNotations.
Open Scope Z_scope.

(* `temp: Option<NamedTempFile>` as the callback sees it *)
Inductive tee :=
| TOpen (n : Z) (len : Z)      (* our temp file [n]; it holds the first [len] bytes of the body *)
| TNone.                       (* no temp file: never created, or `temp = None` after a failed write (the drop removes it) *)

(* outcome of one download *)
Inductive fres (T : Type) :=
| FOk (t : T)                  (* Ok(symbol_file) *)
| FErr (code : Z)              (* Err: 1/2 parse error, 3 empty, 4 unexpected EOF, 8 load error (the body failed) *)
| FPanic                       (* a panic inside the loop or finish() *)
| FFuel.                       (* the loop did not return within its fuel (never: StreamProofs) *)
Arguments FOk {T} t.
Arguments FErr {T} code.
Arguments FPanic {T}.
Arguments FFuel {T}.

Section StreamFetch.
  Variable L : Type.
  Variable llen : L -> Z.
  Variable PS : Type.
  Variable init_ps : PS.
  Variable recog : PS -> L -> PS + Z.
  Variable bump : PS -> PS.
  Variable lineno : PS -> Z.
  Variable T : Type.                         (* SymbolFile *)
  Variable finish : PS -> option T.          (* SymbolParser::finish (None = it panics; C09/ProofsFinish: it does not) *)
  Variable split : bytes -> list L * Z.      (* a byte string as complete lines + unterminated rest *)
  Variable p : path.

  Notation sst := (@sst L PS).
  Notation sres := (@sres L PS).
  Notation step_stream := (step_stream L llen PS recog bump lineno).

  (* the callback `|data| { ...; if let Some(file) = temp.as_mut() { if let Err(e) = file.write_all(data) { temp = None } } }`
     called when the callback total reaches [c]: write_all of an empty slice does nothing; a write that fails
     (outcome [wr_ok] of the environment, a function of the resulting file length) gives up caching *)
  Definition tee_to (e : env) (c : Z) (w : tee) : tee :=
    match w with
    | TOpen n len => if c =? len then w else if wr_ok e c then TOpen n c else TNone
    | TNone => TNone
    end.

  (* the callbacks of ONE iteration of parse_async's loop: the recovery block's (when in panic recovery),
     then the one after parse_more *)
  Definition tee_step (e : env) (x : sst) (r : sres) (w : tee) : tee :=
    let s0 := core x in
    let w1 := if pr s0 then tee_to e (cbsum (recovery L llen PS bump s0)) w else w in
    match r with
    | SNext x' => tee_to e (cbsum (core x')) w1
    | SDone _ x' => tee_to e (cbsum (core x')) w1
    | SPanic _ => w1
    end.

  (* [iter_stream] with the tee threaded through it: the SAME [step_stream] *)
  Fixpoint iter_fetch (e : env) (q : positive) (x : sst) (w : tee) : sres * tee :=
    match q with
    | xH => let r := step_stream x in (r, tee_step e x r w)
    | xO q' => match iter_fetch e q' x w with
               | (SNext x1, w1) => iter_fetch e q' x1 w1
               | rw => rw
               end
    | xI q' => let r := step_stream x in
               let w0 := tee_step e x r w in
               match r with
               | SNext x1 => match iter_fetch e q' x1 w0 with
                             | (SNext x2, w2) => iter_fetch e q' x2 w2
                             | rw => rw
                             end
               | _ => (r, w0)
               end
    end.

  Definition tee0 (tf : option Z) : tee := match tf with Some n => TOpen n 0 | None => TNone end.

  Definition take (n : Z) (b : bytes) : bytes := firstn (Z.to_nat n) b.

  (* fetch_symbol_file from the response head (status < 400) on: create_cache_file; parse_async with the tee;
     `?`; commit_cache_file only `if let Some(temp) = temp`.  [b] = the bytes the body delivers. *)
  Definition stream_fetch (e : env) (u : bytes) (f : fs) (b : bytes) (script : list sev) : fs * fres T :=
    let '(f1, tf) := create_cache_file p e f in
    let '(lines, tail) := split b in
    let '(r, w) := iter_fetch e (fuel_for L llen lines tail) (init_stream L llen PS init_ps lines tail script) (tee0 tf) in
    let gone := drop_temp f1 tf in     (* every exit edge but the commit drops the NamedTempFile, if there still is one *)
    match r with
    | SDone (C09.Model.ROk ps) _ =>
        match finish ps with
        | Some t =>
            match w with
            | TOpen n len =>
                let got := take len b in
                (commit_cache_file p e (write_tmp f1 n got) n got u, FOk t)
            | TNone => (gone, FOk t)
            end
        | None => (gone, FPanic)
        end
    | SDone (C09.Model.RErr c _) _ => (gone, FErr c)
    | SPanic _ => (gone, FPanic)
    | SNext _ => (gone, FFuel)
    end.

  (* the future is dropped while parse_async is suspended in `response.chunk().await` (the only await of the
     loop), after [k] iterations: everything the future owns is dropped, the NamedTempFile with it *)
  Fixpoint steps_fetch (e : env) (k : nat) (x : sst) (w : tee) : sres * tee :=
    match k with
    | O => (SNext x, w)
    | S k' => let r := step_stream x in
              let w0 := tee_step e x r w in
              match r with
              | SNext x1 => steps_fetch e k' x1 w0
              | _ => (r, w0)
              end
    end.

  Definition stream_fetch_dropped (e : env) (f : fs) (b : bytes) (script : list sev) (k : nat) : fs :=
    let '(f1, tf) := create_cache_file p e f in
    let '(lines, tail) := split b in
    let '(r, w) := steps_fetch e k (init_stream L llen PS init_ps lines tail script) (tee0 tf) in
    let tmpf := match w with TOpen n len => write_tmp f1 n (take len b) | TNone => drop_temp f1 tf end in
    drop_temp tmpf tf.

  (* what is in the tmp directory while the download is in flight, after [k] iterations *)
  Definition stream_fetch_inflight (e : env) (f : fs) (b : bytes) (script : list sev) (k : nat) : fs :=
    let '(f1, tf) := create_cache_file p e f in
    let '(lines, tail) := split b in
    let '(r, w) := steps_fetch e k (init_stream L llen PS init_ps lines tail script) (tee0 tf) in
    match w with TOpen n len => write_tmp f1 n (take len b) | TNone => drop_temp f1 tf end.

  (* ---------------------------------------------------------------- the whole network part of locate_symbols
     `for url in &self.urls { match fetch_symbol_file(..).await { Ok(symbols) => return Ok(..), Err(e) => {} } }`
     with the streaming download inside: what each server does is its response — no head at all (send() fails),
     or a head with a status and a body script *)
  Inductive resp :=
  | RNoHead
  | RHead (status : Z) (final : bytes) (b : bytes) (script : list sev).
      (* [final]: `res.url()`, where the response finally came from (any URL: reqwest follows redirects inside send()) *)

  (* the URL written into the note / the URL reported to the caller: requested or final, as the source says *)
  Variable note_src report_src : urlsrc.

  Fixpoint lookup_stream (f : fs) (ss : list (server * resp)) : fs * option (T * bytes) * list Z :=
    match ss with
    | [] => (f, None, [])
    | (s, r) :: rest =>
        let skip (g : fs) := let '(g', res, lg) := lookup_stream g rest in (g', res, s_id s :: lg) in
        match r with
        | RNoHead => skip f
        | RHead code final b script =>
            if 400 <=? code then skip f
            else
              let '(f1, res) := stream_fetch (s_env s) (pick_url note_src (s_url s) final) f b script in
              match res with
              | FOk t => (f1, Some (t, pick_url report_src (s_url s) final), [s_id s])
              | _ => skip f1
              end
        end
    end.
End StreamFetch.
