(* C16/Properties.v — property theorems only.
   All theorems hold for every symbol-table type T, every parser verdict function [parse]
   (a function of the byte string only), every early-rejection predicate [early], every cache
   path p, every initial file system, every list of servers with arbitrary outcomes of the
   file-system calls, and EVERY event list — in particular with EDrop (the future is dropped)
   at any position.  They are full statements about the state machine.
   Round 5: c16_no_stray_tmp / c16_locate_no_stray_tmp lost the suffix `_partial`.  The removal of the temp file on every
   exit edge is no longer written into the model edge by edge and then read back: the state machine of C16/Model.v is
   proved to be (c16_model_is_ownership_semantics) the interpreter of C16/Raii.v — a frame of owned locals, ONE drop site
   (the frame is left: return, `?`, or the future dropped at an await), a NamedTempFile's drop removes its file, passing it
   by value to commit_cache_file moves it — run on the step list that translate/c16_fsops.py extracts from
   fetch_symbol_file, and that interpreter leaves no temp file behind for EVERY program (c16_raii_every_program).
   What stays outside: that rustc runs drops where the language says, tempfile's Drop implementation, and a killed
   process (no drops at all).  The property as a whole stays partial (manifest): the
   events are what reqwest/hyper/tokio deliver, persist is one step by the kernel's rename
   atomicity, a concurrently writing second process is outside the model. *)
(* C12's names (run, step, outcome, ..) must not shadow C16.Model's: C12 is loaded FIRST and always written with its full name *)
From RM Require C12.Model C12.Proofs C12.FileModel C12.FileProofs.
From RM Require Import C09.Grammar C10.Model C16.Model C16.Proofs C16.Rehit C16.Driver C16.Shared C16.SharedProofs C16.SharedProofs2 C16.Refine Gen.C16Ops.
From RM Require C09.Model C10.Stream C16.Stream C16.StreamProofs C16.StreamInst C16.StreamProofs2 C16.StreamPins C16.StaleFlag C16.Raii C16.RaiiProofs C16.StreamRefine C16.LocateSrc Gen.C16Locate C16.StreamRaii C16.StreamRaiiProofs C16.InProcess C16.FileFetch C16.FileFetchProofs C16.FileFetchSrc C16.FileRaii C16.FileRaiiProofs.
Open Scope Z_scope.

Section Statements.
  Variable T : Type.
  Variable parse : bytes -> option (T * option bytes).
  Variable early : bytes -> bool.
  Variable p : path.
  Let run := run T parse early p.
  Let net_start := net_start T.
  Let locate := locate T parse early p.

  (* A regular file appears (or changes) at a cache path only at the module's own path, only
     in a run in which one server answered with a non-error status, its whole body arrived
     (clean end of body, no error in between) and the parser accepted exactly those bytes;
     the lookup then returns that table with that server's URL. *)
  Theorem c16_commit_only_after_ok : forall f0 ss evs q c,
    let s := run (net_start f0 ss) evs in
    cache (s_fs s) q = Some (File c) -> cache f0 q <> Some (File c) ->
    q = p /\
    exists pre cur code chunks post t x,
      evs = pre ++ EHead code :: map EChunk chunks ++ EEof :: post /\ In cur ss /\ code < 400 /\
      parse (concat chunks) = Some (t, x) /\
      s_l s = LDone (ROk t (Some (s_url cur))) /\
      c = cached_form (concat chunks) (s_url cur).
  Proof. exact (net_commit_only_after_ok T parse early p). Qed.

  (* ... and it consists of exactly the downloaded bytes followed by `INFO URL u\n`; if the
     downloaded bytes do not end in a newline, one newline separates them from the record *)
  Theorem c16_content : forall f0 ss evs q c,
    let s := run (net_start f0 ss) evs in
    cache (s_fs s) q = Some (File c) -> cache f0 q <> Some (File c) ->
    exists pre cur code chunks post,
      evs = pre ++ EHead code :: map EChunk chunks ++ EEof :: post /\ In cur ss /\
      (ends_nl (concat chunks) = true -> c = concat chunks ++ trailer (s_url cur)) /\
      (ends_nl (concat chunks) = false -> c = concat chunks ++ [NL] ++ trailer (s_url cur)).
  Proof. exact (net_content_nl T parse early p). Qed.

  (* After any finished run — success, failure, or drop at any point — the tmp directory is
     as before; while a run is pending there is at most the one in-flight temp file. *)
  Theorem c16_no_stray_tmp : forall f0 ss evs,
    let s := run (net_start f0 ss) evs in
    (finished T s -> tmp (s_fs s) = tmp f0) /\
    (tmp (s_fs s) = tmp f0 \/ exists c, tmp (s_fs s) = (fresh (tmp f0), c) :: tmp f0).
  Proof. exact (RM.C16.RaiiProofs.net_no_stray_tmp_own T parse early p). Qed.

  (* Every run that does not end in success (HTTP error, send error, cut body, corrupt
     content, dropped, still pending) leaves the whole cache as it was — a pre-existing entry
     at the path stays intact. *)
  Theorem c16_failed_leaves_no_entry : forall f0 ss evs,
    let s := run (net_start f0 ss) evs in
    ~ succeeded T s -> forall q, cache (s_fs s) q = cache f0 q.
  Proof. exact (net_failed_cache_unchanged T parse early p). Qed.

  (* What a successful download does at the path: the new entry, or nothing (caching given up
     or a step of the commit failed), or — when a regular file was already there, it was
     removed and persist then failed — no entry at all.  Other paths are untouched. *)
  Theorem c16_success_cases : forall f0 ss evs t u,
    let s := run (net_start f0 ss) evs in
    s_l s = LDone (ROk t u) ->
    (forall q, q <> p -> cache (s_fs s) q = cache f0 q) /\
    exists pre cur code chunks post x,
      evs = pre ++ EHead code :: map EChunk chunks ++ EEof :: post /\ In cur ss /\ code < 400 /\
      parse (concat chunks) = Some (t, x) /\ u = Some (s_url cur) /\
      (cache (s_fs s) p = Some (File (cached_form (concat chunks) (s_url cur))) \/
       cache (s_fs s) p = cache f0 p \/
       (cache (s_fs s) p = None /\ exists c, cache f0 p = Some (File c))).
  Proof. exact (net_success_shape T parse early p). Qed.

  (* The same three statements for whole lookups (local paths, cache, then network). *)
  Theorem c16_locate_entry_only_after_ok : forall f locals ss evs q c,
    let s := locate f locals None ss evs in
    cache (s_fs s) q = Some (File c) -> cache f q <> Some (File c) ->
    q = p /\
    exists pre cur code chunks post t x,
      evs = pre ++ EHead code :: map EChunk chunks ++ EEof :: post /\ In cur ss /\ code < 400 /\
      parse (concat chunks) = Some (t, x) /\
      s_l s = LDone (ROk t (Some (s_url cur))) /\
      c = cached_form (concat chunks) (s_url cur).
  Proof. exact (locate_entry_only_after_ok T parse early p). Qed.

  Theorem c16_locate_no_stray_tmp : forall f locals ss evs,
    let s := locate f locals None ss evs in
    (finished T s -> tmp (s_fs s) = tmp f) /\
    (tmp (s_fs s) = tmp f \/ exists c, tmp (s_fs s) = (fresh (tmp f), c) :: tmp f).
  Proof. exact (RM.C16.RaiiProofs.locate_no_stray_tmp_own T parse early p). Qed.

  Theorem c16_locate_failed_leaves_no_entry : forall f locals ss evs,
    let s := locate f locals None ss evs in
    ~ succeeded T s -> forall q, cache (s_fs s) q = cache f q.
  Proof. exact (locate_failed_unchanged T parse early p). Qed.

  (* Only NotFound cascades: a file in a local symbol path or in the cache decides the lookup
     (Ok or parse error), no request is made and nothing is written. *)
  Theorem c16_only_notfound_cascades : forall f locals race ss evs c,
    first_file (locals ++ [cache_file f p]) = Some c ->
    let s := locate f locals race ss evs in
    s_log s = [] /\ s_fs s = f /\ (parse c = None -> s_l s = LDone RParse).
  Proof. exact (locate_no_cascade T parse early p). Qed.

  (* A later lookup that finds an entry at the path yields the same table and the same URL,
     makes no request and writes nothing — under the stated contract of the parser:
     terminating an unterminated last line and appending an INFO URL record changes nothing
     but the url.  (Without the separating newline the record would be glued to an over-long
     unterminated last line and be discarded with it: finding F-C16a, fixed in the code.) *)
  Theorem c16_rehit_same_any_parser :
    (forall b t x u, parse b = Some (t, x) -> parse (cached_form b u) = Some (t, Some u)) ->
    forall f0 locals ss evs t u ss2 evs2,
    let s1 := locate f0 locals None ss evs in
    s_l s1 = LDone (ROk t u) ->
    (exists c, cache (s_fs s1) p = Some (File c)) ->
    let s2 := locate (s_fs s1) locals None ss2 evs2 in
    s_l s2 = LDone (ROk t u) /\ s_log s2 = [] /\ s_fs s2 = s_fs s1.
  Proof. exact (rehit_same T parse early p). Qed.

  (* Requests go to the servers in the configured order, at most one per server, and none
     after the lookup has finished (the log is map s_id of a prefix of the server list). *)
  Theorem c16_requests_in_order : forall f ss evs,
    let s := run (net_start f ss) evs in
    exists dn rest, ss = dn ++ rest /\ s_log s = map s_id dn.
  Proof. exact (net_requests_prefix T parse early p). Qed.
End Statements.

Print Assumptions c16_commit_only_after_ok.
Print Assumptions c16_content.
Print Assumptions c16_no_stray_tmp.
Print Assumptions c16_failed_leaves_no_entry.
Print Assumptions c16_success_cases.
Print Assumptions c16_locate_entry_only_after_ok.
Print Assumptions c16_locate_no_stray_tmp.
Print Assumptions c16_locate_failed_leaves_no_entry.
Print Assumptions c16_only_notfound_cascades.
Print Assumptions c16_rehit_same_any_parser.
Print Assumptions c16_requests_in_order.


(* The cache-hit theorem for the parser model of C09/C10 ([parse_bytes]: the whole-input verdict
   that SymbolFile::parse/parse_async return under every chunking when all lines are shorter than
   80 KiB, c10_chunk_independent).  The parser contract is no longer assumed: it is
   c10_cached_form_parse.  Only hypothesis: the servers' URLs are [url_ok] (one line, valid
   UTF-8, not starting with a blank) — `Url::to_string()` of the url crate always is: it starts
   with the scheme and percent-encodes blanks, controls and non-ASCII bytes. *)
Theorem c16_rehit_same : forall early p f0 locals ss evs t u ss2 evs2,
  Forall (fun s => url_ok (s_url s)) ss ->
  let s1 := locate Grammar.table parse_bytes early p f0 locals None ss evs in
  s_l s1 = LDone (ROk t u) ->
  (exists c, cache (s_fs s1) p = Some (File c)) ->
  let s2 := locate Grammar.table parse_bytes early p (s_fs s1) locals None ss2 evs2 in
  s_l s2 = LDone (ROk t u) /\ s_log s2 = [] /\ s_fs s2 = s_fs s1.
Proof. exact rehit_same_bytes. Qed.
Print Assumptions c16_rehit_same.

(* ---- non-vacuity: concrete runs with the driver's line recogniser ---- *)
Definition ex_body1 : bytes := [77; 79; 68; 85; 76; 69; 32; 97; 32; 98; 32; 49; 32; 99; 10].   (* "MODULE a b 1 c\n" *)
Definition ex_body2 : bytes := [80; 85; 66; 76; 73; 67; 32; 49; 32; 48; 32; 120; 10].           (* "PUBLIC 1 0 x\n" *)
Definition ex_url : bytes := [104; 116; 116; 112; 58; 47; 47; 115; 47; 120].                    (* "http://s/x" *)
Definition ex_env : env := mk_env true true (-1) true true.
Definition ex_srv : server := mkserver 0 ex_url ex_env.
Definition ex_fs : fs := init_fs 0 [].

(* a complete download commits exactly body ++ INFO URL record, leaves tmp empty, and the
   next lookup is served from the cache with the same table and URL and without a request *)
Example c16_nonvacuous_commit :
  let s := lookup ex_fs [] None [ex_srv] [EHead 200; EChunk ex_body1; EChunk ex_body2; EEof] in
  o_cache s = Some (File (ex_body1 ++ ex_body2 ++ trailer ex_url)) /\ o_tmp s = [] /\
  o_result s = (0, (0, 1), Some ex_url) /\
  let s2 := lookup (o_fs s) [] None [ex_srv] [EHead 404] in
  o_result s2 = (0, (0, 1), Some ex_url) /\ o_log s2 = [].
Proof. vm_compute. repeat split; reflexivity. Qed.

(* a temp file is in flight mid-body; dropping the future there removes it and leaves no entry *)
Example c16_nonvacuous_drop :
  o_tmp (lookup ex_fs [] None [ex_srv] [EHead 200; EChunk ex_body1]) = [15] /\
  let s := lookup ex_fs [] None [ex_srv] [EHead 200; EChunk ex_body1; EDrop; EChunk ex_body2; EEof] in
  o_cache s = None /\ o_tmp s = [] /\ o_result s = (3, (0, 0), None).
Proof. vm_compute. repeat split; reflexivity. Qed.

(* cut body, corrupt line, 404 then 200: only the good server's file is cached *)
Example c16_nonvacuous_failures :
  o_cache (lookup ex_fs [] None [ex_srv] [EHead 200; EChunk ex_body1; EBodyErr]) = None /\
  o_cache (lookup ex_fs [] None [ex_srv] [EHead 200; EChunk ex_body1; EChunk [88; 10]; EEof]) = None /\
  let s := lookup ex_fs [] None [mkserver 0 [48] ex_env; mkserver 1 ex_url ex_env]
                  [EHead 404; EHead 200; EChunk ex_body1; EEof] in
  o_cache s = Some (File (ex_body1 ++ trailer ex_url)) /\ o_log s = [0; 1].
Proof. vm_compute. repeat split; reflexivity. Qed.

(* F-C16a: why the separating newline is there (over-long threshold scaled down to 20 bytes).
   Body = MODULE line + an over-long unterminated line (accepted: the line is discarded).
   Gluing the record to it loses the URL on re-parse; the committed form keeps it. *)
Example c16_nonvacuous_sep_needed :
  let body := ex_body1 ++ repeat 120 25 in
  parse_lite_g 20 body = Some ((0, 0), None) /\
  parse_lite_g 20 (body ++ trailer ex_url) = Some ((0, 0), None) /\
  parse_lite_g 20 (cached_form body ex_url) = Some ((0, 0), Some ex_url).
Proof. vm_compute. repeat split; reflexivity. Qed.

(* the hypotheses of c16_rehit_same are satisfiable: a download parsed by parse_bytes is committed *)
Example c16_nonvacuous_rehit_bytes :
  url_ok ex_url /\
  let s := locate Grammar.table parse_bytes (fun _ => false) P0 ex_fs [] None [ex_srv]
                  [EHead 200; EChunk ex_body1; EChunk ex_body2; EEof] in
  (match s_l s with LDone (ROk _ u) => u = Some ex_url | _ => False end) /\
  cache (s_fs s) P0 = Some (File (ex_body1 ++ ex_body2 ++ trailer ex_url)).
Proof.
  split.
  - unfold url_ok. split; [|split; vm_compute; reflexivity].
    unfold ex_url. repeat (constructor; [split; discriminate|]). constructor.
  - vm_compute. split; reflexivity.
Qed.


(* ------------------------------------------------------------------------------------------------
   Shared cache (round 4): ANY number of clients (HttpSymbolSupplier instances or processes; client =
   a key in Z) share one cache path and one tmp directory; the scheduler interleaves their network
   events and their file-system operations one operation at a time, in every possible way (the
   schedule is an arbitrary list of (client, action)).  The operation programs are the ones
   translate/c16_fsops.py extracts from create_cache_file / commit_cache_file of http.rs
   (RM.Gen.C16Ops.create_ops / commit_ops): the two side conditions are discharged by computation
   on those lists, so an operation moved or reordered in the source makes these proofs fail. *)
Section SharedStatements.
  Variable T : Type.
  Variable parse : bytes -> option (T * option bytes).
  Let mrun := mrun T parse create_ops commit_ops.
  Let mstep := mstep T parse create_ops commit_ops.
  Let quiet := quiet T parse create_ops commit_ops.

  (* Invariant, for every schedule: whatever regular file is at the cache path is complete — the file
     that was there before, or body ++ (newline iff missing) ++ INFO URL note for a body the parser
     accepted as a whole; a client that is finished (or never started) owns no temp file; the temp file
     of a client in flight holds exactly what that client received / prepared. *)
  Theorem c16_shared_cache_inv : forall (c0 : option node) f srv sched,
    m_cache f = c0 -> (forall i, m_tmp f i = None) ->
    let s := mrun (minit T f srv) sched in
    (forall c, m_cache (ms_fs s) = Some (File c) ->
       c0 = Some (File c) \/ exists body u t x, parse body = Some (t, x) /\ c = cached_form body u) /\
    (forall i, cfinished T (c_ph (ms_cl s i)) = true -> m_tmp (ms_fs s) i = None) /\
    (forall i b, m_tmp (ms_fs s) i = Some b ->
       match c_ph (ms_cl s i) with
       | CCreate _ => b = []
       | CBody got => b = got
       | CCommit _ body _ => exists x t, parse body = Some (t, x) /\
                             (b = body \/ b = body ++ sep body \/ b = cached_form body (url_of T (ms_cl s i)))
       | _ => False
       end).
  Proof. exact (fun c0 => shared_cache_inv T parse create_ops commit_ops eq_refl eq_refl c0). Qed.

  (* The cache path changes only in a step of a client that is inside commit_cache_file, i.e. after
     the clean end of its body and parser Ok on all of it. *)
  Theorem c16_shared_cache_changes_only_in_commit : forall (c0 : option node) f srv sched i a,
    m_cache f = c0 -> (forall i, m_tmp f i = None) ->
    let s := mrun (minit T f srv) sched in
    m_cache (ms_fs (mstep s (i, a))) <> m_cache (ms_fs s) ->
    exists ops body t x, c_ph (ms_cl s i) = CCommit ops body t /\ parse body = Some (t, x).
  Proof. exact (fun c0 => shared_cache_changes_only_in_commit T parse create_ops commit_ops eq_refl eq_refl c0). Qed.

  (* Hence: once an entry is at the path, every continuation of the history in which no client
     commits — other clients' downloads start, receive their head (create_cache_file runs), stream,
     fail in any way, or are dropped at any point — leaves that entry exactly as it is. *)
  Theorem c16_shared_failed_downloads_keep_entry : forall (c0 : option node) f srv pre post,
    m_cache f = c0 -> (forall i, m_tmp f i = None) ->
    let s1 := mrun (minit T f srv) pre in
    quiet s1 post ->
    m_cache (ms_fs (mrun s1 post)) = m_cache (ms_fs s1).
  Proof. exact (fun c0 => shared_entry_survives T parse create_ops commit_ops eq_refl eq_refl c0). Qed.
End SharedStatements.

Print Assumptions c16_shared_cache_inv.
Print Assumptions c16_shared_cache_changes_only_in_commit.
Print Assumptions c16_shared_failed_downloads_keep_entry.

(* The same machine with the operation order of seeded change C16-3 (the removal of an existing entry
   moved from commit_cache_file into create_cache_file): a history in which client 1 commits a complete
   entry and client 0, which never gets as far as commit_cache_file, then deletes it. *)
Definition u_parse (b : bytes) : option (unit * option bytes) := match b with [] => None | _ => Some (tt, None) end.
Definition u_srv (i : Z) : list server := [mkserver i [104; 48 + i] env_ok].
Definition u_f0 : mfs := mkmfs None false (fun _ => None).
Definition u_pre : list (Z * action) :=
  [(0, AStart); (1, AStart); (1, ANet (EHead 200)); (1, ATick); (1, ATick); (1, ATick); (1, ATick);
   (1, ANet (EChunk [65; 10])); (1, ANet EEof); (1, ATick); (1, ATick); (1, ATick); (1, ATick); (1, ATick)].
Definition u_post : list (Z * action) :=
  [(0, ANet (EHead 200)); (0, ATick); (0, ATick); (0, ATick); (0, ATick); (0, ANet (EChunk [66])); (0, ANet EBodyErr)].

Theorem c16_shared_seeded_order_refuted :
  let cr := [OMkdirAll; ORemoveIfExists; ONewTemp] in
  let cm := [OWriteSep; OWriteNote; OPersist] in
  let s1 := mrun unit u_parse cr cm (minit unit u_f0 u_srv) u_pre in
  m_cache (ms_fs s1) = Some (File (cached_form [65; 10] [104; 49])) /\
  quiet unit u_parse cr cm s1 u_post /\
  m_cache (ms_fs (mrun unit u_parse cr cm s1 u_post)) = None.
Proof. vm_compute. repeat split; reflexivity. Qed.
Print Assumptions c16_shared_seeded_order_refuted.

(* non-vacuity: the same history on the programs of the source keeps the entry, leaves no temp file,
   and the failing client ends NotFound *)
Example c16_nonvacuous_shared :
  let s1 := mrun unit u_parse create_ops commit_ops (minit unit u_f0 u_srv) u_pre in
  let s2 := mrun unit u_parse create_ops commit_ops s1 u_post in
  m_cache (ms_fs s1) = Some (File (cached_form [65; 10] [104; 49])) /\
  quiet unit u_parse create_ops commit_ops s1 u_post /\
  m_cache (ms_fs s2) = Some (File (cached_form [65; 10] [104; 49])) /\
  m_tmp (ms_fs s2) 0 = None /\ m_tmp (ms_fs s2) 1 = None /\
  c_ph (ms_cl s2 0) = CDone RNotFound.
Proof. vm_compute. repeat split; reflexivity. Qed.

(* non-vacuity: both succeed; the later commit replaces the earlier entry by its own complete file *)
Example c16_nonvacuous_shared_both :
  let sched := u_pre ++ [(0, ANet (EHead 200)); (0, ATick); (0, ATick); (0, ATick); (0, ANet (EChunk [66; 10])); (0, ANet EEof);
                         (0, ATick); (0, ATick); (0, ATick); (0, ATick); (0, ATick)] in
  let s := mrun unit u_parse create_ops commit_ops (minit unit u_f0 u_srv) sched in
  m_cache (ms_fs s) = Some (File (cached_form [66; 10] [104; 48])) /\ m_tmp (ms_fs s) 0 = None.
Proof. vm_compute. split; reflexivity. Qed.

(* the order in which fetch_symbol_file takes its steps (translated from the source) is the one the
   step function of the machines was written for: send + status check, create_cache_file, parse with
   the tee callback and `?`, url, commit only `if let Some(temp)`, Ok *)
Example c16_fetch_steps_as_modelled :
  fetch_steps = [FSend; FCreate; FParseTee; FSetUrl; FCommitIfTemp; FReturnOk] /\
  create_ops = [OMkdirAll; ONewTemp] /\ commit_ops = std_commit.
Proof. repeat split; reflexivity. Qed.
Print Assumptions c16_fetch_steps_as_modelled.

(* ------------------------------------------------------------------------------------------------
   The operation programs against the one-step functions of C16/Model.v (the model of the theorems
   above, compared with the real code on every single-client case): run to its end without
   interleaving, the translated program of commit_cache_file has exactly the effect of
   Model.commit_cache_file on the cache path — on every error branch (write of the separator or of
   the note fails, remove_file fails or hits a directory, persist fails) and on success — other
   paths are untouched, the temp file is gone from tmp in every branch, and when every operation
   succeeded the entry is cached_form body u.  Likewise create_cache_file. *)
Theorem c16_commit_program_refines : forall p e f n body u g i,
  m_cache g = cache f p -> m_tmp g i = Some body ->
  let f' := Model.commit_cache_file p e f n body u in
  let r := run_ops e i body u g commit_ops in
  m_cache (set_mtmp (fst r) i None) = cache f' p /\
  (forall q, q <> p -> cache f' q = cache f q) /\
  tmp f' = tmp (rm_tmp f n) /\
  (snd r = true -> m_tmp (fst r) i = None /\ m_cache (fst r) = Some (File (cached_form body u))).
Proof. exact commit_refines. Qed.
Print Assumptions c16_commit_program_refines.

Theorem c16_create_program_refines : forall p e f g i u,
  m_cdir g = cdir f p -> m_tmp g i = None ->
  let r := run_ops e i [] u g create_ops in
  let fr := Model.create_cache_file p e f in
  m_cache (fst r) = m_cache g /\
  m_cdir (fst r) = cdir (fst fr) p /\
  (forall q, cache (fst fr) q = cache f q) /\
  (snd r = true -> snd fr <> None /\ m_tmp (fst r) i = Some []) /\
  (snd r = false -> snd fr = None /\ m_tmp (fst r) i = None /\ tmp (fst fr) = tmp f).
Proof. exact create_refines. Qed.
Print Assumptions c16_create_program_refines.

(* the machine's commit phase IS that program: |ops|+1 scheduler steps of one client, uninterrupted *)
Theorem c16_machine_commit_is_program : forall (T : Type) (parse : bytes -> option (T * option bytes)) ops i f srv body t,
  ticks T parse create_ops commit_ops (S (length ops)) i f (mkclient T srv (CCommit ops body t)) =
  (set_mtmp (fst (run_ops (env_of T (mkclient T srv CIdle)) i body (url_of T (mkclient T srv CIdle)) f ops)) i None,
   mkclient T srv (CDone (ROk t (Some (url_of T (mkclient T srv CIdle)))))).
Proof. exact (fun T parse => ticks_commit T parse create_ops commit_ops). Qed.
Print Assumptions c16_machine_commit_is_program.

Example c16_nonvacuous_commit_program :
  let g := mkmfs (Some (File [1])) true (fun j => if j =? 3 then Some [65] else None) in
  let r := run_ops env_ok 3 [65] [104] g commit_ops in
  snd r = true /\ m_cache (fst r) = Some (File (cached_form [65] [104])) /\ m_tmp (fst r) 3 = None.
Proof. vm_compute. repeat split; reflexivity. Qed.

(* Provenance, for every schedule: the step that makes a file appear (or change) at the shared cache
   path is a step of a client i inside commit_cache_file — its persist — and the file is the committed
   form of exactly the body client i received before the clean end of its response, which the parser
   accepted as a whole, annotated with the URL of the server client i is talking to. *)
Theorem c16_shared_new_entry_provenance :
  forall (T : Type) (parse : bytes -> option (T * option bytes)) (c0 : option node) f srv sched i a cc,
  m_cache f = c0 -> (forall i, m_tmp f i = None) ->
  let s := mrun T parse create_ops commit_ops (minit T f srv) sched in
  m_cache (ms_fs (mstep T parse create_ops commit_ops s (i, a))) = Some (File cc) ->
  m_cache (ms_fs s) <> Some (File cc) ->
  exists ops body t x, c_ph (ms_cl s i) = CCommit ops body t /\ parse body = Some (t, x) /\
                       cc = cached_form body (url_of T (ms_cl s i)).
Proof. exact (fun T parse c0 => shared_new_entry_provenance T parse create_ops commit_ops eq_refl eq_refl c0). Qed.
Print Assumptions c16_shared_new_entry_provenance.

(* ================================================================================================
   Round 5: the structure of HttpSymbolSupplier::locate_symbols is the source's (translate/c16_locate.py -> Gen/C16Locate.v).
   [cascades] is TRANSLATED from the pattern of `if !matches!(local_result, Err(SymbolError::NotFound)) { return local_result.map(..) }`
   (which outcomes of the local lookup — symbol paths, then the cache — go on to the network), [server_loop] from the arms of
   `match sym { Ok(symbols) => { return Ok(..) } Err(e) => { trace!(..) } }`, [after_loop] from the final `Err(SymbolError::NotFound)`;
   every other statement of the function is pinned.  Model.locate — what c16_only_notfound_cascades, c16_locate_* and the
   correspondence run are about — is the function assembled from them: a widened cascade pattern (`Err(_)`) or a loop that does
   not return at the first Ok makes this theorem fail / the translator abort. *)
Theorem c16_locate_is_source :
  RM.Gen.C16Locate.server_loop = RM.Gen.C16Locate.SReturnFirstOk /\ RM.Gen.C16Locate.after_loop = RM.Gen.C16Locate.ANotFound /\
  forall (T : Type) (parse : bytes -> option (T * option bytes)) (early : bytes -> bool) (p : path) f locals race ss evs,
    Model.locate T parse early p f locals race ss evs = RM.C16.LocateSrc.locate_src T parse early p f locals race ss evs.
Proof.
  split; [reflexivity|]. split; [reflexivity|].
  intros T parse early p. exact (proj2 (proj2 (RM.C16.LocateSrc.locate_is_source T parse early p))).
Qed.
Print Assumptions c16_locate_is_source.

(* ================================================================================================
   Round 5: RAII derived, not stipulated (C16/Raii.v, C16/RaiiProofs.v).
   [irun prog]: fetch_symbol_file's body as a list of steps run under ownership rules — the droppable locals live in a frame;
   the ONLY drop sites are [leave] (applied by the interpreter whenever the frame is left: `Ok(..)`, an error through `?`, the
   future dropped while suspended at an await) and the overwriting of `temp`; a dropped NamedTempFile removes its file;
   `commit_cache_file(temp, ..)` takes it by value (the callee persists it or drops it: c16_commit_program_refines). *)

(* EVERY program over these steps (any order, any repetition), every list of servers, every event list (EDrop anywhere),
   every outcome of every file-system call: once a call of the function has been left the tmp directory is as it was when
   the lookup started; while one is running it holds at most the file the frame owns. *)
Theorem c16_raii_every_program :
  forall (T : Type) (parse : bytes -> option (T * option bytes)) (early : bytes -> bool) (p : path)
         (prog : list fstep) f0 ss evs,
  let s := RM.C16.Raii.irun T parse early p prog (RM.C16.Raii.istart T prog f0 ss) evs in
  match RM.C16.Raii.i_l s with
  | RM.C16.Raii.IRun _ _ _ fr => tmp_inv f0 (RM.C16.Raii.i_fs s) (RM.C16.Raii.fr_temp fr)
  | _ => tmp (RM.C16.Raii.i_fs s) = tmp f0
  end.
Proof. exact RM.C16.RaiiProofs.raii_any_program. Qed.
Print Assumptions c16_raii_every_program.

(* The state machine of C16/Model.v (what all theorems above are about, and what is compared with the real code) IS that
   interpreter on the step list translated from the source (Gen/C16Ops.v fetch_steps): same file system, request log, result
   and continuation after every event list.  So the drop_temp calls in Model.step are exactly the drops the ownership
   rules produce — none missing, none extra. *)
Theorem c16_model_is_ownership_semantics :
  forall (T : Type) (parse : bytes -> option (T * option bytes)) (early : bytes -> bool) (p : path) f0 ss evs,
  RM.C16.RaiiProofs.embed T (run T parse early p (net_start T f0 ss) evs)
  = RM.C16.Raii.irun T parse early p fetch_steps (RM.C16.Raii.istart T fetch_steps f0 ss) evs.
Proof. exact RM.C16.RaiiProofs.model_is_program. Qed.
Print Assumptions c16_model_is_ownership_semantics.

(* non-vacuity: a program that forgets nothing still cannot leak — and one that creates the temp file twice
   (`FCreate; FCreate`) does not either: the first handle is dropped by the assignment *)
Example c16_nonvacuous_raii_double_create :
  let prog := [FSend; FCreate; FCreate; FParseTee; FReturnOk] in
  let s := RM.C16.Raii.irun (Z * Z) parse_drv early_drv 7 prog
             (RM.C16.Raii.istart (Z * Z) prog (init_fs 0 []) [mkserver 0 [104] (mk_env true true (-1) true true)])
             [EHead 200; EChunk [77; 79; 68]] in
  List.length (tmp (RM.C16.Raii.i_fs s)) = 1%nat /\
  tmp (RM.C16.Raii.i_fs (RM.C16.Raii.istep (Z * Z) parse_drv early_drv 7 prog s EDrop)) = [].
Proof. vm_compute. split; reflexivity. Qed.

(* ================================================================================================
   Round 5: the download with the REAL streaming parser inside (C16/Stream.v).
   Above, the parser is a function of the whole byte string and "the temp file holds all bytes received" is a
   simplification.  Here fetch_symbol_file is composed with the loop of SymbolFile::parse_async itself
   (C10/Stream.v [step_stream]: circular buffer indices, fully_consumed / tried_to_grow / recovery flags, the refill
   block that skips empty chunks) and with the tee callback: the body is a script of what `response.chunk().await`
   returns — chunks of ANY size, EMPTY chunks, a failure at any point — the loop decides by itself when the body has
   ended (a 0-byte read with `fully_consumed` set), every callback call writes to the temp file (or gives up caching
   when the write fails), and commit_cache_file runs only after Ok.  Generic in the recogniser (parse_more's verdict on
   one complete line) and in finish().  [b] is what the body delivers; [split b] its lines and unterminated rest. *)
Module S := RM.C16.Stream.
Module SP := RM.C16.StreamProofs.

(* ONE download, every body script, every outcome of every file-system call:
   - tmp is as before and no other cache path is touched, whatever happens;
   - Ok is returned only if the body did not fail, the loop returned Ok, and the callback had been given EVERY byte of
     the body (cbsum = |b|: the loop never takes a 0-byte read for the end of the body while bytes are outstanding);
     the cache path then holds cached_form b u (the WHOLE body + note), or is unchanged (caching given up / commit
     failed early), or — an older entry was removed and persist failed — is empty;
   - every error leaves the whole cache untouched. *)
Theorem c16_stream_entry_only_from_whole_body :
  forall (L : Type) (llen : L -> Z) (PS : Type) (init_ps : PS) (recog : PS -> L -> PS + Z) (bump : PS -> PS)
         (lineno : PS -> Z) (T : Type) (finish : PS -> option T) (split : bytes -> list L * Z) (p : path),
  (forall l, 1 <= llen l) ->
  forall e u f b script,
  SP.split_ok L llen split b -> C10.Stream.delivered script = Z.of_nat (length b) ->
  let f' := fst (S.stream_fetch L llen PS init_ps recog bump lineno T finish split p e u f b script) in
  tmp f' = tmp f /\ (forall q, q <> p -> cache f' q = cache f q) /\
  match snd (S.stream_fetch L llen PS init_ps recog bump lineno T finish split p e u f b script) with
  | S.FOk t =>
      C10.Stream.fails script = false /\
      (exists ps x, C10.Stream.drive_stream L llen PS init_ps recog bump lineno (fst (split b)) (snd (split b)) script
                    = Ret (C09.Model.ROk ps, x) /\
                    finish ps = Some t /\ C09.Model.cbsum (C10.Stream.core x) = Z.of_nat (length b)) /\
      commit_post p f f' b u
  | S.FErr c =>
      cache_eq f' f /\
      exists ln x, C10.Stream.drive_stream L llen PS init_ps recog bump lineno (fst (split b)) (snd (split b)) script
                   = Ret (C09.Model.RErr c ln, x)
  | S.FPanic => cache_eq f' f
  | S.FFuel => False
  end.
Proof. exact SP.stream_fetch_cases. Qed.
Print Assumptions c16_stream_entry_only_from_whole_body.

(* Lines shorter than 80 KiB: the verdict of the download is the schedule-free verdict of the whole body — the same for
   every chunking (pieces ending exactly at line ends, empty chunks, one byte at a time, ...). *)
Theorem c16_stream_verdict_chunk_independent :
  forall (L : Type) (llen : L -> Z) (PS : Type) (init_ps : PS) (recog : PS -> L -> PS + Z) (bump : PS -> PS)
         (lineno : PS -> Z) (T : Type) (finish : PS -> option T) (split : bytes -> list L * Z) (p : path),
  (forall l, 1 <= llen l) ->
  forall e u f b script,
  SP.split_ok L llen split b -> C10.Stream.delivered script = Z.of_nat (length b) ->
  short_lines llen (fst (split b)) (snd (split b)) -> C10.Stream.fails script = false ->
  snd (S.stream_fetch L llen PS init_ps recog bump lineno T finish split p e u f b script)
  = SP.verdict L PS init_ps recog lineno T finish (fst (split b)) (snd (split b)).
Proof. exact SP.stream_fetch_verdict. Qed.
Print Assumptions c16_stream_verdict_chunk_independent.

(* ALL inputs: a body that fails (connection cut, framing error, timeout) never yields Ok and leaves cache and tmp as
   they were — also when the bytes delivered so far happen to be a well-formed shorter file. *)
Theorem c16_stream_failed_body_leaves_nothing :
  forall (L : Type) (llen : L -> Z) (PS : Type) (init_ps : PS) (recog : PS -> L -> PS + Z) (bump : PS -> PS)
         (lineno : PS -> Z) (T : Type) (finish : PS -> option T) (split : bytes -> list L * Z) (p : path),
  (forall l, 1 <= llen l) ->
  forall e u f b script,
  SP.split_ok L llen split b -> C10.Stream.delivered script = Z.of_nat (length b) -> C10.Stream.fails script = true ->
  SP.unchanged f (fst (S.stream_fetch L llen PS init_ps recog bump lineno T finish split p e u f b script)) /\
  forall t, snd (S.stream_fetch L llen PS init_ps recog bump lineno T finish split p e u f b script) <> S.FOk t.
Proof. exact SP.stream_fetch_failed_body. Qed.
Print Assumptions c16_stream_failed_body_leaves_nothing.

(* The streaming download under OWNERSHIP rules (C16/StreamRaii.v, second pass of round 5).  C16/Stream.v places the removal of
   the temp file by hand ([gone := drop_temp f1 tf] on every exit edge) and reconstructs the tmp directory of a dropped / suspended
   download after the fact.  The ownership machine threads the file system through parse_async's loop — every callback call WRITES
   when it happens, a failed write runs `temp = None` (an assignment: the old value is dropped) —, keeps `temp` in the loop state
   and has ONE drop site, applied whenever the frame is left: Ok, `?`, unwinding, the future dropped in `response.chunk().await`
   after any number of iterations; `commit_cache_file(temp, ..)` takes the handle by value.  These functions ARE Stream.v's,
   for every recogniser, body script, outcome of every fs call and number of iterations. *)
Theorem c16_stream_is_ownership_semantics :
  forall (L : Type) (llen : L -> Z) (PS : Type) (init_ps : PS) (recog : PS -> L -> PS + Z) (bump : PS -> PS)
         (lineno : PS -> Z) (T : Type) (finish : PS -> option T) (split : bytes -> list L * Z) (p : path) e u f b script k,
  RM.C16.StreamRaii.own_fetch L llen PS init_ps recog bump lineno T finish split p e u f b script
    = S.stream_fetch L llen PS init_ps recog bump lineno T finish split p e u f b script /\
  RM.C16.StreamRaii.own_dropped L llen PS init_ps recog bump lineno split p e f b script k
    = S.stream_fetch_dropped L llen PS init_ps recog bump lineno split p e f b script k /\
  fst (RM.C16.StreamRaii.own_inflight L llen PS init_ps recog bump lineno split p e f b script k)
    = S.stream_fetch_inflight L llen PS init_ps recog bump lineno split p e f b script k.
Proof.
  intros. split; [apply RM.C16.StreamRaiiProofs.own_fetch_is_stream_fetch|].
  split; [apply RM.C16.StreamRaiiProofs.own_dropped_is_stream_dropped|apply RM.C16.StreamRaiiProofs.own_inflight_is_stream_inflight].
Qed.
Print Assumptions c16_stream_is_ownership_semantics.

(* RAII on the ownership machine itself (an invariant over the loop, not read off hand-placed drops): while the download runs the
   frame owns at most ONE file in tmp — the one that was not there before — and the cache is as it was; leaving the frame after
   ANY number of iterations restores tmp; so does every exit of the completed call that is not Ok. *)
Theorem c16_stream_raii :
  forall (L : Type) (llen : L -> Z) (PS : Type) (init_ps : PS) (recog : PS -> L -> PS + Z) (bump : PS -> PS)
         (lineno : PS -> Z) (T : Type) (finish : PS -> option T) (split : bytes -> list L * Z) (p : path) e u f b script k,
  RM.C16.StreamRaiiProofs.OInv f (RM.C16.StreamRaii.own_inflight L llen PS init_ps recog bump lineno split p e f b script k) /\
  (let g := RM.C16.StreamRaii.own_dropped L llen PS init_ps recog bump lineno split p e f b script k in
   (forall q, cache g q = cache f q) /\ tmp g = tmp f) /\
  (let r := RM.C16.StreamRaii.own_fetch L llen PS init_ps recog bump lineno T finish split p e u f b script in
   (forall t, snd r <> S.FOk t) -> (forall q, cache (fst r) q = cache f q) /\ tmp (fst r) = tmp f).
Proof.
  intros. split; [apply RM.C16.StreamRaiiProofs.own_inflight_owned|].
  split; [apply RM.C16.StreamRaiiProofs.own_dropped_clean|apply RM.C16.StreamRaiiProofs.own_fetch_error_clean].
Qed.
Print Assumptions c16_stream_raii.

(* The future dropped after ANY number of loop iterations (the loop's only await is response.chunk()): cache and tmp as
   before; while in flight: at most our one temp file.  Was c16_stream_dropped_leaves_nothing_partial: the statement is the same,
   it is now derived from the two theorems above (RM.C16.StreamRaiiProofs.stream_dropped_from_ownership), not from the drop_temp
   calls written into stream_fetch_dropped. *)
Theorem c16_stream_dropped_leaves_nothing :
  forall (L : Type) (llen : L -> Z) (PS : Type) (init_ps : PS) (recog : PS -> L -> PS + Z) (bump : PS -> PS)
         (lineno : PS -> Z) (split : bytes -> list L * Z) (p : path) e f b script k,
  SP.unchanged f (S.stream_fetch_dropped L llen PS init_ps recog bump lineno split p e f b script k) /\
  let g := S.stream_fetch_inflight L llen PS init_ps recog bump lineno split p e f b script k in
  cache_eq g f /\ (tmp g = tmp f \/ exists n c, n = fresh (tmp f) /\ tmp g = (n, c) :: tmp f).
Proof. exact RM.C16.StreamRaiiProofs.stream_dropped_from_ownership. Qed.
Print Assumptions c16_stream_dropped_leaves_nothing.

(* The loop these theorems are about is the loop of the SOURCE: [step_stream] equals the function assembled from the
   conditions, flag updates and buffer arithmetic that translate/symfile_loop.py extracts from parse_async
   (coq/Gen/SymFileLoop.v, the async_ definitions) and the refill block that translate/c10_stream.py extracts (coq/Gen/C10Stream.v). *)
Theorem c16_stream_loop_is_source :
  forall (L : Type) (llen : L -> Z) (PS : Type) (recog : PS -> L -> PS + Z) (bump : PS -> PS) (lineno : PS -> Z) x,
  C10.Stream.step_stream L llen PS recog bump lineno x = RM.C16.StreamPins.step_stream_src L llen PS recog bump lineno x.
Proof. exact RM.C16.StreamPins.step_stream_is_source. Qed.
Print Assumptions c16_stream_loop_is_source.

(* The model of the real parser (C09/Grammar.v) as the recogniser: the download under ANY chunking followed by a cache hit
   (the whole-file parse of the entry): the entry is the whole body + note, and reading it back gives the table the
   download returned and the URL of the note.  Lines < 80 KiB; url_ok as in c16_rehit_same. *)
Theorem c16_stream_download_then_cache_hit :
  forall p e u f b script t c,
  RM.C16.StreamProofs2.short_bytes b -> url_ok u -> C10.Stream.delivered script = Z.of_nat (length b) ->
  snd (RM.C16.StreamInst.stream_fetch_c p e u f b script) = S.FOk t ->
  cache (fst (RM.C16.StreamInst.stream_fetch_c p e u f b script)) p = Some (File c) ->
  cache f p <> Some (File c) ->
  c = cached_form b u /\ parse_bytes c = Some (set_url t None, Some u).
Proof. exact RM.C16.StreamProofs2.stream_then_rehit. Qed.
Print Assumptions c16_stream_download_then_cache_hit.

(* non-vacuity.  `MODULE a b c d / FILE 1 x / PUBLIC 20 0 g` (38 bytes) delivered as [15 bytes = exactly the first line;
   an EMPTY chunk; the other 23 bytes]: Ok, one PUBLIC, entry = whole body + note, tmp empty. *)
Definition ex_sbody : bytes :=
  [77;79;68;85;76;69;32;97;32;98;32;99;32;100;10; 70;73;76;69;32;49;32;120;10; 80;85;66;76;73;67;32;50;48;32;48;32;103;10].
Definition ex_senv : env := mkenv true true (fun _ => true) true true.
Definition ex_sfs : fs := mkfs (fun _ => None) (fun _ => false) [].

Example c16_nonvacuous_stream_aligned_pieces :
  let script := [C10.Stream.SChunk 15; C10.Stream.SChunk 0; C10.Stream.SChunk 23] in
  let r := RM.C16.StreamInst.stream_fetch_c 7 ex_senv [104] ex_sfs ex_sbody script in
  C10.Stream.delivered script = Z.of_nat (length ex_sbody) /\ C10.Stream.fails script = false /\
  (exists t, snd r = S.FOk t /\ length (t_publics t) = 1%nat) /\
  cache (fst r) 7 = Some (File (cached_form ex_sbody [104])) /\ tmp (fst r) = [].
Proof.
  vm_compute. split; [reflexivity|]. split; [reflexivity|]. split; [eexists; split; reflexivity|]. split; reflexivity.
Qed.

Example c16_nonvacuous_stream_short_bytes : RM.C16.StreamProofs2.short_bytes ex_sbody /\ url_ok [104].
Proof.
  split.
  - unfold RM.C16.StreamProofs2.short_bytes, short_lines.
    set (sp := RM.C16.StreamInst.split_c ex_sbody). vm_compute in sp. subst sp. cbn [fst snd]. split.
    + repeat (apply Forall_cons; [apply Z.leb_le; vm_compute; reflexivity|]). apply Forall_nil.
    + apply Z.ltb_lt. vm_compute. reflexivity.
  - unfold url_ok. split; [repeat constructor; discriminate|]. split; vm_compute; reflexivity.
Qed.

(* the class of seeded/C16-7: the first piece ends exactly at a line end and everything before it is parsed
   (fully_consumed = true); the rest of the body is an unterminated record.  The loop must not take the 0-byte read
   at the end of the body for a clean EOF: error 4 (unexpected EOF), nothing cached, tmp empty. *)
Example c16_nonvacuous_stream_aligned_then_unterminated :
  let b := firstn 23 ex_sbody in
  let script := [C10.Stream.SChunk 15; C10.Stream.SChunk 8] in
  let r := RM.C16.StreamInst.stream_fetch_c 7 ex_senv [104] ex_sfs b script in
  C10.Stream.delivered script = Z.of_nat (length b) /\ snd r = S.FErr 4 /\ cache (fst r) 7 = None /\ tmp (fst r) = [].
Proof. vm_compute. repeat split; reflexivity. Qed.

(* the body fails after the first line (a well-formed one-line file has been delivered): load error, nothing cached *)
Example c16_nonvacuous_stream_failed_body :
  let b := firstn 15 ex_sbody in
  let script := [C10.Stream.SChunk 15; C10.Stream.SFail; C10.Stream.SChunk 23] in
  let r := RM.C16.StreamInst.stream_fetch_c 7 ex_senv [104] ex_sfs b script in
  C10.Stream.delivered script = Z.of_nat (length b) /\ C10.Stream.fails script = true /\
  snd r = S.FErr 8 /\ cache (fst r) 7 = None /\ tmp (fst r) = [].
Proof. vm_compute. repeat split; reflexivity. Qed.

(* The whole network part of a lookup — `for url in &self.urls { match fetch_symbol_file(..).await { Ok => return, Err => next } }` —
   with the streaming download inside, for every list of servers and EVERY response of each (no head; any status; any body script):
   tmp is as before, no other cache path is touched; a lookup that fails leaves the whole cache untouched and has asked every
   server once, in order; a lookup that succeeds has asked the servers up to the successful one, whose status was < 400, whose
   body did not fail and was handed to the callback to the last byte, and the cache path holds that WHOLE body + note with that
   server's URL (or is unchanged / an older entry removed and persist failed). *)
Theorem c16_stream_lookup_entry_only_from_whole_body :
  forall (L : Type) (llen : L -> Z) (PS : Type) (init_ps : PS) (recog : PS -> L -> PS + Z) (bump : PS -> PS)
         (lineno : PS -> Z) (T : Type) (finish : PS -> option T) (split : bytes -> list L * Z) (p : path),
  (forall l, 1 <= llen l) ->
  forall ss f, Forall (SP.resp_ok L llen split) ss ->
  let R := S.lookup_stream L llen PS init_ps recog bump lineno T finish split p note_url_src report_url_src f ss in
  let f' := fst (fst R) in
  tmp f' = tmp f /\ (forall q, q <> p -> cache f' q = cache f q) /\
  match snd (fst R) with
  | None => cache_eq f' f /\ snd R = SP.ids ss
  | Some (t, u) =>
      exists pre s code final b script post,
        ss = pre ++ (s, S.RHead code final b script) :: post /\ u = pick_url report_url_src (s_url s) final /\
        code < 400 /\ C10.Stream.fails script = false /\
        (exists ps x, C10.Stream.drive_stream L llen PS init_ps recog bump lineno (fst (split b)) (snd (split b)) script
                      = Ret (C09.Model.ROk ps, x) /\
                      finish ps = Some t /\ C09.Model.cbsum (C10.Stream.core x) = Z.of_nat (length b)) /\
        commit_post p f f' b (pick_url note_url_src (s_url s) final) /\
        snd R = SP.ids (pre ++ [(s, S.RHead code final b script)])
  end.
Proof. exact (fun L llen PS init_ps recog bump lineno T finish split p H => SP.lookup_stream_cases L llen PS init_ps recog bump lineno T finish split p H note_url_src report_url_src). Qed.
Print Assumptions c16_stream_lookup_entry_only_from_whole_body.

(* Redirects.  Every response carries two URLs: the one requested and the one it finally came from ([final] is arbitrary:
   reqwest follows redirects inside send()).  Which one fetch_symbol_file reports to the caller and which one it writes into the
   note are translated from http.rs (Gen/C16Ops.v report_url_src: `symbol_file.url = Some(url.to_string())`; note_url_src: the
   third argument of commit_cache_file).  They are the same source, hence for EVERY final URL the entry a successful lookup
   creates is annotated with exactly the URL the lookup reported — which is what the cache hit will report
   (c16_stream_download_then_cache_hit).  With seeded/C16-8 the translator emits note_url_src = UFinal and this is no longer
   provable: the note names the redirect target, the caller was told the requested URL. *)
Theorem c16_stream_note_is_reported_url :
  note_url_src = report_url_src /\
  forall (L : Type) (llen : L -> Z) (PS : Type) (init_ps : PS) (recog : PS -> L -> PS + Z) (bump : PS -> PS)
         (lineno : PS -> Z) (T : Type) (finish : PS -> option T) (split : bytes -> list L * Z) (p : path),
  (forall l, 1 <= llen l) ->
  forall ss f t u c, Forall (SP.resp_ok L llen split) ss ->
  let R := S.lookup_stream L llen PS init_ps recog bump lineno T finish split p note_url_src report_url_src f ss in
  snd (fst R) = Some (t, u) ->
  cache (fst (fst R)) p = Some (File c) -> cache f p <> Some (File c) ->
  exists b, c = cached_form b u.
Proof.
  split; [reflexivity|].
  intros L llen PS init_ps recog bump lineno T finish split p Hl ss f t u c Hok R Hres Hc Hnew.
  pose proof (SP.lookup_stream_cases L llen PS init_ps recog bump lineno T finish split p Hl note_url_src report_url_src ss f Hok) as H.
  cbv zeta in H. destruct H as [_ [_ H]]. subst R. rewrite Hres in H.
  destruct H as [pre [s [code [final [b [script [post [_ [Eu [_ [_ [_ [Hpost _]]]]]]]]]]]]].
  exists b. replace (pick_url note_url_src (s_url s) final) with u in Hpost by (rewrite Eu; reflexivity).
  destruct Hpost as [H|[H|[H _]]]; rewrite H in Hc; [inversion Hc; reflexivity|contradiction|discriminate].
Qed.
Print Assumptions c16_stream_note_is_reported_url.

(* The abstract machine of C16/Model.v against the streaming download, for every chunking.
   Model.v takes the whole-body verdict of the streaming parser as its parser ([parse_v]) and says "the temp file holds all bytes
   received"; for a response with a non-error head, the body in ANY chunks and a clean end its run is — file system, request log,
   result, continuation with the next server — exactly what [stream_fetch] computes under EVERY body script that delivers those
   bytes (lines < 80 KiB; environments in which the tee's writes succeed — create_dir_all, NamedTempFile::new_in, remove_file and
   persist stay arbitrary).  So every theorem above about Model.run is, for such responses, a theorem about the download with the
   real loop inside; with a failing body both move on with the temp file dropped (ALL inputs). *)
Module SR := RM.C16.StreamRefine.
Theorem c16_model_response_is_stream_fetch :
  forall (L : Type) (llen : L -> Z) (PS : Type) (init_ps : PS) (recog : PS -> L -> PS + Z) (bump : PS -> PS)
         (lineno : PS -> Z) (T : Type) (finish : PS -> option T) (split : bytes -> list L * Z) (p : path),
  (forall l, 1 <= llen l) ->
  forall e u rest cur log f code chunks script,
  s_env cur = e -> s_url cur = u -> SP.writes_ok e -> code < 400 ->
  let b := concat chunks in
  SP.split_ok L llen split b -> C10.Stream.delivered script = Z.of_nat (length b) ->
  short_lines llen (fst (split b)) (snd (split b)) -> C10.Stream.fails script = false ->
  Model.run T (SR.parse_v L PS init_ps recog lineno T finish split) SR.never p
            (mkst f log (LRun rest cur PSend)) (EHead code :: map EChunk chunks ++ [EEof])
  = match snd (S.stream_fetch L llen PS init_ps recog bump lineno T finish split p e u f b script) with
    | S.FOk t => mkst (fst (S.stream_fetch L llen PS init_ps recog bump lineno T finish split p e u f b script)) log
                      (LDone (ROk t (Some u)))
    | _ => next_server T (fst (S.stream_fetch L llen PS init_ps recog bump lineno T finish split p e u f b script)) log rest
    end.
Proof. exact SR.model_response_is_stream_fetch. Qed.
Print Assumptions c16_model_response_is_stream_fetch.

Theorem c16_model_failed_response_is_stream_fetch :
  forall (L : Type) (llen : L -> Z) (PS : Type) (init_ps : PS) (recog : PS -> L -> PS + Z) (bump : PS -> PS)
         (lineno : PS -> Z) (T : Type) (finish : PS -> option T) (split : bytes -> list L * Z) (p : path),
  (forall l, 1 <= llen l) ->
  forall e u rest cur log f code chunks b script,
  s_env cur = e -> SP.writes_ok e -> code < 400 ->
  SP.split_ok L llen split b -> C10.Stream.delivered script = Z.of_nat (length b) -> C10.Stream.fails script = true ->
  Model.run T (SR.parse_v L PS init_ps recog lineno T finish split) SR.never p
            (mkst f log (LRun rest cur PSend)) (EHead code :: map EChunk chunks ++ [EBodyErr])
  = next_server T (fst (S.stream_fetch L llen PS init_ps recog bump lineno T finish split p e u f b script)) log rest.
Proof.
  intros L llen PS init_ps recog bump lineno T finish split p Hl e u rest cur log f code chunks b script He Hw Hc Hs Hd Hf.
  rewrite (SR.stream_fetch_failed_fs L llen PS init_ps recog bump lineno T finish split p Hl e u f b script Hs Hd Hf).
  apply SR.model_failed_response; assumption.
Qed.
Print Assumptions c16_model_failed_response_is_stream_fetch.

(* Non-vacuity of the ownership machine: the C09/C10 recogniser, the 38-byte example body in pieces [15][0][23]; suspended after one
   iteration the frame owns temp file 0, which holds the first line (15 bytes: what the callback has been given); dropped there:
   tmp empty, cache empty; run to the end: the entry. *)
Example c16_nonvacuous_stream_ownership :
  let script := [C10.Stream.SChunk 15; C10.Stream.SChunk 0; C10.Stream.SChunk 23] in
  let infl := RM.C16.StreamRaii.own_inflight rle cllen C09.Grammar.pst init_pst recog_pst bump_pst lineno_pst RM.C16.StreamInst.split_c 7 ex_senv ex_sfs ex_sbody script 1 in
  let drp := RM.C16.StreamRaii.own_dropped rle cllen C09.Grammar.pst init_pst recog_pst bump_pst lineno_pst RM.C16.StreamInst.split_c 7 ex_senv ex_sfs ex_sbody script 1 in
  let fin := RM.C16.StreamRaii.own_fetch rle cllen C09.Grammar.pst init_pst recog_pst bump_pst lineno_pst Grammar.table RM.C16.StreamInst.finish_c RM.C16.StreamInst.split_c 7 ex_senv [104] ex_sfs ex_sbody script in
  tmp (fst infl) = [(0, firstn 15 ex_sbody)] /\ snd infl = S.TOpen 0 15 /\ cache (fst infl) 7 = None /\
  tmp drp = [] /\ cache drp 7 = None /\
  tmp (fst fin) = [] /\ cache (fst fin) 7 = Some (File (cached_form ex_sbody [104])).
Proof. vm_compute. repeat split; reflexivity. Qed.

(* Several lookups of the SAME module at the same time inside ONE process (second pass of round 5; C16/InProcess.v).  Every lookup
   goes through the Symbolizer's per-module slot; C12's model of it (any tasks, any lookups, EVERY executor schedule, the supplier
   future suspended anywhere) calls the supplier at most once per module key (C12.Proofs.at_most_once = c12_at_most_once).  One call
   of the supplier is one [locate] of C16/Model.v.  Composed, for every configuration and schedule of the process, every initial file
   system, every server list and every event list of each call: the process does to the servers and to the cache directory what ONE
   lookup does (or nothing) — the request log of the whole process for that module is a prefix of the server list, each server at
   most once —, so every single-lookup theorem above holds for the process as a whole; two downloads of one entry at the same time can
   only come from different processes (the shared-cache machine: the c16_shared theorems). *)
Theorem c16_process_is_one_lookup :
  forall (T : Type) (parse : bytes -> option (T * option bytes)) (early : bytes -> bool) (p : path)
         (locals : list (option bytes)) (ss : list server) (evs_of : nat -> list event)
         (c : C12.Model.config) (sched : list C12.Model.task) (k : C12.Model.key) (f : fs),
  let pr := RM.C16.InProcess.process T parse early p locals ss evs_of c sched k f in
  let one := locate T parse early p f locals None ss (evs_of 0%nat) in
  (pr = ([], f) \/ pr = (s_log one, s_fs one)) /\
  exists dn rest, ss = dn ++ rest /\ fst pr = map s_id dn.
Proof.
  intros. split; [apply RM.C16.InProcess.process_is_one_lookup|apply RM.C16.InProcess.process_requests_prefix].
Qed.
Print Assumptions c16_process_is_one_lookup.

(* ... and for files: HttpSymbolSupplier keeps a slot per (module, kind) in front of its fetch closure; C12/FileModel.v + FileProofs.v:
   the closure runs at most once per file key under every schedule (c12_files_at_most_once).  One run of the closure is one
   [locate_file] of C16/FileFetch.v: the process does to the servers and the cache what ONE locate_file does, or nothing — the
   c16_file_ theorems hold for the process as a whole. *)
Theorem c16_process_file_is_one_lookup :
  forall (p : path) (locals : list bool) (ss : list server) (evs_of : nat -> list event)
         (fc : C12.FileModel.fconfig) (sched : list C12.Model.task) (fk : C12.FileModel.fkey) (f : fs),
  let pr := RM.C16.InProcess.process_file p locals ss evs_of fc sched fk f in
  let one := RM.C16.FileFetch.locate_file p f locals ss (evs_of 0%nat) in
  pr = ([], f) \/ pr = (RM.C16.FileFetch.q_log one, RM.C16.FileFetch.q_fs one).
Proof. intros. apply RM.C16.InProcess.process_file_is_one_lookup. Qed.
Print Assumptions c16_process_file_is_one_lookup.

(* non-vacuity: C12's example configuration (three tasks, file keys (0,KBin) / (0,KDbg) / (1,KBin), two servers) under its schedule: the
   closure of (0, KBin) has run once; the process' effect on the servers and the cache is the one download: request log [3; 5], entry *)
Example c16_nonvacuous_process_file :
  let fc := C12.FileModel.Build_fconfig
              [[(0%nat, C12.FileModel.KBin); (0%nat, C12.FileModel.KDbg)]; [(0%nat, C12.FileModel.KDbg); (1%nat, C12.FileModel.KBin)]; [(0%nat, C12.FileModel.KBin)]]
              (fun _ => false)
              (fun fk => match fk with (1%nat, C12.FileModel.KBin) => false | _ => true end)
              [fun fk => (1%nat, match fk with (0%nat, C12.FileModel.KDbg) => true | _ => false end);
               fun fk => (2%nat, match fk with (0%nat, C12.FileModel.KBin) => true | _ => false end)] in
  let sched := [0; 1; 2; 2; 1; 0; 0; 1; 2; 0; 1; 2; 0]%nat in
  let ss := [mkserver 3 [] ex_senv; mkserver 5 [] ex_senv] in
  let evs := [EHead 404; EHead 200; EChunk [1; 2; 3]; EChunk [4; 5]; EEof] in
  let pr := RM.C16.InProcess.process_file 7 [] ss (fun _ => evs) fc sched (0%nat, C12.FileModel.KBin) ex_sfs in
  C12.Model.supplier_calls (C12.Model.run (C12.FileModel.to_config fc) sched) (C12.FileModel.enc (0%nat, C12.FileModel.KBin)) = 1%nat /\
  fst pr = [3; 5] /\ cache (snd pr) 7 = Some (File [1; 2; 3; 4; 5]) /\ tmp (snd pr) = [].
Proof. vm_compute. repeat split; reflexivity. Qed.

(* non-vacuity: two tasks look the same module (key 0) up at the same time, the supplier future suspends twice; under the schedule
   [0;1;0;1;0;1;1] the supplier has been called once, and the process' effect is that of the one lookup: the request went to
   server 5 and the entry is there *)
Example c16_nonvacuous_process :
  let c := C12.Model.Build_config [[0%nat]; [0%nat]] (fun _ => 2%nat) (fun _ => C12.Model.OOk) (fun _ => 0%nat) in
  let sched := [0; 1; 0; 1; 0; 1; 1]%nat in
  let srv := mkserver 5 [104] ex_senv in
  let evs := [EHead 200; EChunk ex_sbody; EEof] in
  let pr := RM.C16.InProcess.process table parse_drv (fun _ => false) 7 [] [srv] (fun _ => evs) c sched 0%nat ex_sfs in
  C12.Model.supplier_calls (C12.Model.run c sched) 0%nat = 1%nat /\
  fst pr = [5] /\ cache (snd pr) 7 = Some (File (cached_form ex_sbody [104])) /\ tmp (snd pr) = [].
Proof. vm_compute. repeat split; reflexivity. Qed.

(* The OTHER download path of http.rs — fetch_lookup / HttpSymbolSupplier::locate_file (native binaries, extra debug info): same
   create_cache_file, same tmp directory, same cache tree; no parse, no note, caching not optional, persist_noclobber (C16/FileFetch.v;
   second pass of round 5: until now this path was judged by the oracle only).  All four statements: every cache path p, every initial
   file system, every set of local hits, every server list with arbitrary outcomes of the file-system calls, EVERY event list (EDrop
   anywhere).
   A regular file appears or changes anywhere in the cache only at p, only where NOTHING was before, only after a non-error head and the
   clean end of the whole body; it is EXACTLY the bytes of that body, and the lookup answered with the download. *)
Module FF := RM.C16.FileFetch.
Module FP := RM.C16.FileFetchProofs.
Theorem c16_file_entry_only_from_whole_body : forall p f locals ss evs q c,
  cache (FF.q_fs (FF.locate_file p f locals ss evs)) q = Some (File c) -> cache f q <> Some (File c) ->
  q = p /\ cache f p = None /\
  exists pre code chunks post,
    evs = pre ++ EHead code :: map EChunk chunks ++ EEof :: post /\ code < 400 /\ c = concat chunks /\
    exists i, FF.q_l (FF.locate_file p f locals ss evs) = FF.QDone (FF.QFetched i).
Proof. exact FP.file_entry_only_whole_body. Qed.
Print Assumptions c16_file_entry_only_from_whole_body.

(* tmp is as before after every finished lookup (found locally, downloaded, failed at any point of any server, dropped anywhere);
   while pending it holds at most the one in-flight file, whose content is exactly what has been received *)
Theorem c16_file_no_stray_tmp : forall p f locals ss evs,
  let s := FF.locate_file p f locals ss evs in
  (FP.q_finished s -> tmp (FF.q_fs s) = tmp f) /\
  (tmp (FF.q_fs s) = tmp f \/ exists n got, tmp (FF.q_fs s) = (n, got) :: tmp f /\ n = fresh (tmp f)).
Proof. exact FP.file_no_stray_tmp. Qed.
Print Assumptions c16_file_no_stray_tmp.

(* every lookup that does not end in a download leaves the WHOLE cache as it was *)
Theorem c16_file_failed_leaves_cache : forall p f locals ss evs,
  ~ FP.q_downloaded (FF.locate_file p f locals ss evs) -> cache_eq (FF.q_fs (FF.locate_file p f locals ss evs)) f.
Proof. exact FP.file_failed_leaves_cache. Qed.
Print Assumptions c16_file_failed_leaves_cache.

(* whatever is at the path before the lookup (another process's file, a directory) is still there afterwards: never removed, never replaced *)
Theorem c16_file_existing_never_replaced : forall p f locals ss evs x,
  cache f p = Some x -> cache (FF.q_fs (FF.locate_file p f locals ss evs)) p = Some x.
Proof. exact FP.file_existing_never_replaced. Qed.
Print Assumptions c16_file_existing_never_replaced.

(* the statement list of `fn fetch_lookup` as translate/c16_fsops.py extracts it (send + error_for_status `?`; create_cache_file `?`;
   `while let Some(chunk) = res.chunk().await..? { temp.write_all(..)?; }`; `temp.persist_noclobber(..)?`; Ok) is the list the transitions
   of FileFetch.qstep were written for (RM.C16.FileFetchSrc.qstep_shape) *)
Theorem c16_file_steps_are_source : RM.Gen.C16Ops.lookup_steps = RM.C16.FileFetchSrc.qstep_shape.
Proof. exact RM.C16.FileFetchSrc.lookup_steps_as_modelled. Qed.
Print Assumptions c16_file_steps_are_source.

(* fetch_lookup under OWNERSHIP rules (C16/FileRaii.v: an interpreter for ANY list of its steps — a frame of owned locals, ONE drop site
   applied when the frame is left by Ok / `?` / the future dropped at an await, `let mut temp = ..` drops the old value,
   `temp.persist_noclobber(..)` takes the handle by value).  For EVERY program (any order, any repetition of the steps), every server
   list, every event list with EDrop anywhere, every outcome of every fs call: a frame that has been left owns nothing in tmp; a
   running one at most its one file. *)
Theorem c16_file_raii_every_program : forall p (prog : list RM.Gen.C16Ops.lstep) f0 ss evs,
  RM.C16.FileRaiiProofs.JInv f0 (RM.C16.FileRaii.jrun p prog (RM.C16.FileRaii.jstart prog f0 ss) evs).
Proof. exact RM.C16.FileRaiiProofs.file_raii_any_program. Qed.
Print Assumptions c16_file_raii_every_program.

(* ... and the machine of FileFetch.v (which the c16_file_ theorems are about and which is compared with the real locate_file) IS that
   interpreter on the step list translated from `fn fetch_lookup`, state by state: its exit edges and their drops are not hand-placed *)
Theorem c16_file_model_is_ownership_semantics : forall p f0 ss evs,
  RM.C16.FileRaiiProofs.qembed (FF.qrun p (FF.qnet_start f0 ss) evs)
  = RM.C16.FileRaii.jrun p RM.Gen.C16Ops.lookup_steps (RM.C16.FileRaii.jstart RM.Gen.C16Ops.lookup_steps f0 ss) evs.
Proof. exact RM.C16.FileRaiiProofs.file_model_is_program. Qed.
Print Assumptions c16_file_model_is_ownership_semantics.

(* a program that would NOT be safe to read as "the entry is complete" is still resource-safe; and a concrete run of the source's
   program under the interpreter: 404, then a download in two chunks; dropped after the first chunk *)
Example c16_nonvacuous_file_ownership :
  let ss := [mkserver 3 [] ex_senv; mkserver 5 [] ex_senv] in
  let evs := [EHead 404; EHead 200; EChunk [1; 2; 3]; EChunk [4; 5]; EEof] in
  let s := RM.C16.FileRaii.jrun 7 RM.Gen.C16Ops.lookup_steps (RM.C16.FileRaii.jstart RM.Gen.C16Ops.lookup_steps ex_sfs ss) evs in
  let d := RM.C16.FileRaii.jrun 7 RM.Gen.C16Ops.lookup_steps (RM.C16.FileRaii.jstart RM.Gen.C16Ops.lookup_steps ex_sfs ss) (firstn 3 evs ++ [EDrop]) in
  let twice := [RM.Gen.C16Ops.LSend; RM.Gen.C16Ops.LCreateQ; RM.Gen.C16Ops.LCreateQ; RM.Gen.C16Ops.LWriteLoopQ; RM.Gen.C16Ops.LReturnOk] in
  let w := RM.C16.FileRaii.jrun 7 twice (RM.C16.FileRaii.jstart twice ex_sfs ss) evs in
  RM.C16.FileRaii.j_l s = RM.C16.FileRaii.JDone (FF.QFetched 5) /\ cache (RM.C16.FileRaii.j_fs s) 7 = Some (File [1; 2; 3; 4; 5]) /\ tmp (RM.C16.FileRaii.j_fs s) = [] /\
  RM.C16.FileRaii.j_l d = RM.C16.FileRaii.JDropped /\ tmp (RM.C16.FileRaii.j_fs d) = [] /\
  RM.C16.FileRaii.j_l w = RM.C16.FileRaii.JDone (FF.QFetched 5) /\ cache (RM.C16.FileRaii.j_fs w) 7 = None /\ tmp (RM.C16.FileRaii.j_fs w) = [].
Proof. vm_compute. repeat split; reflexivity. Qed.

(* non-vacuity: server 3 answers 404, server 5 sends the body in two chunks: entry = exactly the bytes, tmp empty; dropped after the
   first chunk (the temp file then holds it): nothing left; a directory at the path: persist_noclobber fails, NotFound, the directory stays *)
Example c16_nonvacuous_file :
  let ss := [mkserver 3 [] ex_senv; mkserver 5 [] ex_senv] in
  let evs := [EHead 404; EHead 200; EChunk [1; 2; 3]; EChunk [4; 5]; EEof] in
  let s := FF.locate_file 7 ex_sfs [false] ss evs in
  let mid := FF.locate_file 7 ex_sfs [false] ss (firstn 3 evs) in
  let drp := FF.locate_file 7 ex_sfs [false] ss (firstn 3 evs ++ [EDrop]) in
  let fd := mkfs (fun q => if q =? 7 then Some Dir else None) (fun _ => true) [] in
  let sd := FF.locate_file 7 fd [] ss evs in
  FF.q_l s = FF.QDone (FF.QFetched 5) /\ cache (FF.q_fs s) 7 = Some (File [1; 2; 3; 4; 5]) /\ tmp (FF.q_fs s) = [] /\ FF.q_log s = [3; 5] /\
  tmp (FF.q_fs mid) = [(0, [1; 2; 3])] /\ cache (FF.q_fs mid) 7 = None /\
  FF.q_l drp = FF.QDropped /\ tmp (FF.q_fs drp) = [] /\ cache (FF.q_fs drp) 7 = None /\
  FF.q_l sd = FF.QDone FF.QNotFound /\ cache (FF.q_fs sd) 7 = Some Dir /\ tmp (FF.q_fs sd) = [].
Proof. vm_compute. repeat split; reflexivity. Qed.

(* The class of seeded/C16-7 stated on the model (C16/StaleFlag.v: the loop with a fast path `if consumed == 0 { continue; }`
   in front of the bookkeeping after parse_more, so that fully_consumed keeps the previous iteration's value).
   `MODULE a b c d\n` + `FILE 1 x` without a final newline, delivered as [the first line] [the rest]: that loop returns Ok
   after handing the callback — the cache writer — 15 of the 23 bytes, so a truncated file would be committed; the loop of the
   source (drive_stream) answers error 4, "unexpected EOF".  c16_stream_entry_only_from_whole_body is what excludes this
   for the loop the translators extract from the source, for every input and chunking. *)
Theorem c16_stale_flag_refuted :
  let SF := RM.C16.StaleFlag.stale_body in
  let script := RM.C16.StaleFlag.stale_script in
  C10.Stream.delivered script = Z.of_nat (length SF) /\ C10.Stream.fails script = false /\
  (exists q x, RM.C16.StaleFlag.iter_stale rle cllen C09.Grammar.pst recog_pst bump_pst lineno_pst 20
                 (C10.Stream.init_stream rle cllen C09.Grammar.pst init_pst (fst (RM.C16.StreamInst.split_c SF)) (snd (RM.C16.StreamInst.split_c SF)) script)
               = C10.Stream.SDone (C09.Model.ROk q) x /\ C09.Model.cbsum (C10.Stream.core x) = 15) /\
  (exists x, C10.Stream.drive_stream rle cllen C09.Grammar.pst init_pst recog_pst bump_pst lineno_pst
               (fst (RM.C16.StreamInst.split_c SF)) (snd (RM.C16.StreamInst.split_c SF)) script = Ret (C09.Model.RErr 4 1, x)).
Proof. exact RM.C16.StaleFlag.stale_flag_refuted. Qed.
Print Assumptions c16_stale_flag_refuted.
