(* C16/StreamProofs2.v — the streaming fetch on the concrete recogniser: the byte decomposition is faithful,
   the verdict is C10's parse_bytes, and a cache entry made by the streamed download is read back by the
   whole-file parse with the same table and the URL of the note. *)
From Coq Require Import Lia ZArith List Bool.
From RM Require Import Base.Word C08.Model C11.Model C09.Model C09.Grammar C09.Driver C09.ProofsBytes
  C10.Model C10.Stream C10.ProofsCache C16.Model C16.Proofs C16.Stream C16.StreamProofs C16.StreamInst.
Import ListNotations.
Open Scope Z_scope.

Lemma rle_len_to_rle : forall l, rle_len (to_rle l) = Z.of_nat (length l).
Proof.
  induction l as [|a l IH]; [reflexivity|].
  change (to_rle (a :: l)) with ((a, 1) :: to_rle l). cbn [rle_len length]. rewrite IH. lia.
Qed.

Lemma split_size : forall b cur ls tl, split_bytes b cur = (ls, tl) ->
  size rle cllen (map to_rle ls) + Z.of_nat (length tl) = Z.of_nat (length b) + Z.of_nat (length cur).
Proof.
  induction b as [|x b IH]; intros cur ls tl H; cbn [split_bytes] in H.
  - inversion H; subst. cbn [map size length]. rewrite rev_length. lia.
  - destruct (x =? 10).
    + destruct (split_bytes b []) as [ls' tl'] eqn:S. inversion H; subst.
      specialize (IH [] ls' tl S). cbn [map size length] in *. unfold cllen at 1.
      rewrite rle_len_to_rle, rev_length. lia.
    + specialize (IH (x :: cur) ls tl H). cbn [length] in *. lia.
Qed.

Lemma split_c_ok : forall b, split_ok rle cllen split_c b.
Proof.
  intros b. unfold split_ok, split_c. destruct (split_bytes b []) as [ls tl] eqn:S. cbn [fst snd].
  pose proof (split_size b [] ls tl S) as H. unfold input_len. cbn [length] in H. lia.
Qed.

(* the verdict of the streamed download (StreamProofs.verdict) is C10's whole-input verdict parse_bytes *)
Lemma verdict_parse_bytes : forall b,
  match verdict rle pst init_pst recog_pst lineno_pst table finish_c (fst (split_c b)) (snd (split_c b)) with
  | FOk t => parse_bytes b = Some (set_url t None, option_map rle_expand (t_url t))
  | _ => parse_bytes b = None
  end.
Proof.
  intros b. unfold verdict, parse_bytes, split_c, spec_c, finish_c.
  destruct (split_bytes b []) as [ls tl]. cbn [fst snd].
  destruct (spec rle pst init_pst recog_pst lineno_pst (map to_rle ls) (Z.of_nat (length tl))) as [q|c ln]; [|reflexivity].
  destruct (finish q); reflexivity.
Qed.

Definition short_bytes (b : bytes) : Prop := short_lines cllen (fst (split_c b)) (snd (split_c b)).

(* Download through the streaming parser under ANY chunking, then read the entry back with the whole-file
   parser (what a cache hit does): same table, and the URL of the note. *)
Lemma stream_then_rehit : forall p e u f b script t c,
  short_bytes b -> url_ok u -> delivered script = Z.of_nat (length b) ->
  snd (stream_fetch_c p e u f b script) = FOk t ->
  cache (fst (stream_fetch_c p e u f b script)) p = Some (File c) ->
  cache f p <> Some (File c) ->
  c = C16.Model.cached_form b u /\ parse_bytes c = Some (set_url t None, Some u).
Proof.
  intros p e u f b script t c Hsh Hu Hd Hr Hc Hnew. unfold stream_fetch_c in *.
  pose proof (stream_fetch_cases rle cllen pst init_pst recog_pst bump_pst lineno_pst table finish_c split_c p
                cllen_pos e u f b script (split_c_ok b) Hd) as H. cbv zeta in H.
  destruct H as [_ [_ H]]. rewrite Hr in H. destruct H as [Hfl [_ Hpost]].
  assert (Hcf : c = C16.Model.cached_form b u).
  { destruct Hpost as [H|[H|[H _]]]; rewrite H in Hc; [inversion Hc; reflexivity|contradiction|discriminate]. }
  split; [exact Hcf|].
  pose proof (stream_fetch_verdict rle cllen pst init_pst recog_pst bump_pst lineno_pst table finish_c split_c p
                cllen_pos e u f b script (split_c_ok b) Hd Hsh Hfl) as Hv.
  rewrite Hr in Hv. pose proof (verdict_parse_bytes b) as Hpb. rewrite <- Hv in Hpb.
  subst c. change (C16.Model.cached_form b u) with (C10.Model.cached_form b u).
  eapply cached_form_parse; [exact Hu|exact Hpb].
Qed.
