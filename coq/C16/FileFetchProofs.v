(* C16/FileFetchProofs.v — invariant of the fetch_lookup / locate_file machine (C16/FileFetch.v) over all event lists. *)
From Coq Require Import Lia.
From RM Require Import C16.Model C16.Proofs C16.FileFetch.
Open Scope Z_scope.

Section FileFetchProofs.
  Variable p : path.
  Notation qst := qst.
  Notation qstep := (qstep p).
  Notation qrun := (qrun p).
  Notation locate_file := (locate_file p).

  Definition QInv (f0 : fs) (evs : list event) (s : qst) : Prop :=
    match q_l s with
    | QRun rest cur QSend => cache_eq (q_fs s) f0 /\ tmp (q_fs s) = tmp f0
    | QRun rest cur (QBody n got) =>
        cache_eq (q_fs s) f0 /\ n = fresh (tmp f0) /\ tmp (q_fs s) = (n, got) :: tmp f0 /\
        exists pre code chunks, evs = pre ++ EHead code :: map EChunk chunks /\ code < 400 /\ got = concat chunks
    | QDropped => cache_eq (q_fs s) f0 /\ tmp (q_fs s) = tmp f0
    | QDone QNotFound => cache_eq (q_fs s) f0 /\ tmp (q_fs s) = tmp f0
    | QDone QLocal => False
    | QDone (QFetched _) =>
        tmp (q_fs s) = tmp f0 /\ (forall q, q <> p -> cache (q_fs s) q = cache f0 q) /\ cache f0 p = None /\
        exists pre code chunks post,
          evs = pre ++ EHead code :: map EChunk chunks ++ EEof :: post /\ code < 400 /\
          cache (q_fs s) p = Some (File (concat chunks))
    end.

  Lemma qinv_next : forall f0 evs f log rest,
    cache_eq f f0 -> tmp f = tmp f0 -> QInv f0 evs (qnext f log rest).
  Proof.
    intros f0 evs f log rest Hc Ht. unfold QInv, qnext. destruct rest as [|s r]; cbn [q_l q_fs]; split; assumption.
  Qed.

  Lemma qinv_step : forall f0 evs s e, QInv f0 evs s -> QInv f0 (evs ++ [e]) (qstep s e).
  Proof.
    intros f0 evs s e H. unfold QInv in H. unfold FileFetch.qstep.
    destruct (q_l s) as [rest cur ph|r|] eqn:Hl.
    - destruct ph as [|n got].
      + destruct H as [Hc Ht].
        assert (Hnext : QInv f0 (evs ++ [e]) (qnext (q_fs s) (q_log s) rest)) by (apply qinv_next; assumption).
        destruct e as [code| |bs| | |]; try exact Hnext.
        * destruct (400 <=? code) eqn:Hcode; [exact Hnext|].
          unfold create_cache_file.
          destruct (mk_ok (s_env cur)); [destruct (create_ok (s_env cur))|].
          -- unfold QInv; cbn [q_l q_fs add_tmp set_cdir tmp cache]. split; [exact Hc|].
             split; [rewrite Ht; reflexivity|]. split; [rewrite Ht; reflexivity|].
             exists evs, code, []. cbn [map concat]. split; [reflexivity|]. split; [apply Z.leb_gt in Hcode; exact Hcode|reflexivity].
          -- apply qinv_next; [exact Hc|exact Ht].
          -- apply qinv_next; [exact Hc|exact Ht].
        * unfold QInv; cbn [q_l q_fs]. split; assumption.
      + destruct H as [Hc [Hn [Ht [pre [code [chunks [Hev [Hcode Hgot]]]]]]]].
        assert (Hrm : tmp (rm_tmp (q_fs s) n) = tmp f0) by (cbn [rm_tmp tmp]; rewrite Ht, Hn; apply rm_fresh).
        assert (Hnext : QInv f0 (evs ++ [e]) (qnext (rm_tmp (q_fs s) n) (q_log s) rest)) by (apply qinv_next; [exact Hc|exact Hrm]).
        destruct e as [code'| |bs| | |]; try exact Hnext.
        * destruct (wr_ok (s_env cur) (Z.of_nat (length (got ++ bs)))); [|exact Hnext].
          unfold QInv; cbn [q_l q_fs]. split; [exact Hc|]. split; [exact Hn|]. split.
          -- cbn [write_tmp tmp]. rewrite Ht, Hn. apply write_fresh.
          -- exists pre, code, (chunks ++ [bs]). split; [|split; [exact Hcode|]].
             ++ rewrite Hev, map_app. cbn [map]. rewrite <- app_assoc. reflexivity.
             ++ rewrite concat_app. cbn [concat]. rewrite app_nil_r, Hgot. reflexivity.
        * destruct (cache (q_fs s) p) as [x|] eqn:Hp; [exact Hnext|].
          destruct (persist_ok (s_env cur)); [|exact Hnext].
          unfold QInv; cbn [q_l q_fs]. split; [cbn [rm_tmp set_cache tmp]; rewrite Ht, Hn; apply rm_fresh|].
          split; [intros q Hq; cbn [rm_tmp set_cache cache]; destruct (Z.eqb_spec q p); [contradiction|apply Hc]|].
          split; [rewrite <- Hc; exact Hp|].
          exists pre, code, chunks, []. split; [rewrite Hev, <- app_assoc; reflexivity|]. split; [exact Hcode|].
          cbn [rm_tmp set_cache cache]. rewrite Z.eqb_refl, Hgot. reflexivity.
        * unfold QInv; cbn [q_l q_fs]. split; [exact Hc|exact Hrm].
    - unfold QInv. rewrite Hl. destruct r as [|i|]; [exact H| |exact H].
      destruct H as [H1 [H2 [H3 [pre [code [chunks [post [Hev Hrest]]]]]]]].
      split; [exact H1|]. split; [exact H2|]. split; [exact H3|].
      exists pre, code, chunks, (post ++ [e]). split; [|exact Hrest].
      rewrite Hev. rewrite <- app_assoc. cbn [app]. rewrite <- app_assoc. reflexivity.
    - unfold QInv. rewrite Hl. exact H.
  Qed.

  Lemma qinv_run : forall f0 evs2 evs1 s, QInv f0 evs1 s -> QInv f0 (evs1 ++ evs2) (qrun s evs2).
  Proof.
    intros f0 evs2. induction evs2 as [|e evs2 IH]; intros evs1 s H.
    - rewrite app_nil_r. exact H.
    - cbn [FileFetch.qrun fold_left]. change (fold_left qstep evs2 (qstep s e)) with (qrun (qstep s e) evs2).
      replace (evs1 ++ e :: evs2) with ((evs1 ++ [e]) ++ evs2) by (rewrite <- app_assoc; reflexivity).
      apply IH. apply qinv_step. exact H.
  Qed.

  Lemma qinv_net : forall f0 ss evs, QInv f0 evs (qrun (qnet_start f0 ss) evs).
  Proof.
    intros f0 ss evs. change evs with ([] ++ evs) at 1. apply qinv_run.
    apply qinv_next; [intro q; reflexivity|reflexivity].
  Qed.

  (* ---------------------------------------------------------------- consequences, for the whole lookup *)
  Definition q_finished (s : qst) : Prop := match q_l s with QRun _ _ _ => False | _ => True end.
  Definition q_downloaded (s : qst) : Prop := match q_l s with QDone (QFetched _) => True | _ => False end.

  Lemma locate_file_cases : forall f locals ss evs,
    (locate_file f locals ss evs = mkq f [] (QDone QLocal)) \/
    (locate_file f locals ss evs = qrun (qnet_start f ss) evs /\
     match cache f p with Some (File _) => False | _ => True end).
  Proof.
    intros f locals ss evs. unfold FileFetch.locate_file.
    destruct (existsb (fun x => x) locals); cbn [orb]; [left; reflexivity|].
    destruct (cache f p) as [[c|]|]; [left; reflexivity|right; split; [reflexivity|exact I]|right; split; [reflexivity|exact I]].
  Qed.

  (* a regular file appears or changes anywhere in the cache ONLY at the path, only where NOTHING was before, only after a
     non-error head, the clean end of the body, and it is exactly the bytes of that body *)
  Lemma file_entry_only_whole_body : forall f locals ss evs q c,
    cache (q_fs (locate_file f locals ss evs)) q = Some (File c) -> cache f q <> Some (File c) ->
    q = p /\ cache f p = None /\
    exists pre code chunks post,
      evs = pre ++ EHead code :: map EChunk chunks ++ EEof :: post /\ code < 400 /\ c = concat chunks /\
      exists i, q_l (locate_file f locals ss evs) = QDone (QFetched i).
  Proof.
    intros f locals ss evs q c H1 H2.
    destruct (locate_file_cases f locals ss evs) as [E|[E _]]; rewrite E in *; [cbn [q_fs] in H1; contradiction|].
    pose proof (qinv_net f ss evs) as H. unfold QInv in H.
    destruct (q_l (qrun (qnet_start f ss) evs)) as [rest cur [|n got]|[|i|]|] eqn:Hl;
      try (exfalso; apply H2; rewrite <- (proj1 H); exact H1).
    - contradiction.
    - destruct H as [_ [Ho [Hn [pre [code [chunks [post [Hev [Hcode Hp]]]]]]]]].
      destruct (Z.eq_dec q p) as [->|Hq]; [|exfalso; apply H2; rewrite <- (Ho q Hq); exact H1].
      split; [reflexivity|]. split; [exact Hn|]. exists pre, code, chunks, post.
      split; [exact Hev|]. split; [exact Hcode|]. split; [rewrite Hp in H1; inversion H1; reflexivity|exists i; reflexivity].
  Qed.

  (* after every finished lookup — found locally, downloaded, every failure, dropped anywhere — tmp is as before;
     while pending it holds at most the one in-flight file, whose content is exactly what has been received *)
  Lemma file_no_stray_tmp : forall f locals ss evs,
    let s := locate_file f locals ss evs in
    (q_finished s -> tmp (q_fs s) = tmp f) /\
    (tmp (q_fs s) = tmp f \/ exists n got, tmp (q_fs s) = (n, got) :: tmp f /\ n = fresh (tmp f)).
  Proof.
    intros f locals ss evs. cbv zeta.
    destruct (locate_file_cases f locals ss evs) as [E|[E _]]; rewrite E; [cbn [q_fs]; split; [intros _; reflexivity|left; reflexivity]|].
    pose proof (qinv_net f ss evs) as H. unfold QInv, q_finished in *.
    destruct (q_l (qrun (qnet_start f ss) evs)) as [rest cur [|n got]|[|i|]|].
    - split; [contradiction|left; apply H].
    - destruct H as [_ [Hn [Ht _]]]. split; [contradiction|right; exists n, got; split; assumption].
    - contradiction.
    - split; [intros _|left]; apply H.
    - split; [intros _|left]; apply H.
    - split; [intros _|left]; apply H.
  Qed.

  (* every lookup that does not end in a download (failed at every server, found locally, dropped, still pending)
     leaves the WHOLE cache as it was *)
  Lemma file_failed_leaves_cache : forall f locals ss evs,
    ~ q_downloaded (locate_file f locals ss evs) -> cache_eq (q_fs (locate_file f locals ss evs)) f.
  Proof.
    intros f locals ss evs Hn.
    destruct (locate_file_cases f locals ss evs) as [E|[E _]]; rewrite E in *; [intro q; reflexivity|].
    pose proof (qinv_net f ss evs) as H. unfold QInv, q_downloaded in *.
    destruct (q_l (qrun (qnet_start f ss) evs)) as [rest cur [|n got]|[|i|]|]; try apply H; [contradiction|].
    exfalso. apply Hn. exact I.
  Qed.

  (* whatever is at the path before the lookup — a file of another process, a directory — is still there afterwards,
     for every event list: fetch_lookup never removes or replaces (persist_noclobber) *)
  Lemma file_existing_never_replaced : forall f locals ss evs x,
    cache f p = Some x -> cache (q_fs (locate_file f locals ss evs)) p = Some x.
  Proof.
    intros f locals ss evs x Hx.
    destruct (locate_file_cases f locals ss evs) as [E|[E _]]; rewrite E; [exact Hx|].
    pose proof (qinv_net f ss evs) as H. unfold QInv in H.
    destruct (q_l (qrun (qnet_start f ss) evs)) as [rest cur [|n got]|[|i|]|];
      try (rewrite (proj1 H); exact Hx).
    - contradiction.
    - destruct H as [_ [_ [Hnone _]]]. rewrite Hnone in Hx. discriminate.
  Qed.
End FileFetchProofs.
