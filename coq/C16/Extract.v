From Coq Require Extraction.
From Coq Require Import ExtrOcamlBasic.
From RM Require Import C16.Model C16.Shared C16.Driver.
Extraction "c16_model.ml" script_events init_fs mk_env lookup o_result o_log o_cache o_tmp o_cdir o_fs line_class o_pending o_cur take_events ev_drop P0 mkserver
  sh_init sh_start sh_net sh_begin sh_cache sh_ntmp sh_result sh_fs
  stream_run stream_lookup resp_of fs_cache fs_tmp fs_cdir
  file_lookup q_result q_olog q_ofs q_pending q_cur.
