(* C16/FileFetch.v — executable model of the OTHER download path of breakpad-symbols/src/http.rs: `fetch_lookup` (native binaries
   and extra debug-info files, `HttpSymbolSupplier::locate_file`), which shares create_cache_file, the tmp directory and the cache
   tree with fetch_symbol_file but differs in every other respect:
     - nothing is parsed and no note is appended: the entry is EXACTLY the downloaded bytes;
     - caching is not optional: an error of create_cache_file (`?`), of any `temp.write_all(&chunk)` (`?`) or of the final
       `temp.persist_noclobber(..)` (`?`) fails THIS server's fetch, and `locate_file_internal` goes on to the next URL;
     - an object that is already at the path is never removed: persist_noclobber fails (link(2): EEXIST) and the existing object stays;
     - the local lookup (`self.local.locate_file`: local paths, then the cache directory) answers when a REGULAR FILE is at the path
       (`fs::metadata(..).is_file()`); nothing is read, so a corrupt file is as good as any.
   The NamedTempFile is a local of fetch_lookup: dropped on every exit edge but a successful persist, and when the future is dropped.
   File system, environment, servers and events are those of C16/Model.v.  Definitions only (extracted). *)
From RM Require Import C16.Model.
Open Scope Z_scope.

Section FileFetch.
  Variable p : path.          (* cache path of the file: <cache>/<lookup.cache_rel> *)

  Inductive qphase :=
  | QSend                               (* awaiting client.get(url).send() *)
  | QBody (n : Z) (got : bytes).        (* in the `while let Some(chunk) = res.chunk().await` loop: our temp file, bytes written *)

  Inductive qresult :=
  | QLocal                              (* Ok((path, None)): a regular file is under a local path or already in the cache *)
  | QFetched (id : Z)                   (* Ok((final_cache_path, Some(url))): downloaded from server id *)
  | QNotFound.

  Inductive qlstate :=
  | QRun (rest : list server) (cur : server) (ph : qphase)
  | QDone (r : qresult)
  | QDropped.

  Record qst := mkq { q_fs : fs; q_log : list Z; q_l : qlstate }.

  (* `for url in &self.urls { if let Ok(..) = fetch_lookup(..).await { return .. } }` *)
  Definition qnext (f : fs) (log : list Z) (ss : list server) : qst :=
    match ss with
    | [] => mkq f log (QDone QNotFound)
    | s :: rest => mkq f (log ++ [s_id s]) (QRun rest s QSend)
    end.

  Definition qstep (s : qst) (ev : event) : qst :=
    match q_l s with
    | QDone _ | QDropped => s
    | QRun rest cur ph =>
        let f := q_fs s in
        let e := s_env cur in
        match ph, ev with
        | QSend, EDrop => mkq f (q_log s) QDropped
        | QSend, EHead code =>
            if 400 <=? code then qnext f (q_log s) rest
            else match create_cache_file p e f with            (* create_cache_file(tmp, &final_cache_path)? *)
                 | (f1, Some n) => mkq f1 (q_log s) (QRun rest cur (QBody n []))
                 | (f1, None) => qnext f1 (q_log s) rest
                 end
        | QSend, _ => qnext f (q_log s) rest
        | QBody n got, EDrop => mkq (rm_tmp f n) (q_log s) QDropped
        | QBody n got, EChunk bs =>
            let got' := got ++ bs in                           (* temp.write_all(&chunk[..])? *)
            if wr_ok e (Z.of_nat (length got')) then mkq (write_tmp f n got') (q_log s) (QRun rest cur (QBody n got'))
            else qnext (rm_tmp f n) (q_log s) rest
        | QBody n got, EEof =>                                 (* temp.persist_noclobber(&final_cache_path)? *)
            match cache f p with
            | None =>
                if persist_ok e then mkq (rm_tmp (set_cache f p (Some (File got))) n) (q_log s) (QDone (QFetched (s_id cur)))
                else qnext (rm_tmp f n) (q_log s) rest
            | Some _ => qnext (rm_tmp f n) (q_log s) rest
            end
        | QBody n got, _ => qnext (rm_tmp f n) (q_log s) rest      (* chunk() failed / protocol violation *)
        end
    end.

  Definition qrun (s : qst) (evs : list event) : qst := fold_left qstep evs s.
  Definition qnet_start (f : fs) (ss : list server) : qst := qnext f [] ss.

  (* locate_file_internal: local paths and the cache directory first ([locals]: is there a regular file under that local path) *)
  Definition locate_file (f : fs) (locals : list bool) (ss : list server) (evs : list event) : qst :=
    if existsb (fun x => x) locals || (match cache f p with Some (File _) => true | _ => false end)
    then mkq f [] (QDone QLocal)
    else qrun (qnet_start f ss) evs.
End FileFetch.
