(* C16/Proofs.v — invariant of the fetch state machine over all event lists. *)
From Coq Require Import Lia.
From RM Require Import C16.Model.
Open Scope Z_scope.

(* ---------------------------------------------------------------- temp names *)
Lemma fresh_gt : forall l e, In e l -> fst e < fresh l.
Proof.
  induction l as [|a l IH]; intros e H; cbn [In] in H; [contradiction|].
  change (fresh (a :: l)) with (Z.max (fst a + 1) (fresh l)).
  destruct H as [H|H]; [subst; lia|]. specialize (IH e H). lia.
Qed.

Lemma filter_all : forall (A : Type) (f : A -> bool) l, (forall e, In e l -> f e = true) -> filter f l = l.
Proof.
  induction l as [|a l IH]; intros H; cbn [filter]; [reflexivity|].
  rewrite (H a (or_introl eq_refl)). f_equal. apply IH. intros e He. apply H. right. exact He.
Qed.

Lemma rm_fresh : forall l c,
  filter (fun e : Z * bytes => negb (fst e =? fresh l)) ((fresh l, c) :: l) = l.
Proof.
  intros l c. cbn [filter fst]. rewrite Z.eqb_refl. cbn [negb].
  apply filter_all. intros e He. pose proof (fresh_gt l e He) as H.
  destruct (Z.eqb_spec (fst e) (fresh l)); [lia|reflexivity].
Qed.

Lemma write_fresh : forall l c c',
  map (fun e : Z * bytes => if fst e =? fresh l then (fresh l, c') else e) ((fresh l, c) :: l) = (fresh l, c') :: l.
Proof.
  intros l c c'. cbn [map fst]. rewrite Z.eqb_refl. f_equal.
  rewrite <- (map_id l) at 2. apply map_ext_in. intros e He. pose proof (fresh_gt l e He) as H.
  destruct (Z.eqb_spec (fst e) (fresh l)); [lia|reflexivity].
Qed.

Lemma ends_nl_sep_nil : forall b, ends_nl b = true -> sep b = [].
Proof. intros b H. unfold sep. rewrite H. reflexivity. Qed.

Section Inv.
  Variable T : Type.
  Variable parse : bytes -> option (T * option bytes).
  Variable early : bytes -> bool.
  Variable p : path.

  Notation step := (step T parse early p).
  Notation run := (run T parse early p).
  Notation next_server := (next_server T).
  Notation net_start := (net_start T).
  Notation locate := (locate T parse early p).
  Notation st := (st T).

  Definition cache_eq (f g : fs) : Prop := forall q, cache f q = cache g q.

  Definition tmp_inv (f0 f : fs) (tf : option Z) : Prop :=
    match tf with
    | None => tmp f = tmp f0
    | Some n => n = fresh (tmp f0) /\ exists c, tmp f = (n, c) :: tmp f0
    end.

  (* outcome of a successful download at the cache path *)
  Definition commit_post (f0 f : fs) (body u : bytes) : Prop :=
    cache f p = Some (File (cached_form body u)) \/
    cache f p = cache f0 p \/
    (cache f p = None /\ exists c, cache f0 p = Some (File c)).

  Definition Inv (f0 : fs) (ss : list server) (evs : list event) (s : st) : Prop :=
    match s_l s with
    | LRun rest cur PSend =>
        cache_eq (s_fs s) f0 /\ tmp (s_fs s) = tmp f0 /\ (exists dn, ss = dn ++ cur :: rest)
    | LRun rest cur (PBody tf got) =>
        cache_eq (s_fs s) f0 /\ tmp_inv f0 (s_fs s) tf /\ (exists dn, ss = dn ++ cur :: rest) /\
        exists pre code chunks,
          evs = pre ++ EHead code :: map EChunk chunks /\ code < 400 /\ got = concat chunks
    | LDropped => cache_eq (s_fs s) f0 /\ tmp (s_fs s) = tmp f0
    | LDone RNotFound => cache_eq (s_fs s) f0 /\ tmp (s_fs s) = tmp f0
    | LDone RParse => False
    | LDone (ROk t u) =>
        tmp (s_fs s) = tmp f0 /\ (forall q, q <> p -> cache (s_fs s) q = cache f0 q) /\
        exists pre cur code chunks post x,
          evs = pre ++ EHead code :: map EChunk chunks ++ EEof :: post /\ In cur ss /\ code < 400 /\
          parse (concat chunks) = Some (t, x) /\ u = Some (s_url cur) /\
          commit_post f0 (s_fs s) (concat chunks) (s_url cur)
    end.

  Lemma inv_next : forall f0 ss evs f log rest,
    cache_eq f f0 -> tmp f = tmp f0 -> (exists dn, ss = dn ++ rest) ->
    Inv f0 ss evs (next_server f log rest).
  Proof.
    intros f0 ss evs f log rest Hc Ht [dn Hd]. unfold Inv, Model.next_server.
    destruct rest as [|s r]; cbn [s_l s_fs]; [split; assumption|].
    split; [assumption|]. split; [assumption|]. exists dn. exact Hd.
  Qed.

  Lemma drop_temp_inv : forall f0 f tf,
    cache_eq f f0 -> tmp_inv f0 f tf ->
    cache_eq (drop_temp f tf) f0 /\ tmp (drop_temp f tf) = tmp f0.
  Proof.
    intros f0 f tf Hc Ht. destruct tf as [n|]; cbn [drop_temp tmp_inv] in *; [|split; assumption].
    destruct Ht as [Hn [c Hc']]. split; [exact Hc|].
    cbn [rm_tmp tmp]. rewrite Hc', Hn. apply rm_fresh.
  Qed.

  Lemma rest_shift : forall (ss dn : list server) cur rest,
    ss = dn ++ cur :: rest -> exists dn', ss = dn' ++ rest.
  Proof. intros ss dn cur rest H. exists (dn ++ [cur]). rewrite <- app_assoc. exact H. Qed.

  Lemma commit_ok : forall e f0 f n c0 body u,
    cache_eq f f0 -> n = fresh (tmp f0) -> tmp f = (n, c0) :: tmp f0 ->
    let f' := commit_cache_file p e f n body u in
    tmp f' = tmp f0 /\ (forall q, q <> p -> cache f' q = cache f0 q) /\ commit_post f0 f' body u.
  Proof.
    intros e f0 f n c0 body u Hc Hn Ht.
    assert (Hrm : forall g, tmp g = tmp f -> tmp (rm_tmp g n) = tmp f0).
    { intros g Hg. cbn [rm_tmp tmp]. rewrite Hg, Ht, Hn. apply rm_fresh. }
    assert (Hsame : forall g, tmp g = tmp f -> cache_eq g f0 ->
              tmp (rm_tmp g n) = tmp f0 /\ (forall q, q <> p -> cache (rm_tmp g n) q = cache f0 q) /\
              commit_post f0 (rm_tmp g n) body u).
    { intros g Hg Hcg. split; [apply Hrm; exact Hg|]. split; [intros q _; apply Hcg|].
      right. left. apply Hcg. }
    cbv zeta. unfold commit_cache_file.
    destruct (negb (ends_nl body) && negb (wr_ok e (Z.of_nat (length (body ++ sep body))))); [apply Hsame; [reflexivity|exact Hc]|].
    destruct (negb (wr_ok e (Z.of_nat (length (cached_form body u))))); [apply Hsame; [reflexivity|exact Hc]|].
    destruct (cache f p) as [[c1|]|] eqn:Hp.
    - (* existing regular file *)
      destruct (rm_ok e); [|apply Hsame; [reflexivity|exact Hc]].
      destruct (persist_ok e).
      + split; [apply Hrm; reflexivity|]. split.
        * intros q Hq. cbn [rm_tmp set_cache cache]. destruct (Z.eqb_spec q p); [contradiction|]. apply Hc.
        * left. cbn [rm_tmp set_cache cache]. rewrite Z.eqb_refl. reflexivity.
      + split; [apply Hrm; reflexivity|]. split.
        * intros q Hq. cbn [rm_tmp set_cache cache]. destruct (Z.eqb_spec q p); [contradiction|]. apply Hc.
        * right. right. split; [cbn [rm_tmp set_cache cache]; rewrite Z.eqb_refl; reflexivity|].
          exists c1. rewrite <- Hc. exact Hp.
    - apply Hsame; [reflexivity|exact Hc].
    - destruct (persist_ok e); [|apply Hsame; [reflexivity|exact Hc]].
      split; [apply Hrm; reflexivity|]. split.
      + intros q Hq. cbn [rm_tmp set_cache cache]. destruct (Z.eqb_spec q p); [contradiction|]. apply Hc.
      + left. cbn [rm_tmp set_cache cache]. rewrite Z.eqb_refl. reflexivity.
  Qed.

  Lemma inv_step : forall f0 ss evs s e, Inv f0 ss evs s -> Inv f0 ss (evs ++ [e]) (step s e).
  Proof.
    intros f0 ss evs s e H. unfold Inv in H. unfold Model.step.
    destruct (s_l s) as [rest cur ph|r|] eqn:Hl.
    - destruct ph as [|tf got].
      + (* PSend *)
        destruct H as [Hc [Ht [dn Hd]]].
        assert (Hnext : Inv f0 ss (evs ++ [e]) (next_server (s_fs s) (s_log s) rest)).
        { apply inv_next; [exact Hc|exact Ht|]. eapply rest_shift; exact Hd. }
        destruct e as [code| |bs| | |]; try exact Hnext.
        * destruct (400 <=? code) eqn:Hcode; [exact Hnext|].
          unfold create_cache_file.
          destruct (mk_ok (s_env cur)); [destruct (create_ok (s_env cur))|];
            unfold Inv; cbn [s_l s_fs].
          -- split; [exact Hc|]. split.
             ++ cbn [tmp_inv add_tmp set_cdir tmp]. rewrite Ht. split; [reflexivity|]. exists []. reflexivity.
             ++ split; [exists dn; exact Hd|]. exists evs, code, []. cbn [map concat].
                split; [reflexivity|]. split; [apply Z.leb_gt in Hcode; exact Hcode|reflexivity].
          -- split; [exact Hc|]. split; [exact Ht|].
             split; [exists dn; exact Hd|]. exists evs, code, []. cbn [map concat].
             split; [reflexivity|]. split; [apply Z.leb_gt in Hcode; exact Hcode|reflexivity].
          -- split; [exact Hc|]. split; [exact Ht|].
             split; [exists dn; exact Hd|]. exists evs, code, []. cbn [map concat].
             split; [reflexivity|]. split; [apply Z.leb_gt in Hcode; exact Hcode|reflexivity].
        * unfold Inv. cbn [s_l s_fs]. split; assumption.
      + (* PBody *)
        destruct H as [Hc [Ht [[dn Hd] [pre [code [chunks [Hev [Hcode Hgot]]]]]]]].
        destruct (drop_temp_inv f0 (s_fs s) tf Hc Ht) as [Hdc Hdt].
        assert (Hnext : Inv f0 ss (evs ++ [e]) (next_server (drop_temp (s_fs s) tf) (s_log s) rest)).
        { apply inv_next; [exact Hdc|exact Hdt|]. eapply rest_shift; exact Hd. }
        destruct e as [code'| |bs| | |]; try exact Hnext.
        * (* chunk *)
          destruct (early (got ++ bs)); [exact Hnext|].
          assert (Hev' : evs ++ [EChunk bs] = pre ++ EHead code :: map EChunk (chunks ++ [bs])).
          { rewrite Hev, map_app. cbn [map]. rewrite <- app_assoc. reflexivity. }
          assert (Hgot' : got ++ bs = concat (chunks ++ [bs])).
          { rewrite concat_app. cbn [concat]. rewrite app_nil_r, Hgot. reflexivity. }
          unfold tee_write. destruct tf as [n|].
          -- cbn [tmp_inv] in Ht. destruct Ht as [Hn [c Htc]].
             destruct (wr_ok (s_env cur) (Z.of_nat (length (got ++ bs)))); unfold Inv; cbn [s_l s_fs].
             ++ split; [exact Hc|]. split.
                ** cbn [tmp_inv write_tmp tmp]. split; [exact Hn|]. exists (got ++ bs).
                   rewrite Htc, Hn. apply write_fresh.
                ** split; [exists dn; exact Hd|]. exists pre, code, (chunks ++ [bs]). auto.
             ++ split; [exact Hc|]. split.
                ** cbn [tmp_inv rm_tmp tmp]. rewrite Htc, Hn. apply rm_fresh.
                ** split; [exists dn; exact Hd|]. exists pre, code, (chunks ++ [bs]). auto.
          -- unfold Inv; cbn [s_l s_fs]. split; [exact Hc|]. split; [exact Ht|].
             split; [exists dn; exact Hd|]. exists pre, code, (chunks ++ [bs]). auto.
        * (* eof *)
          destruct (parse got) as [[t x]|] eqn:Hp; [|exact Hnext].
          assert (Hev' : evs ++ [EEof] = pre ++ EHead code :: map EChunk chunks ++ EEof :: []).
          { rewrite Hev. rewrite <- app_assoc. reflexivity. }
          assert (Hin : In cur ss). { rewrite Hd. apply in_or_app. right. left. reflexivity. }
          unfold Inv; cbn [s_l s_fs]. destruct tf as [n|].
          -- cbn [tmp_inv] in Ht. destruct Ht as [Hn [c Htc]].
             destruct (commit_ok (s_env cur) f0 (s_fs s) n c got (s_url cur) Hc Hn Htc) as [H1 [H2 H3]].
             split; [exact H1|]. split; [exact H2|].
             exists pre, cur, code, chunks, [], x. rewrite <- Hgot.
             split; [exact Hev'|]. split; [exact Hin|]. split; [exact Hcode|]. split; [exact Hp|].
             split; [reflexivity|exact H3].
          -- cbn [tmp_inv] in Ht. split; [exact Ht|]. split; [intros q _; apply Hc|].
             exists pre, cur, code, chunks, [], x. rewrite <- Hgot.
             split; [exact Hev'|]. split; [exact Hin|]. split; [exact Hcode|]. split; [exact Hp|].
             split; [reflexivity|]. right. left. apply Hc.
        * (* drop *)
          unfold Inv; cbn [s_l s_fs]. split; assumption.
    - (* done: absorbing *)
      unfold Inv. rewrite Hl. destruct r as [t u| |]; try exact H.
      destruct H as [H1 [H2 [pre [cur [code [chunks [post [x [Hev Hrest]]]]]]]]].
      split; [exact H1|]. split; [exact H2|].
      exists pre, cur, code, chunks, (post ++ [e]), x. split; [|exact Hrest].
      rewrite Hev. rewrite <- app_assoc. cbn [app]. rewrite <- app_assoc. reflexivity.
    - unfold Inv. rewrite Hl. exact H.
  Qed.

  Lemma inv_run : forall f0 ss evs2 evs1 s, Inv f0 ss evs1 s -> Inv f0 ss (evs1 ++ evs2) (run s evs2).
  Proof.
    intros f0 ss evs2. induction evs2 as [|e evs2 IH]; intros evs1 s H.
    - rewrite app_nil_r. exact H.
    - cbn [Model.run fold_left]. change (fold_left step evs2 (step s e)) with (run (step s e) evs2).
      replace (evs1 ++ e :: evs2) with ((evs1 ++ [e]) ++ evs2) by (rewrite <- app_assoc; reflexivity).
      apply IH. apply inv_step. exact H.
  Qed.

  Lemma inv_net : forall f0 ss evs, Inv f0 ss evs (run (net_start f0 ss) evs).
  Proof.
    intros f0 ss evs. change evs with ([] ++ evs) at 1. apply inv_run.
    apply inv_next; [intro q; reflexivity|reflexivity|exists []; reflexivity].
  Qed.

  (* ---------------------------------------------------------------- consequences *)
  Definition finished (s : st) : Prop :=
    match s_l s with LRun _ _ _ => False | _ => True end.
  Definition succeeded (s : st) : Prop :=
    match s_l s with LDone (ROk _ _) => True | _ => False end.

  Lemma net_failed_cache_unchanged : forall f0 ss evs,
    let s := run (net_start f0 ss) evs in
    ~ succeeded s -> forall q, cache (s_fs s) q = cache f0 q.
  Proof.
    intros f0 ss evs s Hns q. pose proof (inv_net f0 ss evs) as H. fold s in H.
    unfold Inv in H. unfold succeeded in Hns.
    destruct (s_l s) as [rest cur [|tf got]|[t u| |]|]; try (destruct H as [Hc _]; apply Hc).
    - exfalso. apply Hns. exact I.
    - contradiction.
  Qed.

  Lemma net_no_stray_tmp : forall f0 ss evs,
    let s := run (net_start f0 ss) evs in
    (finished s -> tmp (s_fs s) = tmp f0) /\
    (tmp (s_fs s) = tmp f0 \/ exists c, tmp (s_fs s) = (fresh (tmp f0), c) :: tmp f0).
  Proof.
    intros f0 ss evs s. pose proof (inv_net f0 ss evs) as H. fold s in H.
    unfold Inv in H. unfold finished.
    destruct (s_l s) as [rest cur [|tf got]|[t u| |]|].
    - destruct H as [_ [Ht _]]. split; [contradiction|left; exact Ht].
    - destruct H as [_ [Ht _]]. split; [contradiction|]. destruct tf as [n|]; cbn [tmp_inv] in Ht.
      + destruct Ht as [Hn [c Hc]]. right. exists c. rewrite Hc, Hn. reflexivity.
      + left. exact Ht.
    - destruct H as [Ht _]. split; [intros _; exact Ht|left; exact Ht].
    - destruct H as [_ Ht]. split; [intros _; exact Ht|left; exact Ht].
    - contradiction.
    - destruct H as [_ Ht]. split; [intros _; exact Ht|left; exact Ht].
  Qed.

  Lemma net_success_shape : forall f0 ss evs t u,
    let s := run (net_start f0 ss) evs in
    s_l s = LDone (ROk t u) ->
    (forall q, q <> p -> cache (s_fs s) q = cache f0 q) /\
    exists pre cur code chunks post x,
      evs = pre ++ EHead code :: map EChunk chunks ++ EEof :: post /\ In cur ss /\ code < 400 /\
      parse (concat chunks) = Some (t, x) /\ u = Some (s_url cur) /\
      commit_post f0 (s_fs s) (concat chunks) (s_url cur).
  Proof.
    intros f0 ss evs t u s Hs. pose proof (inv_net f0 ss evs) as H. fold s in H.
    unfold Inv in H. rewrite Hs in H. destruct H as [_ [H2 H3]]. split; [exact H2|exact H3].
  Qed.

  Lemma net_commit_only_after_ok : forall f0 ss evs q c,
    let s := run (net_start f0 ss) evs in
    cache (s_fs s) q = Some (File c) -> cache f0 q <> Some (File c) ->
    q = p /\
    exists pre cur code chunks post t x,
      evs = pre ++ EHead code :: map EChunk chunks ++ EEof :: post /\ In cur ss /\ code < 400 /\
      parse (concat chunks) = Some (t, x) /\
      s_l s = LDone (ROk t (Some (s_url cur))) /\
      c = cached_form (concat chunks) (s_url cur).
  Proof.
    intros f0 ss evs q c s Hq Hne.
    destruct (s_l s) as [rest cur ph|[t u| |]|] eqn:Hl;
      try (exfalso; apply Hne; rewrite <- Hq; symmetry;
           apply (net_failed_cache_unchanged f0 ss evs); fold s; unfold succeeded; rewrite Hl; tauto).
    destruct (net_success_shape f0 ss evs t u Hl) as [Hoth [pre [cur [code [chunks [post [x [Hev [Hin [Hcode [Hp [Hu Hcp]]]]]]]]]]]].
    fold s in Hoth, Hcp.
    destruct (Z.eq_dec q p) as [->|Hqp]; [|exfalso; apply Hne; rewrite <- Hq; symmetry; apply Hoth; exact Hqp].
    split; [reflexivity|]. exists pre, cur, code, chunks, post, t, x.
    split; [exact Hev|]. split; [exact Hin|]. split; [exact Hcode|]. split; [exact Hp|].
    split; [rewrite Hu; reflexivity|].
    destruct Hcp as [H1|[H1|[H1 _]]].
    - rewrite H1 in Hq. inversion Hq. reflexivity.
    - exfalso. apply Hne. rewrite <- H1. exact Hq.
    - rewrite H1 in Hq. discriminate.
  Qed.

  (* ---------------------------------------------------------------- locate_symbols *)
  Lemma run_done : forall evs f log r, run (mkst f log (LDone r)) evs = mkst f log (LDone r).
  Proof. induction evs as [|e evs IH]; intros; [reflexivity|]. cbn [Model.run fold_left]. apply IH. Qed.

  Lemma locate_local_hit : forall f locals race ss evs c,
    first_file (locals ++ [cache_file f p]) = Some c ->
    let s := locate f locals race ss evs in
    s_fs s = f /\ s_log s = [] /\
    s_l s = LDone (match parse c with Some (t, u) => ROk t u | None => RParse end).
  Proof.
    intros f locals race ss evs c Hc. unfold Model.locate. rewrite Hc.
    destruct (parse c) as [[t u]|]; cbn [s_fs s_log s_l]; auto.
  Qed.

  Lemma first_file_none_last : forall l x, first_file (l ++ [x]) = None -> x = None /\ first_file l = None.
  Proof.
    induction l as [|[a|] l IH]; intros x H; cbn [app first_file] in *.
    - destruct x; [discriminate|auto].
    - discriminate.
    - apply IH. exact H.
  Qed.
  Lemma first_file_app_none : forall l x, first_file l = None -> first_file (l ++ [x]) = x.
  Proof.
    induction l as [|[a|] l IH]; intros x H; cbn [app first_file] in *; [destruct x; reflexivity|discriminate|].
    apply IH. exact H.
  Qed.
  Lemma first_file_app_some : forall l x c, first_file l = Some c -> first_file (l ++ [x]) = Some c.
  Proof.
    induction l as [|[a|] l IH]; intros x c H; cbn [app first_file] in *; [discriminate|exact H|].
    apply IH. exact H.
  Qed.

  (* the parser contract the cache-hit theorem needs: terminating the last line (if it is
     unterminated) and appending an INFO URL record changes nothing but the url *)
  Definition trailer_contract : Prop :=
    forall b t x u, parse b = Some (t, x) -> parse (cached_form b u) = Some (t, Some u).

  (* the contract restricted to the URLs of the servers that are asked *)
  Definition trailer_contract_on (ss : list server) : Prop :=
    forall b t x cur, In cur ss -> parse b = Some (t, x) ->
      parse (cached_form b (s_url cur)) = Some (t, Some (s_url cur)).

  Lemma rehit_same_on : forall f0 locals ss evs t u ss2 evs2,
    trailer_contract_on ss ->
    let s1 := locate f0 locals None ss evs in
    s_l s1 = LDone (ROk t u) ->
    (exists c, cache (s_fs s1) p = Some (File c)) ->
    let s2 := locate (s_fs s1) locals None ss2 evs2 in
    s_l s2 = LDone (ROk t u) /\ s_log s2 = [] /\ s_fs s2 = s_fs s1.
  Proof.
    intros f0 locals ss evs t u ss2 evs2 Hct s1 Hr [c Hc] s2.
    destruct (first_file (locals ++ [cache_file f0 p])) as [c0|] eqn:Hff.
    - (* the first lookup was a local / cache hit *)
      destruct (locate_local_hit f0 locals None ss evs c0 Hff) as [Hf [_ Hl]]. fold s1 in Hf, Hl.
      assert (Hff2 : first_file (locals ++ [cache_file (s_fs s1) p]) = Some c0) by (rewrite Hf; exact Hff).
      destruct (locate_local_hit (s_fs s1) locals None ss2 evs2 c0 Hff2) as [Hf2 [Hlog2 Hl2]]. fold s2 in Hf2, Hlog2, Hl2.
      rewrite Hl2, <- Hl, Hr. auto.
    - (* it went to the network *)
      destruct (first_file_none_last _ _ Hff) as [Hcf Hloc].
      assert (Hs1 : s1 = run (net_start f0 ss) evs).
      { unfold s1, Model.locate. rewrite Hff. destruct ss; reflexivity. }
      rewrite Hs1 in Hr, Hc.
      destruct (net_commit_only_after_ok f0 ss evs p c Hc) as [_ [pre [cur [code [chunks [post [t' [x [_ [Hin [_ [Hp [Hl' Hcont]]]]]]]]]]]]].
      { intro Hx. unfold cache_file in Hcf. rewrite Hx in Hcf. discriminate. }
      rewrite Hr in Hl'. inversion Hl'; subst t' u.
      assert (Hff2 : first_file (locals ++ [cache_file (s_fs s1) p]) = Some c).
      { rewrite first_file_app_none by exact Hloc. unfold cache_file. rewrite Hs1, Hc. reflexivity. }
      destruct (locate_local_hit (s_fs s1) locals None ss2 evs2 c Hff2) as [Hf2 [Hlog2 Hl2]]. fold s2 in Hf2, Hlog2, Hl2.
      rewrite Hl2, Hcont, (Hct _ _ _ cur Hin Hp). auto.
  Qed.

  Lemma rehit_same : trailer_contract ->
    forall f0 locals ss evs t u ss2 evs2,
    let s1 := locate f0 locals None ss evs in
    s_l s1 = LDone (ROk t u) ->
    (exists c, cache (s_fs s1) p = Some (File c)) ->
    let s2 := locate (s_fs s1) locals None ss2 evs2 in
    s_l s2 = LDone (ROk t u) /\ s_log s2 = [] /\ s_fs s2 = s_fs s1.
  Proof.
    intros Hct f0 locals ss evs t u ss2 evs2. apply rehit_same_on.
    intros b t0 x cur _ Hp. apply (Hct b t0 x (s_url cur) Hp).
  Qed.

  (* only NotFound cascades: a file that exists locally or in the cache decides the lookup,
     no request is made, nothing is written *)
  Lemma locate_no_cascade : forall f locals race ss evs c,
    first_file (locals ++ [cache_file f p]) = Some c ->
    let s := locate f locals race ss evs in
    s_log s = [] /\ s_fs s = f /\ (parse c = None -> s_l s = LDone RParse).
  Proof.
    intros f locals race ss evs c Hc s.
    destruct (locate_local_hit f locals race ss evs c Hc) as [Hf [Hlog Hl]]. fold s in Hf, Hlog, Hl.
    split; [exact Hlog|]. split; [exact Hf|]. intro Hp. rewrite Hl, Hp. reflexivity.
  Qed.


  Lemma net_content_nl : forall f0 ss evs q c,
    let s := run (net_start f0 ss) evs in
    cache (s_fs s) q = Some (File c) -> cache f0 q <> Some (File c) ->
    exists pre cur code chunks post,
      evs = pre ++ EHead code :: map EChunk chunks ++ EEof :: post /\ In cur ss /\
      (ends_nl (concat chunks) = true -> c = concat chunks ++ trailer (s_url cur)) /\
      (ends_nl (concat chunks) = false -> c = concat chunks ++ [NL] ++ trailer (s_url cur)).
  Proof.
    intros f0 ss evs q c s Hq Hne.
    destruct (net_commit_only_after_ok f0 ss evs q c Hq Hne) as [_ [pre [cur [code [chunks [post [t [x [Hev [Hin [_ [_ [_ Hc]]]]]]]]]]]]].
    exists pre, cur, code, chunks, post. split; [exact Hev|]. split; [exact Hin|].
    unfold cached_form, sep in Hc. split; intro He; rewrite He in Hc; exact Hc.
  Qed.

  (* whole lookups without interference from another process *)
  Lemma locate_split : forall f locals ss evs,
    (exists c, first_file (locals ++ [cache_file f p]) = Some c /\
               s_fs (locate f locals None ss evs) = f /\ s_log (locate f locals None ss evs) = [] /\
               finished (locate f locals None ss evs)) \/
    (first_file (locals ++ [cache_file f p]) = None /\ locate f locals None ss evs = run (net_start f ss) evs).
  Proof.
    intros f locals ss evs. destruct (first_file (locals ++ [cache_file f p])) as [c|] eqn:Hff.
    - left. exists c. destruct (locate_local_hit f locals None ss evs c Hff) as [Hf [Hlog Hl]].
      split; [reflexivity|]. split; [exact Hf|]. split; [exact Hlog|]. unfold finished. rewrite Hl. exact I.
    - right. split; [reflexivity|]. unfold Model.locate. rewrite Hff. reflexivity.
  Qed.

  Lemma locate_no_stray_tmp : forall f locals ss evs,
    let s := locate f locals None ss evs in
    (finished s -> tmp (s_fs s) = tmp f) /\
    (tmp (s_fs s) = tmp f \/ exists c, tmp (s_fs s) = (fresh (tmp f), c) :: tmp f).
  Proof.
    intros f locals ss evs s. unfold s.
    destruct (locate_split f locals ss evs) as [[c [_ [Hf _]]]|[_ Hn]].
    - rewrite Hf. split; [reflexivity|left; reflexivity].
    - rewrite Hn. apply net_no_stray_tmp.
  Qed.

  Lemma locate_failed_unchanged : forall f locals ss evs,
    let s := locate f locals None ss evs in
    ~ succeeded s -> forall q, cache (s_fs s) q = cache f q.
  Proof.
    intros f locals ss evs s. unfold s.
    destruct (locate_split f locals ss evs) as [[c [_ [Hf _]]]|[_ Hn]].
    - intros _ q. rewrite Hf. reflexivity.
    - rewrite Hn. apply net_failed_cache_unchanged.
  Qed.

  Lemma locate_entry_only_after_ok : forall f locals ss evs q c,
    let s := locate f locals None ss evs in
    cache (s_fs s) q = Some (File c) -> cache f q <> Some (File c) ->
    q = p /\
    exists pre cur code chunks post t x,
      evs = pre ++ EHead code :: map EChunk chunks ++ EEof :: post /\ In cur ss /\ code < 400 /\
      parse (concat chunks) = Some (t, x) /\
      s_l s = LDone (ROk t (Some (s_url cur))) /\
      c = cached_form (concat chunks) (s_url cur).
  Proof.
    intros f locals ss evs q c s. unfold s.
    destruct (locate_split f locals ss evs) as [[c0 [_ [Hf _]]]|[_ Hn]].
    - rewrite Hf. intros H1 H2. contradiction.
    - rewrite Hn. apply net_commit_only_after_ok.
  Qed.

  (* requests: to the servers in order, one each, none after the lookup has finished *)
  Definition LogInv (ss : list server) (s : st) : Prop :=
    match s_l s with
    | LRun rest cur _ => exists dn, ss = dn ++ cur :: rest /\ s_log s = map s_id (dn ++ [cur])
    | _ => exists dn rest, ss = dn ++ rest /\ s_log s = map s_id dn
    end.

  Lemma loginv_next : forall ss f dn rest,
    ss = dn ++ rest -> LogInv ss (next_server f (map s_id dn) rest).
  Proof.
    intros ss f dn rest H. unfold LogInv, next_server. destruct rest as [|s r]; cbn [s_l s_log].
    - exists dn, []. split; [exact H|reflexivity].
    - exists dn. split; [exact H|]. rewrite map_app. reflexivity.
  Qed.

  Lemma loginv_step : forall ss s e, LogInv ss s -> LogInv ss (step s e).
  Proof.
    intros ss s e H. unfold LogInv in H. unfold Model.step.
    destruct (s_l s) as [rest cur ph|r|] eqn:Hl; [|unfold LogInv; rewrite Hl; exact H|unfold LogInv; rewrite Hl; exact H].
    destruct H as [dn [Hss Hlog]].
    assert (Hnext : forall f, LogInv ss (next_server f (s_log s) rest)).
    { intro f. rewrite Hlog. apply loginv_next. rewrite <- app_assoc. exact Hss. }
    assert (Hfin : forall f l, l = LDone (T:=T) RNotFound \/ l = LDropped \/ (exists t u, l = LDone (ROk t u)) ->
                   LogInv ss (mkst f (s_log s) l)).
    { intros f l Hl'. unfold LogInv. cbn [s_l s_log].
      assert (E : exists dn0 rest0, ss = dn0 ++ rest0 /\ s_log s = map s_id dn0).
      { exists (dn ++ [cur]), rest. split; [rewrite <- app_assoc; exact Hss|exact Hlog]. }
      destruct Hl' as [->|[->|[t [u ->]]]]; exact E. }
    assert (Hsame : forall f ph', LogInv ss (mkst f (s_log s) (LRun rest cur ph'))).
    { intros f ph'. unfold LogInv. cbn [s_l s_log]. exists dn. split; [exact Hss|exact Hlog]. }
    destruct ph as [|tf got]; destruct e as [code| |bs| | |]; try apply Hnext.
    - destruct (400 <=? code); [apply Hnext|]. destruct (create_cache_file p (s_env cur) (s_fs s)) as [f1 tf]. apply Hsame.
    - apply Hfin. right. left. reflexivity.
    - destruct (early (got ++ bs)); [apply Hnext|].
      destruct (tee_write (s_env cur) (s_fs s) tf (got ++ bs)) as [f1 tf1]. apply Hsame.
    - destruct (parse got) as [[t x]|]; [|apply Hnext]. apply Hfin. right. right. exists t, (Some (s_url cur)). reflexivity.
    - apply Hfin. right. left. reflexivity.
  Qed.

  Lemma loginv_run : forall ss evs s, LogInv ss s -> LogInv ss (run s evs).
  Proof.
    intros ss evs. induction evs as [|e evs IH]; intros s H; [exact H|].
    cbn [Model.run fold_left]. apply IH. apply loginv_step. exact H.
  Qed.

  Lemma net_requests_prefix : forall f ss evs,
    let s := run (net_start f ss) evs in
    exists dn rest, ss = dn ++ rest /\ s_log s = map s_id dn.
  Proof.
    intros f ss evs s. assert (H : LogInv ss s).
    { apply loginv_run. unfold Model.net_start. apply (loginv_next ss f [] ss). reflexivity. }
    unfold LogInv in H. destruct (s_l s) as [rest cur ph|r|].
    - destruct H as [dn [H1 H2]]. exists (dn ++ [cur]), rest. split; [rewrite <- app_assoc; exact H1|exact H2].
    - exact H.
    - exact H.
  Qed.
End Inv.
