(* C16/StreamRaiiProofs.v — the ownership semantics of the streaming download (C16/StreamRaii.v):
   (1) it IS C16/Stream.v: own_fetch = stream_fetch, own_dropped = stream_fetch_dropped, fst own_inflight = stream_fetch_inflight
       (so the hand-placed [drop_temp]s of Stream.v and its after-the-fact reconstruction of the tmp directory are what the
       ownership rules and the eager writes produce);
   (2) proved on the ownership machine itself, by an invariant over the loop: whatever the frame owns is the ONE file in tmp
       that was not there before, so leaving the frame — anywhere — restores tmp; the cache is never touched before the commit. *)
From Coq Require Import Lia ZArith List Bool.
From RM Require Import Base.Word C09.Model C10.Model C10.Stream C16.Model C16.Proofs C16.Stream C16.StreamRaii.
Import ListNotations.
Open Scope Z_scope.

Lemma write_write : forall f n x y, write_tmp (write_tmp f n x) n y = write_tmp f n y.
Proof.
  intros f n x y. unfold write_tmp. cbn [cache cdir tmp]. f_equal. rewrite map_map. apply map_ext. intros a.
  destruct (Z.eqb_spec (fst a) n) as [E|E]; cbn [fst]; [rewrite Z.eqb_refl; reflexivity|].
  destruct (Z.eqb_spec (fst a) n); [contradiction|reflexivity].
Qed.

Lemma rm_write : forall f n x, rm_tmp (write_tmp f n x) n = rm_tmp f n.
Proof.
  intros f n x. unfold rm_tmp, write_tmp. cbn [cache cdir tmp]. f_equal.
  induction (tmp f) as [|a l IH]; cbn [map filter]; [reflexivity|].
  destruct (Z.eqb_spec (fst a) n) as [E|E]; cbn [fst].
  - rewrite Z.eqb_refl. cbn [negb]. exact IH.
  - destruct (Z.eqb_spec (fst a) n); [contradiction|]. cbn [negb]. f_equal. exact IH.
Qed.

Section StreamRaiiProofs.
  Variable L : Type.
  Variable llen : L -> Z.
  Variable PS : Type.
  Variable init_ps : PS.
  Variable recog : PS -> L -> PS + Z.
  Variable bump : PS -> PS.
  Variable lineno : PS -> Z.
  Variable T : Type.
  Variable finish : PS -> option T.
  Variable split : bytes -> list L * Z.
  Variable p : path.

  Notation sst := (@sst L PS).
  Notation sres := (@sres L PS).
  Notation step_stream := (step_stream L llen PS recog bump lineno).
  Notation iter_fetch := (iter_fetch L llen PS recog bump lineno).
  Notation steps_fetch := (steps_fetch L llen PS recog bump lineno).
  Notation tee_step := (tee_step L llen PS bump).
  Notation own_tee_step := (own_tee_step L llen PS bump).
  Notation own_iter := (own_iter L llen PS recog bump lineno).
  Notation own_steps := (own_steps L llen PS recog bump lineno).
  Notation own_enter := (own_enter p).
  Notation own_fetch := (own_fetch L llen PS init_ps recog bump lineno T finish split p).
  Notation own_inflight := (own_inflight L llen PS init_ps recog bump lineno split p).
  Notation own_dropped := (own_dropped L llen PS init_ps recog bump lineno split p).
  Notation stream_fetch := (stream_fetch L llen PS init_ps recog bump lineno T finish split p).
  Notation stream_fetch_dropped := (stream_fetch_dropped L llen PS init_ps recog bump lineno split p).
  Notation stream_fetch_inflight := (stream_fetch_inflight L llen PS init_ps recog bump lineno split p).

  (* ================================================================ (1) refinement *)
  (* Stream.v's reconstruction of the file system from the handle state *)
  Definition fs_of (f1 : fs) (tf : option Z) (b : bytes) (w : tee) : fs :=
    match w with TOpen n len => write_tmp f1 n (take len b) | TNone => drop_temp f1 tf end.
  Definition named (tf : option Z) (w : tee) : Prop :=
    match w with TOpen n _ => tf = Some n | TNone => True end.

  Lemma tee_to_named : forall e c w tf, named tf w -> named tf (tee_to e c w).
  Proof.
    intros e c [n len|] tf H; cbn [tee_to named] in *; [|trivial].
    destruct (c =? len); [exact H|]. destruct (wr_ok e c); cbn [named]; [exact H|trivial].
  Qed.

  Lemma own_tee_to_eq : forall e b c f1 tf w, named tf w ->
    own_tee_to e b c (fs_of f1 tf b w, w) = (fs_of f1 tf b (tee_to e c w), tee_to e c w).
  Proof.
    intros e b c f1 tf [n len|] H; cbn [own_tee_to tee_to named fs_of] in *; [|reflexivity].
    subst tf. destruct (c =? len); [reflexivity|].
    destruct (wr_ok e c); cbn [fs_of].
    - rewrite write_write. reflexivity.
    - unfold own_assign_none. cbn [handle drop_temp]. rewrite rm_write. reflexivity.
  Qed.

  Lemma tee_step_named : forall e x r w tf, named tf w -> named tf (tee_step e x r w).
  Proof.
    intros e x r w tf H. unfold Stream.tee_step.
    assert (H1 : named tf (if pr (core x) then tee_to e (cbsum (recovery L llen PS bump (core x))) w else w))
      by (destruct (pr (core x)); [apply tee_to_named|]; exact H).
    destruct r; [apply tee_to_named; exact H1|apply tee_to_named; exact H1|exact H1].
  Qed.

  Lemma own_tee_step_eq : forall e b x r f1 tf w, named tf w ->
    own_tee_step e b x r (fs_of f1 tf b w, w) = (fs_of f1 tf b (tee_step e x r w), tee_step e x r w).
  Proof.
    intros e b x r f1 tf w H. unfold StreamRaii.own_tee_step, Stream.tee_step.
    destruct (pr (core x)).
    - rewrite (own_tee_to_eq e b _ f1 tf w H).
      pose proof (tee_to_named e (cbsum (recovery L llen PS bump (core x))) w tf H) as H1.
      destruct r; [apply own_tee_to_eq; exact H1|apply own_tee_to_eq; exact H1|reflexivity].
    - destruct r; [apply own_tee_to_eq; exact H|apply own_tee_to_eq; exact H|reflexivity].
  Qed.

  Definition lift (f1 : fs) (tf : option Z) (b : bytes) (rw : sres * tee) : sres * (fs * tee) :=
    (fst rw, (fs_of f1 tf b (snd rw), snd rw)).

  Lemma own_iter_eq : forall e b f1 tf q x w, named tf w ->
    own_iter e b q x (fs_of f1 tf b w, w) = lift f1 tf b (iter_fetch e q x w) /\ named tf (snd (iter_fetch e q x w)).
  Proof.
    intros e b f1 tf. induction q as [q IH|q IH|]; intros x w H; cbn [StreamRaii.own_iter Stream.iter_fetch].
    - rewrite (own_tee_step_eq e b x (step_stream x) f1 tf w H).
      pose proof (tee_step_named e x (step_stream x) w tf H) as H0.
      destruct (step_stream x) as [x1|r x1|t] eqn:S; try (split; [reflexivity|exact H0]).
      destruct (IH x1 (tee_step e x (SNext x1) w) H0) as [E1 N1]. rewrite E1.
      destruct (iter_fetch e q x1 (tee_step e x (SNext x1) w)) as [r1 w1]. unfold lift at 1. cbn [fst snd] in *.
      destruct r1 as [x2|r2 x2|t2]; try (split; [reflexivity|exact N1]).
      apply IH. exact N1.
    - destruct (IH x w H) as [E1 N1]. rewrite E1.
      destruct (iter_fetch e q x w) as [r1 w1]. unfold lift at 1. cbn [fst snd] in *.
      destruct r1 as [x2|r2 x2|t2]; try (split; [reflexivity|exact N1]).
      apply IH. exact N1.
    - rewrite (own_tee_step_eq e b x (step_stream x) f1 tf w H). split; [reflexivity|].
      apply tee_step_named. exact H.
  Qed.

  Lemma own_steps_eq : forall e b f1 tf k x w, named tf w ->
    own_steps e b k x (fs_of f1 tf b w, w) = lift f1 tf b (steps_fetch e k x w) /\ named tf (snd (steps_fetch e k x w)).
  Proof.
    intros e b f1 tf. induction k as [|k IH]; intros x w H; cbn [StreamRaii.own_steps Stream.steps_fetch].
    - split; [reflexivity|exact H].
    - rewrite (own_tee_step_eq e b x (step_stream x) f1 tf w H).
      pose proof (tee_step_named e x (step_stream x) w tf H) as H0.
      destruct (step_stream x) as [x1|r x1|t] eqn:S; try (split; [reflexivity|exact H0]).
      apply IH. exact H0.
  Qed.

  (* the frame as create_cache_file leaves it: the new file is empty, i.e. holds the first 0 bytes *)
  Lemma enter_eq : forall e f b,
    own_enter e f = (fs_of (fst (create_cache_file p e f)) (snd (create_cache_file p e f)) b (tee0 (snd (create_cache_file p e f))),
                     tee0 (snd (create_cache_file p e f))) /\
    named (snd (create_cache_file p e f)) (tee0 (snd (create_cache_file p e f))).
  Proof.
    intros e f b. unfold StreamRaii.own_enter, create_cache_file.
    destruct (mk_ok e); [destruct (create_ok e)|]; cbn [fst snd tee0 fs_of drop_temp named]; try (split; [reflexivity|trivial]).
    split; [|reflexivity]. f_equal. unfold write_tmp, add_tmp, take. cbn [cache cdir tmp set_cdir firstn Z.to_nat].
    f_equal. symmetry. apply write_fresh.
  Qed.

  Lemma leave_fs_of : forall f1 tf b w, named tf w -> own_leave (fs_of f1 tf b w) w = drop_temp f1 tf.
  Proof.
    intros f1 tf b [n len|] H; cbn [named fs_of own_leave handle drop_temp] in *; [|reflexivity].
    subst tf. cbn [drop_temp]. apply rm_write.
  Qed.

  Theorem own_fetch_is_stream_fetch : forall e u f b script,
    own_fetch e u f b script = stream_fetch e u f b script.
  Proof.
    intros e u f b script. unfold StreamRaii.own_fetch, Stream.stream_fetch.
    destruct (enter_eq e f b) as [E0 N0]. rewrite E0.
    destruct (create_cache_file p e f) as [f1 tf]. cbn [fst snd] in *.
    destruct (split b) as [lines tail].
    destruct (own_iter_eq e b f1 tf (fuel_for L llen lines tail) (init_stream L llen PS init_ps lines tail script) (tee0 tf) N0) as [E1 N1].
    rewrite E1. destruct (iter_fetch e (fuel_for L llen lines tail) (init_stream L llen PS init_ps lines tail script) (tee0 tf)) as [r w].
    unfold lift. cbn [fst snd] in *.
    destruct r as [x1|[ps|c ln] x1|t1]; try (rewrite (leave_fs_of f1 tf b w N1); reflexivity).
    destruct (finish ps) as [t|]; [|rewrite (leave_fs_of f1 tf b w N1); reflexivity].
    destruct w as [n len|]; cbn [fst snd fs_of own_leave handle drop_temp]; reflexivity.
  Qed.

  Theorem own_inflight_is_stream_inflight : forall e f b script k,
    fst (own_inflight e f b script k) = stream_fetch_inflight e f b script k.
  Proof.
    intros e f b script k. unfold StreamRaii.own_inflight, Stream.stream_fetch_inflight.
    destruct (enter_eq e f b) as [E0 N0]. rewrite E0.
    destruct (create_cache_file p e f) as [f1 tf]. cbn [fst snd] in *.
    destruct (split b) as [lines tail].
    destruct (own_steps_eq e b f1 tf k (init_stream L llen PS init_ps lines tail script) (tee0 tf) N0) as [E1 N1].
    rewrite E1. destruct (steps_fetch e k (init_stream L llen PS init_ps lines tail script) (tee0 tf)) as [r w].
    unfold lift. cbn [fst snd fs_of]. destruct w; reflexivity.
  Qed.

  Theorem own_dropped_is_stream_dropped : forall e f b script k,
    own_dropped e f b script k = stream_fetch_dropped e f b script k.
  Proof.
    intros e f b script k. unfold StreamRaii.own_dropped, StreamRaii.own_inflight, Stream.stream_fetch_dropped.
    destruct (enter_eq e f b) as [E0 N0]. rewrite E0.
    destruct (create_cache_file p e f) as [f1 tf]. cbn [fst snd] in *.
    destruct (split b) as [lines tail].
    destruct (own_steps_eq e b f1 tf k (init_stream L llen PS init_ps lines tail script) (tee0 tf) N0) as [E1 N1].
    rewrite E1. destruct (steps_fetch e k (init_stream L llen PS init_ps lines tail script) (tee0 tf)) as [r w].
    unfold lift. cbn [fst snd] in *. rewrite (leave_fs_of f1 tf b w N1).
    destruct w as [n len|]; cbn [named fs_of] in *.
    - subst tf. cbn [drop_temp]. symmetry. apply rm_write.
    - destruct tf as [n|]; cbn [drop_temp]; [|reflexivity].
      unfold rm_tmp. cbn [cache cdir tmp]. f_equal. symmetry.
      induction (tmp f1) as [|a l IH]; cbn [filter]; [reflexivity|].
      destruct (negb (fst a =? n)) eqn:E; cbn [filter]; [rewrite E; f_equal; exact IH|exact IH].
  Qed.

  (* ================================================================ (2) RAII on the ownership machine itself *)
  (* what the frame owns is the one file in tmp that was not there before; the cache is as it was *)
  Definition OInv (f : fs) (gw : fs * tee) : Prop :=
    let '(g, w) := gw in
    (forall q, cache g q = cache f q) /\
    match handle w with
    | Some n => n = fresh (tmp f) /\ exists c, tmp g = (n, c) :: tmp f
    | None => tmp g = tmp f
    end.

  Lemma oinv_enter : forall e f, OInv f (own_enter e f).
  Proof.
    intros e f. unfold StreamRaii.own_enter, create_cache_file.
    destruct (mk_ok e); [destruct (create_ok e)|]; cbn [OInv tee0 handle add_tmp set_cdir cache tmp].
    - split; [reflexivity|]. split; [reflexivity|exists []; reflexivity].
    - split; reflexivity.
    - split; reflexivity.
  Qed.

  Lemma oinv_tee_to : forall e b c f gw, OInv f gw -> OInv f (own_tee_to e b c gw).
  Proof.
    intros e b c f [g [n len|]] H; cbn [own_tee_to]; [|exact H].
    destruct (c =? len); [exact H|].
    cbn [OInv handle] in H. destruct H as [Hc [Hn [c0 Ht]]].
    destruct (wr_ok e c).
    - cbn [OInv handle write_tmp cache tmp]. split; [exact Hc|]. split; [exact Hn|].
      exists (take c b). rewrite Ht, Hn. apply write_fresh.
    - unfold own_assign_none. cbn [OInv handle drop_temp rm_tmp cache tmp]. split; [exact Hc|].
      rewrite Ht, Hn. apply rm_fresh.
  Qed.

  Lemma oinv_tee_step : forall e b x r f gw, OInv f gw -> OInv f (own_tee_step e b x r gw).
  Proof.
    intros e b x r f gw H. unfold StreamRaii.own_tee_step.
    assert (H1 : OInv f (if pr (core x) then own_tee_to e b (cbsum (recovery L llen PS bump (core x))) gw else gw))
      by (destruct (pr (core x)); [apply oinv_tee_to|]; exact H).
    destruct r; [apply oinv_tee_to; exact H1|apply oinv_tee_to; exact H1|exact H1].
  Qed.

  Lemma oinv_steps : forall e b f k x gw, OInv f gw -> OInv f (snd (own_steps e b k x gw)).
  Proof.
    intros e b f. induction k as [|k IH]; intros x gw H; cbn [StreamRaii.own_steps]; [exact H|].
    pose proof (oinv_tee_step e b x (step_stream x) f gw H) as H0.
    destruct (step_stream x) as [x1|r x1|t]; [apply IH; exact H0|exact H0|exact H0].
  Qed.

  Lemma oinv_iter : forall e b f q x gw, OInv f gw -> OInv f (snd (own_iter e b q x gw)).
  Proof.
    intros e b f. induction q as [q IH|q IH|]; intros x gw H; cbn [StreamRaii.own_iter].
    - pose proof (oinv_tee_step e b x (step_stream x) f gw H) as H0.
      destruct (step_stream x) as [x1|r x1|t]; try exact H0.
      pose proof (IH x1 _ H0) as H1.
      destruct (own_iter e b q x1 (own_tee_step e b x (SNext x1) gw)) as [r1 gw1]. cbn [snd] in H1.
      destruct r1 as [x2|r2 x2|t2]; try exact H1. apply IH. exact H1.
    - pose proof (IH x gw H) as H1. destruct (own_iter e b q x gw) as [r1 gw1]. cbn [snd] in H1.
      destruct r1 as [x2|r2 x2|t2]; try exact H1. apply IH. exact H1.
    - apply oinv_tee_step. exact H.
  Qed.

  (* leaving the frame — anywhere — restores tmp and has never touched the cache *)
  Lemma oinv_leave : forall f g w, OInv f (g, w) ->
    (forall q, cache (own_leave g w) q = cache f q) /\ tmp (own_leave g w) = tmp f.
  Proof.
    intros f g w [Hc Ht]. unfold own_leave. destruct (handle w) as [n|]; cbn [drop_temp].
    - destruct Ht as [Hn [c Ht]]. split; [exact Hc|]. cbn [rm_tmp tmp]. rewrite Ht, Hn. apply rm_fresh.
    - split; assumption.
  Qed.

  (* the future dropped after ANY number of loop iterations; in flight: at most the file the frame owns *)
  Theorem own_dropped_clean : forall e f b script k,
    (forall q, cache (own_dropped e f b script k) q = cache f q) /\ tmp (own_dropped e f b script k) = tmp f.
  Proof.
    intros e f b script k. unfold StreamRaii.own_dropped, StreamRaii.own_inflight.
    destruct (split b) as [lines tail].
    pose proof (oinv_steps e b f k (init_stream L llen PS init_ps lines tail script) (own_enter e f) (oinv_enter e f)) as H.
    destruct (snd (own_steps e b k (init_stream L llen PS init_ps lines tail script) (own_enter e f))) as [g w].
    apply oinv_leave. exact H.
  Qed.

  Theorem own_inflight_owned : forall e f b script k, OInv f (own_inflight e f b script k).
  Proof.
    intros e f b script k. unfold StreamRaii.own_inflight. destruct (split b) as [lines tail].
    apply oinv_steps. apply oinv_enter.
  Qed.

  (* every exit edge of the completed call that is not the commit: tmp restored, cache untouched *)
  Theorem own_fetch_error_clean : forall e u f b script,
    (forall t, snd (own_fetch e u f b script) <> FOk t) ->
    (forall q, cache (fst (own_fetch e u f b script)) q = cache f q) /\ tmp (fst (own_fetch e u f b script)) = tmp f.
  Proof.
    intros e u f b script. unfold StreamRaii.own_fetch. destruct (split b) as [lines tail].
    pose proof (oinv_iter e b f (fuel_for L llen lines tail) (init_stream L llen PS init_ps lines tail script) (own_enter e f) (oinv_enter e f)) as H.
    destruct (own_iter e b (fuel_for L llen lines tail) (init_stream L llen PS init_ps lines tail script) (own_enter e f)) as [r [g w]].
    cbn [snd] in H.
    destruct r as [x1|[ps|c ln] x1|t1]; cbn [fst snd]; intros Hne; try (apply oinv_leave; exact H).
    destruct (finish ps) as [t|]; cbn [fst snd] in *; [exfalso; apply (Hne t); reflexivity|apply oinv_leave; exact H].
  Qed.
  (* the statement about Stream.v's functions, FROM the ownership machine: (1) turns them into own_dropped / own_inflight,
     (2) is the invariant of that machine *)
  Theorem stream_dropped_from_ownership : forall e f b script k,
    ((forall q, cache (stream_fetch_dropped e f b script k) q = cache f q) /\ tmp (stream_fetch_dropped e f b script k) = tmp f) /\
    let g := stream_fetch_inflight e f b script k in
    (forall q, cache g q = cache f q) /\ (tmp g = tmp f \/ exists n c, n = fresh (tmp f) /\ tmp g = (n, c) :: tmp f).
  Proof.
    intros e f b script k. split.
    - rewrite <- own_dropped_is_stream_dropped. apply own_dropped_clean.
    - cbv zeta. rewrite <- own_inflight_is_stream_inflight.
      pose proof (own_inflight_owned e f b script k) as H.
      destruct (own_inflight e f b script k) as [g w]. cbn [fst]. destruct H as [Hc Ht]. split; [exact Hc|].
      destruct (handle w) as [n|]; [right|left; exact Ht].
      destruct Ht as [Hn [c Ht]]. exists n, c. split; assumption.
  Qed.
End StreamRaiiProofs.
