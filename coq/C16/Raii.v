(* C16/Raii.v — fetch_symbol_file as a PROGRAM run under Rust's ownership rules, instead of a state machine with the
   removal of the temp file written into every exit edge by hand.

   The program is the step list that translate/c16_fsops.py extracts from the source (Gen/C16Ops.v [fetch_steps]); the
   interpreter below gives a meaning to ANY list of such steps.  The function's droppable locals live in a [frame];
   there is exactly ONE place where locals are dropped: [leave], which the interpreter applies whenever the frame is
   left — `return`, an error propagated by `?`, or the future being dropped while suspended at an await — and one
   place where a single local is overwritten ([assign_temp]: the old value is dropped first).  What a drop does:
     - NamedTempFile: the file is removed from the tmp directory (tempfile's Drop);
     - `commit_cache_file(temp, ..)` takes the NamedTempFile BY VALUE: the caller's local is moved out (nothing left
       to drop in the caller); the callee either persists it (persist_noclobber Ok: the path is forgotten, the file
       is now the cache entry) or drops it on its own exit edges — that function's own program, one operation per
       step with the handle dropped at its end, is C16/Shared.v + C16/Refine.v (c16_commit_program_refines: equal
       to Model.commit_cache_file on every branch);
     - everything else the frame owns (the Response, the parser) has no effect on the file system.
   Definitions only. *)
From RM Require Import C16.Model C16.Shared Gen.C16Ops.
Open Scope Z_scope.

Section Raii.
  Variable T : Type.
  Variable parse : bytes -> option (T * option bytes).
  Variable early : bytes -> bool.
  Variable p : path.

  (* the droppable locals of fetch_symbol_file *)
  Record frame := mkframe {
    fr_res : bool;              (* `res`: a response whose status was accepted *)
    fr_temp : option Z;         (* `temp: Option<NamedTempFile>` *)
    fr_got : bytes;             (* what parse_async has received so far *)
    fr_sym : option T           (* `symbol_file` *)
  }.
  Definition frame0 : frame := mkframe false None [] None.

  (* THE drop: the frame is left (return / `?` / the future is dropped): every local is dropped *)
  Definition leave (f : fs) (fr : frame) : fs := drop_temp f (fr_temp fr).
  (* `temp = <new value>`: the old value is dropped *)
  Definition assign_temp (f : fs) (fr : frame) (v : option Z) : fs * frame :=
    (drop_temp f (fr_temp fr), mkframe (fr_res fr) v (fr_got fr) (fr_sym fr)).

  Inductive istate :=
  | IRun (rest : list server) (cur : server) (pc : list fstep) (fr : frame)
  | IDone (r : result T)
  | IDropped.
  Record ist := mkist { i_fs : fs; i_log : list Z; i_l : istate }.

  Variable prog : list fstep.     (* the body of fetch_symbol_file *)

  (* `for url in &self.urls`: the next call of fetch_symbol_file starts with a fresh frame *)
  Definition inext (f : fs) (log : list Z) (ss : list server) : ist :=
    match ss with
    | [] => mkist f log (IDone RNotFound)
    | s :: rest => mkist f (log ++ [s_id s]) (IRun rest s prog frame0)
    end.

  (* the call returns Err (a `?`, or a step the frame is not ready for): the frame is left *)
  Definition exit_err (f : fs) (log : list Z) (rest : list server) (fr : frame) : ist :=
    inext (leave f fr) log rest.

  (* steps without an await, run until the next await step (or the end of the program) *)
  Fixpoint silent (n : nat) (f : fs) (log : list Z) (rest : list server) (cur : server) (pc : list fstep) (fr : frame) : ist :=
    match n with
    | O => mkist f log (IRun rest cur pc fr)
    | S k =>
        match pc with
        | [] => exit_err f log rest fr                       (* fell off the end without `Ok(..)` *)
        | FSend :: _ | FParseTee :: _ => mkist f log (IRun rest cur pc fr)
        | FCreate :: pc' =>
            (* let mut temp = create_cache_file(..).map_err(..).ok(); *)
            let '(f0, fr0) := assign_temp f fr None in
            let '(f1, tf) := create_cache_file p (s_env cur) f0 in
            silent k f1 log rest cur pc' (mkframe (fr_res fr0) tf (fr_got fr0) (fr_sym fr0))
        | FSetUrl :: pc' => silent k f log rest cur pc' fr
        | FCommitIfTemp :: pc' =>
            (* if let Some(temp) = temp { let _ = commit_cache_file(temp, ..) }: the local is MOVED into the callee *)
            match fr_temp fr with
            | Some n0 =>
                let f1 := commit_cache_file p (s_env cur) f n0 (fr_got fr) (s_url cur) in
                silent k f1 log rest cur pc' (mkframe (fr_res fr) None (fr_got fr) (fr_sym fr))
            | None => silent k f log rest cur pc' fr
            end
        | FReturnOk :: _ =>
            match fr_sym fr with
            | Some t => mkist (leave f fr) log (IDone (ROk t (Some (s_url cur))))
            | None => exit_err f log rest fr
            end
        end
    end.

  Definition go (f : fs) (log : list Z) (rest : list server) (cur : server) (pc : list fstep) (fr : frame) : ist :=
    silent (S (length pc)) f log rest cur pc fr.

  (* the tee callback: a failed write_all does `temp = None` *)
  Definition tee (e : env) (f : fs) (fr : frame) (got' : bytes) : fs * frame :=
    match fr_temp fr with
    | None => (f, mkframe (fr_res fr) None got' (fr_sym fr))
    | Some n => if wr_ok e (Z.of_nat (length got'))
                then (write_tmp f n got', mkframe (fr_res fr) (Some n) got' (fr_sym fr))
                else let '(f1, fr1) := assign_temp f fr None in (f1, mkframe (fr_res fr1) None got' (fr_sym fr1))
    end.

  (* one event, delivered to the await the program is suspended at *)
  Definition istep (s : ist) (ev : event) : ist :=
    match i_l s with
    | IDone _ | IDropped => s
    | IRun rest cur pc fr =>
        let f := i_fs s in
        let log := i_log s in
        match ev with
        | EDrop => mkist (leave f fr) log IDropped          (* the future is dropped: so is everything it owns *)
        | _ =>
            match pc with
            | FSend :: pc' =>
                match ev with
                | EHead code =>
                    if 400 <=? code then exit_err f log rest fr
                    else go f log rest cur pc' (mkframe true (fr_temp fr) (fr_got fr) (fr_sym fr))
                | _ => exit_err f log rest fr
                end
            | FParseTee :: pc' =>
                if negb (fr_res fr) then exit_err f log rest fr else
                match ev with
                | EChunk bs =>
                    let got' := fr_got fr ++ bs in
                    if early got' then exit_err f log rest fr
                    else let '(f1, fr1) := tee (s_env cur) f fr got' in mkist f1 log (IRun rest cur pc fr1)
                | EEof =>
                    match parse (fr_got fr) with
                    | None => exit_err f log rest fr
                    | Some (t, _) => go f log rest cur pc' (mkframe (fr_res fr) (fr_temp fr) (fr_got fr) (Some t))
                    end
                | _ => exit_err f log rest fr
                end
            | _ => exit_err f log rest fr                   (* not suspended at an await: cannot happen after [go] *)
            end
        end
    end.

  Definition irun (s : ist) (evs : list event) : ist := fold_left istep evs s.
  Definition istart (f : fs) (ss : list server) : ist := inext f [] ss.
End Raii.

Arguments IRun {T} _ _ _ _.
Arguments IDone {T} _.
Arguments IDropped {T}.
Arguments i_fs {T} _.
Arguments i_log {T} _.
Arguments i_l {T} _.
Arguments mkist {T} _ _ _.
Arguments fr_res {T} _.
Arguments fr_temp {T} _.
Arguments fr_got {T} _.
Arguments fr_sym {T} _.
Arguments mkframe {T} _ _ _ _.
