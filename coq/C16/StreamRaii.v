(* C16/StreamRaii.v — the streaming download (C16/Stream.v) run under Rust's OWNERSHIP rules, the way C16/Raii.v does it for
   the state machine of C16/Model.v.

   C16/Stream.v writes the fate of the temp file into the function by hand: [gone := drop_temp f1 tf] on every exit edge
   of [stream_fetch], and [stream_fetch_dropped] / [stream_fetch_inflight] reconstruct the tmp directory from the handle
   state AFTER the fact ([write_tmp f1 n (take len b)]).  Here nothing is reconstructed and no exit edge is special:
     - the file system is threaded through parse_async's loop and every callback call ACTS on it at the moment it happens
       (`file.write_all(data)` extends the temp file; a failed write runs `temp = None`, an assignment, which drops the
       old value: [own_assign_none]);
     - the function's droppable local with a file-system effect, `temp: Option<NamedTempFile>`, lives in the loop state
       ([tee]: the handle and the length written so far); there is exactly ONE drop site, [own_leave], applied whenever the
       frame is left: `Ok(..)`, an error through `?`, a panic unwinding, the future dropped while suspended in
       `response.chunk().await` after any number of iterations;
     - `commit_cache_file(temp, ..)` takes the NamedTempFile BY VALUE: the slot is empty afterwards ([TNone]) and the frame is
       left like everywhere else (the callee's own exit edges: C16/Shared.v + C16/Refine.v, c16_commit_program_refines).
   C16/StreamRaiiProofs.v: these functions ARE stream_fetch / stream_fetch_dropped / stream_fetch_inflight, and they leave no
   temp file behind.  Definitions only. *)
From Coq Require Import ZArith List Bool.
From RM Require Import Base.Word C09.Model C10.Stream C16.Model C16.Stream.
Import ListNotations.
Open Scope Z_scope.

Section StreamRaii.
  Variable L : Type.
  Variable llen : L -> Z.
  Variable PS : Type.
  Variable init_ps : PS.
  Variable recog : PS -> L -> PS + Z.
  Variable bump : PS -> PS.
  Variable lineno : PS -> Z.
  Variable T : Type.
  Variable finish : PS -> option T.
  Variable split : bytes -> list L * Z.
  Variable p : path.

  Notation sst := (@sst L PS).
  Notation sres := (@sres L PS).
  Notation step_stream := (step_stream L llen PS recog bump lineno).

  (* what the frame owns that has a file-system effect when dropped *)
  Definition handle (w : tee) : option Z := match w with TOpen n _ => Some n | TNone => None end.

  (* THE drop: the frame of fetch_symbol_file is left (return / `?` / unwinding / the future is dropped) *)
  Definition own_leave (g : fs) (w : tee) : fs := drop_temp g (handle w).

  (* `temp = None`: the old value is dropped *)
  Definition own_assign_none (g : fs) (w : tee) : fs * tee := (drop_temp g (handle w), TNone).

  (* the callback, called when the callback total reaches [c]: it WRITES (the file then holds the first c bytes of the body) *)
  Definition own_tee_to (e : env) (b : bytes) (c : Z) (gw : fs * tee) : fs * tee :=
    let '(g, w) := gw in
    match w with
    | TOpen n len =>
        if c =? len then gw
        else if wr_ok e c then (write_tmp g n (take c b), TOpen n c)
        else own_assign_none g w
    | TNone => gw
    end.

  (* the callbacks of one loop iteration (the recovery block's, then the one after parse_more) *)
  Definition own_tee_step (e : env) (b : bytes) (x : sst) (r : sres) (gw : fs * tee) : fs * tee :=
    let s0 := core x in
    let gw1 := if pr s0 then own_tee_to e b (cbsum (recovery L llen PS bump s0)) gw else gw in
    match r with
    | SNext x' => own_tee_to e b (cbsum (core x')) gw1
    | SDone _ x' => own_tee_to e b (cbsum (core x')) gw1
    | SPanic _ => gw1
    end.

  (* the loop run to its end (same fuel structure as [iter_stream] / [iter_fetch]) *)
  Fixpoint own_iter (e : env) (b : bytes) (q : positive) (x : sst) (gw : fs * tee) : sres * (fs * tee) :=
    match q with
    | xH => let r := step_stream x in (r, own_tee_step e b x r gw)
    | xO q' => match own_iter e b q' x gw with
               | (SNext x1, gw1) => own_iter e b q' x1 gw1
               | rw => rw
               end
    | xI q' => let r := step_stream x in
               let gw0 := own_tee_step e b x r gw in
               match r with
               | SNext x1 => match own_iter e b q' x1 gw0 with
                             | (SNext x2, gw2) => own_iter e b q' x2 gw2
                             | rw => rw
                             end
               | _ => (r, gw0)
               end
    end.

  (* k iterations, then suspended in `response.chunk().await` (or finished earlier) *)
  Fixpoint own_steps (e : env) (b : bytes) (k : nat) (x : sst) (gw : fs * tee) : sres * (fs * tee) :=
    match k with
    | O => (SNext x, gw)
    | S k' => let r := step_stream x in
              let gw0 := own_tee_step e b x r gw in
              match r with
              | SNext x1 => own_steps e b k' x1 gw0
              | _ => (r, gw0)
              end
    end.

  (* `let mut temp = create_cache_file(..).ok()`: the frame now owns the handle *)
  Definition own_enter (e : env) (f : fs) : fs * tee :=
    let '(f1, tf) := create_cache_file p e f in (f1, tee0 tf).

  (* fetch_symbol_file from the accepted response head on *)
  Definition own_fetch (e : env) (u : bytes) (f : fs) (b : bytes) (script : list sev) : fs * fres T :=
    let '(lines, tail) := split b in
    let '(r, (g, w)) := own_iter e b (fuel_for L llen lines tail) (init_stream L llen PS init_ps lines tail script) (own_enter e f) in
    match r with
    | SDone (C09.Model.ROk ps) _ =>
        match finish ps with
        | Some t =>
            (* if let Some(temp) = temp { commit_cache_file(temp, ..) }: moved into the callee; then the frame is left *)
            let gw' := match w with
                       | TOpen n len => (commit_cache_file p e g n (take len b) u, TNone)
                       | TNone => (g, w)
                       end in
            (own_leave (fst gw') (snd gw'), FOk t)
        | None => (own_leave g w, FPanic)
        end
    | SDone (C09.Model.RErr c _) _ => (own_leave g w, FErr c)
    | SPanic _ => (own_leave g w, FPanic)
    | SNext _ => (own_leave g w, FFuel)
    end.

  (* the tmp/cache state while the download is suspended after k iterations ... *)
  Definition own_inflight (e : env) (f : fs) (b : bytes) (script : list sev) (k : nat) : fs * tee :=
    let '(lines, tail) := split b in
    snd (own_steps e b k (init_stream L llen PS init_ps lines tail script) (own_enter e f)).

  (* ... and after the future has been dropped there *)
  Definition own_dropped (e : env) (f : fs) (b : bytes) (script : list sev) (k : nat) : fs :=
    let '(g, w) := own_inflight e f b script k in own_leave g w.
End StreamRaii.
