(* C16/FileFetchSrc.v — the machine of C16/FileFetch.v against the statement list that translate/c16_fsops.py extracts from
   `fn fetch_lookup` (coq/Gen/C16Ops.v [lookup_steps]; the translator also pins how locate_file_internal uses it: the local
   lookup's Ok answers, then the servers in order, first Ok wins).  [qstep_shape] says, step by step, which statement each
   transition of [qstep] stands for; [lookup_steps_as_modelled]: that list IS the translated one.  An edit of fetch_lookup — writing
   to the final path directly, a plain `persist`, a create error swallowed with `.ok()`, a write outside the loop — changes the
   generated list (or aborts the translator) and this file no longer checks. *)
From Coq Require Import List.
Import ListNotations.
From RM Require Import C16.Model C16.FileFetch Gen.C16Ops.

(* the statements the transitions of FileFetch.qstep were written for, in the order the machine takes them *)
Definition qstep_shape : list lstep :=
  [ LSend               (* QSend: EHead / ESendErr; status >= 400 = Err *)
  ; LCreateQ            (* on the head: create_cache_file; (f1, None) = `?` = next server *)
  ; LWriteLoopQ         (* QBody: EChunk = write_all `?`; EBodyErr = chunk() `?`; EEof = the loop ends *)
  ; LPersistNoclobberQ  (* on EEof: anything at the path or persist_ok false = `?` = next server; the temp file is dropped *)
  ; LReturnOk ].        (* QDone (QFetched id) *)

Lemma lookup_steps_as_modelled : lookup_steps = qstep_shape.
Proof. reflexivity. Qed.
