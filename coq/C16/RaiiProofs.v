(* C16/RaiiProofs.v — (1) resource safety of the interpreter of C16/Raii.v for EVERY program: whatever the steps, their
   order, the events and the outcomes of the file-system calls, a frame that has been left owns nothing in the tmp
   directory; (2) the state machine of C16/Model.v IS that interpreter on the step list translated from the source
   (Gen/C16Ops.v fetch_steps): state by state, for every event. *)
From Coq Require Import Lia.
From RM Require Import C16.Model C16.Proofs C16.Shared Gen.C16Ops C16.Raii.
Open Scope Z_scope.

Section RaiiProofs.
  Variable T : Type.
  Variable parse : bytes -> option (T * option bytes).
  Variable early : bytes -> bool.
  Variable p : path.

  Notation leave := (leave T).
  Notation silent := (silent T p).
  Notation go := (go T p).
  Notation inext := (inext T).
  Notation exit_err := (exit_err T).
  Notation istep := (istep T parse early p).
  Notation irun := (irun T parse early p).
  Notation istart := (istart T).
  Notation ist := (ist T).

  (* ---------------------------------------------------------------- (1) every program *)
  (* [f0]: the file system when the lookup started.  While a call is running the tmp directory holds at most the file
     the frame owns; once the frame has been left — Ok, Err, dropped — it is as it was. *)
  Definition IInv (f0 : fs) (s : ist) : Prop :=
    match i_l s with
    | IRun _ _ _ fr => tmp_inv f0 (i_fs s) (fr_temp fr)
    | IDone _ | IDropped => tmp (i_fs s) = tmp f0
    end.

  Lemma drop_tmp : forall f0 f tf, tmp_inv f0 f tf -> tmp (drop_temp f tf) = tmp f0.
  Proof.
    intros f0 f [n|] H; cbn [drop_temp tmp_inv] in *; [|exact H].
    destruct H as [Hn [c Hc]]. cbn [rm_tmp tmp]. rewrite Hc, Hn. apply rm_fresh.
  Qed.

  Lemma create_tmp : forall f0 f e, tmp f = tmp f0 ->
    tmp_inv f0 (fst (create_cache_file p e f)) (snd (create_cache_file p e f)).
  Proof.
    intros f0 f e H. unfold create_cache_file.
    destruct (mk_ok e); [destruct (create_ok e)|]; cbn [fst snd tmp_inv add_tmp set_cdir tmp]; try exact H.
    rewrite H. split; [reflexivity|]. exists []. reflexivity.
  Qed.

  Lemma commit_tmp : forall f0 f e n c body u,
    n = fresh (tmp f0) -> tmp f = (n, c) :: tmp f0 -> tmp (commit_cache_file p e f n body u) = tmp f0.
  Proof.
    intros f0 f e n c body u Hn Ht.
    assert (Hrm : forall g, tmp g = tmp f -> tmp (rm_tmp g n) = tmp f0).
    { intros g Hg. cbn [rm_tmp tmp]. rewrite Hg, Ht, Hn. apply rm_fresh. }
    unfold commit_cache_file.
    destruct (negb (ends_nl body) && negb (wr_ok e (Z.of_nat (length (body ++ sep body))))); [apply Hrm; reflexivity|].
    destruct (negb (wr_ok e (Z.of_nat (length (cached_form body u))))); [apply Hrm; reflexivity|].
    destruct (cache f p) as [[c1|]|].
    - destruct (rm_ok e); [|apply Hrm; reflexivity]. destruct (persist_ok e); apply Hrm; reflexivity.
    - apply Hrm; reflexivity.
    - destruct (persist_ok e); apply Hrm; reflexivity.
  Qed.

  Section AnyProgram.
    Variable prog : list fstep.

    Lemma inext_inv : forall f0 f log ss, tmp f = tmp f0 -> IInv f0 (inext prog f log ss).
    Proof. intros f0 f log [|s r] H; unfold IInv; cbn; exact H. Qed.

    Lemma exit_err_inv : forall f0 f log rest fr, tmp_inv f0 f (fr_temp fr) -> IInv f0 (exit_err prog f log rest fr).
    Proof. intros. unfold Raii.exit_err. apply inext_inv. apply drop_tmp. assumption. Qed.

    Lemma silent_inv : forall f0 n f log rest cur pc fr,
      tmp_inv f0 f (fr_temp fr) -> IInv f0 (silent prog n f log rest cur pc fr).
    Proof.
      intros f0. induction n as [|k IH]; intros f log rest cur pc fr H; cbn [Raii.silent]; [exact H|].
      destruct pc as [|[| | | | |] pc']; try exact H.
      - apply exit_err_inv; exact H.
      - (* FCreate *)
        cbn [Raii.assign_temp]. pose proof (create_tmp f0 (drop_temp f (fr_temp fr)) (s_env cur) (drop_tmp f0 f _ H)) as Hc.
        destruct (create_cache_file p (s_env cur) (drop_temp f (fr_temp fr))) as [f1 tf]. cbn [fst snd] in Hc.
        apply IH. cbn [fr_temp]. exact Hc.
      - apply IH; exact H.
      - (* FCommitIfTemp *)
        destruct (fr_temp fr) as [n0|] eqn:E; [|apply IH; rewrite E; exact H].
        cbn [tmp_inv] in H. destruct H as [Hn [c Hc]].
        apply IH. cbn [fr_temp tmp_inv]. eapply commit_tmp; eassumption.
      - (* FReturnOk *)
        destruct (fr_sym fr); [unfold IInv; cbn [i_l i_fs]; apply drop_tmp; exact H|apply exit_err_inv; exact H].
    Qed.

    Lemma tee_inv : forall f0 e f fr got', tmp_inv f0 f (fr_temp fr) ->
      tmp_inv f0 (fst (Raii.tee T e f fr got')) (fr_temp (snd (Raii.tee T e f fr got'))).
    Proof.
      intros f0 e f fr got' H. unfold Raii.tee. destruct (fr_temp fr) as [n|] eqn:E; cbn [fst snd fr_temp]; [|exact H].
      destruct (wr_ok e (Z.of_nat (length got'))); cbn [fst snd fr_temp Raii.assign_temp].
      - cbn [tmp_inv] in *. destruct H as [Hn [c Hc]]. split; [exact Hn|]. exists got'.
        cbn [write_tmp tmp]. rewrite Hc, Hn. apply write_fresh.
      - rewrite E. cbn [tmp_inv]. apply (drop_tmp f0 f (Some n)). exact H.
    Qed.

    Lemma istep_inv : forall f0 s ev, IInv f0 s -> IInv f0 (istep prog s ev).
    Proof.
      intros f0 s ev H. unfold Raii.istep. unfold IInv in H.
      destruct (i_l s) as [rest cur pc fr|r|] eqn:El; [|unfold IInv; rewrite El; exact H|unfold IInv; rewrite El; exact H].
      assert (Hdrop : IInv f0 (mkist (leave (i_fs s) fr) (i_log s) IDropped)).
      { unfold IInv; cbn [i_l i_fs]. apply drop_tmp. exact H. }
      assert (Herr : IInv f0 (exit_err prog (i_fs s) (i_log s) rest fr)) by (apply exit_err_inv; exact H).
      destruct ev as [code| |bs| | |]; try exact Hdrop.
      - destruct pc as [|[| | | | |] pc']; try exact Herr.
        + destruct (400 <=? code); [exact Herr|]. apply silent_inv. exact H.
        + destruct (negb (fr_res fr)); exact Herr.
      - destruct pc as [|[| | | | |] pc']; try exact Herr. destruct (negb (fr_res fr)); exact Herr.
      - destruct pc as [|[| | | | |] pc']; try exact Herr.
        destruct (negb (fr_res fr)); [exact Herr|].
        destruct (early (fr_got fr ++ bs)); [exact Herr|].
        pose proof (tee_inv f0 (s_env cur) (i_fs s) fr (fr_got fr ++ bs) H) as Ht.
        destruct (Raii.tee T (s_env cur) (i_fs s) fr (fr_got fr ++ bs)) as [f1 fr1]. exact Ht.
      - destruct pc as [|[| | | | |] pc']; try exact Herr. destruct (negb (fr_res fr)); exact Herr.
      - destruct pc as [|[| | | | |] pc']; try exact Herr.
        destruct (negb (fr_res fr)); [exact Herr|].
        destruct (parse (fr_got fr)) as [[t x]|]; [|exact Herr]. apply silent_inv. exact H.
    Qed.

    Lemma irun_inv : forall f0 evs s, IInv f0 s -> IInv f0 (irun prog s evs).
    Proof.
      intros f0. induction evs as [|e evs IH]; intros s H; [exact H|].
      cbn [Raii.irun fold_left]. apply IH. apply istep_inv. exact H.
    Qed.

    (* EVERY program, every server list, every event list (EDrop anywhere), every outcome of every fs call *)
    Lemma raii_any_program : forall f0 ss evs, IInv f0 (irun prog (istart prog f0 ss) evs).
    Proof. intros. apply irun_inv. apply inext_inv. reflexivity. Qed.
  End AnyProgram.

  (* ---------------------------------------------------------------- (2) Model.v is the interpreter on the source's program *)
  Definition body_pc : list fstep := [FParseTee; FSetUrl; FCommitIfTemp; FReturnOk].

  Definition embed (s : st T) : ist :=
    mkist (s_fs s) (s_log s)
      match s_l s with
      | LRun rest cur PSend => IRun rest cur fetch_steps (frame0 T)
      | LRun rest cur (PBody tf got) => IRun rest cur body_pc (mkframe true tf got None)
      | LDone r => IDone r
      | LDropped => IDropped
      end.

  Lemma embed_next : forall f log rest, embed (next_server T f log rest) = inext fetch_steps f log rest.
  Proof. intros f log [|s r]; reflexivity. Qed.

  Lemma embed_step : forall s ev, istep fetch_steps (embed s) ev = embed (step T parse early p s ev).
  Proof.
    intros [f log l] ev. unfold embed, Raii.istep, Model.step. cbn [s_l s_fs s_log i_l i_fs i_log].
    destruct l as [rest cur ph|r|]; [|reflexivity|reflexivity].
    destruct ph as [|tf got].
    - (* awaiting send() *)
      change fetch_steps with [FSend; FCreate; FParseTee; FSetUrl; FCommitIfTemp; FReturnOk].
      destruct ev as [code| |bs| | |]; try (unfold Raii.exit_err, Raii.leave; cbn [fr_temp Raii.frame0 drop_temp]; symmetry; apply embed_next).
      + destruct (400 <=? code).
        * unfold Raii.exit_err, Raii.leave. cbn [fr_temp Raii.frame0 drop_temp]. symmetry. apply embed_next.
        * unfold Raii.go. cbn [length Raii.silent Raii.assign_temp Raii.frame0 fr_temp fr_res fr_got fr_sym drop_temp].
          destruct (create_cache_file p (s_env cur) f) as [f1 tf]. reflexivity.
      + reflexivity.
    - (* inside parse_async *)
      unfold body_pc. cbn [fr_res negb].
      destruct ev as [code| |bs| | |]; try (unfold Raii.exit_err, Raii.leave; cbn [fr_temp]; symmetry; apply embed_next).
      + (* chunk *)
        cbn [fr_got]. destruct (early (got ++ bs)).
        * unfold Raii.exit_err, Raii.leave. cbn [fr_temp]. symmetry. apply embed_next.
        * unfold Raii.tee, Model.tee_write. cbn [fr_temp fr_res fr_sym].
          destruct tf as [n|]; [|reflexivity].
          destruct (wr_ok (s_env cur) (Z.of_nat (length (got ++ bs)))); reflexivity.
      + (* end of body *)
        cbn [fr_got]. destruct (parse got) as [[t x]|].
        * unfold Raii.go. cbn [length Raii.silent fr_temp fr_res fr_got fr_sym].
          destruct tf as [n|]; cbn [fr_sym fr_temp Raii.leave drop_temp]; reflexivity.
        * unfold Raii.exit_err, Raii.leave. cbn [fr_temp]. symmetry. apply embed_next.
      + reflexivity.
  Qed.

  Lemma embed_run : forall evs s, irun fetch_steps (embed s) evs = embed (run T parse early p s evs).
  Proof.
    induction evs as [|e evs IH]; intros s; [reflexivity|].
    cbn [Raii.irun Model.run fold_left]. rewrite embed_step. apply IH.
  Qed.

  Lemma model_is_program : forall f0 ss evs,
    embed (run T parse early p (net_start T f0 ss) evs) = irun fetch_steps (istart fetch_steps f0 ss) evs.
  Proof.
    intros. rewrite <- embed_run. unfold Model.net_start, Raii.istart. rewrite embed_next. reflexivity.
  Qed.

  (* the RAII statement about the state machine of Model.v, derived from (1) and (2) *)
  Lemma no_stray_tmp_from_ownership : forall f0 ss evs,
    let s := run T parse early p (net_start T f0 ss) evs in
    match s_l s with
    | LDone _ | LDropped => tmp (s_fs s) = tmp f0
    | LRun _ _ PSend => tmp (s_fs s) = tmp f0
    | LRun _ _ (PBody tf _) => tmp_inv f0 (s_fs s) tf
    end.
  Proof.
    intros f0 ss evs s.
    pose proof (raii_any_program fetch_steps f0 ss evs) as H. rewrite <- model_is_program in H. fold s in H.
    unfold IInv, embed in H. cbn [i_l i_fs] in H.
    destruct (s_l s) as [rest cur [|tf got]|r|]; exact H.
  Qed.

  (* the two statements of Properties.v, with the proof going through the ownership semantics *)
  Lemma net_no_stray_tmp_own : forall f0 ss evs,
    let s := run T parse early p (net_start T f0 ss) evs in
    (finished T s -> tmp (s_fs s) = tmp f0) /\
    (tmp (s_fs s) = tmp f0 \/ exists c, tmp (s_fs s) = (fresh (tmp f0), c) :: tmp f0).
  Proof.
    intros f0 ss evs s. pose proof (no_stray_tmp_from_ownership f0 ss evs) as H. cbv zeta in H. fold s in H.
    unfold finished.
    destruct (s_l s) as [rest cur [|tf got]|r|].
    - split; [contradiction|left; exact H].
    - split; [contradiction|]. destruct tf as [n|]; cbn [tmp_inv] in H.
      + destruct H as [Hn [c Hc]]. right. exists c. rewrite Hc, Hn. reflexivity.
      + left. exact H.
    - split; [intros _; exact H|left; exact H].
    - split; [intros _; exact H|left; exact H].
  Qed.

  Lemma locate_no_stray_tmp_own : forall f locals ss evs,
    let s := locate T parse early p f locals None ss evs in
    (finished T s -> tmp (s_fs s) = tmp f) /\
    (tmp (s_fs s) = tmp f \/ exists c, tmp (s_fs s) = (fresh (tmp f), c) :: tmp f).
  Proof.
    intros f locals ss evs s. unfold s.
    destruct (locate_split T parse early p f locals ss evs) as [[c [_ [Hf _]]]|[_ Hn]].
    - rewrite Hf. split; [reflexivity|left; reflexivity].
    - rewrite Hn. apply net_no_stray_tmp_own.
  Qed.
End RaiiProofs.
