(* C16/Refine.v — the operation programs of C16/Shared.v, run to their end without interleaving,
   against the one-step functions create_cache_file / commit_cache_file of C16/Model.v (the model that
   the single-client theorems are about and that is compared with the real code on every case). *)
From Coq Require Import Lia.
From RM Require Import C16.Model C16.Shared.
Open Scope Z_scope.

(* a program run to its end by client i (no interleaving); false: an operation returned Err and the
   function was left at that point (the caller then drops the NamedTempFile) *)
Fixpoint run_ops (e : env) (i : Z) (body u : bytes) (f : mfs) (ops : list fsop) : mfs * bool :=
  match ops with
  | [] => (f, true)
  | o :: r =>
      let '(f1, ok) := exec_op e i body u f o in
      if ok then run_ops e i body u f1 r else (f1, false)
  end.

Section Refine.
  Variable T : Type.
  Variable parse : bytes -> option (T * option bytes).
  Variable create_ops commit_ops : list fsop.
  Let step_client := step_client T parse create_ops commit_ops.

  Fixpoint ticks (n : nat) (i : Z) (f : mfs) (c : client T) : mfs * client T :=
    match n with
    | O => (f, c)
    | S k => let '(f1, c1) := step_client i f c ATick in ticks k i f1 c1
    end.

  Lemma ticks_done : forall n i f srv r,
    ticks n i f (mkclient T srv (CDone r)) = (f, mkclient T srv (CDone r)).
  Proof. induction n as [|n IH]; intros; [reflexivity|]. cbn. apply IH. Qed.

  (* commit_cache_file of the machine = its program run to the end, then the temp handle dropped *)
  Lemma ticks_commit : forall ops i f srv body t,
    ticks (S (length ops)) i f (mkclient T srv (CCommit ops body t)) =
    (set_mtmp (fst (run_ops (env_of T (mkclient T srv CIdle)) i body (url_of T (mkclient T srv CIdle)) f ops)) i None,
     mkclient T srv (CDone (ROk t (Some (url_of T (mkclient T srv CIdle)))))).
  Proof.
    induction ops as [|o r IH]; intros i f srv body t.
    - reflexivity.
    - cbn [length].
      change (ticks (S (S (length r))) i f (mkclient T srv (CCommit (o :: r) body t)))
        with (let '(f1, c1) := step_client i f (mkclient T srv (CCommit (o :: r) body t)) ATick in ticks (S (length r)) i f1 c1).
      unfold step_client, Shared.step_client. unfold env_of, url_of in *. cbn [c_ph run_ops c_srv] in *.
      destruct (exec_op (match srv with s :: _ => s_env s | [] => env_ok end) i body
                        (match srv with s :: _ => s_url s | [] => [] end) f o) as [f1 ok].
      destruct ok; unfold set_ph; cbn [c_srv url_of]; cbv beta iota zeta.
      + fold step_client. rewrite IH. reflexivity.
      + fold step_client. rewrite ticks_done. reflexivity.
  Qed.
End Refine.

(* ---- against the one-step functions of C16/Model.v *)
Ltac fin :=
  repeat split; try reflexivity; try discriminate; try assumption; try congruence;
  try (intros;
       repeat match goal with
              | |- context [?q =? ?pp] => destruct (Z.eqb_spec q pp); [contradiction|]
              end; reflexivity).
Lemma commit_refines : forall p e f n body u g i,
  m_cache g = cache f p -> m_tmp g i = Some body ->
  let f' := commit_cache_file p e f n body u in
  let r := run_ops e i body u g std_commit in
  m_cache (set_mtmp (fst r) i None) = cache f' p /\
  (forall q, q <> p -> cache f' q = cache f q) /\
  tmp f' = tmp (rm_tmp f n) /\
  (snd r = true -> m_tmp (fst r) i = None /\ m_cache (fst r) = Some (File (cached_form body u))).
Proof.
  intros p e f n body u g i Hc Ht. cbn zeta.
  assert (Hq : forall (h : fs) v, forall q, q <> p -> cache (set_cache h p v) q = cache h q).
  { intros h v q Hq. cbn. destruct (Z.eqb_spec q p); [contradiction|reflexivity]. }
  unfold commit_cache_file, std_commit.
  cbn [run_ops]. cbn [exec_op]. rewrite Ht.
  destruct (ends_nl body) eqn:En.
  - (* the body ends in a newline: no separator *)
    assert (Ecf : cached_form body u = body ++ trailer u) by (unfold cached_form, sep; rewrite En; reflexivity).
    rewrite Ecf. cbn [negb andb]. rewrite Ht.
    destruct (wr_ok e (Z.of_nat (length (body ++ trailer u)))) eqn:W2; cbn [negb].
    2:{ cbn. rewrite Hc. fin. }
    cbn [m_cache set_mtmp]. rewrite Hc.
    destruct (cache f p) as [[cc|]|] eqn:Ec.
    + destruct (rm_ok e) eqn:R.
      2:{ cbn. rewrite Ec. fin. }
      cbn [m_tmp set_mcache set_mtmp m_cache]. rewrite Z.eqb_refl.
      destruct (persist_ok e) eqn:P; cbn; rewrite ?Z.eqb_refl; fin.
    + cbn. rewrite Ec. fin.
    + cbn [m_tmp set_mcache set_mtmp m_cache]. rewrite Z.eqb_refl.
      destruct (persist_ok e) eqn:P; cbn; rewrite ?Z.eqb_refl, ?Ec, ?Hc; cbn; rewrite ?Z.eqb_refl, ?Ec; fin.
  - (* unterminated last line: one newline first *)
    assert (Ecf : cached_form body u = (body ++ [NL]) ++ trailer u)
      by (unfold cached_form, sep; rewrite En; rewrite app_assoc; reflexivity).
    assert (Es : body ++ sep body = body ++ [NL]) by (unfold sep; rewrite En; reflexivity).
    rewrite Ecf, Es. cbn [negb andb].
    destruct (wr_ok e (Z.of_nat (length (body ++ [NL])))) eqn:W1; cbn [negb].
    2:{ cbn. rewrite Hc. fin. }
    cbn [m_tmp set_mtmp]. rewrite Z.eqb_refl.
    destruct (wr_ok e (Z.of_nat (length ((body ++ [NL]) ++ trailer u)))) eqn:W2; cbn [negb].
    2:{ cbn. rewrite Hc. fin. }
    cbn [m_cache set_mtmp]. rewrite Hc.
    destruct (cache f p) as [[cc|]|] eqn:Ec.
    + destruct (rm_ok e) eqn:R.
      2:{ cbn. rewrite Ec. fin. }
      cbn [m_tmp set_mcache set_mtmp m_cache]. rewrite Z.eqb_refl.
      destruct (persist_ok e) eqn:P; cbn; rewrite ?Z.eqb_refl; fin.
    + cbn. rewrite Ec. fin.
    + cbn [m_tmp set_mcache set_mtmp m_cache]. rewrite Z.eqb_refl.
      destruct (persist_ok e) eqn:P; cbn; rewrite ?Z.eqb_refl, ?Ec, ?Hc; cbn; rewrite ?Z.eqb_refl, ?Ec; fin.
Qed.

Lemma create_refines : forall p e f g i u,
  m_cdir g = cdir f p -> m_tmp g i = None ->
  let r := run_ops e i [] u g [OMkdirAll; ONewTemp] in
  let fr := create_cache_file p e f in
  m_cache (fst r) = m_cache g /\
  m_cdir (fst r) = cdir (fst fr) p /\
  (forall q, cache (fst fr) q = cache f q) /\
  (snd r = true -> snd fr <> None /\ m_tmp (fst r) i = Some []) /\
  (snd r = false -> snd fr = None /\ m_tmp (fst r) i = None /\ tmp (fst fr) = tmp f).
Proof.
  intros p e f g i u Hd Ht. cbn zeta. unfold create_cache_file. cbn [run_ops exec_op].
  destruct (mk_ok e); [|cbn; repeat split; auto; discriminate].
  destruct (create_ok e); cbn; rewrite ?Z.eqb_refl; repeat split; auto; try discriminate.
Qed.
