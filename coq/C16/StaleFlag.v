(* C16/StaleFlag.v — the class of seeded/C16-7 inside the model: parse_async's loop with a fast path
   `if consumed == 0 { continue; }` in front of the bookkeeping after parse_more, so that `fully_consumed`
   keeps the value of the previous iteration.  Definitions + the refutation witness (StaleFlag is not extracted). *)
From Coq Require Import ZArith List Bool.
From RM Require Import Base.Word C09.Model C09.Grammar C09.Driver C10.Stream.
From RM Require C16.StreamInst.
Import ListNotations.
Open Scope Z_scope.

Section Stale.
  Variable L : Type.
  Variable llen : L -> Z.
  Variable PS : Type.
  Variable recog : PS -> L -> PS + Z.
  Variable bump : PS -> PS.
  Variable lineno : PS -> Z.

  (* [parse_phase] of C09/Model.v with the fast path: nothing consumed => no callback, no `fully_consumed = ...`,
     no buf.consume; only `just_finished_recovering = false` has already happened *)
  Definition parse_phase_stale (s : st L PS) : stepres L PS :=
    if pr s then Next s else
    if negb (geom_ok (buf s)) then StPanic 2 else
    if negb (off s =? 0) then StPanic 99
    else
      let len := avail (buf s) in
      match pm L llen PS recog lineno len (ps s) (rest s) 0 (log s) with
      | inr (c, ln) => Done (C09.Model.RErr c ln) s
      | inl (p', rest', consumed, lg') =>
          if consumed =? 0 then
            Next (C09.Model.mkst (buf s) (fc s) (tg s) false false (total s) p' rest' 0 (unread s) (sched s)
                       (ncb s) (cbsum s) (nrd s) (maxsp s) lg')
          else
            Next (C09.Model.mkst (consume (buf s) consumed) (len =? consumed) (tg s) false false
                       (total s + consumed) p' rest' 0 (unread s) (sched s)
                       (ncb s + 1) (cbsum s + consumed) (nrd s) (maxsp s) lg')
      end.

  (* [step_after_read] unchanged but for the parse phase *)
  Definition step_after_read_stale (n : Z) (sch' : list Z) (sp : Z) (s1 : st L PS) : stepres L PS :=
    let b := buf s1 in
    let buffer_full := sp =? 0 in
    let b2 := fill b n in
    let s2 := C09.Model.mkst b2 (fc s1) (tg s1) (pr s1) (jf s1) (total s1) (ps s1) (rest s1) (off s1)
                   (unread s1 - n) sch' (ncb s1) (cbsum s1) (nrd s1 + 1) (Z.max (maxsp s1) sp) (log s1) in
    if n =? 0 then
      if jf s2 && negb (avail b2 =? 0) then parse_phase_stale s2
      else if fc s2 then Done (C09.Model.ROk (ps s2)) s2
      else if buffer_full && negb (tg s2) then
        let new_cap := Z.min (b_cap b2 * 2) U64MAX in
        if MAX_CAP <? new_cap then Next (set_pr L PS s2 true)
        else Next (set_buf_tg L PS s2 (grow b2 new_cap) true)
      else if total s2 =? 0 then Done (C09.Model.RErr 3 0) s2
      else Done (C09.Model.RErr 4 (lineno (ps s2))) s2
    else parse_phase_stale (set_tg L PS s2 false).

  Definition step_stream_stale (x : @sst L PS) : @sres L PS :=
    let s0 := core x in
    if pr s0 && negb (geom_ok (buf s0)) then SPanic 2 else
    let s1 := if pr s0 then recovery L llen PS bump s0 else s0 in
    match refill (cur x) (pend x) with
    | None => SDone (C09.Model.RErr LOAD_ERROR 0) (mk_sst s1 0 [])
    | Some (c1, pend1) =>
        let b := buf s1 in
        if negb (geom_ok b) then SPanic 1 else
        let sp := space b in
        let n := Z.max 0 (Z.min sp c1) in
        wrap L PS (c1 - n) pend1 (step_after_read_stale n [] sp s1)
    end.

  Fixpoint iter_stale (k : nat) (x : @sst L PS) : @sres L PS :=
    match k with
    | O => SNext x
    | S k' => match step_stream_stale x with SNext x1 => iter_stale k' x1 | r => r end
    end.
End Stale.

(* `MODULE a b c d\n` + `FILE 1 x` (no final newline), delivered as [15 bytes = the first line] [8 bytes]:
   the loop with the fast path returns Ok after the callback (the cache writer) has been given 15 of the 23 bytes
   — fetch_symbol_file would commit `MODULE a b c d\nINFO URL ..` for a body that is not a symbol file —
   while the loop of the source answers "unexpected EOF" (error 4) and nothing is cached
   (Properties.c16_nonvacuous_stream_aligned_then_unterminated). *)
Definition stale_body : list Z :=
  [77;79;68;85;76;69;32;97;32;98;32;99;32;100;10; 70;73;76;69;32;49;32;120].
Definition stale_script : list sev := [SChunk 15; SChunk 8].

Lemma stale_flag_refuted :
  delivered stale_script = Z.of_nat (length stale_body) /\ fails stale_script = false /\
  (exists q x, iter_stale rle cllen pst recog_pst bump_pst lineno_pst 20
                 (init_stream rle cllen pst init_pst (fst (RM.C16.StreamInst.split_c stale_body)) (snd (RM.C16.StreamInst.split_c stale_body)) stale_script)
               = SDone (C09.Model.ROk q) x /\ cbsum (core x) = 15) /\
  (exists x, drive_stream rle cllen pst init_pst recog_pst bump_pst lineno_pst
               (fst (RM.C16.StreamInst.split_c stale_body)) (snd (RM.C16.StreamInst.split_c stale_body)) stale_script = Ret (C09.Model.RErr 4 1, x)).
Proof.
  split; [vm_compute; reflexivity|]. split; [vm_compute; reflexivity|]. split.
  - vm_compute. eexists. eexists. split; reflexivity.
  - vm_compute. eexists. reflexivity.
Qed.
