(* C16/Model.v — executable model of the HTTP symbol cache (breakpad-symbols/src/http.rs).
   Mirrors: HttpSymbolSupplier::locate_symbols (local paths and cache first, only NotFound
   cascades to the network; servers in order, every error of one server moves on to the next),
   fetch_symbol_file (GET, error_for_status, create_cache_file, parse_async with the tee
   callback, commit only after Ok), create_cache_file (create_dir_all + NamedTempFile::new_in),
   commit_cache_file (terminate an unterminated last line, append `INFO URL u\n`, remove an
   existing target, persist_noclobber), and the RAII removal of the NamedTempFile on every
   exit edge other than a successful persist — including the future being dropped.
   The symbol parser is a Section variable (its verdict depends on the byte string only:
   contract of SymbolFile::parse/parse_async, properties C09/C10).  Definitions only. *)
From RM Require Export Base.Word.
Open Scope Z_scope.

Definition bytes := list Z.
Definition NL : Z := 10.
Definition INFO_URL : bytes := [73; 78; 70; 79; 32; 85; 82; 76; 32].      (* "INFO URL " *)
Definition trailer (u : bytes) : bytes := INFO_URL ++ u ++ [NL].
(* `ends_with_newline` of fetch_symbol_file: true until a byte has been seen *)
Fixpoint ends_nl_from (last_is_nl : bool) (b : bytes) : bool :=
  match b with [] => last_is_nl | c :: r => ends_nl_from (c =? NL) r end.
Definition ends_nl (b : bytes) : bool := ends_nl_from true b.
Definition sep (b : bytes) : bytes := if ends_nl b then [] else [NL].
(* what commit_cache_file leaves in the temp file *)
Definition cached_form (body u : bytes) : bytes := body ++ sep body ++ trailer u.

(* A response has two URLs: the one that was requested and the one it finally came from (`res.url()`; they differ when
   reqwest followed redirects).  Which of them fetch_symbol_file reports to the caller and which it writes into the note is
   translated from the source (Gen/C16Ops.v report_url_src / note_url_src). *)
Inductive urlsrc := URequested | UFinal.
Definition pick_url (s : urlsrc) (requested final : bytes) : bytes :=
  match s with URequested => requested | UFinal => final end.

(* ---------------------------------------------------------------- abstract file system *)
Definition path := Z.
Inductive node := File (c : bytes) | Dir.
Record fs := mkfs {
  cache : path -> option node;       (* object at a cache path *)
  cdir : path -> bool;               (* the directory <debug_file>/<id>/ of a cache path exists *)
  tmp : list (Z * bytes)             (* regular files in the tmp directory: name, content *)
}.
Definition set_cache (f : fs) (p : path) (v : option node) : fs :=
  mkfs (fun q => if q =? p then v else cache f q) (cdir f) (tmp f).
Definition set_cdir (f : fs) (p : path) : fs :=
  mkfs (cache f) (fun q => if q =? p then true else cdir f q) (tmp f).
Definition fresh (l : list (Z * bytes)) : Z := fold_right (fun e m => Z.max (fst e + 1) m) 0 l.
Definition add_tmp (f : fs) (n : Z) (c : bytes) : fs := mkfs (cache f) (cdir f) ((n, c) :: tmp f).
Definition rm_tmp (f : fs) (n : Z) : fs :=
  mkfs (cache f) (cdir f) (filter (fun e => negb (fst e =? n)) (tmp f)).
Definition write_tmp (f : fs) (n : Z) (c : bytes) : fs :=
  mkfs (cache f) (cdir f) (map (fun e => if fst e =? n then (n, c) else e) (tmp f)).
(* Drop of an Option<NamedTempFile> *)
Definition drop_temp (f : fs) (tf : option Z) : fs :=
  match tf with Some n => rm_tmp f n | None => f end.
Definition cache_file (f : fs) (p : path) : option bytes :=
  match cache f p with Some (File c) => Some c | _ => None end.

(* outcomes of the file-system calls of one fetch (arbitrary: the theorems quantify over them) *)
Record env := mkenv {
  mk_ok : bool;            (* fs::create_dir_all(base) *)
  create_ok : bool;        (* NamedTempFile::new_in(tmp) *)
  wr_ok : Z -> bool;       (* write_all bringing the temp file to this length *)
  rm_ok : bool;            (* fs::remove_file(final_path) of an existing regular file *)
  persist_ok : bool        (* persist_noclobber *)
}.
Record server := mkserver { s_id : Z; s_url : bytes; s_env : env }.

(* what the future observes, in order *)
Inductive event :=
| EHead (status : Z)        (* response head *)
| ESendErr                  (* send() failed: refused, reset, timeout before the head *)
| EChunk (bs : bytes)       (* next body chunk *)
| EBodyErr                  (* chunk() failed: connection cut, framing error, timeout *)
| EEof                      (* chunk() returned None: the whole body has arrived *)
| EDrop.                    (* the future is dropped at this await point *)

Section Machine.
  Variable T : Type.                                   (* symbol table (SymbolFile without url) *)
  Variable parse : bytes -> option (T * option bytes). (* whole-input verdict; last INFO URL record *)
  Variable early : bytes -> bool.                      (* the streaming parser has already failed on this prefix *)
  Variable p : path.                                   (* cache path of the module *)

  Inductive result :=
  | ROk (t : T) (url : option bytes)
  | RNotFound
  | RParse.

  Inductive phase :=
  | PSend                                  (* awaiting client.get(url).send() *)
  | PBody (tf : option Z) (got : bytes).   (* inside parse_async: our temp file (if still caching), bytes received *)

  Inductive lstate :=
  | LRun (rest : list server) (cur : server) (ph : phase)
  | LDone (r : result)
  | LDropped.

  Record st := mkst { s_fs : fs; s_log : list Z; s_l : lstate }.

  (* the `for url in &self.urls` loop: any Err of fetch_symbol_file moves on *)
  Definition next_server (f : fs) (log : list Z) (ss : list server) : st :=
    match ss with
    | [] => mkst f log (LDone RNotFound)
    | s :: rest => mkst f (log ++ [s_id s]) (LRun rest s PSend)
    end.

  Definition create_cache_file (e : env) (f : fs) : fs * option Z :=
    if mk_ok e then
      let f1 := set_cdir f p in
      if create_ok e then let n := fresh (tmp f1) in (add_tmp f1 n [], Some n) else (f1, None)
    else (f, None).

  (* the tee callback; the temp file holds what has been received (the callback lags behind
     by at most the unfinished last line, and has delivered everything when the parse is Ok) *)
  Definition tee_write (e : env) (f : fs) (tf : option Z) (got : bytes) : fs * option Z :=
    match tf with
    | None => (f, None)
    | Some n => if wr_ok e (Z.of_nat (length got)) then (write_tmp f n got, Some n) else (rm_tmp f n, None)
    end.

  Definition commit_cache_file (e : env) (f : fs) (n : Z) (body u : bytes) : fs :=
    let l1 := Z.of_nat (length (body ++ sep body)) in
    let content := cached_form body u in
    if negb (ends_nl body) && negb (wr_ok e l1) then rm_tmp f n
    else if negb (wr_ok e (Z.of_nat (length content))) then rm_tmp f n
    else
      let persist (g : fs) :=
        if persist_ok e then rm_tmp (set_cache g p (Some (File content))) n   (* rename: leaves tmp *)
        else rm_tmp g n in
      match cache f p with
      | None => persist f
      | Some Dir => rm_tmp f n                       (* remove_file on a directory fails *)
      | Some (File _) => if rm_ok e then persist (set_cache f p None) else rm_tmp f n
      end.

  Definition step (s : st) (ev : event) : st :=
    match s_l s with
    | LDone _ | LDropped => s
    | LRun rest cur ph =>
        let f := s_fs s in
        let e := s_env cur in
        match ph, ev with
        | PSend, EDrop => mkst f (s_log s) LDropped
        | PSend, EHead code =>
            if 400 <=? code then next_server f (s_log s) rest
            else let '(f1, tf) := create_cache_file e f in mkst f1 (s_log s) (LRun rest cur (PBody tf []))
        | PSend, _ => next_server f (s_log s) rest      (* send error / protocol violation *)
        | PBody tf got, EDrop => mkst (drop_temp f tf) (s_log s) LDropped
        | PBody tf got, EChunk bs =>
            let got' := got ++ bs in
            if early got' then next_server (drop_temp f tf) (s_log s) rest
            else let '(f1, tf1) := tee_write e f tf got' in mkst f1 (s_log s) (LRun rest cur (PBody tf1 got'))
        | PBody tf got, EEof =>
            match parse got with
            | None => next_server (drop_temp f tf) (s_log s) rest
            | Some (t, _) =>
                let f1 := match tf with Some n => commit_cache_file e f n got (s_url cur) | None => f end in
                mkst f1 (s_log s) (LDone (ROk t (Some (s_url cur))))
            end
        | PBody tf got, _ => next_server (drop_temp f tf) (s_log s) rest   (* body error / protocol violation *)
        end
    end.

  Definition run (s : st) (evs : list event) : st := fold_left step evs s.
  Definition net_start (f : fs) (ss : list server) : st := next_server f [] ss.

  (* SimpleSymbolSupplier over local paths ++ [cache]: the first existing file decides *)
  Fixpoint first_file (l : list (option bytes)) : option bytes :=
    match l with [] => None | Some c :: _ => Some c | None :: r => first_file r end.

  (* locate_symbols; [race]: what another process has put at the cache path by the time the
     first request is answered (None = nothing happened) *)
  Definition locate (f : fs) (locals : list (option bytes)) (race : option bytes)
             (ss : list server) (evs : list event) : st :=
    match first_file (locals ++ [cache_file f p]) with
    | Some c => match parse c with
                | Some (t, u) => mkst f [] (LDone (ROk t u))
                | None => mkst f [] (LDone RParse)            (* not NotFound: no cascade *)
                end
    | None =>
        let f1 := match race, ss with
                  | Some c, _ :: _ => set_cache (set_cdir f p) p (Some (File c))
                  | _, _ => f
                  end in
        run (net_start f1 ss) evs
    end.
End Machine.

Arguments ROk {T} t url.
Arguments RNotFound {T}.
Arguments RParse {T}.
Arguments LRun {T} rest cur ph.
Arguments LDone {T} r.
Arguments LDropped {T}.
Arguments s_fs {T} s.
Arguments s_log {T} s.
Arguments s_l {T} s.
Arguments mkst {T} s_fs s_log s_l.
