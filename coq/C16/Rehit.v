(* C16/Rehit.v — the cache-hit theorem for the parser model of C09/C10 (no assumed contract). *)
From RM Require Import C09.Grammar C10.Model C10.ProofsCache C16.Model C16.Proofs.
Open Scope Z_scope.

(* the cached form of C16/Model.v and the one the parser contract of C10 speaks about are the same term *)
Lemma cached_form_same : forall b u, C16.Model.cached_form b u = C10.Model.cached_form b u.
Proof. reflexivity. Qed.

Lemma contract_parse_bytes : forall ss, Forall (fun s => url_ok (s_url s)) ss ->
  trailer_contract_on table parse_bytes ss.
Proof.
  intros ss Hok b t x cur Hin Hp. rewrite cached_form_same.
  apply (cached_form_parse b (s_url cur) t x); [|exact Hp].
  rewrite Forall_forall in Hok. apply (Hok cur Hin).
Qed.

Lemma rehit_same_bytes : forall early p f0 locals ss evs t u ss2 evs2,
  Forall (fun s => url_ok (s_url s)) ss ->
  let s1 := locate table parse_bytes early p f0 locals None ss evs in
  s_l s1 = LDone (ROk t u) ->
  (exists c, cache (s_fs s1) p = Some (File c)) ->
  let s2 := locate table parse_bytes early p (s_fs s1) locals None ss2 evs2 in
  s_l s2 = LDone (ROk t u) /\ s_log s2 = [] /\ s_fs s2 = s_fs s1.
Proof.
  intros early p f0 locals ss evs t u ss2 evs2 Hok.
  apply (rehit_same_on table parse_bytes early p). apply contract_parse_bytes. exact Hok.
Qed.
