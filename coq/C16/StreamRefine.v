(* C16/StreamRefine.v — the abstract state machine of C16/Model.v against the streaming download of C16/Stream.v.
   Model.v is given the whole-body verdict of the streaming parser as its [parse] parameter; for ONE response — a head with
   a non-error status, the body in chunks, a clean end — its run is the closed form [fetch_closed], which is also what
   [stream_fetch] computes under every chunking (StreamProofs.stream_fetch_closed_form).  So for bodies with lines shorter
   than 80 KiB and environments in which the tee's writes succeed (create_dir_all, NamedTempFile::new_in, remove_file,
   persist stay arbitrary), the model with the abstract parser and "the temp file holds all bytes received" is not a
   simplification of the streaming code: both compute the same file system and the same result. *)
From Coq Require Import Lia ZArith List Bool.
From RM Require Import Base.Word C09.Model C10.Model C10.Stream C10.ProofsStream C16.Model C16.Proofs C16.Stream C16.StreamProofs.
Import ListNotations.
Open Scope Z_scope.

Lemma fs_eta : forall f : fs, mkfs (cache f) (cdir f) (tmp f) = f.
Proof. intros [c d t]. reflexivity. Qed.

Lemma write_tmp_twice : forall f n x y, write_tmp (write_tmp f n x) n y = write_tmp f n y.
Proof.
  intros f n x y. unfold write_tmp. cbn [cache cdir tmp]. f_equal. rewrite map_map. apply map_ext.
  intros [k c]. cbn [fst]. destruct (Z.eqb_spec k n) as [E|E]; cbn [fst]; [rewrite Z.eqb_refl; reflexivity|].
  destruct (Z.eqb_spec k n); [contradiction|reflexivity].
Qed.

Lemma rm_write : forall f n x, rm_tmp (write_tmp f n x) n = rm_tmp f n.
Proof.
  intros f n x. unfold rm_tmp, write_tmp. cbn [cache cdir tmp]. f_equal.
  induction (tmp f) as [|[k c] l IH]; cbn [map filter fst]; [reflexivity|].
  destruct (Z.eqb_spec k n) as [E|E]; cbn [fst].
  - rewrite Z.eqb_refl. cbn [negb]. exact IH.
  - destruct (Z.eqb_spec k n); [contradiction|]. cbn [negb]. f_equal. exact IH.
Qed.

Lemma create_write_nil : forall p e f f1 n,
  create_cache_file p e f = (f1, Some n) -> write_tmp f1 n [] = f1.
Proof.
  intros p e f f1 n H. unfold create_cache_file in H.
  destruct (mk_ok e); [destruct (create_ok e)|]; inversion H; subst; clear H.
  unfold write_tmp, add_tmp, set_cdir. cbn [cache cdir tmp]. f_equal. apply write_fresh.
Qed.

Section Refine.
  Variable L : Type.
  Variable llen : L -> Z.
  Variable PS : Type.
  Variable init_ps : PS.
  Variable recog : PS -> L -> PS + Z.
  Variable bump : PS -> PS.
  Variable lineno : PS -> Z.
  Variable T : Type.
  Variable finish : PS -> option T.
  Variable split : bytes -> list L * Z.
  Variable p : path.
  Hypothesis llen_pos : forall l, 1 <= llen l.

  Notation verdict := (verdict L PS init_ps recog lineno T finish).
  Notation fetch_closed := (fetch_closed L PS init_ps recog lineno T finish split p).

  (* the whole-body verdict of the streaming parser as the parser parameter of Model.v *)
  Definition parse_v (b : bytes) : option (T * option bytes) :=
    match verdict (fst (split b)) (snd (split b)) with FOk t => Some (t, None) | _ => None end.
  Definition never (b : bytes) : bool := false.

  Notation mrun := (Model.run T parse_v never p).

  (* the tee over a list of chunks when every write succeeds *)
  Definition teed (f : fs) (tf : option Z) (got : bytes) (chunks : list bytes) : fs :=
    match tf, chunks with
    | Some n, _ :: _ => write_tmp f n (got ++ concat chunks)
    | _, _ => f
    end.

  Lemma run_chunks : forall e rest cur log chunks f tf got,
    s_env cur = e -> writes_ok e ->
    mrun (mkst f log (LRun rest cur (PBody tf got))) (map EChunk chunks)
    = mkst (teed f tf got chunks) log (LRun rest cur (PBody tf (got ++ concat chunks))).
  Proof.
    intros e rest cur log chunks. induction chunks as [|c chunks IH]; intros f tf got He Hw.
    - cbn [map Model.run fold_left concat teed]. rewrite app_nil_r. destruct tf; reflexivity.
    - cbn [map Model.run fold_left]. unfold Model.step at 2. cbn [s_l s_fs s_log never].
      unfold tee_write. destruct tf as [n|].
      + rewrite He, Hw.
        change (fold_left (Model.step T parse_v never p) (map EChunk chunks) ?s) with (mrun s (map EChunk chunks)).
        rewrite (IH (write_tmp f n (got ++ c)) (Some n) (got ++ c) He Hw).
        cbn [concat teed]. rewrite <- app_assoc. f_equal.
        destruct chunks as [|c2 chunks']; [cbn [concat]; rewrite app_nil_r; reflexivity|].
        rewrite write_tmp_twice. cbn [concat]. rewrite <- ?app_assoc. reflexivity.
      + change (fold_left (Model.step T parse_v never p) (map EChunk chunks) ?s) with (mrun s (map EChunk chunks)).
        rewrite (IH f None (got ++ c) He Hw). cbn [concat teed]. rewrite <- app_assoc. reflexivity.
  Qed.

  (* ONE response with a clean end, as the model sees it *)
  Lemma model_response : forall e u rest cur log f code chunks,
    s_env cur = e -> s_url cur = u -> writes_ok e -> code < 400 ->
    let b := concat chunks in
    mrun (mkst f log (LRun rest cur PSend)) (EHead code :: map EChunk chunks ++ [EEof])
    = match snd (fetch_closed e u f b) with
      | FOk t => mkst (fst (fetch_closed e u f b)) log (LDone (ROk t (Some u)))
      | _ => next_server T (fst (fetch_closed e u f b)) log rest
      end.
  Proof.
    intros e u rest cur log f code chunks He Hu Hw Hcode b.
    cbn [Model.run fold_left]. unfold Model.step at 2. cbn [s_l s_fs s_log].
    destruct (Z.leb_spec 400 code) as [H|_]; [lia|]. rewrite He.
    unfold StreamProofs.fetch_closed.
    destruct (create_cache_file p e f) as [f1 tf] eqn:Hcr.
    rewrite fold_left_app.
    change (fold_left (Model.step T parse_v never p) (map EChunk chunks) ?s) with (mrun s (map EChunk chunks)).
    rewrite (run_chunks e rest cur log chunks f1 tf [] He Hw). cbn [app fold_left].
    unfold Model.step. cbn [s_l s_fs s_log]. fold b.
    unfold parse_v.
    destruct (verdict (fst (split b)) (snd (split b))) as [t|c| |]; cbn [fst snd].
    - rewrite He, Hu. f_equal.
      destruct tf as [n|]; [|reflexivity].
      unfold teed. destruct chunks as [|c1 chunks'].
      + (* no chunk at all: the temp file is still empty, and so is the body *)
        cbn [concat] in b. subst b. rewrite (create_write_nil p e f f1 n Hcr). reflexivity.
      + cbn [app]. reflexivity.
    - f_equal. unfold teed. destruct tf as [n|]; [|reflexivity]. destruct chunks; [reflexivity|]. cbn [drop_temp]. apply rm_write.
    - f_equal. unfold teed. destruct tf as [n|]; [|reflexivity]. destruct chunks; [reflexivity|]. cbn [drop_temp]. apply rm_write.
    - f_equal. unfold teed. destruct tf as [n|]; [|reflexivity]. destruct chunks; [reflexivity|]. cbn [drop_temp]. apply rm_write.
  Qed.

  Notation stream_fetch := (stream_fetch L llen PS init_ps recog bump lineno T finish split p).

  (* ... and under EVERY chunking the streaming download computes exactly that *)
  Lemma model_response_is_stream_fetch : forall e u rest cur log f code chunks script,
    s_env cur = e -> s_url cur = u -> writes_ok e -> code < 400 ->
    let b := concat chunks in
    split_ok L llen split b -> delivered script = Z.of_nat (length b) ->
    short_lines llen (fst (split b)) (snd (split b)) -> fails script = false ->
    mrun (mkst f log (LRun rest cur PSend)) (EHead code :: map EChunk chunks ++ [EEof])
    = match snd (stream_fetch e u f b script) with
      | FOk t => mkst (fst (stream_fetch e u f b script)) log (LDone (ROk t (Some u)))
      | _ => next_server T (fst (stream_fetch e u f b script)) log rest
      end.
  Proof.
    intros e u rest cur log f code chunks script He Hu Hw Hcode b Hs Hd Hsh Hfl.
    rewrite (stream_fetch_closed_form L llen PS init_ps recog bump lineno T finish split p llen_pos e u f b script Hw Hs Hd Hsh Hfl).
    apply model_response; assumption.
  Qed.

  (* a response whose body fails: the model moves on to the next server with the temp file dropped — and so does the
     streaming download, whatever had been delivered (ALL inputs, every write outcome) *)
  Lemma stream_fetch_failed_fs : forall e u f b script,
    split_ok L llen split b -> delivered script = Z.of_nat (length b) -> fails script = true ->
    fst (stream_fetch e u f b script)
    = drop_temp (fst (create_cache_file p e f)) (snd (create_cache_file p e f)).
  Proof.
    intros e u f b script Hs Hd Hfl.
    destruct (stream_fetch_failed_body L llen PS init_ps recog bump lineno T finish split p llen_pos e u f b script Hs Hd Hfl) as [_ Hne].
    unfold Stream.stream_fetch in *.
    destruct (create_cache_file p e f) as [f1 tf]. destruct (split b) as [lines tail].
    destruct (iter_fetch L llen PS recog bump lineno e (fuel_for L llen lines tail) (init_stream L llen PS init_ps lines tail script) (tee0 tf)) as [r w].
    cbn [fst snd] in *.
    destruct r as [x1|[ps|c ln] x1|t1]; try reflexivity.
    destruct (finish ps) as [t|]; [|reflexivity].
    destruct w; exfalso; apply (Hne t); reflexivity.
  Qed.

  Lemma model_failed_response : forall e rest cur log f code chunks,
    s_env cur = e -> writes_ok e -> code < 400 ->
    mrun (mkst f log (LRun rest cur PSend)) (EHead code :: map EChunk chunks ++ [EBodyErr])
    = next_server T (drop_temp (fst (create_cache_file p e f)) (snd (create_cache_file p e f))) log rest.
  Proof.
    intros e rest cur log f code chunks He Hw Hcode.
    cbn [Model.run fold_left]. unfold Model.step at 2. cbn [s_l s_fs s_log].
    destruct (Z.leb_spec 400 code) as [H|_]; [lia|]. rewrite He.
    destruct (create_cache_file p e f) as [f1 tf]. cbn [fst snd].
    rewrite fold_left_app.
    change (fold_left (Model.step T parse_v never p) (map EChunk chunks) ?s) with (mrun s (map EChunk chunks)).
    rewrite (run_chunks e rest cur log chunks f1 tf [] He Hw). cbn [app fold_left].
    unfold Model.step. cbn [s_l s_fs s_log]. f_equal.
    unfold teed. destruct tf as [n|]; [|reflexivity]. destruct chunks; [reflexivity|]. cbn [drop_temp]. apply rm_write.
  Qed.
End Refine.
