(* C16/SharedProofs2.v — provenance of a new entry in the shared cache: the step that puts a file at
   the path is the persist of a client inside commit_cache_file, and the file is the committed form
   of exactly the body that client received, with the URL of the server it is talking to. *)
From Coq Require Import Lia.
From RM Require Import C16.Model C16.Shared C16.SharedProofs.
Open Scope Z_scope.

Section Provenance.
  Variable T : Type.
  Variable parse : bytes -> option (T * option bytes).
  Variable create_ops : list fsop.
  Variable commit_ops : list fsop.
  Hypothesis Hcreate : forallb create_allowed create_ops = true.
  Hypothesis Hcommit : commit_ops = std_commit.
  Variable c0 : option node.

  Let mstep := mstep T parse create_ops commit_ops.
  Let mrun := mrun T parse create_ops commit_ops.

  Lemma step_new_entry : forall i f (c : client T) a f1 c1 cc,
    client_ok T parse i f c ->
    step_client T parse create_ops commit_ops i f c a = (f1, c1) ->
    m_cache f1 = Some (File cc) -> m_cache f <> Some (File cc) ->
    exists ops body t x, c_ph c = CCommit ops body t /\ parse body = Some (t, x) /\
                         cc = cached_form body (url_of T c).
  Proof.
    intros i f [srv ph] a f1 c1 cc Hc Hs H1 H0.
    unfold client_ok in Hc. cbn [c_ph] in Hc.
    destruct ph as [| |ops|got|ops body t|r|].
    7: { exfalso. apply H0. rewrite <- H1. destruct a as [|ev|]; try destruct ev; inversion Hs; reflexivity. }
    6: { exfalso. apply H0. rewrite <- H1. destruct a as [|ev|]; try destruct ev; inversion Hs; reflexivity. }
    - exfalso. apply H0. rewrite <- H1. unfold step_client in Hs. cbn [c_ph] in Hs.
      destruct a as [|ev|]; try (inversion Hs; reflexivity).
      destruct (m_cache f) as [[b|]|] eqn:Ec; inversion Hs; subst; congruence.
    - exfalso. apply H0. rewrite <- H1. unfold step_client in Hs. cbn [c_ph] in Hs.
      destruct a as [|ev|]; try (inversion Hs; reflexivity).
      destruct ev as [code| | | | |]; try (inversion Hs; reflexivity).
      destruct (400 <=? code); inversion Hs; reflexivity.
    - (* CCreate: only allowed operations *)
      exfalso. apply H0. rewrite <- H1. destruct Hc as [Hall _].
      unfold step_client in Hs. cbn [c_ph] in Hs.
      destruct a as [|ev|].
      + destruct ops; inversion Hs; reflexivity.
      + destruct ops; destruct ev; inversion Hs; reflexivity.
      + destruct ops as [|o r]; [inversion Hs; reflexivity|].
        cbn in Hall. apply andb_prop in Hall. destruct Hall as [Ho _].
        destruct (exec_op (env_of T {| c_srv := srv; c_ph := CCreate (o :: r) |}) i []
                          (url_of T {| c_srv := srv; c_ph := CCreate (o :: r) |}) f o) as [f2 ok] eqn:E.
        destruct (exec_op_create_allowed T parse create_ops commit_ops Hcommit _ _ _ _ _ _ _ _ Ho E) as [Hcache _].
        destruct ok; inversion Hs; subst; cbn; rewrite ?Hcache; reflexivity.
    - (* CBody *)
      exfalso. apply H0. rewrite <- H1. unfold step_client in Hs. cbn [c_ph] in Hs.
      destruct a as [|ev|]; try (inversion Hs; reflexivity).
      destruct ev as [code| |bs| | |]; try (inversion Hs; reflexivity).
      + destruct (m_tmp f i); [destruct (wr_ok _ _)|]; inversion Hs; reflexivity.
      + destruct (parse got) as [[t x]|]; [destruct (m_tmp f i)|]; inversion Hs; reflexivity.
    - (* CCommit *)
      destruct Hc as [[x Hp] Hpos].
      unfold step_client in Hs. cbn [c_ph] in Hs.
      destruct a as [|ev|].
      + exfalso. apply H0. rewrite <- H1. destruct ops; inversion Hs; reflexivity.
      + exfalso. apply H0. rewrite <- H1. destruct ops; destruct ev; inversion Hs; reflexivity.
      + cbn [url_of c_srv] in Hpos. apply commit_pos_cases in Hpos.
        destruct Hpos as [[E Et]|[[E Et]|[[E Et]|[[E Et]|[E Et]]]]]; subst ops.
        * exfalso. apply H0. rewrite <- H1. inversion Hs; reflexivity.
        * exfalso. apply H0. rewrite <- H1. unfold std_commit in Hs. cbn [exec_op] in Hs. rewrite Et in Hs.
          destruct (ends_nl body); [|destruct (wr_ok _ _)]; inversion Hs; reflexivity.
        * exfalso. apply H0. rewrite <- H1. cbn [exec_op] in Hs. rewrite Et in Hs.
          destruct (wr_ok _ _); inversion Hs; reflexivity.
        * exfalso. cbn [exec_op] in Hs.
          destruct (m_cache f) as [[b|]|] eqn:Ec.
          -- destruct (rm_ok _); inversion Hs; subst; cbn in H1; [discriminate|].
             apply H0. rewrite <- Ec. exact H1.
          -- inversion Hs; subst; cbn in H1. rewrite Ec in H1. discriminate.
          -- inversion Hs; subst; cbn in H1. rewrite Ec in H1. discriminate.
        * cbn [exec_op] in Hs. rewrite Et in Hs.
          destruct (m_cache f) as [nd|] eqn:Ec.
          -- exfalso. apply H0. rewrite <- H1. inversion Hs; subst; cbn. rewrite Ec. reflexivity.
          -- destruct (persist_ok _); inversion Hs; subst; cbn in H1.
             ++ inversion H1; subst. exists [OPersist], body, t, x. repeat split; [exact Hp].
             ++ rewrite Ec in H1. discriminate.
  Qed.

  Lemma shared_new_entry_provenance : forall f srv sched i a cc,
    m_cache f = c0 -> (forall i, m_tmp f i = None) ->
    let s := mrun (minit T f srv) sched in
    m_cache (ms_fs (mstep s (i, a))) = Some (File cc) -> m_cache (ms_fs s) <> Some (File cc) ->
    exists ops body t x, c_ph (ms_cl s i) = CCommit ops body t /\ parse body = Some (t, x) /\
                         cc = cached_form body (url_of T (ms_cl s i)).
  Proof.
    intros f srv sched i a cc Hc Ht s H1 H0.
    pose proof (mrun_inv T parse create_ops commit_ops Hcreate Hcommit c0 sched _
                  (init_inv T parse c0 f srv Hc Ht)) as [_ Hcl]. fold mrun in Hcl. fold s in Hcl.
    unfold mstep, Shared.mstep in H1.
    destruct (Shared.step_client T parse create_ops commit_ops i (ms_fs s) (ms_cl s i) a) as [f1 c1] eqn:E.
    cbn in H1. exact (step_new_entry i (ms_fs s) (ms_cl s i) a f1 c1 cc (Hcl i) E H1 H0).
  Qed.
End Provenance.
