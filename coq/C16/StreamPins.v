(* C16/StreamPins.v — the loop the streaming fetch runs ([step_stream], C10/Stream.v) is the loop assembled from what
   the translators extract from parse_async's source on every run: the conditions / flag updates / buffer arithmetic
   of coq/Gen/SymFileLoop.v (translate/symfile_loop.py, the async_ definitions; circular 0.3.0) and the refill block
   of coq/Gen/C10Stream.v (translate/c10_stream.py).  An edit of parse_async changes those files (or makes the
   translators abort) and with them the function the theorems of C16/Properties.v about the download are checked against. *)
From Coq Require Import ZArith List Bool.
From RM Require Import Base.Word C09.Model C09.Pins C10.Stream C10.ProofsStream.
Import ListNotations.
Open Scope Z_scope.

Section Src.
  Variable L : Type.
  Variable llen : L -> Z.
  Variable PS : Type.
  Variable recog : PS -> L -> PS + Z.
  Variable bump : PS -> PS.
  Variable lineno : PS -> Z.

  Definition step_stream_src (x : @sst L PS) : @sres L PS :=
    let s0 := core x in
    if pr s0 && negb (geom_ok (buf s0)) then SPanic 2 else
    let s1 := if pr s0 then recovery_src L llen PS bump async_conds s0 else s0 in
    match refill_src (cur x) (pend x) with
    | None => SDone (RErr LOAD_ERROR 0) (mk_sst s1 0 [])
    | Some (c1, pend1) =>
        let b := buf s1 in
        if negb (geom_ok b) then SPanic 1 else
        let sp := space b in
        let n := Z.max 0 (Z.min sp c1) in
        wrap L PS (c1 - n) pend1 (step_after_read_src L llen PS recog lineno async_conds n [] sp s1)
    end.

  Lemma step_stream_is_source : forall x,
    step_stream L llen PS recog bump lineno x = step_stream_src x.
  Proof.
    intros x. unfold step_stream, step_stream_src.
    destruct (pin_recovery L llen PS bump (core x)) as [_ R2]. rewrite <- R2.
    rewrite refill_is_source.
    destruct (pr (core x) && negb (geom_ok (buf (core x)))); [reflexivity|].
    destruct (refill_src (cur x) (pend x)) as [[c1 pend1]|]; [|reflexivity].
    set (s1 := if pr (core x) then recovery L llen PS bump (core x) else core x).
    destruct (negb (geom_ok (buf s1))); [reflexivity|].
    destruct (pin_step_after_read L llen PS recog lineno (Z.max 0 (Z.min (space (buf s1)) c1)) [] (space (buf s1)) s1) as [_ A].
    rewrite <- A. reflexivity.
  Qed.
End Src.
