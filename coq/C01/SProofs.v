(* C01/SProofs.v — round 5: get_memory / stack_memory never trap; a stack found through the fallback is a region of the list. *)
From Coq Require Import Lia.
From RM Require Import C01.Model C01.Proofs C01.Driver C01.Final C01.QModel C01.QProofs C01.LModel C01.LProofs C01.SModel.
Open Scope Z_scope.

Lemma lookups_at_rsat : forall p descs addrs, wf_descs descs ->
  rsat (fun l => blen l = blen addrs /\ Forall (fun i => -1 <= i < blen descs) l) (lookups_at p descs addrs).
Proof.
  intros p descs addrs H. unfold lookups_at.
  eapply rsat_bind; [apply ranges_of_rsat; exact H|]. intros ranges (Hr & Hl).
  rewrite (table_of_ok ranges Hr). cbn [rbind].
  assert (G : rsat (Forall (fun i => -1 <= i < blen descs)) (seq_res (map (index_at (the_table ranges) (blen ranges)) addrs))).
  { apply seq_res_rsat_all. apply Forall_forall. intros x Hx. apply in_map_iff in Hx. destruct Hx as (a & <- & _).
    eapply rsat_weaken; [|apply index_at_rsat; exact Hr]. intros i [->|((Hi1 & Hi2) & _)]; pose proof (blen_nonneg _ descs); lia. }
  assert (L : forall (l : list (res Z)) rs, seq_res l = Ok rs -> blen rs = blen l).
  { induction l as [|x t IH]; intros rs Hrs; cbn [seq_res] in Hrs; [inversion Hrs; reflexivity|].
    destruct x as [a| | |]; cbn [rbind] in Hrs; try discriminate.
    destruct (seq_res t) as [r| | |] eqn:Et; cbn [rbind] in Hrs; try discriminate.
    inversion Hrs; subst. unfold blen; cbn [length]. specialize (IH r eq_refl). unfold blen in IH. lia. }
  destruct G as (G1 & G2 & G3). split; [exact G1|]. split; [exact G2|].
  intros l Hl'. split; [|apply G3; exact Hl']. rewrite (L _ _ Hl'). unfold blen. rewrite map_length. reflexivity.
Qed.

Lemma unified_memory_rsat : forall e m64raw m64 mem, rsat wf_bytes m64raw -> rsat (fun _ => True) m64 -> rsat (Forall wf_bytes) mem ->
  rsat (fun u => wf_descs (snd u) /\ 0 <= fst u <= 2) (unified_memory e m64raw m64 mem).
Proof.
  intros e m64raw m64 mem Hraw (H1 & H2 & _) (M1 & M2 & M3). unfold unified_memory.
  destruct m64 as [n|er|t|]; [| |exfalso; exact (H1 t eq_refl)|exfalso; exact (H2 eq_refl)].
  - eapply rsat_bind; [exact Hraw|]. intros b Hb. apply rsat_ok. cbn [fst snd]. split; [apply mem64_descs_wf; exact Hb|lia].
  - destruct mem as [regions|er'|t|]; [| |exfalso; exact (M1 t eq_refl)|exfalso; exact (M2 eq_refl)].
    + apply rsat_ok. cbn [fst snd]. split; [apply mem_descs_wf; apply M3; reflexivity|lia].
    + apply rsat_ok. cbn [fst snd]. split; [constructor|lia].
Qed.

(* what q_ts answers: the list kind, then per thread -2 (own stack), -1 (none) or a position of the unified list *)
Definition ts_ok (l : list Z) : Prop :=
  match l with [] => False | k :: srcs => 0 <= k <= 2 /\ Forall (fun i => -2 <= i) srcs end.

Lemma q_ts_rsat : forall p e file tl um, rsat (fun _ => True) tl -> rsat (fun u => wf_descs (snd u) /\ 0 <= fst u <= 2) um ->
  rsat ts_ok (q_ts p e file tl um).
Proof.
  intros p e file tl um Htl Hum. unfold q_ts.
  eapply rsat_bind; [exact Htl|]. intros raws _.
  eapply rsat_bind; [exact Hum|]. intros u (Hu & Hk).
  eapply rsat_bind; [apply lookups_at_rsat; exact Hu|]. intros found (_ & Hf).
  apply rsat_ok. cbn [ts_ok]. split; [exact Hk|].
  apply Forall_forall. intros x Hx. apply in_map_iff in Hx. destruct Hx as ((d & i) & <- & Hin).
  apply in_combine_r in Hin. rewrite Forall_forall in Hf. specialize (Hf _ Hin). cbn [fst snd]. unfold stack_source.
  destruct (thread_stack_ok e file d); lia.
Qed.

(* the stack a thread gets through the fallback is a region of the unified list whose range contains start_of_memory_range *)
Lemma stack_fallback_sound : forall p descs addr i, wf_descs descs ->
  lookups_at p descs [addr] = Ok [i] -> i = -1 \/ 0 <= i < blen descs.
Proof.
  intros p descs addr i H E. destruct (lookups_at_rsat p descs [addr] H) as (_ & _ & G).
  destruct (G _ E) as (_ & F). inversion F; subst. lia.
Qed.

Lemma run_stacks_total : forall p file, wf_bytes file -> blen file < T62 ->
  forall tag f, In (tag, f) (run_stacks p file) -> (forall t, f <> FPan t) /\ f <> FNoFuel.
Proof.
  intros p file Hwf Hlen tag f Hin. unfold run_stacks in Hin.
  destruct (read_header file) as [[e ds]| | |]; try contradiction.
  pose proof (blen_nonneg _ file) as Hnn.
  cbn [In] in Hin. destruct Hin as [H|[H|[]]]; inversion H; subst; clear H; eapply fld_rsat.
  - apply q_ts_rsat.
    + exact (proj2 (s_tl_sat p e file ds Hwf Hlen)).
    + apply unified_memory_rsat.
      * apply raw_stream_wf; exact Hwf.
      * exact (proj2 (s_m64_sat p e file ds Hwf Hlen)).
      * unfold s_mem.
        refine (proj2 (get_stream_sat _ file ds ST_MEMORY_LIST _ (ALLOC_FILE_C * blen file) (Forall wf_bytes) Hwf _)).
        intros s Hs Hl. pose proof (blen_nonneg _ s). apply read_memory_list_wf_sat; try assumption; unfold ALLOC_FILE_C, ALLOC_C, T62 in *; lia.
  - unfold q_tig. eapply rsat_bind; [exact (proj2 (s_ti_sat p e file ds Hwf Hlen))|]. intros n _.
    eapply rsat_bind; [apply raw_stream_wf; exact Hwf|]. intros b _.
    eapply rsat_weaken; [|apply seq_res_rsat_all with (Q := fun _ => True)]; [intros; exact I|].
    apply Forall_forall. intros x Hx. apply in_map_iff in Hx. destruct Hx as (d & <- & _).
    eapply rsat_weaken; [|apply get_thread_index_rsat]. intros; exact I.
Qed.
