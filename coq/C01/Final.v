(* C01/Final.v — the whole-case statements over Driver.run_case, and the concrete files that
   refute them for the code before the fix commits. *)
From Coq Require Import Lia.
From RM Require Import C01.Model C01.Proofs C01.Driver.
Open Scope Z_scope.

Lemma fld_rsat : forall A (Q : A -> Prop) (enc : A -> list Z) r, rsat Q r ->
  (forall t, fld enc r <> FPan t) /\ fld enc r <> FNoFuel.
Proof.
  intros A Q enc r (H1 & H2 & _). destruct r as [a|e|t|]; cbn [fld].
  - split; [intros t|]; discriminate.
  - split; [intros t|]; discriminate.
  - exfalso; apply (H1 t); reflexivity.
  - exfalso; apply H2; reflexivity.
Qed.

Section Streams.
Variables (p : profile) (e : endian) (file : bytes) (ds : list dirent).
Hypothesis Hwf : wf_bytes file.
Hypothesis Hlen : blen file < T62.
Let K := ALLOC_FILE_C * blen file.

Ltac stream L := eapply get_stream_sat; [exact Hwf|]; intros s Hs Hl; pose proof (blen_nonneg _ s); apply L; try assumption; unfold K, ALLOC_FILE_C, ALLOC_C, T62 in *; lia.

Lemma s_si_sat : sat K (fun _ => True) (s_si e file ds).
Proof.
  unfold s_si. eapply get_stream_sat; [exact Hwf|]. intros s Hs Hl. apply sat_lift. unfold read_system_info.
  destruct (can_read s 0 FSZ_SYSINFO); [apply rsat_ok; exact I | apply rsat_err].
Qed.
Lemma s_ex_sat : sat K (fun _ => True) (s_ex e file ds).
Proof.
  unfold s_ex. eapply get_stream_sat; [exact Hwf|]. intros s Hs Hl. apply sat_lift. unfold read_exception.
  destruct (can_read s 0 FSZ_EXCEPTION); [apply rsat_ok; exact I | apply rsat_err].
Qed.
Lemma s_ms_sat : sat K (fun _ => True) (s_ms e file ds).
Proof.
  unfold s_ms. eapply get_stream_sat; [exact Hwf|]. intros s Hs Hl. apply sat_lift, read_misc_info_rsat.
Qed.
Lemma s_cp_sat : sat K (fun _ => True) (s_cp e file ds).
Proof.
  unfold s_cp. eapply get_stream_sat; [exact Hwf|]. intros s Hs Hl. apply read_crashpad_info_sat; [exact Hwf | unfold K; lia].
Qed.
Lemma s_sis_sat : sat K (fun _ => True) (s_sis p e file ds).
Proof. unfold s_sis. eapply get_stream_sat; [exact Hwf|]. intros s Hs Hl. apply sat_lift, sysinfo_strings_rsat; assumption. Qed.
Lemma s_as_sat : sat K (fun _ => True) (s_as e file ds).
Proof. unfold s_as. eapply get_stream_sat; [exact Hwf|]. intros s Hs Hl. apply sat_lift, read_assertion_rsat. Qed.
Lemma s_bp_sat : sat K (fun _ => True) (s_bp e file ds).
Proof. unfold s_bp. eapply get_stream_sat; [exact Hwf|]. intros s Hs Hl. apply sat_lift, read_breakpad_info_rsat. Qed.
Lemma s_mb_sat : sat K (fun _ => True) (s_mb p e file ds).
Proof. unfold s_mb. eapply get_stream_sat; [exact Hwf|]. intros s Hs Hl. apply sat_lift, read_mac_bootargs_rsat; assumption. Qed.
Lemma s_se_sat : sat K (fun _ => True) (s_se file ds).
Proof. unfold s_se. eapply get_stream_sat; [exact Hwf|]. intros s Hs Hl. apply sat_lift, read_soft_errors_rsat. Qed.
Lemma s_mc_sat : sat K (fun _ => True) (s_mc p e file ds).
Proof. unfold s_mc. eapply get_stream_sat; [exact Hwf|]. intros s Hs Hl. apply sat_lift, read_mac_crash_info_rsat; assumption. Qed.
Lemma s_tl_sat : sat K (fun _ => True) (s_tl p e file ds).
Proof. unfold s_tl. stream read_thread_list_sat. Qed.
Lemma s_ml_sat : sat K (fun _ => True) (s_ml p e file ds).
Proof. unfold s_ml. stream read_module_list_sat. Qed.
Lemma s_um_sat : sat K (fun _ => True) (s_um p e file ds).
Proof. unfold s_um. stream read_unloaded_module_list_sat. Qed.
Lemma s_mem_sat : sat K (fun _ => True) (s_mem p e file ds).
Proof. unfold s_mem. stream read_memory_list_sat. Qed.
Lemma s_m64_sat : sat K (fun _ => True) (s_m64 p e file ds).
Proof. unfold s_m64. stream read_memory64_list_sat. Qed.
Lemma s_mi_sat : sat K (fun _ => True) (s_mi p e file ds).
Proof. unfold s_mi. stream read_memory_info_list_sat. Qed.
Lemma s_ti_sat : sat K (fun _ => True) (s_ti p e file ds).
Proof. unfold s_ti. stream read_thread_info_list_sat. Qed.
Lemma s_tn_sat : sat K (fun _ => True) (s_tn p e file ds).
Proof. unfold s_tn. stream read_thread_names_sat. Qed.
Lemma s_hd_sat : sat K (fun _ => True) (s_hd Fixed p e file ds).
Proof. unfold s_hd. stream read_handle_data_fixed_sat. Qed.
End Streams.

Lemma f_exp_fixed : forall r, (forall t, f_exp Fixed r <> FPan t) /\ f_exp Fixed r <> FNoFuel.
Proof.
  intros [[n c]|e|t|]; cbn [f_exp]; try (split; [intros t'|]; discriminate).
  eapply fld_rsat. apply exception_print_fixed_rsat.
Qed.
Lemma f_exc_fixed : forall e file si r, (forall t, f_exc Fixed e file si r <> FPan t) /\ f_exc Fixed e file si r <> FNoFuel.
Proof.
  intros e file si [[n c]|er|t|]; cbn [f_exc]; try (split; [intros t'|]; discriminate).
  eapply fld_rsat. unfold exception_print_ctx.
  eapply rsat_bind; [apply exception_print_fixed_rsat|]. intros _ _.
  destruct (exc_kind _ _ _ _); [apply context_print_fixed_rsat | apply rsat_ok; exact I].
Qed.
Lemma f_tlp_fixed : forall e file si r, (forall t, f_tlp Fixed e file si r <> FPan t) /\ f_tlp Fixed e file si r <> FNoFuel.
Proof.
  intros e file si [raws|er|t|]; cbn [f_tlp]; try (split; [intros t'|]; discriminate).
  eapply fld_rsat. apply threads_print_fixed_rsat.
Qed.
Lemma f_ms_ok : forall p r, rsat (fun _ => True) r -> (forall t, f_ms p r <> FPan t) /\ f_ms p r <> FNoFuel.
Proof.
  intros p r H. unfold f_ms. eapply fld_rsat with (Q := fun _ => True). unfold misc_result.
  eapply rsat_bind; [exact H|]. intros [ver en] _. cbn [fst snd].
  destruct (ver =? 5); [|apply rsat_ok; exact I].
  eapply rsat_bind; [apply xstate_iter_rsat|]. intros; apply rsat_ok; exact I.
Qed.
Lemma f_ex_ok : forall e file si r, rsat (fun _ => True) r ->
  (forall t, f_ex e file si r <> FPan t) /\ f_ex e file si r <> FNoFuel.
Proof. intros e file si r H. unfold f_ex. eapply fld_rsat. exact H. Qed.

(* every field of a fixed-code run is neither a panic nor out of fuel; every ledger entry is
   within ALLOC_C * |file| *)
Theorem run_case_fixed_total : forall p file, wf_bytes file -> blen file < T62 ->
  (forall tag f, In (tag, f) (o_fields (run_case Fixed p file)) -> (forall t, f <> FPan t) /\ f <> FNoFuel) /\
  Forall (fun a => 0 <= a <= ALLOC_FILE_C * blen file) (o_ledger (run_case Fixed p file)).
Proof.
  intros p file Hwf Hlen. unfold run_case.
  pose proof (read_header_rsat file Hwf) as (Hp & Hn & _).
  destruct (read_header file) as [[e ds]|er|t|] eqn:E.
  - cbn [o_fields o_ledger]. split.
    + intros tag f Hin. cbn [In] in Hin.
      repeat (destruct Hin as [Hin|Hin]; [inversion Hin; subst; clear Hin|]); try contradiction.
      * split; [intros t|]; discriminate.
      * eapply fld_rsat. apply (s_si_sat e file ds Hwf).
      * unfold f_tl. eapply fld_rsat. apply (s_tl_sat p e file ds Hwf Hlen).
      * eapply fld_rsat. apply (s_ml_sat p e file ds Hwf Hlen).
      * eapply fld_rsat. apply (s_um_sat p e file ds Hwf Hlen).
      * eapply fld_rsat. apply (s_mem_sat p e file ds Hwf Hlen).
      * eapply fld_rsat. apply (s_m64_sat p e file ds Hwf Hlen).
      * eapply fld_rsat. apply (s_mi_sat p e file ds Hwf Hlen).
      * eapply fld_rsat. apply (s_ti_sat p e file ds Hwf Hlen).
      * eapply fld_rsat. apply (s_tn_sat p e file ds Hwf Hlen).
      * eapply fld_rsat. apply (s_hd_sat p e file ds Hwf Hlen).
      * apply f_ex_ok. apply (s_ex_sat e file ds Hwf).
      * apply f_exp_fixed.
      * apply f_exc_fixed.
      * apply f_tlp_fixed.
      * apply f_ms_ok. apply (s_ms_sat e file ds Hwf).
      * unfold f_kv. eapply fld_rsat. apply raw_stream_rsat; exact Hwf.
      * unfold f_kv. eapply fld_rsat. apply raw_stream_rsat; exact Hwf.
      * unfold f_kv. eapply fld_rsat. apply raw_stream_rsat; exact Hwf.
      * unfold f_kv. eapply fld_rsat. apply raw_stream_rsat; exact Hwf.
      * unfold f_lines. eapply fld_rsat. apply raw_stream_rsat; exact Hwf.
      * unfold f_ma. eapply fld_rsat. apply (s_mem_sat p e file ds Hwf Hlen).
      * eapply fld_rsat. apply (s_cp_sat e file ds Hwf).
      * eapply fld_rsat. apply (s_sis_sat p e file ds Hwf Hlen).
      * eapply fld_rsat. apply (s_as_sat e file ds Hwf).
      * eapply fld_rsat. apply (s_bp_sat e file ds Hwf).
      * eapply fld_rsat. apply (s_mb_sat p e file ds Hwf Hlen).
      * eapply fld_rsat. apply (s_se_sat file ds Hwf).
      * eapply fld_rsat. apply (s_mc_sat p e file ds Hwf Hlen).
    + repeat (apply Forall_app; split).
      * apply (s_tl_sat p e file ds Hwf Hlen).
      * apply (s_ml_sat p e file ds Hwf Hlen).
      * apply (s_um_sat p e file ds Hwf Hlen).
      * apply (s_mem_sat p e file ds Hwf Hlen).
      * apply (s_m64_sat p e file ds Hwf Hlen).
      * apply (s_mi_sat p e file ds Hwf Hlen).
      * apply (s_ti_sat p e file ds Hwf Hlen).
      * apply (s_tn_sat p e file ds Hwf Hlen).
      * apply (s_hd_sat p e file ds Hwf Hlen).
      * apply (s_cp_sat e file ds Hwf).
  - cbn [o_fields o_ledger]. split; [|constructor].
    intros tag f [Hin|[]]. inversion Hin; subst. split; [intros t|]; discriminate.
  - exfalso; apply (Hp t); reflexivity.
  - exfalso; apply Hn; reflexivity.
Qed.

(* ------------------------------------------------------------------ witnesses (corpus/C01/cases.txt) *)
Lemma wf_bytes_dec : forall b, forallb (fun x => (0 <=? x) && (x <? 256)) b = true -> wf_bytes b.
Proof.
  intros b H. unfold wf_bytes. apply Forall_forall. intros x Hx.
  rewrite forallb_forall in H. specialize (H x Hx). apply Bool.andb_true_iff in H. destruct H as [H1 H2].
  apply Z.leb_le in H1. apply Z.ltb_lt in H2. lia.
Qed.
Definition wit_a : bytes :=
  [77; 68; 77; 80; 147; 167; 0; 0; 1; 0; 0; 0; 32; 0; 0; 0; 0; 0; 0; 0; 0; 0; 0; 80; 0; 0; 0; 0; 0; 0; 0; 0; 12; 0; 0; 0; 56; 0; 0; 0; 56; 0; 0; 0; 0; 0; 0; 0; 119; 119; 0; 0; 0; 0; 0; 0; 16; 0; 0; 0; 40; 0; 0; 0; 1; 0; 0; 0; 0; 0; 0; 0; 4; 0; 0; 0; 0; 0; 0; 0; 0; 0; 0; 0; 0; 0; 0; 0; 1; 0; 0; 0; 2; 0; 0; 0; 3; 0; 0; 0; 4; 0; 0; 0; 44; 0; 0; 0; 0; 0; 0; 0].
Definition wit_b : bytes :=
  [77; 68; 77; 80; 147; 167; 0; 0; 1; 0; 0; 0; 32; 0; 0; 0; 0; 0; 0; 0; 0; 0; 0; 80; 0; 0; 0; 0; 0; 0; 0; 0; 12; 0; 0; 0; 56; 0; 0; 0; 56; 0; 0; 0; 44; 0; 0; 0; 1; 0; 0; 0; 0; 0; 0; 0; 16; 0; 0; 0; 40; 0; 0; 0; 1; 0; 0; 0; 0; 0; 0; 0; 4; 0; 0; 0; 0; 0; 0; 0; 0; 0; 0; 0; 0; 0; 0; 0; 1; 0; 0; 0; 2; 0; 0; 0; 3; 0; 0; 0; 4; 0; 0; 0; 44; 0; 0; 0; 0; 0; 0; 0].
Definition wit_c : bytes :=
  [77; 68; 77; 80; 147; 167; 0; 0; 1; 0; 0; 0; 32; 0; 0; 0; 0; 0; 0; 0; 0; 0; 0; 80; 0; 0; 0; 0; 0; 0; 0; 0; 6; 0; 0; 0; 168; 0; 0; 0; 44; 0; 0; 0; 1; 0; 0; 0; 0; 0; 0; 0; 5; 0; 0; 192; 0; 0; 0; 0; 0; 0; 0; 0; 0; 0; 0; 0; 0; 16; 64; 0; 0; 0; 0; 0; 16; 0; 0; 0; 0; 0; 0; 0; 1; 0; 0; 0; 0; 0; 0; 0; 16; 0; 0; 0; 0; 0; 0; 0; 0; 0; 0; 0; 0; 0; 0; 0; 0; 0; 0; 0; 0; 0; 0; 0; 0; 0; 0; 0; 0; 0; 0; 0; 0; 0; 0; 0; 0; 0; 0; 0; 0; 0; 0; 0; 0; 0; 0; 0; 0; 0; 0; 0; 0; 0; 0; 0; 0; 0; 0; 0; 0; 0; 0; 0; 0; 0; 0; 0; 0; 0; 0; 0; 0; 0; 0; 0; 0; 0; 0; 0; 0; 0; 0; 0; 0; 0; 0; 0; 0; 0; 0; 0; 0; 0; 0; 0; 0; 0; 0; 0; 0; 0; 0; 0; 0; 0; 0; 0; 0; 0; 0; 0; 0; 0; 0; 0; 0; 0; 0; 0].
Definition wit_d : bytes :=
  [77; 68; 77; 80; 147; 167; 0; 0; 1; 0; 0; 0; 32; 0; 0; 0; 0; 0; 0; 0; 0; 0; 0; 80; 0; 0; 0; 0; 0; 0; 0; 0; 12; 0; 0; 0; 16; 0; 0; 0; 44; 0; 0; 0; 16; 0; 0; 0; 0; 0; 0; 0; 255; 255; 255; 255; 0; 0; 0; 0].
Definition wit_e_ppc : bytes :=
  [77; 68; 77; 80; 147; 167; 0; 0; 2; 0; 0; 0; 32; 0; 0; 0; 0; 0; 0; 0; 0; 0; 0; 80; 0; 0; 0; 0; 0; 0; 0; 0; 7; 0; 0; 0; 56; 0; 0; 0; 36; 4; 0; 0; 6; 0; 0; 0; 168; 0; 0; 0; 92; 4; 0; 0; 63; 0; 0; 32; 85; 102; 119; 136; 153; 170; 187; 204; 221; 17; 34; 51; 68; 85; 102; 119; 136; 153; 170; 187; 204; 221; 17; 34; 51; 68; 85; 102; 119; 136; 153; 170; 187; 204; 221; 17; 34; 51; 68; 85; 102; 119; 136; 153; 170; 187; 204; 221; 17; 34; 51; 68; 85; 102; 119; 136; 153; 170; 187; 204; 221; 17; 34; 51; 68; 85; 102; 119; 136; 153; 170; 187; 204; 221; 17; 34; 51; 68; 85; 102; 119; 136; 153; 170; 187; 204; 221; 17; 34; 51; 68; 85; 102; 119; 136; 153; 170; 187; 204; 221; 17; 34; 51; 68; 85; 102; 119; 136; 153; 170; 187; 204; 221; 17; 34; 51; 68; 85; 102; 119; 136; 153; 170; 187; 204; 221; 17; 34; 51; 68; 85; 102; 119; 136; 153; 170; 187; 204; 221; 17; 34; 51; 68; 85; 102; 119; 136; 153; 170; 187; 204; 221; 17; 34; 51; 68; 85; 102; 119; 136; 153; 170; 187; 204; 221; 17; 34; 51; 68; 85; 102; 119; 136; 153; 170; 187; 204; 221; 17; 34; 51; 68; 85; 102; 119; 136; 153; 170; 187; 204; 221; 17; 34; 51; 68; 85; 102; 119; 136; 153; 170; 187; 204; 221; 17; 34; 51; 68; 85; 102; 119; 136; 153; 170; 187; 204; 221; 17; 34; 51; 68; 85; 102; 119; 136; 153; 170; 187; 204; 221; 17; 34; 51; 68; 85; 102; 119; 136; 153; 170; 187; 204; 221; 17; 34; 51; 68; 85; 102; 119; 136; 153; 170; 187; 204; 221; 17; 34; 51; 68; 85; 102; 119; 136; 153; 170; 187; 204; 221; 17; 34; 51; 68; 85; 102; 119; 136; 153; 170; 187; 204; 221; 17; 34; 51; 68; 85; 102; 119; 136; 153; 170; 187; 204; 221; 17; 34; 51; 68; 85; 102; 119; 136; 153; 170; 187; 204; 221; 17; 34; 51; 68; 85; 102; 119; 136; 153; 170; 187; 204; 221; 17; 34; 51; 68; 85; 102; 119; 136; 153; 170; 187; 204; 221; 17; 34; 51; 68; 85; 102; 119; 136; 153; 170; 187; 204; 221; 17; 34; 51; 68; 85; 102; 119; 136; 153; 170; 187; 204; 221; 17; 34; 51; 68; 85; 102; 119; 136; 153; 170; 187; 204; 221; 17; 34; 51; 68; 85; 102; 119; 136; 153; 170; 187; 204; 221; 17; 34; 51; 68; 85; 102; 119; 136; 153; 170; 187; 204; 221; 17; 34; 51; 68; 85; 102; 119; 136; 153; 170; 187; 204; 221; 17; 34; 51; 68; 85; 102; 119; 136; 153; 170; 187; 204; 221; 17; 34; 51; 68; 85; 102; 119; 136; 153; 170; 187; 204; 221; 17; 34; 51; 68; 85; 102; 119; 136; 153; 170; 187; 204; 221; 17; 34; 51; 68; 85; 102; 119; 136; 153; 170; 187; 204; 221; 17; 34; 51; 68; 85; 102; 119; 136; 153; 170; 187; 204; 221; 17; 34; 51; 68; 85; 102; 119; 136; 153; 170; 187; 204; 221; 17; 34; 51; 68; 85; 102; 119; 136; 153; 170; 187; 204; 221; 17; 34; 51; 68; 85; 102; 119; 136; 153; 170; 187; 204; 221; 17; 34; 51; 68; 85; 102; 119; 136; 153; 170; 187; 204; 221; 17; 34; 51; 68; 85; 102; 119; 136; 153; 170; 187; 204; 221; 17; 34; 51; 68; 85; 102; 119; 136; 153; 170; 187; 204; 221; 17; 34; 51; 68; 85; 102; 119; 136; 153; 170; 187; 204; 221; 17; 34; 51; 68; 85; 102; 119; 136; 153; 170; 187; 204; 221; 17; 34; 51; 68; 85; 102; 119; 136; 153; 170; 187; 204; 221; 17; 34; 51; 68; 85; 102; 119; 136; 153; 170; 187; 204; 221; 17; 34; 51; 68; 85; 102; 119; 136; 153; 170; 187; 204; 221; 17; 34; 51; 68; 85; 102; 119; 136; 153; 170; 187; 204; 221; 17; 34; 51; 68; 85; 102; 119; 136; 153; 170; 187; 204; 221; 17; 34; 51; 68; 85; 102; 119; 136; 153; 170; 187; 204; 221; 17; 34; 51; 68; 85; 102; 119; 136; 153; 170; 187; 204; 221; 17; 34; 51; 68; 85; 102; 119; 136; 153; 170; 187; 204; 221; 17; 34; 51; 68; 85; 102; 119; 136; 153; 170; 187; 204; 221; 17; 34; 51; 68; 85; 102; 119; 136; 153; 170; 187; 204; 221; 17; 34; 51; 68; 85; 102; 119; 136; 153; 170; 187; 204; 221; 17; 34; 51; 68; 85; 102; 119; 136; 153; 170; 187; 204; 221; 17; 34; 51; 68; 85; 102; 119; 136; 153; 170; 187; 204; 221; 17; 34; 51; 68; 85; 102; 119; 136; 153; 170; 187; 204; 221; 17; 34; 51; 68; 85; 102; 119; 136; 153; 170; 187; 204; 221; 17; 34; 51; 68; 85; 102; 119; 136; 153; 170; 187; 204; 221; 17; 34; 51; 68; 85; 102; 119; 136; 153; 170; 187; 204; 221; 17; 34; 51; 68; 85; 102; 119; 136; 153; 170; 187; 204; 221; 17; 34; 51; 68; 85; 102; 119; 136; 153; 170; 187; 204; 221; 17; 34; 51; 68; 85; 102; 119; 136; 153; 170; 187; 204; 221; 17; 34; 51; 68; 85; 102; 119; 136; 153; 170; 187; 204; 221; 17; 34; 51; 68; 85; 102; 119; 136; 153; 170; 187; 204; 221; 17; 34; 51; 68; 85; 102; 119; 136; 153; 170; 187; 204; 221; 17; 34; 51; 68; 85; 102; 119; 136; 153; 170; 187; 204; 221; 17; 34; 51; 68; 85; 102; 119; 136; 153; 170; 187; 204; 221; 17; 34; 51; 68; 85; 102; 119; 136; 153; 170; 187; 204; 221; 17; 34; 51; 68; 85; 102; 119; 136; 153; 170; 187; 204; 221; 17; 34; 51; 68; 85; 102; 119; 136; 153; 170; 187; 204; 221; 17; 34; 51; 68; 85; 102; 119; 136; 153; 170; 187; 204; 221; 17; 34; 51; 68; 85; 102; 119; 136; 153; 170; 187; 204; 221; 17; 34; 51; 68; 85; 102; 119; 136; 153; 170; 187; 204; 221; 17; 34; 51; 68; 85; 102; 119; 136; 153; 170; 187; 204; 221; 17; 34; 51; 3; 0; 6; 0; 2; 15; 4; 1; 10; 0; 0; 0; 0; 0; 0; 0; 97; 74; 0; 0; 2; 0; 0; 0; 0; 0; 0; 0; 0; 0; 0; 0; 71; 101; 110; 117; 105; 110; 101; 73; 110; 116; 101; 108; 195; 6; 3; 0; 255; 251; 235; 191; 0; 0; 0; 0; 1; 0; 0; 0; 0; 0; 0; 0; 5; 0; 0; 192; 0; 0; 0; 0; 0; 0; 0; 0; 0; 0; 0; 0; 0; 16; 64; 0; 0; 0; 0; 0; 0; 0; 0; 0; 0; 0; 0; 0; 1; 0; 0; 0; 0; 0; 0; 0; 16; 0; 0; 0; 0; 0; 0; 0; 0; 0; 0; 0; 0; 0; 0; 0; 0; 0; 0; 0; 0; 0; 0; 0; 0; 0; 0; 0; 0; 0; 0; 0; 0; 0; 0; 0; 0; 0; 0; 0; 0; 0; 0; 0; 0; 0; 0; 0; 0; 0; 0; 0; 0; 0; 0; 0; 0; 0; 0; 0; 0; 0; 0; 0; 0; 0; 0; 0; 0; 0; 0; 0; 0; 0; 0; 0; 0; 0; 0; 0; 0; 0; 0; 0; 0; 0; 0; 0; 0; 0; 0; 0; 0; 0; 0; 0; 0; 0; 0; 0; 0; 0; 0; 0; 0; 0; 0; 0; 0; 0; 0; 0; 236; 3; 0; 0; 56; 0; 0; 0].

(* F-C01a: object-info record of type 0x7777 -> from_u32(..).unwrap() *)
Lemma wit_a_panics : wf_bytes wit_a /\ In (10, FPan PANIC_OBJINFO_UNWRAP) (o_fields (run_case Unfixed Debug wit_a)).
Proof. split; [apply wf_bytes_dec; vm_compute; reflexivity|]. vm_compute. tauto. Qed.
(* F-C01c: number_parameters = 16 -> exception_information[15] *)
Lemma wit_c_panics : wf_bytes wit_c /\ In (12, FPan PANIC_EXC_INDEX) (o_fields (run_case Unfixed Debug wit_c)).
Proof. split; [apply wf_bytes_dec; vm_compute; reflexivity|]. vm_compute. tauto. Qed.
(* F-C01b: next_info_rva points at the record itself *)
Lemma wit_b_no_fuel : wf_bytes wit_b /\ In (10, FNoFuel) (o_fields (run_case Unfixed Debug wit_b)).
Proof. split; [apply wf_bytes_dec; vm_compute; reflexivity|]. vm_compute. tauto. Qed.
(* ... and no amount of fuel helps: the walk from the self-referential record never ends *)
Lemma wit_b_diverges : forall fuel visited, info_chain Unfixed fuel LE wit_b 44 visited = NoFuel.
Proof.
  induction fuel as [|fuel IH]; intros visited.
  - reflexivity.
  - cbn [info_chain].
    change (44 =? 0) with false. cbv iota.
    replace (can_read wit_b 44 FSZ_OBJINFO) with true by (vm_compute; reflexivity).
    replace (val LE (sub wit_b 44 4)) with 44 by (vm_compute; reflexivity).
    replace (known_info_type (val LE (sub wit_b (44 + 4) 4))) with true by (vm_compute; reflexivity).
    apply IH.
Qed.
(* F-C01d: size_of_descriptor = 0, number_of_descriptors = 0xffffffff in a 60-byte file *)
Lemma wit_d_allocates : wf_bytes wit_d /\ blen wit_d = 60 /\
  In (4294967295 * MSZ_HANDLE) (o_ledger (run_case Unfixed Debug wit_d)).
Proof. split; [apply wf_bytes_dec; vm_compute; reflexivity|]. split; [reflexivity|]. vm_compute. tauto. Qed.
(* F-C01e: a PPC context under an exception: print reaches unimplemented!() *)
Lemma wit_e_panics : wf_bytes wit_e_ppc /\ In (13, FPan PANIC_CTX_UNIMPL) (o_fields (run_case Unfixed Debug wit_e_ppc)).
Proof. split; [apply wf_bytes_dec; vm_compute; reflexivity|]. vm_compute. tauto. Qed.
(* after the fixes the same files are harmless *)
Lemma wit_fixed_ok :
  In (10, FOk [1; 0]) (o_fields (run_case Fixed Debug wit_a)) /\
  In (10, FOk [1; 9]) (o_fields (run_case Fixed Debug wit_b)) /\
  In (12, FOk []) (o_fields (run_case Fixed Debug wit_c)) /\
  In (10, FErr EStreamReadFailure) (o_fields (run_case Fixed Debug wit_d)) /\ o_ledger (run_case Fixed Debug wit_d) = [] /\
  In (11, FOk [0; 3]) (o_fields (run_case Fixed Debug wit_e_ppc)) /\ In (13, FOk []) (o_fields (run_case Fixed Debug wit_e_ppc)).
Proof. vm_compute. tauto. Qed.

(* ------------------------------------------------------------------ per-reader corollaries *)
Lemma sat_fields : forall A K (Q : A -> Prop) (m : M A), sat K Q m ->
  (forall t, snd m <> Pan t) /\ snd m <> NoFuel /\ (forall a, In a (fst m) -> 0 <= a <= K).
Proof.
  intros A K Q m (Hl & H1 & H2 & _). repeat split; try assumption.
  all: rewrite Forall_forall in Hl; apply Hl; assumption.
Qed.

Lemma location_slice_sound : forall b size rva s, location_slice b size rva = Some s ->
  rva <= rva + size /\ rva + size <= blen b /\ s = sub b rva size.
Proof. exact location_slice_some. Qed.

Lemma ensure_count_in_bound_sound : forall buflen n sz off,
  (forall t, ensure_count_in_bound buflen n sz off <> Pan t) /\
  forall c x, ensure_count_in_bound buflen n sz off = Ok (c, x) -> c = n /\ x = n * sz + off /\ n * sz + off <= buflen.
Proof.
  intros. destruct (ensure_rsat buflen n sz off) as (H1 & _ & H3). split; [exact H1|].
  intros c x H. apply (H3 (c, x) H).
Qed.

Lemma stream_list_total : forall p e b fsz msz, wf_bytes b -> blen b < T62 -> 0 < fsz -> 0 <= msz <= ALLOC_C * fsz ->
  (forall t, snd (read_stream_list p e b fsz msz) <> Pan t) /\ snd (read_stream_list p e b fsz msz) <> NoFuel /\
  (forall a, In a (fst (read_stream_list p e b fsz msz)) -> 0 <= a <= ALLOC_C * blen b) /\
  (forall raws, snd (read_stream_list p e b fsz msz) = Ok raws -> blen raws * fsz + 4 <= blen b).
Proof.
  intros p e b fsz msz Hwf Hlen Hf Hm.
  pose proof (read_stream_list_sat p e b fsz msz (ALLOC_C * blen b) Hwf Hlen Hf Hm (Z.le_refl _)) as H.
  destruct (sat_fields _ _ _ _ H) as (H1 & H2 & H3). destruct H as (_ & _ & _ & H4).
  split; [exact H1|]. split; [exact H2|]. split; [exact H3|]. intros raws Hr. destruct (H4 raws Hr) as (_ & Hx & _). exact Hx.
Qed.
Lemma ex_stream_list_total : forall p e wide b fsz msz, wf_bytes b -> blen b < T62 -> 0 < fsz -> 0 <= msz <= ALLOC_C * fsz ->
  (forall t, snd (read_ex_stream_list p e wide b fsz msz) <> Pan t) /\ snd (read_ex_stream_list p e wide b fsz msz) <> NoFuel /\
  (forall a, In a (fst (read_ex_stream_list p e wide b fsz msz)) -> 0 <= a <= ALLOC_C * blen b) /\
  (forall raws, snd (read_ex_stream_list p e wide b fsz msz) = Ok raws -> blen raws * fsz <= blen b).
Proof.
  intros p e wide b fsz msz Hwf Hlen Hf Hm.
  pose proof (read_ex_stream_list_sat p e wide b fsz msz (ALLOC_C * blen b) Hwf Hlen Hf Hm (Z.le_refl _)) as H.
  destruct (sat_fields _ _ _ _ H) as (H1 & H2 & H3). destruct H as (_ & _ & _ & H4).
  split; [exact H1|]. split; [exact H2|]. split; [exact H3|]. intros raws Hr. destruct (H4 raws Hr) as (_ & Hx & _). exact Hx.
Qed.
Lemma memory64_total : forall p e all b, wf_bytes b -> blen b < T62 ->
  (forall t, snd (read_memory64_list p e all b) <> Pan t) /\ snd (read_memory64_list p e all b) <> NoFuel /\
  (forall a, In a (fst (read_memory64_list p e all b)) -> 0 <= a <= ALLOC_C * blen b).
Proof.
  intros p e all b Hwf Hlen.
  exact (sat_fields _ _ _ _ (read_memory64_list_sat p e all b (ALLOC_C * blen b) Hwf Hlen (Z.le_refl _))).
Qed.
Lemma handle_data_total : forall p e all b, wf_bytes all -> blen all < T62 -> wf_bytes b -> blen b < T62 ->
  (forall t, snd (read_handle_data Fixed p e all b) <> Pan t) /\ snd (read_handle_data Fixed p e all b) <> NoFuel /\
  (forall a, In a (fst (read_handle_data Fixed p e all b)) -> 0 <= a <= ALLOC_C * blen b).
Proof.
  intros p e all b Hwfa Hlena Hwf Hlen.
  exact (sat_fields _ _ _ _ (read_handle_data_fixed_sat p e all b (ALLOC_C * blen b) Hwfa Hlena Hwf Hlen (Z.le_refl _))).
Qed.
Lemma info_chain_bounded : forall e all rva,
  (forall t, info_chain Fixed (fuel_of all) e all rva 0 <> Pan t) /\ info_chain Fixed (fuel_of all) e all rva 0 <> NoFuel /\
  forall n, info_chain Fixed (fuel_of all) e all rva 0 = Ok n -> 0 <= n <= blen all / FSZ_OBJINFO.
Proof.
  intros e all rva.
  assert (Hd : 0 <= blen all / FSZ_OBJINFO <= blen all).
  { pose proof (blen_nonneg _ all). unfold FSZ_OBJINFO. split; [apply Z.div_pos; lia | apply Z.div_le_upper_bound; lia]. }
  destruct (info_chain_fixed_rsat e all (fuel_of all) rva 0) as (H1 & H2 & H3).
  { unfold fuel_of, blen in *. lia. }
  repeat split; try assumption; specialize (H3 n H); lia.
Qed.
Lemma strings_total : forall p e b off, wf_bytes b -> blen b < T62 -> 0 <= off ->
  ((forall t, read_string_utf16 p e b off <> Pan t) /\ read_string_utf16 p e b off <> NoFuel) /\
  ((forall t, read_cstring_utf8 p b off <> Pan t) /\ read_cstring_utf8 p b off <> NoFuel).
Proof.
  intros p e b off Hwf Hlen Hoff.
  destruct (read_string_utf16_rsat p e b off Hwf Hlen Hoff) as (A1 & A2 & _).
  destruct (read_cstring_utf8_rsat p b off Hlen Hoff) as (B1 & B2 & _). tauto.
Qed.
Lemma utf16_in_bounds : forall p e b off us endo, read_string_utf16 p e b off = Ok (Some (us, endo)) -> endo <= blen b.
Proof.
  intros p e b off us endo H. unfold read_string_utf16 in H.
  destruct (get_u 4 e b off) as [size|]; [|discriminate].
  destruct (negb _); [discriminate|].
  destruct (of_chk _) as [x| | |]; cbn [rbind] in H; try discriminate.
  destruct (Z.gtb_spec x (blen b)); [discriminate|].
  destruct (utf16_ok _); inversion H. subst. lia.
Qed.
Lemma header_total : forall b, wf_bytes b -> (forall t, read_header b <> Pan t) /\ read_header b <> NoFuel.
Proof. intros b H. destruct (read_header_rsat b H) as (H1 & H2 & _). tauto. Qed.
Lemma exception_print_total : forall n, (forall t, exception_print Fixed n <> Pan t) /\ exception_print Fixed n <> NoFuel.
Proof. intros n. destruct (exception_print_fixed_rsat n) as (H1 & H2 & _). tauto. Qed.
Definition nv_dump : bytes :=
  [77; 68; 77; 80; 147; 167; 0; 0; 5; 0; 0; 0; 32; 0; 0; 0; 0; 0; 0; 0; 0; 0; 0; 80; 0; 0; 0; 0; 0; 0; 0; 0; 7; 0; 0; 0; 56; 0; 0; 0; 140; 0; 0; 0; 3; 0; 0; 0; 100; 0; 0; 0; 196; 0; 0; 0; 4; 0; 0; 0; 112; 0; 0; 0; 40; 1; 0; 0; 12; 0; 0; 0; 56; 0; 0; 0; 176; 1; 0; 0; 6; 0; 0; 0; 168; 0; 0; 0; 232; 1; 0; 0; 10; 0; 0; 0; 97; 0; 46; 0; 101; 0; 120; 0; 101; 0; 0; 0; 82; 83; 68; 83; 0; 1; 2; 3; 4; 5; 6; 7; 8; 9; 10; 11; 12; 13; 14; 15; 1; 0; 0; 0; 97; 46; 112; 100; 98; 0; 0; 0; 9; 0; 6; 0; 2; 15; 4; 1; 10; 0; 0; 0; 0; 0; 0; 0; 97; 74; 0; 0; 2; 0; 0; 0; 0; 0; 0; 0; 0; 0; 0; 0; 71; 101; 110; 117; 105; 110; 101; 73; 110; 116; 101; 108; 195; 6; 3; 0; 255; 251; 235; 191; 0; 0; 0; 0; 2; 0; 0; 0; 7; 0; 0; 0; 0; 0; 0; 0; 0; 0; 0; 0; 0; 0; 0; 0; 0; 0; 0; 0; 0; 0; 0; 0; 0; 0; 0; 0; 0; 0; 0; 0; 0; 0; 0; 0; 0; 0; 0; 0; 0; 0; 0; 0; 0; 0; 0; 0; 8; 0; 0; 0; 0; 0; 0; 0; 0; 0; 0; 0; 0; 0; 0; 0; 0; 0; 0; 0; 0; 0; 0; 0; 0; 0; 0; 0; 0; 0; 0; 0; 0; 0; 0; 0; 0; 0; 0; 0; 0; 0; 0; 0; 0; 0; 0; 0; 1; 0; 0; 0; 0; 0; 64; 0; 0; 0; 0; 0; 0; 16; 0; 0; 0; 0; 0; 0; 1; 0; 0; 80; 92; 0; 0; 0; 189; 4; 239; 254; 0; 0; 1; 0; 1; 0; 0; 0; 2; 0; 0; 0; 3; 0; 0; 0; 4; 0; 0; 0; 63; 0; 0; 0; 0; 0; 0; 0; 4; 0; 0; 0; 1; 0; 0; 0; 0; 0; 0; 0; 0; 0; 0; 0; 0; 0; 0; 0; 30; 0; 0; 0; 108; 0; 0; 0; 0; 0; 0; 0; 0; 0; 0; 0; 0; 0; 0; 0; 0; 0; 0; 0; 0; 0; 0; 0; 0; 0; 0; 0; 0; 0; 0; 0; 2; 0; 0; 0; 0; 0; 0; 0; 152; 1; 0; 0; 1; 0; 0; 0; 0; 0; 0; 0; 16; 0; 0; 0; 40; 0; 0; 0; 1; 0; 0; 0; 0; 0; 0; 0; 4; 0; 0; 0; 0; 0; 0; 0; 92; 0; 0; 0; 0; 0; 0; 0; 1; 0; 0; 0; 2; 0; 0; 0; 3; 0; 0; 0; 4; 0; 0; 0; 164; 1; 0; 0; 0; 0; 0; 0; 7; 0; 0; 0; 0; 0; 0; 0; 5; 0; 0; 192; 0; 0; 0; 0; 0; 0; 0; 0; 0; 0; 0; 0; 0; 16; 64; 0; 0; 0; 0; 0; 15; 0; 0; 0; 0; 0; 0; 0; 1; 0; 0; 0; 0; 0; 0; 0; 16; 0; 0; 0; 0; 0; 0; 0; 0; 0; 0; 0; 0; 0; 0; 0; 0; 0; 0; 0; 0; 0; 0; 0; 0; 0; 0; 0; 0; 0; 0; 0; 0; 0; 0; 0; 0; 0; 0; 0; 0; 0; 0; 0; 0; 0; 0; 0; 0; 0; 0; 0; 0; 0; 0; 0; 0; 0; 0; 0; 0; 0; 0; 0; 0; 0; 0; 0; 0; 0; 0; 0; 0; 0; 0; 0; 0; 0; 0; 0; 0; 0; 0; 0; 0; 0; 0; 0; 0; 0; 0; 0; 0; 0; 0; 0; 0; 0; 0; 0; 0; 0; 0; 0; 0; 0; 0; 0; 0; 0; 0; 0; 0; 0; 0; 0; 0; 0; 0; 0].
Lemma nv_dump_wf : wf_bytes nv_dump /\ blen nv_dump < T62.
Proof. split; [apply wf_bytes_dec; vm_compute; reflexivity | vm_compute; reflexivity]. Qed.

(* ------------------------------------------------------------------ the three headline statements *)
Lemma no_panic : forall (p : profile) (file : bytes), wf_bytes file -> blen file < T62 ->
  forall tag f t, In (tag, f) (o_fields (run_case Fixed p file)) -> f <> FPan t.
Proof. intros p file H1 H2 tag f t H. exact (proj1 (proj1 (run_case_fixed_total p file H1 H2) tag f H) t). Qed.
Lemma terminates : forall (p : profile) (file : bytes), wf_bytes file -> blen file < T62 ->
  forall tag f, In (tag, f) (o_fields (run_case Fixed p file)) -> f <> FNoFuel.
Proof. intros p file H1 H2 tag f H. exact (proj2 (proj1 (run_case_fixed_total p file H1 H2) tag f H)). Qed.
Lemma alloc_backed : forall (p : profile) (file : bytes), wf_bytes file -> blen file < T62 ->
  forall a, In a (o_ledger (run_case Fixed p file)) -> 0 <= a <= ALLOC_FILE_C * blen file.
Proof.
  intros p file H1 H2 a H. pose proof (proj2 (run_case_fixed_total p file H1 H2)) as HF.
  rewrite Forall_forall in HF. exact (HF a H).
Qed.

(* ------------------------------------------------------------------ round 2 corollaries *)
Lemma xstate_iter_total : forall p enabled,
  (forall t, xstate_iter p enabled <> Pan t) /\ xstate_iter p enabled <> NoFuel /\
  forall l, xstate_iter p enabled = Ok l -> Forall (fun i => 0 <= i < XSTATE_FEATURES) l /\ blen l <= XSTATE_FEATURES.
Proof. intros p enabled. destruct (xstate_iter_rsat p enabled) as (H1 & H2 & H3). repeat split; try assumption; apply (H3 l H). Qed.
Lemma thread_contexts_print_total : forall ks,
  (forall t, threads_print Fixed ks <> Pan t) /\ threads_print Fixed ks <> NoFuel.
Proof. intros ks. destruct (threads_print_fixed_rsat ks) as (H1 & H2 & _). tauto. Qed.
Lemma misc_info_total : forall p e b,
  (forall t, misc_result p (read_misc_info e b) <> Pan t) /\ misc_result p (read_misc_info e b) <> NoFuel.
Proof.
  intros p e b. pose proof (f_ms_ok p (read_misc_info e b) (read_misc_info_rsat e b)) as (H1 & H2).
  unfold f_ms in *. destruct (misc_result p (read_misc_info e b)) as [a|er|t|]; cbn [fld] in *.
  - split; [intros t|]; discriminate.
  - split; [intros t|]; discriminate.
  - exfalso; apply (H1 t); reflexivity.
  - exfalso; apply H2; reflexivity.
Qed.

Lemma crashpad_info_total : forall e all b, wf_bytes all ->
  (forall t, snd (read_crashpad_info e all b) <> Pan t) /\ snd (read_crashpad_info e all b) <> NoFuel /\
  (forall a, In a (fst (read_crashpad_info e all b)) -> 0 <= a <= ALLOC_FILE_C * blen all).
Proof.
  intros e all b Hwf.
  exact (sat_fields _ _ _ _ (read_crashpad_info_sat e all b (ALLOC_FILE_C * blen all) Hwf (Z.le_refl _))).
Qed.

(* ------------------------------------------------------------------ round 3 corollaries *)
Lemma mac_crash_info_total : forall p e all b, wf_bytes all -> blen all < T62 -> wf_bytes b ->
  (forall t, read_mac_crash_info p e all b <> Pan t) /\ read_mac_crash_info p e all b <> NoFuel.
Proof. intros p e all b H1 H2 H3. destruct (read_mac_crash_info_rsat p e all b H1 H2 H3) as (A & B & _). tauto. Qed.
Lemma fixed_streams_total : forall p e all b, wf_bytes all -> blen all < T62 -> wf_bytes b ->
  ((forall t, sysinfo_strings p e all b <> Pan t) /\ sysinfo_strings p e all b <> NoFuel) /\
  ((forall t, read_mac_bootargs p e all b <> Pan t) /\ read_mac_bootargs p e all b <> NoFuel) /\
  ((forall t, read_assertion e b <> Pan t) /\ read_assertion e b <> NoFuel) /\
  ((forall t, read_breakpad_info e b <> Pan t) /\ read_breakpad_info e b <> NoFuel) /\
  ((forall t, read_soft_errors b <> Pan t) /\ read_soft_errors b <> NoFuel).
Proof.
  intros p e all b H1 H2 H3.
  destruct (sysinfo_strings_rsat p e all b H1 H2 H3) as (A1 & A2 & _).
  destruct (read_mac_bootargs_rsat p e all b H1 H2 H3) as (B1 & B2 & _).
  destruct (read_assertion_rsat e b) as (C1 & C2 & _).
  destruct (read_breakpad_info_rsat e b) as (D1 & D2 & _).
  destruct (read_soft_errors_rsat b) as (E1 & E2 & _). tauto.
Qed.
(* printing a stack of [len] bytes / a hex dump of [len] bytes, with fuel len + 1 *)
Lemma print_sites_total : forall p w len, 0 <= len < T62 ->
  ((forall t, stack_print p (Z.to_nat len + 1) w len 0 <> Pan t) /\ stack_print p (Z.to_nat len + 1) w len 0 <> NoFuel) /\
  ((forall t, hexdump_print p (Z.to_nat len + 1) len 0 <> Pan t) /\ hexdump_print p (Z.to_nat len + 1) len 0 <> NoFuel) /\
  chunk_size w = array_len w.
Proof.
  intros p w len H.
  destruct (stack_print_rsat p w (Z.to_nat len + 1) len 0) as (A1 & A2 & _); try lia.
  destruct (hexdump_print_rsat p (Z.to_nat len + 1) len 0) as (B1 & B2 & _); try lia.
  pose proof (chunk_array_agree w). tauto.
Qed.
