(* C01/SModel.v — round 5: which memory list a dump offers and where a thread's stack comes from (definitions only; extracted).
   Mirrors minidump/src/minidump.rs:
     Minidump::get_memory          `get_stream::<MinidumpMemory64List>().map(Memory64).or_else(|_| get_stream::<MinidumpMemoryList>().map(Memory)).ok()`
     MinidumpThread::stack_memory  `self.stack.as_ref().map(..).or_else(|| memory_list.memory_at_address(self.raw.stack.start_of_memory_range))`
   The fallback is an address lookup in the table of LModel.v. *)
From RM Require Import C01.Model C01.Driver C01.QModel C01.LModel.
Open Scope Z_scope.

(* by_addr().count() is not needed here: the table, then one lookup per address *)
Definition lookups_at (p : profile) (descs : list (Z * Z)) (addrs : list Z) : res (list Z) :=
  rbind (ranges_of p descs) (fun ranges =>
  rbind (table_of ranges) (fun tbl =>
  seq_res (map (index_at tbl (blen ranges)) addrs))).

(* get_memory: (2, Memory64 regions) | (1, memory-list regions) | (0, none) *)
Definition unified_memory (e : endian) (m64raw : res bytes) (m64 : res Z) (mem : res (list bytes)) : res (Z * list (Z * Z)) :=
  match m64 with
  | Ok n => rbind m64raw (fun b => Ok (2, mem64_descs e b n))
  | Pan t => Pan t
  | NoFuel => NoFuel
  | Err _ =>
      match mem with
      | Ok regions => Ok (1, mem_descs e regions)
      | Pan t => Pan t
      | NoFuel => NoFuel
      | Err _ => Ok (0, [])
      end
  end.

(* per thread: -2 = the stack read at parse time, i >= 0 = region i of the unified list found at start_of_memory_range, -1 = none *)
Definition stack_source (own : bool) (found : Z) : Z := if own then -2 else found.
Definition q_ts (p : profile) (e : endian) (file : bytes) (tl : res (list bytes)) (um : res (Z * list (Z * Z))) : res (list Z) :=
  rbind tl (fun raws =>
  rbind um (fun u =>
  let ths := firstn 8 raws in
  rbind (lookups_at p (snd u) (map (fun d => val e (sub d 24 8)) ths)) (fun found =>
  Ok (fst u :: map (fun x => stack_source (thread_stack_ok e file (fst x)) (snd x)) (combine ths found))))).

(* MinidumpThreadInfoList::get_thread_info: the same last-insert-wins id map over the [n] 64-byte entries that start at size_of_header *)
Definition threadinfo_entries (e : endian) (s : bytes) (n : Z) : list bytes :=
  let hdr := val e (sub s 0 4) in map (fun i => sub s (hdr + FSZ_THREADINFO * i) FSZ_THREADINFO) (nat_range n).
Definition q_tig (e : endian) (s : res bytes) (ti : res Z) : res (list Z) :=
  rbind ti (fun n => rbind s (fun b =>
    let raws := threadinfo_entries e b n in
    seq_res (map (fun d => get_thread_index e raws (val e (sub d 0 4))) (firstn 8 raws)))).

(* field tags 38 TS, 39 TIG *)
Definition run_stacks (p : profile) (file : bytes) : list (Z * field) :=
  match read_header file with
  | Ok (e, ds) =>
      [(38, fld (fun l => l) (q_ts p e file (snd (s_tl p e file ds))
                                   (unified_memory e (s_raw file ds ST_MEMORY64_LIST) (snd (s_m64 p e file ds)) (snd (s_mem p e file ds)))));
       (39, fld (fun l => l) (q_tig e (s_raw file ds ST_THREAD_INFO) (snd (s_ti p e file ds))))]
  | _ => []
  end.
