From Coq Require Extraction.
From Coq Require Import ExtrOcamlBasic.
From RM Require Import C01.Driver C01.QModel C01.LModel C01.SModel C01.PModel.
Extraction "c01_model.ml" run_case o_fields o_ledger err_code sizes run_queries run_lookups run_stacks run_prints table_ledger sizes2.
