(* C01/Properties.v — property theorems only (partial: the modelled core of the reader).
   Each is closed by [exact lemma] and followed by [Print Assumptions].
   [run_case v p file] (C01/Driver.v) opens [file] like Minidump::read and requests the eleven
   modelled streams; fields carry Ok/Err/Panic/OutOfFuel, the ledger every Vec::with_capacity.
   Every loop of the model runs on fuel |file| + 1 ([fuel_of]). *)
From RM Require C08.Model C08.Proofs.
From RM Require Import C01.Model C01.Proofs C01.Driver C01.Final C01.Agree C01.QModel C01.QProofs C01.LModel C01.LProofs C01.LayoutPins C01.ConstIndex C01.SModel C01.SProofs C01.PModel C01.PProofs C01.CpuPins Gen.C01Sites C01.Sites C01.SitesCheck.
Open Scope Z_scope.

(* No modelled site panics, for any byte string, in debug and release builds (fixed code). *)
Theorem c01_no_panic : forall (p : profile) (file : bytes), wf_bytes file -> blen file < T62 ->
  forall tag f t, In (tag, f) (o_fields (run_case Fixed p file)) -> f <> FPan t.
Proof. exact no_panic. Qed.
Print Assumptions c01_no_panic.

(* Fuel |file| + 1 suffices for every loop: directory walk, entry loops, C strings and the
   handle object-info chain. *)
Theorem c01_terminates : forall (p : profile) (file : bytes), wf_bytes file -> blen file < T62 ->
  forall tag f, In (tag, f) (o_fields (run_case Fixed p file)) -> f <> FNoFuel.
Proof. exact terminates. Qed.
Print Assumptions c01_terminates.

(* Every Vec::with_capacity on the modelled paths asks for at most ALLOC_FILE_C = 10 times the
   input's size, whatever counts the file declares (10 = the crashpad module-link vector, whose
   count is bounded by the whole file: 112-byte elements per 12 file bytes) ... *)
Theorem c01_alloc_backed : forall (p : profile) (file : bytes), wf_bytes file -> blen file < T62 ->
  forall a, In a (o_ledger (run_case Fixed p file)) -> 0 <= a <= ALLOC_FILE_C * blen file.
Proof. exact alloc_backed. Qed.
Print Assumptions c01_alloc_backed.

(* ... and the list readers, reader by reader, ALLOC_C = 4 times the bytes of their own stream. *)
Theorem c01_stream_list_total : forall p e b fsz msz, wf_bytes b -> blen b < T62 -> 0 < fsz -> 0 <= msz <= ALLOC_C * fsz ->
  (forall t, snd (read_stream_list p e b fsz msz) <> Pan t) /\ snd (read_stream_list p e b fsz msz) <> NoFuel /\
  (forall a, In a (fst (read_stream_list p e b fsz msz)) -> 0 <= a <= ALLOC_C * blen b) /\
  (forall raws, snd (read_stream_list p e b fsz msz) = Ok raws -> blen raws * fsz + 4 <= blen b).
Proof. exact stream_list_total. Qed.
Print Assumptions c01_stream_list_total.

Theorem c01_ex_stream_list_total : forall p e wide b fsz msz, wf_bytes b -> blen b < T62 -> 0 < fsz -> 0 <= msz <= ALLOC_C * fsz ->
  (forall t, snd (read_ex_stream_list p e wide b fsz msz) <> Pan t) /\ snd (read_ex_stream_list p e wide b fsz msz) <> NoFuel /\
  (forall a, In a (fst (read_ex_stream_list p e wide b fsz msz)) -> 0 <= a <= ALLOC_C * blen b) /\
  (forall raws, snd (read_ex_stream_list p e wide b fsz msz) = Ok raws -> blen raws * fsz <= blen b).
Proof. exact ex_stream_list_total. Qed.
Print Assumptions c01_ex_stream_list_total.

Theorem c01_memory64_total : forall p e all b, wf_bytes b -> blen b < T62 ->
  (forall t, snd (read_memory64_list p e all b) <> Pan t) /\ snd (read_memory64_list p e all b) <> NoFuel /\
  (forall a, In a (fst (read_memory64_list p e all b)) -> 0 <= a <= ALLOC_C * blen b).
Proof. exact memory64_total. Qed.
Print Assumptions c01_memory64_total.

Theorem c01_handle_data_total : forall p e all b, wf_bytes all -> blen all < T62 -> wf_bytes b -> blen b < T62 ->
  (forall t, snd (read_handle_data Fixed p e all b) <> Pan t) /\ snd (read_handle_data Fixed p e all b) <> NoFuel /\
  (forall a, In a (fst (read_handle_data Fixed p e all b)) -> 0 <= a <= ALLOC_C * blen b).
Proof. exact handle_data_total. Qed.
Print Assumptions c01_handle_data_total.

(* the object-info chain of one descriptor: never a panic, ends within |file|+1 steps,
   yields at most |file| / 12 records *)
Theorem c01_info_chain_bounded : forall e all rva,
  (forall t, info_chain Fixed (fuel_of all) e all rva 0 <> Pan t) /\ info_chain Fixed (fuel_of all) e all rva 0 <> NoFuel /\
  forall n, info_chain Fixed (fuel_of all) e all rva 0 = Ok n -> 0 <= n <= blen all / FSZ_OBJINFO.
Proof. exact info_chain_bounded. Qed.
Print Assumptions c01_info_chain_bounded.

(* location_slice returns exactly the requested window, inside the file *)
Theorem c01_location_slice_sound : forall b size rva s, location_slice b size rva = Some s ->
  rva <= rva + size /\ rva + size <= blen b /\ s = sub b rva size.
Proof. exact location_slice_sound. Qed.
Print Assumptions c01_location_slice_sound.

(* ensure_count_in_bound: success means count * size + offset fits the buffer *)
Theorem c01_ensure_count_in_bound_sound : forall buflen n sz off,
  (forall t, ensure_count_in_bound buflen n sz off <> Pan t) /\
  forall c x, ensure_count_in_bound buflen n sz off = Ok (c, x) -> c = n /\ x = n * sz + off /\ n * sz + off <= buflen.
Proof. exact ensure_count_in_bound_sound. Qed.
Print Assumptions c01_ensure_count_in_bound_sound.

(* string readers: total, and a UTF-16 string that is returned lies inside the buffer *)
Theorem c01_strings_total : forall p e b off, wf_bytes b -> blen b < T62 -> 0 <= off ->
  ((forall t, read_string_utf16 p e b off <> Pan t) /\ read_string_utf16 p e b off <> NoFuel) /\
  ((forall t, read_cstring_utf8 p b off <> Pan t) /\ read_cstring_utf8 p b off <> NoFuel).
Proof. exact strings_total. Qed.
Print Assumptions c01_strings_total.
Theorem c01_utf16_in_bounds : forall p e b off us endo,
  read_string_utf16 p e b off = Ok (Some (us, endo)) -> endo <= blen b.
Proof. exact utf16_in_bounds. Qed.
Print Assumptions c01_utf16_in_bounds.

(* header + directory walk: stream_count is not validated, yet the walk ends within |file|+1 steps *)
Theorem c01_header_total : forall b, wf_bytes b -> (forall t, read_header b <> Pan t) /\ read_header b <> NoFuel.
Proof. exact header_total. Qed.
Print Assumptions c01_header_total.

Theorem c01_exception_print_total : forall n,
  (forall t, exception_print Fixed n <> Pan t) /\ exception_print Fixed n <> NoFuel.
Proof. exact exception_print_total. Qed.
Print Assumptions c01_exception_print_total.

(* ---- round 2: more of the reader under theorems *)
(* the XSTATE feature iterator behind MinidumpMiscInfo::print: no shift by >= 64, no index >= 64,
   at most 64 steps, at most 64 in-range indices — for every enabled_features mask *)
Theorem c01_xstate_iter_total : forall p enabled,
  (forall t, xstate_iter p enabled <> Pan t) /\ xstate_iter p enabled <> NoFuel /\
  forall l, xstate_iter p enabled = Ok l -> Forall (fun i => 0 <= i < XSTATE_FEATURES) l /\ blen l <= XSTATE_FEATURES.
Proof. exact xstate_iter_total. Qed.
Print Assumptions c01_xstate_iter_total.

Theorem c01_misc_info_total : forall p e b,
  (forall t, misc_result p (read_misc_info e b) <> Pan t) /\ misc_result p (read_misc_info e b) <> NoFuel.
Proof. exact misc_info_total. Qed.
Print Assumptions c01_misc_info_total.

(* printing the contexts of a thread list (any mix of CPU kinds) never panics *)
Theorem c01_thread_contexts_print_total : forall ks,
  (forall t, threads_print Fixed ks <> Pan t) /\ threads_print Fixed ks <> NoFuel.
Proof. exact thread_contexts_print_total. Qed.
Print Assumptions c01_thread_contexts_print_total.

(* get_memory_at_address yields a value only from inside the region's bytes *)
Theorem c01_memory_read_in_bounds : forall n e base region addr v, mem_read n e base region addr = Some v ->
  base <= addr /\ (addr - base) + n <= blen region.
Proof. exact mem_read_in_bounds. Qed.
Print Assumptions c01_memory_read_in_bounds.

(* key/value iteration over the Linux text streams: at most one pair per line, at most |stream|+1 lines,
   trimming only ever shortens *)
Theorem c01_linux_kv_bounded : forall sep b,
  blen (linux_kv sep b) <= blen (linux_lines b) /\ blen (linux_lines b) <= blen b + 1.
Proof. exact linux_kv_bounded. Qed.
Print Assumptions c01_linux_kv_bounded.
Theorem c01_strip_quotes_shorter : forall l, blen (strip_quotes l) <= blen l.
Proof. exact strip_quotes_shorter. Qed.
Print Assumptions c01_strip_quotes_shorter.

(* crashpad info: simple dictionary, module links, per-module string lists / dictionaries / annotation
   objects (counts of the last three are not validated by the code: the loops end with the data) *)
Theorem c01_crashpad_info_total : forall e all b, wf_bytes all ->
  (forall t, snd (read_crashpad_info e all b) <> Pan t) /\ snd (read_crashpad_info e all b) <> NoFuel /\
  (forall a, In a (fst (read_crashpad_info e all b)) -> 0 <= a <= ALLOC_FILE_C * blen all).
Proof. exact crashpad_info_total. Qed.
Print Assumptions c01_crashpad_info_total.

(* ---- round 3 *)
(* the model is run in profile Debug only: wherever that run shows no panic (everywhere, by
   c01_no_panic, for the fixed code) the Release model gives the identical answer *)
Theorem c01_profiles_agree : forall v file,
  (forall tag f t, In (tag, f) (o_fields (run_case v Debug file)) -> f <> FPan t) ->
  run_case v Release file = run_case v Debug file.
Proof. exact profiles_agree. Qed.
Print Assumptions c01_profiles_agree.

(* mac crash info: up to 20 records, one version, fixed part by version, C strings from
   record_start_size; set_string is never called past the string table *)
Theorem c01_mac_crash_info_total : forall p e all b, wf_bytes all -> blen all < T62 -> wf_bytes b ->
  (forall t, read_mac_crash_info p e all b <> Pan t) /\ read_mac_crash_info p e all b <> NoFuel.
Proof. exact mac_crash_info_total. Qed.
Print Assumptions c01_mac_crash_info_total.

(* system-info strings (CSD version by RVA), mac bootargs, assertion info (fixed UTF-16 buffers),
   breakpad info, MozSoftErrors *)
Theorem c01_fixed_streams_total : forall p e all b, wf_bytes all -> blen all < T62 -> wf_bytes b ->
  ((forall t, sysinfo_strings p e all b <> Pan t) /\ sysinfo_strings p e all b <> NoFuel) /\
  ((forall t, read_mac_bootargs p e all b <> Pan t) /\ read_mac_bootargs p e all b <> NoFuel) /\
  ((forall t, read_assertion e b <> Pan t) /\ read_assertion e b <> NoFuel) /\
  ((forall t, read_breakpad_info e b <> Pan t) /\ read_breakpad_info e b <> NoFuel) /\
  ((forall t, read_soft_errors b <> Pan t) /\ read_soft_errors b <> NoFuel).
Proof. exact fixed_streams_total. Qed.
Print Assumptions c01_fixed_streams_total.

(* print sites: the stack dump's chunks_exact / try_into().unwrap() pairing and the running
   `offset +=` of the stack and hex dumps never trap, for any pointer width and length *)
Theorem c01_print_sites_total : forall p w len, 0 <= len < T62 ->
  ((forall t, stack_print p (Z.to_nat len + 1) w len 0 <> Pan t) /\ stack_print p (Z.to_nat len + 1) w len 0 <> NoFuel) /\
  ((forall t, hexdump_print p (Z.to_nat len + 1) len 0 <> Pan t) /\ hexdump_print p (Z.to_nat len + 1) len 0 <> NoFuel) /\
  chunk_size w = array_len w.
Proof. exact print_sites_total. Qed.
Print Assumptions c01_print_sites_total.

(* ---- round 4: the queries made on a parsed dump.
   memory_range() of memory regions, memory-info entries, modules: the unchecked `- 1` after `checked_add` never traps
   (the `size == 0` guard makes the sum >= 1), and a range that exists is non-empty and below 2^64 *)
Theorem c01_memory_range_sound : forall p base size, 0 <= base -> 0 <= size ->
  (forall t, memory_range p base size <> Pan t) /\ memory_range p base size <> NoFuel /\
  forall lo hi, memory_range p base size = Ok (Some (lo, hi)) -> lo = base /\ hi = base + size - 1 /\ lo <= hi /\ hi < T64.
Proof.
  intros p base size Hb Hs. destruct (memory_range_rsat p base size Hb Hs) as (H1 & H2 & H3).
  split; [exact H1|]. split; [exact H2|]. intros lo hi H. specialize (H3 _ H). cbn in H3. tauto.
Qed.
Print Assumptions c01_memory_range_sound.
(* MinidumpThread::last_error: the address is teb + 13 * pointer width without wrapping, and the u32 read stays inside the region *)
Theorem c01_last_error_in_bounds : forall e teb pw base region v, last_error e teb pw base region = Some v ->
  teb + 13 * pw < T64 /\ base <= teb + 13 * pw /\ (teb + 13 * pw - base) + 4 <= blen region.
Proof. exact last_error_in_bounds. Qed.
Print Assumptions c01_last_error_in_bounds.
(* MinidumpException::get_crash_address: `exception_information[1]` is inside the 15-entry array whatever number_parameters
   says; the result fits the pointer width *)
Theorem c01_crash_address_total : forall windows ptr32 code nparams addr info, blen info = 15 ->
  0 <= addr < T64 -> Forall (fun x => 0 <= x < T64) info ->
  (forall t, crash_address windows ptr32 code nparams addr info <> Pan t) /\ crash_address windows ptr32 code nparams addr info <> NoFuel /\
  forall a, crash_address windows ptr32 code nparams addr info = Ok a -> 0 <= a < T64 /\ (ptr32 = true -> a < T32).
Proof. exact crash_address_rsat. Qed.
Print Assumptions c01_crash_address_total.
(* read_debug_id, ELF arm: the padded build id always holds the 16 bytes of a GUID *)
Theorem c01_elf_debug_id_reads : forall bid, 16 <= blen (pad_build_id bid) /\ elf_debug_id bid <> Some false.
Proof. intros bid. split; [apply pad_build_id_len | apply elf_debug_id_reads]. Qed.
Print Assumptions c01_elf_debug_id_reads.
(* all four query fields of the correspondence run (RM RI CA TE), any byte string, both profiles *)
Theorem c01_crash_queries_total : forall p file, wf_bytes file -> blen file < T62 ->
  forall tag f, In (tag, f) (run_queries p file) -> (forall t, f <> FPan t) /\ f <> FNoFuel.
Proof. exact run_queries_total. Qed.
Print Assumptions c01_crash_queries_total.

(* ---- round 5: the address lookups of the module list, memory list, Memory64 list, memory-info list and Linux maps
   (from_modules / from_regions + module_at_address / memory_at_address / memory_info_at_address / by_addr), over C08's model of
   into_rangemap_safe and range-map, for ANY list of optional ranges over u64 (empty, overlapping, duplicated, at the top of the
   address space): the final `RangeMap::try_from_iter(vec).unwrap()` does not panic; every index stored in the table — the ones
   `by_addr` sends through `&self.regions[index]` — is a position of the list; a lookup answers None (-1) or a position of the
   list whose own range contains the address, so `&self.regions[index]` / `&self.modules[index]` cannot be out of bounds *)
Theorem c01_address_lookup_total : forall (ranges : list (option (Z * Z))) addr, Forall wf_orange ranges ->
  table_of ranges = Ok (the_table ranges) /\
  (forall R i, In (R, i) (the_table ranges) -> 0 <= i < blen ranges) /\
  exists i, index_at (the_table ranges) (blen ranges) addr = Ok i /\
            (i = -1 \/ (0 <= i < blen ranges /\ exists r, nth_error ranges (Z.to_nat i) = Some (Some r) /\ C08.Model.contains r addr = true)).
Proof. exact address_lookup_total. Qed.
Print Assumptions c01_address_lookup_total.
(* MinidumpUnloadedModuleList::modules_at_address: every index the sorted (range, index) vector yields for an address is a
   position of the module vector, so `&self.modules[*idx]` cannot be out of bounds *)
Theorem c01_unloaded_lookup_in_range : forall (ranges : list (option (Z * Z))) x i,
  In i (C08.Model.unloaded_at (C08.Model.unloaded_build ranges) x) -> 0 <= i < blen ranges.
Proof. exact unloaded_indices_in_range. Qed.
Print Assumptions c01_unloaded_lookup_in_range.
(* MinidumpThreadList::get_thread (the id map keeps the last position inserted): the position is inside the thread vector *)
Theorem c01_get_thread_index_total : forall e raws id,
  (forall t, get_thread_index e raws id <> Pan t) /\ get_thread_index e raws id <> NoFuel /\
  forall i, get_thread_index e raws id = Ok i -> -1 <= i < blen raws.
Proof. exact get_thread_index_rsat. Qed.
Print Assumptions c01_get_thread_index_total.
(* the five lookup fields of the correspondence run (AM AL AI A6 TG: by_addr count, element found at six probe addresses of the
   first eight elements of each list, get_thread of the first eight ids), any byte string, both profiles *)
Theorem c01_lookups_total : forall p file, wf_bytes file -> blen file < T62 ->
  forall tag f, In (tag, f) (run_lookups p file) -> (forall t, f <> FPan t) /\ f <> FNoFuel.
Proof. exact run_lookups_total. Qed.
Print Assumptions c01_lookups_total.

(* Minidump::get_memory (Memory64 list if it parses, else the memory list, else none) and MinidumpThread::stack_memory (the stack read at
   parse time, else the region of that list found at stack.start_of_memory_range): the compared fields TS and TIG (get_thread_info of the first eight ids) never trap; TS names a list
   kind in 0..2 and per thread -2 / -1 / a region index; and a stack found through the fallback is a position of the list *)
Theorem c01_stack_source_total : forall p file, wf_bytes file -> blen file < T62 ->
  forall tag f, In (tag, f) (run_stacks p file) -> (forall t, f <> FPan t) /\ f <> FNoFuel.
Proof. exact run_stacks_total. Qed.
Print Assumptions c01_stack_source_total.
Theorem c01_stack_fallback_sound : forall p descs addr i, wf_descs descs ->
  lookups_at p descs [addr] = Ok [i] -> i = -1 \/ 0 <= i < blen descs.
Proof. exact stack_fallback_sound. Qed.
Print Assumptions c01_stack_fallback_sound.

(* ---- round 5, second pass: the stack words of MinidumpThread::print.
   For ANY processor_architecture value of the system info (or no system info) and any stack length: the word loop neither traps
   nor runs out of fuel, it writes len / chunk words (chunks_exact drops the remainder) of 4 or 8 bytes, and the chunk it cuts has
   the length of the array `chunk.try_into().unwrap()` must fill. The width is the CPU's pointer width, not the register size of
   the thread's context record (CONTEXT_MIPS / CONTEXT_SPARC: 64-bit registers, 32-bit pointers). *)
Theorem c01_thread_print_words_total : forall p arch len, 0 <= len < T62 ->
  let w := print_width arch in
  (exists n, stack_words p (Z.to_nat len + 1) w len 0 0 = Ok n /\ n = len / chunk_size w /\ chunk_size w * n <= len) /\
  stack_print p (Z.to_nat len + 1) w len 0 = Ok tt /\
  chunk_size w = array_len w /\ (chunk_size w = 4 \/ chunk_size w = 8).
Proof. exact thread_print_words_total. Qed.
Print Assumptions c01_thread_print_words_total.
(* the compared field TSW (per thread of the first eight: "No stack" or the number of words written and their width, the stack being
   the thread's own or the region of Minidump::get_memory found at start_of_memory_range) never traps, for every byte string *)
Theorem c01_thread_stack_words_total : forall p file, wf_bytes file -> blen file < T62 ->
  forall tag f, In (tag, f) (run_prints p file) -> (forall t, f <> FPan t) /\ f <> FNoFuel.
Proof. exact run_prints_total. Qed.
Print Assumptions c01_thread_stack_words_total.
(* the CPU tables of PModel.v and the chunk / array lengths of Model.stack_print ARE the code's: Gen/C01Cpu.v is regenerated by
   translate/c01_cpu.py from Cpu::from_processor_architecture, Cpu::pointer_width, PointerWidth::size_in_bytes and the word loop
   of MinidumpThread::print; the last conjunct is a statement about the generated tables alone *)
Theorem c01_cpu_tables_pinned : cpu_pins_ok = true /\
  (forall arch, cpu_name (cpu_of_arch arch) = gen_cpu arch) /\
  (forall arch, gen_width arch = Some (gw (print_width arch))) /\
  (forall arch, exists w n, gen_width arch = Some w /\ gen_chunk w = Some n /\ gen_array w = Some n /\ (n = 4 \/ n = 8)).
Proof. exact (conj cpu_pins (conj cpu_of_arch_pinned (conj width_pinned gen_chunk_fills_array))). Qed.
Print Assumptions c01_cpu_tables_pinned.

(* allocation ledger of the lookup table behind the stack fallback (into_rangemap_safe's `Vec::with_capacity(input.len())` in
   MinidumpMemoryList::read, 24-byte entries): at most 1.5 times the file, sized from the regions already read *)
Theorem c01_lookup_table_alloc_backed : forall p file, wf_bytes file -> blen file < T62 ->
  forall a, In a (table_ledger p file) -> 0 <= a /\ 2 * a <= 3 * blen file /\ a <= ALLOC_FILE_C * blen file.
Proof. exact table_ledger_backed. Qed.
Print Assumptions c01_lookup_table_alloc_backed.

(* ---- round 5: the file layout the models read with — 35 record sizes, 76 field offsets/widths (nested location descriptors
   included), 5 array lengths — equals what Gen/Layouts.v says, which translate/format_layouts.py regenerates from the struct
   definitions of minidump-common/src/format.rs on every run; and every row of Model.ctx_table (CONTEXT_* size, offset and width
   of context_flags) agrees with the generated layout of that context struct, for every processor_architecture value *)
Theorem c01_layout_pinned : layout_pins_ok = true /\ (forall arch, ctx_row_ok arch = true) /\
  (* the exception models use the pinned length of exception_information, not a free literal *)
  (forall n, exception_print Fixed n = exc_print_loop 16 0 (Z.min n EXC_INFO_LEN)) /\
  (forall n i limit, 0 <= i -> limit <= EXC_INFO_LEN -> exc_print_loop n i limit <> Pan PANIC_EXC_INDEX) /\
  (forall e s, blen (exc_info e s) = EXC_INFO_LEN).
Proof. exact (conj layout_pinned (conj ctx_rows_ok exception_models_use_pinned_length)). Qed.
Print Assumptions c01_layout_pinned.

(* ---- round 5: every index site of minidump/src and minidump-common/src whose index is an integer literal (scanned from the
   source on every run: Gen.C01Sites.const_index_sites) is below the length of the array it indexes; the lengths are those of
   the struct definitions of format.rs (Gen/Layouts.v): exception_information[k], data4[k], the register arrays of the
   CONTEXT_* structs *)
(* second pass: "constant" now includes the discriminants of the fieldless *RegisterNumbers enums of format.rs used as indices
   (`self.iregs[md::MipsRegisterNumbers::StackPointer as usize]`, `raw.iregs[*reg as usize]` over a const list of such) and literal range
   bounds (`raw.iregs[..29]`, `uuid[8..]`); and a group of C01/Sites.v is classified Covered by this theorem only if ALL its index sites
   are constant (Gen.C01Sites.index_group_counts) *)
Theorem c01_const_indices_in_bounds : forallb const_index_ok const_index_sites = true /\ forallb const_index_row_ok site_table = true.
Proof. exact (conj const_indices_in_bounds covered_index_groups_constant). Qed.
Print Assumptions c01_const_indices_in_bounds.

(* ---- round 4: every trap / loop / allocation / guard site of minidump/src and minidump-common/src found by
   translate/c01_sites.py (Gen/C01Sites.v, regenerated from the source on every run) is a row of the reviewed table
   C01/Sites.v with the same count and digest, and every row is classified: covered by one of the theorems of this file
   (c01_cover_index below builds the tuple of exactly those proofs), safe for a stated reason, or searched by a named harness step *)
Theorem c01_sites_pinned : scanned_groups = pins site_table.
Proof. exact sites_pinned. Qed.
Print Assumptions c01_sites_pinned.
Theorem c01_sites_classified : forallb row_ok site_table = true.
Proof. exact sites_classified. Qed.
Print Assumptions c01_sites_classified.

(* ---- the code before the fix commits: each statement is false, with a concrete file
   (corpus/C01/cases.txt replays the same bytes on the real code) *)
(* F-C01a (object-info type 0x7777), F-C01c (number_parameters = 16), F-C01e (PPC context printed) *)
Theorem c01_no_panic_unfixed_refuted :
  (exists file, wf_bytes file /\ In (10, FPan PANIC_OBJINFO_UNWRAP) (o_fields (run_case Unfixed Debug file))) /\
  (exists file, wf_bytes file /\ In (12, FPan PANIC_EXC_INDEX) (o_fields (run_case Unfixed Debug file))) /\
  (exists file, wf_bytes file /\ In (13, FPan PANIC_CTX_UNIMPL) (o_fields (run_case Unfixed Debug file))).
Proof. exact (conj (ex_intro _ wit_a wit_a_panics) (conj (ex_intro _ wit_c wit_c_panics) (ex_intro _ wit_e_ppc wit_e_panics))). Qed.
Print Assumptions c01_no_panic_unfixed_refuted.

(* F-C01b: a self-referential next_info_rva; the model's fuel runs out, and no fuel is enough *)
Theorem c01_terminates_unfixed_refuted :
  (exists file, wf_bytes file /\ In (10, FNoFuel) (o_fields (run_case Unfixed Debug file))) /\
  (exists file rva, forall fuel, info_chain Unfixed fuel LE file rva 0 = NoFuel).
Proof. exact (conj (ex_intro _ wit_b wit_b_no_fuel) (ex_intro _ wit_b (ex_intro _ 44 (fun fuel => wit_b_diverges fuel 0)))). Qed.
Print Assumptions c01_terminates_unfixed_refuted.

(* F-C01d: a 60-byte file whose handle stream makes the reader ask for 2^32-1 descriptors *)
Theorem c01_alloc_backed_unfixed_refuted :
  exists file, wf_bytes file /\ blen file = 60 /\ In (4294967295 * MSZ_HANDLE) (o_ledger (run_case Unfixed Debug file)).
Proof. exact (ex_intro _ wit_d wit_d_allocates). Qed.
Print Assumptions c01_alloc_backed_unfixed_refuted.

(* ---- non-vacuity: a well-formed dump satisfies the hypotheses and produces real work *)
Example c01_nonvacuous_hyp : wf_bytes nv_dump /\ blen nv_dump < T62.
Proof. exact nv_dump_wf. Qed.
Example c01_nonvacuous_run :
  o_fields (run_case Fixed Debug nv_dump) =
    [(0, FOk [5]); (1, FOk [9]); (2, FOk [2; 0; 0]); (3, FOk [1]); (4, FErr EStreamNotFound); (5, FErr EStreamNotFound);
     (6, FErr EStreamNotFound); (7, FErr EStreamNotFound); (8, FErr EStreamNotFound); (9, FErr EStreamNotFound);
     (10, FOk [1; 2]); (11, FOk [15; 0]); (12, FOk []); (13, FOk []); (14, FOk []); (15, FErr EStreamNotFound);
     (16, FErr EStreamNotFound); (17, FErr EStreamNotFound); (18, FErr EStreamNotFound); (19, FErr EStreamNotFound);
     (20, FErr EStreamNotFound); (21, FErr EStreamNotFound); (22, FErr EStreamNotFound); (23, FOk [0; 1]);
     (24, FErr EStreamNotFound); (25, FErr EStreamNotFound); (26, FErr EStreamNotFound); (27, FErr EStreamNotFound);
     (28, FErr EStreamNotFound)] /\
  o_ledger (run_case Fixed Debug nv_dump) = [96; 256; 112; 248; 120].
Proof. vm_compute. split; reflexivity. Qed.
(* the xstate iterator on a mask with bits 0, 1, 39 and 63 set; quoted/padded key-value text *)
Example c01_nonvacuous_xstate : xstate_iter Debug 9223372586610589699 = Ok [0; 1; 39; 63].
Proof. vm_compute. reflexivity. Qed.
Example c01_nonvacuous_kv :
  linux_kv 61 [68; 61; 34; 88; 34; 10; 32; 97; 32; 61; 32; 98; 9; 10; 110; 111; 10] = [([68], [88]); ([97], [98])].
Proof. vm_compute. reflexivity. Qed.
Example c01_nonvacuous_fixed_witnesses :
  In (10, FOk [1; 0]) (o_fields (run_case Fixed Debug wit_a)) /\
  In (10, FOk [1; 9]) (o_fields (run_case Fixed Debug wit_b)) /\
  In (12, FOk []) (o_fields (run_case Fixed Debug wit_c)) /\
  In (10, FErr EStreamReadFailure) (o_fields (run_case Fixed Debug wit_d)) /\ o_ledger (run_case Fixed Debug wit_d) = [] /\
  In (11, FOk [0; 3]) (o_fields (run_case Fixed Debug wit_e_ppc)) /\ In (13, FOk []) (o_fields (run_case Fixed Debug wit_e_ppc)).
Proof. exact wit_fixed_ok. Qed.

(* the theorems a row of C01/Sites.v may name (SitesCheck.theorem_names), as one term: a name that does not exist fails here *)
Definition c01_cover_index :=
  (c01_no_panic, c01_terminates, c01_alloc_backed, c01_stream_list_total, c01_ex_stream_list_total, c01_memory64_total,
   c01_handle_data_total, c01_location_slice_sound, c01_ensure_count_in_bound_sound, c01_strings_total, c01_utf16_in_bounds,
   c01_header_total, c01_exception_print_total, c01_xstate_iter_total, c01_misc_info_total, c01_thread_contexts_print_total,
   c01_memory_read_in_bounds, c01_linux_kv_bounded, c01_crashpad_info_total, c01_mac_crash_info_total, c01_fixed_streams_total,
   c01_print_sites_total, c01_crash_queries_total, c01_memory_range_sound, c01_last_error_in_bounds, c01_crash_address_total,
   c01_elf_debug_id_reads, c01_address_lookup_total, c01_get_thread_index_total, c01_lookups_total, c01_layout_pinned, c01_unloaded_lookup_in_range, c01_const_indices_in_bounds, c01_stack_source_total, c01_stack_fallback_sound,
   c01_thread_print_words_total, c01_thread_stack_words_total, c01_cpu_tables_pinned, c01_lookup_table_alloc_backed).
Example c01_nonvacuous_queries :
  memory_range Debug 18446744073709551599 16 = Ok (Some (18446744073709551599, 18446744073709551614)) /\
  memory_range Debug 18446744073709551600 16 = Ok None /\ memory_range Debug 5 0 = Ok None /\
  chk_sub Debug 64 PANIC_RANGE_SUB 0 1 = Panic PANIC_RANGE_SUB /\
  last_error_addr 18446744073709551564 4 = None /\ last_error_addr 18446744073709551563 4 = Some 18446744073709551615 /\
  crash_address true true EXC_ACCESS_VIOLATION 2 4198400 [0; 18446744073709551615; 0; 0; 0; 0; 0; 0; 0; 0; 0; 0; 0; 0; 0] = Ok 4294967295 /\
  run_queries Debug nv_dump = [(29, FErr EStreamNotFound); (30, FErr EStreamNotFound); (31, FOk [16; 16; 4198400; 4198400]); (32, FOk [1; 1; 1; 1])] /\
  (length site_table > 300)%nat /\ (count_cls is_covered > 80)%nat.
Proof. vm_compute. repeat split; try reflexivity; apply Nat.leb_le; reflexivity. Qed.
(* round 5: a table from overlapping / empty / top-of-address-space ranges: the second range overlaps the first with another
   value and is dropped, the None is skipped; lookups answer positions of the list *)
Example c01_nonvacuous_lookups :
  let ranges := [Some (10, 19); None; Some (15, 30); Some (18446744073709551600, 18446744073709551615)] in
  Forall wf_orange ranges /\
  table_of ranges = Ok [((10, 19), 0); ((18446744073709551600, 18446744073709551615), 3)] /\
  index_at (the_table ranges) 4 12 = Ok 0 /\ index_at (the_table ranges) 4 25 = Ok (-1) /\
  index_at (the_table ranges) 4 18446744073709551615 = Ok 3 /\
  index_at [((10, 19), 7)] 4 12 = Pan PANIC_LOOKUP_INDEX /\
  lookups Debug [(4096, 256); (4200, 100); (0, 0); (18446744073709551599, 16)] =
    Ok [2; 0; 0; -1; -1; 0; 0; 0; 0; 0; 0; 0; 0; -1; -1; -1; -1; -1; 3; 3; 3; -1; -1; 3; 3] /\
  run_lookups Debug nv_dump = [(33, FErr EStreamNotFound); (34, FOk [1; 0; 0; -1; -1; 0; 0]); (35, FErr EStreamNotFound);
                               (36, FErr EStreamNotFound); (37, FOk [0; 1])] /\
  get_thread_index LE [[1; 0; 0; 0]; [2; 0; 0; 0]; [1; 0; 0; 0]] 1 = Ok 2 /\
  (length size_pins = 35 /\ length field_pins = 76 /\ length length_pins = 5)%nat /\ first_bad = [] /\
  Nat.ltb 250 const_index_site_count = true /\ bad_const_index_rejected = true.
Proof.
  cbv zeta. split.
  - repeat constructor; cbn; unfold C08.Proofs.wf_range, two64; cbn; repeat split; try discriminate; reflexivity.
  - vm_compute. repeat split; reflexivity.
Qed.

(* round 5, second pass: a MIPS dump (CONTEXT_MIPS has 64-bit registers, the CPU 32-bit pointers): thread 7 owns a 23-byte stack
   (five 4-byte words, the last three bytes are dropped), thread 8 has no stack of its own and finds the 16-byte region of the memory
   list that contains its start_of_memory_range (four words); with an architecture the reader does not know the words are 8 bytes *)
Definition nv_mips_dump : bytes := [77; 68; 77; 80; 147; 167; 0; 0; 3; 0; 0; 0; 32; 0; 0; 0; 0; 0; 0; 0; 0; 0; 0; 80; 0; 0; 0; 0; 0; 0; 0; 0; 7; 0; 0; 0; 56; 0; 0; 0; 108; 0; 0; 0; 3; 0; 0; 0; 100; 0; 0; 0; 164; 0; 0; 0; 5; 0; 0; 0; 20; 0; 0; 0; 8; 1; 0; 0; 0; 1; 2; 3; 4; 5; 6; 7; 8; 9; 10; 11; 12; 13; 14; 15; 16; 17; 18; 19; 20; 21; 22; 0; 0; 1; 2; 3; 4; 5; 6; 7; 8; 9; 10; 11; 12; 13; 14; 15; 1; 0; 6; 0; 2; 15; 4; 1; 10; 0; 0; 0; 0; 0; 0; 0; 97; 74; 0; 0; 2; 0; 0; 0; 0; 0; 0; 0; 0; 0; 0; 0; 71; 101; 110; 117; 105; 110; 101; 73; 110; 116; 101; 108; 195; 6; 3; 0; 255; 251; 235; 191; 0; 0; 0; 0; 2; 0; 0; 0; 7; 0; 0; 0; 0; 0; 0; 0; 0; 0; 0; 0; 0; 0; 0; 0; 0; 0; 0; 0; 0; 0; 0; 0; 0; 112; 0; 0; 0; 0; 0; 0; 23; 0; 0; 0; 68; 0; 0; 0; 0; 0; 0; 0; 0; 0; 0; 0; 8; 0; 0; 0; 0; 0; 0; 0; 0; 0; 0; 0; 0; 0; 0; 0; 0; 0; 0; 0; 0; 0; 0; 0; 4; 144; 0; 0; 0; 0; 0; 0; 0; 0; 0; 0; 0; 0; 0; 0; 0; 0; 0; 0; 0; 0; 0; 0; 1; 0; 0; 0; 0; 144; 0; 0; 0; 0; 0; 0; 16; 0; 0; 0; 92; 0; 0; 0].
Example c01_nonvacuous_stack_words :
  wf_bytes nv_mips_dump /\ blen nv_mips_dump < T62 /\
  run_stacks Debug nv_mips_dump = [(38, FOk [1; -2; 0]); (39, FErr EStreamNotFound)] /\
  run_prints Debug nv_mips_dump = [(40, FOk [16 * 5 + 4; 16 * 4 + 4])] /\
  table_ledger Debug nv_mips_dump = [24] /\
  stack_words Debug 100 (print_width (Some 1)) 23 0 0 = Ok 5 /\
  print_width (Some 32769) = Bits32 /\ print_width (Some 32772) = Bits64 /\ print_width (Some 12345) = BitsUnknown /\
  thread_words Debug nv_mips_dump (print_width (Some 12345)) (Some 23) = Ok (16 * 2 + 8) /\
  stack_len LE [(4096, 16)] [] 1 = Pan PANIC_LOOKUP_INDEX /\
  (* the constant-index table: 23 groups rest on it, 444 sites; a group with a variable index is not "fully constant" *)
  Nat.ltb 20 const_index_rows = true /\ Nat.ltb 420 const_index_site_count = true /\
  nv_mips_group_constant = true /\ nv_exc_print_group_constant = false /\ nv_arm_index_16_rejected = true.
Proof.
  split; [apply wf_bytes_dec; vm_compute; reflexivity|].
  vm_compute. repeat split; reflexivity.
Qed.
