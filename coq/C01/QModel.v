(* C01/QModel.v — round 4: the queries made on a parsed dump (definitions only; extracted).
   Mirrors minidump/src/minidump.rs:
     memory_range()            MinidumpMemoryBase / MinidumpMemoryInfo / MinidumpModule / MinidumpUnloadedModule:
                               `if size == 0 { None }  Some(Range::new(base, base.checked_add(size)? - 1))`
     MinidumpLinuxMapInfo::memory_range   `if address.0 > address.1 { None }`
     MinidumpThread::last_error           `pointer_width.checked_mul(13)?`, `teb.checked_add(offset)?`, u32 read of the region found
     MinidumpException::get_crash_address `exception_information[1]` under the Windows access-violation guard, 32-bit mask
     read_debug_id (ELF arm)              build id padded with zeros to the 16 bytes of a GUID before `pread_with::<GUID>`
   The unchecked `- 1` and the constant index are Panic sites of the model (chk_sub / nth_error). *)
From RM Require Import C01.Model C01.Driver.
Open Scope Z_scope.

Definition PANIC_RANGE_SUB : Z := 120.    (* `base.checked_add(size)? - 1` *)
Definition PANIC_CRASH_INDEX : Z := 121.  (* `exception_information[1]` *)

Definition memory_range (p : profile) (base size : Z) : res (option (Z * Z)) :=
  if size =? 0 then Ok None
  else match checked_add 64 base size with
       | None => Ok None
       | Some s => rbind (of_chk (chk_sub p 64 PANIC_RANGE_SUB s 1)) (fun hi => Ok (Some (base, hi)))
       end.
Definition linux_map_range (lo hi : Z) : option (Z * Z) := if lo >? hi then None else Some (lo, hi).

Definition last_error_addr (teb pw : Z) : option Z :=
  match checked_mul 64 pw 13 with
  | None => None
  | Some off => checked_add 64 teb off
  end.
(* the value read when the region [base, base + |region|) is the one found for the address *)
Definition last_error (e : endian) (teb pw base : Z) (region : bytes) : option Z :=
  match last_error_addr teb pw with
  | None => None
  | Some a => mem_read 4 e base region a
  end.

Definition EXC_ACCESS_VIOLATION : Z := 3221225477.  (* 0xC0000005 *)
Definition EXC_IN_PAGE_ERROR : Z := 3221225478.     (* 0xC0000006 *)
Definition nth_info (info : list Z) (i : Z) : res Z :=
  match nth_error info (Z.to_nat i) with Some x => Ok x | None => Pan PANIC_CRASH_INDEX end.
Definition crash_address (windows ptr32 : bool) (code nparams addr : Z) (info : list Z) : res Z :=
  rbind (if windows && ((code =? EXC_ACCESS_VIOLATION) || (code =? EXC_IN_PAGE_ERROR)) && (2 <=? nparams)
         then nth_info info 1 else Ok addr)
        (fun a => Ok (if ptr32 then a mod two32 else a)).

Definition pad_build_id (bid : bytes) : bytes :=
  if blen bid <? 16 then firstn 16 (bid ++ repeat 0 16) else bid.
(* None: all-zero build id, no identifier; Some r: r = the GUID read succeeded *)
Definition elf_debug_id (bid : bytes) : option bool :=
  if forallb (Z.eqb 0) bid then None else Some (can_read (pad_build_id bid) 0 16).

(* ---- driver fields: what the harness observes *)
Definition bit_range (r : res (option (Z * Z))) : res Z :=
  rbind r (fun o => Ok (match o with Some _ => 1 | None => 0 end)).
Fixpoint seq_res {A} (l : list (res A)) : res (list A) :=
  match l with
  | [] => Ok []
  | x :: t => rbind x (fun a => rbind (seq_res t) (fun r => Ok (a :: r)))
  end.
(* memory list: descriptor = base u64, data_size u32, rva u32 *)
Definition mem_region_range (p : profile) (e : endian) (d : bytes) : res Z :=
  bit_range (memory_range p (val e (sub d 0 8)) (val e (sub d 8 4))).
Definition q_rm (p : profile) (e : endian) (mem : res (list bytes)) : res (list Z) :=
  rbind mem (fun regions => seq_res (map (mem_region_range p e) (firstn 8 regions))).
(* memory info list: entries of 48 bytes from size_of_header on: base u64 @0, region_size u64 @24 *)
Definition mi_entry_range (p : profile) (e : endian) (s : bytes) (i : Z) : res Z :=
  let off := val e (sub s 0 4) + 48 * i in
  bit_range (memory_range p (val e (sub s off 8)) (val e (sub s (off + 24) 8))).
Definition q_ri (p : profile) (e : endian) (s : res bytes) (mi : res Z) : res (list Z) :=
  rbind mi (fun n => rbind s (fun b => seq_res (map (mi_entry_range p e b) (map Z.of_nat (seq 0 (Z.to_nat (Z.min n 8))))))).
(* exception stream: code @8, address @24, number_parameters @32, information [u64; 15] @40 *)
Definition exc_info (e : endian) (s : bytes) : list Z := map (fun i => val e (sub s (40 + 8 * Z.of_nat i) 8)) (seq 0 15).
Definition q_ca (e : endian) (s : res bytes) (ex : res (Z * (Z * Z))) : res (list Z) :=
  rbind ex (fun _ => rbind s (fun b =>
    let code := val e (sub b 8 4) in let addr := val e (sub b 24 8) in let n := val e (sub b 32 4) in let info := exc_info e b in
    seq_res [crash_address true true code n addr info; crash_address true false code n addr info;
             crash_address false true code n addr info; crash_address false false code n addr info])).
(* threads: teb u64 @ 16; a 4-byte probe region placed at the wrapped address teb + 13 * pw.
   UnifiedMemoryList::memory_at_address finds a region iff its memory_range() exists and contains the address *)
Definition region_found (p : profile) (base size a : Z) : bool :=
  match memory_range p base size with
  | Ok (Some (lo, hi)) => (lo <=? a) && (a <=? hi)
  | _ => false
  end.
Definition last_error_probe (p : profile) (e : endian) (teb pw : Z) : Z :=
  let base := wrap64 (teb + 13 * pw) in
  match last_error_addr teb pw with
  | None => 0
  | Some a => if region_found p base 4 a then bit (mem_read 4 e base [1; 0; 0; 0] a) else 0
  end.
Definition thread_last_error_bits (p : profile) (e : endian) (d : bytes) : list Z :=
  map (last_error_probe p e (val e (sub d 16 8))) [4; 8].
Definition q_te (p : profile) (e : endian) (tl : res (list bytes)) : res (list Z) :=
  rbind tl (fun raws => Ok (flat_map (thread_last_error_bits p e) (firstn 4 raws))).

(* field tags continue Driver.run_case's: 29 RM  30 RI  31 CA  32 TE *)
Definition run_queries (p : profile) (file : bytes) : list (Z * field) :=
  match read_header file with
  | Ok (e, ds) =>
      [(29, fld (fun l => l) (q_rm p e (snd (s_mem p e file ds))));
       (30, fld (fun l => l) (q_ri p e (s_raw file ds ST_MEMORY_INFO) (snd (s_mi p e file ds))));
       (31, fld (fun l => l) (q_ca e (s_raw file ds ST_EXCEPTION) (snd (s_ex e file ds))));
       (32, fld (fun l => l) (q_te p e (snd (s_tl p e file ds))))]
  | _ => []
  end.
