(* C01/Agree.v — the Debug and Release profiles of the model coincide unless Debug panics.
   Justifies running the extracted model in one profile only. *)
From Coq Require Import Lia.
From RM Require Import C01.Model C01.Driver.
Open Scope Z_scope.

Definition ragree {A} (d r : res A) : Prop := d = r \/ exists t, d = Pan t.
Definition magree {A} (d r : M A) : Prop := d = r \/ exists t, snd d = Pan t.

Lemma ragree_refl : forall A (x : res A), ragree x x. Proof. left; reflexivity. Qed.
Lemma magree_refl : forall A (x : M A), magree x x. Proof. left; reflexivity. Qed.

Lemma chk_agree : forall w tag x, ragree (of_chk (chk Debug w tag x)) (of_chk (chk Release w tag x)).
Proof.
  intros. unfold chk. destruct ((0 <=? x) && (x <? 2 ^ w))%bool; [left; reflexivity|].
  right. exists tag. reflexivity.
Qed.
Lemma rbind_agree : forall A B (d r : res A) (f g : A -> res B),
  ragree d r -> (forall a, ragree (f a) (g a)) -> ragree (rbind d f) (rbind r g).
Proof.
  intros A B d r f g [->|[t ->]] H.
  - destruct r as [a|e|t|]; cbn [rbind]; try (left; reflexivity). apply H.
  - right. exists t. reflexivity.
Qed.
Lemma lift_agree : forall A (d r : res A), ragree d r -> magree (lift d) (lift r).
Proof. intros A d r [->|[t ->]]; [left; reflexivity | right; exists t; reflexivity]. Qed.
Lemma bind_agree : forall A B (d r : M A) (f g : A -> M B),
  magree d r -> (forall a, magree (f a) (g a)) -> magree (bind d f) (bind r g).
Proof.
  intros A B d r f g [->|[t Ht]] H.
  - destruct r as [l [a|e|t|]]; cbn [bind]; try (left; reflexivity).
    destruct (H a) as [->|[t Ht]]; [left; reflexivity|].
    right. exists t. destruct (f a) as [l2 r2]. cbn [snd] in *. exact Ht.
  - right. exists t. destruct d as [l rd]. cbn [snd] in Ht. subst rd. reflexivity.
Qed.
(* common shape: same first computation, continuations agree *)
Lemma bind_agree_same : forall A B (m : M A) (f g : A -> M B),
  (forall a, magree (f a) (g a)) -> magree (bind m f) (bind m g).
Proof. intros. apply bind_agree; [apply magree_refl | assumption]. Qed.

Lemma for_entries_agree : forall A (f g : Z -> M A) esz, (forall off, magree (f off) (g off)) ->
  forall fuel off count, magree (for_entries fuel f off esz count) (for_entries fuel g off esz count).
Proof.
  intros A f g esz H. induction fuel as [|fuel IH]; intros off count; cbn [for_entries].
  - apply magree_refl.
  - destruct (count <=? 0); [apply magree_refl|].
    apply bind_agree; [apply H|]. intros a.
    apply bind_agree; [apply IH|]. intros l. apply magree_refl.
Qed.

Lemma utf16_agree : forall e b off, ragree (read_string_utf16 Debug e b off) (read_string_utf16 Release e b off).
Proof.
  intros. unfold read_string_utf16. destruct (get_u 4 e b off); [|apply ragree_refl].
  destruct (negb _); [apply ragree_refl|].
  apply rbind_agree; [apply chk_agree | intros; apply ragree_refl].
Qed.
Lemma cstring_agree : forall b off, ragree (read_cstring_utf8 Debug b off) (read_cstring_utf8 Release b off).
Proof.
  intros. unfold read_cstring_utf8. apply rbind_agree; [apply ragree_refl|].
  intros [o|]; [|apply ragree_refl]. apply rbind_agree; [apply chk_agree | intros; apply ragree_refl].
Qed.

Lemma stream_list_agree : forall e b fsz msz, magree (read_stream_list Debug e b fsz msz) (read_stream_list Release e b fsz msz).
Proof.
  intros. unfold read_stream_list. apply bind_agree_same; intros u. apply bind_agree_same; intros [count counted].
  apply bind_agree; [apply lift_agree, chk_agree | intros; apply magree_refl].
Qed.
Lemma ex_stream_list_agree : forall e w b fsz msz, magree (read_ex_stream_list Debug e w b fsz msz) (read_ex_stream_list Release e w b fsz msz).
Proof.
  intros. unfold read_ex_stream_list. apply bind_agree_same; intros shdr. apply bind_agree_same; intros sent.
  apply bind_agree_same; intros n. apply bind_agree_same; intros _. apply bind_agree_same; intros [count x].
  apply bind_agree_same; intros pad.
  apply bind_agree; [apply lift_agree, chk_agree | intros; apply magree_refl].
Qed.

Lemma thread_names_agree : forall e all raws ids, ragree (thread_names Debug e all raws ids) (thread_names Release e all raws ids).
Proof.
  intros e all. induction raws as [|d t IH]; intros ids; cbn [thread_names]; [apply ragree_refl|].
  apply rbind_agree; [apply utf16_agree | intros; apply IH].
Qed.
Lemma modules_agree : forall e all raws, ragree (modules Debug e all raws) (modules Release e all raws).
Proof.
  intros e all. induction raws as [|d t IH]; cbn [modules]; [apply ragree_refl|].
  destruct (bad_image_size _ _); [exact IH|].
  apply rbind_agree; [apply utf16_agree|]. intros [nm|]; [|apply ragree_refl].
  destruct (_ || _)%bool; [|apply ragree_refl].
  apply rbind_agree; [exact IH | intros; apply ragree_refl].
Qed.
Lemma unloaded_agree : forall e all raws, ragree (unloaded_modules Debug e all raws) (unloaded_modules Release e all raws).
Proof.
  intros e all. induction raws as [|d t IH]; cbn [unloaded_modules]; [apply ragree_refl|].
  destruct (bad_image_size _ _); [apply ragree_refl|].
  apply rbind_agree; [apply utf16_agree|]. intros [nm|]; [|apply ragree_refl].
  apply rbind_agree; [exact IH | intros; apply ragree_refl].
Qed.

Lemma read_descriptor_agree : forall v e all b fs off,
  magree (read_descriptor v Debug e all b fs off) (read_descriptor v Release e all b fs off).
Proof.
  intros. unfold read_descriptor. apply lift_agree.
  destruct (_ || _)%bool; [|apply ragree_refl]. destruct (can_read b off fs); [|apply ragree_refl].
  unfold handle_string.
  apply rbind_agree.
  { destruct (_ =? 0); [apply ragree_refl|]. apply rbind_agree; [apply utf16_agree | intros; apply ragree_refl]. }
  intros _. apply rbind_agree.
  { destruct (_ =? 0); [apply ragree_refl|]. apply rbind_agree; [apply utf16_agree | intros; apply ragree_refl]. }
  intros _. apply ragree_refl.
Qed.
Lemma handle_data_agree : forall v e all b, magree (read_handle_data v Debug e all b) (read_handle_data v Release e all b).
Proof.
  intros. unfold read_handle_data. apply bind_agree_same; intros shdr. apply bind_agree_same; intros sdesc.
  apply bind_agree_same; intros n. apply bind_agree_same; intros _. apply bind_agree_same; intros [count x].
  apply bind_agree_same; intros _.
  apply bind_agree; [apply for_entries_agree; intros; apply read_descriptor_agree | intros; apply magree_refl].
Qed.

Lemma xstate_loop_agree : forall enabled fuel idx, ragree (xstate_loop Debug fuel idx enabled) (xstate_loop Release fuel idx enabled).
Proof.
  intros enabled. induction fuel as [|fuel IH]; intros idx; cbn [xstate_loop]; [apply ragree_refl|].
  destruct (XSTATE_FEATURES <=? idx); [apply ragree_refl|].
  apply rbind_agree.
  { destruct (idx <? 64); [apply ragree_refl | right; eexists; reflexivity]. }
  intros sh. destruct (Z.testbit enabled sh); [|apply IH].
  destruct (idx <? XSTATE_FEATURES); [|apply ragree_refl].
  apply rbind_agree; [apply IH | intros; apply ragree_refl].
Qed.
Lemma misc_result_agree : forall ms, ragree (misc_result Debug ms) (misc_result Release ms).
Proof.
  intros. unfold misc_result. apply rbind_agree; [apply ragree_refl|]. intros x.
  destruct (fst x =? 5); [|apply ragree_refl].
  apply rbind_agree; [apply xstate_loop_agree | intros; apply ragree_refl].
Qed.

Lemma mac_strings_agree : forall b num n i off, ragree (mac_strings Debug n i num b off) (mac_strings Release n i num b off).
Proof.
  intros b num. induction n as [|n IH]; intros i off; cbn [mac_strings]; [apply ragree_refl|].
  apply rbind_agree.
  { unfold mac_cstring. apply rbind_agree; [apply cstring_agree | intros; apply ragree_refl]. }
  intros [o|]; [|apply ragree_refl]. destruct (i <? num); [apply IH | apply ragree_refl].
Qed.
Lemma mac_records_agree : forall e all so locs prev acc,
  ragree (mac_records Debug e all so locs prev acc) (mac_records Release e all so locs prev acc).
Proof.
  intros e all so. induction locs as [|[size rva] t IH]; intros prev acc; cbn [mac_records]; [apply ragree_refl|].
  destruct (location_slice all size rva) as [r|]; [|apply ragree_refl].
  destruct (can_read r 0 16); [|apply ragree_refl].
  destruct (match prev with Some v => _ | None => false end); [apply ragree_refl|].
  destruct (mac_layout _) as [[fixed num]|]; [|apply IH].
  destruct (can_read r 0 fixed); [|apply ragree_refl].
  destruct (fixed >? so); [apply ragree_refl|].
  apply rbind_agree; [apply mac_strings_agree|]. intros [|]; [apply IH | apply ragree_refl].
Qed.

Lemma get_stream_agree : forall A all ds ty (f g : bytes -> M A), (forall s, magree (f s) (g s)) ->
  magree (get_stream all ds ty f) (get_stream all ds ty g).
Proof. intros. unfold get_stream. apply bind_agree_same. assumption. Qed.

(* ---- the eleven profile-dependent stream computations of run_case *)
Section RunCase.
Variables (v : version) (e : endian) (file : bytes) (ds : list dirent).

Lemma s_tl_agree : magree (s_tl Debug e file ds) (s_tl Release e file ds).
Proof.
  unfold s_tl. apply get_stream_agree. intros s. unfold read_thread_list.
  apply bind_agree; [apply stream_list_agree | intros; apply magree_refl].
Qed.
Lemma s_ml_agree : magree (s_ml Debug e file ds) (s_ml Release e file ds).
Proof.
  unfold s_ml. apply get_stream_agree. intros s. unfold read_module_list.
  apply bind_agree; [apply stream_list_agree|]. intros raws. apply bind_agree_same. intros _.
  apply lift_agree, modules_agree.
Qed.
Lemma s_um_agree : magree (s_um Debug e file ds) (s_um Release e file ds).
Proof.
  unfold s_um. apply get_stream_agree. intros s. unfold read_unloaded_module_list.
  apply bind_agree; [apply ex_stream_list_agree|]. intros raws. apply bind_agree_same. intros _.
  apply lift_agree, unloaded_agree.
Qed.
Lemma s_mem_agree : magree (s_mem Debug e file ds) (s_mem Release e file ds).
Proof.
  unfold s_mem. apply get_stream_agree. intros s. unfold read_memory_list.
  apply bind_agree; [apply stream_list_agree | intros; apply magree_refl].
Qed.
Lemma s_mi_agree : magree (s_mi Debug e file ds) (s_mi Release e file ds).
Proof.
  unfold s_mi. apply get_stream_agree. intros s. unfold read_memory_info_list.
  apply bind_agree; [apply ex_stream_list_agree | intros; apply magree_refl].
Qed.
Lemma s_ti_agree : magree (s_ti Debug e file ds) (s_ti Release e file ds).
Proof.
  unfold s_ti. apply get_stream_agree. intros s. unfold read_thread_info_list.
  apply bind_agree; [apply ex_stream_list_agree | intros; apply magree_refl].
Qed.
Lemma s_tn_agree : magree (s_tn Debug e file ds) (s_tn Release e file ds).
Proof.
  unfold s_tn. apply get_stream_agree. intros s. unfold read_thread_names.
  apply bind_agree; [apply stream_list_agree|]. intros raws. apply lift_agree, thread_names_agree.
Qed.
Lemma s_hd_agree : magree (s_hd v Debug e file ds) (s_hd v Release e file ds).
Proof. unfold s_hd. apply get_stream_agree. intros s. apply handle_data_agree. Qed.
Lemma s_sis_agree : magree (s_sis Debug e file ds) (s_sis Release e file ds).
Proof.
  unfold s_sis. apply get_stream_agree. intros s. apply lift_agree. unfold sysinfo_strings.
  destruct (can_read s 0 FSZ_SYSINFO); [|apply ragree_refl].
  apply rbind_agree; [apply utf16_agree | intros; apply ragree_refl].
Qed.
Lemma s_mb_agree : magree (s_mb Debug e file ds) (s_mb Release e file ds).
Proof.
  unfold s_mb. apply get_stream_agree. intros s. apply lift_agree. unfold read_mac_bootargs.
  destruct (can_read s 0 12); [|apply ragree_refl].
  apply rbind_agree; [apply utf16_agree | intros; apply ragree_refl].
Qed.
Lemma s_mc_agree : magree (s_mc Debug e file ds) (s_mc Release e file ds).
Proof.
  unfold s_mc. apply get_stream_agree. intros s. apply lift_agree. unfold read_mac_crash_info.
  destruct (can_read s 0 FSZ_MAC_CRASH); [|apply ragree_refl]. apply mac_records_agree.
Qed.
End RunCase.

Lemma fld_pan : forall A (enc : A -> list Z) r t, r = Pan t -> fld enc r = FPan t.
Proof. intros; subst; reflexivity. Qed.

(* On inputs where the Debug model does not panic, the Release model gives the same answer. *)
Theorem profiles_agree : forall v file,
  (forall tag f t, In (tag, f) (o_fields (run_case v Debug file)) -> f <> FPan t) ->
  run_case v Release file = run_case v Debug file.
Proof.
  intros v file H. unfold run_case in *. destruct (read_header file) as [[e ds]|er|t|]; try reflexivity.
  cbn [o_fields] in H.
  assert (Hin : forall tag f, In (tag, f) _ -> forall t, f <> FPan t) by (intros tag f Hi t; exact (H tag f t Hi)).
  clear H.
  (* each profile-dependent stream: equal, or its own field is a panic *)
  destruct (s_tl_agree e file ds) as [E1|[t Ht]].
  2:{ exfalso. eapply (Hin 2); [cbn [In]; do 2 right; left; reflexivity|]. unfold f_tl. apply fld_pan. exact Ht. }
  destruct (s_ml_agree e file ds) as [E2|[t Ht]].
  2:{ exfalso. eapply (Hin 3); [cbn [In]; do 3 right; left; reflexivity|]. apply fld_pan. exact Ht. }
  destruct (s_um_agree e file ds) as [E3|[t Ht]].
  2:{ exfalso. eapply (Hin 4); [cbn [In]; do 4 right; left; reflexivity|]. apply fld_pan. exact Ht. }
  destruct (s_mem_agree e file ds) as [E4|[t Ht]].
  2:{ exfalso. eapply (Hin 5); [cbn [In]; do 5 right; left; reflexivity|]. apply fld_pan. exact Ht. }
  destruct (s_mi_agree e file ds) as [E5|[t Ht]].
  2:{ exfalso. eapply (Hin 7); [cbn [In]; do 7 right; left; reflexivity|]. apply fld_pan. exact Ht. }
  destruct (s_ti_agree e file ds) as [E6|[t Ht]].
  2:{ exfalso. eapply (Hin 8); [cbn [In]; do 8 right; left; reflexivity|]. apply fld_pan. exact Ht. }
  destruct (s_tn_agree e file ds) as [E7|[t Ht]].
  2:{ exfalso. eapply (Hin 9); [cbn [In]; do 9 right; left; reflexivity|]. apply fld_pan. exact Ht. }
  destruct (s_hd_agree v e file ds) as [E8|[t Ht]].
  2:{ exfalso. eapply (Hin 10); [cbn [In]; do 10 right; left; reflexivity|]. apply fld_pan. exact Ht. }
  destruct (misc_result_agree (snd (s_ms e file ds))) as [E9|[t Ht]].
  2:{ exfalso. eapply (Hin 15); [cbn [In]; do 15 right; left; reflexivity|]. unfold f_ms. apply fld_pan. exact Ht. }
  destruct (s_sis_agree e file ds) as [E10|[t Ht]].
  2:{ exfalso. eapply (Hin 23); [cbn [In]; do 23 right; left; reflexivity|]. apply fld_pan. exact Ht. }
  destruct (s_mb_agree e file ds) as [E11|[t Ht]].
  2:{ exfalso. eapply (Hin 26); [cbn [In]; do 26 right; left; reflexivity|]. apply fld_pan. exact Ht. }
  destruct (s_mc_agree e file ds) as [E12|[t Ht]].
  2:{ exfalso. eapply (Hin 28); [cbn [In]; do 28 right; left; reflexivity|]. apply fld_pan. exact Ht. }
  unfold f_ms. rewrite <- E1, <- E2, <- E3, <- E4, <- E5, <- E6, <- E7, <- E8, <- E9, <- E10, <- E11, <- E12.
  reflexivity.
Qed.
