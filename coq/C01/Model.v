(* C01/Model.v — executable model of the minidump reader's untrusted-input machinery.
   Mirrors minidump/src/minidump.rs:
     location_slice (698)            ensure_count_in_bound (846)
     read_string_utf16 / _utf8 / read_cstring_utf8 (710-761)
     read_codeview (775) + MinidumpModule::read (886)
     read_stream_list (1292)  read_ex_stream_list (1336)
     thread names (1402), module list (1541), unloaded modules (1647)
     handle data stream: descriptor dispatch + object-info chain (1777-1960)
     memory list (2296), Memory64 list (2322), memory info (2386), thread list (2981),
     thread info (3130), system info (3157, the part that decides Ok/Err), exception (4849)
     and the exception_information indexing of MinidumpException::print (4972)
     Minidump::read: header, endianness, version, directory walk, last entry wins (5398)
   and scroll 0.12's Pread (offset > len -> BadOffset, too few bytes -> TooBig).
   Byte strings are [list Z].  Every [Vec::with_capacity(n)] on these paths is recorded in an
   allocation ledger as n * (in-memory element size).  The four defect sites F-C01a..d carry a
   [version] switch: [Unfixed] is the code before the fix commits, [Fixed] the code now.
   Definitions only; proofs are in C01/Proofs.v. *)
From RM Require Export Base.Word.
Open Scope Z_scope.

Inductive endian := LE | BE.
Inductive version := Unfixed | Fixed.
Definition bytes := list Z.

Definition blen {A} (b : list A) : Z := Z.of_nat (length b).
Definition sub (b : bytes) (off n : Z) : bytes := firstn (Z.to_nat n) (skipn (Z.to_nat off) b).
Fixpoint le_val (l : bytes) : Z := match l with [] => 0 | x :: t => x + 256 * le_val t end.
Definition val (e : endian) (l : bytes) : Z := match e with LE => le_val l | BE => le_val (rev l) end.

(* scroll 0.12 Pread::gread_with: offset > len is BadOffset, then the value needs n bytes
   (TooBig otherwise); a zero-length read at offset = len succeeds *)
Definition can_read (b : bytes) (off n : Z) : bool := off + n <=? blen b.
Definition get_u (n : Z) (e : endian) (b : bytes) (off : Z) : option Z :=
  if can_read b off n then Some (val e (sub b off n)) else None.

(* ---- errors, results, the ledger monad *)
Inductive err :=
| EMissingHeader | EHeaderMismatch | EVersionMismatch | EMissingDirectory
| EStreamReadFailure | EStreamSizeMismatch | EStreamNotFound | EModuleReadFailure
| EMemoryReadFailure | EDataError | ECodeViewReadFailure.

Inductive res (A : Type) : Type :=
| Ok (a : A)          (* normal return *)
| Err (e : err)       (* graceful Err / None *)
| Pan (tag : Z)       (* unwrap, index, overflow trap, unimplemented! *)
| NoFuel.             (* a model loop ran out of its explicit fuel *)
Arguments Ok {A} a. Arguments Err {A} e. Arguments Pan {A} tag. Arguments NoFuel {A}.

Definition rbind {A B} (x : res A) (f : A -> res B) : res B :=
  match x with Ok a => f a | Err e => Err e | Pan t => Pan t | NoFuel => NoFuel end.
Definition of_opt {A} (e : err) (o : option A) : res A :=
  match o with Some a => Ok a | None => Err e end.
Definition of_chk (o : outcome Z) : res Z :=
  match o with Ret a => Ok a | Fail => Err EStreamReadFailure | Panic t => Pan t | OutOfFuel => NoFuel end.

(* ledger: sizes in bytes of the Vec::with_capacity requests made so far *)
Definition M (A : Type) : Type := (list Z * res A)%type.
Definition ret {A} (a : A) : M A := ([], Ok a).
Definition lift {A} (r : res A) : M A := ([], r).
Definition alloc (n : Z) : M unit := ([n], Ok tt).
Definition bind {A B} (m : M A) (f : A -> M B) : M B :=
  match m with
  | (l, Ok a) => let '(l2, r) := f a in (l ++ l2, r)
  | (l, Err e) => (l, Err e)
  | (l, Pan t) => (l, Pan t)
  | (l, NoFuel) => (l, NoFuel)
  end.
Notation "'bnd' x <- m ;; k" := (bind m (fun x => k)) (at level 200, x name, m at level 100, k at level 200, right associativity).
Notation "'bnp' p <- m ;; k" := (bind m (fun x => let p := x in k)) (at level 200, p pattern, m at level 100, k at level 200, right associativity).

Definition checked_mul (w a b : Z) : option Z := let r := a * b in if r <? 2 ^ w then Some r else None.

(* panic tags *)
Definition PANIC_UTF16_ADD : Z := 101.       (* `*offset + size` in read_string_utf16 *)
Definition PANIC_LIST_SUB : Z := 102.        (* `bytes.len() - counted_size` in read_stream_list *)
Definition PANIC_EX_ADD : Z := 103.          (* `*offset += header_padding` in read_ex_stream_list *)
Definition PANIC_OBJINFO_UNWRAP : Z := 104.  (* from_u32(info_type).unwrap()  — F-C01a *)
Definition PANIC_EXC_INDEX : Z := 105.       (* exception_information[i], i >= 15 — F-C01c *)
Definition PANIC_CSTR_SUB : Z := 106.        (* `*offset - 1` in read_cstring_utf8 *)
Definition PANIC_CTX_UNIMPL : Z := 107.      (* unimplemented!() arms of MinidumpContext::print — F-C01e *)

(* ---- location_slice: checked rva + size, then bytes.get(start..end) *)
Definition slice (b : bytes) (s e : Z) : option bytes :=
  if (s <=? e) && (e <=? blen b) then Some (sub b s (e - s)) else None.
Definition location_slice (b : bytes) (size rva : Z) : option bytes :=
  match checked_add 64 rva size with Some e => slice b rva e | None => None end.

(* ---- ensure_count_in_bound(buf, n, size_of_entry, offset) *)
Definition ensure_count_in_bound (buflen n sz off : Z) : res (Z * Z) :=
  match checked_mul 64 n sz with
  | None => Err EStreamReadFailure
  | Some m =>
      match checked_add 64 m off with
      | None => Err EStreamReadFailure
      | Some expected => if buflen <? expected then Err EStreamSizeMismatch else Ok (n, expected)
      end
  end.

(* ---- `for _ in 0..count { gread entry }` : [f off] reads one entry at [off]; fuelled so
   that the iteration bound is a theorem and not an artefact of unary numbers *)
Fixpoint for_entries {A} (fuel : nat) (f : Z -> M A) (off esz count : Z) : M (list A) :=
  if count <=? 0 then ret []
  else match fuel with
       | O => lift NoFuel
       | S fuel' =>
           bnd a <- f off ;;
           bnd l <- for_entries fuel' f (off + esz) esz (count - 1) ;;
           ret (a :: l)
       end.
Definition raw_entry (b : bytes) (esz : Z) (off : Z) : M bytes :=
  lift (if can_read b off esz then Ok (sub b off esz) else Err EStreamReadFailure).
Definition fuel_of (b : bytes) : nat := S (length b).

(* ---- read_stream_list<T>: u32 count, 0-or-4 bytes of padding, entries.
   [fsz] = T::size_with (file), [msz] = size_of::<T>() (memory, for the ledger) *)
Definition read_stream_list (p : profile) (e : endian) (b : bytes) (fsz msz : Z) : M (list bytes) :=
  bnd u <- lift (of_opt EStreamReadFailure (get_u 4 e b 0)) ;;
  bnp (count, counted) <- lift (ensure_count_in_bound (blen b) u fsz 4) ;;
  bnd rest <- lift (of_chk (chk_sub p 64 PANIC_LIST_SUB (blen b) counted)) ;;
  bnd off <- lift (if rest =? 0 then Ok 4 else if rest =? 4 then Ok 8 else Err EStreamSizeMismatch) ;;
  bnd _ <- alloc (count * msz) ;;
  for_entries (fuel_of b) (raw_entry b fsz) off fsz count.

(* ---- read_ex_stream_list_with<T>(wide_count): size_of_header, size_of_entry (u32 each), then
   number_of_entries — a u64 when [wide] (MINIDUMP_MEMORY_INFO_LIST) and the header is at least
   16 bytes, a u32 otherwise; [cur] is the offset after the count *)
Definition read_ex_stream_list (p : profile) (e : endian) (wide : bool) (b : bytes) (fsz msz : Z) : M (list bytes) :=
  bnd shdr <- lift (of_opt EStreamReadFailure (get_u 4 e b 0)) ;;
  bnd sent <- lift (of_opt EStreamReadFailure (get_u 4 e b 4)) ;;
  let w := if wide && (16 <=? shdr) then 8 else 4 in
  bnd n <- lift (of_opt EStreamReadFailure (get_u w e b 8)) ;;
  let cur := 8 + w in
  bnd _ <- lift (if sent =? fsz then Ok tt else Err EStreamReadFailure) ;;
  bnp (count, _) <- lift (ensure_count_in_bound (blen b) n sent shdr) ;;
  bnd pad <- lift (of_opt EStreamReadFailure (checked_sub shdr cur)) ;;
  bnd off <- lift (of_chk (chk_add p 64 PANIC_EX_ADD cur pad)) ;;
  bnd _ <- alloc (count * msz) ;;
  for_entries (fuel_of b) (raw_entry b fsz) off fsz count.

(* ---- strings *)
(* encoding_rs decode_without_bom_handling_and_without_replacement: None on unpaired surrogates *)
Fixpoint units (e : endian) (l : bytes) : list Z :=
  match l with
  | a :: b :: t => val e [a; b] :: units e t
  | _ => []
  end.
Fixpoint utf16_ok (l : list Z) : bool :=
  match l with
  | [] => true
  | u :: t =>
      if (55296 <=? u) && (u <=? 56319) then        (* high surrogate: needs a low one next *)
        match t with
        | v :: t' => if (56320 <=? v) && (v <=? 57343) then utf16_ok t' else false
        | [] => false
        end
      else if (56320 <=? u) && (u <=? 57343) then false
      else utf16_ok t
  end.
(* returns the code units and the offset after the string; None = graceful failure *)
Definition read_string_utf16 (p : profile) (e : endian) (b : bytes) (off : Z) : res (option (list Z * Z)) :=
  match get_u 4 e b off with
  | None => Ok None
  | Some size =>
      if negb (size mod 2 =? 0) then Ok None
      else
      rbind (of_chk (chk_add p 64 PANIC_UTF16_ADD (off + 4) size)) (fun endo =>
      if endo >? blen b then Ok None
      else let us := units e (sub b (off + 4) size) in
           if utf16_ok us then Ok (Some (us, endo)) else Ok None)
  end.
(* read_string_utf8_unterminated: u32 length, then that many bytes; UTF-8 validity is not modelled (the result is the raw bytes) *)
Definition read_string_utf8_unterminated (e : endian) (b : bytes) (off : Z) : option (bytes * Z) :=
  match get_u 4 e b off with
  | None => None
  | Some n => if can_read b (off + 4) n then Some (sub b (off + 4) n, off + 4 + n) else None
  end.
Definition read_string_utf8 (e : endian) (b : bytes) (off : Z) : option (bytes * Z) :=
  match read_string_utf8_unterminated e b off with
  | None => None
  | Some (s, o) => match get_u 1 e b o with Some 0 => Some (s, o + 1) | _ => None end
  end.
(* read_cstring_utf8: `loop { gread u8; if 0 break }` then bytes[initial..*offset - 1] *)
Fixpoint cstring_loop (fuel : nat) (b : bytes) (off : Z) : res (option Z) :=
  match get_u 1 LE b off with
  | None => Ok None
  | Some c =>
      if c =? 0 then Ok (Some (off + 1))
      else match fuel with
           | O => NoFuel
           | S fuel' => cstring_loop fuel' b (off + 1)
           end
  end.
Definition read_cstring_utf8 (p : profile) (b : bytes) (off : Z) : res (option (bytes * Z)) :=
  rbind (cstring_loop (fuel_of b) b off) (fun r =>
  match r with
  | None => Ok None
  | Some o => rbind (of_chk (chk_sub p 64 PANIC_CSTR_SUB o 1)) (fun last =>
              match slice b off last with Some s => Ok (Some (s, o)) | None => Ok None end)
  end).

(* ---- element sizes: file layout (size_with) and memory (size_of); the memory sizes are
   compared with the harness's SIZES line on every run *)
Definition FSZ_THREAD := 48.      Definition MSZ_THREAD_RAW := 48.    Definition MSZ_THREAD := 128.
Definition FSZ_MODULE := 108.     Definition MSZ_MODULE_RAW := 112.   Definition MSZ_MODULE := 248.
Definition FSZ_MEMDESC := 16.     Definition MSZ_MEMDESC_RAW := 16.   Definition MSZ_MEMORY := 56.
Definition FSZ_MEMDESC64 := 16.   Definition MSZ_MEMDESC64_RAW := 16. Definition MSZ_MEMORY64 := 56.
Definition FSZ_MEMINFO := 48.     Definition MSZ_MEMINFO_RAW := 48.
Definition FSZ_THREADINFO := 64.  Definition MSZ_THREADINFO_RAW := 64. Definition MSZ_THREADINFO := 64.
Definition FSZ_UNLOADED := 24.    Definition MSZ_UNLOADED_RAW := 24.  Definition MSZ_UNLOADED := 48.
Definition FSZ_THREADNAME := 12.  Definition MSZ_THREADNAME_RAW := 16.
Definition FSZ_HANDLE1 := 32.     Definition FSZ_HANDLE2 := 40.       Definition MSZ_HANDLE := 120.
Definition FSZ_OBJINFO := 12.
Definition FSZ_SYSINFO := 56.     Definition FSZ_EXCEPTION := 168.
Definition FSZ_HEADER := 32.      Definition FSZ_DIRENT := 12.
(* every ledger entry is at most ALLOC_C * |stream| *)
Definition ALLOC_C := 4.

(* ---- thread list *)
Definition read_thread_list (p : profile) (e : endian) (b : bytes) : M (list bytes) :=
  bnd raws <- read_stream_list p e b FSZ_THREAD MSZ_THREAD_RAW ;;
  bnd _ <- alloc (blen raws * MSZ_THREAD) ;;
  ret raws.

(* ---- memory list: unreadable regions are skipped *)
Definition memory_ok (e : endian) (all : bytes) (d : bytes) : bool :=
  let size := val e (sub d 8 4) in let rva := val e (sub d 12 4) in
  if (rva =? 0) || (size =? 0) then false
  else match location_slice all size rva with Some _ => true | None => false end.
Definition read_memory_list (p : profile) (e : endian) (all b : bytes) : M (list bytes) :=
  bnd raws <- read_stream_list p e b FSZ_MEMDESC MSZ_MEMDESC_RAW ;;
  bnd _ <- alloc (blen raws * MSZ_MEMORY) ;;
  ret (filter (memory_ok e all) raws).

(* ---- MinidumpMemoryBase::get_memory_at_address::<T>(addr), T of [n] bytes:
   `addr.checked_sub(base)? as usize`, then scroll's pread on the region's bytes *)
Definition mem_read (n : Z) (e : endian) (base : Z) (region : bytes) (addr : Z) : option Z :=
  match checked_sub addr base with
  | None => None
  | Some start => get_u n e region start
  end.

(* ---- Memory64 list: u64 count, u64 base rva, descriptors; running rva with checked_add *)
Fixpoint mem64_regions (e : endian) (all : bytes) (rva : Z) (raws : list bytes) : res Z :=
  match raws with
  | [] => Ok 0
  | d :: t =>
      let size := val e (sub d 8 8) in
      match checked_add 64 rva size with
      | None => Err EStreamReadFailure
      | Some endo =>
          match slice all rva endo with
          | None => Err EStreamReadFailure
          | Some _ => rbind (mem64_regions e all endo t) (fun n => Ok (n + 1))
          end
      end
  end.
Definition read_memory64_list (p : profile) (e : endian) (all b : bytes) : M Z :=
  bnd u <- lift (of_opt EStreamReadFailure (get_u 8 e b 0)) ;;
  bnd rva <- lift (of_opt EStreamReadFailure (get_u 8 e b 8)) ;;
  bnp (count, counted) <- lift (ensure_count_in_bound (blen b) u FSZ_MEMDESC64 16) ;;
  bnd _ <- lift (if blen b =? counted then Ok tt else Err EStreamSizeMismatch) ;;
  bnd _ <- alloc (count * MSZ_MEMDESC64_RAW) ;;
  bnd raws <- for_entries (fuel_of b) (raw_entry b FSZ_MEMDESC64) 16 FSZ_MEMDESC64 count ;;
  bnd _ <- alloc (blen raws * MSZ_MEMORY64) ;;
  lift (mem64_regions e all rva raws).

(* ---- memory info / thread info: extended list headers *)
Definition read_memory_info_list (p : profile) (e : endian) (b : bytes) : M Z :=
  bnd raws <- read_ex_stream_list p e true b FSZ_MEMINFO MSZ_MEMINFO_RAW ;;
  ret (blen raws).
Definition read_thread_info_list (p : profile) (e : endian) (b : bytes) : M Z :=
  bnd raws <- read_ex_stream_list p e false b FSZ_THREADINFO MSZ_THREADINFO_RAW ;;
  bnd _ <- alloc (blen raws * MSZ_THREADINFO) ;;
  ret (blen raws).

(* ---- thread names: unreadable names are dropped, later ids replace earlier ones *)
Fixpoint insert_id (id : Z) (l : list Z) : list Z :=
  match l with [] => [id] | x :: t => if x =? id then l else x :: insert_id id t end.
Fixpoint thread_names (p : profile) (e : endian) (all : bytes) (raws : list bytes) (ids : list Z) : res Z :=
  match raws with
  | [] => Ok (blen ids)
  | d :: t =>
      rbind (read_string_utf16 p e all (val e (sub d 4 8))) (fun r =>
      thread_names p e all t (match r with Some _ => insert_id (val e (sub d 0 4)) ids | None => ids end))
  end.
Definition read_thread_names (p : profile) (e : endian) (all b : bytes) : M Z :=
  bnd raws <- read_stream_list p e b FSZ_THREADNAME MSZ_THREADNAME_RAW ;;
  lift (thread_names p e all raws []).

(* ---- modules *)
Definition CV_PDB20 := 808534606.   (* 0x3031424e *)
Definition CV_PDB70 := 1396986706.  (* 0x53445352 *)
Definition CV_ELF := 1114654028.    (* 0x4270454c *)
(* read_codeview: fixed part of the record by signature; the trailing name may be empty *)
Definition read_codeview (e : endian) (all : bytes) (size rva : Z) : bool :=
  match location_slice all size rva with
  | None => false
  | Some s =>
      match get_u 4 e s 0 with
      | None => false
      | Some sig =>
          if sig =? CV_PDB70 then 24 <=? blen s
          else if sig =? CV_PDB20 then 16 <=? blen s
          else if sig =? CV_ELF then 4 <=? blen s
          else true
      end
  end.
Definition bad_image_size (base size : Z) : bool := (size =? 0) || (size >? U64MAX - base).
Fixpoint modules (p : profile) (e : endian) (all : bytes) (raws : list bytes) : res Z :=
  match raws with
  | [] => Ok 0
  | d :: t =>
      let base := val e (sub d 0 8) in let size := val e (sub d 8 4) in
      if bad_image_size base size then modules p e all t
      else
        rbind (read_string_utf16 p e all (val e (sub d 20 4))) (fun name =>
        match name with
        | None => Err ECodeViewReadFailure
        | Some _ =>
            let cvsize := val e (sub d 76 4) in let cvrva := val e (sub d 80 4) in
            if (cvsize =? 0) || read_codeview e all cvsize cvrva
            then rbind (modules p e all t) (fun n => Ok (n + 1))
            else Err ECodeViewReadFailure
        end)
  end.
Definition read_module_list (p : profile) (e : endian) (all b : bytes) : M Z :=
  bnd raws <- read_stream_list p e b FSZ_MODULE MSZ_MODULE_RAW ;;
  bnd _ <- alloc (blen raws * MSZ_MODULE) ;;
  lift (modules p e all raws).

Fixpoint unloaded_modules (p : profile) (e : endian) (all : bytes) (raws : list bytes) : res Z :=
  match raws with
  | [] => Ok 0
  | d :: t =>
      let base := val e (sub d 0 8) in let size := val e (sub d 8 4) in
      if bad_image_size base size then Err EModuleReadFailure
      else
        rbind (read_string_utf16 p e all (val e (sub d 20 4))) (fun name =>
        match name with
        | None => Err EDataError
        | Some _ => rbind (unloaded_modules p e all t) (fun n => Ok (n + 1))
        end)
  end.
Definition read_unloaded_module_list (p : profile) (e : endian) (all b : bytes) : M Z :=
  bnd raws <- read_ex_stream_list p e false b FSZ_UNLOADED MSZ_UNLOADED_RAW ;;
  bnd _ <- alloc (blen raws * MSZ_UNLOADED) ;;
  lift (unloaded_modules p e all raws).

(* ---- handle data stream *)
(* MINIDUMP_HANDLE_OBJECT_INFORMATION_TYPE has ten variants, 0..9 *)
Definition known_info_type (t : Z) : bool := (0 <=? t) && (t <=? 9).
(* the object-info chain of one MINIDUMP_HANDLE_DESCRIPTOR_2; returns the number of records.
   Unfixed: `while rva != 0 { read_object_info(rva) ... }` with from_u32(..).unwrap() inside.
   Fixed:   an unknown info_type ends the chain like an unreadable record (F-C01a), and the
            walk visits at most |file| / 12 records (F-C01b). *)
Fixpoint info_chain (v : version) (fuel : nat) (e : endian) (all : bytes) (rva visited : Z) : res Z :=
  if rva =? 0 then Ok visited
  else if match v with Fixed => blen all / FSZ_OBJINFO <=? visited | Unfixed => false end then Ok visited
  else match fuel with
       | O => NoFuel
       | S fuel' =>
           if can_read all rva FSZ_OBJINFO then
             let next := val e (sub all rva 4) in
             let ty := val e (sub all (rva + 4) 4) in
             if known_info_type ty then info_chain v fuel' e all next (visited + 1)
             else match v with Unfixed => Pan PANIC_OBJINFO_UNWRAP | Fixed => Ok visited end
           else Ok visited
       end.
Definition handle_string (p : profile) (e : endian) (all : bytes) (rva : Z) : res unit :=
  if rva =? 0 then Ok tt else rbind (read_string_utf16 p e all rva) (fun _ => Ok tt).
(* one descriptor (TryFromCtx<HandleDescriptorContext>): returns its number of object infos *)
Definition read_descriptor (v : version) (p : profile) (e : endian) (all b : bytes) (fieldsize off : Z) : M Z :=
  lift (
  if (fieldsize =? FSZ_HANDLE1) || (fieldsize =? FSZ_HANDLE2) then
    if can_read b off fieldsize then
      let d := sub b off fieldsize in
      rbind (handle_string p e all (val e (sub d 8 4))) (fun _ =>
      rbind (handle_string p e all (val e (sub d 12 4))) (fun _ =>
      if fieldsize =? FSZ_HANDLE2 then info_chain v (fuel_of all) e all (val e (sub d 32 4)) 0
      else Ok 0))
    else Err EStreamReadFailure
  else Err EStreamReadFailure).
Definition read_handle_data (v : version) (p : profile) (e : endian) (all b : bytes) : M (Z * Z) :=
  bnd shdr <- lift (of_opt EStreamReadFailure (get_u 4 e b 0)) ;;
  bnd sdesc <- lift (of_opt EStreamReadFailure (get_u 4 e b 4)) ;;
  bnd n <- lift (of_opt EStreamReadFailure (get_u 4 e b 8)) ;;
  bnd _ <- lift (match v with
             | Fixed => if (sdesc =? FSZ_HANDLE1) || (sdesc =? FSZ_HANDLE2) then Ok tt else Err EStreamReadFailure
             | Unfixed => Ok tt
             end) ;;
  bnp (count, _) <- lift (ensure_count_in_bound (blen b) n sdesc shdr) ;;
  bnd _ <- alloc (count * MSZ_HANDLE) ;;
  bnd infos <- for_entries (fuel_of b) (read_descriptor v p e all b sdesc) shdr sdesc count ;;
  ret (blen infos, fold_right Z.add 0 infos).

(* ---- system info: Ok iff the fixed-size record is present; yields processor_architecture *)
Definition read_system_info (e : endian) (b : bytes) : res Z :=
  if can_read b 0 FSZ_SYSINFO then Ok (val e (sub b 0 2)) else Err EStreamReadFailure.

(* ---- exception stream and MinidumpException::print's parameter loop *)
(* number_parameters, thread_context.data_size, thread_context.rva *)
Definition read_exception (e : endian) (b : bytes) : res (Z * (Z * Z)) :=
  if can_read b 0 FSZ_EXCEPTION then Ok (val e (sub b 32 4), (val e (sub b 160 4), val e (sub b 164 4)))
  else Err EStreamReadFailure.
Fixpoint exc_print_loop (n : nat) (i limit : Z) : res unit :=
  if limit <=? i then Ok tt
  else match n with
       | O => Ok tt
       | S n' => if 15 <=? i then Pan PANIC_EXC_INDEX else exc_print_loop n' (i + 1) limit
       end.
(* Unfixed: `for i in 0..number_parameters { ..exception_information[i].. }`
   Fixed:   the loop runs to min(number_parameters, 15) *)
Definition exception_print (v : version) (nparams : Z) : res unit :=
  match v with
  | Unfixed => exc_print_loop 16 0 nparams
  | Fixed => exc_print_loop 16 0 (Z.min nparams 15)
  end.

(* ---- MinidumpContext::read dispatch (context.rs:1042) and the arms of MinidumpContext::print,
   as a table: processor_architecture -> (variant, size_with of the CONTEXT_* struct, offset and
   width of context_flags, the CONTEXT_* cpu flag that must be the only cpu bit set) *)
Inductive ctxkind := CX86 | CAmd64 | CPpc | CPpc64 | CSparc | CArm | CArm64 | CArm64Old | CMips.
Definition ctx_table (arch : Z) : option (ctxkind * Z * Z * Z * Z) :=
  if (arch =? 0) || (arch =? 10) then Some (CX86, 716, 0, 4, 65536)
  else if arch =? 9 then Some (CAmd64, 1232, 48, 4, 1048576)
  else if arch =? 3 then Some (CPpc, 1004, 0, 4, 536870912)
  else if arch =? 32770 then Some (CPpc64, 1160, 0, 8, 16777216)
  else if arch =? 32769 then Some (CSparc, 584, 0, 4, 268435456)
  else if arch =? 5 then Some (CArm, 368, 0, 4, 1073741824)
  else if arch =? 12 then Some (CArm64, 912, 0, 4, 4194304)
  else if arch =? 32771 then Some (CArm64Old, 796, 0, 8, 2147483648)
  else if arch =? 1 then Some (CMips, 600, 0, 4, 262144)
  else None.
(* ContextFlagsCpu::from_flags: (flags & 0xffffff00) truncated to the ten known cpu bits *)
Definition CTX_CPU_BITS : Z := 4049403904.  (* 0xF15D0000 *)
Definition context_read (e : endian) (arch : Z) (b : bytes) : option ctxkind :=
  match ctx_table arch with
  | None => None
  | Some (k, size, off, w, flag) =>
      if can_read b 0 size then
        let flags := val e (sub b off w) mod 4294967296 in     (* `as u32` for the two u64 fields *)
        if Z.land flags CTX_CPU_BITS =? flag then Some k else None
      else None
  end.
(* Unfixed: the PPC, PPC64 and SPARC arms are unimplemented!() (F-C01e) *)
Definition context_print (v : version) (k : ctxkind) : res unit :=
  match v, k with
  | Unfixed, CPpc | Unfixed, CPpc64 | Unfixed, CSparc => Pan PANIC_CTX_UNIMPL
  | _, _ => Ok tt
  end.
(* MinidumpException::print(f, Some(system_info), misc): parameters, then the context if it parses *)
Definition exception_print_ctx (v : version) (nparams : Z) (k : option ctxkind) : res unit :=
  rbind (exception_print v nparams) (fun _ =>
  match k with Some k' => context_print v k' | None => Ok tt end).

(* ---- thread contexts: MinidumpThread::context = location_slice(thread_context) + MinidumpContext::read;
   the stack read at parse time is MinidumpMemory::read(raw.stack) *)
Definition thread_ctx_kind (e : endian) (all : bytes) (arch : option Z) (d : bytes) : option ctxkind :=
  match arch with
  | None => None
  | Some a =>
      match location_slice all (val e (sub d 40 4)) (val e (sub d 44 4)) with
      | Some c => context_read e a c
      | None => None
      end
  end.
Definition thread_stack_ok (e : endian) (all : bytes) (d : bytes) : bool := memory_ok e all (sub d 24 16).
(* MinidumpThreadList::print: every thread's context goes through MinidumpContext::print *)
Fixpoint threads_print (v : version) (ks : list (option ctxkind)) : res unit :=
  match ks with
  | [] => Ok tt
  | None :: t => threads_print v t
  | Some k :: t => rbind (context_print v k) (fun _ => threads_print v t)
  end.

(* ---- MinidumpMiscInfo::read: the largest MINIDUMP_MISC_INFO_n that fits; yields n and, for n = 5,
   xstate_data.enabled_features *)
Definition read_misc_info (e : endian) (b : bytes) : res (Z * Z) :=
  if 1364 <=? blen b then Ok (5, val e (sub b 840 8))
  else if 832 <=? blen b then Ok (4, 0)
  else if 232 <=? blen b then Ok (3, 0)
  else if 44 <=? blen b then Ok (2, 0)
  else if 24 <=? blen b then Ok (1, 0)
  else Err EStreamReadFailure.
(* XstateFeatureIter::next, run to exhaustion (as MinidumpMiscInfo::print does):
     while idx < features.len() { cur = idx; idx += 1; if enabled & (1 << cur) != 0 { yield features[cur] } }
   `1 << cur` is a u64 shift (traps in debug builds when cur >= 64, masks in release),
   `features[cur]` an index into 64 entries.  Returns the indices yielded. *)
Definition PANIC_XSTATE_SHIFT : Z := 108.
Definition PANIC_XSTATE_INDEX : Z := 109.
Definition XSTATE_FEATURES : Z := 64.
Fixpoint xstate_loop (p : profile) (fuel : nat) (idx enabled : Z) : res (list Z) :=
  if XSTATE_FEATURES <=? idx then Ok []
  else match fuel with
       | O => NoFuel
       | S fuel' =>
           rbind (if idx <? 64 then Ok idx
                  else match p with Debug => Pan PANIC_XSTATE_SHIFT | Release => Ok (idx mod 64) end) (fun sh =>
           if Z.testbit enabled sh then
             if idx <? XSTATE_FEATURES
             then rbind (xstate_loop p fuel' (idx + 1) enabled) (fun l => Ok (idx :: l))
             else Pan PANIC_XSTATE_INDEX
           else xstate_loop p fuel' (idx + 1) enabled)
       end.
Definition xstate_iter (p : profile) (enabled : Z) : res (list Z) := xstate_loop p 64 0 enabled.

(* ---- Linux text streams: linux_list_iter(bytes, sep) = lines().filter_map(split_once(sep)) with
   both halves trimmed of ASCII whitespace and of one pair of surrounding double quotes *)
Definition is_ws (c : Z) : bool := (c =? 32) || (c =? 9) || (c =? 10) || (c =? 12) || (c =? 13).
Fixpoint drop_ws (l : bytes) : bytes := match l with c :: t => if is_ws c then drop_ws t else l | [] => [] end.
Definition trim_ws (l : bytes) : bytes := rev (drop_ws (rev (drop_ws l))).
Definition strip_quotes (l : bytes) : bytes :=
  let t := trim_ws l in
  match t with
  | c :: r =>
      if c =? 34 then
        match rev r with
        | c2 :: r' => if c2 =? 34 then rev r' else t
        | [] => t
        end
      else t
  | [] => t
  end.
Fixpoint split_on (sep : Z) (l cur : bytes) : list bytes :=
  match l with
  | [] => [rev cur]
  | c :: t => if c =? sep then rev cur :: split_on sep t [] else split_on sep t (c :: cur)
  end.
Fixpoint split_once (sep : Z) (l pre : bytes) : option (bytes * bytes) :=
  match l with
  | [] => None
  | c :: t => if c =? sep then Some (rev pre, t) else split_once sep t (c :: pre)
  end.
Fixpoint kv_of_lines (sep : Z) (lines : list bytes) : list (bytes * bytes) :=
  match lines with
  | [] => []
  | ln :: t => match split_once sep ln [] with
               | Some (k, v) => (strip_quotes k, strip_quotes v) :: kv_of_lines sep t
               | None => kv_of_lines sep t
               end
  end.
Definition linux_lines (b : bytes) : list bytes := split_on 10 b [].
Definition linux_kv (sep : Z) (b : bytes) : list (bytes * bytes) := kv_of_lines sep (linux_lines b).

(* ---- crashpad info (minidump.rs 5075-5280): annotation lists, dictionaries, objects, module links.
   std::str::from_utf8 is modelled by [utf8_ok] (well-formed UTF-8 per the Unicode standard, table 3-7) *)
Definition cont (b : Z) : bool := (128 <=? b) && (b <=? 191).
Fixpoint utf8_ok (l : bytes) : bool :=
  match l with
  | [] => true
  | a :: t =>
      if a <? 128 then utf8_ok t
      else if (194 <=? a) && (a <=? 223) then
        match t with b :: t' => cont b && utf8_ok t' | _ => false end
      else if (224 <=? a) && (a <=? 239) then
        match t with
        | b :: c :: t' =>
            (if a =? 224 then (160 <=? b) && (b <=? 191) else if a =? 237 then (128 <=? b) && (b <=? 159) else cont b)
            && cont c && utf8_ok t'
        | _ => false
        end
      else if (240 <=? a) && (a <=? 244) then
        match t with
        | b :: c :: d :: t' =>
            (if a =? 240 then (144 <=? b) && (b <=? 191) else if a =? 244 then (128 <=? b) && (b <=? 143) else cont b)
            && cont c && cont d && utf8_ok t'
        | _ => false
        end
      else false
  end.
Definition utf8_string (e : endian) (all : bytes) (off : Z) : option bytes :=
  match read_string_utf8_unterminated e all off with
  | Some (s, o) => if utf8_ok s then match get_u 1 e all o with Some 0 => Some s | _ => None end else None
  | None => None
  end.
Definition utf8_string_unterminated (e : endian) (all : bytes) (off : Z) : option bytes :=
  match read_string_utf8_unterminated e all off with
  | Some (s, _) => if utf8_ok s then Some s else None
  | None => None
  end.
Fixpoint bytes_eqb (a b : bytes) : bool :=
  match a, b with
  | [], [] => true
  | x :: a', y :: b' => (x =? y) && bytes_eqb a' b'
  | _, _ => false
  end.
Fixpoint insert_key (k : bytes) (l : list bytes) : list bytes :=
  match l with [] => [k] | x :: t => if bytes_eqb x k then l else x :: insert_key k t end.

Definition MSZ_STRING := 24.               (* size_of::<String>() *)
Definition MSZ_MODULE_CRASHPAD := 112.     (* size_of::<MinidumpModuleCrashpadInfo>() *)
Definition FSZ_CRASHPAD := 52.  Definition FSZ_MODULE_CRASHPAD := 28.  Definition FSZ_LINK := 12.
(* these readers bound their counts by the whole FILE (ensure_count_in_bound(all, ..)), not by the
   stream: every ledger entry is at most ALLOC_FILE_C * |file| *)
Definition ALLOC_FILE_C := 10.

(* read_string_list: u32 count (count * 4 must fit the file), then that many RVAs of NUL-terminated strings *)
Definition string_list_entry (e : endian) (all data : bytes) (off : Z) : M unit :=
  lift (match get_u 4 e data off with
        | None => Err EStreamReadFailure
        | Some rva => match utf8_string e all rva with Some _ => Ok tt | None => Err EStreamReadFailure end
        end).
Definition read_string_list (e : endian) (all : bytes) (size rva : Z) : M Z :=
  bnd data <- lift (of_opt EStreamReadFailure (location_slice all size rva)) ;;
  if blen data =? 0 then ret 0 else
  bnd count <- lift (of_opt EStreamReadFailure (get_u 4 e data 0)) ;;
  bnp (n, _) <- lift (ensure_count_in_bound (blen all) count 4 0) ;;
  bnd _ <- alloc (n * MSZ_STRING) ;;
  bnd l <- for_entries (fuel_of all) (string_list_entry e all data) 4 4 n ;;
  ret (blen l).

(* read_simple_string_dictionary: the u32 count is NOT validated; every iteration reads 8 bytes of
   [data], so the loop ends with the data.  Returns the number of distinct keys (BTreeMap). *)
Fixpoint dict_loop (fuel : nat) (e : endian) (all data : bytes) (off count : Z) (keys : list bytes) : res Z :=
  if count <=? 0 then Ok (blen keys)
  else if can_read data off 8 then
         match fuel with
         | O => NoFuel
         | S fuel' =>
             match utf8_string e all (val e (sub data off 4)) with
             | None => Err EStreamReadFailure
             | Some k =>
                 match utf8_string e all (val e (sub data (off + 4) 4)) with
                 | None => Err EStreamReadFailure
                 | Some _ => dict_loop fuel' e all data (off + 8) (count - 1) (insert_key k keys)
                 end
             end
         end
       else Err EStreamReadFailure.
Definition read_simple_dictionary (e : endian) (all : bytes) (size rva : Z) : res Z :=
  match location_slice all size rva with
  | None => Err EStreamReadFailure
  | Some data =>
      if blen data =? 0 then Ok 0
      else match get_u 4 e data 0 with
           | None => Err EStreamReadFailure
           | Some count => dict_loop (fuel_of data) e all data 4 count []
           end
  end.
(* read_annotation_objects: 12-byte entries (name rva, u16 type, u16 reserved, value rva); a value is
   only read for TYPE_STRING (1), as a length-prefixed string without terminator *)
Fixpoint annot_loop (fuel : nat) (e : endian) (all data : bytes) (off count : Z) (keys : list bytes) : res Z :=
  if count <=? 0 then Ok (blen keys)
  else if can_read data off 12 then
         match fuel with
         | O => NoFuel
         | S fuel' =>
             match utf8_string e all (val e (sub data off 4)) with
             | None => Err EStreamReadFailure
             | Some k =>
                 let ty := val e (sub data (off + 4) 2) in
                 if (ty =? 1) && (match utf8_string_unterminated e all (val e (sub data (off + 8) 4)) with Some _ => false | None => true end)
                 then Err EStreamReadFailure
                 else annot_loop fuel' e all data (off + 12) (count - 1) (insert_key k keys)
             end
         end
       else Err EStreamReadFailure.
Definition read_annotation_objects (e : endian) (all : bytes) (size rva : Z) : res Z :=
  match location_slice all size rva with
  | None => Err EStreamReadFailure
  | Some data =>
      if blen data =? 0 then Ok 0
      else match get_u 4 e data 0 with
           | None => Err EStreamReadFailure
           | Some count => annot_loop (fuel_of data) e all data 4 count []
           end
  end.
(* MinidumpModuleCrashpadInfo::read(link): the record is read at link.location.rva of the FILE *)
Definition read_module_crashpad (e : endian) (all : bytes) (rva : Z) : M Z :=
  if can_read all rva FSZ_MODULE_CRASHPAD then
    let r := sub all rva FSZ_MODULE_CRASHPAD in
    bnd a <- read_string_list e all (val e (sub r 4 4)) (val e (sub r 8 4)) ;;
    bnd b <- lift (read_simple_dictionary e all (val e (sub r 12 4)) (val e (sub r 16 4))) ;;
    bnd c <- lift (read_annotation_objects e all (val e (sub r 20 4)) (val e (sub r 24 4))) ;;
    ret (a + b + c)
  else lift (Err EStreamReadFailure).
Definition link_entry (e : endian) (all data : bytes) (off : Z) : M Z :=
  if can_read data off FSZ_LINK then read_module_crashpad e all (val e (sub data (off + 8) 4))
  else lift (Err EStreamReadFailure).
Definition read_crashpad_module_links (e : endian) (all : bytes) (size rva : Z) : M (Z * Z) :=
  bnd data <- lift (of_opt EStreamReadFailure (location_slice all size rva)) ;;
  if blen data =? 0 then ret (0, 0) else
  bnd count <- lift (of_opt EStreamReadFailure (get_u 4 e data 0)) ;;
  bnp (n, _) <- lift (ensure_count_in_bound (blen all) count FSZ_LINK 0) ;;
  bnd _ <- alloc (n * MSZ_MODULE_CRASHPAD) ;;
  bnd l <- for_entries (fuel_of all) (link_entry e all data) 4 FSZ_LINK n ;;
  ret (blen l, fold_right Z.add 0 l).
(* returns (simple annotations, modules, annotations of all modules) *)
Definition read_crashpad_info (e : endian) (all b : bytes) : M (Z * (Z * Z)) :=
  if can_read b 0 FSZ_CRASHPAD then
    if val e (sub b 0 4) =? 0 then lift (Err EVersionMismatch)
    else
      bnd simple <- lift (read_simple_dictionary e all (val e (sub b 36 4)) (val e (sub b 40 4))) ;;
      bnd ml <- read_crashpad_module_links e all (val e (sub b 44 4)) (val e (sub b 48 4)) ;;
      ret (simple, ml)
  else lift (Err EStreamReadFailure).

(* ---- round 3: the remaining fixed-layout streams *)
Definition some01 {A} (o : option A) : Z := match o with Some _ => 1 | None => 0 end.
(* MinidumpSystemInfo::read beyond the fixed record: csd_version via read_string_utf16 at an RVA of
   the file (Option), cpu_info only for x86 / x86-64 / arm *)
Definition sysinfo_strings (p : profile) (e : endian) (all b : bytes) : res (Z * Z) :=
  if can_read b 0 FSZ_SYSINFO then
    rbind (read_string_utf16 p e all (val e (sub b 24 4))) (fun csd =>
    let arch := val e (sub b 0 2) in
    Ok (some01 csd, if (arch =? 0) || (arch =? 10) || (arch =? 9) || (arch =? 5) then 1 else 0))
  else Err EStreamReadFailure.
(* utf16_to_string over a fixed [u16; n] buffer: the units before the first NUL, strict UTF-16 *)
Fixpoint take_nonzero (l : list Z) : list Z :=
  match l with [] => [] | u :: t => if u =? 0 then [] else u :: take_nonzero t end.
Definition fixed_utf16 (e : endian) (buf : bytes) : Z := if utf16_ok (take_nonzero (units e buf)) then 1 else 0.
Definition FSZ_ASSERTION := 776.
Definition read_assertion (e : endian) (b : bytes) : res (Z * (Z * Z)) :=
  if can_read b 0 FSZ_ASSERTION then
    Ok (fixed_utf16 e (sub b 0 256), (fixed_utf16 e (sub b 256 256), fixed_utf16 e (sub b 512 256)))
  else Err EStreamReadFailure.
(* breakpad info: validity bits select the two thread ids *)
Definition read_breakpad_info (e : endian) (b : bytes) : res (Z * Z) :=
  if can_read b 0 12 then
    let v := val e (sub b 0 4) in Ok (if Z.testbit v 0 then 1 else 0, if Z.testbit v 1 then 1 else 0)
  else Err EStreamReadFailure.
(* mac bootargs: u32 stream type, RVA64 of a UTF-16 string of the file *)
Definition read_mac_bootargs (p : profile) (e : endian) (all b : bytes) : res Z :=
  if can_read b 0 12 then rbind (read_string_utf16 p e all (val e (sub b 4 8))) (fun s => Ok (some01 s))
  else Err EStreamReadFailure.
(* MozSoftErrors: the stream must be UTF-8 *)
Definition read_soft_errors (b : bytes) : res Z := if utf8_ok b then Ok (blen b) else Err EDataError.

(* mac crash info: header (stream type, record_count, record_start_size, 20 locations); the first
   min(record_count, 20) records are read; all must carry one version; version >= 5 / >= 4 / >= 1
   selects a fixed part of 40 / 32 / 16 bytes and 5 / 5 / 0 C strings starting at record_start_size *)
Definition PANIC_MAC_SET_STRING : Z := 110.   (* set_string(idx) with idx >= num_strings *)
Definition mac_cstring (p : profile) (b : bytes) (off : Z) : res (option Z) :=
  rbind (read_cstring_utf8 p b off) (fun r =>
  match r with Some (s, o) => if utf8_ok s then Ok (Some o) else Ok None | None => Ok None end).
(* `for i in 0..num_strings { read_cstring_utf8; strings.set_string(i, ..) }` *)
Fixpoint mac_strings (p : profile) (n : nat) (i num : Z) (b : bytes) (off : Z) : res bool :=
  match n with
  | O => Ok true
  | S n' =>
      rbind (mac_cstring p b off) (fun r =>
      match r with
      | None => Ok false
      | Some o => if i <? num then mac_strings p n' (i + 1) num b o else Pan PANIC_MAC_SET_STRING
      end)
  end.
Definition mac_layout (version : Z) : option (Z * Z) :=
  if 5 <=? version then Some (40, 5) else if 4 <=? version then Some (32, 5) else if 1 <=? version then Some (16, 0) else None.
Fixpoint mac_records (p : profile) (e : endian) (all : bytes) (strings_off : Z) (locs : list (Z * Z))
                     (prev : option Z) (acc : Z) : res Z :=
  match locs with
  | [] => Ok acc
  | (size, rva) :: t =>
      match location_slice all size rva with
      | None => Err EStreamReadFailure
      | Some r =>
          if can_read r 0 16 then
            let version := val e (sub r 8 8) in
            if match prev with Some v => negb (v =? version) | None => false end then Err EVersionMismatch
            else match mac_layout version with
                 | None => mac_records p e all strings_off t (Some version) acc
                 | Some (fixed, num) =>
                     if can_read r 0 fixed then
                       if fixed >? strings_off then Err EStreamReadFailure
                       else rbind (mac_strings p (Z.to_nat num) 0 num r strings_off) (fun ok =>
                            if ok then mac_records p e all strings_off t (Some version) (acc + 1)
                            else Err EStreamReadFailure)
                     else Err EStreamReadFailure
                 end
          else Err EStreamReadFailure
      end
  end.
Definition FSZ_MAC_CRASH := 172.
Definition mac_locs (e : endian) (b : bytes) (n : Z) : list (Z * Z) :=
  map (fun i => (val e (sub b (12 + 8 * Z.of_nat i) 4), val e (sub b (16 + 8 * Z.of_nat i) 4))) (seq 0 (Z.to_nat (Z.min n 20))).
Definition read_mac_crash_info (p : profile) (e : endian) (all b : bytes) : res Z :=
  if can_read b 0 FSZ_MAC_CRASH then
    mac_records p e all (val e (sub b 8 4)) (mac_locs e b (val e (sub b 4 4))) None 0
  else Err EStreamReadFailure.

(* ---- print routines: the data-dependent sites (minidump.rs has no other unwrap / index / unchecked
   arithmetic on file data outside the sites modelled above; see design/C01.md for the audit) *)
(* MinidumpThread::print: `stack.bytes().chunks_exact(chunk_size)` then `chunk.try_into().unwrap()`
   into [u8; 4] (Bits32) or [u8; 8] (Bits64 | Unknown); chunk_size = pointer width or 8 *)
Inductive ptr_width := Bits32 | Bits64 | BitsUnknown.
Definition PANIC_CHUNK_UNWRAP : Z := 111.
Definition PANIC_PRINT_OFFSET : Z := 112.
Definition chunk_size (w : ptr_width) : Z := match w with Bits32 => 4 | Bits64 => 8 | BitsUnknown => 8 end.
Definition array_len (w : ptr_width) : Z := match w with Bits32 => 4 | _ => 8 end.
(* prints [len] stack bytes; `offset += chunk_size` is an unchecked usize addition *)
Fixpoint stack_print (p : profile) (fuel : nat) (w : ptr_width) (remaining offset : Z) : res unit :=
  if remaining <? chunk_size w then Ok tt
  else match fuel with
       | O => NoFuel
       | S fuel' =>
           if chunk_size w =? array_len w then
             rbind (of_chk (chk_add p 64 PANIC_PRINT_OFFSET offset (chunk_size w))) (fun o =>
             stack_print p fuel' w (remaining - chunk_size w) o)
           else Pan PANIC_CHUNK_UNWRAP
       end.
(* MinidumpMemory::print_contents: 16-byte paragraphs, `offset += 16` *)
Fixpoint hexdump_print (p : profile) (fuel : nat) (remaining offset : Z) : res unit :=
  if remaining <=? 0 then Ok tt
  else match fuel with
       | O => NoFuel
       | S fuel' =>
           rbind (of_chk (chk_add p 64 PANIC_PRINT_OFFSET offset 16)) (fun o =>
           hexdump_print p fuel' (remaining - 16) o)
       end.

(* ---- Minidump::read *)
Definition MD_SIGNATURE := 1347241037.  (* 'MDMP' 0x504d444d *)
Definition MD_VERSION := 42899.         (* 0xa793 *)
Record dirent := { d_type : Z; d_size : Z; d_rva : Z }.
Fixpoint dir_insert (d : dirent) (l : list dirent) : list dirent :=
  match l with
  | [] => [d]
  | x :: t => if d_type x =? d_type d then d :: t else x :: dir_insert d t
  end.
(* `for i in 0..stream_count { gread MINIDUMP_DIRECTORY }`: stream_count is NOT validated
   against the file, the read fails at the end of the data *)
Fixpoint dir_walk (fuel : nat) (e : endian) (b : bytes) (off count : Z) (acc : list dirent) : res (list dirent) :=
  if count <=? 0 then Ok acc
  else if can_read b off FSZ_DIRENT then
         match fuel with
         | O => NoFuel
         | S fuel' =>
             let d := {| d_type := val e (sub b off 4); d_size := val e (sub b (off + 4) 4);
                         d_rva := val e (sub b (off + 8) 4) |} in
             dir_walk fuel' e b (off + FSZ_DIRENT) (count - 1) (dir_insert d acc)
         end
       else Err EMissingDirectory.
Definition read_header (b : bytes) : res (endian * list dirent) :=
  if can_read b 0 FSZ_HEADER then
    rbind (if val LE (sub b 0 4) =? MD_SIGNATURE then Ok LE
           else if val BE (sub b 0 4) =? MD_SIGNATURE then Ok BE   (* swap_bytes, then re-read as BE *)
           else Err EHeaderMismatch) (fun e =>
    let version := val e (sub b 4 4) in
    if negb (version mod 65536 =? MD_VERSION) then Err EVersionMismatch
    else rbind (dir_walk (fuel_of b) e b (val e (sub b 12 4)) (val e (sub b 8 4)) []) (fun ds => Ok (e, ds)))
  else Err EMissingHeader.

Fixpoint dir_find (ty : Z) (l : list dirent) : option dirent :=
  match l with [] => None | x :: t => if d_type x =? ty then Some x else dir_find ty t end.
(* get_raw_stream *)
Definition raw_stream (all : bytes) (ds : list dirent) (ty : Z) : res bytes :=
  match dir_find ty ds with
  | None => Err EStreamNotFound
  | Some d => of_opt EStreamReadFailure (location_slice all (d_size d) (d_rva d))
  end.
Definition get_stream {A} (all : bytes) (ds : list dirent) (ty : Z) (rd : bytes -> M A) : M A :=
  bnd s <- lift (raw_stream all ds ty) ;; rd s.

Definition ST_THREAD_LIST := 3.   Definition ST_MODULE_LIST := 4.   Definition ST_MEMORY_LIST := 5.
Definition ST_EXCEPTION := 6.     Definition ST_SYSTEM_INFO := 7.   Definition ST_MEMORY64_LIST := 9.
Definition ST_HANDLE_DATA := 12.  Definition ST_UNLOADED := 14.     Definition ST_MEMORY_INFO := 16.
Definition ST_THREAD_INFO := 17.  Definition ST_THREAD_NAMES := 24.  Definition ST_MISC_INFO := 15.  Definition ST_BREAKPAD := 1197932545.  Definition ST_ASSERTION := 1197932546.
Definition ST_MAC_CRASH := 1299841025.  Definition ST_MAC_BOOT := 1299841026.  Definition ST_MOZ_SOFT := 1299841028.  Definition ST_CRASHPAD := 1129316353.  (* 0x43500001 *)
Definition ST_LINUX_CPU := 1197932547.    (* 0x47670003 *)
Definition ST_LINUX_STATUS := 1197932548. Definition ST_LINUX_LSB := 1197932549.  Definition ST_LINUX_ENVIRON := 1197932551.
Definition ST_MOZ_LIMITS := 1299841027.   (* 0x4d7a0003 *)
