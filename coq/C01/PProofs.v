(* C01/PProofs.v — round 5, second pass: the stack-word loop of MinidumpThread::print never traps, for the pointer width of
   every processor_architecture value; it writes exactly len / chunk words; the compared field TSW is total. *)
From Coq Require Import Lia.
From RM Require Import C01.Model C01.Proofs C01.Driver C01.Final C01.QModel C01.QProofs C01.LModel C01.LProofs C01.SModel C01.SProofs C01.PModel.
Open Scope Z_scope.

Lemma chunk_bounds : forall w, 4 <= chunk_size w <= 8.
Proof. destruct w; cbn; lia. Qed.

(* the counting loop is Model.stack_print with a counter *)
Lemma stack_words_print : forall p w fuel remaining offset acc,
  stack_print p fuel w remaining offset = rbind (stack_words p fuel w remaining offset acc) (fun _ => Ok tt).
Proof.
  intros p w. induction fuel as [|fuel IH]; intros remaining offset acc; cbn [stack_print stack_words].
  - destruct (remaining <? chunk_size w); reflexivity.
  - destruct (remaining <? chunk_size w); [reflexivity|].
    destruct (chunk_size w =? array_len w); [|reflexivity].
    destruct (of_chk (chk_add p 64 PANIC_PRINT_OFFSET offset (chunk_size w))) as [o| | |]; cbn [rbind]; try reflexivity.
    apply IH.
Qed.

(* no trap, no fuel exhaustion; nothing is assumed about the sign of [remaining] *)
Lemma stack_words_rsat : forall p w fuel remaining offset acc, 0 <= offset -> offset + Z.max 0 remaining < T62 ->
  remaining <= 4 * Z.of_nat fuel -> rsat (fun _ => True) (stack_words p fuel w remaining offset acc).
Proof.
  intros p w. pose proof (chunk_bounds w) as Hc.
  induction fuel as [|fuel IH]; intros remaining offset acc H0 Hs Hf; cbn [stack_words].
  - destruct (Z.ltb_spec remaining (chunk_size w)); [apply rsat_ok; exact I | lia].
  - destruct (Z.ltb_spec remaining (chunk_size w)); [apply rsat_ok; exact I|].
    rewrite chunk_array_agree, Z.eqb_refl. rewrite <- chunk_array_agree.
    unfold chk_add. rewrite chk_ok by (unfold T62, T64 in *; lia). cbn [of_chk rbind].
    apply IH; lia.
Qed.

(* ... and it counts exactly the whole chunks: chunks_exact drops the remainder *)
Lemma stack_words_count : forall p w fuel remaining offset acc n, 0 <= remaining ->
  stack_words p fuel w remaining offset acc = Ok n -> n = acc + remaining / chunk_size w.
Proof.
  intros p w. pose proof (chunk_bounds w) as Hc.
  induction fuel as [|fuel IH]; intros remaining offset acc n Hr E; cbn [stack_words] in E.
  - destruct (Z.ltb_spec remaining (chunk_size w)); [|discriminate].
    inversion E; subst. rewrite Z.div_small by lia. lia.
  - destruct (Z.ltb_spec remaining (chunk_size w)).
    + inversion E; subst. rewrite Z.div_small by lia. lia.
    + destruct (chunk_size w =? array_len w); [|discriminate].
      destruct (of_chk (chk_add p 64 PANIC_PRINT_OFFSET offset (chunk_size w))) as [o| | |]; cbn [rbind] in E; try discriminate.
      apply IH in E; [|lia]. subst n.
      replace remaining with ((remaining - chunk_size w) + 1 * chunk_size w) at 2 by lia.
      rewrite Z.div_add by lia. lia.
Qed.

Lemma stack_len_rsat : forall e descs d src, -2 <= src < blen descs ->
  rsat (fun _ => True) (stack_len e descs d src).
Proof.
  intros e descs d src H. unfold stack_len.
  destruct (src =? -2); [apply rsat_ok; exact I|].
  destruct (Z.ltb_spec src 0); [apply rsat_ok; exact I|].
  destruct (nth_error descs (Z.to_nat src)) as [x|] eqn:En; [apply rsat_ok; exact I|].
  exfalso. apply nth_error_None in En. unfold blen in H. lia.
Qed.

Lemma thread_words_rsat : forall p file w len, blen file < T62 -> rsat (fun _ => True) (thread_words p file w len).
Proof.
  intros p file w [n|] Hlen; cbn [thread_words]; [|apply rsat_ok; exact I].
  pose proof (blen_nonneg _ file) as Hnn.
  eapply rsat_bind with (Q1 := fun _ => True); [|intros; apply rsat_ok; exact I].
  apply stack_words_rsat; [lia|lia|]. unfold fuel_of, blen in *. lia.
Qed.

Lemma q_tsw_rsat : forall p e file si tl um, blen file < T62 ->
  rsat (fun _ => True) tl -> rsat (fun u => wf_descs (snd u) /\ 0 <= fst u <= 2) um ->
  rsat (fun _ => True) (q_tsw p e file si tl um).
Proof.
  intros p e file si tl um Hlen Htl Hum. unfold q_tsw.
  eapply rsat_bind; [exact Htl|]. intros raws _.
  eapply rsat_bind; [exact Hum|]. intros u (Hu & Hk).
  eapply rsat_bind; [apply lookups_at_rsat; exact Hu|]. intros found (_ & Hf).
  eapply rsat_weaken; [|apply seq_res_rsat_all with (Q := fun _ => True)]; [intros; exact I|].
  apply Forall_forall. intros x Hx. apply in_map_iff in Hx. destruct Hx as ((d & i) & <- & Hin).
  apply in_combine_r in Hin. rewrite Forall_forall in Hf. specialize (Hf _ Hin). cbn [fst snd].
  eapply rsat_bind with (Q1 := fun _ => True).
  - apply stack_len_rsat. unfold stack_source. destruct (thread_stack_ok e file d); pose proof (blen_nonneg _ (snd u)); lia.
  - intros len _. apply thread_words_rsat; exact Hlen.
Qed.

Lemma run_prints_total : forall p file, wf_bytes file -> blen file < T62 ->
  forall tag f, In (tag, f) (run_prints p file) -> (forall t, f <> FPan t) /\ f <> FNoFuel.
Proof.
  intros p file Hwf Hlen tag f Hin. unfold run_prints in Hin.
  destruct (read_header file) as [[e ds]| | |]; try contradiction.
  pose proof (blen_nonneg _ file) as Hnn.
  cbn [In] in Hin. destruct Hin as [H|[]]; inversion H; subst; clear H; eapply fld_rsat.
  apply q_tsw_rsat; [exact Hlen| |].
  - exact (proj2 (s_tl_sat p e file ds Hwf Hlen)).
  - apply unified_memory_rsat.
    + apply raw_stream_wf; exact Hwf.
    + exact (proj2 (s_m64_sat p e file ds Hwf Hlen)).
    + unfold s_mem.
      refine (proj2 (get_stream_sat _ file ds ST_MEMORY_LIST _ (ALLOC_FILE_C * blen file) (Forall wf_bytes) Hwf _)).
      intros s Hs Hl. pose proof (blen_nonneg _ s). apply read_memory_list_wf_sat; try assumption; unfold ALLOC_FILE_C, ALLOC_C, T62 in *; lia.
Qed.

(* the statement for MinidumpThread::print itself: whatever processor_architecture the system info names (or none), and whatever
   the length of the stack, the word loop neither traps nor runs out of fuel, it writes len / chunk words of 4 or 8 bytes,
   and the chunk it cuts has the length of the array it must fill *)
Lemma stack_words_ok : forall p w fuel remaining offset acc, 0 <= offset -> 0 <= remaining -> offset + remaining < T62 ->
  remaining <= 4 * Z.of_nat fuel -> stack_words p fuel w remaining offset acc = Ok (acc + remaining / chunk_size w).
Proof.
  intros p w. pose proof (chunk_bounds w) as Hc.
  induction fuel as [|fuel IH]; intros remaining offset acc H0 Hr Hs Hf; cbn [stack_words].
  - destruct (Z.ltb_spec remaining (chunk_size w)); [|lia]. rewrite Z.div_small by lia. f_equal; lia.
  - destruct (Z.ltb_spec remaining (chunk_size w)); [rewrite Z.div_small by lia; f_equal; lia|].
    rewrite chunk_array_agree, Z.eqb_refl. rewrite <- chunk_array_agree.
    unfold chk_add. rewrite chk_ok by (unfold T62, T64 in *; lia). cbn [of_chk rbind].
    rewrite IH by lia. f_equal.
    replace remaining with ((remaining - chunk_size w) + 1 * chunk_size w) at 2 by lia.
    rewrite Z.div_add by lia. lia.
Qed.

Lemma thread_print_words_total : forall p arch len, 0 <= len < T62 ->
  let w := print_width arch in
  (exists n, stack_words p (Z.to_nat len + 1) w len 0 0 = Ok n /\ n = len / chunk_size w /\ chunk_size w * n <= len) /\
  stack_print p (Z.to_nat len + 1) w len 0 = Ok tt /\
  chunk_size w = array_len w /\ (chunk_size w = 4 \/ chunk_size w = 8).
Proof.
  intros p arch len Hl w.
  pose proof (chunk_bounds w) as Hc.
  assert (E : stack_words p (Z.to_nat len + 1) w len 0 0 = Ok (0 + len / chunk_size w)) by (apply stack_words_ok; lia).
  cbn [Z.add] in E.
  split; [exists (len / chunk_size w); split; [exact E|]; split; [reflexivity|apply Z.mul_div_le; lia]|].
  split; [rewrite (stack_words_print p w _ len 0 0), E; reflexivity|].
  split; [apply chunk_array_agree|]. destruct w; cbn; lia.
Qed.

(* ---- the ledger of the lookup table: at most 24 bytes per 16-byte descriptor of the memory-list stream *)
Lemma filter_blen_le : forall A (f : A -> bool) l, blen (filter f l) <= blen l.
Proof.
  intros A f l. unfold blen. induction l as [|x t IH]; cbn [filter length]; [lia|].
  destruct (f x); cbn [length]; lia.
Qed.

Lemma read_memory_list_len_sat : forall p e all b K, wf_bytes b -> blen b < T62 -> ALLOC_C * blen b <= K ->
  sat K (fun regions => 0 <= blen regions /\ blen regions * FSZ_MEMDESC + 4 <= blen b) (read_memory_list p e all b).
Proof.
  intros p e all b K Hwf Hlen HK. unfold read_memory_list.
  eapply sat_bind; [apply read_stream_list_sat; try assumption; usz; lia|].
  intros raws (H0 & H1 & H2).
  eapply sat_bind; [apply sat_alloc; usz; lia|]. intros _ _. apply sat_ret.
  pose proof (filter_blen_le _ (memory_ok e all) raws). pose proof (blen_nonneg _ (filter (memory_ok e all) raws)).
  unfold FSZ_MEMDESC in *. lia.
Qed.

Lemma table_ledger_backed : forall p file, wf_bytes file -> blen file < T62 ->
  forall a, In a (table_ledger p file) -> 0 <= a /\ 2 * a <= 3 * blen file /\ a <= ALLOC_FILE_C * blen file.
Proof.
  intros p file Hwf Hlen a Hin. unfold table_ledger in Hin.
  destruct (read_header file) as [[e ds]| | |]; try contradiction.
  pose proof (blen_nonneg _ file) as Hnn.
  assert (S : sat (ALLOC_FILE_C * blen file) (fun regions => 0 <= blen regions /\ blen regions * FSZ_MEMDESC + 4 <= blen file) (s_mem p e file ds)).
  { unfold s_mem. eapply get_stream_sat; [exact Hwf|]. intros s Hs Hl. pose proof (blen_nonneg _ s).
    eapply sat_weaken; [apply Z.le_refl| |apply read_memory_list_len_sat; try assumption; unfold ALLOC_FILE_C, ALLOC_C, T62 in *; lia].
    intros regions (R0 & R1). split; [exact R0|lia]. }
  destruct S as (_ & _ & _ & S3).
  destruct (snd (s_mem p e file ds)) as [regions| | |]; try contradiction.
  destruct Hin as [<-|[]]. destruct (S3 regions eq_refl) as (R0 & R1).
  unfold MSZ_RANGE_ENTRY, FSZ_MEMDESC, ALLOC_FILE_C in *. lia.
Qed.
