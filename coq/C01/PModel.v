(* C01/PModel.v — round 5, second pass: the stack words MinidumpThread::print dumps (definitions only; extracted).
   Mirrors
     minidump/src/system_info.rs   Cpu::from_processor_architecture, Cpu::pointer_width, PointerWidth::size_in_bytes
     minidump/src/minidump.rs      MinidumpThread::print (non-brief):
         let pointer_width = system.map_or(PointerWidth::Unknown, |info| info.cpu.pointer_width());
         if let Some(ref stack) = self.stack_memory(memory) {
             let chunk_size: usize = pointer_width.size_in_bytes().unwrap_or(8).into();
             let mut offset = 0;
             for chunk in stack.bytes().chunks_exact(chunk_size) {
                 match pointer_width { Bits32 => u32::from_xx_bytes(chunk.try_into().unwrap()), Unknown | Bits64 => u64::from_xx_bytes(chunk.try_into().unwrap()) }
                 offset += chunk_size;
             }
         } else { "No stack" }
   The pointer width is a property of the CPU named by the system info, NOT of the thread's context record: CONTEXT_MIPS and
   CONTEXT_SPARC carry 64-bit registers on CPUs whose pointer width is 32 bits (seeded change C01-7 cut the chunks by the register
   size). The tables below are proved equal to Gen/C01Cpu.v (translate/c01_cpu.py, regenerated from the Rust source) in CpuPins.v.
   Where the stack comes from (read at parse time / found in the unified memory list) is SModel.v. *)
From RM Require Import C01.Model C01.Driver C01.QModel C01.LModel C01.SModel.
Open Scope Z_scope.

Inductive cpu := CpuX86 | CpuX86_64 | CpuPpc | CpuPpc64 | CpuSparc | CpuArm | CpuArm64 | CpuMips | CpuMips64 | CpuUnknown.

(* Cpu::from_processor_architecture (arch is the u16 processor_architecture of the system info) *)
Definition cpu_of_arch (arch : Z) : cpu :=
  if (arch =? 0) || (arch =? 10) then CpuX86
  else if arch =? 9 then CpuX86_64
  else if arch =? 3 then CpuPpc
  else if arch =? 32770 then CpuPpc64
  else if arch =? 32769 then CpuSparc
  else if arch =? 5 then CpuArm
  else if (arch =? 12) || (arch =? 32771) then CpuArm64
  else if arch =? 1 then CpuMips
  else if arch =? 32772 then CpuMips64
  else CpuUnknown.

(* Cpu::pointer_width *)
Definition pointer_width (c : cpu) : ptr_width :=
  match c with
  | CpuX86 | CpuPpc | CpuSparc | CpuArm | CpuMips => Bits32
  | CpuX86_64 | CpuPpc64 | CpuArm64 | CpuMips64 => Bits64
  | CpuUnknown => BitsUnknown
  end.

(* PointerWidth::size_in_bytes *)
Definition size_in_bytes (w : ptr_width) : option Z :=
  match w with Bits32 => Some 4 | Bits64 => Some 8 | BitsUnknown => None end.

(* `system.map_or(PointerWidth::Unknown, |info| info.cpu.pointer_width())` *)
Definition print_width (arch : option Z) : ptr_width :=
  match arch with None => BitsUnknown | Some a => pointer_width (cpu_of_arch a) end.

(* the stack-word loop of MinidumpThread::print, counting the words it writes; same sites as Model.stack_print:
   `chunk.try_into().unwrap()` (chunk length against the array length of the arm) and `offset += chunk_size` *)
Fixpoint stack_words (p : profile) (fuel : nat) (w : ptr_width) (remaining offset acc : Z) : res Z :=
  if remaining <? chunk_size w then Ok acc
  else match fuel with
       | O => NoFuel
       | S fuel' =>
           if chunk_size w =? array_len w then
             rbind (of_chk (chk_add p 64 PANIC_PRINT_OFFSET offset (chunk_size w))) (fun o =>
             stack_words p fuel' w (remaining - chunk_size w) o (acc + 1))
           else Pan PANIC_CHUNK_UNWRAP
       end.

(* the length of the stack a thread prints: -2 = its own stack (stack.memory.data_size, u32 @32 of MINIDUMP_THREAD),
   i >= 0 = region i of the unified list (`&self.regions[index]`), -1 = none *)
Definition stack_len (e : endian) (descs : list (Z * Z)) (d : bytes) (src : Z) : res (option Z) :=
  if src =? -2 then Ok (Some (val e (sub d 32 4)))
  else if src <? 0 then Ok None
  else match nth_error descs (Z.to_nat src) with
       | Some x => Ok (Some (snd x))
       | None => Pan PANIC_LOOKUP_INDEX
       end.

(* what is compared per thread: -1 = "No stack", 0 = a stack shorter than one word (nothing is written), else
   16 * (number of words written) + bytes per word.
   A region that parsed is a slice of the file, so its length is at most the file's. *)
Definition thread_words (p : profile) (file : bytes) (w : ptr_width) (len : option Z) : res Z :=
  match len with
  | None => Ok (-1)
  | Some n => rbind (stack_words p (fuel_of file) w (Z.min n (blen file)) 0 0) (fun k => Ok (if k =? 0 then 0 else 16 * k + chunk_size w))
  end.

Definition q_tsw (p : profile) (e : endian) (file : bytes) (si : res Z) (tl : res (list bytes)) (um : res (Z * list (Z * Z))) : res (list Z) :=
  rbind tl (fun raws =>
  rbind um (fun u =>
  let ths := firstn 8 raws in
  rbind (lookups_at p (snd u) (map (fun d => val e (sub d 24 8)) ths)) (fun found =>
  seq_res (map (fun x => rbind (stack_len e (snd u) (fst x) (stack_source (thread_stack_ok e file (fst x)) (snd x)))
                               (thread_words p file (print_width (arch_of si))))
               (combine ths found))))).

(* field tag 40 TSW *)
Definition run_prints (p : profile) (file : bytes) : list (Z * field) :=
  match read_header file with
  | Ok (e, ds) =>
      [(40, fld (fun l => l) (q_tsw p e file (snd (s_si e file ds)) (snd (s_tl p e file ds))
                                    (unified_memory e (s_raw file ds ST_MEMORY64_LIST) (snd (s_m64 p e file ds)) (snd (s_mem p e file ds)))))]
  | _ => []
  end.

(* ---- allocation ledger of the lookup table behind the stack fallback: MinidumpMemoryList::read ends in from_regions, whose
   into_rangemap_safe starts with `Vec::with_capacity(input.len())` over 24-byte `(Range<u64>, usize)` entries, one per region kept
   (with or without a range). The request is sized from the Vec of regions that already exists, never from a count field. *)
Definition MSZ_RANGE_ENTRY : Z := 24.
Definition table_ledger (p : profile) (file : bytes) : list Z :=
  match read_header file with
  | Ok (e, ds) => match snd (s_mem p e file ds) with Ok regions => [blen regions * MSZ_RANGE_ENTRY] | _ => [] end
  | _ => []
  end.
(* the SIZES line of the correspondence run, with the table entry added: compared with size_of in the harness *)
Definition sizes2 : list Z := sizes ++ [MSZ_RANGE_ENTRY].
