(* C01/ConstIndex.v — round 5: every index site of the reader whose index is an integer literal (Gen.C01Sites.const_index_sites,
   regenerated from the source by translate/c01_sites.py) against the length of the array it indexes.  The lengths are computed
   from Gen/Layouts.v (regenerated from the struct definitions of format.rs by translate/format_layouts.py); which array an
   indexed expression denotes is the reviewed table below (one row per group and expression; a new constant index on an
   expression without a row, a larger literal, or a shorter array breaks c01_const_indices_in_bounds). *)
From Coq Require Import ZArith List String Bool.
From RM Require C02.Layout.
From RM Require Import Gen.Layouts Gen.C01Sites C01.LayoutPins C01.Sites.
Import ListNotations.
Open Scope string_scope.
Open Scope Z_scope.

Definition EXC_INFO := arr_len L_MINIDUMP_EXCEPTION N_MINIDUMP_EXCEPTION "exception_information".
Definition omin (a b : option Z) : option Z := match a, b with Some x, Some y => Some (Z.min x y) | _, _ => None end.

(* (group, indexed expression, length of the array; why) *)
Definition const_index_table : list (string * string * option Z) :=
  [("common/format.rs|GUID::fmt|index", "self.data4", arr_len L_GUID N_GUID "data4");
   ("common/format.rs|GUID::from|index", "uuid", Some 16);                (* the parameter `uuid: [u8; 16]` *)
   ("context.rs|CONTEXT_ARM64::get_register_always|index", "self.iregs", arr_len L_CONTEXT_ARM64 N_CONTEXT_ARM64 "iregs");
   ("context.rs|CONTEXT_ARM64::set_register|index", "self.iregs", arr_len L_CONTEXT_ARM64 N_CONTEXT_ARM64 "iregs");
   ("context.rs|CONTEXT_ARM64_OLD::get_register_always|index", "self.iregs", arr_len L_CONTEXT_ARM64_OLD N_CONTEXT_ARM64_OLD "iregs");
   ("context.rs|CONTEXT_ARM64_OLD::set_register|index", "self.iregs", arr_len L_CONTEXT_ARM64_OLD N_CONTEXT_ARM64_OLD "iregs");
   ("context.rs|CONTEXT_ARM::get_register_always|index", "self.iregs", arr_len L_CONTEXT_ARM N_CONTEXT_ARM "iregs");
   ("context.rs|CONTEXT_ARM::set_register|index", "self.iregs", arr_len L_CONTEXT_ARM N_CONTEXT_ARM "iregs");
   ("context.rs|CONTEXT_PPC64::get_register_always|index", "self.gpr", arr_len L_CONTEXT_PPC64 N_CONTEXT_PPC64 "gpr");
   ("context.rs|CONTEXT_PPC64::set_register|index", "self.gpr", arr_len L_CONTEXT_PPC64 N_CONTEXT_PPC64 "gpr");
   ("context.rs|CONTEXT_PPC::get_register_always|index", "self.gpr", arr_len L_CONTEXT_PPC N_CONTEXT_PPC "gpr");
   ("context.rs|CONTEXT_PPC::set_register|index", "self.gpr", arr_len L_CONTEXT_PPC N_CONTEXT_PPC "gpr");
   ("context.rs|CONTEXT_SPARC::get_register_always|index", "self.g_r", arr_len L_CONTEXT_SPARC N_CONTEXT_SPARC "g_r");
   ("context.rs|CONTEXT_SPARC::set_register|index", "self.g_r", arr_len L_CONTEXT_SPARC N_CONTEXT_SPARC "g_r");
   (* round 5, second pass: indices that are discriminants of the fieldless *RegisterNumbers enums of format.rs (the scan resolves
      `md::XRegisterNumbers::V as usize` to the discriminant and records it under `<expression>@<enum>`): which CONTEXT_* array
      an enum indexes is this table's business *)
   ("context.rs|CONTEXT_ARM64::get_register_always|index", "self.iregs@Arm64RegisterNumbers", arr_len L_CONTEXT_ARM64 N_CONTEXT_ARM64 "iregs");
   ("context.rs|CONTEXT_ARM64::set_register|index", "self.iregs@Arm64RegisterNumbers", arr_len L_CONTEXT_ARM64 N_CONTEXT_ARM64 "iregs");
   ("context.rs|CONTEXT_ARM64_OLD::get_register_always|index", "self.iregs@Arm64RegisterNumbers", arr_len L_CONTEXT_ARM64_OLD N_CONTEXT_ARM64_OLD "iregs");
   ("context.rs|CONTEXT_ARM64_OLD::set_register|index", "self.iregs@Arm64RegisterNumbers", arr_len L_CONTEXT_ARM64_OLD N_CONTEXT_ARM64_OLD "iregs");
   ("context.rs|CONTEXT_ARM::get_register_always|index", "self.iregs@ArmRegisterNumbers", arr_len L_CONTEXT_ARM N_CONTEXT_ARM "iregs");
   ("context.rs|CONTEXT_ARM::set_register|index", "self.iregs@ArmRegisterNumbers", arr_len L_CONTEXT_ARM N_CONTEXT_ARM "iregs");
   ("context.rs|CONTEXT_MIPS::get_register_always|index", "self.iregs@MipsRegisterNumbers", arr_len L_CONTEXT_MIPS N_CONTEXT_MIPS "iregs");
   ("context.rs|CONTEXT_MIPS::set_register|index", "self.iregs@MipsRegisterNumbers", arr_len L_CONTEXT_MIPS N_CONTEXT_MIPS "iregs");
   ("context.rs|MinidumpContext::get_instruction_pointer|index", "ctx.iregs@ArmRegisterNumbers", arr_len L_CONTEXT_ARM N_CONTEXT_ARM "iregs");
   ("context.rs|MinidumpContext::get_stack_pointer|index", "ctx.iregs@ArmRegisterNumbers", arr_len L_CONTEXT_ARM N_CONTEXT_ARM "iregs");
   ("context.rs|MinidumpContext::get_stack_pointer|index", "ctx.gpr@PpcRegisterNumbers", arr_len L_CONTEXT_PPC N_CONTEXT_PPC "gpr");
   ("context.rs|MinidumpContext::get_stack_pointer|index", "ctx.gpr@Ppc64RegisterNumbers", arr_len L_CONTEXT_PPC64 N_CONTEXT_PPC64 "gpr");
   ("context.rs|MinidumpContext::get_stack_pointer|index", "ctx.g_r@SparcRegisterNumbers", arr_len L_CONTEXT_SPARC N_CONTEXT_SPARC "g_r");
   ("context.rs|MinidumpContext::get_stack_pointer|index", "ctx.iregs@MipsRegisterNumbers", arr_len L_CONTEXT_MIPS N_CONTEXT_MIPS "iregs");
   (* `for reg in MIPS_REGS { .. raw.iregs[*reg as usize] }` in the Mips arm of MinidumpContext::print: the largest discriminant of the enum *)
   ("context.rs|MinidumpContext::print|index", "raw.iregs@MipsRegisterNumbers", arr_len L_CONTEXT_MIPS N_CONTEXT_MIPS "iregs");
   (* the Arm64 and OldArm64 arms of MinidumpContext::print (`raw.iregs[29]`, `raw.iregs[30]`, `raw.iregs[..29]`): the shorter of the two arrays *)
   ("context.rs|MinidumpContext::print|index", "raw.iregs",
      omin (arr_len L_CONTEXT_ARM64 N_CONTEXT_ARM64 "iregs") (arr_len L_CONTEXT_ARM64_OLD N_CONTEXT_ARM64_OLD "iregs"));
   (* `let info = &record.exception_information;` *)
   ("minidump.rs|CrashReason::from_mac_exception|index", "info", EXC_INFO);
   ("minidump.rs|CrashReason::from_windows_exception|index", "info", EXC_INFO);
   ("minidump.rs|MinidumpException::get_crash_address|index", "self.raw.exception_record.exception_information", EXC_INFO);
   ("minidump.rs|MinidumpModule::print|index", "raw.signature.data4", arr_len L_GUID N_GUID "data4");
   (* `if !self.modules.is_empty() { Some(&self.modules[0]) }`: at least one element under the guard (pinned as an `eq` site) *)
   ("minidump.rs|MinidumpModuleList::main_module|index", "self.modules", Some 1)].

Fixpoint find_len (t : list (string * string * option Z)) (key base : string) : option Z :=
  match t with
  | [] => None
  | (k, b, l) :: r => if String.eqb k key && String.eqb b base then l else find_len r key base
  end.
Definition const_index_ok (s : string * string * (nat * nat)) : bool :=
  match find_len const_index_table (fst (fst s)) (snd (fst s)) with
  | Some len => Z.of_nat (snd (snd s)) <? len
  | None => false
  end.
Lemma const_indices_in_bounds : forallb const_index_ok const_index_sites = true.
Proof. vm_compute. reflexivity. Qed.
Definition const_index_site_count : nat := fold_right (fun s a => (fst (snd s) + a)%nat) O const_index_sites.
(* non-vacuity: an index of 15 into exception_information would be rejected *)
Definition bad_const_index_rejected : bool :=
  negb (const_index_ok ("minidump.rs|CrashReason::from_windows_exception|index", "info", (1%nat, 15%nat))).

(* round 5, second pass: a row of C01/Sites.v may be classified Covered "c01_const_indices_in_bounds" only if EVERY index site of its
   group has a constant index (Gen.C01Sites.index_group_counts: sites / sites with a constant index, regenerated by the scan) *)
Fixpoint find_counts (t : list (string * (nat * nat))) (key : string) : option (nat * nat) :=
  match t with [] => None | (k, c) :: r => if String.eqb k key then Some c else find_counts r key end.
Definition fully_constant (key : string) : bool :=
  match find_counts index_group_counts key with Some (a, c) => Nat.eqb a c && Nat.ltb 0 a | None => false end.
Definition const_index_row_ok (r : string * (nat * string) * cls) : bool :=
  match snd r with
  | Covered "c01_const_indices_in_bounds" => fully_constant (fst (fst r))
  | _ => true
  end.
Lemma covered_index_groups_constant : forallb const_index_row_ok site_table = true.
Proof. vm_compute. reflexivity. Qed.
Definition const_index_rows : nat :=
  List.length (filter (fun r => match snd r with Covered "c01_const_indices_in_bounds" => true | _ => false end) site_table).
(* non-vacuity: a group whose indices are all enum discriminants is fully constant, one with a variable index is not, and an
   index of 16 into CONTEXT_ARM.iregs would be rejected *)
Definition nv_mips_group_constant : bool := fully_constant "context.rs|CONTEXT_MIPS::get_register_always|index".
Definition nv_exc_print_group_constant : bool := fully_constant "minidump.rs|MinidumpException::print|index".
Definition nv_arm_index_16_rejected : bool :=
  negb (const_index_ok ("context.rs|CONTEXT_ARM::get_register_always|index", "self.iregs@ArmRegisterNumbers", (1%nat, 16%nat))).
