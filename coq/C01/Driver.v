(* C01/Driver.v — entry point of the correspondence run (extracted to OCaml).
   [run_case v p file] opens [file] like Minidump::read and requests every modelled stream;
   each field is (tag, outcome); the ledger is the concatenation of all requests. *)
From RM Require Import C01.Model.
Open Scope Z_scope.

Inductive field :=
| FOk (vals : list Z)
| FErr (e : err)
| FPan (t : Z)
| FNoFuel.

Definition fld {A} (enc : A -> list Z) (r : res A) : field :=
  match r with Ok a => FOk (enc a) | Err e => FErr e | Pan t => FPan t | NoFuel => FNoFuel end.

Definition err_code (e : err) : Z :=
  match e with
  | EMissingHeader => 0 | EHeaderMismatch => 1 | EVersionMismatch => 2 | EMissingDirectory => 3
  | EStreamReadFailure => 4 | EStreamSizeMismatch => 5 | EStreamNotFound => 6 | EModuleReadFailure => 7
  | EMemoryReadFailure => 8 | EDataError => 9 | ECodeViewReadFailure => 10
  end.

Record c01_out := { o_fields : list (Z * field); o_ledger : list Z }.

Definition one (x : Z) : list Z := [x].
Definition two (x : Z * Z) : list Z := [fst x; snd x].

Definition s_si (e : endian) (file : bytes) (ds : list dirent) := get_stream file ds ST_SYSTEM_INFO (fun s => lift (read_system_info e s)).
Definition s_tl (p : profile) (e : endian) (file : bytes) (ds : list dirent) := get_stream file ds ST_THREAD_LIST (read_thread_list p e).
Definition s_ml (p : profile) (e : endian) (file : bytes) (ds : list dirent) := get_stream file ds ST_MODULE_LIST (read_module_list p e file).
Definition s_um (p : profile) (e : endian) (file : bytes) (ds : list dirent) := get_stream file ds ST_UNLOADED (read_unloaded_module_list p e file).
Definition s_mem (p : profile) (e : endian) (file : bytes) (ds : list dirent) := get_stream file ds ST_MEMORY_LIST (read_memory_list p e file).
Definition s_m64 (p : profile) (e : endian) (file : bytes) (ds : list dirent) := get_stream file ds ST_MEMORY64_LIST (read_memory64_list p e file).
Definition s_mi (p : profile) (e : endian) (file : bytes) (ds : list dirent) := get_stream file ds ST_MEMORY_INFO (read_memory_info_list p e).
Definition s_ti (p : profile) (e : endian) (file : bytes) (ds : list dirent) := get_stream file ds ST_THREAD_INFO (read_thread_info_list p e).
Definition s_tn (p : profile) (e : endian) (file : bytes) (ds : list dirent) := get_stream file ds ST_THREAD_NAMES (read_thread_names p e file).
Definition s_hd (v : version) (p : profile) (e : endian) (file : bytes) (ds : list dirent) := get_stream file ds ST_HANDLE_DATA (read_handle_data v p e file).
Definition s_ms (e : endian) (file : bytes) (ds : list dirent) := get_stream file ds ST_MISC_INFO (fun s => lift (read_misc_info e s)).
Definition s_raw (file : bytes) (ds : list dirent) (ty : Z) : res bytes := raw_stream file ds ty.
Definition s_cp (e : endian) (file : bytes) (ds : list dirent) := get_stream file ds ST_CRASHPAD (read_crashpad_info e file).
Definition s_sis (p : profile) (e : endian) (file : bytes) (ds : list dirent) := get_stream file ds ST_SYSTEM_INFO (fun s => lift (sysinfo_strings p e file s)).
Definition s_as (e : endian) (file : bytes) (ds : list dirent) := get_stream file ds ST_ASSERTION (fun s => lift (read_assertion e s)).
Definition s_bp (e : endian) (file : bytes) (ds : list dirent) := get_stream file ds ST_BREAKPAD (fun s => lift (read_breakpad_info e s)).
Definition s_mb (p : profile) (e : endian) (file : bytes) (ds : list dirent) := get_stream file ds ST_MAC_BOOT (fun s => lift (read_mac_bootargs p e file s)).
Definition s_se (file : bytes) (ds : list dirent) := get_stream file ds ST_MOZ_SOFT (fun s => lift (read_soft_errors s)).
Definition s_mc (p : profile) (e : endian) (file : bytes) (ds : list dirent) := get_stream file ds ST_MAC_CRASH (fun s => lift (read_mac_crash_info p e file s)).
Definition s_ex (e : endian) (file : bytes) (ds : list dirent) := get_stream file ds ST_EXCEPTION (fun s => lift (read_exception e s)).
Definition f_exp (v : version) (ex : res (Z * (Z * Z))) : field :=
  match ex with Ok (n, _) => fld (fun _ => []) (exception_print v n) | _ => FOk [] end.
Definition kind_code (k : option ctxkind) : Z :=
  match k with
  | None => 0 | Some CX86 => 1 | Some CAmd64 => 2 | Some CPpc => 3 | Some CPpc64 => 4 | Some CSparc => 5
  | Some CArm => 6 | Some CArm64 => 7 | Some CArm64Old => 8 | Some CMips => 9
  end.
(* the context of the exception as MinidumpException::context sees it *)
Definition exc_kind (e : endian) (file : bytes) (si : res Z) (ex : res (Z * (Z * Z))) : option ctxkind :=
  match si, ex with
  | Ok arch, Ok (_, (csize, crva)) =>
      match location_slice file csize crva with Some c => context_read e arch c | None => None end
  | _, _ => None
  end.
Definition f_ex (e : endian) (file : bytes) (si : res Z) (ex : res (Z * (Z * Z))) : field :=
  fld (fun x => [fst x; kind_code (exc_kind e file si ex)]) ex.
Definition f_exc (v : version) (e : endian) (file : bytes) (si : res Z) (ex : res (Z * (Z * Z))) : field :=
  match ex with
  | Ok (n, _) => fld (fun _ => []) (exception_print_ctx v n (exc_kind e file si ex))
  | _ => FOk []
  end.

(* thread list: count, contexts that parse (needs the system info), stacks readable at parse time *)
Definition arch_of (si : res Z) : option Z := match si with Ok a => Some a | _ => None end.
Definition thread_kinds (e : endian) (file : bytes) (si : res Z) (raws : list bytes) : list (option ctxkind) :=
  map (thread_ctx_kind e file (arch_of si)) raws.
Definition count_some {A} (l : list (option A)) : Z := blen (filter (fun o => match o with Some _ => true | None => false end) l).
Definition f_tl (e : endian) (file : bytes) (si : res Z) (tl : res (list bytes)) : field :=
  fld (fun raws => [blen raws; count_some (thread_kinds e file si raws); blen (filter (thread_stack_ok e file) raws)]) tl.
Definition f_tlp (v : version) (e : endian) (file : bytes) (si : res Z) (tl : res (list bytes)) : field :=
  match tl with
  | Ok raws => fld (fun _ => []) (threads_print v (thread_kinds e file si raws))
  | _ => FOk []
  end.
(* misc info: version and the number of xstate features its iterator yields (-1: no xstate data) *)
Definition misc_result (p : profile) (ms : res (Z * Z)) : res (list Z) :=
  rbind ms (fun x => if fst x =? 5 then rbind (xstate_iter p (snd x)) (fun l => Ok [5; blen l]) else Ok [fst x; -1]).
Definition f_ms (p : profile) (ms : res (Z * Z)) : field := fld (fun l => l) (misc_result p ms).
(* linux text streams *)
Definition kv_len (kv : bytes * bytes) : Z := blen (fst kv) + blen (snd kv).
Definition f_kv (sep : Z) (s : res bytes) : field :=
  fld (fun b => let kvs := linux_kv sep b in [blen kvs; fold_right Z.add 0 (map kv_len kvs)]) s.
Definition f_lines (s : res bytes) : field := fld (fun b => [blen (linux_lines b)]) s.
(* memory reads at the edges of the first eight regions: u64 then u8 at each of six addresses *)
Definition probe_addrs (base size : Z) : list Z :=
  map wrap64 [base; base + size - 1; base + size; base - 1; base + size / 2; base + size - 8].
Definition bit (o : option Z) : Z := match o with Some _ => 1 | None => 0 end.
Definition region_probes (e : endian) (file : bytes) (d : bytes) : list Z :=
  let base := val e (sub d 0 8) in let size := val e (sub d 8 4) in let rva := val e (sub d 12 4) in
  let region := sub file rva size in
  flat_map (fun a => [bit (mem_read 8 e base region a); bit (mem_read 1 e base region a)]) (probe_addrs base size).
Definition f_ma (e : endian) (file : bytes) (mem : res (list bytes)) : field :=
  fld (fun regions => flat_map (region_probes e file) (firstn 8 regions)) mem.

(* field tags: 0 R  1 SI  2 TL  3 ML  4 UM  5 MEM  6 M64  7 MI  8 TI  9 TN  10 HD  11 EX  12 EXP  13 EXC
   14 TLP  15 MS  16 LC  17 LS  18 LR  19 LE  20 LL  21 MA  22 CP  23 SIS  24 AS  25 BP  26 MB  27 SE  28 MC *)
Definition run_case (v : version) (p : profile) (file : bytes) : c01_out :=
  match read_header file with
  | Ok (e, ds) =>
      {| o_fields := [(0, FOk [blen ds]); (1, fld one (snd (s_si e file ds))); (2, f_tl e file (snd (s_si e file ds)) (snd (s_tl p e file ds)));
                      (3, fld one (snd (s_ml p e file ds))); (4, fld one (snd (s_um p e file ds)));
                      (5, fld (fun l => [blen l]) (snd (s_mem p e file ds))); (6, fld one (snd (s_m64 p e file ds)));
                      (7, fld one (snd (s_mi p e file ds))); (8, fld one (snd (s_ti p e file ds)));
                      (9, fld one (snd (s_tn p e file ds))); (10, fld two (snd (s_hd v p e file ds)));
                      (11, f_ex e file (snd (s_si e file ds)) (snd (s_ex e file ds))); (12, f_exp v (snd (s_ex e file ds)));
                      (13, f_exc v e file (snd (s_si e file ds)) (snd (s_ex e file ds)));
                      (14, f_tlp v e file (snd (s_si e file ds)) (snd (s_tl p e file ds)));
                      (15, f_ms p (snd (s_ms e file ds)));
                      (16, f_kv 58 (s_raw file ds ST_LINUX_CPU)); (17, f_kv 58 (s_raw file ds ST_LINUX_STATUS));
                      (18, f_kv 61 (s_raw file ds ST_LINUX_LSB)); (19, f_kv 61 (s_raw file ds ST_LINUX_ENVIRON));
                      (20, f_lines (s_raw file ds ST_MOZ_LIMITS));
                      (21, f_ma e file (snd (s_mem p e file ds)));
                      (22, fld (fun x => [fst x; fst (snd x); snd (snd x)]) (snd (s_cp e file ds)));
                      (23, fld two (snd (s_sis p e file ds)));
                      (24, fld (fun x => [fst x; fst (snd x); snd (snd x)]) (snd (s_as e file ds)));
                      (25, fld two (snd (s_bp e file ds))); (26, fld one (snd (s_mb p e file ds)));
                      (27, fld one (snd (s_se file ds))); (28, fld one (snd (s_mc p e file ds)))];
         o_ledger := fst (s_tl p e file ds) ++ fst (s_ml p e file ds) ++ fst (s_um p e file ds) ++ fst (s_mem p e file ds)
                     ++ fst (s_m64 p e file ds) ++ fst (s_mi p e file ds) ++ fst (s_ti p e file ds) ++ fst (s_tn p e file ds)
                     ++ fst (s_hd v p e file ds) ++ fst (s_cp e file ds) |}
  | Err e => {| o_fields := [(0, FErr e)]; o_ledger := [] |}
  | Pan t => {| o_fields := [(0, FPan t)]; o_ledger := [] |}
  | NoFuel => {| o_fields := [(0, FNoFuel)]; o_ledger := [] |}
  end.

(* in-memory element sizes, compared with the harness's SIZES line *)
Definition sizes : list Z :=
  [MSZ_THREAD_RAW; MSZ_MODULE_RAW; MSZ_MEMDESC_RAW; MSZ_MEMDESC64_RAW; MSZ_MEMINFO_RAW; MSZ_THREADINFO_RAW;
   MSZ_UNLOADED_RAW; MSZ_THREADNAME_RAW; MSZ_THREAD; MSZ_MODULE; MSZ_MEMORY; MSZ_MEMORY64; MSZ_THREADINFO;
   MSZ_UNLOADED; MSZ_HANDLE; MSZ_STRING; MSZ_MODULE_CRASHPAD].
