(* C01/LModel.v — round 5: the address / id lookups on a parsed dump (definitions only; extracted).
   Mirrors minidump/src/minidump.rs:
     MinidumpModuleList::from_modules, MinidumpMemoryListBase::from_regions (memory list and Memory64 list),
     MinidumpMemoryInfoList::from_regions, MinidumpLinuxMaps::from_regions:
         `regions.iter().enumerate().map(|(i, r)| (r.memory_range(), i)).into_rangemap_safe()`
     module_at_address / memory_at_address / memory_info_at_address:
         `self.regions_by_addr.get(address).map(|&index| &self.regions[index])`        <- index site
     by_addr: `ranges_values().map(|&(_, index)| &self.regions[index])`                <- index site
     MinidumpThreadList::read / get_thread: `thread_ids.insert(raw.thread_id, threads.len())`, `&self.threads[index]`
   The table builder (sort, merge loop, RangeMap::try_from_iter(..).unwrap(), binary search) is C08's model
   (RM.C08.Model: build_indexed, rm_get), reused unchanged; `regions[index]` is a Panic site here. *)
From RM Require Import C01.Model C01.Driver C01.QModel.
From RM Require C08.Model.
Open Scope Z_scope.

Definition PANIC_LOOKUP_INDEX : Z := 130.   (* `&self.regions[index]` / `&self.modules[index]` / `&self.threads[index]` *)

Definition orange := option (Z * Z).

(* memory_range() of every element, in list order (the unchecked `- 1` of memory_range is a Panic site of QModel) *)
Definition ranges_of (p : profile) (descs : list (Z * Z)) : res (list orange) :=
  seq_res (map (fun d => memory_range p (fst d) (snd d)) descs).

(* into_rangemap_safe + RangeMap::try_from_iter(vec).unwrap() *)
Definition table_of (ranges : list orange) : res (list ((Z * Z) * Z)) :=
  match C08.Model.build_indexed ranges with
  | Ret t => Ok t
  | Panic t => Pan t
  | Fail => Err EStreamReadFailure
  | OutOfFuel => NoFuel
  end.

(* `.get(address).map(|&index| &self.regions[index])`: the index of the element returned, -1 for None *)
Definition index_at (tbl : list ((Z * Z) * Z)) (n : Z) (addr : Z) : res Z :=
  match C08.Model.rm_get tbl addr with
  | None => Ok (-1)
  | Some i => if (0 <=? i) && (i <? n) then Ok i else Pan PANIC_LOOKUP_INDEX
  end.
(* by_addr().count(): every stored index goes through `regions[index]` *)
Fixpoint by_addr_count (tbl : list ((Z * Z) * Z)) (n : Z) : res Z :=
  match tbl with
  | [] => Ok 0
  | (_, i) :: t => if (0 <=? i) && (i <? n) then rbind (by_addr_count t n) (fun c => Ok (c + 1)) else Pan PANIC_LOOKUP_INDEX
  end.

(* what the harness asks of one list: by_addr().count(), then the element found at each of the six probe
   addresses of the first eight elements *)
Definition lookups (p : profile) (descs : list (Z * Z)) : res (list Z) :=
  rbind (ranges_of p descs) (fun ranges =>
  rbind (table_of ranges) (fun tbl =>
  rbind (by_addr_count tbl (blen ranges)) (fun c =>
  rbind (seq_res (map (index_at tbl (blen ranges)) (flat_map (fun d => probe_addrs (fst d) (snd d)) (firstn 8 descs)))) (fun l =>
  Ok (c :: l))))).

(* ---- the (base, size) pairs of each list, from the bytes of its stream *)
Definition nat_range (n : Z) : list Z := map Z.of_nat (seq 0 (Z.to_nat n)).
(* memory list: the regions kept by read_memory_list; base u64 @0, data_size u32 @8 *)
Definition mem_descs (e : endian) (regions : list bytes) : list (Z * Z) :=
  map (fun d => (val e (sub d 0 8), val e (sub d 8 4))) regions.
(* module list (read_stream_list layout: u32 count, 0 or 4 bytes of padding, 108-byte entries): the modules kept are
   those whose image size is acceptable; base_of_image u64 @0, size_of_image u32 @8 *)
Definition list_entries (e : endian) (s : bytes) (fsz : Z) : list bytes :=
  let u := val e (sub s 0 4) in
  let off := blen s - u * fsz in
  map (fun i => sub s (off + fsz * i) fsz) (nat_range u).
Definition module_descs (e : endian) (s : bytes) : list (Z * Z) :=
  filter (fun d => negb (bad_image_size (fst d) (snd d)))
         (map (fun d => (val e (sub d 0 8), val e (sub d 8 4))) (list_entries e s FSZ_MODULE)).
(* memory info list: [n] entries of 48 bytes from size_of_header on; base u64 @0, region_size u64 @24 *)
Definition meminfo_descs (e : endian) (s : bytes) (n : Z) : list (Z * Z) :=
  let hdr := val e (sub s 0 4) in
  map (fun i => (val e (sub s (hdr + 48 * i) 8), val e (sub s (hdr + 48 * i + 24) 8))) (nat_range n).
(* Memory64 list: [n] descriptors of 16 bytes from offset 16; base u64 @0, size u64 @8 *)
Definition mem64_descs (e : endian) (s : bytes) (n : Z) : list (Z * Z) :=
  map (fun i => (val e (sub s (16 + 16 * i) 8), val e (sub s (16 + 16 * i + 8) 8))) (nat_range n).

Definition q_am (p : profile) (e : endian) (mem : res (list bytes)) : res (list Z) :=
  rbind mem (fun regions => lookups p (mem_descs e regions)).
Definition q_al (p : profile) (e : endian) (s : res bytes) (ml : res Z) : res (list Z) :=
  rbind ml (fun _ => rbind s (fun b => lookups p (module_descs e b))).
Definition q_ai (p : profile) (e : endian) (s : res bytes) (mi : res Z) : res (list Z) :=
  rbind mi (fun n => rbind s (fun b => lookups p (meminfo_descs e b n))).
Definition q_a6 (p : profile) (e : endian) (s : res bytes) (m64 : res Z) : res (list Z) :=
  rbind m64 (fun n => rbind s (fun b => lookups p (mem64_descs e b n))).

(* ---- get_thread: the HashMap keeps the LAST index inserted for an id *)
Fixpoint last_index (e : endian) (id : Z) (raws : list bytes) (i acc : Z) : Z :=
  match raws with
  | [] => acc
  | d :: t => last_index e id t (i + 1) (if val e (sub d 0 4) =? id then i else acc)
  end.
Definition get_thread_index (e : endian) (raws : list bytes) (id : Z) : res Z :=
  let i := last_index e id raws 0 (-1) in
  if i <? blen raws then Ok i else Pan PANIC_LOOKUP_INDEX.
Definition q_tg (e : endian) (tl : res (list bytes)) : res (list Z) :=
  rbind tl (fun raws => seq_res (map (fun d => get_thread_index e raws (val e (sub d 0 4))) (firstn 8 raws))).

(* field tags continue QModel.run_queries': 33 AM  34 AL  35 AI  36 A6  37 TG *)
Definition run_lookups (p : profile) (file : bytes) : list (Z * field) :=
  match read_header file with
  | Ok (e, ds) =>
      [(33, fld (fun l => l) (q_am p e (snd (s_mem p e file ds))));
       (34, fld (fun l => l) (q_al p e (s_raw file ds ST_MODULE_LIST) (snd (s_ml p e file ds))));
       (35, fld (fun l => l) (q_ai p e (s_raw file ds ST_MEMORY_INFO) (snd (s_mi p e file ds))));
       (36, fld (fun l => l) (q_a6 p e (s_raw file ds ST_MEMORY64_LIST) (snd (s_m64 p e file ds))));
       (37, fld (fun l => l) (q_tg e (snd (s_tl p e file ds))))]
  | _ => []
  end.
