(* C01/CpuPins.v — round 5, second pass: the CPU / pointer-width tables of PModel.v and the chunk / array lengths of
   Model.stack_print are what translate/c01_cpu.py reads from the Rust source (Gen/C01Cpu.v, regenerated on every run):
   Cpu::from_processor_architecture, Cpu::pointer_width, PointerWidth::size_in_bytes, and in MinidumpThread::print the
   `unwrap_or(N)`, the expression the chunks are cut by, and the integer type each arm of `match pointer_width` fills from a chunk.
   Consequence stated on the generated tables alone (gen_chunk_fills_array): for every u16 architecture value the chunk
   length equals the array length, i.e. `chunk.try_into().unwrap()` cannot fail. *)
From Coq Require Import String Lia.
From RM Require Import C01.Model C01.Proofs C01.PModel.
From RM Require Gen.C01Cpu.
Import Gen.C01Cpu.
Open Scope Z_scope.

Definition cpu_name (c : cpu) : string :=
  match c with
  | CpuX86 => "X86" | CpuX86_64 => "X86_64" | CpuPpc => "Ppc" | CpuPpc64 => "Ppc64" | CpuSparc => "Sparc" | CpuArm => "Arm"
  | CpuArm64 => "Arm64" | CpuMips => "Mips" | CpuMips64 => "Mips64" | CpuUnknown => "Unknown"
  end%string.
Definition gw (w : ptr_width) : gwidth := match w with Bits32 => GBits32 | Bits64 => GBits64 | BitsUnknown => GUnknown end.
Definition gwidth_eqb (a b : gwidth) : bool :=
  match a, b with GBits32, GBits32 | GBits64, GBits64 | GUnknown, GUnknown => true | _, _ => false end.

Fixpoint assoc_z {B} (k : Z) (l : list (Z * B)) : option B :=
  match l with [] => None | (k', v) :: t => if k =? k' then Some v else assoc_z k t end.
Fixpoint assoc_s {B} (k : string) (l : list (string * B)) : option B :=
  match l with [] => None | (k', v) :: t => if String.eqb k k' then Some v else assoc_s k t end.
Fixpoint assoc_w {B} (k : gwidth) (l : list (gwidth * B)) : option B :=
  match l with [] => None | (k', v) :: t => if gwidth_eqb k k' then Some v else assoc_w k t end.

(* the code's tables, composed: architecture value -> Cpu variant -> pointer width -> chunk length / array length *)
Definition gen_cpu (arch : Z) : string := match assoc_z arch cpu_of_arch_arms with Some c => c | None => cpu_default end.
Definition gen_width (arch : option Z) : option gwidth :=
  match arch with None => Some print_no_system_width | Some a => assoc_s (gen_cpu a) pointer_width_arms end.
Definition gen_chunk (w : gwidth) : option Z :=
  match assoc_w w size_in_bytes_arms with Some (Some n) => Some n | Some None => Some print_chunk_default | None => None end.
Definition gen_array (w : gwidth) : option Z := assoc_w w print_array_arms.

Definition all_cpus : list cpu := [CpuX86; CpuX86_64; CpuPpc; CpuPpc64; CpuSparc; CpuArm; CpuArm64; CpuMips; CpuMips64; CpuUnknown].
Definition all_widths : list ptr_width := [Bits32; Bits64; BitsUnknown].
Definition opt_z_eqb (a b : option Z) : bool := match a, b with Some x, Some y => x =? y | None, None => true | _, _ => false end.
Definition opt_w_eqb (a b : option gwidth) : bool := match a, b with Some x, Some y => gwidth_eqb x y | None, None => true | _, _ => false end.

Definition cpu_pins_ok : bool :=
  forallb (fun c => opt_w_eqb (assoc_s (cpu_name c) pointer_width_arms) (Some (gw (pointer_width c)))) all_cpus
  && forallb (fun w => opt_z_eqb (gen_chunk (gw w)) (Some (chunk_size w)) && opt_z_eqb (gen_array (gw w)) (Some (array_len w))
                       && match assoc_w (gw w) size_in_bytes_arms with Some o => opt_z_eqb o (size_in_bytes w) | None => false end) all_widths
  && gwidth_eqb print_no_system_width (gw (print_width None))
  && String.eqb print_chunk_source "pointer_width"
  (* every architecture the code names is a value of the enum, and a u16 *)
  && forallb (fun a => existsb (fun v => snd v =? fst a) arch_values && (0 <=? fst a) && (fst a <? 65536)) cpu_of_arch_arms.

Lemma cpu_pins : cpu_pins_ok = true.
Proof. vm_compute. reflexivity. Qed.

(* for EVERY architecture value (any integer), not only the listed ones *)
Lemma cpu_of_arch_pinned : forall arch, cpu_name (cpu_of_arch arch) = gen_cpu arch.
Proof.
  intros arch. unfold gen_cpu, cpu_of_arch, cpu_of_arch_arms, cpu_default. cbn [assoc_z].
  repeat match goal with
         | |- context [arch =? ?k] => destruct (Z.eqb_spec arch k); [subst; reflexivity|]
         end.
  reflexivity.
Qed.

Lemma width_pinned : forall arch, gen_width arch = Some (gw (print_width arch)).
Proof.
  intros [a|]; cbn [gen_width print_width]; [|reflexivity].
  rewrite <- cpu_of_arch_pinned. destruct (cpu_of_arch a); reflexivity.
Qed.

Lemma gen_chunk_fills_array : forall arch, exists w n,
  gen_width arch = Some w /\ gen_chunk w = Some n /\ gen_array w = Some n /\ (n = 4 \/ n = 8).
Proof.
  intros arch. exists (gw (print_width arch)). rewrite width_pinned.
  destruct (print_width arch); [exists 4|exists 8|exists 8]; repeat split; try reflexivity; lia.
Qed.
