(* C01/LayoutPins.v — round 5: the file-layout constants of C01/Model.v, QModel.v and LModel.v (record sizes, field offsets and
   widths, array lengths) against Gen/Layouts.v, which translate/format_layouts.py regenerates from the struct definitions of
   minidump-common/src/format.rs on every run.  An edit of a struct (a field added, removed, reordered or resized, an array
   length changed) changes a computed value below, and c01_layout_pinned no longer holds. *)
From Coq Require Import ZArith List String Bool.
From RM Require C02.Layout.
From RM Require Import Gen.Layouts.
From RM Require Import C01.Model C01.QModel.
Import ListNotations.
Open Scope string_scope.
Open Scope Z_scope.

Notation layout := C02.Layout.layout.
Notation lsize := C02.Layout.lsize.

(* offset, and layout, of the field called [name] of a struct layout whose field names are [names] *)
Fixpoint field_at (L : layout) (names : list string) (name : string) (off : Z) : option (Z * layout) :=
  match L, names with
  | C02.Layout.LSeq t r, n :: ns => if String.eqb n name then Some (off, t) else field_at r ns name (off + lsize t)
  | _, _ => None
  end.
(* a path through nested structs: (field names of the struct, field) at every level; yields (offset, size) *)
Fixpoint path_at (L : layout) (path : list (list string * string)) (off : Z) : option (Z * Z) :=
  match path with
  | [] => Some (off, lsize L)
  | (names, name) :: rest =>
      match field_at L names name off with
      | Some (o, t) => path_at t rest o
      | None => None
      end
  end.
Definition fld_at (L : layout) (names : list string) (name : string) : option (Z * Z) := path_at L [(names, name)] 0.
(* element count of an array field *)
Definition arr_len (L : layout) (names : list string) (name : string) : option Z :=
  match field_at L names name 0 with
  | Some (_, C02.Layout.LArr n _) => Some (Z.of_nat n)
  | _ => None
  end.

Definition LOC := (N_MINIDUMP_LOCATION_DESCRIPTOR, L_MINIDUMP_LOCATION_DESCRIPTOR).

(* ---- record sizes: the FSZ_* constants of Model.v and the literal sizes inside its definitions *)
Definition size_pins : list (string * Z * Z) :=
  [("FSZ_HEADER", FSZ_HEADER, lsize L_MINIDUMP_HEADER); ("FSZ_DIRENT", FSZ_DIRENT, lsize L_MINIDUMP_DIRECTORY);
   ("FSZ_THREAD", FSZ_THREAD, lsize L_MINIDUMP_THREAD); ("FSZ_MODULE", FSZ_MODULE, lsize L_MINIDUMP_MODULE);
   ("FSZ_MEMDESC", FSZ_MEMDESC, lsize L_MINIDUMP_MEMORY_DESCRIPTOR); ("FSZ_MEMDESC64", FSZ_MEMDESC64, lsize L_MINIDUMP_MEMORY_DESCRIPTOR64);
   ("FSZ_MEMINFO", FSZ_MEMINFO, lsize L_MINIDUMP_MEMORY_INFO); ("FSZ_THREADINFO", FSZ_THREADINFO, lsize L_MINIDUMP_THREAD_INFO);
   ("FSZ_UNLOADED", FSZ_UNLOADED, lsize L_MINIDUMP_UNLOADED_MODULE); ("FSZ_THREADNAME", FSZ_THREADNAME, lsize L_MINIDUMP_THREAD_NAME);
   ("FSZ_HANDLE1", FSZ_HANDLE1, lsize L_MINIDUMP_HANDLE_DESCRIPTOR); ("FSZ_HANDLE2", FSZ_HANDLE2, lsize L_MINIDUMP_HANDLE_DESCRIPTOR_2);
   ("FSZ_OBJINFO", FSZ_OBJINFO, lsize L_MINIDUMP_HANDLE_OBJECT_INFORMATION); ("FSZ_SYSINFO", FSZ_SYSINFO, lsize L_MINIDUMP_SYSTEM_INFO);
   ("FSZ_EXCEPTION", FSZ_EXCEPTION, lsize L_MINIDUMP_EXCEPTION_STREAM); ("FSZ_ASSERTION", FSZ_ASSERTION, lsize L_MINIDUMP_ASSERTION_INFO);
   ("FSZ_CRASHPAD", FSZ_CRASHPAD, lsize L_MINIDUMP_CRASHPAD_INFO); ("FSZ_MODULE_CRASHPAD", FSZ_MODULE_CRASHPAD, lsize L_MINIDUMP_MODULE_CRASHPAD_INFO);
   ("FSZ_LINK", FSZ_LINK, lsize L_MINIDUMP_MODULE_CRASHPAD_INFO_LINK); ("FSZ_MAC_CRASH", FSZ_MAC_CRASH, lsize L_MINIDUMP_MAC_CRASH_INFO);
   (* read_misc_info: the five sizes tried, largest first *)
   ("misc 5", 1364, lsize L_MINIDUMP_MISC_INFO_5); ("misc 4", 832, lsize L_MINIDUMP_MISC_INFO_4); ("misc 3", 232, lsize L_MINIDUMP_MISC_INFO_3);
   ("misc 2", 44, lsize L_MINIDUMP_MISC_INFO_2); ("misc 1", 24, lsize L_MINIDUMP_MISC_INFO);
   (* read_breakpad_info, read_mac_bootargs, dictionary / annotation entries, memory-info entry stride of QModel / LModel *)
   ("breakpad", 12, lsize L_MINIDUMP_BREAKPAD_INFO); ("bootargs", 12, lsize L_MINIDUMP_MAC_BOOTARGS);
   ("dict entry", 8, lsize L_MINIDUMP_SIMPLE_STRING_DICTIONARY_ENTRY); ("annotation", 12, lsize L_MINIDUMP_ANNOTATION);
   (* read_codeview: the fixed parts by signature *)
   ("pdb70 fixed", 24, lsize L_CV_INFO_PDB70); ("pdb20 fixed", 16, lsize L_CV_INFO_PDB20); ("elf fixed", 4, lsize L_CV_INFO_ELF);
   (* mac_layout: fixed part of a crash-info record by version *)
   ("mac record v1", 16, lsize L_MINIDUMP_MAC_CRASH_INFO_RECORD); ("mac record v4", 32, lsize L_MINIDUMP_MAC_CRASH_INFO_RECORD_4);
   ("mac record v5", 40, lsize L_MINIDUMP_MAC_CRASH_INFO_RECORD_5)].

(* ---- field offsets and widths used as literals in the models: (where, (offset, width), computed) *)
Definition P (L : layout) (path : list (list string * string)) := path_at L path 0.
Definition field_pins : list (string * (Z * Z) * option (Z * Z)) :=
  [ (* read_header / dir_walk *)
   ("header.signature", (0, 4), fld_at L_MINIDUMP_HEADER N_MINIDUMP_HEADER "signature");
   ("header.version", (4, 4), fld_at L_MINIDUMP_HEADER N_MINIDUMP_HEADER "version");
   ("header.stream_count", (8, 4), fld_at L_MINIDUMP_HEADER N_MINIDUMP_HEADER "stream_count");
   ("header.stream_directory_rva", (12, 4), fld_at L_MINIDUMP_HEADER N_MINIDUMP_HEADER "stream_directory_rva");
   ("dirent.stream_type", (0, 4), fld_at L_MINIDUMP_DIRECTORY N_MINIDUMP_DIRECTORY "stream_type");
   ("dirent.location.data_size", (4, 4), P L_MINIDUMP_DIRECTORY [(N_MINIDUMP_DIRECTORY, "location"); (fst LOC, "data_size")]);
   ("dirent.location.rva", (8, 4), P L_MINIDUMP_DIRECTORY [(N_MINIDUMP_DIRECTORY, "location"); (fst LOC, "rva")]);
   (* memory descriptors: memory_ok, mem_descs, region_probes *)
   ("memdesc.start_of_memory_range", (0, 8), fld_at L_MINIDUMP_MEMORY_DESCRIPTOR N_MINIDUMP_MEMORY_DESCRIPTOR "start_of_memory_range");
   ("memdesc.memory.data_size", (8, 4), P L_MINIDUMP_MEMORY_DESCRIPTOR [(N_MINIDUMP_MEMORY_DESCRIPTOR, "memory"); (fst LOC, "data_size")]);
   ("memdesc.memory.rva", (12, 4), P L_MINIDUMP_MEMORY_DESCRIPTOR [(N_MINIDUMP_MEMORY_DESCRIPTOR, "memory"); (fst LOC, "rva")]);
   ("memdesc64.start_of_memory_range", (0, 8), fld_at L_MINIDUMP_MEMORY_DESCRIPTOR64 N_MINIDUMP_MEMORY_DESCRIPTOR64 "start_of_memory_range");
   ("memdesc64.data_size", (8, 8), fld_at L_MINIDUMP_MEMORY_DESCRIPTOR64 N_MINIDUMP_MEMORY_DESCRIPTOR64 "data_size");
   (* threads: thread_ctx_kind, thread_stack_ok, q_te, get_thread_index *)
   ("thread.thread_id", (0, 4), fld_at L_MINIDUMP_THREAD N_MINIDUMP_THREAD "thread_id");
   ("thread.teb", (16, 8), fld_at L_MINIDUMP_THREAD N_MINIDUMP_THREAD "teb");
   ("thread.stack", (24, 16), fld_at L_MINIDUMP_THREAD N_MINIDUMP_THREAD "stack");
   ("thread.thread_context.data_size", (40, 4), P L_MINIDUMP_THREAD [(N_MINIDUMP_THREAD, "thread_context"); (fst LOC, "data_size")]);
   ("thread.thread_context.rva", (44, 4), P L_MINIDUMP_THREAD [(N_MINIDUMP_THREAD, "thread_context"); (fst LOC, "rva")]);
   ("thread_info.thread_id", (0, 4), fld_at L_MINIDUMP_THREAD_INFO N_MINIDUMP_THREAD_INFO "thread_id");
   ("thread_name.thread_id", (0, 4), fld_at L_MINIDUMP_THREAD_NAME N_MINIDUMP_THREAD_NAME "thread_id");
   ("thread_name.thread_name_rva", (4, 8), fld_at L_MINIDUMP_THREAD_NAME N_MINIDUMP_THREAD_NAME "thread_name_rva");
   (* modules: modules, unloaded_modules, module_descs *)
   ("module.base_of_image", (0, 8), fld_at L_MINIDUMP_MODULE N_MINIDUMP_MODULE "base_of_image");
   ("module.size_of_image", (8, 4), fld_at L_MINIDUMP_MODULE N_MINIDUMP_MODULE "size_of_image");
   ("module.module_name_rva", (20, 4), fld_at L_MINIDUMP_MODULE N_MINIDUMP_MODULE "module_name_rva");
   ("module.cv_record.data_size", (76, 4), P L_MINIDUMP_MODULE [(N_MINIDUMP_MODULE, "cv_record"); (fst LOC, "data_size")]);
   ("module.cv_record.rva", (80, 4), P L_MINIDUMP_MODULE [(N_MINIDUMP_MODULE, "cv_record"); (fst LOC, "rva")]);
   ("unloaded.base_of_image", (0, 8), fld_at L_MINIDUMP_UNLOADED_MODULE N_MINIDUMP_UNLOADED_MODULE "base_of_image");
   ("unloaded.size_of_image", (8, 4), fld_at L_MINIDUMP_UNLOADED_MODULE N_MINIDUMP_UNLOADED_MODULE "size_of_image");
   ("unloaded.module_name_rva", (20, 4), fld_at L_MINIDUMP_UNLOADED_MODULE N_MINIDUMP_UNLOADED_MODULE "module_name_rva");
   (* memory info: mi_entry_range, meminfo_descs; the list header of read_ex_stream_list *)
   ("meminfo.base_address", (0, 8), fld_at L_MINIDUMP_MEMORY_INFO N_MINIDUMP_MEMORY_INFO "base_address");
   ("meminfo.region_size", (24, 8), fld_at L_MINIDUMP_MEMORY_INFO N_MINIDUMP_MEMORY_INFO "region_size");
   ("meminfo_list.size_of_header", (0, 4), fld_at L_MINIDUMP_MEMORY_INFO_LIST N_MINIDUMP_MEMORY_INFO_LIST "size_of_header");
   ("meminfo_list.size_of_entry", (4, 4), fld_at L_MINIDUMP_MEMORY_INFO_LIST N_MINIDUMP_MEMORY_INFO_LIST "size_of_entry");
   ("meminfo_list.number_of_entries", (8, 8), fld_at L_MINIDUMP_MEMORY_INFO_LIST N_MINIDUMP_MEMORY_INFO_LIST "number_of_entries");
   (* handle data: read_handle_data, read_descriptor, info_chain *)
   ("handle_stream.size_of_header", (0, 4), fld_at L_MINIDUMP_HANDLE_DATA_STREAM N_MINIDUMP_HANDLE_DATA_STREAM "size_of_header");
   ("handle_stream.size_of_descriptor", (4, 4), fld_at L_MINIDUMP_HANDLE_DATA_STREAM N_MINIDUMP_HANDLE_DATA_STREAM "size_of_descriptor");
   ("handle_stream.number_of_descriptors", (8, 4), fld_at L_MINIDUMP_HANDLE_DATA_STREAM N_MINIDUMP_HANDLE_DATA_STREAM "number_of_descriptors");
   ("handle.type_name_rva", (8, 4), fld_at L_MINIDUMP_HANDLE_DESCRIPTOR N_MINIDUMP_HANDLE_DESCRIPTOR "type_name_rva");
   ("handle.object_name_rva", (12, 4), fld_at L_MINIDUMP_HANDLE_DESCRIPTOR N_MINIDUMP_HANDLE_DESCRIPTOR "object_name_rva");
   ("handle2.type_name_rva", (8, 4), fld_at L_MINIDUMP_HANDLE_DESCRIPTOR_2 N_MINIDUMP_HANDLE_DESCRIPTOR_2 "type_name_rva");
   ("handle2.object_name_rva", (12, 4), fld_at L_MINIDUMP_HANDLE_DESCRIPTOR_2 N_MINIDUMP_HANDLE_DESCRIPTOR_2 "object_name_rva");
   ("handle2.object_info_rva", (32, 4), fld_at L_MINIDUMP_HANDLE_DESCRIPTOR_2 N_MINIDUMP_HANDLE_DESCRIPTOR_2 "object_info_rva");
   ("objinfo.next_info_rva", (0, 4), fld_at L_MINIDUMP_HANDLE_OBJECT_INFORMATION N_MINIDUMP_HANDLE_OBJECT_INFORMATION "next_info_rva");
   ("objinfo.info_type", (4, 4), fld_at L_MINIDUMP_HANDLE_OBJECT_INFORMATION N_MINIDUMP_HANDLE_OBJECT_INFORMATION "info_type");
   (* system info: read_system_info, sysinfo_strings *)
   ("sysinfo.processor_architecture", (0, 2), fld_at L_MINIDUMP_SYSTEM_INFO N_MINIDUMP_SYSTEM_INFO "processor_architecture");
   ("sysinfo.csd_version_rva", (24, 4), fld_at L_MINIDUMP_SYSTEM_INFO N_MINIDUMP_SYSTEM_INFO "csd_version_rva");
   (* exception stream: read_exception, q_ca / exc_info *)
   ("exception.exception_code", (8, 4), P L_MINIDUMP_EXCEPTION_STREAM [(N_MINIDUMP_EXCEPTION_STREAM, "exception_record"); (N_MINIDUMP_EXCEPTION, "exception_code")]);
   ("exception.exception_address", (24, 8), P L_MINIDUMP_EXCEPTION_STREAM [(N_MINIDUMP_EXCEPTION_STREAM, "exception_record"); (N_MINIDUMP_EXCEPTION, "exception_address")]);
   ("exception.number_parameters", (32, 4), P L_MINIDUMP_EXCEPTION_STREAM [(N_MINIDUMP_EXCEPTION_STREAM, "exception_record"); (N_MINIDUMP_EXCEPTION, "number_parameters")]);
   ("exception.exception_information", (40, 120), P L_MINIDUMP_EXCEPTION_STREAM [(N_MINIDUMP_EXCEPTION_STREAM, "exception_record"); (N_MINIDUMP_EXCEPTION, "exception_information")]);
   ("exception.thread_context.data_size", (160, 4), P L_MINIDUMP_EXCEPTION_STREAM [(N_MINIDUMP_EXCEPTION_STREAM, "thread_context"); (fst LOC, "data_size")]);
   ("exception.thread_context.rva", (164, 4), P L_MINIDUMP_EXCEPTION_STREAM [(N_MINIDUMP_EXCEPTION_STREAM, "thread_context"); (fst LOC, "rva")]);
   (* misc info 5: xstate_data.enabled_features *)
   ("misc5.xstate_data.enabled_features", (840, 8), P L_MINIDUMP_MISC_INFO_5 [(N_MINIDUMP_MISC_INFO_5, "xstate_data"); (N_XSTATE_CONFIG_FEATURE_MSC_INFO, "enabled_features")]);
   (* assertion: three [u16; 128] buffers *)
   ("assertion.expression", (0, 256), fld_at L_MINIDUMP_ASSERTION_INFO N_MINIDUMP_ASSERTION_INFO "expression");
   ("assertion.function", (256, 256), fld_at L_MINIDUMP_ASSERTION_INFO N_MINIDUMP_ASSERTION_INFO "function");
   ("assertion.file", (512, 256), fld_at L_MINIDUMP_ASSERTION_INFO N_MINIDUMP_ASSERTION_INFO "file");
   ("breakpad.validity", (0, 4), fld_at L_MINIDUMP_BREAKPAD_INFO N_MINIDUMP_BREAKPAD_INFO "validity");
   ("bootargs.bootargs", (4, 8), fld_at L_MINIDUMP_MAC_BOOTARGS N_MINIDUMP_MAC_BOOTARGS "bootargs");
   (* crashpad *)
   ("crashpad.version", (0, 4), fld_at L_MINIDUMP_CRASHPAD_INFO N_MINIDUMP_CRASHPAD_INFO "version");
   ("crashpad.simple_annotations.data_size", (36, 4), P L_MINIDUMP_CRASHPAD_INFO [(N_MINIDUMP_CRASHPAD_INFO, "simple_annotations"); (fst LOC, "data_size")]);
   ("crashpad.simple_annotations.rva", (40, 4), P L_MINIDUMP_CRASHPAD_INFO [(N_MINIDUMP_CRASHPAD_INFO, "simple_annotations"); (fst LOC, "rva")]);
   ("crashpad.module_list.data_size", (44, 4), P L_MINIDUMP_CRASHPAD_INFO [(N_MINIDUMP_CRASHPAD_INFO, "module_list"); (fst LOC, "data_size")]);
   ("crashpad.module_list.rva", (48, 4), P L_MINIDUMP_CRASHPAD_INFO [(N_MINIDUMP_CRASHPAD_INFO, "module_list"); (fst LOC, "rva")]);
   ("module_crashpad.list_annotations.data_size", (4, 4), P L_MINIDUMP_MODULE_CRASHPAD_INFO [(N_MINIDUMP_MODULE_CRASHPAD_INFO, "list_annotations"); (fst LOC, "data_size")]);
   ("module_crashpad.list_annotations.rva", (8, 4), P L_MINIDUMP_MODULE_CRASHPAD_INFO [(N_MINIDUMP_MODULE_CRASHPAD_INFO, "list_annotations"); (fst LOC, "rva")]);
   ("module_crashpad.simple_annotations.data_size", (12, 4), P L_MINIDUMP_MODULE_CRASHPAD_INFO [(N_MINIDUMP_MODULE_CRASHPAD_INFO, "simple_annotations"); (fst LOC, "data_size")]);
   ("module_crashpad.simple_annotations.rva", (16, 4), P L_MINIDUMP_MODULE_CRASHPAD_INFO [(N_MINIDUMP_MODULE_CRASHPAD_INFO, "simple_annotations"); (fst LOC, "rva")]);
   ("module_crashpad.annotation_objects.data_size", (20, 4), P L_MINIDUMP_MODULE_CRASHPAD_INFO [(N_MINIDUMP_MODULE_CRASHPAD_INFO, "annotation_objects"); (fst LOC, "data_size")]);
   ("module_crashpad.annotation_objects.rva", (24, 4), P L_MINIDUMP_MODULE_CRASHPAD_INFO [(N_MINIDUMP_MODULE_CRASHPAD_INFO, "annotation_objects"); (fst LOC, "rva")]);
   ("link.location.rva", (8, 4), P L_MINIDUMP_MODULE_CRASHPAD_INFO_LINK [(N_MINIDUMP_MODULE_CRASHPAD_INFO_LINK, "location"); (fst LOC, "rva")]);
   ("annotation.name", (0, 4), fld_at L_MINIDUMP_ANNOTATION N_MINIDUMP_ANNOTATION "name");
   ("annotation.ty", (4, 2), fld_at L_MINIDUMP_ANNOTATION N_MINIDUMP_ANNOTATION "ty");
   ("annotation.value", (8, 4), fld_at L_MINIDUMP_ANNOTATION N_MINIDUMP_ANNOTATION "value");
   (* mac crash info *)
   ("mac.record_count", (4, 4), fld_at L_MINIDUMP_MAC_CRASH_INFO N_MINIDUMP_MAC_CRASH_INFO "record_count");
   ("mac.record_start_size", (8, 4), fld_at L_MINIDUMP_MAC_CRASH_INFO N_MINIDUMP_MAC_CRASH_INFO "record_start_size");
   ("mac.records", (12, 160), fld_at L_MINIDUMP_MAC_CRASH_INFO N_MINIDUMP_MAC_CRASH_INFO "records");
   ("mac_record.version", (8, 8), fld_at L_MINIDUMP_MAC_CRASH_INFO_RECORD N_MINIDUMP_MAC_CRASH_INFO_RECORD "version")].

(* ---- array lengths *)
Definition EXC_INFO_LEN : Z := 15.   (* exception_information: exc_print_loop's bound, exc_info's `seq 0 15`, crash_address's 15-entry hypothesis *)
Definition MAC_RECORDS_MAX : Z := 20. (* mac_locs: min(record_count, 20) *)
Definition length_pins : list (string * Z * option Z) :=
  [("exception_information", EXC_INFO_LEN, arr_len L_MINIDUMP_EXCEPTION N_MINIDUMP_EXCEPTION "exception_information");
   ("xstate features", XSTATE_FEATURES, arr_len L_XSTATE_CONFIG_FEATURE_MSC_INFO N_XSTATE_CONFIG_FEATURE_MSC_INFO "features");
   ("mac records", MAC_RECORDS_MAX, arr_len L_MINIDUMP_MAC_CRASH_INFO N_MINIDUMP_MAC_CRASH_INFO "records");
   ("assertion.expression", 128, arr_len L_MINIDUMP_ASSERTION_INFO N_MINIDUMP_ASSERTION_INFO "expression");
   ("guid.data4", 8, arr_len L_GUID N_GUID "data4")].

(* ---- the CONTEXT_* table of Model.ctx_table: size of the struct, offset and width of context_flags *)
Definition ctx_layout (k : ctxkind) : layout * list string :=
  match k with
  | CX86 => (L_CONTEXT_X86, N_CONTEXT_X86) | CAmd64 => (L_CONTEXT_AMD64, N_CONTEXT_AMD64) | CPpc => (L_CONTEXT_PPC, N_CONTEXT_PPC)
  | CPpc64 => (L_CONTEXT_PPC64, N_CONTEXT_PPC64) | CSparc => (L_CONTEXT_SPARC, N_CONTEXT_SPARC) | CArm => (L_CONTEXT_ARM, N_CONTEXT_ARM)
  | CArm64 => (L_CONTEXT_ARM64, N_CONTEXT_ARM64) | CArm64Old => (L_CONTEXT_ARM64_OLD, N_CONTEXT_ARM64_OLD) | CMips => (L_CONTEXT_MIPS, N_CONTEXT_MIPS)
  end.
Definition ctx_row_ok (arch : Z) : bool :=
  match ctx_table arch with
  | None => true
  | Some (k, size, off, w, _) =>
      let '(L, N) := ctx_layout k in
      (size =? lsize L) && match fld_at L N "context_flags" with Some (o, w') => (o =? off) && (w' =? w) | None => false end
  end.
(* every processor_architecture value ctx_table knows *)
Definition ctx_archs : list Z := [0; 10; 9; 3; 32770; 32769; 5; 12; 32771; 1].

Definition zpair_eqb (a b : Z * Z) : bool := (fst a =? fst b) && (snd a =? snd b).
Definition size_ok (r : string * Z * Z) : bool := snd (fst r) =? snd r.
Definition field_ok (r : string * (Z * Z) * option (Z * Z)) : bool :=
  match snd r with Some c => zpair_eqb (snd (fst r)) c | None => false end.
Definition length_ok (r : string * Z * option Z) : bool :=
  match snd r with Some c => snd (fst r) =? c | None => false end.

Definition layout_pins_ok : bool :=
  forallb size_ok size_pins && forallb field_ok field_pins && forallb length_ok length_pins && forallb ctx_row_ok ctx_archs.

Lemma layout_pinned : layout_pins_ok = true.
Proof. vm_compute. reflexivity. Qed.

(* the first failing row, for the error message of a broken run *)
Definition first_bad : list string :=
  map (fun r => fst (fst r)) (filter (fun r => negb (size_ok r)) size_pins) ++
  map (fun r => fst (fst r)) (filter (fun r => negb (field_ok r)) field_pins) ++
  map (fun r => fst (fst r)) (filter (fun r => negb (length_ok r)) length_pins).

(* ctx_table has no row outside ctx_archs (so ctx_row_ok covers the whole table) *)
Lemma ctx_table_domain : forall arch, ctx_table arch <> None -> In arch ctx_archs.
Proof.
  intros arch H. unfold ctx_table in H. unfold ctx_archs.
  repeat match type of H with
  | context [ (?a =? ?b) || (?c =? ?d) ] => destruct (Z.eqb_spec a b); [subst; cbn; tauto|]; destruct (Z.eqb_spec c d); [subst; cbn; tauto|]; cbn [orb] in H
  | context [ ?a =? ?b ] => destruct (Z.eqb_spec a b); [subst; cbn; tauto|]
  end.
  congruence.
Qed.

Lemma ctx_rows_ok : forall arch, ctx_row_ok arch = true.
Proof.
  intros arch. destruct (ctx_table arch) eqn:E.
  - assert (H : In arch ctx_archs) by (apply ctx_table_domain; congruence).
    pose proof layout_pinned as P0. unfold layout_pins_ok in P0. apply andb_prop in P0. destruct P0 as [_ P0].
    rewrite forallb_forall in P0. apply P0. exact H.
  - unfold ctx_row_ok. rewrite E. reflexivity.
Qed.

(* the literal 15 of the exception models IS the pinned array length: the print loop of the fixed code stops at
   min(number_parameters, EXC_INFO_LEN), an index below EXC_INFO_LEN never traps, and the query model reads EXC_INFO_LEN words *)
Lemma exception_models_use_pinned_length :
  (forall n, exception_print Fixed n = exc_print_loop 16 0 (Z.min n EXC_INFO_LEN)) /\
  (forall n i limit, 0 <= i -> limit <= EXC_INFO_LEN -> exc_print_loop n i limit <> Pan PANIC_EXC_INDEX) /\
  (forall e s, blen (exc_info e s) = EXC_INFO_LEN).
Proof.
  split; [reflexivity|]. split.
  - induction n as [|n IH]; intros i limit Hi Hl; cbn [exc_print_loop]; destruct (limit <=? i) eqn:E; try discriminate.
    apply Z.leb_gt in E. unfold EXC_INFO_LEN in Hl.
    destruct (Z.leb_spec 15 i); [exfalso; apply (Z.lt_irrefl i); apply Z.lt_le_trans with limit; [assumption|]; apply Z.le_trans with 15; assumption|].
    apply IH; [|assumption]. apply Z.le_trans with i; [assumption|]. apply Z.le_succ_diag_r.
  - intros e s. unfold exc_info, blen. rewrite map_length, seq_length. reflexivity.
Qed.
