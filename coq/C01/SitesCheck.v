(* C01/SitesCheck.v — the scanned trap/loop/allocation/guard sites of the reader (Gen/C01Sites.v, regenerated from the
   source on every run) against the maintained, reviewed table (C01/Sites.v). *)
Require Import String List Bool Arith. Import ListNotations.
From RM Require Import Gen.C01Sites C01.Sites.
Open Scope string_scope.

(* the theorems of Properties.v a row may name; Properties.v builds a tuple of exactly these proofs (c01_cover_index) *)
Definition theorem_names : list string :=
  ["c01_no_panic"; "c01_terminates"; "c01_alloc_backed"; "c01_stream_list_total"; "c01_ex_stream_list_total"; "c01_memory64_total";
   "c01_handle_data_total"; "c01_location_slice_sound"; "c01_ensure_count_in_bound_sound"; "c01_strings_total"; "c01_utf16_in_bounds";
   "c01_header_total"; "c01_exception_print_total"; "c01_xstate_iter_total"; "c01_misc_info_total"; "c01_thread_contexts_print_total";
   "c01_memory_read_in_bounds"; "c01_linux_kv_bounded"; "c01_crashpad_info_total"; "c01_mac_crash_info_total"; "c01_fixed_streams_total";
   "c01_print_sites_total"; "c01_crash_queries_total"; "c01_memory_range_sound"; "c01_last_error_in_bounds";
   "c01_crash_address_total"; "c01_elf_debug_id_reads"; "c01_address_lookup_total"; "c01_get_thread_index_total"; "c01_lookups_total"; "c01_layout_pinned"; "c01_unloaded_lookup_in_range"; "c01_const_indices_in_bounds"; "c01_stack_source_total"; "c01_stack_fallback_sound";
   "c01_thread_print_words_total"; "c01_thread_stack_words_total"; "c01_cpu_tables_pinned"; "c01_lookup_table_alloc_backed"].

Definition mem_str (s : string) (l : list string) : bool := existsb (String.eqb s) l.

Definition row_ok (r : string * (nat * string) * cls) : bool :=
  match snd r with
  | Covered thm => mem_str thm theorem_names
  | Safe reason => negb (String.eqb reason "")
  | Searched step => negb (String.eqb step "")
  | Unreviewed _ => false
  end.

Definition pins (t : list (string * (nat * string) * cls)) : list (string * (nat * string)) := map fst t.

Fixpoint pin_eqb (a b : list (string * (nat * string))) : bool :=
  match a, b with
  | [], [] => true
  | (k, (n, h)) :: a', (k', (n', h')) :: b' => String.eqb k k' && Nat.eqb n n' && String.eqb h h' && pin_eqb a' b'
  | _, _ => false
  end.

Lemma pin_eqb_sound : forall a b, pin_eqb a b = true -> a = b.
Proof.
  induction a as [|[k [n h]] a IH]; destruct b as [|[k' [n' h']] b]; simpl; try discriminate; auto.
  intro H. repeat (apply andb_prop in H; destruct H as [H ?]).
  apply String.eqb_eq in H. apply Nat.eqb_eq in H2. apply String.eqb_eq in H1. subst. f_equal. auto.
Qed.

Lemma sites_pinned : scanned_groups = pins site_table.
Proof. apply pin_eqb_sound. vm_compute. reflexivity. Qed.

Lemma sites_classified : forallb row_ok site_table = true.
Proof. vm_compute. reflexivity. Qed.

Definition count_cls (f : cls -> bool) : nat := length (filter (fun r => f (snd r)) site_table).
Definition is_covered c := match c with Covered _ => true | _ => false end.
Definition is_searched c := match c with Searched _ => true | _ => false end.
