(* C01/QProofs.v — round 4: the queries on a parsed dump never trap. *)
From Coq Require Import Lia.
From RM Require Import C01.Model C01.Proofs C01.Driver C01.Final C01.QModel.
Open Scope Z_scope.

Lemma pow64 : 2 ^ 64 = T64. Proof. reflexivity. Qed.

(* ---- memory_range *)
Lemma memory_range_rsat : forall p base size, 0 <= base -> 0 <= size ->
  rsat (fun o => match o with
                 | Some (lo, hi) => lo = base /\ hi = base + size - 1 /\ lo <= hi /\ hi < T64 /\ size <> 0
                 | None => size = 0 \/ T64 <= base + size
                 end) (memory_range p base size).
Proof.
  intros p base size Hb Hs. unfold memory_range.
  destruct (Z.eqb_spec size 0) as [->|Hne]; [apply rsat_ok; left; reflexivity|].
  unfold checked_add. rewrite pow64. destruct (Z.ltb_spec (base + size) T64) as [Hlt|Hge]; [|apply rsat_ok; right; exact Hge].
  unfold chk_sub. rewrite chk_ok by (unfold T64 in *; lia). cbn [of_chk rbind]. apply rsat_ok. unfold T64 in *. repeat split; lia.
Qed.

Lemma linux_map_range_sound : forall lo hi r, linux_map_range lo hi = Some r -> fst r <= snd r.
Proof. intros lo hi r H. unfold linux_map_range in H. destruct (Z.gtb_spec lo hi); inversion H; subst; cbn; lia. Qed.

(* ---- last_error *)
Lemma last_error_addr_sound : forall teb pw a, last_error_addr teb pw = Some a -> a = teb + 13 * pw /\ a < T64 /\ pw * 13 < T64.
Proof.
  intros teb pw a H. unfold last_error_addr, checked_mul, checked_add in H. rewrite pow64 in H.
  destruct (Z.ltb_spec (pw * 13) T64); [|discriminate].
  destruct (Z.ltb_spec (teb + pw * 13) T64); inversion H. lia.
Qed.
Lemma last_error_in_bounds : forall e teb pw base region v, last_error e teb pw base region = Some v ->
  teb + 13 * pw < T64 /\ base <= teb + 13 * pw /\ (teb + 13 * pw - base) + 4 <= blen region.
Proof.
  intros e teb pw base region v H. unfold last_error in H.
  destruct (last_error_addr teb pw) as [a|] eqn:Ha; [|discriminate].
  apply last_error_addr_sound in Ha. destruct Ha as (-> & Hlt & _).
  apply mem_read_in_bounds in H. lia.
Qed.

(* ---- get_crash_address *)
Lemma crash_address_rsat : forall windows ptr32 code nparams addr info, blen info = 15 ->
  0 <= addr < T64 -> Forall (fun x => 0 <= x < T64) info ->
  rsat (fun a => 0 <= a < T64 /\ (ptr32 = true -> a < T32)) (crash_address windows ptr32 code nparams addr info).
Proof.
  intros windows ptr32 code nparams addr info Hlen Haddr Hinfo. unfold crash_address.
  eapply rsat_bind with (Q1 := fun a => 0 <= a < T64).
  - destruct (windows && _ && _); [|apply rsat_ok; exact Haddr].
    unfold nth_info. change (Z.to_nat 1) with 1%nat.
    destruct info as [|x0 [|x1 t]]; unfold blen in Hlen; cbn in Hlen; try lia.
    cbn [nth_error]. apply rsat_ok. inversion Hinfo as [|? ? _ H2]; subst. inversion H2; subst. assumption.
  - intros a Ha. apply rsat_ok. destruct ptr32.
    + pose proof (Z.mod_pos_bound a two32 ltac:(reflexivity)). unfold two32, T64, T32 in *. split; [lia|intros _; lia].
    + split; [exact Ha|discriminate].
Qed.

(* ---- ELF build id -> GUID *)
Lemma pad_build_id_len : forall bid, 16 <= blen (pad_build_id bid).
Proof.
  intros bid. unfold pad_build_id. destruct (Z.ltb_spec (blen bid) 16); [|assumption].
  unfold blen in *. rewrite firstn_length, app_length, repeat_length. lia.
Qed.
Lemma elf_debug_id_reads : forall bid, elf_debug_id bid <> Some false.
Proof.
  intros bid. unfold elf_debug_id. destruct (forallb _ bid); [discriminate|].
  unfold can_read. pose proof (pad_build_id_len bid). destruct (Z.leb_spec (0 + 16) (blen (pad_build_id bid))); [discriminate|lia].
Qed.

(* ---- the driver fields *)
Lemma seq_res_rsat : forall A (l : list (res A)), Forall (rsat (fun _ => True)) l -> rsat (fun _ => True) (seq_res l).
Proof.
  induction l as [|x t IH]; intros H; cbn [seq_res]; [apply rsat_ok; exact I|].
  inversion H; subst. eapply rsat_bind; [eassumption|]. intros a _.
  eapply rsat_bind; [apply IH; assumption|]. intros r _. apply rsat_ok; exact I.
Qed.
Lemma bit_range_rsat : forall (Q : option (Z * Z) -> Prop) r, rsat Q r -> rsat (fun _ => True) (bit_range r).
Proof. intros Q r H. unfold bit_range. eapply rsat_bind; [exact H|]. intros o _. apply rsat_ok; exact I. Qed.

Lemma val_sub_nonneg : forall e (b : bytes) off n, wf_bytes b -> 0 <= val e (sub b off n).
Proof.
  intros e b off n H. destruct (Z.le_gt_cases 0 n) as [Hn|Hn].
  - apply (val_sub_bounds e b off n H Hn).
  - apply (val_bounds e (sub b off n) (wf_sub b off n H)).
Qed.
Lemma val_sub_lt64 : forall e (b : bytes) off, wf_bytes b -> 0 <= val e (sub b off 8) < T64.
Proof. intros e b off H. pose proof (val_sub_bounds e b off 8 H ltac:(lia)) as B. change (256 ^ 8) with T64 in B. exact B. Qed.

Lemma mem_region_range_rsat : forall p e d, wf_bytes d -> rsat (fun _ => True) (mem_region_range p e d).
Proof.
  intros p e d H. unfold mem_region_range. eapply bit_range_rsat.
  apply memory_range_rsat; apply val_sub_nonneg; assumption.
Qed.
Lemma mi_entry_range_rsat : forall p e s i, wf_bytes s -> rsat (fun _ => True) (mi_entry_range p e s i).
Proof.
  intros p e s i H. unfold mi_entry_range. eapply bit_range_rsat.
  apply memory_range_rsat; apply val_sub_nonneg; assumption.
Qed.

Lemma in_firstn : forall A n (l : list A) x, In x (firstn n l) -> In x l.
Proof. induction n; destruct l; cbn; intros x H; try contradiction. destruct H; [left; assumption | right; auto]. Qed.
Lemma q_rm_rsat : forall p e mem, rsat (Forall wf_bytes) mem -> rsat (fun _ => True) (q_rm p e mem).
Proof.
  intros p e mem H. unfold q_rm. eapply rsat_bind; [exact H|]. intros regions Hr. apply seq_res_rsat.
  apply Forall_forall. intros x Hx. apply in_map_iff in Hx. destruct Hx as (d & <- & Hd).
  apply mem_region_range_rsat. rewrite Forall_forall in Hr. apply Hr. eapply in_firstn; eassumption.
Qed.

Lemma q_ri_rsat : forall p e s mi, rsat (fun _ => True) mi -> rsat wf_bytes s -> rsat (fun _ => True) (q_ri p e s mi).
Proof.
  intros p e s mi Hmi Hs. unfold q_ri. eapply rsat_bind; [exact Hmi|]. intros n _.
  eapply rsat_bind; [exact Hs|]. intros b Hb. apply seq_res_rsat.
  apply Forall_forall. intros x Hx. apply in_map_iff in Hx. destruct Hx as (i & <- & _). apply mi_entry_range_rsat; assumption.
Qed.

Lemma exc_info_ok : forall e s, wf_bytes s -> blen (exc_info e s) = 15 /\ Forall (fun x => 0 <= x < T64) (exc_info e s).
Proof.
  intros e s H. unfold exc_info. split; [unfold blen; rewrite map_length, seq_length; reflexivity|].
  apply Forall_forall. intros x Hx. apply in_map_iff in Hx. destruct Hx as (i & <- & _). apply val_sub_lt64; assumption.
Qed.
Lemma q_ca_rsat : forall e s ex, rsat (fun _ => True) ex -> rsat wf_bytes s -> rsat (fun _ => True) (q_ca e s ex).
Proof.
  intros e s ex Hex Hs. unfold q_ca. eapply rsat_bind; [exact Hex|]. intros x _.
  eapply rsat_bind; [exact Hs|]. intros b Hb. destruct (exc_info_ok e b Hb) as (Hl & Hf).
  assert (HC : forall w p32, rsat (fun _ : Z => True) (crash_address w p32 (val e (sub b 8 4)) (val e (sub b 32 4)) (val e (sub b 24 8)) (exc_info e b))).
  { intros w p32. eapply rsat_weaken; [|apply crash_address_rsat; [exact Hl | apply val_sub_lt64; exact Hb | exact Hf]]. intros; exact I. }
  apply seq_res_rsat. repeat (constructor; [apply HC|]). constructor.
Qed.
Lemma q_te_rsat : forall p e tl, rsat (fun _ => True) tl -> rsat (fun _ => True) (q_te p e tl).
Proof. intros p e tl H. unfold q_te. eapply rsat_bind; [exact H|]. intros raws _. apply rsat_ok; exact I. Qed.

(* the regions the memory list keeps are pieces of the (well-formed) stream *)
Lemma read_memory_list_wf_sat : forall p e all b K, wf_bytes b -> blen b < T62 -> ALLOC_C * blen b <= K ->
  sat K (Forall wf_bytes) (read_memory_list p e all b).
Proof.
  intros p e all b K Hwf Hlen HK. unfold read_memory_list.
  eapply sat_bind; [apply read_stream_list_sat; try assumption; usz; lia|].
  intros raws (H0 & H1 & H2).
  eapply sat_bind; [apply sat_alloc; usz; lia|]. intros _ _. apply sat_ret.
  apply Forall_forall. intros x Hx. apply filter_In in Hx. rewrite Forall_forall in H2. apply H2, Hx.
Qed.

Lemma raw_stream_wf : forall file ds ty, wf_bytes file -> rsat wf_bytes (raw_stream file ds ty).
Proof. intros file ds ty H. eapply rsat_weaken; [|apply raw_stream_rsat; exact H]. intros a (Ha & _). exact Ha. Qed.

Lemma run_queries_total : forall p file, wf_bytes file -> blen file < T62 ->
  forall tag f, In (tag, f) (run_queries p file) -> (forall t, f <> FPan t) /\ f <> FNoFuel.
Proof.
  intros p file Hwf Hlen tag f Hin. unfold run_queries in Hin.
  destruct (read_header file) as [[e ds]| | |]; try contradiction.
  pose proof (blen_nonneg _ file) as Hnn.
  cbn [In] in Hin. destruct Hin as [H|[H|[H|[H|[]]]]]; inversion H; subst; clear H; eapply fld_rsat.
  - apply q_rm_rsat. unfold s_mem.
    refine (proj2 (get_stream_sat _ file ds ST_MEMORY_LIST _ (ALLOC_FILE_C * blen file) (Forall wf_bytes) Hwf _)).
    intros s Hs Hl. pose proof (blen_nonneg _ s). apply read_memory_list_wf_sat; try assumption; unfold ALLOC_FILE_C, ALLOC_C, T62 in *; lia.
  - apply q_ri_rsat; [|apply raw_stream_wf; exact Hwf].
    exact (proj2 (s_mi_sat p e file ds Hwf Hlen)).
  - apply q_ca_rsat; [|apply raw_stream_wf; exact Hwf].
    exact (proj2 (s_ex_sat e file ds Hwf)).
  - apply q_te_rsat. exact (proj2 (s_tl_sat p e file ds Hwf Hlen)).
Qed.
