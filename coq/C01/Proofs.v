(* C01/Proofs.v — lemmas about the reader model (C01/Model.v). *)
From Coq Require Import Lia.
From RM Require Import C01.Model.
Open Scope Z_scope.

Definition wf_bytes (b : bytes) : Prop := Forall (fun x => 0 <= x < 256) b.
Definition T62 : Z := 4611686018427387904.   (* 2^62 *)
Definition T64 : Z := 18446744073709551616.  (* 2^64 *)
Definition T32 : Z := 4294967296.

(* ------------------------------------------------------------------ bytes *)
Lemma blen_nonneg : forall A (l : list A), 0 <= blen l.
Proof. intros; unfold blen; lia. Qed.

Lemma blen_sub_le : forall (b : bytes) off n, blen (sub b off n) <= blen b.
Proof. intros; unfold sub, blen. rewrite firstn_length, skipn_length. lia. Qed.

Lemma blen_sub_le_n : forall (b : bytes) off n, 0 <= n -> blen (sub b off n) <= n.
Proof. intros b off n Hn; unfold sub, blen. rewrite firstn_length. lia. Qed.

Lemma wf_skipn : forall k (b : bytes), wf_bytes b -> wf_bytes (skipn k b).
Proof.
  intros k b H. unfold wf_bytes in *. rewrite <- (firstn_skipn k b) in H.
  apply Forall_app in H. tauto.
Qed.
Lemma wf_firstn : forall k (b : bytes), wf_bytes b -> wf_bytes (firstn k b).
Proof.
  intros k b H. unfold wf_bytes in *. rewrite <- (firstn_skipn k b) in H.
  apply Forall_app in H. tauto.
Qed.
Lemma wf_sub : forall (b : bytes) off n, wf_bytes b -> wf_bytes (sub b off n).
Proof. intros; unfold sub. apply wf_firstn, wf_skipn; assumption. Qed.

Lemma le_val_bounds : forall l, wf_bytes l -> 0 <= le_val l < 256 ^ blen l.
Proof.
  induction l as [|x t IH]; intros H.
  - cbn. lia.
  - inversion H as [|? ? Hx Ht]; subst. specialize (IH Ht).
    replace (blen (x :: t)) with (Z.succ (blen t)) by (unfold blen; cbn [length]; lia).
    rewrite Z.pow_succ_r by apply blen_nonneg.
    cbn [le_val]. nia.
Qed.
Lemma val_bounds : forall e l, wf_bytes l -> 0 <= val e l < 256 ^ blen l.
Proof.
  intros [] l H; cbn [val].
  - apply le_val_bounds; assumption.
  - replace (blen l) with (blen (rev l)) by (unfold blen; rewrite rev_length; reflexivity).
    apply le_val_bounds. apply Forall_rev. assumption.
Qed.
Lemma val_sub_bounds : forall e (b : bytes) off n, wf_bytes b -> 0 <= n ->
  0 <= val e (sub b off n) < 256 ^ n.
Proof.
  intros e b off n H Hn.
  pose proof (val_bounds e (sub b off n) (wf_sub b off n H)) as Hv.
  pose proof (blen_sub_le_n b off n Hn) as Hl.
  pose proof (blen_nonneg _ (sub b off n)) as H0.
  assert (256 ^ blen (sub b off n) <= 256 ^ n) by (apply Z.pow_le_mono_r; lia).
  lia.
Qed.
Lemma val4 : forall e b off, wf_bytes b -> 0 <= val e (sub b off 4) < T32.
Proof. intros. change T32 with (256 ^ 4). apply val_sub_bounds; [assumption|lia]. Qed.
Lemma val8 : forall e b off, wf_bytes b -> 0 <= val e (sub b off 8) < T64.
Proof. intros. change T64 with (256 ^ 8). apply val_sub_bounds; [assumption|lia]. Qed.
Lemma val2 : forall e b off, wf_bytes b -> 0 <= val e (sub b off 2) < 65536.
Proof. intros. change 65536 with (256 ^ 2). apply val_sub_bounds; [assumption|lia]. Qed.

Lemma can_read_iff : forall (b : bytes) off n, can_read b off n = true <-> off + n <= blen b.
Proof. intros; unfold can_read. apply Z.leb_le. Qed.

Lemma get_u_some : forall n e b off v, get_u n e b off = Some v ->
  off + n <= blen b /\ v = val e (sub b off n).
Proof.
  intros n e b off v H. unfold get_u in H. destruct (can_read b off n) eqn:E; [|discriminate].
  apply can_read_iff in E. inversion H. auto.
Qed.

(* ------------------------------------------------------------------ arithmetic sites *)
Lemma chk_ok : forall p tag x, 0 <= x < T64 -> chk p 64 tag x = Ret x.
Proof.
  intros p tag x H. unfold chk. change (2 ^ 64) with T64.
  destruct (Z.leb_spec 0 x); destruct (Z.ltb_spec x T64); cbn [andb]; try lia. reflexivity.
Qed.
Lemma checked_add_some : forall a b r, checked_add 64 a b = Some r -> r = a + b /\ a + b < T64.
Proof.
  intros a b r H. unfold checked_add in H. change (2 ^ 64) with T64 in H.
  destruct (Z.ltb_spec (a + b) T64); inversion H. auto.
Qed.
Lemma checked_mul_some : forall a b r, checked_mul 64 a b = Some r -> r = a * b /\ a * b < T64.
Proof.
  intros a b r H. unfold checked_mul in H. change (2 ^ 64) with T64 in H.
  destruct (Z.ltb_spec (a * b) T64); inversion H. auto.
Qed.
Lemma checked_sub_some : forall a b r, checked_sub a b = Some r -> r = a - b /\ 0 <= a - b.
Proof.
  intros a b r H. unfold checked_sub in H.
  destruct (Z.leb_spec 0 (a - b)); inversion H. auto.
Qed.

(* ------------------------------------------------------------------ the two predicates *)
(* result level: not a panic, not out of fuel, and Q on success *)
Definition rsat {A} (Q : A -> Prop) (r : res A) : Prop :=
  (forall t, r <> Pan t) /\ r <> NoFuel /\ (forall a, r = Ok a -> Q a).
(* ledger level: additionally every recorded request is within [0, K] *)
Definition sat {A} (K : Z) (Q : A -> Prop) (m : M A) : Prop :=
  Forall (fun x => 0 <= x <= K) (fst m) /\ rsat Q (snd m).

Lemma rsat_ok : forall A (Q : A -> Prop) a, Q a -> rsat Q (Ok a).
Proof. intros; repeat split; try discriminate. intros a' H'; inversion H'; subst; assumption. Qed.
Lemma rsat_err : forall A (Q : A -> Prop) e, rsat Q (Err e).
Proof. intros; repeat split; discriminate. Qed.
Lemma rsat_weaken : forall A (Q Q' : A -> Prop) r, (forall a, Q a -> Q' a) -> rsat Q r -> rsat Q' r.
Proof. intros A Q Q' r HQ (H1 & H2 & H3). repeat split; auto. Qed.
Lemma rsat_bind : forall A B (Q1 : A -> Prop) (Q2 : B -> Prop) r f,
  rsat Q1 r -> (forall a, Q1 a -> rsat Q2 (f a)) -> rsat Q2 (rbind r f).
Proof.
  intros A B Q1 Q2 r f (H1 & H2 & H3) Hf. destruct r as [a|e|t|]; cbn [rbind].
  - apply Hf, H3; reflexivity.
  - apply rsat_err.
  - exfalso; apply (H1 t); reflexivity.
  - exfalso; apply H2; reflexivity.
Qed.
Lemma rsat_of_opt : forall A (Q : A -> Prop) e o, (forall a, o = Some a -> Q a) -> rsat Q (of_opt e o).
Proof. intros A Q e [a|] H; cbn [of_opt]; [apply rsat_ok; auto | apply rsat_err]. Qed.

Lemma sat_lift : forall A K (Q : A -> Prop) r, rsat Q r -> sat K Q (lift r).
Proof. intros; split; [constructor | assumption]. Qed.
Lemma sat_ret : forall A K (Q : A -> Prop) a, Q a -> sat K Q (ret a).
Proof. intros; apply sat_lift, rsat_ok; assumption. Qed.
Lemma sat_alloc : forall K n, 0 <= n <= K -> sat K (fun _ => True) (alloc n).
Proof. intros; split; [repeat constructor; lia | apply rsat_ok; exact I]. Qed.
Lemma sat_weaken : forall A K K' (Q Q' : A -> Prop) m,
  K <= K' -> (forall a, Q a -> Q' a) -> sat K Q m -> sat K' Q' m.
Proof.
  intros A K K' Q Q' m HK HQ (H1 & H2). split.
  - eapply Forall_impl; [|exact H1]. cbn; intros; lia.
  - eapply rsat_weaken; eauto.
Qed.
Lemma sat_bind : forall A B K (Q1 : A -> Prop) (Q2 : B -> Prop) (m : M A) (f : A -> M B),
  sat K Q1 m -> (forall a, Q1 a -> sat K Q2 (f a)) -> sat K Q2 (bind m f).
Proof.
  intros A B K Q1 Q2 [l r] f (Hl & H1 & H2 & H3) Hf. cbn [fst snd] in *.
  destruct r as [a|e|t|]; cbn [bind].
  - specialize (Hf a (H3 a eq_refl)). destruct (f a) as [l2 r2]. destruct Hf as (Hl2 & Hr2).
    cbn [fst snd] in *. split; [apply Forall_app; split; assumption | assumption].
  - split; [assumption | apply rsat_err].
  - exfalso; apply (H1 t); reflexivity.
  - exfalso; apply H2; reflexivity.
Qed.

(* ------------------------------------------------------------------ location_slice *)
Lemma slice_some : forall (b : bytes) s e r, slice b s e = Some r ->
  s <= e /\ e <= blen b /\ r = sub b s (e - s).
Proof.
  intros b s e r H. unfold slice in H.
  destruct (Z.leb_spec s e); destruct (Z.leb_spec e (blen b)); cbn [andb] in H; inversion H. auto.
Qed.
Lemma location_slice_some : forall (b : bytes) size rva r, location_slice b size rva = Some r ->
  rva <= rva + size /\ rva + size <= blen b /\ r = sub b rva size.
Proof.
  intros b size rva r H. unfold location_slice in H.
  destruct (checked_add 64 rva size) as [e|] eqn:E; [|discriminate].
  apply checked_add_some in E. destruct E as [-> _].
  apply slice_some in H. destruct H as (H1 & H2 & ->).
  repeat split; try assumption. f_equal. lia.
Qed.
Lemma location_slice_wf : forall b size rva r, wf_bytes b -> location_slice b size rva = Some r ->
  wf_bytes r /\ blen r <= blen b.
Proof.
  intros b size rva r Hwf H. apply location_slice_some in H. destruct H as (_ & _ & ->).
  split; [apply wf_sub; assumption | apply blen_sub_le].
Qed.

(* ------------------------------------------------------------------ ensure_count_in_bound *)
Lemma ensure_rsat : forall buflen n sz off,
  rsat (fun cx => fst cx = n /\ snd cx = n * sz + off /\ n * sz + off <= buflen)
       (ensure_count_in_bound buflen n sz off).
Proof.
  intros. unfold ensure_count_in_bound.
  destruct (checked_mul 64 n sz) as [m|] eqn:Em; [|apply rsat_err].
  apply checked_mul_some in Em. destruct Em as [-> _].
  destruct (checked_add 64 (n * sz) off) as [x|] eqn:Ea; [|apply rsat_err].
  apply checked_add_some in Ea. destruct Ea as [-> _].
  destruct (Z.ltb_spec buflen (n * sz + off)); [apply rsat_err|].
  apply rsat_ok. cbn [fst snd]. lia.
Qed.

(* ------------------------------------------------------------------ entry loops *)
Lemma for_entries_sat : forall A K (Q : A -> Prop) (f : Z -> M A) esz,
  (forall off, sat K Q (f off)) ->
  forall fuel off count, count <= Z.of_nat fuel ->
  sat K (fun l => blen l = Z.max 0 count /\ Forall Q l) (for_entries fuel f off esz count).
Proof.
  intros A K Q f esz Hf. induction fuel as [|fuel IH]; intros off count Hc; cbn [for_entries].
  - destruct (Z.leb_spec count 0); [|lia].
    apply sat_ret. split; [unfold blen; cbn; lia | constructor].
  - destruct (Z.leb_spec count 0).
    + apply sat_ret. split; [unfold blen; cbn; lia | constructor].
    + eapply sat_bind; [apply Hf|]. intros a Ha.
      eapply sat_bind; [apply IH; lia|]. intros l (Hl & HQ).
      apply sat_ret. split; [|constructor; assumption].
      unfold blen in *. cbn [length]. lia.
Qed.
Lemma raw_entry_sat : forall K b esz off, wf_bytes b -> sat K wf_bytes (raw_entry b esz off).
Proof.
  intros. unfold raw_entry. apply sat_lift. destruct (can_read b off esz); [apply rsat_ok; apply wf_sub; assumption | apply rsat_err].
Qed.

(* ------------------------------------------------------------------ read_stream_list *)
Lemma read_stream_list_sat : forall p e b fsz msz K,
  wf_bytes b -> blen b < T62 -> 0 < fsz -> 0 <= msz <= ALLOC_C * fsz -> ALLOC_C * blen b <= K ->
  sat K (fun raws => 0 <= blen raws /\ blen raws * fsz + 4 <= blen b /\ Forall wf_bytes raws) (read_stream_list p e b fsz msz).
Proof.
  intros p e b fsz msz K Hwf Hlen Hf Hm HK. unfold read_stream_list.
  apply sat_bind with (Q1 := fun u => 0 <= u).
  { apply sat_lift, rsat_of_opt. intros u Hu. apply get_u_some in Hu. destruct Hu as [_ ->]. apply val4; assumption. }
  intros u Hu.
  eapply sat_bind; [apply sat_lift, ensure_rsat|]. intros [count counted] (Hc1 & Hc2 & Hc3). cbn [fst snd] in *. subst count counted.
  assert (Hprod : 0 <= u * fsz) by nia.
  apply sat_bind with (Q1 := fun rest => True).
  { apply sat_lift. unfold chk_sub. rewrite chk_ok by (unfold T62, T64 in *; lia). apply rsat_ok; exact I. }
  intros rest _.
  apply sat_bind with (Q1 := fun _ => True).
  { apply sat_lift. destruct (rest =? 0); [apply rsat_ok; exact I|]. destruct (rest =? 4); [apply rsat_ok; exact I | apply rsat_err]. }
  intros off _.
  eapply sat_bind.
  { apply sat_alloc. unfold ALLOC_C in *. nia. }
  intros _ _.
  eapply sat_weaken; [apply Z.le_refl | | apply for_entries_sat with (Q := wf_bytes)].
  - cbn beta. intros l (Hl & Hq). rewrite Hl. rewrite Z.max_r by lia. repeat split; try lia; assumption.
  - intros; apply raw_entry_sat; assumption.
  - unfold fuel_of. unfold blen in *. nia.
Qed.

(* ------------------------------------------------------------------ read_ex_stream_list *)
Lemma read_ex_stream_list_sat : forall p e wide b fsz msz K,
  wf_bytes b -> blen b < T62 -> 0 < fsz -> 0 <= msz <= ALLOC_C * fsz -> ALLOC_C * blen b <= K ->
  sat K (fun raws => 0 <= blen raws /\ blen raws * fsz <= blen b /\ Forall wf_bytes raws) (read_ex_stream_list p e wide b fsz msz).
Proof.
  intros p e wide b fsz msz K Hwf Hlen Hf Hm HK. unfold read_ex_stream_list.
  apply sat_bind with (Q1 := fun u => 0 <= u < T32).
  { apply sat_lift, rsat_of_opt. intros u Hu. apply get_u_some in Hu. destruct Hu as [_ ->]. apply val4; assumption. }
  intros shdr Hshdr.
  apply sat_bind with (Q1 := fun u => True).
  { apply sat_lift, rsat_of_opt. intros; exact I. }
  intros sent _.
  apply sat_bind with (Q1 := fun u => 0 <= u).
  { apply sat_lift, rsat_of_opt. intros u Hu. apply get_u_some in Hu. destruct Hu as [_ ->].
    destruct (wide && (16 <=? shdr))%bool; [apply val8 | apply val4]; assumption. }
  intros n Hn.
  apply sat_bind with (Q1 := fun _ => sent = fsz).
  { apply sat_lift. destruct (Z.eqb_spec sent fsz); [apply rsat_ok; assumption | apply rsat_err]. }
  intros _ ->.
  eapply sat_bind; [apply sat_lift, ensure_rsat|]. intros [count counted] (Hc1 & Hc2 & Hc3). cbn [fst snd] in *. subst count counted.
  assert (Hprod : 0 <= n * fsz) by nia.
  set (cur := 8 + (if (wide && (16 <=? shdr))%bool then 8 else 4)) in *.
  assert (Hcur : 0 <= cur <= 16) by (unfold cur; destruct (wide && (16 <=? shdr))%bool; lia).
  apply sat_bind with (Q1 := fun pad => pad = shdr - cur /\ 0 <= pad).
  { apply sat_lift, rsat_of_opt. intros pad Hp. apply checked_sub_some in Hp. lia. }
  intros pad (-> & Hpad).
  apply sat_bind with (Q1 := fun _ => True).
  { apply sat_lift. unfold chk_add. rewrite chk_ok by (unfold T32, T64 in *; lia). apply rsat_ok; exact I. }
  intros off _.
  eapply sat_bind.
  { apply sat_alloc. unfold ALLOC_C in *. nia. }
  intros _ _.
  eapply sat_weaken; [apply Z.le_refl | | apply for_entries_sat with (Q := wf_bytes)].
  - cbn beta. intros l (Hl & Hq). rewrite Hl. rewrite Z.max_r by lia. repeat split; try lia; assumption.
  - intros; apply raw_entry_sat; assumption.
  - unfold fuel_of. unfold blen in *. nia.
Qed.

(* ------------------------------------------------------------------ strings *)
Lemma read_string_utf16_rsat : forall p e b off, wf_bytes b -> blen b < T62 -> 0 <= off ->
  rsat (fun _ => True) (read_string_utf16 p e b off).
Proof.
  intros p e b off Hwf Hlen Hoff. unfold read_string_utf16.
  destruct (get_u 4 e b off) as [size|] eqn:E; [|apply rsat_ok; exact I].
  apply get_u_some in E. destruct E as [Hb ->].
  pose proof (val4 e b off Hwf) as Hv.
  destruct (negb (val e (sub b off 4) mod 2 =? 0)); [apply rsat_ok; exact I|].
  unfold chk_add. rewrite chk_ok by (unfold T32, T62, T64 in *; lia). cbn [of_chk rbind].
  destruct (_ >? _); [apply rsat_ok; exact I|].
  destruct (utf16_ok _); apply rsat_ok; exact I.
Qed.

Lemma cstring_loop_rsat : forall b fuel off, 0 <= off -> blen b - off <= Z.of_nat fuel ->
  rsat (fun r => match r with Some o => 1 <= o <= blen b | None => True end) (cstring_loop fuel b off).
Proof.
  intros b. induction fuel as [|fuel IH]; intros off Hoff Hf; cbn [cstring_loop].
  - destruct (get_u 1 LE b off) as [c|] eqn:E; [|apply rsat_ok; exact I].
    apply get_u_some in E. destruct E as [Hb _].
    destruct (c =? 0); [apply rsat_ok; lia | lia].
  - destruct (get_u 1 LE b off) as [c|] eqn:E; [|apply rsat_ok; exact I].
    apply get_u_some in E. destruct E as [Hb _].
    destruct (c =? 0); [apply rsat_ok; lia | apply IH; lia].
Qed.
Lemma read_cstring_utf8_rsat : forall p b off, blen b < T62 -> 0 <= off ->
  rsat (fun _ => True) (read_cstring_utf8 p b off).
Proof.
  intros p b off Hlen Hoff. unfold read_cstring_utf8.
  eapply rsat_bind; [apply cstring_loop_rsat; [assumption | unfold fuel_of, blen; lia]|].
  intros [o|] Ho; [|apply rsat_ok; exact I].
  unfold chk_sub. rewrite chk_ok by (unfold T62, T64 in *; lia). cbn [of_chk rbind].
  destruct (slice b off (o - 1)); apply rsat_ok; exact I.
Qed.

(* ------------------------------------------------------------------ the list streams *)
Ltac usz := unfold ALLOC_C, FSZ_THREAD, MSZ_THREAD_RAW, MSZ_THREAD, FSZ_MODULE, MSZ_MODULE_RAW, MSZ_MODULE,
  FSZ_MEMDESC, MSZ_MEMDESC_RAW, MSZ_MEMORY, FSZ_MEMDESC64, MSZ_MEMDESC64_RAW, MSZ_MEMORY64, FSZ_MEMINFO,
  MSZ_MEMINFO_RAW, FSZ_THREADINFO, MSZ_THREADINFO_RAW, MSZ_THREADINFO, FSZ_UNLOADED, MSZ_UNLOADED_RAW,
  MSZ_UNLOADED, FSZ_THREADNAME, MSZ_THREADNAME_RAW, FSZ_HANDLE1, FSZ_HANDLE2, MSZ_HANDLE, FSZ_OBJINFO in *.

Lemma read_thread_list_sat : forall p e b K, wf_bytes b -> blen b < T62 -> ALLOC_C * blen b <= K ->
  sat K (fun _ => True) (read_thread_list p e b).
Proof.
  intros p e b K Hwf Hlen HK. unfold read_thread_list.
  eapply sat_bind; [apply read_stream_list_sat; try assumption; usz; lia|].
  intros raws (H0 & H1 & _).
  eapply sat_bind; [apply sat_alloc; usz; lia|]. intros _ _. apply sat_ret; exact I.
Qed.

Lemma read_memory_list_sat : forall p e all b K, wf_bytes b -> blen b < T62 -> ALLOC_C * blen b <= K ->
  sat K (fun _ => True) (read_memory_list p e all b).
Proof.
  intros p e all b K Hwf Hlen HK. unfold read_memory_list.
  eapply sat_bind; [apply read_stream_list_sat; try assumption; usz; lia|].
  intros raws (H0 & H1 & _).
  eapply sat_bind; [apply sat_alloc; usz; lia|]. intros _ _. apply sat_ret; exact I.
Qed.

Lemma mem64_regions_rsat : forall e all raws rva, rsat (fun _ => True) (mem64_regions e all rva raws).
Proof.
  intros e all. induction raws as [|d t IH]; intros rva; cbn [mem64_regions].
  - apply rsat_ok; exact I.
  - destruct (checked_add 64 rva _) as [endo|]; [|apply rsat_err].
    destruct (slice all rva endo); [|apply rsat_err].
    eapply rsat_bind; [apply IH|]. intros; apply rsat_ok; exact I.
Qed.
Lemma read_memory64_list_sat : forall p e all b K, wf_bytes b -> blen b < T62 -> ALLOC_C * blen b <= K ->
  sat K (fun _ => True) (read_memory64_list p e all b).
Proof.
  intros p e all b K Hwf Hlen HK. unfold read_memory64_list.
  apply sat_bind with (Q1 := fun u => 0 <= u).
  { apply sat_lift, rsat_of_opt. intros u Hu. apply get_u_some in Hu. destruct Hu as [_ ->]. apply val8; assumption. }
  intros u Hu.
  apply sat_bind with (Q1 := fun _ => True). { apply sat_lift, rsat_of_opt; intros; exact I. }
  intros rva _.
  eapply sat_bind; [apply sat_lift, ensure_rsat|]. intros [count counted] (Hc1 & Hc2 & Hc3). cbn [fst snd] in *. subst count counted.
  apply sat_bind with (Q1 := fun _ => True).
  { apply sat_lift. destruct (_ =? _); [apply rsat_ok; exact I | apply rsat_err]. }
  intros _ _.
  eapply sat_bind; [apply sat_alloc; usz; nia|]. intros _ _.
  eapply sat_bind.
  { apply for_entries_sat with (Q := wf_bytes); [intros; apply raw_entry_sat; assumption|].
    unfold fuel_of. usz. unfold blen in *. nia. }
  intros raws (Hl & _). rewrite Z.max_r in Hl by lia.
  eapply sat_bind; [apply sat_alloc; usz; nia|]. intros _ _.
  apply sat_lift, mem64_regions_rsat.
Qed.

Lemma read_memory_info_list_sat : forall p e b K, wf_bytes b -> blen b < T62 -> ALLOC_C * blen b <= K ->
  sat K (fun _ => True) (read_memory_info_list p e b).
Proof.
  intros p e b K Hwf Hlen HK. unfold read_memory_info_list.
  eapply sat_bind; [apply read_ex_stream_list_sat; try assumption; usz; lia|].
  intros; apply sat_ret; exact I.
Qed.
Lemma read_thread_info_list_sat : forall p e b K, wf_bytes b -> blen b < T62 -> ALLOC_C * blen b <= K ->
  sat K (fun _ => True) (read_thread_info_list p e b).
Proof.
  intros p e b K Hwf Hlen HK. unfold read_thread_info_list.
  eapply sat_bind; [apply read_ex_stream_list_sat; try assumption; usz; lia|].
  intros raws (H0 & H1 & _).
  eapply sat_bind; [apply sat_alloc; usz; lia|]. intros _ _. apply sat_ret; exact I.
Qed.

Lemma thread_names_rsat : forall p e all, wf_bytes all -> blen all < T62 ->
  forall raws ids, Forall wf_bytes raws -> rsat (fun _ => True) (thread_names p e all raws ids).
Proof.
  intros p e all Hwf Hlen. induction raws as [|d t IH]; intros ids Hr; cbn [thread_names].
  - apply rsat_ok; exact I.
  - inversion Hr as [|? ? Hd Ht]; subst.
    eapply rsat_bind; [apply read_string_utf16_rsat; try assumption; apply val8; assumption|].
    intros r _. apply IH; assumption.
Qed.
Lemma read_thread_names_sat : forall p e all b K, wf_bytes all -> blen all < T62 -> wf_bytes b -> blen b < T62 ->
  ALLOC_C * blen b <= K -> sat K (fun _ => True) (read_thread_names p e all b).
Proof.
  intros p e all b K Hwfa Hlena Hwf Hlen HK. unfold read_thread_names.
  eapply sat_bind; [apply read_stream_list_sat; try assumption; usz; lia|].
  intros raws (H0 & H1 & Hr). apply sat_lift, thread_names_rsat; assumption.
Qed.

Lemma modules_rsat : forall p e all, wf_bytes all -> blen all < T62 ->
  forall raws, Forall wf_bytes raws -> rsat (fun _ => True) (modules p e all raws).
Proof.
  intros p e all Hwf Hlen. induction raws as [|d t IH]; intros Hr; cbn [modules].
  - apply rsat_ok; exact I.
  - inversion Hr as [|? ? Hd Ht]; subst.
    destruct (bad_image_size _ _); [apply IH; assumption|].
    eapply rsat_bind; [apply read_string_utf16_rsat; try assumption; apply val4; assumption|].
    intros [nm|] _; [|apply rsat_err].
    destruct (_ || _)%bool; [|apply rsat_err].
    eapply rsat_bind; [apply IH; assumption|]. intros; apply rsat_ok; exact I.
Qed.
Lemma read_module_list_sat : forall p e all b K, wf_bytes all -> blen all < T62 -> wf_bytes b -> blen b < T62 ->
  ALLOC_C * blen b <= K -> sat K (fun _ => True) (read_module_list p e all b).
Proof.
  intros p e all b K Hwfa Hlena Hwf Hlen HK. unfold read_module_list.
  eapply sat_bind; [apply read_stream_list_sat; try assumption; usz; lia|].
  intros raws (H0 & H1 & Hr).
  eapply sat_bind; [apply sat_alloc; usz; lia|]. intros _ _.
  apply sat_lift, modules_rsat; assumption.
Qed.

Lemma unloaded_modules_rsat : forall p e all, wf_bytes all -> blen all < T62 ->
  forall raws, Forall wf_bytes raws -> rsat (fun _ => True) (unloaded_modules p e all raws).
Proof.
  intros p e all Hwf Hlen. induction raws as [|d t IH]; intros Hr; cbn [unloaded_modules].
  - apply rsat_ok; exact I.
  - inversion Hr as [|? ? Hd Ht]; subst.
    destruct (bad_image_size _ _); [apply rsat_err|].
    eapply rsat_bind; [apply read_string_utf16_rsat; try assumption; apply val4; assumption|].
    intros [nm|] _; [|apply rsat_err].
    eapply rsat_bind; [apply IH; assumption|]. intros; apply rsat_ok; exact I.
Qed.
Lemma read_unloaded_module_list_sat : forall p e all b K, wf_bytes all -> blen all < T62 -> wf_bytes b -> blen b < T62 ->
  ALLOC_C * blen b <= K -> sat K (fun _ => True) (read_unloaded_module_list p e all b).
Proof.
  intros p e all b K Hwfa Hlena Hwf Hlen HK. unfold read_unloaded_module_list.
  eapply sat_bind; [apply read_ex_stream_list_sat; try assumption; usz; lia|].
  intros raws (H0 & H1 & Hr).
  eapply sat_bind; [apply sat_alloc; usz; lia|]. intros _ _.
  apply sat_lift, unloaded_modules_rsat; assumption.
Qed.

(* ------------------------------------------------------------------ handle data (fixed code) *)
Lemma info_chain_fixed_rsat : forall e all fuel rva visited,
  blen all / FSZ_OBJINFO - visited <= Z.of_nat fuel ->
  rsat (fun n => visited <= n <= Z.max visited (blen all / FSZ_OBJINFO)) (info_chain Fixed fuel e all rva visited).
Proof.
  intros e all. induction fuel as [|fuel IH]; intros rva visited Hf; cbn [info_chain].
  - destruct (rva =? 0); [apply rsat_ok; lia|].
    destruct (Z.leb_spec (blen all / FSZ_OBJINFO) visited); [apply rsat_ok; lia | lia].
  - destruct (rva =? 0); [apply rsat_ok; lia|].
    destruct (Z.leb_spec (blen all / FSZ_OBJINFO) visited); [apply rsat_ok; lia|].
    destruct (can_read all rva FSZ_OBJINFO); [|apply rsat_ok; lia].
    destruct (known_info_type _); [|apply rsat_ok; lia].
    eapply rsat_weaken; [|apply IH; lia]. cbn beta; intros; lia.
Qed.
Lemma handle_string_rsat : forall p e all rva, wf_bytes all -> blen all < T62 -> 0 <= rva ->
  rsat (fun _ => True) (handle_string p e all rva).
Proof.
  intros. unfold handle_string. destruct (rva =? 0); [apply rsat_ok; exact I|].
  eapply rsat_bind; [apply read_string_utf16_rsat; assumption|]. intros; apply rsat_ok; exact I.
Qed.
Lemma read_descriptor_fixed_sat : forall K p e all b fieldsize off, wf_bytes all -> blen all < T62 -> wf_bytes b ->
  sat K (fun n => 0 <= n <= blen all) (read_descriptor Fixed p e all b fieldsize off).
Proof.
  intros K p e all b fieldsize off Hwfa Hlena Hwf. unfold read_descriptor. apply sat_lift.
  destruct (_ || _)%bool; [|apply rsat_err].
  destruct (can_read b off fieldsize); [|apply rsat_err].
  set (d := sub b off fieldsize). assert (Hd : wf_bytes d) by (apply wf_sub; assumption).
  eapply rsat_bind; [apply handle_string_rsat; try assumption; apply val4; assumption|]. intros _ _.
  eapply rsat_bind; [apply handle_string_rsat; try assumption; apply val4; assumption|]. intros _ _.
  pose proof (blen_nonneg _ all) as Hn.
  destruct (fieldsize =? FSZ_HANDLE2); [|apply rsat_ok; lia].
  eapply rsat_weaken; [|apply info_chain_fixed_rsat].
  - cbn beta. intros n Hn'. usz.
    assert (blen all / 12 <= blen all) by (apply Z.div_le_upper_bound; lia). lia.
  - usz. unfold fuel_of.
    assert (blen all / 12 <= blen all) by (apply Z.div_le_upper_bound; lia). unfold blen in *. lia.
Qed.
Lemma read_handle_data_fixed_sat : forall p e all b K, wf_bytes all -> blen all < T62 -> wf_bytes b -> blen b < T62 ->
  ALLOC_C * blen b <= K -> sat K (fun _ => True) (read_handle_data Fixed p e all b).
Proof.
  intros p e all b K Hwfa Hlena Hwf Hlen HK. unfold read_handle_data.
  apply sat_bind with (Q1 := fun u => 0 <= u).
  { apply sat_lift, rsat_of_opt. intros u Hu. apply get_u_some in Hu. destruct Hu as [_ ->]. apply val4; assumption. }
  intros shdr Hshdr.
  apply sat_bind with (Q1 := fun u => True). { apply sat_lift, rsat_of_opt; intros; exact I. }
  intros sdesc _.
  apply sat_bind with (Q1 := fun u => 0 <= u).
  { apply sat_lift, rsat_of_opt. intros u Hu. apply get_u_some in Hu. destruct Hu as [_ ->]. apply val4; assumption. }
  intros n Hn.
  apply sat_bind with (Q1 := fun _ => sdesc = FSZ_HANDLE1 \/ sdesc = FSZ_HANDLE2).
  { apply sat_lift. destruct (Z.eqb_spec sdesc FSZ_HANDLE1); [apply rsat_ok; auto|].
    destruct (Z.eqb_spec sdesc FSZ_HANDLE2); cbn [orb]; [apply rsat_ok; auto | apply rsat_err]. }
  intros _ Hs.
  eapply sat_bind; [apply sat_lift, ensure_rsat|]. intros [count counted] (Hc1 & Hc2 & Hc3). cbn [fst snd] in *. subst count counted.
  eapply sat_bind; [apply sat_alloc; usz; destruct Hs; subst sdesc; nia|]. intros _ _.
  eapply sat_bind.
  { apply for_entries_sat with (Q := fun n => 0 <= n <= blen all).
    - intros; apply read_descriptor_fixed_sat; assumption.
    - unfold fuel_of. usz. unfold blen in *. destruct Hs; subst sdesc; nia. }
  intros infos _. apply sat_ret; exact I.
Qed.

(* ------------------------------------------------------------------ exception print (fixed code) *)
Lemma exc_print_loop_rsat : forall n i limit, limit <= 15 -> rsat (fun _ => True) (exc_print_loop n i limit).
Proof.
  induction n as [|n IH]; intros i limit Hl; cbn [exc_print_loop].
  - destruct (limit <=? i); apply rsat_ok; exact I.
  - destruct (Z.leb_spec limit i); [apply rsat_ok; exact I|].
    destruct (Z.leb_spec 15 i); [lia|]. apply IH; assumption.
Qed.
Lemma exception_print_fixed_rsat : forall n, rsat (fun _ => True) (exception_print Fixed n).
Proof. intros; unfold exception_print. apply exc_print_loop_rsat. lia. Qed.

(* ------------------------------------------------------------------ header and directory *)
Lemma dir_walk_rsat : forall e b fuel off count acc,
  blen b - off < FSZ_DIRENT * (Z.of_nat fuel + 1) -> rsat (fun _ => True) (dir_walk fuel e b off count acc).
Proof.
  intros e b. unfold FSZ_DIRENT. induction fuel as [|fuel IH]; intros off count acc Hf; cbn [dir_walk].
  - destruct (count <=? 0); [apply rsat_ok; exact I|].
    destruct (can_read b off FSZ_DIRENT) eqn:E; [|apply rsat_err].
    apply can_read_iff in E. unfold FSZ_DIRENT in E. lia.
  - destruct (count <=? 0); [apply rsat_ok; exact I|].
    destruct (can_read b off FSZ_DIRENT) eqn:E; [|apply rsat_err].
    apply IH. unfold FSZ_DIRENT. lia.
Qed.
Lemma read_header_rsat : forall b, wf_bytes b -> rsat (fun _ => True) (read_header b).
Proof.
  intros b Hwf. unfold read_header.
  destruct (can_read b 0 FSZ_HEADER); [|apply rsat_err].
  eapply rsat_bind with (Q1 := fun _ => True).
  { destruct (_ =? _); [apply rsat_ok; exact I|]. destruct (_ =? _); [apply rsat_ok; exact I | apply rsat_err]. }
  intros e _. destruct (negb _); [apply rsat_err|].
  eapply rsat_bind; [apply dir_walk_rsat|intros; apply rsat_ok; exact I].
  pose proof (val4 e b 12 Hwf). unfold fuel_of, FSZ_DIRENT, blen. lia.
Qed.

Lemma raw_stream_rsat : forall all ds ty, wf_bytes all ->
  rsat (fun s => wf_bytes s /\ blen s <= blen all) (raw_stream all ds ty).
Proof.
  intros all ds ty Hwf. unfold raw_stream. destruct (dir_find ty ds) as [d|]; [|apply rsat_err].
  apply rsat_of_opt. intros s Hs. eapply location_slice_wf; eassumption.
Qed.
Lemma get_stream_sat : forall A all ds ty (rd : bytes -> M A) K (Q : A -> Prop), wf_bytes all ->
  (forall s, wf_bytes s -> blen s <= blen all -> sat K Q (rd s)) -> sat K Q (get_stream all ds ty rd).
Proof.
  intros A all ds ty rd K Q Hwf Hrd. unfold get_stream.
  eapply sat_bind; [apply sat_lift, raw_stream_rsat; assumption|].
  intros s (Hs & Hl). apply Hrd; assumption.
Qed.

(* ------------------------------------------------------------------ round 2: contexts, misc info, text streams, memory reads *)
Lemma context_print_fixed_rsat : forall k, rsat (fun _ => True) (context_print Fixed k).
Proof. intros k; destruct k; cbn [context_print]; apply rsat_ok; exact I. Qed.
Lemma threads_print_fixed_rsat : forall ks, rsat (fun _ => True) (threads_print Fixed ks).
Proof.
  induction ks as [|[k|] t IH]; cbn [threads_print].
  - apply rsat_ok; exact I.
  - eapply rsat_bind; [apply context_print_fixed_rsat|]. intros; exact IH.
  - exact IH.
Qed.

(* the xstate feature iterator: never shifts by 64 or more, never indexes past the 64 entries,
   stops within 64 steps, yields increasing in-range indices *)
Lemma xstate_loop_rsat : forall p enabled fuel idx, 0 <= idx -> XSTATE_FEATURES - idx <= Z.of_nat fuel ->
  rsat (fun l => Forall (fun i => idx <= i < XSTATE_FEATURES) l /\ blen l <= Z.max 0 (XSTATE_FEATURES - idx))
       (xstate_loop p fuel idx enabled).
Proof.
  intros p enabled. unfold XSTATE_FEATURES. induction fuel as [|fuel IH]; intros idx H0 Hf; cbn [xstate_loop]; unfold XSTATE_FEATURES.
  - destruct (Z.leb_spec 64 idx); [|lia]. apply rsat_ok. split; [constructor | unfold blen; cbn; lia].
  - destruct (Z.leb_spec 64 idx). { apply rsat_ok. split; [constructor | unfold blen; cbn; lia]. }
    destruct (Z.ltb_spec idx 64); [|lia]. cbn [rbind].
    assert (IH' := IH (idx + 1) ltac:(lia) ltac:(lia)).
    destruct (Z.testbit enabled idx).
    + eapply rsat_bind; [exact IH'|]. intros l (Hl & Hn). apply rsat_ok. split.
      * constructor; [lia|]. eapply Forall_impl; [|exact Hl]. cbn; intros; lia.
      * unfold blen in *. cbn [length]. lia.
    + eapply rsat_weaken; [|exact IH']. cbn beta. intros l (Hl & Hn). split.
      * eapply Forall_impl; [|exact Hl]. cbn; intros; lia.
      * lia.
Qed.
Lemma xstate_iter_rsat : forall p enabled,
  rsat (fun l => Forall (fun i => 0 <= i < XSTATE_FEATURES) l /\ blen l <= XSTATE_FEATURES) (xstate_iter p enabled).
Proof.
  intros. unfold xstate_iter. eapply rsat_weaken; [|apply xstate_loop_rsat; unfold XSTATE_FEATURES; lia].
  cbn beta. unfold XSTATE_FEATURES. intros l (H1 & H2). split; [assumption | lia].
Qed.
Lemma read_misc_info_rsat : forall e b, rsat (fun _ => True) (read_misc_info e b).
Proof.
  intros. unfold read_misc_info.
  repeat (match goal with |- context [if ?c then _ else _] => destruct c end; [apply rsat_ok; exact I|]).
  apply rsat_err.
Qed.

(* get_memory_at_address: a value is only ever produced from inside the region *)
Lemma mem_read_in_bounds : forall n e base region addr v, mem_read n e base region addr = Some v ->
  base <= addr /\ (addr - base) + n <= blen region.
Proof.
  intros n e base region addr v H. unfold mem_read in H.
  destruct (checked_sub addr base) as [start|] eqn:E; [|discriminate].
  apply checked_sub_some in E. destruct E as [-> E]. apply get_u_some in H. lia.
Qed.

(* text streams *)
Lemma split_on_count : forall sep l cur, blen (split_on sep l cur) <= blen l + 1.
Proof.
  intros sep. induction l as [|c t IH]; intros cur; cbn [split_on].
  - unfold blen; cbn; lia.
  - destruct (c =? sep).
    + specialize (IH []). unfold blen in *. cbn [length]. lia.
    + specialize (IH (c :: cur)). unfold blen in *. cbn [length]. lia.
Qed.
Lemma kv_of_lines_count : forall sep lines, blen (kv_of_lines sep lines) <= blen lines.
Proof.
  intros sep. induction lines as [|ln t IH]; cbn [kv_of_lines].
  - unfold blen; cbn; lia.
  - destruct (split_once sep ln []) as [[k v]|]; unfold blen in *; cbn [length]; lia.
Qed.
Lemma drop_ws_shorter : forall l, blen (drop_ws l) <= blen l.
Proof.
  induction l as [|c t IH]; cbn [drop_ws]; [lia|]. destruct (is_ws c); unfold blen in *; cbn [length] in *; lia.
Qed.
Lemma trim_ws_shorter : forall l, blen (trim_ws l) <= blen l.
Proof.
  intros l. unfold trim_ws.
  pose proof (drop_ws_shorter l). pose proof (drop_ws_shorter (rev (drop_ws l))).
  unfold blen in *. rewrite !rev_length in *. lia.
Qed.
Lemma strip_quotes_shorter : forall l, blen (strip_quotes l) <= blen l.
Proof.
  intros l. unfold strip_quotes. pose proof (trim_ws_shorter l) as H.
  destruct (trim_ws l) as [|c r]; [exact H|].
  destruct (c =? 34); [|exact H].
  destruct (rev r) as [|c2 r'] eqn:Er; [exact H|].
  destruct (c2 =? 34); [|exact H].
  assert (length r = S (length r')) by (rewrite <- (rev_length r), Er; reflexivity).
  unfold blen in *. cbn [length] in H. rewrite rev_length. lia.
Qed.
Lemma linux_kv_bounded : forall sep b,
  blen (linux_kv sep b) <= blen (linux_lines b) /\ blen (linux_lines b) <= blen b + 1.
Proof.
  intros. unfold linux_kv, linux_lines. split; [apply kv_of_lines_count | apply split_on_count].
Qed.

(* ------------------------------------------------------------------ crashpad info *)
Lemma dict_loop_rsat : forall e all data fuel off count keys,
  blen data - off < 8 * (Z.of_nat fuel + 1) -> rsat (fun _ => True) (dict_loop fuel e all data off count keys).
Proof.
  intros e all data. induction fuel as [|fuel IH]; intros off count keys Hf; cbn [dict_loop].
  - destruct (count <=? 0); [apply rsat_ok; exact I|].
    destruct (can_read data off 8) eqn:E; [|apply rsat_err]. apply can_read_iff in E. lia.
  - destruct (count <=? 0); [apply rsat_ok; exact I|].
    destruct (can_read data off 8) eqn:E; [|apply rsat_err].
    destruct (utf8_string e all _); [|apply rsat_err].
    destruct (utf8_string e all _); [|apply rsat_err].
    apply IH. lia.
Qed.
Lemma annot_loop_rsat : forall e all data fuel off count keys,
  blen data - off < 12 * (Z.of_nat fuel + 1) -> rsat (fun _ => True) (annot_loop fuel e all data off count keys).
Proof.
  intros e all data. induction fuel as [|fuel IH]; intros off count keys Hf; cbn [annot_loop].
  - destruct (count <=? 0); [apply rsat_ok; exact I|].
    destruct (can_read data off 12) eqn:E; [|apply rsat_err]. apply can_read_iff in E. lia.
  - destruct (count <=? 0); [apply rsat_ok; exact I|].
    destruct (can_read data off 12) eqn:E; [|apply rsat_err].
    destruct (utf8_string e all _); [|apply rsat_err].
    destruct (_ && _)%bool; [apply rsat_err|].
    apply IH. lia.
Qed.
Lemma read_simple_dictionary_rsat : forall e all size rva, rsat (fun _ => True) (read_simple_dictionary e all size rva).
Proof.
  intros. unfold read_simple_dictionary. destruct (location_slice all size rva) as [data|]; [|apply rsat_err].
  destruct (blen data =? 0); [apply rsat_ok; exact I|].
  destruct (get_u 4 e data 0); [|apply rsat_err].
  apply dict_loop_rsat. unfold fuel_of, blen. lia.
Qed.
Lemma read_annotation_objects_rsat : forall e all size rva, rsat (fun _ => True) (read_annotation_objects e all size rva).
Proof.
  intros. unfold read_annotation_objects. destruct (location_slice all size rva) as [data|]; [|apply rsat_err].
  destruct (blen data =? 0); [apply rsat_ok; exact I|].
  destruct (get_u 4 e data 0); [|apply rsat_err].
  apply annot_loop_rsat. unfold fuel_of, blen. lia.
Qed.
Lemma read_string_list_sat : forall e all size rva K, wf_bytes all -> ALLOC_FILE_C * blen all <= K ->
  sat K (fun _ => True) (read_string_list e all size rva).
Proof.
  intros e all size rva K Hwf HK. unfold read_string_list.
  apply sat_bind with (Q1 := fun data => wf_bytes data).
  { apply sat_lift, rsat_of_opt. intros data Hd. eapply location_slice_wf; eassumption. }
  intros data Hwd. destruct (blen data =? 0); [apply sat_ret; exact I|].
  apply sat_bind with (Q1 := fun u => 0 <= u).
  { apply sat_lift, rsat_of_opt. intros u Hu. apply get_u_some in Hu. destruct Hu as [_ ->]. apply val4; assumption. }
  intros count Hc.
  eapply sat_bind; [apply sat_lift, ensure_rsat|]. intros [n x] (H1 & H2 & H3). cbn [fst snd] in *. subst n x.
  eapply sat_bind; [apply sat_alloc; unfold MSZ_STRING, ALLOC_FILE_C in *; lia|]. intros _ _.
  eapply sat_bind.
  { apply for_entries_sat with (Q := fun _ => True).
    - intros off. unfold string_list_entry. apply sat_lift.
      destruct (get_u 4 e data off); [|apply rsat_err]. destruct (utf8_string e all z); [apply rsat_ok; exact I | apply rsat_err].
    - unfold fuel_of, blen in *. lia. }
  intros; apply sat_ret; exact I.
Qed.
Lemma read_module_crashpad_sat : forall e all rva K, wf_bytes all -> ALLOC_FILE_C * blen all <= K ->
  sat K (fun _ => True) (read_module_crashpad e all rva).
Proof.
  intros e all rva K Hwf HK. unfold read_module_crashpad.
  destruct (can_read all rva FSZ_MODULE_CRASHPAD); [|apply sat_lift, rsat_err].
  eapply sat_bind; [apply read_string_list_sat; assumption|]. intros a _.
  eapply sat_bind; [apply sat_lift, read_simple_dictionary_rsat|]. intros b _.
  eapply sat_bind; [apply sat_lift, read_annotation_objects_rsat|]. intros c _.
  apply sat_ret; exact I.
Qed.
Lemma read_crashpad_module_links_sat : forall e all size rva K, wf_bytes all -> ALLOC_FILE_C * blen all <= K ->
  sat K (fun _ => True) (read_crashpad_module_links e all size rva).
Proof.
  intros e all size rva K Hwf HK. unfold read_crashpad_module_links.
  apply sat_bind with (Q1 := fun data => wf_bytes data).
  { apply sat_lift, rsat_of_opt. intros data Hd. eapply location_slice_wf; eassumption. }
  intros data Hwd. destruct (blen data =? 0); [apply sat_ret; exact I|].
  apply sat_bind with (Q1 := fun u => 0 <= u).
  { apply sat_lift, rsat_of_opt. intros u Hu. apply get_u_some in Hu. destruct Hu as [_ ->]. apply val4; assumption. }
  intros count Hc.
  eapply sat_bind; [apply sat_lift, ensure_rsat|]. intros [n x] (H1 & H2 & H3). cbn [fst snd] in *. subst n x.
  eapply sat_bind; [apply sat_alloc; unfold MSZ_MODULE_CRASHPAD, FSZ_LINK, ALLOC_FILE_C in *; lia|]. intros _ _.
  eapply sat_bind.
  { apply for_entries_sat with (Q := fun _ => True).
    - intros off. unfold link_entry. destruct (can_read data off FSZ_LINK); [|apply sat_lift, rsat_err].
      apply read_module_crashpad_sat; assumption.
    - unfold fuel_of, FSZ_LINK, blen in *. lia. }
  intros; apply sat_ret; exact I.
Qed.
Lemma read_crashpad_info_sat : forall e all b K, wf_bytes all -> ALLOC_FILE_C * blen all <= K ->
  sat K (fun _ => True) (read_crashpad_info e all b).
Proof.
  intros e all b K Hwf HK. unfold read_crashpad_info.
  destruct (can_read b 0 FSZ_CRASHPAD); [|apply sat_lift, rsat_err].
  destruct (_ =? 0); [apply sat_lift, rsat_err|].
  eapply sat_bind; [apply sat_lift, read_simple_dictionary_rsat|]. intros s _.
  eapply sat_bind; [apply read_crashpad_module_links_sat; assumption|]. intros ml _.
  apply sat_ret; exact I.
Qed.

(* ------------------------------------------------------------------ round 3: fixed-layout streams, mac crash info, print sites *)
Lemma sysinfo_strings_rsat : forall p e all b, wf_bytes all -> blen all < T62 -> wf_bytes b ->
  rsat (fun _ => True) (sysinfo_strings p e all b).
Proof.
  intros p e all b Hwfa Hlena Hwf. unfold sysinfo_strings. destruct (can_read b 0 FSZ_SYSINFO); [|apply rsat_err].
  eapply rsat_bind; [apply read_string_utf16_rsat; try assumption; apply val4; assumption|].
  intros; apply rsat_ok; exact I.
Qed.
Lemma read_assertion_rsat : forall e b, rsat (fun _ => True) (read_assertion e b).
Proof. intros; unfold read_assertion. destruct (can_read b 0 FSZ_ASSERTION); [apply rsat_ok; exact I | apply rsat_err]. Qed.
Lemma read_breakpad_info_rsat : forall e b, rsat (fun _ => True) (read_breakpad_info e b).
Proof. intros; unfold read_breakpad_info. destruct (can_read b 0 12); [apply rsat_ok; exact I | apply rsat_err]. Qed.
Lemma read_soft_errors_rsat : forall b, rsat (fun _ => True) (read_soft_errors b).
Proof. intros; unfold read_soft_errors. destruct (utf8_ok b); [apply rsat_ok; exact I | apply rsat_err]. Qed.
Lemma read_mac_bootargs_rsat : forall p e all b, wf_bytes all -> blen all < T62 -> wf_bytes b ->
  rsat (fun _ => True) (read_mac_bootargs p e all b).
Proof.
  intros p e all b Hwfa Hlena Hwf. unfold read_mac_bootargs. destruct (can_read b 0 12); [|apply rsat_err].
  eapply rsat_bind; [apply read_string_utf16_rsat; try assumption; apply val8; assumption|].
  intros; apply rsat_ok; exact I.
Qed.

Lemma read_cstring_utf8_pos : forall p b off, blen b < T62 -> 0 <= off ->
  rsat (fun r => match r with Some (_, o) => 1 <= o | None => True end) (read_cstring_utf8 p b off).
Proof.
  intros p b off Hlen Hoff. unfold read_cstring_utf8.
  eapply rsat_bind; [apply cstring_loop_rsat; [assumption | unfold fuel_of, blen; lia]|].
  intros [o|] Ho; [|apply rsat_ok; exact I].
  unfold chk_sub. rewrite chk_ok by (unfold T62, T64 in *; lia). cbn [of_chk rbind].
  destruct (slice b off (o - 1)); apply rsat_ok; [lia | exact I].
Qed.
Lemma mac_cstring_rsat : forall p b off, blen b < T62 -> 0 <= off ->
  rsat (fun r => match r with Some o => 1 <= o | None => True end) (mac_cstring p b off).
Proof.
  intros p b off Hlen Hoff. unfold mac_cstring.
  eapply rsat_bind; [apply read_cstring_utf8_pos; assumption|].
  intros [[s o]|] Hr; [|apply rsat_ok; exact I].
  destruct (utf8_ok s); apply rsat_ok; [exact Hr | exact I].
Qed.
Lemma mac_strings_rsat : forall p b num, blen b < T62 ->
  forall n i off, 0 <= off -> i + Z.of_nat n <= num -> rsat (fun _ => True) (mac_strings p n i num b off).
Proof.
  intros p b num Hlen. induction n as [|n IH]; intros i off Hoff Hi; cbn [mac_strings].
  - apply rsat_ok; exact I.
  - eapply rsat_bind; [apply mac_cstring_rsat; assumption|].
    intros [o|] Ho; [|apply rsat_ok; exact I].
    destruct (Z.ltb_spec i num); [|lia]. apply IH; lia.
Qed.
Lemma mac_records_rsat : forall p e all, wf_bytes all -> blen all < T62 -> forall strings_off, 0 <= strings_off ->
  forall locs prev acc, rsat (fun _ => True) (mac_records p e all strings_off locs prev acc).
Proof.
  intros p e all Hwf Hlen so Hso. induction locs as [|[size rva] t IH]; intros prev acc; cbn [mac_records].
  - apply rsat_ok; exact I.
  - destruct (location_slice all size rva) as [r|] eqn:El; [|apply rsat_err].
    destruct (location_slice_wf _ _ _ _ Hwf El) as [Hr Hrl].
    destruct (can_read r 0 16); [|apply rsat_err].
    destruct (match prev with Some v => _ | None => false end); [apply rsat_err|].
    destruct (mac_layout _) as [[fixed num]|] eqn:Em; [|apply IH].
    destruct (can_read r 0 fixed); [|apply rsat_err].
    destruct (fixed >? so); [apply rsat_err|].
    eapply rsat_bind.
    { apply mac_strings_rsat; try lia.
      unfold mac_layout in Em. repeat (match type of Em with context [if ?c then _ else _] => destruct c end); inversion Em; cbn; lia. }
    intros [|] _; [apply IH | apply rsat_err].
Qed.
Lemma read_mac_crash_info_rsat : forall p e all b, wf_bytes all -> blen all < T62 -> wf_bytes b ->
  rsat (fun _ => True) (read_mac_crash_info p e all b).
Proof.
  intros p e all b Hwfa Hlena Hwf. unfold read_mac_crash_info. destruct (can_read b 0 FSZ_MAC_CRASH); [|apply rsat_err].
  apply mac_records_rsat; try assumption. apply val4; assumption.
Qed.

(* print sites *)
Lemma chunk_array_agree : forall w, chunk_size w = array_len w.
Proof. destruct w; reflexivity. Qed.
Lemma stack_print_rsat : forall p w fuel remaining offset, 0 <= offset -> offset + remaining < T62 ->
  remaining <= 4 * Z.of_nat fuel -> rsat (fun _ => True) (stack_print p fuel w remaining offset).
Proof.
  intros p w. assert (Hc : 4 <= chunk_size w <= 8) by (destruct w; cbn; lia).
  induction fuel as [|fuel IH]; intros remaining offset H0 Hs Hf; cbn [stack_print].
  - destruct (Z.ltb_spec remaining (chunk_size w)); [apply rsat_ok; exact I | lia].
  - destruct (Z.ltb_spec remaining (chunk_size w)); [apply rsat_ok; exact I|].
    rewrite chunk_array_agree, Z.eqb_refl. rewrite <- chunk_array_agree.
    unfold chk_add. rewrite chk_ok by (unfold T62, T64 in *; lia). cbn [of_chk rbind].
    apply IH; lia.
Qed.
Lemma hexdump_print_rsat : forall p fuel remaining offset, 0 <= offset -> offset + remaining < T62 ->
  remaining <= 16 * Z.of_nat fuel -> rsat (fun _ => True) (hexdump_print p fuel remaining offset).
Proof.
  intros p. induction fuel as [|fuel IH]; intros remaining offset H0 Hs Hf; cbn [hexdump_print].
  - destruct (Z.leb_spec remaining 0); [apply rsat_ok; exact I | lia].
  - destruct (Z.leb_spec remaining 0); [apply rsat_ok; exact I|].
    unfold chk_add. rewrite chk_ok by (unfold T62, T64 in *; lia). cbn [of_chk rbind].
    apply IH; lia.
Qed.
