(* C01/LProofs.v — round 5: the address / id lookups never index out of range.
   The table facts come from C08 (build_total, lookup_sound, sorted_disjoint, rm_get_complete); what is proved here is
   that the VALUES stored in the table are positions of the list the table was built from. *)
From Coq Require Import Lia Sorting.Sorted.
From RM Require Import C01.Model C01.Proofs C01.Driver C01.Final C01.QModel C01.QProofs C01.LModel.
From RM Require C08.Model C08.Proofs.
Open Scope Z_scope.

Definition wf_orange (o : orange) : Prop := match o with Some r => C08.Proofs.wf_range r | None => True end.

Lemma zeqb_eq : forall a b : Z, Z.eqb a b = true <-> a = b.
Proof. intros; apply Z.eqb_eq. Qed.

Lemma enumerate_in : forall A (l : list A) k x i, In (x, i) (C08.Model.enumerate_from k l) ->
  k <= i < k + blen l /\ nth_error l (Z.to_nat (i - k)) = Some x.
Proof.
  induction l as [|a t IH]; intros k x i H; cbn [C08.Model.enumerate_from] in H; [contradiction|].
  unfold blen; cbn [length]. rewrite Nat2Z.inj_succ. destruct H as [H|H].
  - inversion H; subst. replace (i - i) with 0 by lia. cbn. split; [lia|reflexivity].
  - apply IH in H. unfold blen in H. destruct H as (H1 & H2). split; [lia|].
    replace (Z.to_nat (i - k)) with (S (Z.to_nat (i - (k + 1)))) by lia. exact H2.
Qed.

Lemma enumerate_wf : forall (ranges : list orange) k, Forall wf_orange ranges ->
  C08.Proofs.wf_entries (C08.Model.enumerate_from k ranges).
Proof.
  induction ranges as [|o t IH]; intros k H; cbn [C08.Model.enumerate_from]; [constructor|].
  inversion H; subst. constructor; [cbn [fst]; assumption | apply IH; assumption].
Qed.

Definition the_table (ranges : list orange) := C08.Model.into_rangemap_safe Z.eqb (C08.Model.enumerate_from 0 ranges).

(* RangeMap::try_from_iter(vec).unwrap() of into_rangemap_safe never panics *)
Lemma table_of_ok : forall ranges, Forall wf_orange ranges -> table_of ranges = Ok (the_table ranges).
Proof.
  intros ranges H. unfold table_of, C08.Model.build_indexed.
  pose proof (C08.Proofs.build_total Z.eqb _ (enumerate_wf ranges 0 H)) as X.
  match goal with |- match ?b with _ => _ end = _ => replace b with (Ret (the_table ranges)) by (symmetry; exact X) end.
  reflexivity.
Qed.

(* a lookup that answers, answers with a position of the list whose own range contains the address *)
Lemma table_get_sound : forall ranges addr i, Forall wf_orange ranges ->
  C08.Model.rm_get (the_table ranges) addr = Some i ->
  0 <= i < blen ranges /\ exists r, nth_error ranges (Z.to_nat i) = Some (Some r) /\ C08.Model.contains r addr = true.
Proof.
  intros ranges addr i H Hg.
  destruct (C08.Proofs.lookup_sound Z.eqb zeqb_eq _ addr i (enumerate_wf ranges 0 H) Hg) as (r & Hin & Hc).
  apply enumerate_in in Hin. destruct Hin as (Hi & Hn). rewrite Z.sub_0_r in Hn.
  split; [lia|]. exists r. split; assumption.
Qed.

(* every value stored in the table is a position of the list (by_addr) *)
Lemma table_values_in_range : forall ranges R i, Forall wf_orange ranges -> In (R, i) (the_table ranges) -> 0 <= i < blen ranges.
Proof.
  intros ranges R i H Hin.
  destruct (C08.Proofs.sorted_disjoint Z.eqb _ (enumerate_wf ranges 0 H)) as (Hs & Hw).
  assert (HR : C08.Proofs.wf_range R).
  { unfold C08.Proofs.wf_ranges in Hw. rewrite Forall_forall in Hw. exact (Hw _ Hin). }
  assert (Hc : C08.Model.contains R (fst R) = true).
  { unfold C08.Model.contains. destruct HR as (_ & H2 & _). lia. }
  pose proof (C08.Proofs.rm_get_complete _ (fst R) R i Hs Hw Hin Hc) as Hg.
  apply (table_get_sound ranges (fst R) i H Hg).
Qed.

Lemma index_at_rsat : forall ranges addr, Forall wf_orange ranges ->
  rsat (fun i => i = -1 \/ (0 <= i < blen ranges /\ exists r, nth_error ranges (Z.to_nat i) = Some (Some r) /\ C08.Model.contains r addr = true))
       (index_at (the_table ranges) (blen ranges) addr).
Proof.
  intros ranges addr H. unfold index_at.
  destruct (C08.Model.rm_get (the_table ranges) addr) as [i|] eqn:Hg; [|apply rsat_ok; left; reflexivity].
  destruct (table_get_sound ranges addr i H Hg) as (Hi & Hr).
  replace ((0 <=? i) && (i <? blen ranges)) with true by (symmetry; apply andb_true_intro; split; [apply Z.leb_le | apply Z.ltb_lt]; lia).
  apply rsat_ok. right. split; assumption.
Qed.

Lemma by_addr_count_rsat : forall n tbl, Forall (fun rv => 0 <= snd rv < n) tbl -> rsat (fun c => c = blen tbl) (by_addr_count tbl n).
Proof.
  intros n. induction tbl as [|[R i] t IH]; intros H; cbn [by_addr_count]; [apply rsat_ok; reflexivity|].
  inversion H as [|? ? Hi Ht]; subst. cbn [snd] in Hi.
  replace ((0 <=? i) && (i <? n)) with true by (symmetry; apply andb_true_intro; split; [apply Z.leb_le | apply Z.ltb_lt]; lia).
  eapply rsat_bind; [apply IH; exact Ht|]. intros c ->. apply rsat_ok. unfold blen; cbn [length]. lia.
Qed.

Lemma seq_res_rsat_all : forall A (Q : A -> Prop) (l : list (res A)), Forall (rsat Q) l -> rsat (Forall Q) (seq_res l).
Proof.
  induction l as [|x t IH]; intros H; cbn [seq_res]; [apply rsat_ok; constructor|].
  inversion H; subst. eapply rsat_bind; [eassumption|]. intros a Ha.
  eapply rsat_bind; [apply IH; assumption|]. intros r Hr. apply rsat_ok; constructor; assumption.
Qed.

Definition wf_descs (descs : list (Z * Z)) : Prop := Forall (fun d => 0 <= fst d /\ 0 <= snd d) descs.

Lemma ranges_of_rsat : forall p descs, wf_descs descs -> rsat (fun rs => Forall wf_orange rs /\ blen rs = blen descs) (ranges_of p descs).
Proof.
  intros p descs H. unfold ranges_of.
  assert (G : rsat (Forall wf_orange) (seq_res (map (fun d => memory_range p (fst d) (snd d)) descs))).
  { apply seq_res_rsat_all. apply Forall_forall. intros x Hx. apply in_map_iff in Hx. destruct Hx as (d & <- & Hd).
    unfold wf_descs in H. rewrite Forall_forall in H. destruct (H _ Hd) as (Hb & Hs).
    eapply rsat_weaken; [|apply memory_range_rsat; assumption].
    intros [[lo hi]|] Ho; cbn; [|exact I]. destruct Ho as (-> & -> & Hle & Hlt & _).
    unfold C08.Proofs.wf_range; cbn [fst snd]. unfold two64. unfold T64 in *. lia. }
  (* the length: seq_res keeps one result per element *)
  assert (L : forall (l : list (res orange)) rs, seq_res l = Ok rs -> blen rs = blen l).
  { induction l as [|x t IH]; intros rs Hrs; cbn [seq_res] in Hrs; [inversion Hrs; reflexivity|].
    destruct x as [a| | |]; cbn [rbind] in Hrs; try discriminate.
    destruct (seq_res t) as [r| | |] eqn:Et; cbn [rbind] in Hrs; try discriminate.
    inversion Hrs; subst. unfold blen; cbn [length]. specialize (IH r eq_refl). unfold blen in IH. lia. }
  destruct G as (G1 & G2 & G3). split; [exact G1|]. split; [exact G2|].
  intros rs Hrs. split; [apply G3; exact Hrs|]. rewrite (L _ _ Hrs). unfold blen. rewrite map_length. reflexivity.
Qed.

(* the lookups of one list: no trap, every index returned is a position of the list (or -1), the by_addr walk visits
   every table entry *)
Lemma lookups_rsat : forall p descs, wf_descs descs ->
  rsat (fun l => match l with [] => False | c :: idx => 0 <= c /\ Forall (fun i => -1 <= i < blen descs) idx end) (lookups p descs).
Proof.
  intros p descs H. unfold lookups.
  eapply rsat_bind; [apply ranges_of_rsat; exact H|]. intros ranges (Hr & Hl).
  rewrite (table_of_ok ranges Hr). cbn [rbind].
  eapply rsat_bind.
  { apply by_addr_count_rsat. apply Forall_forall. intros [R i] Hin. cbn [snd]. eapply table_values_in_range; eassumption. }
  intros c ->.
  eapply rsat_bind.
  { apply seq_res_rsat_all with (Q := fun i => -1 <= i < blen descs). apply Forall_forall. intros x Hx.
    apply in_map_iff in Hx. destruct Hx as (a & <- & _).
    eapply rsat_weaken; [|apply index_at_rsat; exact Hr]. intros i [->|((Hi1 & Hi2) & _)]; pose proof (blen_nonneg _ descs); lia. }
  intros l Hf. apply rsat_ok. split; [apply blen_nonneg | exact Hf].
Qed.

(* ---- get_thread *)
Lemma last_index_bound : forall e id raws i acc, acc < i -> last_index e id raws i acc < i + blen raws.
Proof.
  induction raws as [|d t IH]; intros i acc H; cbn [last_index]; unfold blen; cbn [length]; [lia|].
  rewrite Nat2Z.inj_succ. specialize (IH (i + 1) (if val e (sub d 0 4) =? id then i else acc)).
  unfold blen in IH. destruct (val e (sub d 0 4) =? id); lia.
Qed.
Lemma get_thread_index_rsat : forall e raws id, rsat (fun i => -1 <= i < blen raws) (get_thread_index e raws id).
Proof.
  intros e raws id. unfold get_thread_index.
  pose proof (last_index_bound e id raws 0 (-1) ltac:(lia)) as B.
  destruct (Z.ltb_spec (last_index e id raws 0 (-1)) (blen raws)); [|lia].
  apply rsat_ok. split; [|assumption].
  assert (G : forall raws i acc, -1 <= acc -> 0 <= i -> -1 <= last_index e id raws i acc).
  { induction raws0 as [|d t IH]; intros i acc Ha Hi; cbn [last_index]; [assumption|]. apply IH; [destruct (_ =? _); lia | lia]. }
  apply G; lia.
Qed.

(* ---- descriptors read from well-formed bytes are non-negative *)
Lemma mem_descs_wf : forall e regions, Forall wf_bytes regions -> wf_descs (mem_descs e regions).
Proof.
  intros e regions H. unfold wf_descs, mem_descs. apply Forall_forall. intros x Hx. apply in_map_iff in Hx.
  destruct Hx as (d & <- & Hd). rewrite Forall_forall in H. cbn [fst snd]. split; apply val_sub_nonneg; apply H; assumption.
Qed.
Lemma module_descs_wf : forall e s, wf_bytes s -> wf_descs (module_descs e s).
Proof.
  intros e s H. unfold wf_descs, module_descs. apply Forall_forall. intros x Hx. apply filter_In in Hx. destruct Hx as (Hx & _).
  apply in_map_iff in Hx. destruct Hx as (d & <- & Hd). unfold list_entries in Hd. apply in_map_iff in Hd. destruct Hd as (i & <- & _).
  cbn [fst snd]. split; apply val_sub_nonneg; apply wf_sub; assumption.
Qed.
Lemma meminfo_descs_wf : forall e s n, wf_bytes s -> wf_descs (meminfo_descs e s n).
Proof.
  intros e s n H. unfold wf_descs, meminfo_descs. apply Forall_forall. intros x Hx. apply in_map_iff in Hx.
  destruct Hx as (i & <- & _). cbn [fst snd]. split; apply val_sub_nonneg; assumption.
Qed.
Lemma mem64_descs_wf : forall e s n, wf_bytes s -> wf_descs (mem64_descs e s n).
Proof.
  intros e s n H. unfold wf_descs, mem64_descs. apply Forall_forall. intros x Hx. apply in_map_iff in Hx.
  destruct Hx as (i & <- & _). cbn [fst snd]. split; apply val_sub_nonneg; assumption.
Qed.

Lemma lookups_total : forall p descs, wf_descs descs -> rsat (fun _ => True) (lookups p descs).
Proof. intros p descs H. eapply rsat_weaken; [|apply lookups_rsat; exact H]. intros; exact I. Qed.

Lemma run_lookups_total : forall p file, wf_bytes file -> blen file < T62 ->
  forall tag f, In (tag, f) (run_lookups p file) -> (forall t, f <> FPan t) /\ f <> FNoFuel.
Proof.
  intros p file Hwf Hlen tag f Hin. unfold run_lookups in Hin.
  destruct (read_header file) as [[e ds]| | |]; try contradiction.
  pose proof (blen_nonneg _ file) as Hnn.
  cbn [In] in Hin. destruct Hin as [H|[H|[H|[H|[H|[]]]]]]; inversion H; subst; clear H; eapply fld_rsat.
  - unfold q_am. eapply rsat_bind with (Q1 := Forall wf_bytes).
    + unfold s_mem.
      refine (proj2 (get_stream_sat _ file ds ST_MEMORY_LIST _ (ALLOC_FILE_C * blen file) (Forall wf_bytes) Hwf _)).
      intros s Hs Hl. pose proof (blen_nonneg _ s). apply read_memory_list_wf_sat; try assumption; unfold ALLOC_FILE_C, ALLOC_C, T62 in *; lia.
    + intros regions Hr. apply lookups_total. apply mem_descs_wf; assumption.
  - unfold q_al. eapply rsat_bind; [exact (proj2 (s_ml_sat p e file ds Hwf Hlen))|]. intros n _.
    eapply rsat_bind; [apply raw_stream_wf; exact Hwf|]. intros b Hb. apply lookups_total. apply module_descs_wf; assumption.
  - unfold q_ai. eapply rsat_bind; [exact (proj2 (s_mi_sat p e file ds Hwf Hlen))|]. intros n _.
    eapply rsat_bind; [apply raw_stream_wf; exact Hwf|]. intros b Hb. apply lookups_total. apply meminfo_descs_wf; assumption.
  - unfold q_a6. eapply rsat_bind; [exact (proj2 (s_m64_sat p e file ds Hwf Hlen))|]. intros n _.
    eapply rsat_bind; [apply raw_stream_wf; exact Hwf|]. intros b Hb. apply lookups_total. apply mem64_descs_wf; assumption.
  - unfold q_tg. eapply rsat_bind; [exact (proj2 (s_tl_sat p e file ds Hwf Hlen))|]. intros raws _.
    eapply rsat_weaken; [|apply seq_res_rsat_all with (Q := fun _ => True)]; [intros; exact I|].
    apply Forall_forall. intros x Hx. apply in_map_iff in Hx. destruct Hx as (d & <- & _).
    eapply rsat_weaken; [|apply get_thread_index_rsat]. intros; exact I.
Qed.

(* the statement about one table, for any list of optional ranges over u64 *)
Lemma address_lookup_total : forall (ranges : list orange) addr, Forall wf_orange ranges ->
  table_of ranges = Ok (the_table ranges) /\
  (forall R i, In (R, i) (the_table ranges) -> 0 <= i < blen ranges) /\
  exists i, index_at (the_table ranges) (blen ranges) addr = Ok i /\
            (i = -1 \/ (0 <= i < blen ranges /\ exists r, nth_error ranges (Z.to_nat i) = Some (Some r) /\ C08.Model.contains r addr = true)).
Proof.
  intros ranges addr H. split; [apply table_of_ok; exact H|]. split; [intros R i; apply table_values_in_range; exact H|].
  pose proof (index_at_rsat ranges addr H) as (H1 & H2 & H3).
  destruct (index_at (the_table ranges) (blen ranges) addr) as [i| | |] eqn:E.
  - exists i. split; [reflexivity | apply H3; reflexivity].
  - exfalso. unfold index_at in E. destruct (C08.Model.rm_get _ _); [destruct (_ && _)|]; discriminate.
  - exfalso. exact (H1 _ eq_refl).
  - exfalso. exact (H2 eq_refl).
Qed.

(* MinidumpUnloadedModuleList::modules_at_address (`&self.modules[*idx]` over the sorted (range, index) vector, C08's
   unloaded_build / unloaded_at): every index listed for an address is a position of the list *)
Lemma unloaded_indices_in_range : forall (ranges : list orange) x i,
  In i (C08.Model.unloaded_at (C08.Model.unloaded_build ranges) x) -> 0 <= i < blen ranges.
Proof.
  intros ranges x i H. apply C08.Proofs.unloaded_iff in H. destruct H as (r & Hin & _).
  apply enumerate_in in Hin. destruct Hin as (Hi & _). rewrite Z.add_0_l in Hi. exact Hi.
Qed.
