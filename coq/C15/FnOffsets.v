(* C15/FnOffsets.v — executable: "function offsets equal address minus base". The document does not print the function base, so the
   judgement takes it from the process state: the threads / frames of the document are walked in step with the state's
   (same number of threads, same number of frames), and every frame whose state frame has a function base fb must have
   fb <= offset and function_offset = offset - fb AS NUMBERS (both hex strings of the document decoded); a frame without function base has
   no function_offset.  (The crashing_thread copy is tied to threads[threads_index] by [consistent].)  Run on every REAL
   print_json output with the function bases of the real state by the driver. *)
From RM Require Export C15.Model C15.Consistent C15.Offsets.
Open Scope Z_scope.

Fixpoint forall2b {A B : Type} (p : A -> B -> bool) (la : list A) (lb : list B) : bool :=
  match la, lb with
  | [], [] => true
  | a :: la', b :: lb' => p a b && forall2b p la' lb'
  | _, _ => false
  end.

Definition frame_fn_ok (f : frame) (fj : json) : bool :=
  match fr_function_base f with
  | Some fb =>
      match jmem k_offset fj, jmem k_function_offset fj with
      | JStr (48 :: 120 :: o), JStr (48 :: 120 :: fo) => (fb <=? hexval o) && (hexval fo =? hexval o - fb)
      | _, _ => false
      end
  | None => is_null (jmem k_function_offset fj)
  end.
Definition thread_fn_ok (t : thread) (tj : json) : bool :=
  match jmem k_frames tj with JArr fs => forall2b frame_fn_ok (th_frames t) fs | _ => false end.
Definition fn_offsets_ok (s : state) (j : json) : bool :=
  match jmem k_threads j with JArr ts => forall2b thread_fn_ok (s_threads s) ts | _ => false end.
