(* C15/Utf8.v — executable: UTF-8 encoding of the report's code points (what `String` bytes are) and a strict decoder
   (rejects overlong forms, surrogates, values above U+10FFFF, stray continuation bytes). *)
From RM Require Export C15.Model.
Open Scope Z_scope.

Definition utf8_char (c : Z) : list Z :=
  if c <? 128 then [c]
  else if c <? 2048 then [192 + c / 64; 128 + c mod 64]
  else if c <? 65536 then [224 + c / 64 / 64; 128 + (c / 64) mod 64; 128 + c mod 64]
  else [240 + c / 64 / 64 / 64; 128 + (c / 64 / 64) mod 64; 128 + (c / 64) mod 64; 128 + c mod 64].
Definition utf8 (s : list Z) : list Z := flat_map utf8_char s.

(* Unicode scalar value: what a Rust `char` can hold *)
Definition scalar (c : Z) : bool := (0 <=? c) && (c <? 1114112) && negb ((55296 <=? c) && (c <=? 57343)).
Definition cont (b : Z) : bool := (128 <=? b) && (b <? 192).

Fixpoint utf8_decode (fuel : nat) (b : list Z) : option (list Z) :=
  match fuel with
  | O => match b with [] => Some [] | _ => None end
  | S f =>
      match b with
      | [] => Some []
      | b0 :: r =>
          let k (c : Z) (rest : list Z) := match utf8_decode f rest with Some l => Some (c :: l) | None => None end in
          if (0 <=? b0) && (b0 <? 128) then k b0 r
          else if (194 <=? b0) && (b0 <? 224) then
            match r with
            | b1 :: r1 => if cont b1 then k ((b0 - 192) * 64 + (b1 - 128)) r1 else None
            | _ => None
            end
          else if (224 <=? b0) && (b0 <? 240) then
            match r with
            | b1 :: b2 :: r2 =>
                let c := ((b0 - 224) * 64 + (b1 - 128)) * 64 + (b2 - 128) in
                if cont b1 && cont b2 && (2048 <=? c) && scalar c then k c r2 else None
            | _ => None
            end
          else if (240 <=? b0) && (b0 <? 245) then
            match r with
            | b1 :: b2 :: b3 :: r3 =>
                let c := (((b0 - 240) * 64 + (b1 - 128)) * 64 + (b2 - 128)) * 64 + (b3 - 128) in
                if cont b1 && cont b2 && cont b3 && (65536 <=? c) && scalar c then k c r3 else None
            | _ => None
            end
          else None
      end
  end.

(* every string in the value (member names and string values) consists of scalar values *)
Fixpoint jscalar (v : json) : bool :=
  match v with
  | JStr s => forallb scalar s
  | JArr l => forallb jscalar l
  | JObj l => forallb (fun kv => let '(k, x) := kv in forallb scalar k && jscalar x) l
  | _ => true
  end.
