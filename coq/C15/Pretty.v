(* C15/Pretty.v — executable definitions: print_json(pretty = true) and a JSON parser with insignificant whitespace.
   serde_json::to_writer_pretty uses PrettyFormatter with the two-space indent:
     begin_array / begin_object      write "[" / "{" and increase the indent;
     begin_array_value / begin_object_key (first)   write "\n", (not first) ",\n", then the indent;
     begin_object_value              write ": ";
     end_array / end_object          decrease the indent; when the container had a value write "\n" + indent; write "]" / "}".
   so an empty container is "[]" / "{}".  [ser_lo] is a serialiser parametrised by such a layout; the compact layout gives
   [serialise] back (Proofs6.ser_lo_compact), the pretty layout is compared byte for byte with the real pretty output.
   [parse_ws] is the RFC 8259 grammar of Model.parse_val plus insignificant whitespace (space, \t, \n, \r) wherever the
   RFC allows it: before and after every value, around the structural characters. *)
From RM Require Export C15.Model.
Open Scope Z_scope.

Record layout := {
  lo_open : nat -> list Z;     (* after the opening bracket of a non-empty container at depth d *)
  lo_comma : nat -> list Z;    (* after a comma inside a container at depth d *)
  lo_close : nat -> list Z;    (* before the closing bracket of a non-empty container at depth d *)
  lo_colon : list Z }.         (* after the colon *)

Definition lo_elems (L : layout) (ser : json -> list Z) (d : nat) : list json -> list Z :=
  fix elems (l : list json) : list Z :=
    match l with
    | [] => [93]
    | x :: t => ser x ++ match t with [] => lo_close L d ++ [93] | _ :: _ => 44 :: lo_comma L d ++ elems t end
    end.
Definition lo_members (L : layout) (ser : json -> list Z) (d : nat) : list (list Z * json) -> list Z :=
  fix members (l : list (list Z * json)) : list Z :=
    match l with
    | [] => [125]
    | (k, x) :: t => ser_str k ++ 58 :: lo_colon L ++ ser x ++
                     match t with [] => lo_close L d ++ [125] | _ :: _ => 44 :: lo_comma L d ++ members t end
    end.

Fixpoint ser_lo (L : layout) (d : nat) (v : json) : list Z :=
  match v with
  | JArr l => match l with
              | [] => [91; 93]
              | _ :: _ => 91 :: lo_open L d ++ lo_elems L (ser_lo L (S d)) d l
              end
  | JObj l => match l with
              | [] => [123; 125]
              | _ :: _ => 123 :: lo_open L d ++ lo_members L (ser_lo L (S d)) d l
              end
  | _ => serialise v
  end.

Definition nl_indent (d : nat) : list Z := 10 :: repeat 32 (2 * d).
Definition PRETTY : layout :=
  {| lo_open := fun d => nl_indent (S d); lo_comma := fun d => nl_indent (S d); lo_close := nl_indent; lo_colon := [32] |}.
Definition COMPACT : layout :=
  {| lo_open := fun _ => []; lo_comma := fun _ => []; lo_close := fun _ => []; lo_colon := [] |}.

(* what print_json(pretty = true) writes *)
Definition pretty (v : json) : list Z := ser_lo PRETTY 0 v.

(* ------------------------------------------------------------------ parser with insignificant whitespace *)
Definition is_ws (c : Z) : bool := (c =? 32) || (c =? 10) || (c =? 13) || (c =? 9).
Fixpoint skip_ws (s : list Z) : list Z :=
  match s with
  | c :: r => if is_ws c then skip_ws r else s
  | [] => []
  end.

Fixpoint pw_val (fuel : nat) (s0 : list Z) {struct fuel} : option (json * list Z) :=
  match fuel with
  | O => None
  | S f =>
      match skip_ws s0 with
      | [] => None
      | c :: r =>
          if c =? 110 then match r with 117 :: 108 :: 108 :: r' => Some (JNull, r') | _ => None end
          else if c =? 116 then match r with 114 :: 117 :: 101 :: r' => Some (JBool true, r') | _ => None end
          else if c =? 102 then match r with 97 :: 108 :: 115 :: 101 :: r' => Some (JBool false, r') | _ => None end
          else if c =? 34 then match parse_str r with Some (t, rest) => Some (JStr t, rest) | None => None end
          else if c =? 91 then
            match skip_ws r with
            | [] => None
            | c2 :: r' => if c2 =? 93 then Some (JArr [], r')
                          else match pw_elems f r with Some (l, rest) => Some (JArr l, rest) | None => None end
            end
          else if c =? 123 then
            match skip_ws r with
            | [] => None
            | c2 :: r' => if c2 =? 125 then Some (JObj [], r')
                          else match pw_members f r with Some (l, rest) => Some (JObj l, rest) | None => None end
            end
          else if c =? 45 then
            match parse_nat r with
            | Some (n, rest) => if n =? 0 then None else Some (JNum (- n), rest)
            | None => None
            end
          else match parse_nat (c :: r) with Some (n, rest) => Some (JNum n, rest) | None => None end
      end
  end
with pw_elems (fuel : nat) (s : list Z) {struct fuel} : option (list json * list Z) :=
  match fuel with
  | O => None
  | S f =>
      match pw_val f s with
      | Some (v, rest) =>
          match skip_ws rest with
          | c :: r =>
              if c =? 44 then match pw_elems f r with Some (l, rest') => Some (v :: l, rest') | None => None end
              else if c =? 93 then Some ([v], r) else None
          | [] => None
          end
      | None => None
      end
  end
with pw_members (fuel : nat) (s : list Z) {struct fuel} : option (list (list Z * json) * list Z) :=
  match fuel with
  | O => None
  | S f =>
      match skip_ws s with
      | c :: r =>
          if c =? 34 then
            match parse_str r with
            | Some (k, rest1) =>
                match skip_ws rest1 with
                | c1 :: r1 =>
                    if c1 =? 58 then
                      match pw_val f r1 with
                      | Some (v, rest2) =>
                          match skip_ws rest2 with
                          | c2 :: r2 =>
                              if c2 =? 44 then
                                match pw_members f r2 with Some (l, rest') => Some ((k, v) :: l, rest') | None => None end
                              else if c2 =? 125 then Some ([(k, v)], r2) else None
                          | [] => None
                          end
                      | None => None
                      end
                    else None
                | [] => None
                end
            | None => None
            end
          else None
      | [] => None
      end
  end.

(* whole-document parse: one value, surrounded by optional whitespace, and nothing else *)
Definition parse_ws (s : list Z) : option json :=
  match pw_val (S (length s)) s with
  | Some (v, rest) => match skip_ws rest with [] => Some v | _ :: _ => None end
  | None => None
  end.
