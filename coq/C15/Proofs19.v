(* C15/Proofs19.v — what the integer tests of C15/Float.v mean: [scale_cmp] is the comparison of c * 10^k with w * 2^q as rational
   numbers, [in_interval] the two-sided inequality around the widened value, [b64_frame] the normalised binary64 mantissa (same value,
   53 significant bits, in quarter ulps) — and Flocq's own normalisation to binary64 gives that mantissa and exponent. *)
From Coq Require Import Lia QArith Qpower.
From Flocq Require Import IEEE754.BinarySingleNaN IEEE754.Binary IEEE754.Bits Core.
From RM Require Import C15.Model C15.Float C15.FloatQ.
From RM Require C19.Model C19.Proofs.
Open Scope Z_scope.
Lemma qpow_pos b z : (0 < b)%Q -> (0 < Qpower b z)%Q.
Proof. intro H. apply Qpower_0_lt. exact H. Qed.

Lemma qpow_split b k : ~ (b == 0)%Q -> (Qpower b k == Qpower b (Z.max k 0) / Qpower b (Z.max (- k) 0))%Q.
Proof.
  intro Hb. destruct (Z_le_gt_dec 0 k).
  - rewrite Z.max_l by lia. rewrite Z.max_r by lia. cbn [Qpower]. field.
  - rewrite Z.max_r by lia. rewrite Z.max_l by lia.
    replace k with (- (- k)) at 1 by lia. rewrite Qpower_opp. cbn [Qpower]. field.
    apply Qpower_not_0. exact Hb.
Qed.

Lemma inject_pow b n : 0 <= n -> (inject_Z (b ^ n) == Qpower (inject_Z b) n)%Q.
Proof.
  intro H. rewrite <- (Z2Nat.id n H). generalize (Z.to_nat n). clear. intro m.
  induction m as [|m IH].
  - reflexivity.
  - rewrite Nat2Z.inj_succ, Z.pow_succ_r by lia. rewrite inject_Z_mult, IH.
    rewrite <- Z.add_1_r. rewrite Qpower_plus'. 2: lia. change (Qpower (inject_Z b) 1) with (inject_Z b). ring.
Qed.

Lemma qcompare_mult_r x y z : (0 < z)%Q -> (x * z ?= y * z)%Q = (x ?= y)%Q.
Proof.
  intro Hz. destruct (Qcompare_spec x y) as [E|L|G].
  - apply Qeq_alt. rewrite E. reflexivity.
  - apply Qlt_alt. apply Qmult_lt_r; assumption.
  - apply Qgt_alt. apply Qmult_lt_r; assumption.
Qed.

Lemma scale_cmp_spec c k w q : scale_cmp c k w q = cmp_Q c k w q.
Proof.
  unfold cmp_Q, scale_cmp, qdec, qbin.
  rewrite (qpow_split 10 k) by discriminate. rewrite (qpow_split 2 q) by discriminate.
  set (a := Z.max k 0). set (b := Z.max (- k) 0). set (x := Z.max q 0). set (y := Z.max (- q) 0).
  assert (Ha : 0 <= a) by lia. assert (Hb : 0 <= b) by lia. assert (Hx : 0 <= x) by lia. assert (Hy : 0 <= y) by lia.
  assert (P10b : (0 < Qpower 10 b)%Q) by (apply qpow_pos; reflexivity).
  assert (P2y : (0 < Qpower 2 y)%Q) by (apply qpow_pos; reflexivity).
  rewrite <- (qcompare_mult_r _ _ (Qpower 10 b * Qpower 2 y)).
  2:{ apply Qmult_lt_0_compat; assumption. }
  assert (E1 : (inject_Z c * (Qpower 10 a / Qpower 10 b) * (Qpower 10 b * Qpower 2 y) == inject_Z (c * 10 ^ a * 2 ^ y))%Q).
  { rewrite !inject_Z_mult, !inject_pow by assumption. change (inject_Z 10) with 10%Q. change (inject_Z 2) with 2%Q. field.
    intro E. rewrite E in P10b. discriminate. }
  assert (E2 : (inject_Z w * (Qpower 2 x / Qpower 2 y) * (Qpower 10 b * Qpower 2 y) == inject_Z (w * 2 ^ x * 10 ^ b))%Q).
  { rewrite !inject_Z_mult, !inject_pow by assumption. change (inject_Z 10) with 10%Q. change (inject_Z 2) with 2%Q. field.
    intro E. rewrite E in P2y. discriminate. }
  rewrite E1, E2. unfold Qcompare, inject_Z. cbn [Qnum Qden]. rewrite !Z.mul_1_r. reflexivity.
Qed.

(* the interval test is the two-sided rational inequality *)
Lemma in_interval_spec m e c k : in_interval m e c k = true <-> interval_Q m e c k.
Proof.
  unfold interval_Q, in_interval. destruct (b64_frame m e) as [[v4 dn] e4]. cbn [fst snd].
  rewrite !scale_cmp_spec. unfold cmp_Q.
  split.
  - intro H. destruct (qdec c k ?= qbin (v4 - dn) e4)%Q eqn:E1; try discriminate;
      destruct (qdec c k ?= qbin (v4 + 2) e4)%Q eqn:E2; try discriminate;
      (split; [apply Qge_alt; rewrite E1; discriminate|apply Qle_alt; rewrite E2; discriminate]).
  - intros [H1 H2].
    destruct (qdec c k ?= qbin (v4 - dn) e4)%Q eqn:E1;
      [| apply Qlt_alt in E1; exfalso; exact (Qlt_not_le _ _ E1 H1) |];
      (destruct (qdec c k ?= qbin (v4 + 2) e4)%Q eqn:E2; try reflexivity;
       apply Qgt_alt in E2; exfalso; exact (Qlt_not_le _ _ E2 H2)).
Qed.

Lemma qbin_shift w q a : 0 <= a -> (qbin (w * 2 ^ a) (q - a) == qbin w q)%Q.
Proof.
  intro Ha. unfold qbin. rewrite inject_Z_mult, (inject_pow 2 a Ha). change (inject_Z 2) with 2%Q.
  replace (q - a) with (q + - a) by lia. rewrite Qpower_plus by discriminate. rewrite Qpower_opp.
  assert (HA : ~ (Qpower 2 a == 0)%Q) by (apply Qpower_not_0; discriminate).
  set (A := Qpower 2 a) in *. set (B := Qpower 2 q). field. exact HA.
Qed.

(* the frame: 4 * m64 quarter-ulps of the normalised binary64 mantissa, same value *)
Lemma b64_frame_spec m e : 0 < m < 9007199254740992 -> frame_Q m e.
Proof.
  intros Hm. unfold frame_Q, b64_frame.
  pose proof (Z.log2_spec m ltac:(lia)) as [L1 L2].
  assert (Hl : 0 <= Z.log2 m) by apply Z.log2_nonneg.
  assert (Hl53 : Z.log2 m < 53).
  { apply Z.log2_lt_pow2; lia. }
  set (sh := 52 - Z.log2 m). assert (Hsh : 0 <= sh) by (unfold sh; lia).
  assert (P : 2 ^ Z.log2 m * 2 ^ sh = 4503599627370496).
  { rewrite <- Z.pow_add_r by lia. unfold sh. replace (Z.log2 m + (52 - Z.log2 m)) with 52 by lia. reflexivity. }
  assert (Psh : 0 < 2 ^ sh) by (apply Z.pow_pos_nonneg; lia).
  split; [|split].
  - replace (Z.succ (Z.log2 m)) with (Z.log2 m + 1) in L2 by lia. rewrite Z.pow_add_r in L2 by lia.
    change (2 ^ 1) with 2 in L2. nia.
  - replace (4 * (m * 2 ^ sh)) with (m * 2 ^ (sh + 2)) by (rewrite Z.pow_add_r by lia; change (2 ^ 2) with 4; ring).
    replace (e - sh - 2) with (e - (sh + 2)) by lia. apply qbin_shift. lia.
  - destruct (m * 2 ^ sh =? 4503599627370496) eqn:E; [right|left; reflexivity].
    split; [reflexivity|]. apply Z.eqb_eq in E. nia.
Qed.

(* Flocq's normalisation of m * 2^e to binary64 (round to nearest even; exact here) has the mantissa and exponent of [b64_frame] *)
Definition widen_agrees (bits : Z) : bool :=
  match b32_decode bits with
  | Some (sg, m, e) =>
      if m =? 0 then true else
      let '(v4, dn, e4) := b64_frame m e in
      match Binary.B2FF _ _ (Binary.binary_normalize 53 1024 eq_refl eq_refl mode_NE m e false) with
      | F754_finite false m64 e64 => (4 * Zpos m64 =? v4) && (e64 - 2 =? e4) && (if Zpos m64 =? 4503599627370496 then dn =? 1 else dn =? 2)
      | _ => false
      end
  | None => false
  end.
Lemma widen_classes : forallb (fun d => widen_agrees (C19.Model.confidence_bits d)) C19.Proofs.all_classes = true.
Proof. vm_compute. reflexivity. Qed.
Lemma widen_ok d : widen_agrees (C19.Model.confidence_bits d) = true.
Proof.
  unfold C19.Model.confidence_bits. rewrite C19.Proofs.confidence_clamp.
  pose proof widen_classes as H. rewrite forallb_forall in H.
  exact (H (C19.Proofs.clamp d) (C19.Proofs.clamp_in d)).
Qed.
Lemma widen_samples : forallb widen_agrees [1; 8388607; 8388608; 1056964608; 1065353216; 1052560588; 2139095039] = true.
Proof. vm_compute. reflexivity. Qed.
