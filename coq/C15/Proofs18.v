(* C15/Proofs18.v — the report of a well-formed state passes [fn_offsets_ok] against that state's function bases. *)
From Coq Require Import Lia.
From RM Require Import C15.Model C15.Schema C15.Consistent C15.Offsets C15.FnOffsets C15.Proofs C15.Proofs2 C15.Proofs3 C15.Proofs7 C15.Proofs14.
Open Scope Z_scope.

Lemma forall2b_map {A B : Type} (p : A -> B -> bool) (g : A -> B) l :
  (forall a, In a l -> p a (g a) = true) -> forall2b p l (map g l) = true.
Proof.
  induction l as [|a l IH]; intro H; [reflexivity|]. cbn [map forall2b].
  rewrite (H a (or_introl eq_refl)), IH; [reflexivity|]. intros b Hb. apply H. right. exact Hb.
Qed.

(* frames are numbered while they are rendered: map over combine (seq ..) *)
Lemma forall2b_map_combine {A B : Type} (p : A -> B -> bool) (g : nat -> A -> B) l : forall n,
  (forall i a, In a l -> p a (g i a) = true) ->
  forall2b p l (map (fun q => g (fst q) (snd q)) (combine (seq n (length l)) l)) = true.
Proof.
  induction l as [|a l IH]; intros n H; [reflexivity|]. cbn [length seq combine map forall2b fst snd].
  rewrite (H n a (or_introl eq_refl)), IH; [reflexivity|]. intros i b Hb. apply H. right. exact Hb.
Qed.

Lemma frame_fn_checked w i f : wf_frame f = true -> frame_fn_ok f (frame_obj w i f) = true.
Proof.
  intro Hw. unfold frame_fn_ok.
  change (jmem k_offset (frame_obj w i f)) with (jhex w (fr_instr f)).
  change (jmem k_function_offset (frame_obj w i f))
    with (match fr_function_base f with Some base => jhex w (fr_instr f - base) | None => JNull end).
  unfold wf_frame in Hw.
  destruct (fr_function_base f) as [fb|]; [|reflexivity].
  repeat (apply andb_prop in Hw; destruct Hw as [Hw ?]).
  repeat match goal with H : _ && _ = true |- _ => apply andb_prop in H; destruct H end.
  unfold u64b in *.
  repeat match goal with H : _ && _ = true |- _ => apply andb_prop in H; destruct H end.
  repeat match goal with H : (_ <=? _) = true |- _ => apply Z.leb_le in H | H : (_ <? _) = true |- _ => apply Z.ltb_lt in H end.
  destruct (hexval_addr w (fr_instr f) ltac:(lia)) as (o & Eo & Vo).
  destruct (hexval_addr w (fr_instr f - fb) ltac:(lia)) as (fo & Efo & Vfo).
  unfold jhex. rewrite Eo, Efo, Vo, Vfo.
  assert (L : (fb <=? fr_instr f) = true) by (apply Z.leb_le; lia). rewrite L, Z.eqb_refl. reflexivity.
Qed.

Lemma thread_fn_checked w t : wf_thread t = true -> thread_fn_ok t (thread_obj w t) = true.
Proof.
  intro Ht. unfold thread_fn_ok.
  change (jmem k_frames (thread_obj w t))
    with (JArr (map (fun q => frame_obj w (fst q) (snd q)) (combine (seq 0 (length (th_frames t))) (th_frames t)))).
  apply (forall2b_map_combine frame_fn_ok (frame_obj w)). intros i f Hf. apply frame_fn_checked.
  unfold wf_thread in Ht. repeat (apply andb_prop in Ht; destruct Ht as [Ht ?]).
  match goal with H : forallb wf_frame _ = true |- _ => rewrite forallb_forall in H; exact (H f Hf) end.
Qed.

Lemma report_fn_offsets s : wf_state s = true -> fn_offsets_ok s (report_obj s) = true.
Proof.
  intros Hw. pose proof (wf_state_ok s Hw) as (_ & _ & _ & Hr).
  assert (Ht : forallb wf_thread (s_threads s) = true).
  { unfold wf_state in Hw. repeat (apply andb_prop in Hw; destruct Hw as [Hw ?]). assumption. }
  set (ci := json_of_crash (s_width s) (s_crash s) (s_requesting s) (s_assertion s)).
  assert (G : forall extra, (extra = [] \/ exists c, extra = [(k_crashing_thread, c)]) ->
            fn_offsets_ok s (JObj ((k_crash_info, ci) :: extra ++ tail_obj s)) = true).
  { intros extra He. unfold fn_offsets_ok.
    assert (B : jmem k_threads (JObj ((k_crash_info, ci) :: extra ++ tail_obj s)) = JArr (map (thread_obj (s_width s)) (s_threads s))).
    { destruct He as [->|(c & ->)]; cbn [app]; reflexivity. }
    rewrite B. apply forall2b_map. intros t Hti. apply thread_fn_checked.
    rewrite forallb_forall in Ht. exact (Ht t Hti). }
  unfold report_obj. fold ci. destruct (s_requesting s) as [i|].
  - destruct (nth_error (s_threads s) i) as [t|] eqn:Et; [|exfalso; apply nth_error_None in Et; lia].
    destruct (th_frames t).
    + exact (G [] (or_introl eq_refl)).
    + exact (G [(k_crashing_thread, _)] (or_intror (ex_intro _ _ eq_refl))).
  - exact (G [] (or_introl eq_refl)).
Qed.

(* the judgement notices: an offset that is not address - base, a function_offset where the state has no function base, a missing
   function_offset, a frame too many / too few *)
