(* C15/Proofs8.v — the report of a state whose strings are Unicode scalar values consists of scalar values only. *)
From Coq Require Import Lia.
From RM Require Import C15.Model C15.Schema C15.Utf8 C15.Scalar C15.Proofs C15.Proofs2 C15.Proofs3 C15.Proofs5.
Open Scope Z_scope.

Lemma js_obj l : Forall (fun kv => sstr (fst kv) = true /\ jscalar (snd kv) = true) l -> jscalar (JObj l) = true.
Proof.
  intro H. cbn [jscalar]. apply forallb_forall. rewrite Forall_forall in H. intros [k v] Hin.
  destruct (H _ Hin) as [A B]. cbn [fst snd] in *. unfold sstr in A. rewrite A, B. reflexivity.
Qed.
Lemma js_arr_map {A} (f : A -> json) l : (forall a, In a l -> jscalar (f a) = true) -> jscalar (JArr (map f l)) = true.
Proof.
  intro H. cbn [jscalar]. apply forallb_forall. intros v Hv. apply in_map_iff in Hv. destruct Hv as (a & <- & Ha). exact (H a Ha).
Qed.
Lemma js_arr_or_null {A} (f : A -> json) l : (forall a, In a l -> jscalar (f a) = true) ->
  jscalar (match l with [] => JNull | a :: r => JArr (map f (a :: r)) end) = true.
Proof. intro H. destruct l; [reflexivity|]. apply js_arr_map. exact H. Qed.
Lemma js_ostr o : sostr o = true -> jscalar (jopt JStr o) = true.
Proof. destruct o; intro H; [exact H|reflexivity]. Qed.
Lemma js_onum o : jscalar (jopt JNum o) = true.
Proof. destruct o; reflexivity. Qed.

Lemma strip0_scalar : forall l, forallb scalar l = true -> forallb scalar (strip0 l) = true.
Proof.
  induction l as [|c t IH]; intro H; [reflexivity|]. cbn [forallb] in H. apply andb_prop in H. destruct H as [Hc Ht].
  destruct t as [|c2 t2].
  - replace (strip0 [c]) with [c]; [cbn [forallb]; rewrite Hc; reflexivity|].
    destruct c as [|q|q]; try reflexivity. repeat (destruct q as [q|q|]; try reflexivity).
  - assert (D : strip0 (c :: c2 :: t2) = (if c =? 48 then strip0 (c2 :: t2) else c :: c2 :: t2)).
    { destruct (c =? 48) eqn:E0; [apply Z.eqb_eq in E0; subst c; reflexivity|].
      cbn [strip0]. destruct c as [|q|q]; try reflexivity. repeat (destruct q as [q|q|]; try reflexivity). discriminate E0. }
    rewrite D. destruct (c =? 48); [apply IH; exact Ht|]. cbn [forallb] in *. rewrite Hc. exact Ht.
Qed.
Lemma addr_scalar w x : forallb scalar (address_str w x) = true.
Proof.
  unfold address_str. cbn [forallb]. change (scalar 48) with true. change (scalar 120) with true. cbn [andb].
  destruct w; try apply hex_fixed_scalar. destruct (x <? two32); [apply hex_fixed_scalar|apply strip0_scalar, hex_fixed_scalar].
Qed.
Lemma js_hex w x : jscalar (jhex w x) = true.
Proof. apply addr_scalar. Qed.
Lemma js_ohex w o : jscalar (jopt (jhex w) o) = true.
Proof. destruct o; [apply js_hex|reflexivity]. Qed.

Lemma basename_aux_scalar : forall s acc, forallb scalar s = true -> forallb scalar acc = true -> forallb scalar (basename_aux s acc) = true.
Proof.
  induction s as [|c t IH]; intros acc Hs Ha; [exact Ha|]. cbn [forallb] in Hs. apply andb_prop in Hs. destruct Hs as [_ Ht].
  cbn [basename_aux]. destruct ((c =? 47) || (c =? 92)); apply IH; assumption.
Qed.
Lemma basename_scalar s : forallb scalar s = true -> forallb scalar (basename s) = true.
Proof. intro H. apply basename_aux_scalar; exact H. Qed.

Lemma lookup_scalar k (l : list (list Z * list Z)) : forallb (fun e : list Z * list Z => sstr (snd e)) l = true -> sostr (lookup k l) = true.
Proof.
  induction l as [|[k' v] t IH]; intro H; [reflexivity|]. cbn [forallb snd] in H. apply andb_prop in H. destruct H as [Hv Ht].
  cbn [lookup]. destruct (list_eqb k k'); [exact Hv|apply IH; exact Ht].
Qed.

Lemma nth_name_scalar tbl i : forallb sstr tbl = true -> forallb scalar (nth_name tbl i) = true.
Proof.
  intro H. unfold nth_name. destruct (nth_in_or_default (Z.to_nat i) tbl []) as [Hin|E]; [|rewrite E; reflexivity].
  rewrite forallb_forall in H. exact (H _ Hin).
Qed.
Lemma trust_scalar i : forallb scalar (trust_name i) = true.
Proof. apply nth_name_scalar. vm_compute. reflexivity. Qed.
Lemma access_scalar i : forallb scalar (access_name i) = true.
Proof. apply nth_name_scalar. vm_compute. reflexivity. Qed.
Lemma incons_scalar i : forallb scalar (inconsistency_name i) = true.
Proof. apply nth_name_scalar. vm_compute. reflexivity. Qed.
Lemma cpu_scalar i : forallb scalar (cpu_name i) = true.
Proof. apply nth_name_scalar. vm_compute. reflexivity. Qed.
Lemma os_scalar i raw : forallb scalar (os_name i raw) = true.
Proof.
  unfold os_name. destruct (i =? 8); [|apply nth_name_scalar; vm_compute; reflexivity].
  cbn [forallb]. change (scalar 48) with true. change (scalar 120) with true. cbn [andb].
  destruct (raw <? 16777216); [apply hex_fixed_scalar|apply strip0_scalar, hex_fixed_scalar].
Qed.

Ltac splitb' :=
  repeat match goal with
         | H : _ && _ = true |- _ => apply andb_prop in H; destruct H
         end.
Ltac sobj := apply js_obj; repeat (apply Forall_cons || apply Forall_nil); cbn [fst snd]; (split; [reflexivity|]).
Ltac sleaf := first [ reflexivity | apply js_onum | apply js_hex | apply js_ohex | (apply js_ostr; assumption) | assumption ].

Lemma inline_scalar i : sc_inline i = true -> jscalar (json_of_inline i) = true.
Proof. unfold sc_inline. intro H. splitb'. unfold json_of_inline. sobj; try sleaf. Qed.

Lemma frame_scalar w idx f : sc_frame f = true -> jscalar (frame_obj w idx f) = true.
Proof.
  unfold sc_frame. intro H. splitb'. unfold frame_obj. sobj; try sleaf.
  - destruct (fr_function_base f); sleaf.
  - apply js_arr_or_null. intros i Hi. apply inline_scalar.
    match goal with H : forallb sc_inline _ = true |- _ => rewrite forallb_forall in H; exact (H i Hi) end.
  - destruct (fr_module f) as [[nm b]|]; [|reflexivity]. cbn [jopt jscalar fst] in *. apply basename_scalar. assumption.
  - destruct (fr_module f) as [[nm b]|]; sleaf.
  - apply trust_scalar.
  - apply js_arr_or_null. intros e He. sobj.
    + match goal with H : forallb _ (fr_unloaded f) = true |- _ => rewrite forallb_forall in H; exact (H e He) end.
    + apply js_arr_map. intros; apply js_hex.
Qed.

Lemma frames_scalar w l : forallb sc_frame l = true -> forall idx,
  forallb jscalar (map (fun q => frame_obj w (fst q) (snd q)) (combine (seq idx (length l)) l)) = true.
Proof.
  induction l as [|f t IH]; intros H idx; [reflexivity|]. cbn [forallb] in H. splitb'.
  cbn [length seq combine map fst snd forallb]. rewrite frame_scalar by assumption. apply IH. assumption.
Qed.

Lemma thread_scalar w t : sc_thread t = true -> jscalar (thread_obj w t) = true.
Proof.
  unfold sc_thread. intro H. splitb'. unfold thread_obj. sobj; try sleaf. cbn [jscalar]. apply frames_scalar. assumption.
Qed.

Lemma registers_scalar regs : forallb (fun r : list Z * Z * nat => sstr (fst (fst r))) regs = true -> jscalar (json_registers regs) = true.
Proof.
  intro H. unfold json_registers. cbn [jscalar]. apply forallb_forall. intros [k v] Hin. apply in_map_iff in Hin.
  destruct Hin as (r & E & Hr). inversion E; subst. rewrite forallb_forall in H. specialize (H r Hr). unfold sstr in H. rewrite H.
  cbn [jscalar forallb]. change (scalar 48) with true. change (scalar 120) with true. cbn [andb]. apply hex_fixed_scalar.
Qed.

Lemma cthread_scalar w t i regs : sc_thread t = true -> jscalar regs = true ->
  jscalar (crashing_copy regs i (thread_obj w t)) = true.
Proof.
  unfold sc_thread. intros H Hr. splitb'. unfold thread_obj.
  destruct (th_frames t) as [|f0 fs] eqn:E.
  - cbn [length seq combine map crashing_copy]. sobj; sleaf.
  - cbn [length seq combine map fst snd crashing_copy].
    match goal with H : forallb sc_frame (_ :: _) = true |- _ => cbn [forallb] in H end. splitb'.
    sobj; try sleaf. cbn [jscalar forallb]. apply andb_true_iff. split; [|apply frames_scalar; assumption].
    pose proof (frame_scalar w 0 f0 ltac:(assumption)) as F. unfold frame_obj in *. cbn [add_registers firstn skipn app].
    cbn [jscalar forallb] in F |- *. splitb'. unfold sstr in *.
    repeat (apply andb_true_iff; split); try assumption; try reflexivity.
Qed.

Lemma module_scalar w certs stats m : sc_module m = true ->
  forallb (fun e : list Z * list Z => sstr (snd e)) certs = true -> forallb sc_stat stats = true ->
  jscalar (mod_obj w certs stats m) = true.
Proof.
  unfold sc_module. intros H Hc Hs. splitb'. unfold mod_obj. cbv zeta.
  assert (St : sc_stat (basename (m_file m), match lookup (basename (m_file m)) stats with Some s => s | None => default_stat end) = true).
  { clear -Hs. induction stats as [|[k v] t IH]; [reflexivity|]. cbn [forallb] in Hs. apply andb_prop in Hs. destruct Hs as [Hv Ht].
    cbn [lookup]. destruct (list_eqb (basename (m_file m)) k); [exact Hv|apply IH; exact Ht]. }
  unfold sc_stat in St. cbn [snd] in St. splitb'.
  sobj; try sleaf.
  - apply js_ostr. apply lookup_scalar. exact Hc.
  - cbn [jscalar]. apply basename_scalar.
    destruct (ss_extra _) as [[a b]|]; [cbn [fst snd] in *; splitb'; assumption|assumption].
  - cbn [jscalar]. destruct (ss_extra _) as [[a b]|]; [cbn [fst snd] in *; splitb'; assumption|assumption].
  - cbn [jscalar]. apply basename_scalar. assumption.
Qed.

Lemma unloaded_scalar w certs m : sc_module m = true ->
  forallb (fun e : list Z * list Z => sstr (snd e)) certs = true -> jscalar (unl_obj w certs m) = true.
Proof.
  unfold sc_module. intros H Hc. splitb'. unfold unl_obj. sobj; try sleaf. apply js_ostr. apply lookup_scalar. exact Hc.
Qed.

Lemma crash_scalar w c req a : match c with Some c => sc_crash c = true | None => True end -> sostr a = true ->
  jscalar (json_of_crash w c req a) = true.
Proof.
  intros Hc Ha. unfold json_of_crash. sobj; try sleaf.
  - destruct c; sleaf.
  - destruct c as [c|]; [|reflexivity]. destruct (cr_adjusted c) as [[x|x]|]; [| |reflexivity]; sobj; sleaf.
  - destruct c as [c|]; [|reflexivity]. cbn [jopt]. apply js_arr_map. intros; apply incons_scalar.
  - destruct req; reflexivity.
  - destruct c as [c|]; [|reflexivity]. unfold sc_crash in Hc. splitb'. apply js_ostr. assumption.
  - destruct c as [c|]; [|reflexivity]. destruct (cr_ipu c) as [[|x g]|]; try reflexivity. destruct g; sobj; sleaf.
  - destruct c as [c|]; [|reflexivity]. destruct (cr_accesses c) as [l|]; [|reflexivity]. cbn [jopt]. apply js_arr_map.
    intros x _. unfold json_of_access. apply js_obj. repeat (apply Forall_app; split); repeat (apply Forall_cons || apply Forall_nil);
      cbn [fst snd]; try (split; [reflexivity|]); try sleaf.
    + destruct (a_type x <? 3); repeat (apply Forall_cons || apply Forall_nil). cbn [fst snd]. split; [reflexivity|apply access_scalar].
    + destruct (a_guard x); repeat (apply Forall_cons || apply Forall_nil). cbn [fst snd]. split; reflexivity.
  - destruct c as [c|]; [|reflexivity]. unfold sc_crash in Hc. splitb'. apply js_arr_or_null. intros b Hb. unfold json_of_flip.
    sobj; try sleaf. apply js_ostr.
    match goal with H : forallb _ (cr_flips c) = true |- _ => rewrite forallb_forall in H; exact (H b Hb) end.
  - destruct c as [c|]; [|reflexivity]. unfold sc_crash in Hc. splitb'. assumption.
Qed.

Lemma sys_scalar y : sc_sys y = true -> jscalar (json_of_sys y) = true.
Proof.
  unfold sc_sys. intro H. splitb'. unfold json_of_sys. sobj; try sleaf.
  - apply cpu_scalar.
  - destruct (sy_microcode y) as [n|]; [|reflexivity]. cbn [jopt jscalar forallb]. change (scalar 48) with true. change (scalar 120) with true.
    cbn [andb]. apply strip0_scalar, hex_fixed_scalar.
  - apply os_scalar.
Qed.

Lemma limit_scalar l : sc_limit l = true -> jscalar (json_of_limit l) = true.
Proof.
  unfold sc_limit. intro H. splitb'. unfold json_of_limit. sobj; try sleaf.
  - destruct (li_hard l); reflexivity.
  - destruct (li_soft l); reflexivity.
Qed.
Lemma macrec_scalar w r : sc_macrec r = true -> jscalar (json_of_macrec w r) = true.
Proof. unfold sc_macrec. intro H. splitb'. unfold json_of_macrec. sobj; sleaf. Qed.
Lemma handle_scalar h : sc_handle h = true -> jscalar (json_of_handle h) = true.
Proof. unfold sc_handle. intro H. splitb'. unfold json_of_handle. sobj; sleaf. Qed.

Lemma soft_scalar o : match o with Some v => jscalar v = true | None => True end -> jscalar (soft_value o) = true.
Proof. destruct o as [v|]; [|reflexivity]. intro H. unfold soft_value. destruct (soft_ok v); [exact H|reflexivity]. Qed.

Lemma tail_scalar s : state_scalar s = true ->
  Forall (fun kv => sstr (fst kv) = true /\ jscalar (snd kv) = true) (tail_obj s).
Proof.
  unfold state_scalar. intro H. splitb'. unfold tail_obj. cbv zeta.
  repeat (apply Forall_cons || apply Forall_nil); cbn [fst snd]; (split; [reflexivity|]); try sleaf.
  - destruct (s_handles s) as [l|]; [|reflexivity]. cbn [jopt]. apply js_arr_map. intros h Hh. apply handle_scalar.
    match goal with H : forallb sc_handle l = true |- _ => rewrite forallb_forall in H; exact (H h Hh) end.
  - destruct (s_lsb s) as [[[[i r] c] d]|]; [|reflexivity]. cbn [jopt]. splitb'. sobj; sleaf.
  - destruct (s_mac_crash s) as [l|]; [|reflexivity]. cbn [jopt]. sobj; try sleaf. apply js_arr_map. intros r Hr. apply macrec_scalar.
    match goal with H : forallb sc_macrec l = true |- _ => rewrite forallb_forall in H; exact (H r Hr) end.
  - apply js_arr_map. intros m Hm. apply module_scalar; try assumption.
    match goal with H : forallb sc_module (s_modules s) = true |- _ => rewrite forallb_forall in H; exact (H m Hm) end.
  - destruct (s_limits s) as [l|]; [|reflexivity]. cbn [jopt]. sobj. apply js_arr_map. intros x Hx. apply In_sort in Hx. apply limit_scalar.
    match goal with H : forallb sc_limit l = true |- _ => rewrite forallb_forall in H; exact (H x Hx) end.
  - apply soft_scalar. destruct (s_soft s); [assumption|exact I].
  - apply sys_scalar. assumption.
  - apply js_arr_map. intros t Ht. apply thread_scalar.
    match goal with H : forallb sc_thread _ = true |- _ => rewrite forallb_forall in H; exact (H t Ht) end.
  - apply js_arr_map. intros m Hm. apply unloaded_scalar; try assumption.
    match goal with H : forallb sc_module (s_unloaded s) = true |- _ => rewrite forallb_forall in H; exact (H m Hm) end.
Qed.

Lemma report_scalar s : state_scalar s = true -> jscalar (report_obj s) = true.
Proof.
  intro Hs. pose proof (tail_scalar s Hs) as T. unfold state_scalar in Hs. splitb'.
  assert (Hci : sstr k_crash_info = true /\
                jscalar (json_of_crash (s_width s) (s_crash s) (s_requesting s) (s_assertion s)) = true).
  { split; [reflexivity|]. apply crash_scalar; [destruct (s_crash s); [assumption|exact I]|assumption]. }
  unfold report_obj. destruct (s_requesting s) as [i|].
  - destruct (nth_error (s_threads s) i) as [t|] eqn:Et; [|reflexivity].
    destruct (th_frames t) as [|f0 fs] eqn:Ef.
    + apply js_obj. constructor; [exact Hci|exact T].
    + apply js_obj. constructor; [exact Hci|]. constructor; [|exact T]. cbn [fst snd]. split; [reflexivity|].
      apply cthread_scalar; [|apply registers_scalar; assumption].
      match goal with H : forallb sc_thread _ = true |- _ => rewrite forallb_forall in H; apply H end. eapply nth_error_In; exact Et.
  - apply js_obj. constructor; [exact Hci|exact T].
Qed.
