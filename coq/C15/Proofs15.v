(* C15/Proofs15.v — every object of the report lists its members in strictly increasing order of the names. *)
From Coq Require Import Lia.
From RM Require Import C15.Model C15.Schema C15.KeyOrder C15.Proofs C15.Proofs2 C15.Proofs3.
Open Scope Z_scope.

Lemma ks_obj l : sorted_strict (map fst l) = true -> Forall (fun kv => keys_sorted (snd kv) = true) l -> keys_sorted (JObj l) = true.
Proof.
  intros S H. cbn [keys_sorted]. rewrite S. apply forallb_forall. rewrite Forall_forall in H. intros kv Hin. exact (H kv Hin).
Qed.
Lemma ks_arr_map {A} (f : A -> json) l : (forall a, In a l -> keys_sorted (f a) = true) -> keys_sorted (JArr (map f l)) = true.
Proof.
  intro H. cbn [keys_sorted]. apply forallb_forall. intros v Hv. apply in_map_iff in Hv. destruct Hv as (a & <- & Ha). exact (H a Ha).
Qed.
Lemma ks_arr_or_null {A} (f : A -> json) l : (forall a, In a l -> keys_sorted (f a) = true) ->
  keys_sorted (match l with [] => JNull | a :: r => JArr (map f (a :: r)) end) = true.
Proof. intro H. destruct l; [reflexivity|]. apply ks_arr_map. exact H. Qed.
Lemma ks_ostr o : keys_sorted (jopt JStr o) = true. Proof. destruct o; reflexivity. Qed.
Lemma ks_onum o : keys_sorted (jopt JNum o) = true. Proof. destruct o; reflexivity. Qed.
Lemma ks_ohex w o : keys_sorted (jopt (jhex w) o) = true. Proof. destruct o; reflexivity. Qed.

Ltac kobj := apply ks_obj; [reflexivity | repeat (apply Forall_cons || apply Forall_nil); cbn [snd]].
Ltac kleaf := first [ reflexivity | apply ks_ostr | apply ks_onum | apply ks_ohex ].

Lemma frame_ks w idx f : keys_sorted (frame_obj w idx f) = true.
Proof.
  unfold frame_obj. kobj; try kleaf.
  - destruct (fr_function_base f); reflexivity.
  - apply ks_arr_or_null. intros i _. unfold json_of_inline. kobj; kleaf.
  - destruct (fr_module f); reflexivity.
  - destruct (fr_module f) as [[nm b]|]; reflexivity.
  - apply ks_arr_or_null. intros e _. kobj; try kleaf. apply ks_arr_map. intros; reflexivity.
Qed.
Lemma frames_ks w l : forall idx, forallb keys_sorted (map (fun q => frame_obj w (fst q) (snd q)) (combine (seq idx (length l)) l)) = true.
Proof.
  induction l as [|f t IH]; intro idx; [reflexivity|]. cbn [length seq combine map fst snd forallb]. rewrite frame_ks. apply IH.
Qed.
Lemma thread_ks w t : keys_sorted (thread_obj w t) = true.
Proof. unfold thread_obj. kobj; try kleaf. cbn [keys_sorted]. apply frames_ks. Qed.

Lemma registers_ks regs : sorted_strict (map (fun r : list Z * Z * nat => fst (fst r)) regs) = true -> keys_sorted (json_registers regs) = true.
Proof.
  intro H. unfold json_registers. apply ks_obj.
  - rewrite map_map. cbn [fst]. exact H.
  - apply Forall_forall. intros kv Hin. apply in_map_iff in Hin. destruct Hin as (r & <- & _). reflexivity.
Qed.

Lemma cthread_ks w t i regs : keys_sorted regs = true -> keys_sorted (crashing_copy regs i (thread_obj w t)) = true.
Proof.
  intro Hr. unfold thread_obj. destruct (th_frames t) as [|f0 fs] eqn:E.
  - cbn [length seq combine map crashing_copy]. kobj; kleaf.
  - cbn [length seq combine map fst snd crashing_copy]. kobj; try kleaf.
    cbn [keys_sorted forallb]. apply andb_true_iff. split; [|apply frames_ks].
    pose proof (frame_ks w 0 f0) as F. unfold frame_obj in *. cbn [add_registers firstn skipn app].
    cbn [keys_sorted map fst snd forallb] in F |- *.
    apply andb_prop in F. destruct F as [_ F]. repeat (apply andb_prop in F; destruct F as [? F]).
    apply andb_true_iff. split; [reflexivity|].
    repeat (apply andb_true_iff; split); try assumption; try reflexivity.
Qed.

Lemma module_ks w certs stats m : keys_sorted (mod_obj w certs stats m) = true.
Proof. unfold mod_obj. cbv zeta. kobj; kleaf. Qed.
Lemma unloaded_ks w certs m : keys_sorted (unl_obj w certs m) = true.
Proof. unfold unl_obj. kobj; kleaf. Qed.

Lemma access_ks w a : keys_sorted (json_of_access w a) = true.
Proof.
  unfold json_of_access. destruct (a_type a <? 3), (a_guard a); cbn [app]; kobj; kleaf.
Qed.
Lemma crash_ks w c req a : keys_sorted (json_of_crash w c req a) = true.
Proof.
  unfold json_of_crash. kobj; try kleaf.
  - destruct c; reflexivity.
  - destruct c as [c|]; [|reflexivity]. destruct (cr_adjusted c) as [[x|x]|]; reflexivity.
  - destruct c as [c|]; [|reflexivity]. cbn [jopt]. apply ks_arr_map. intros; reflexivity.
  - destruct req; reflexivity.
  - destruct c as [c|]; [|reflexivity]. apply ks_ostr.
  - destruct c as [c|]; [|reflexivity]. destruct (cr_ipu c) as [[|x g]|]; try reflexivity. destruct g; reflexivity.
  - destruct c as [c|]; [|reflexivity]. destruct (cr_accesses c) as [l|]; [|reflexivity]. cbn [jopt]. apply ks_arr_map. intros; apply access_ks.
  - destruct c as [c|]; [|reflexivity]. apply ks_arr_or_null. intros b _. unfold json_of_flip. kobj; kleaf.
  - destruct c; reflexivity.
Qed.
Lemma sys_ks y : keys_sorted (json_of_sys y) = true.
Proof. unfold json_of_sys. kobj; try kleaf. destruct (sy_microcode y); reflexivity. Qed.
Lemma limit_ks l : keys_sorted (json_of_limit l) = true.
Proof. unfold json_of_limit. kobj; try kleaf; [destruct (li_hard l)|destruct (li_soft l)]; reflexivity. Qed.
Lemma macrec_ks w r : keys_sorted (json_of_macrec w r) = true.
Proof. unfold json_of_macrec. kobj; kleaf. Qed.
Lemma handle_ks h : keys_sorted (json_of_handle h) = true.
Proof. unfold json_of_handle. kobj; kleaf. Qed.
Lemma soft_ks o : match o with Some v => keys_sorted v = true | None => True end -> keys_sorted (soft_value o) = true.
Proof. destruct o as [v|]; [|reflexivity]. intro H. unfold soft_value. destruct (soft_ok v); [exact H|reflexivity]. Qed.

Lemma tail_ks s : match s_soft s with Some v => keys_sorted v = true | None => True end ->
  Forall (fun kv => keys_sorted (snd kv) = true) (tail_obj s).
Proof.
  intro Hs. unfold tail_obj. cbv zeta.
  repeat (apply Forall_cons || apply Forall_nil); cbn [snd]; try kleaf.
  - destruct (s_handles s) as [l|]; [|reflexivity]. cbn [jopt]. apply ks_arr_map. intros; apply handle_ks.
  - destruct (s_lsb s) as [[[[i r] c] d]|]; [|reflexivity]. reflexivity.
  - destruct (s_mac_crash s) as [l|]; [|reflexivity]. cbn [jopt]. kobj; try kleaf. apply ks_arr_map. intros; apply macrec_ks.
  - apply ks_arr_map. intros; apply module_ks.
  - destruct (s_limits s) as [l|]; [|reflexivity]. cbn [jopt]. kobj. apply ks_arr_map. intros; apply limit_ks.
  - apply soft_ks. exact Hs.
  - apply sys_ks.
  - apply ks_arr_map. intros; apply thread_ks.
  - apply ks_arr_map. intros; apply unloaded_ks.
Qed.

Lemma report_keys_sorted s : keys_hyp s = true -> keys_sorted (report_obj s) = true.
Proof.
  unfold keys_hyp. intro H. apply andb_prop in H. destruct H as [Hr Hs].
  assert (Hs' : match s_soft s with Some v => keys_sorted v = true | None => True end) by (destruct (s_soft s); [exact Hs|exact I]).
  pose proof (tail_ks s Hs') as T.
  assert (ST : sorted_strict (map fst (tail_obj s)) = true) by reflexivity.
  unfold report_obj. destruct (s_requesting s) as [i|].
  - destruct (nth_error (s_threads s) i) as [t|]; [|reflexivity].
    destruct (th_frames t).
    + apply ks_obj; [reflexivity|]. constructor; [apply crash_ks|exact T].
    + apply ks_obj; [reflexivity|]. constructor; [apply crash_ks|]. constructor; [|exact T]. cbn [snd].
      apply cthread_ks. apply registers_ks. exact Hr.
  - apply ks_obj; [reflexivity|]. constructor; [apply crash_ks|exact T].
Qed.
