(* C15/Proofs6.v — print_json(pretty = true): the pretty rendering (and the compact one) of every JSON value is accepted by
   the whitespace-tolerant RFC 8259 parser [parse_ws] and parses back to exactly that value; the compact layout of the
   parametrised serialiser is [serialise]; the pretty rendering consists of scalar values when the value does. *)
From Coq Require Import Lia.
From RM Require Import C15.Model C15.Pretty C15.Utf8 C15.Proofs C15.Proofs5.
Open Scope Z_scope.

Definition ws_layout (L : layout) : Prop :=
  (forall d, forallb is_ws (lo_open L d) = true) /\ (forall d, forallb is_ws (lo_comma L d) = true) /\
  (forall d, forallb is_ws (lo_close L d) = true) /\ forallb is_ws (lo_colon L) = true.

Lemma skip_ws_app w s : forallb is_ws w = true -> skip_ws (w ++ s) = skip_ws s.
Proof.
  induction w as [|c t IH]; intro H; [reflexivity|]. cbn [forallb] in H. apply andb_prop in H. destruct H as [Hc Ht].
  cbn [app skip_ws]. rewrite Hc. apply IH. exact Ht.
Qed.
Lemma skip_ws_head c r : is_ws c = false -> skip_ws (c :: r) = c :: r.
Proof. intro H. cbn [skip_ws]. rewrite H. reflexivity. Qed.

Lemma is_ws_small c : is_ws c = true -> c < 48.
Proof.
  unfold is_ws. intro H. repeat (apply orb_prop in H; destruct H as [H|H]); apply Z.eqb_eq in H; lia.
Qed.
Lemma not_ws c : c <> 32 -> c <> 10 -> c <> 13 -> c <> 9 -> is_ws c = false.
Proof. intros A B C D. unfold is_ws. apply Z.eqb_neq in A, B, C, D. rewrite A, B, C, D. reflexivity. Qed.

Lemma nodigit_ws w c r : forallb is_ws w = true -> (c <? 48) || (57 <? c) = true -> nodigit (w ++ c :: r).
Proof.
  destruct w as [|x t]; intros Hw Hc; [exact Hc|]. cbn [forallb] in Hw. apply andb_prop in Hw. destruct Hw as [Hx _].
  cbn [app nodigit]. apply is_ws_small in Hx. apply orb_true_iff. left. apply Z.ltb_lt. exact Hx.
Qed.

Lemma pw_val_ws fuel w s : forallb is_ws w = true -> pw_val fuel (w ++ s) = pw_val fuel s.
Proof. intro H. destruct fuel as [|f]; [reflexivity|]. cbn [pw_val]. rewrite (skip_ws_app w s H). reflexivity. Qed.
Lemma pw_elems_ws fuel w s : forallb is_ws w = true -> pw_elems fuel (w ++ s) = pw_elems fuel s.
Proof. intro H. destruct fuel as [|f]; [reflexivity|]. cbn [pw_elems]. rewrite (pw_val_ws f w s H). reflexivity. Qed.
Lemma pw_members_ws fuel w s : forallb is_ws w = true -> pw_members fuel (w ++ s) = pw_members fuel s.
Proof. intro H. destruct fuel as [|f]; [reflexivity|]. cbn [pw_members]. rewrite (skip_ws_app w s H). reflexivity. Qed.

(* the first character of a rendering is not whitespace and not a closing bracket *)
Lemma ser_lo_head L d v : exists c t, ser_lo L d v = c :: t /\ is_ws c = false /\ c <> 93 /\ c <> 125.
Proof.
  destruct v as [|[|]|n|s|l|l]; cbn [ser_lo serialise];
    try (eexists; eexists; split; [reflexivity|split; [reflexivity|split; discriminate]]).
  - unfold ser_num. destruct (n <? 0); [eexists; eexists; split; [reflexivity|split; [reflexivity|split; discriminate]]|].
    destruct (dec_head n) as (c & t & H & Hc). rewrite H. exists c, t. split; [reflexivity|].
    split; [apply not_ws; lia|split; lia].
  - destruct l; eexists; eexists; (split; [reflexivity|split; [reflexivity|split; discriminate]]).
  - destruct l; eexists; eexists; (split; [reflexivity|split; [reflexivity|split; discriminate]]).
Qed.

Section RoundTrip.
  Variable L : layout.
  Hypothesis HL : ws_layout L.

  Definition rtw (v : json) : Prop :=
    forall d fuel rest, (size v <= fuel)%nat -> nodigit rest -> pw_val fuel (ser_lo L d v ++ rest) = Some (v, rest).

  Lemma elems_rtw l : Forall rtw l -> l <> [] ->
    forall d fuel rest, (list_sum (map (fun x => S (size x)) l) <= fuel)%nat ->
    pw_elems fuel (lo_elems L (ser_lo L (S d)) d l ++ rest) = Some (l, rest).
  Proof.
    destruct HL as (_ & Hcomma & Hclose & _).
    induction l as [|x t IH]; intros HF Hne d fuel rest Hfuel; [contradiction|].
    inversion HF as [|? ? Hx Ht]; subst. cbn [map] in Hfuel. rewrite lsum_cons in Hfuel.
    destruct fuel as [|f]; [lia|]. cbn [lo_elems]. rewrite <- app_assoc. cbn [pw_elems].
    destruct t as [|y t'].
    - rewrite <- app_assoc. rewrite (Hx (S d) f (lo_close L d ++ [93] ++ rest)); [|lia|apply nodigit_ws; [apply Hclose|reflexivity]].
      rewrite skip_ws_app by apply Hclose. cbn [app]. rewrite skip_ws_head by reflexivity. reflexivity.
    - cbn [app]. rewrite (Hx (S d) f (44 :: (lo_comma L d ++ lo_elems L (ser_lo L (S d)) d (y :: t')) ++ rest));
        [|lia|apply nodigit_cons; reflexivity].
      rewrite skip_ws_head by reflexivity. change (44 =? 44) with true. cbn iota.
      rewrite <- app_assoc. rewrite pw_elems_ws by apply Hcomma.
      assert (Hf2 : (list_sum (map (fun x => S (size x)) (y :: t')) <= f)%nat) by lia.
      assert (Hn2 : y :: t' <> []) by discriminate.
      rewrite (IH Ht Hn2 d f rest Hf2). reflexivity.
  Qed.

  Lemma members_rtw l : Forall (fun kv => rtw (snd kv)) l -> l <> [] ->
    forall d fuel rest, (list_sum (map (fun kv => S (size (snd kv))) l) <= fuel)%nat ->
    pw_members fuel (lo_members L (ser_lo L (S d)) d l ++ rest) = Some (l, rest).
  Proof.
    destruct HL as (_ & Hcomma & Hclose & Hcolon).
    induction l as [|[k x] t IH]; intros HF Hne d fuel rest Hfuel; [contradiction|].
    inversion HF as [|? ? Hx Ht]; subst. cbn [map snd] in Hfuel. rewrite lsum_cons in Hfuel. cbn [snd] in Hx.
    destruct fuel as [|f]; [lia|]. cbn [lo_members]. unfold ser_str at 1.
    cbn [app pw_members]. rewrite skip_ws_head by reflexivity. change (34 =? 34) with true. cbn iota.
    rewrite <- !app_assoc. rewrite parse_ser_str. cbn [app]. rewrite skip_ws_head by reflexivity.
    change (58 =? 58) with true. cbn iota.
    rewrite <- !app_assoc. rewrite pw_val_ws by exact Hcolon.
    destruct t as [|y t'].
    - rewrite <- app_assoc. rewrite (Hx (S d) f (lo_close L d ++ [125] ++ rest)); [|lia|apply nodigit_ws; [apply Hclose|reflexivity]].
      rewrite skip_ws_app by apply Hclose. cbn [app]. rewrite skip_ws_head by reflexivity. reflexivity.
    - cbn [app]. rewrite (Hx (S d) f (44 :: (lo_comma L d ++ lo_members L (ser_lo L (S d)) d (y :: t')) ++ rest));
        [|lia|apply nodigit_cons; reflexivity].
      rewrite skip_ws_head by reflexivity. change (44 =? 44) with true. cbn iota.
      rewrite <- app_assoc. rewrite pw_members_ws by apply Hcomma.
      assert (Hf2 : (list_sum (map (fun kv => S (size (snd kv))) (y :: t')) <= f)%nat) by lia.
      assert (Hn2 : y :: t' <> []) by discriminate.
      rewrite (IH Ht Hn2 d f rest Hf2). reflexivity.
  Qed.

  Lemma pw_val_rt : forall v, rtw v.
  Proof.
    destruct HL as (Hopen & _ & _ & _).
    apply json_ind'; unfold rtw.
    - intros d fuel rest Hf _. destruct fuel; [cbn in Hf; lia|]. reflexivity.
    - intros [|] d fuel rest Hf _; (destruct fuel; [cbn in Hf; lia|]); reflexivity.
    - (* numbers *)
      intros n d fuel rest Hf Hr. destruct fuel as [|f]; [cbn in Hf; lia|]. cbn [ser_lo serialise]. unfold ser_num.
      destruct (n <? 0) eqn:En.
      + apply Z.ltb_lt in En. cbn [app pw_val]. rewrite skip_ws_head by reflexivity.
        change (45 =? 110) with false. change (45 =? 116) with false.
        change (45 =? 102) with false. change (45 =? 34) with false. change (45 =? 91) with false.
        change (45 =? 123) with false. change (45 =? 45) with true. cbn iota.
        rewrite parse_nat_rt by (try lia; exact Hr).
        assert (E : (- n =? 0) = false) by (apply Z.eqb_neq; lia). rewrite E, Z.opp_involutive. reflexivity.
      + apply Z.ltb_ge in En. destruct (dec_head n) as (c & t & Hd & Hc).
        pose proof (parse_nat_rt n rest En Hr) as Hp. rewrite Hd in *. cbn [app] in *. cbn [pw_val].
        rewrite skip_ws_head by (apply not_ws; lia).
        assert (E1 : (c =? 110) = false) by (apply Z.eqb_neq; lia).
        assert (E2 : (c =? 116) = false) by (apply Z.eqb_neq; lia).
        assert (E3 : (c =? 102) = false) by (apply Z.eqb_neq; lia).
        assert (E4 : (c =? 34) = false) by (apply Z.eqb_neq; lia).
        assert (E5 : (c =? 91) = false) by (apply Z.eqb_neq; lia).
        assert (E6 : (c =? 123) = false) by (apply Z.eqb_neq; lia).
        assert (E7 : (c =? 45) = false) by (apply Z.eqb_neq; lia).
        rewrite E1, E2, E3, E4, E5, E6, E7, Hp. reflexivity.
    - (* strings *)
      intros s d fuel rest Hf _. destruct fuel as [|f]; [cbn in Hf; lia|]. cbn [ser_lo serialise]. unfold ser_str.
      cbn [app pw_val]. rewrite skip_ws_head by reflexivity.
      change (34 =? 110) with false. change (34 =? 116) with false.
      change (34 =? 102) with false. change (34 =? 34) with true. cbn iota.
      rewrite <- app_assoc, parse_ser_str. reflexivity.
    - (* arrays *)
      intros l HF d fuel rest Hf _. destruct fuel as [|f]; [cbn in Hf; lia|]. cbn [size] in Hf.
      destruct l as [|x t]; [reflexivity|].
      cbn [ser_lo].
      assert (Hh : exists c2 r', lo_elems L (ser_lo L (S d)) d (x :: t) ++ rest = c2 :: r' /\ is_ws c2 = false /\ c2 <> 93).
      { cbn [lo_elems]. destruct (ser_lo_head L (S d) x) as (c & tl & Hs & Hw & Hne & _). rewrite Hs. cbn [app]. eauto. }
      destruct Hh as (c2 & r' & Hr & Hw & Hne).
      cbn [app pw_val]. rewrite skip_ws_head by reflexivity.
      change (91 =? 110) with false. change (91 =? 116) with false.
      change (91 =? 102) with false. change (91 =? 34) with false. change (91 =? 91) with true. cbn iota.
      rewrite <- app_assoc. rewrite skip_ws_app by apply Hopen. rewrite Hr, (skip_ws_head c2 r' Hw).
      apply Z.eqb_neq in Hne. rewrite Hne. rewrite <- Hr. rewrite pw_elems_ws by apply Hopen.
      assert (Hf2 : (list_sum (map (fun x => S (size x)) (x :: t)) <= f)%nat) by lia.
      assert (Hn2 : x :: t <> []) by discriminate.
      rewrite (elems_rtw (x :: t) HF Hn2 d f rest Hf2). reflexivity.
    - (* objects *)
      intros l HF d fuel rest Hf _. destruct fuel as [|f]; [cbn in Hf; lia|]. cbn [size] in Hf.
      destruct l as [|[k x] t]; [reflexivity|].
      cbn [ser_lo].
      assert (Hh : exists r', lo_members L (ser_lo L (S d)) d ((k, x) :: t) ++ rest = 34 :: r').
      { cbn [lo_members]. unfold ser_str. cbn [app]. eauto. }
      destruct Hh as (r' & Hr).
      cbn [app pw_val]. rewrite skip_ws_head by reflexivity.
      change (123 =? 110) with false. change (123 =? 116) with false.
      change (123 =? 102) with false. change (123 =? 34) with false. change (123 =? 91) with false.
      change (123 =? 123) with true. cbn iota.
      rewrite <- app_assoc. rewrite skip_ws_app by apply Hopen. rewrite Hr, (skip_ws_head 34 r') by reflexivity.
      change (34 =? 125) with false. cbn iota. rewrite <- Hr. rewrite pw_members_ws by apply Hopen.
      assert (Hf2 : (list_sum (map (fun kv => S (size (snd kv))) ((k, x) :: t)) <= f)%nat) by lia.
      assert (Hn2 : (k, x) :: t <> []) by discriminate.
      rewrite (members_rtw ((k, x) :: t) HF Hn2 d f rest Hf2). reflexivity.
  Qed.

  Lemma size_le_length_lo : forall v d, (size v <= length (ser_lo L d v))%nat.
  Proof.
    apply (json_ind' (fun v => forall d, (size v <= length (ser_lo L d v))%nat)).
    - intro d. exact (size_le_length JNull).
    - intros b d. exact (size_le_length (JBool b)).
    - intros n d. exact (size_le_length (JNum n)).
    - intros s d. exact (size_le_length (JStr s)).
    - intros l H d. cbn [size ser_lo]. destruct l as [|x t]; [cbn; lia|]. cbn [length]. apply le_n_S. rewrite app_length.
      assert (G : (list_sum (map (fun x => S (size x)) (x :: t)) <= length (lo_elems L (ser_lo L (S d)) d (x :: t)))%nat).
      { revert H. generalize (x :: t). clear. intros l H. induction H as [|y t Hy Ht IH]; [cbn; lia|].
        cbn [map lo_elems]. rewrite lsum_cons, app_length. specialize (Hy (S d)).
        destruct t as [|z t']; [cbn [map list_sum fold_right length]; rewrite app_length; cbn [length]; lia|].
        cbn [length]. rewrite app_length. lia. }
      lia.
    - intros l H d. cbn [size ser_lo]. destruct l as [|[k x] t]; [cbn; lia|]. cbn [length]. apply le_n_S. rewrite app_length.
      assert (G : (list_sum (map (fun kv => S (size (snd kv))) ((k, x) :: t)) <= length (lo_members L (ser_lo L (S d)) d ((k, x) :: t)))%nat).
      { revert H. generalize ((k, x) :: t). clear. intros l H. induction H as [|[k' y] t Hy Ht IH]; [cbn; lia|].
        cbn [map lo_members snd] in *. rewrite lsum_cons. unfold ser_str at 1. cbn [length app]. rewrite !app_length. cbn [length].
        rewrite !app_length. specialize (Hy (S d)).
        destruct t as [|z t']; [cbn [map list_sum fold_right length]; rewrite app_length; cbn [length]; lia|].
        cbn [length]. rewrite app_length. lia. }
      lia.
  Qed.

  Lemma ser_lo_parse_ws v d : parse_ws (ser_lo L d v) = Some v.
  Proof.
    unfold parse_ws. pose proof (pw_val_rt v d (S (length (ser_lo L d v))) []) as H.
    rewrite app_nil_r in H. rewrite H; [reflexivity| |exact I].
    pose proof (size_le_length_lo v d). lia.
  Qed.
End RoundTrip.

Lemma repeat_ws n : forallb is_ws (repeat 32 n) = true.
Proof. induction n; [reflexivity|]. cbn [repeat forallb]. rewrite IHn. reflexivity. Qed.
Lemma nl_indent_ws d : forallb is_ws (nl_indent d) = true.
Proof. unfold nl_indent. cbn [forallb]. rewrite repeat_ws. reflexivity. Qed.
Lemma pretty_ws_layout : ws_layout PRETTY.
Proof. repeat split; intros; try apply nl_indent_ws; reflexivity. Qed.
Lemma compact_ws_layout : ws_layout COMPACT.
Proof. repeat split; intros; reflexivity. Qed.

(* the compact layout is [serialise] *)
Lemma ser_lo_compact v : forall d, ser_lo COMPACT d v = serialise v.
Proof.
  induction v using json_ind'; intro d; try reflexivity.
  - cbn [ser_lo serialise]. destruct l as [|x t]; [reflexivity|]. cbn [COMPACT lo_open app]. f_equal.
    induction H as [|y t' Hy Ht IH]; [reflexivity|]. cbn [lo_elems ser_elems]. rewrite (Hy (S d)). f_equal.
    destruct t' as [|z t'']; [reflexivity|]. cbn [COMPACT lo_comma app]. f_equal. apply IH.
  - cbn [ser_lo serialise]. destruct l as [|[k x] t]; [reflexivity|]. cbn [COMPACT lo_open app]. f_equal.
    induction H as [|[k' y] t' Hy Ht IH]; [reflexivity|]. cbn [lo_members ser_members snd] in *. rewrite (Hy (S d)).
    cbn [COMPACT lo_colon app]. do 3 f_equal.
    destruct t' as [|z t'']; [reflexivity|]. cbn [COMPACT lo_comma app]. f_equal. apply IH.
Qed.

Lemma pretty_parse_ws v : parse_ws (pretty v) = Some v.
Proof. apply ser_lo_parse_ws. exact pretty_ws_layout. Qed.
Lemma compact_parse_ws v : parse_ws (serialise v) = Some v.
Proof. rewrite <- (ser_lo_compact v 0). apply ser_lo_parse_ws. exact compact_ws_layout. Qed.

(* ------------------------------------------------------------------ the pretty rendering is made of scalar values *)
Lemma ws_scalar w : forallb is_ws w = true -> forallb scalar w = true.
Proof.
  induction w as [|c t IH]; [reflexivity|]. cbn [forallb]. intro H. apply andb_prop in H. destruct H as [Hc Ht].
  rewrite (IH Ht), andb_true_r. apply ascii_scalar. pose proof (is_ws_small c Hc).
  unfold is_ws in Hc. repeat (apply orb_prop in Hc; destruct Hc as [Hc|Hc]); apply Z.eqb_eq in Hc; lia.
Qed.

Lemma ser_lo_scalar_n L : ws_layout L -> forall n v d, (jsize v <= n)%nat -> jscalar v = true -> forallb scalar (ser_lo L d v) = true.
Proof.
  intros (Hopen & Hcomma & Hclose & Hcolon).
  induction n as [|n IH]; intros v d Hn Hv; [exfalso; destruct v; simpl in Hn; inversion Hn|].
  destruct v as [| [|] | z | s | l | l]; try reflexivity.
  - apply ser_num_scalar.
  - apply ser_str_scalar. exact Hv.
  - cbn [ser_lo]. destruct l as [|x0 t0]; [reflexivity|].
    change (jsize (JArr (x0 :: t0))) with (S (list_sum (map jsize (x0 :: t0)))) in Hn. apply le_S_n in Hn.
    cbn [jscalar] in Hv. rewrite forallb_forall in Hv.
    change (forallb scalar (lo_open L d ++ lo_elems L (ser_lo L (S d)) d (x0 :: t0)) = true).
    apply forallb_app'; [apply ws_scalar, Hopen|].
    assert (G : forall l, (forall x, In x l -> forallb scalar (ser_lo L (S d) x) = true) ->
                          forallb scalar (lo_elems L (ser_lo L (S d)) d l) = true).
    { induction l as [|x t IHl]; intro Hl; [reflexivity|]. cbn [lo_elems].
      apply forallb_app'; [apply Hl; left; reflexivity|]. destruct t as [|y t'].
      - apply forallb_app'; [apply ws_scalar, Hclose|reflexivity].
      - change (forallb scalar (lo_comma L d ++ lo_elems L (ser_lo L (S d)) d (y :: t')) = true).
        apply forallb_app'; [apply ws_scalar, Hcomma|]. apply IHl. intros z Hz. apply Hl. right. exact Hz. }
    apply G. intros x Hx. apply IH; [pose proof (In_sum jsize _ x Hx); lia|exact (Hv x Hx)].
  - cbn [ser_lo]. destruct l as [|kx0 t0]; [reflexivity|].
    change (jsize (JObj (kx0 :: t0))) with (S (list_sum (map (fun kv => jsize (snd kv)) (kx0 :: t0)))) in Hn. apply le_S_n in Hn.
    cbn [jscalar] in Hv. rewrite forallb_forall in Hv.
    change (forallb scalar (lo_open L d ++ lo_members L (ser_lo L (S d)) d (kx0 :: t0)) = true).
    apply forallb_app'; [apply ws_scalar, Hopen|].
    assert (G : forall l, (forall k x, In (k, x) l -> forallb scalar k = true /\ forallb scalar (ser_lo L (S d) x) = true) ->
                          forallb scalar (lo_members L (ser_lo L (S d)) d l) = true).
    { induction l as [|[k x] t IHl]; intro Hl; [reflexivity|]. cbn [lo_members].
      destruct (Hl k x (or_introl eq_refl)) as [Hk Hx].
      apply forallb_app'; [apply ser_str_scalar; exact Hk|].
      change (forallb scalar (lo_colon L ++ ser_lo L (S d) x ++
                match t with [] => lo_close L d ++ [125] | _ :: _ => 44 :: lo_comma L d ++ lo_members L (ser_lo L (S d)) d t end) = true).
      apply forallb_app'; [apply ws_scalar, Hcolon|]. apply forallb_app'; [exact Hx|]. destruct t as [|y t'].
      - apply forallb_app'; [apply ws_scalar, Hclose|reflexivity].
      - change (forallb scalar (lo_comma L d ++ lo_members L (ser_lo L (S d)) d (y :: t')) = true).
        apply forallb_app'; [apply ws_scalar, Hcomma|]. apply IHl. intros k' x' Hin. apply Hl. right. exact Hin. }
    apply G. intros k x Hin. specialize (Hv (k, x) Hin). cbn beta iota in Hv.
    apply andb_prop in Hv. destruct Hv as [Hk Hx]. split; [exact Hk|].
    apply IH; [pose proof (In_sum (fun kv : list Z * json => jsize (snd kv)) _ (k, x) Hin) as B; cbn [snd] in B; lia|exact Hx].
Qed.

Lemma pretty_scalar v : jscalar v = true -> forallb scalar (pretty v) = true.
Proof. intro H. apply (ser_lo_scalar_n PRETTY pretty_ws_layout (jsize v)); [lia|exact H]. Qed.

Lemma pretty_bytes_utf8 v : jscalar v = true ->
  utf8_decode (length (utf8 (pretty v))) (utf8 (pretty v)) = Some (pretty v).
Proof. intro H. apply decode_encode; [apply utf8_len|apply pretty_scalar; exact H]. Qed.
