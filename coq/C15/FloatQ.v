(* C15/FloatQ.v — the rational-number reading of the integer tests of C15/Float.v (definitions only; proofs in C15/Proofs19.v). *)
From Coq Require Import QArith Qpower.
From RM Require Import C15.Model C15.Float.
Open Scope Z_scope.

(* c * 10^k and w * 2^q as rationals *)
Definition qdec (c k : Z) : Q := (inject_Z c * Qpower 10 k)%Q.
Definition qbin (w q : Z) : Q := (inject_Z w * Qpower 2 q)%Q.
Definition cmp_Q (c k w q : Z) : comparison := (qdec c k ?= qbin w q)%Q.
(* the decimal lies between value - dn quarter-ulps and value + 2 quarter-ulps of the binary64 frame of m * 2^e *)
Definition interval_Q (m e c k : Z) : Prop :=
  (qbin (fst (fst (b64_frame m e)) - snd (fst (b64_frame m e))) (snd (b64_frame m e)) <= qdec c k)%Q /\
  (qdec c k <= qbin (fst (fst (b64_frame m e)) + 2) (snd (b64_frame m e)))%Q.
(* the frame of m * 2^e: v4 quarter-ulps with 2^54 <= v4 < 2^55 (a 53-bit mantissa times 4), the same value, and the lower
   half-gap is halved (dn = 1) only when m is a power of two *)
Definition frame_Q (m e : Z) : Prop :=
  let '(v4, dn, e4) := b64_frame m e in
  18014398509481984 <= v4 < 36028797018963968 /\ (qbin v4 e4 == qbin m e)%Q /\ (dn = 2 \/ (dn = 1 /\ m = 2 ^ Z.log2 m)).
