(* C15/Proofs9.v — proc_limits: the limits array is the state's HashMap content sorted by name (a permutation, in non-decreasing
   code-point order), and a numeric limit is the JSON NUMBER with exactly that value for every u64. *)
From Coq Require Import Lia Permutation Sorted.
From RM Require Import C15.Model C15.Schema C15.Proofs C15.Proofs2 C15.Proofs3.
Open Scope Z_scope.

Lemma str_leb_total : forall a b, str_leb a b = false -> str_leb b a = true.
Proof.
  induction a as [|x a IH]; intros b H; [discriminate H|]. destruct b as [|y b]; [reflexivity|].
  cbn [str_leb] in *. destruct (x <? y) eqn:E1; [discriminate H|]. destruct (y <? x) eqn:E2; [reflexivity|]. apply IH. exact H.
Qed.
Lemma str_leb_refl : forall a, str_leb a a = true.
Proof. induction a as [|x a IH]; [reflexivity|]. cbn [str_leb]. rewrite Z.ltb_irrefl. exact IH. Qed.
Lemma str_leb_trans : forall a b c, str_leb a b = true -> str_leb b c = true -> str_leb a c = true.
Proof.
  induction a as [|x a IH]; intros b c H1 H2; [reflexivity|]. destruct b as [|y b]; [discriminate H1|]. destruct c as [|z c]; [discriminate H2|].
  cbn [str_leb] in *.
  destruct (x <? y) eqn:A1; destruct (y <? x) eqn:A2; destruct (y <? z) eqn:B1; destruct (z <? y) eqn:B2;
    destruct (x <? z) eqn:C1; destruct (z <? x) eqn:C2; try reflexivity; try discriminate;
    repeat match goal with
           | H : (_ <? _) = true |- _ => apply Z.ltb_lt in H
           | H : (_ <? _) = false |- _ => apply Z.ltb_ge in H
           end; try lia.
  eapply IH; eassumption.
Qed.

Definition name_le (a b : limit) : Prop := str_leb (li_name a) (li_name b) = true.

Lemma insert_perm x : forall l, Permutation (insert_limit x l) (x :: l).
Proof.
  induction l as [|y t IH]; [reflexivity|]. cbn [insert_limit]. destruct (str_leb (li_name x) (li_name y)); [reflexivity|].
  rewrite IH. apply perm_swap.
Qed.
Lemma sort_perm : forall l, Permutation (sort_limits l) l.
Proof. induction l as [|x t IH]; [reflexivity|]. cbn [sort_limits fold_right]. fold (sort_limits t). rewrite insert_perm, IH. reflexivity. Qed.

Lemma insert_sorted x : forall l, StronglySorted name_le l -> StronglySorted name_le (insert_limit x l).
Proof.
  induction l as [|y t IH]; intro H; [repeat constructor|]. inversion H as [|? ? Ht Hy]; subst. cbn [insert_limit].
  destruct (str_leb (li_name x) (li_name y)) eqn:E.
  - constructor; [exact H|]. constructor; [exact E|]. rewrite Forall_forall in *. intros z Hz. unfold name_le in *.
    eapply str_leb_trans; [exact E|exact (Hy z Hz)].
  - constructor; [apply IH; exact Ht|]. apply str_leb_total in E.
    rewrite Forall_forall in *. intros z Hz. apply (Permutation_in _ (insert_perm x t)) in Hz. destruct Hz as [<-|Hz]; [exact E|exact (Hy z Hz)].
Qed.
Lemma sort_sorted : forall l, StronglySorted name_le (sort_limits l).
Proof. induction l as [|x t IH]; [constructor|]. cbn [sort_limits fold_right]. fold (sort_limits t). apply insert_sorted. exact IH. Qed.

Lemma limits_json p s l : wf_state s = true -> s_limits s = Some l ->
  exists j, json_of_state p s = Ret j /\
    jget k_proc_limits j = Some (JObj [(k_limits, JArr (map json_of_limit (sort_limits l)))]).
Proof.
  intros Hw Hl. exists (report_obj s). split; [exact (report_pure p s Hw)|].
  pose proof (wf_state_ok s Hw) as (_ & _ & _ & Hr). unfold report_obj. destruct (s_requesting s) as [i|].
  - destruct (nth_error (s_threads s) i) as [t|] eqn:E; [|exfalso; apply nth_error_None in E; lia].
    destruct (th_frames t); cbn [jget assoc list_eqb tail_obj]; rewrite Hl; reflexivity.
  - cbn [jget assoc list_eqb tail_obj]. rewrite Hl. reflexivity.
Qed.

Lemma lim_value l :
  json_of_lim l = match l with LLimited n => JNum n | LUnlimited => JStr s_unlimited | LErr => JStr s_err end.
Proof. destruct l; reflexivity. Qed.
