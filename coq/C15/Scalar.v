(* C15/Scalar.v — executable: every string held by a process state consists of Unicode scalar values (what Rust `String`s hold:
   anything but surrogates, up to U+10FFFF).  Hypothesis of c15_report_valid; evaluated on every real state by the driver. *)
From RM Require Export C15.Model C15.Utf8.
Open Scope Z_scope.

Definition sstr (s : list Z) : bool := forallb scalar s.
Definition sostr (o : option (list Z)) : bool := match o with Some s => sstr s | None => true end.
Definition sc_inline (i : inline) : bool := sstr (in_function i) && sostr (in_file i).
Definition sc_frame (f : frame) : bool :=
  match fr_module f with Some m => sstr (fst m) | None => true end && sostr (fr_function f) && sostr (fr_file f) &&
  forallb (fun e : list Z * list Z => sstr (fst e)) (fr_unloaded f) && forallb sc_inline (fr_inlines f).
Definition sc_thread (t : thread) : bool := sostr (th_name t) && sostr (th_last_error t) && forallb sc_frame (th_frames t).
Definition sc_module (m : modul) : bool :=
  sstr (m_file m) && sstr (m_debug_file m) && sstr (m_debug_id m) && sstr (m_code_id m) && sostr (m_version m).
Definition sc_stat (e : list Z * symstat) : bool :=
  sostr (ss_url (snd e)) && match ss_extra (snd e) with Some x => sstr (fst x) && sstr (snd x) | None => true end.
Definition sc_crash (c : crash) : bool :=
  sstr (cr_reason c) && sostr (cr_instr c) && forallb (fun b => sostr (bf_reg b)) (cr_flips c).
Definition sc_sys (y : sysinfo) : bool := sostr (sy_os_ver y) && sostr (sy_cpu_info y).
Definition sc_limit (l : limit) : bool := sstr (li_name l) && sstr (li_unit l).
Definition sc_macrec (r : macrec) : bool :=
  sostr (mc_module r) && sostr (mc_message r) && sostr (mc_signature r) && sostr (mc_backtrace r) && sostr (mc_message2 r).
Definition sc_handle (h : handle) : bool := sostr (h_type h) && sostr (h_object h).
Definition state_scalar (s : state) : bool :=
  forallb sc_thread (s_threads s) &&
  forallb (fun r : list Z * Z * nat => sstr (fst (fst r))) (s_registers s) &&
  forallb sc_module (s_modules s) && forallb sc_module (s_unloaded s) &&
  match s_crash s with Some c => sc_crash c | None => true end &&
  sc_sys (s_sys s) &&
  match s_lsb s with Some l => let '(i, r, c, d) := l in sstr i && sstr r && sstr c && sstr d | None => true end &&
  forallb (fun e : list Z * list Z => sstr (snd e)) (s_certinfo s) &&
  forallb sc_stat (s_symstats s) &&
  sostr (s_assertion s) &&
  match s_limits s with Some l => forallb sc_limit l | None => true end &&
  match s_mac_crash s with Some l => forallb sc_macrec l | None => true end &&
  sostr (s_bootargs s) &&
  match s_handles s with Some l => forallb sc_handle l | None => true end &&
  match s_soft s with Some v => jscalar v | None => true end.
