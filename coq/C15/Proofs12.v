(* C15/Proofs12.v — basename: the text after the last separator (rfind + slice), separators read off the source. *)
From Coq Require Import Lia.
From RM Require Import C15.Model Gen.C15Fmt.
Open Scope Z_scope.

Definition is_sep (c : Z) : bool := (c =? 47) || (c =? 92).
Lemma is_sep_table c : is_sep c = true <-> In c BASENAME_SEPARATORS.
Proof.
  unfold is_sep. change BASENAME_SEPARATORS with [47; 92]. split.
  - intro H. apply orb_prop in H. destruct H as [H|H]; apply Z.eqb_eq in H; subst; cbn; auto.
  - intros [<-|[<-|[]]]; reflexivity.
Qed.

Lemma basename_aux_nosep : forall s acc, (forall c, In c s -> is_sep c = false) -> basename_aux s acc = acc.
Proof.
  induction s as [|x t IH]; intros acc H; [reflexivity|]. cbn [basename_aux].
  pose proof (H x (or_introl eq_refl)) as Hx. unfold is_sep in Hx. rewrite Hx. apply IH. intros c Hc. apply H. right. exact Hc.
Qed.
Lemma basename_aux_sep : forall a c b acc, is_sep c = true -> basename_aux (a ++ c :: b) acc = basename_aux b b.
Proof.
  induction a as [|x a IH]; intros c b acc Hc.
  - cbn [app basename_aux]. unfold is_sep in Hc. rewrite Hc. reflexivity.
  - cbn [app basename_aux]. destruct ((x =? 47) || (x =? 92)); apply IH; exact Hc.
Qed.

Lemma basename_nosep s : (forall c, In c s -> is_sep c = false) -> basename s = s.
Proof. intro H. apply basename_aux_nosep. exact H. Qed.
Lemma basename_last_sep a c b : is_sep c = true -> (forall x, In x b -> is_sep x = false) -> basename (a ++ c :: b) = b.
Proof. intros Hc Hb. unfold basename. rewrite basename_aux_sep by exact Hc. apply basename_aux_nosep. exact Hb. Qed.

(* every string has no separator or splits at its last one: the two equations above determine basename *)
Lemma last_sep_split : forall s, (forall c, In c s -> is_sep c = false) \/
  exists a c b, s = a ++ c :: b /\ is_sep c = true /\ (forall x, In x b -> is_sep x = false).
Proof.
  induction s as [|x t IH]; [left; intros c []|]. destruct IH as [N|(a & c & b & E & Hc & Hb)].
  - destruct (is_sep x) eqn:Ex.
    + right. exists [], x, t. repeat split; [exact Ex|exact N].
    + left. intros c [<-|Hc]; [exact Ex|apply N; exact Hc].
  - right. exists (x :: a), c, b. subst t. repeat split; [exact Hc|exact Hb].
Qed.
