(* C15/Proofs3.v — the report conforms to the documented schema (DOC_SCHEMA is regenerated from
   json-schema.md on every run), for every well-formed process state. *)
From Coq Require Import Lia.
From RM Require Import C15.Model C15.Schema C15.Proofs C15.Proofs2.
Open Scope Z_scope.

Ltac splitb :=
  repeat match goal with
         | H : _ && _ = true |- _ => apply andb_prop in H; destruct H
         end.

Lemma conforms_null s : conforms s JNull = true.
Proof. destruct s; reflexivity. Qed.

Definition field_ok (fs : list (list Z * schema)) (kv : list Z * json) : bool :=
  match sfind (fst kv) fs with Some t => conforms t (snd kv) | None => false end.

Lemma find_sfind kv : forall fs,
  (fix find (fs : list (list Z * schema)) : bool :=
     match fs with
     | [] => false
     | (k, t) :: r => if list_eqb (fst kv) k then conforms t (snd kv) else find r
     end) fs = field_ok fs kv.
Proof.
  induction fs as [|[k t] r IH]; [reflexivity|]. unfold field_ok. cbn [sfind].
  destruct (list_eqb (fst kv) k); [reflexivity|]. exact IH.
Qed.

Lemma forallb_eq {A} (f g : A -> bool) l : (forall x, f x = g x) -> forallb f l = forallb g l.
Proof. intro H. induction l as [|a t IH]; [reflexivity|]. cbn [forallb]. rewrite H, IH. reflexivity. Qed.

Lemma conforms_obj fs l :
  conforms (SObj fs) (JObj l) = nodupb (map fst l) && forallb (field_ok fs) l.
Proof. cbn [conforms]. f_equal. apply forallb_eq. intro kv. apply find_sfind. Qed.

Lemma obj_intro s fs l : s = SObj fs -> nodupb (map fst l) = true ->
  Forall (fun kv => field_ok fs kv = true) l -> conforms s (JObj l) = true.
Proof.
  intros -> Hn Hf. rewrite conforms_obj, Hn. cbn [andb]. apply forallb_forall. apply Forall_forall. exact Hf.
Qed.
Lemma field_intro fs k v t : sfind k fs = Some t -> conforms t v = true -> field_ok fs (k, v) = true.
Proof. unfold field_ok. cbn [fst snd]. intros -> H. exact H. Qed.

Lemma arr_intro s t l : s = SArr t -> Forall (fun v => conforms t v = true) l -> conforms s (JArr l) = true.
Proof. intros -> H. cbn [conforms]. apply forallb_forall. apply Forall_forall. exact H. Qed.
Lemma arr_map {A} s t (f : A -> json) l : s = SArr t -> (forall a, In a l -> conforms t (f a) = true) ->
  conforms s (JArr (map f l)) = true.
Proof.
  intros E H. eapply arr_intro; [exact E|]. apply Forall_forall. intros v Hv. apply in_map_iff in Hv.
  destruct Hv as (a & <- & Ha). apply H. exact Ha.
Qed.

Lemma arr_or_null {A} s t (f : A -> json) l : s = SArr t -> (forall a, In a l -> conforms t (f a) = true) ->
  conforms s (match l with [] => JNull | a :: r => JArr (map f (a :: r)) end) = true.
Proof. intros E H. destruct l as [|a0 l0]; [apply conforms_null|]. eapply arr_map; eassumption. Qed.

Ltac obj := eapply obj_intro; [reflexivity | reflexivity | repeat (apply Forall_cons || apply Forall_nil)].
Ltac fld := eapply field_intro; [reflexivity | ].

(* ------------------------------------------------------------------ leaves *)
Lemma c_str s : conforms SStr (JStr s) = true. Proof. reflexivity. Qed.
Lemma c_ostr o : conforms SStr (jopt JStr o) = true. Proof. destruct o; reflexivity. Qed.
Lemma c_bool b : conforms SBool (JBool b) = true. Proof. reflexivity. Qed.
Lemma c_u32 n : u32b n = true -> conforms SU32 (JNum n) = true. Proof. intro H. exact H. Qed.
Lemma c_ou32 o : ou32b o = true -> conforms SU32 (jopt JNum o) = true. Proof. destruct o; intro H; [exact H|reflexivity]. Qed.
Lemma c_nat32 n : natu32b n = true -> conforms SU32 (JNum (Z.of_nat n)) = true.
Proof. unfold natu32b. intro H. cbn [conforms]. rewrite H. assert (E : (0 <=? Z.of_nat n) = true) by (apply Z.leb_le; lia). rewrite E. reflexivity. Qed.

Lemma lower_hexb_forall l : Forall is_lower_hex l -> forallb is_lower_hexb l = true.
Proof.
  intro H. apply forallb_forall. rewrite Forall_forall in H. intros c Hc. specialize (H c Hc). unfold is_lower_hex in H.
  unfold is_lower_hexb. apply orb_true_iff. destruct H as [H|H]; [left|right]; apply andb_true_iff; split; apply Z.leb_le; lia.
Qed.
Lemma hexstring_intro d : Forall is_lower_hex d -> (1 <= length d <= 16)%nat -> is_hexstring (48 :: 120 :: d) = true.
Proof.
  intros H L. cbn [is_hexstring]. rewrite lower_hexb_forall by exact H. cbn [andb].
  apply andb_true_iff. split; apply Nat.leb_le; lia.
Qed.
Lemma hex_addr w x : is_hexstring (address_str w x) = true.
Proof.
  unfold address_str. apply hexstring_intro.
  - destruct w; [destruct (x <? two32)|..]; try apply hex_fixed_lower. apply strip0_sub. apply hex_fixed_lower.
  - pose proof (hex_fixed_length 16 x) as L16. pose proof (hex_fixed_length 8 x) as L8.
    pose proof (strip0_sub _ (hex_fixed_lower 16 x)) as (_ & S2 & S3).
    assert (Hne : hex_fixed 16 x <> []) by (intro E; rewrite E in L16; discriminate L16). specialize (S3 Hne).
    destruct w; [destruct (x <? two32)|..]; try lia.
    destruct (strip0 (hex_fixed 16 x)); [congruence|cbn [length] in *; lia].
Qed.
Lemma c_hex w x : conforms SHex (jhex w x) = true.
Proof. exact (hex_addr w x). Qed.
Lemma c_ohex w o : conforms SHex (jopt (jhex w) o) = true.
Proof. destruct o; [apply c_hex|reflexivity]. Qed.
Lemma c_hex_strip n : conforms SHex (JStr (48 :: 120 :: strip0 (hex_fixed 16 n))) = true.
Proof.
  apply hexstring_intro; [apply strip0_sub; apply hex_fixed_lower|].
  pose proof (hex_fixed_length 16 n) as L16. pose proof (strip0_sub _ (hex_fixed_lower 16 n)) as (_ & S2 & S3).
  assert (Hne : hex_fixed 16 n <> []) by (intro E; rewrite E in L16; discriminate L16). specialize (S3 Hne).
  destruct (strip0 (hex_fixed 16 n)); [congruence|cbn [length] in *; lia].
Qed.
Lemma c_hex_fixed d v : (1 <= d <= 16)%nat -> conforms SHex (JStr (48 :: 120 :: hex_fixed d v)) = true.
Proof. intro H. apply hexstring_intro; [apply hex_fixed_lower|rewrite hex_fixed_length; exact H]. Qed.

Lemma c_enum names alt x : memb x names = true -> conforms (SEnum names alt) (JStr x) = true.
Proof. intro H. cbn [conforms]. rewrite H. reflexivity. Qed.

Lemma range_cases lo hi i : (lo <=? i) = true -> (i <=? hi) = true -> In i (map (fun k => lo + Z.of_nat k) (seq 0 (Z.to_nat (hi - lo + 1)))).
Proof.
  intros H1 H2. apply Z.leb_le in H1, H2. apply in_map_iff. exists (Z.to_nat (i - lo)). split; [lia|].
  apply in_seq. lia.
Qed.

#[local] Hint Resolve conforms_null c_str c_ostr c_bool c_u32 c_ou32 c_nat32 c_hex c_ohex c_hex_strip : c15.

(* ------------------------------------------------------------------ the documented sub-schemas *)
Definition S_THREAD := item (sub1 DOC_SCHEMA k_threads).
Definition S_FRAME := item (sub1 S_THREAD k_frames).
Definition S_CTHREAD := sub1 DOC_SCHEMA k_crashing_thread.
Definition S_MODULE := item (sub1 DOC_SCHEMA k_modules).
Definition S_UNLOADED := item (sub1 DOC_SCHEMA k_unloaded_modules).
Definition S_CRASH := sub1 DOC_SCHEMA k_crash_info.
Definition S_SYS := sub1 DOC_SCHEMA k_system_info.

(* ------------------------------------------------------------------ frames *)
Definition frame_obj (w : pwidth) (idx : nat) (f : frame) : json :=
  JObj [
    (k_file, jopt JStr (fr_file f));
    (k_frame, JNum (Z.of_nat idx));
    (k_function, jopt JStr (fr_function f));
    (k_function_offset, match fr_function_base f with Some base => jhex w (fr_instr f - base) | None => JNull end);
    (k_inlines, match fr_inlines f with [] => JNull | l => JArr (map json_of_inline l) end);
    (k_line, jopt JNum (fr_line f));
    (k_missing_symbols, JBool (match fr_function f with Some _ => false | None => true end));
    (k_module, jopt (fun m => JStr (basename (fst m))) (fr_module f));
    (k_module_offset, match fr_module f with Some (_, base) => jhex w (fr_instr f - base) | None => JNull end);
    (k_offset, jhex w (fr_instr f));
    (k_trust, JStr (trust_name (fr_trust f)));
    (k_unloaded_modules,
       match fr_unloaded f with
       | [] => JNull
       | l => JArr (map (fun e => JObj [(k_module, JStr (fst e)); (k_offsets, JArr (map (jhex w) (snd e)))]) l)
       end)].

Lemma wf_frame_ok f : wf_frame f = true -> frame_ok f.
Proof.
  unfold wf_frame, frame_ok, u64b. intro H. splitb.
  repeat match goal with H : (_ <=? _) = true |- _ => apply Z.leb_le in H | H : (_ <? _) = true |- _ => apply Z.ltb_lt in H end.
  split; [lia|]. split.
  - intros nm base E. rewrite E in *. splitb.
    repeat match goal with H : (_ <=? _) = true |- _ => apply Z.leb_le in H end. lia.
  - intros base E. rewrite E in *. splitb.
    repeat match goal with H : (_ <=? _) = true |- _ => apply Z.leb_le in H end. lia.
Qed.

Lemma frame_pure p w idx f : frame_ok f -> json_of_frame p w idx f = Ret (frame_obj w idx f).
Proof.
  intros (Hi & Hm & Hf). unfold json_of_frame, frame_obj.
  destruct (fr_module f) as [[nm base]|]; [rewrite chk_sub_ok by (try exact (Hm nm base eq_refl); lia)|];
    (destruct (fr_function_base f) as [fb|]; [rewrite chk_sub_ok by (try exact (Hf fb eq_refl); lia)|]); reflexivity.
Qed.

Lemma trust_doc i : (1 <=? i) = true -> (i <=? 6) = true ->
  conforms (sub1 S_FRAME k_trust) (JStr (trust_name i)) = true.
Proof.
  intros H1 H2. pose proof (range_cases 1 6 i H1 H2) as H. cbn in H.
  repeat (destruct H as [<-|H]; [vm_compute; reflexivity|]). contradiction.
Qed.

Lemma inline_conforms i : ou32b (in_line i) = true ->
  conforms (item (sub1 S_FRAME k_inlines)) (json_of_inline i) = true.
Proof. intro H. unfold json_of_inline. obj; fld; auto with c15. Qed.

Lemma frame_fields w idx f : wf_frame f = true -> natu32b idx = true ->
  Forall (fun kv => field_ok (match S_FRAME with SObj fs => fs | _ => [] end) kv = true)
         (match frame_obj w idx f with JObj l => l | _ => [] end).
Proof.
  intros Hw Hi. unfold wf_frame in Hw. splitb. unfold frame_obj.
  repeat (apply Forall_cons || apply Forall_nil); fld; auto with c15.
  - destruct (fr_function_base f); auto with c15.
  - eapply arr_or_null; [reflexivity|]. intros a Ha. apply inline_conforms.
    match goal with H : forallb _ (fr_inlines f) = true |- _ => rewrite forallb_forall in H; exact (H a Ha) end.
  - destruct (fr_module f); auto with c15.
  - destruct (fr_module f) as [[nm b]|]; auto with c15.
  - apply trust_doc; assumption.
  - eapply arr_or_null; [reflexivity|]. intros a Ha. obj; fld; auto with c15.
    eapply arr_map; [reflexivity|]. intros; apply c_hex.
Qed.

Lemma frame_conforms w idx f : wf_frame f = true -> natu32b idx = true ->
  conforms S_FRAME (frame_obj w idx f) = true.
Proof.
  intros Hw Hi. eapply obj_intro; [reflexivity|reflexivity|]. exact (frame_fields w idx f Hw Hi).
Qed.

Lemma registers_conforms regs :
  forallb (fun r : list Z * Z * nat => (snd r <=? 16)%nat && (1 <=? snd r)%nat) regs = true ->
  nodupb (map (fun r : list Z * Z * nat => fst (fst r)) regs) = true ->
  conforms (sub1 S_FRAME k_registers) (json_registers regs) = true.
Proof.
  intros Hr Hn. unfold json_registers.
  change (sub1 S_FRAME k_registers) with (SMap SHex). cbn [conforms]. rewrite map_map. cbn [fst]. rewrite Hn. cbn [andb].
  rewrite forallb_forall in *. intros kv Hkv. apply in_map_iff in Hkv. destruct Hkv as (r & <- & Hin).
  specialize (Hr r Hin). splitb. cbn [snd]. apply c_hex_fixed.
  repeat match goal with H : (_ <=? _)%nat = true |- _ => apply Nat.leb_le in H end. lia.
Qed.

(* frame 0 of the crashing-thread copy: the frame's members plus "registers" *)
Lemma frame_registers_conforms w idx f regs : wf_frame f = true -> natu32b idx = true ->
  conforms (sub1 S_FRAME k_registers) regs = true ->
  conforms S_FRAME (add_registers regs (frame_obj w idx f)) = true.
Proof.
  intros Hw Hi Hr. pose proof (frame_fields w idx f Hw Hi) as F. unfold frame_obj in *. cbn [add_registers firstn skipn app].
  eapply obj_intro; [reflexivity|reflexivity|].
  repeat match goal with H : Forall _ (_ :: _) |- _ => inversion H; clear H; subst end.
  repeat (apply Forall_cons || apply Forall_nil); assumption.
Qed.

Lemma frames_pure p w l : Forall frame_ok l -> forall idx,
  json_of_frames p w idx l = Ret (map (fun q => frame_obj w (fst q) (snd q)) (combine (seq idx (length l)) l)).
Proof.
  induction 1 as [|f t Hf _ IH]; intro idx; [reflexivity|].
  cbn [json_of_frames length seq combine map fst snd]. rewrite frame_pure by exact Hf. cbn [obind]. rewrite IH. reflexivity.
Qed.

Lemma frames_conform w l : forallb wf_frame l = true -> forall idx, natu32b (idx + length l) = true ->
  Forall (fun v => conforms S_FRAME v = true) (map (fun q => frame_obj w (fst q) (snd q)) (combine (seq idx (length l)) l)).
Proof.
  induction l as [|f t IH]; intros Hw idx Hi; [constructor|].
  cbn [forallb] in Hw. splitb. cbn [length seq combine map fst snd]. constructor.
  - apply frame_conforms; [assumption|]. unfold natu32b in *. apply Z.ltb_lt in Hi. apply Z.ltb_lt. cbn [length] in Hi. lia.
  - apply IH; [assumption|]. unfold natu32b in *. apply Z.ltb_lt in Hi. apply Z.ltb_lt. cbn [length] in Hi. lia.
Qed.

(* ------------------------------------------------------------------ threads *)
Definition thread_obj (w : pwidth) (t : thread) : json :=
  JObj [(k_frame_count, JNum (Z.of_nat (length (th_frames t))));
        (k_frames, JArr (map (fun q => frame_obj w (fst q) (snd q)) (combine (seq 0 (length (th_frames t))) (th_frames t))));
        (k_last_error_value, jopt JStr (th_last_error t));
        (k_thread_id, JNum (th_id t));
        (k_thread_name, jopt JStr (th_name t))].

Lemma wf_frames_ok l : forallb wf_frame l = true -> Forall frame_ok l.
Proof. rewrite forallb_forall. intro H. apply Forall_forall. intros f Hf. apply wf_frame_ok. exact (H f Hf). Qed.

Lemma thread_pure p w t : wf_thread t = true -> json_of_thread p w t = Ret (thread_obj w t).
Proof.
  unfold wf_thread. intro H. splitb. unfold json_of_thread. rewrite frames_pure by (apply wf_frames_ok; assumption). reflexivity.
Qed.

Lemma thread_conforms w t : wf_thread t = true -> conforms S_THREAD (thread_obj w t) = true.
Proof.
  unfold wf_thread. intro H. splitb. unfold thread_obj. obj; fld; auto with c15.
  eapply arr_intro; [reflexivity|]. apply frames_conform; assumption.
Qed.

Lemma cthread_conforms w t i regs : wf_thread t = true -> natu32b i = true -> th_frames t <> [] ->
  conforms (sub1 S_FRAME k_registers) regs = true ->
  conforms S_CTHREAD (crashing_copy regs i (thread_obj w t)) = true.
Proof.
  unfold wf_thread. intros H Hi Hne Hr. splitb. unfold thread_obj.
  destruct (th_frames t) as [|f0 fs] eqn:E; [congruence|].
  cbn [length seq combine map fst snd crashing_copy].
  match goal with H : forallb wf_frame (_ :: _) = true |- _ => cbn [forallb] in H end. splitb.
  obj; fld; try apply c_ostr; try (apply c_nat32; assumption); try (apply c_u32; assumption).
  eapply arr_intro; [reflexivity|]. constructor.
  - apply frame_registers_conforms; [assumption|reflexivity|exact Hr].
  - apply (frames_conform w fs); [assumption|].
    match goal with H : natu32b (length (_ :: _)) = true |- _ => exact H end.
Qed.

(* ------------------------------------------------------------------ modules *)
Lemma module_conforms w certs stats m : conforms S_MODULE (mod_obj w certs stats m) = true.
Proof. unfold mod_obj. cbv zeta. obj; fld; auto with c15. Qed.
Lemma unloaded_conforms w certs m : conforms S_UNLOADED (unl_obj w certs m) = true.
Proof. unfold unl_obj. obj; fld; auto with c15. Qed.
Lemma wf_module_ok m : wf_module m = true -> module_ok m.
Proof.
  unfold wf_module, module_ok. intro H. splitb.
  repeat match goal with H : (_ <=? _) = true |- _ => apply Z.leb_le in H | H : (_ <? _) = true |- _ => apply Z.ltb_lt in H end. lia.
Qed.

(* ------------------------------------------------------------------ crash_info, system_info *)
Lemma access_doc i : (0 <=? i) = true -> (i <=? 2) = true ->
  conforms (sub1 (item (sub1 S_CRASH k_memory_accesses)) k_access_type) (JStr (access_name i)) = true.
Proof.
  intros H1 H2. pose proof (range_cases 0 2 i H1 H2) as H. cbn in H.
  repeat (destruct H as [<-|H]; [vm_compute; reflexivity|]). contradiction.
Qed.
Lemma incons_doc i : (0 <=? i) = true -> (i <=? 4) = true ->
  conforms (item (sub1 S_CRASH k_crash_inconsistencies)) (JStr (inconsistency_name i)) = true.
Proof.
  intros H1 H2. pose proof (range_cases 0 4 i H1 H2) as H. cbn in H.
  repeat (destruct H as [<-|H]; [vm_compute; reflexivity|]). contradiction.
Qed.
Lemma cpu_doc i : (0 <=? i) = true -> (i <=? 9) = true -> conforms (sub1 S_SYS k_cpu_arch) (JStr (cpu_name i)) = true.
Proof.
  intros H1 H2. pose proof (range_cases 0 9 i H1 H2) as H. cbn in H.
  repeat (destruct H as [<-|H]; [vm_compute; reflexivity|]). contradiction.
Qed.
Lemma os_doc i raw : (0 <=? i) = true -> (i <=? 7) = true -> conforms (sub1 S_SYS k_os) (JStr (os_name i raw)) = true.
Proof.
  intros H1 H2. pose proof (range_cases 0 7 i H1 H2) as H. cbn in H.
  repeat (destruct H as [<-|H]; [vm_compute; reflexivity|]). contradiction.
Qed.

Lemma access_conforms w a : wf_access a = true ->
  conforms (item (sub1 S_CRASH k_memory_accesses)) (json_of_access w a) = true.
Proof.
  unfold wf_access. intro H. splitb. unfold json_of_access.
  destruct (a_type a <? 3) eqn:E3; destruct (a_guard a); cbn [app]; obj; fld; auto with c15;
    apply access_doc; try assumption; apply Z.ltb_lt in E3; apply Z.leb_le; lia.
Qed.
Lemma flip_conforms w b : wf_flip b = true ->
  conforms (item (sub1 S_CRASH k_possible_bit_flips)) (json_of_flip w b) = true.
Proof. unfold wf_flip. intro H. splitb. unfold json_of_flip. obj; fld; auto with c15. obj; fld; auto with c15. Qed.

Lemma crash_conforms w c req a :
  match c with Some c => wf_crash c = true | None => True end ->
  match req with Some i => natu32b i = true | None => True end ->
  conforms S_CRASH (json_of_crash w c req a) = true.
Proof.
  intros Hc Hr. unfold json_of_crash. obj; fld; auto with c15.
  - destruct c; cbn [jopt]; auto with c15.
  - destruct c as [c|]; [|reflexivity]. unfold wf_crash in Hc. splitb.
    destruct (cr_adjusted c) as [[x|x]|]; [| |reflexivity]; obj; fld; auto with c15.
  - destruct c as [c|]; [|reflexivity]. unfold wf_crash in Hc. splitb. cbn [jopt].
    eapply arr_map; [reflexivity|]. intros i Hi.
    match goal with H : forallb _ (cr_incons c) = true |- _ => rewrite forallb_forall in H; specialize (H i Hi) end.
    splitb. apply incons_doc; assumption.
  - destruct req; cbn [jopt]; auto with c15.
  - destruct c as [c|]; auto with c15.
  - destruct c as [c|]; [|reflexivity]. unfold wf_crash in Hc. splitb.
    destruct (cr_ipu c) as [[|x g]|]; [reflexivity| |reflexivity]. destruct g; obj; fld; auto with c15.
  - destruct c as [c|]; [|reflexivity]. unfold wf_crash in Hc. splitb.
    destruct (cr_accesses c) as [l|]; [|reflexivity]. cbn [jopt]. eapply arr_map; [reflexivity|]. intros x Hx.
    apply access_conforms. match goal with H : forallb wf_access l = true |- _ => rewrite forallb_forall in H; exact (H x Hx) end.
  - destruct c as [c|]; [|reflexivity]. unfold wf_crash in Hc. splitb.
    eapply arr_or_null; [reflexivity|]. intros x Hx.
    apply flip_conforms. match goal with H : forallb wf_flip _ = true |- _ => rewrite forallb_forall in H; exact (H x Hx) end.
  - destruct c; cbn [jopt]; auto with c15.
Qed.

Lemma sys_conforms y : wf_sys y = true -> conforms S_SYS (json_of_sys y) = true.
Proof.
  unfold wf_sys. intro H. splitb. unfold json_of_sys. obj; fld; auto with c15.
  - apply cpu_doc; assumption.
  - destruct (sy_microcode y); cbn [jopt]; auto with c15.
  - apply os_doc; assumption.
Qed.

(* ------------------------------------------------------------------ the small members *)
Lemma lim_conforms t l : t = SEnum [s_unlimited; s_err] SU64 -> wf_lim l = true -> conforms t (json_of_lim l) = true.
Proof. intros -> H. destruct l; try reflexivity. cbn [json_of_lim conforms memb]. cbn [wf_lim] in H. unfold u64b in H. rewrite H. reflexivity. Qed.

Lemma limit_conforms l : wf_lim (li_soft l) = true -> wf_lim (li_hard l) = true ->
  conforms (item (sub1 (sub1 DOC_SCHEMA k_proc_limits) k_limits)) (json_of_limit l) = true.
Proof. intros H1 H2. unfold json_of_limit. obj; fld; auto with c15; apply lim_conforms; (reflexivity || assumption). Qed.

Lemma In_insert x a l : In x (insert_limit a l) -> x = a \/ In x l.
Proof.
  induction l as [|y t IH]; cbn [insert_limit]; [intros [<-|[]]; auto|].
  destruct (str_leb (li_name a) (li_name y)); cbn [In]; intuition.
Qed.
Lemma In_sort x l : In x (sort_limits l) -> In x l.
Proof.
  unfold sort_limits. induction l as [|a t IH]; cbn [fold_right]; [auto|]. intro H. apply In_insert in H.
  destruct H as [->|H]; [left; reflexivity|right; apply IH; exact H].
Qed.

Lemma macrec_conforms w r :
  conforms (item (sub1 (sub1 DOC_SCHEMA k_mac_crash_info) k_records)) (json_of_macrec w r) = true.
Proof. unfold json_of_macrec. obj; fld; auto with c15. Qed.
Lemma handle_conforms h : ou64b (h_handle h) = true ->
  conforms (item (sub1 DOC_SCHEMA k_handles)) (json_of_handle h) = true.
Proof.
  intro H. unfold json_of_handle. obj; fld; auto with c15.
  destruct (h_handle h); [exact H|reflexivity].
Qed.

(* ------------------------------------------------------------------ the whole report *)
(* soft_errors: reported only in the documented shape, for EVERY content of the stream *)
Lemma soft_conforms o : conforms (SArr SAnyObj) (soft_value o) = true.
Proof.
  destruct o as [v|]; [|reflexivity]. unfold soft_value. destruct (soft_ok v) eqn:E; [|reflexivity].
  destruct v as [| | | |l|]; try discriminate E. cbn [soft_ok] in E. cbn [conforms].
  apply forallb_forall. intros e He. rewrite forallb_forall in E. specialize (E e He). destruct e; try discriminate E; reflexivity.
Qed.

Lemma wf_state_ok s : wf_state s = true -> state_ok s.
Proof.
  unfold wf_state, state_ok. intro H. splitb. repeat split.
  - apply Forall_forall. intros t Ht. match goal with H : forallb wf_thread _ = true |- _ => rewrite forallb_forall in H; specialize (H t Ht) end.
    unfold wf_thread in *. splitb. apply wf_frames_ok. assumption.
  - apply Forall_forall. intros m Hm. apply wf_module_ok.
    match goal with H : forallb wf_module (s_modules s) = true |- _ => rewrite forallb_forall in H; exact (H m Hm) end.
  - apply Forall_forall. intros m Hm. apply wf_module_ok.
    match goal with H : forallb wf_module (s_unloaded s) = true |- _ => rewrite forallb_forall in H; exact (H m Hm) end.
  - destruct (s_requesting s); [|exact I]. match goal with H : (_ <? _)%nat = true |- _ => apply Nat.ltb_lt in H; exact H end.
Qed.

Lemma omap_pure_all {A B} (f : A -> outcome B) (g : A -> B) (P : A -> Prop) l :
  (forall a, P a -> f a = Ret (g a)) -> Forall P l -> omap f l = Ret (map g l).
Proof.
  intros Hf H. induction H as [|a t Ha _ IH]; [reflexivity|]. cbn [omap map]. rewrite Hf by exact Ha. cbn [obind]. rewrite IH. reflexivity.
Qed.

Definition tail_obj (s : state) : list (list Z * json) :=
  let w := s_width s in
  [ (k_handles, jopt (fun l => JArr (map json_of_handle l)) (s_handles s));
    (k_linux_memory_map_count, jopt JNum (s_mapcount s));
    (k_lsb_release, jopt (fun l => let '(i, r, c, d) := l in
                                   JObj [(k_codename, JStr c); (k_description, JStr d); (k_id, JStr i); (k_release, JStr r)]) (s_lsb s));
    (k_mac_boot_args, jopt JStr (s_bootargs s));
    (k_mac_crash_info, jopt (fun l => JObj [(k_num_records, JNum (Z.of_nat (length l)));
                                            (k_records, JArr (map (json_of_macrec w) l))]) (s_mac_crash s));
    (k_main_module, JNum 0);
    (k_modules, JArr (map (mod_obj w (s_certinfo s) (s_symstats s)) (s_modules s)));
    (k_modules_contains_cert_info, JBool (match s_certinfo s with [] => false | _ => true end));
    (k_pid, jopt JNum (s_pid s));
    (k_proc_limits, jopt (fun l => JObj [(k_limits, JArr (map json_of_limit (sort_limits l)))]) (s_limits s));
    (k_soft_errors, soft_value (s_soft s));
    (k_status, JStr s_OK);
    (k_system_info, json_of_sys (s_sys s));
    (k_thread_count, JNum (Z.of_nat (length (s_threads s))));
    (k_threads, JArr (map (thread_obj w) (s_threads s)));
    (k_unloaded_modules, JArr (map (unl_obj w (s_certinfo s)) (s_unloaded s)))].

Definition report_obj (s : state) : json :=
  let ci := (k_crash_info, json_of_crash (s_width s) (s_crash s) (s_requesting s) (s_assertion s)) in
  match s_requesting s with
  | None => JObj (ci :: tail_obj s)
  | Some i =>
      match nth_error (s_threads s) i with
      | Some t => match th_frames t with
                  | [] => JObj (ci :: tail_obj s)
                  | _ :: _ => JObj (ci :: (k_crashing_thread,
                                           crashing_copy (json_registers (s_registers s)) i (thread_obj (s_width s) t)) :: tail_obj s)
                  end
      | None => JNull
      end
  end.

(* for a well-formed state the report is this pure object, in both build profiles (no trap) *)
Lemma report_pure p s : wf_state s = true -> json_of_state p s = Ret (report_obj s).
Proof.
  intro Hw. pose proof (wf_state_ok s Hw) as (Hto & Hmo & Huo & Hro). unfold wf_state in Hw. splitb.
  unfold json_of_state, report_obj.
  rewrite (omap_pure_all _ (thread_obj (s_width s)) (fun t => wf_thread t = true))
    by (try (intros; apply thread_pure; assumption); apply Forall_forall; apply forallb_forall; assumption).
  rewrite (omap_pure_all _ (mod_obj (s_width s) (s_certinfo s) (s_symstats s)) module_ok)
    by (try (intros; apply module_json; assumption); assumption).
  rewrite (omap_pure_all _ (unl_obj (s_width s) (s_certinfo s)) module_ok)
    by (try (intros; apply unloaded_json; assumption); assumption).
  cbn [obind]. destruct (s_requesting s) as [i|]; [|reflexivity].
  rewrite nth_error_map. destruct (nth_error (s_threads s) i) as [t|] eqn:E.
  - cbn [option_map]. destruct (th_frames t); reflexivity.
  - apply nth_error_None in E. lia.
Qed.

Lemma tail_fields s : wf_state s = true ->
  Forall (fun kv => field_ok (match DOC_SCHEMA with SObj fs => fs | _ => [] end) kv = true) (tail_obj s).
Proof.
  intro Hw. unfold wf_state in Hw. splitb. unfold tail_obj. cbv zeta.
  repeat (apply Forall_cons || apply Forall_nil); fld; auto with c15; try reflexivity.
  - destruct (s_handles s) as [l|]; [|reflexivity]. cbn [jopt]. eapply arr_map; [reflexivity|]. intros h Hh.
    apply handle_conforms. match goal with H : forallb _ l = true |- _ => rewrite forallb_forall in H; exact (H h Hh) end.
  - destruct (s_lsb s) as [[[[i r] c] d]|]; [|reflexivity]. cbn [jopt]. obj; fld; auto with c15.
  - destruct (s_mac_crash s) as [l|]; [|reflexivity]. cbn [jopt]. splitb. obj; fld; auto with c15.
    eapply arr_map; [reflexivity|]. intros; apply macrec_conforms.
  - eapply arr_map; [reflexivity|]. intros; apply module_conforms.
  - destruct (s_limits s) as [l|]; [|reflexivity]. cbn [jopt]. obj; fld.
    eapply arr_map; [reflexivity|]. intros x Hx. apply In_sort in Hx.
    match goal with H : forallb _ l = true |- _ => rewrite forallb_forall in H; specialize (H x Hx) end. splitb.
    apply limit_conforms; assumption.
  - apply soft_conforms.
  - apply sys_conforms. assumption.
  - eapply arr_map; [reflexivity|]. intros t Ht. apply thread_conforms.
    match goal with H : forallb wf_thread _ = true |- _ => rewrite forallb_forall in H; exact (H t Ht) end.
  - eapply arr_map; [reflexivity|]. intros; apply unloaded_conforms.
Qed.

Lemma report_conforms s : wf_state s = true -> conforms DOC_SCHEMA (report_obj s) = true.
Proof.
  intro Hw. pose proof (tail_fields s Hw) as T. pose proof Hw as Hw0. unfold wf_state in Hw. splitb.
  assert (Hci : field_ok (match DOC_SCHEMA with SObj fs => fs | _ => [] end)
                  (k_crash_info, json_of_crash (s_width s) (s_crash s) (s_requesting s) (s_assertion s)) = true).
  { fld. apply crash_conforms.
    - destruct (s_crash s); [assumption|exact I].
    - destruct (s_requesting s) as [i|]; [|exact I].
      match goal with H : (i <? _)%nat = true, H2 : natu32b (length (s_threads s)) = true |- _ =>
        apply Nat.ltb_lt in H; unfold natu32b in *; apply Z.ltb_lt in H2; apply Z.ltb_lt; lia end. }
  assert (Hbase : conforms DOC_SCHEMA (JObj ((k_crash_info, json_of_crash (s_width s) (s_crash s) (s_requesting s) (s_assertion s)) :: tail_obj s)) = true).
  { eapply obj_intro; [reflexivity|reflexivity|]. constructor; assumption. }
  unfold report_obj. destruct (s_requesting s) as [i|] eqn:Er; [|exact Hbase].
  destruct (nth_error (s_threads s) i) as [t|] eqn:Et; [|reflexivity].
  destruct (th_frames t) as [|f0 fs] eqn:Ef; [exact Hbase|].
  eapply obj_intro; [reflexivity|reflexivity|]. constructor; [exact Hci|]. constructor; [|exact T].
  fld. apply cthread_conforms.
  - match goal with H : forallb wf_thread _ = true |- _ => rewrite forallb_forall in H; apply H end. eapply nth_error_In; exact Et.
  - match goal with H : (i <? _)%nat = true, H2 : natu32b (length (s_threads s)) = true |- _ =>
      apply Nat.ltb_lt in H; unfold natu32b in *; apply Z.ltb_lt in H2; apply Z.ltb_lt; lia end.
  - rewrite Ef. discriminate.
  - apply registers_conforms; assumption.
Qed.
