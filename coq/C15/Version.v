(* C15/Version.v — modules[].version: MinidumpModule::version (minidump/src/minidump.rs), interpreted from the arms that
   translate/c15_fmt.py reads off the source (Gen/C15Fmt.v: the two constants the VS_FIXEDFILEINFO must carry, the Os variants that take the
   16-bit split, the four format! arguments of each arm).  u32 fields; `>>` and `&` cannot trap.  Definitions only. *)
From RM Require Import C15.Model Gen.C15Fmt.
Open Scope Z_scope.

Record verinfo := { vi_sig : Z; vi_struct : Z; vi_fhi : Z; vi_flo : Z; vi_phi : Z; vi_plo : Z }.
Definition vi_field (v : verinfo) (i : Z) : Z :=
  if i =? 0 then vi_fhi v else if i =? 1 then vi_flo v else if i =? 2 then vi_phi v else vi_plo v.
Definition ver_comp (v : verinfo) (a : Z * Z * Z) : Z :=
  let '(f, op, n) := a in
  let x := vi_field v f in
  if op =? 1 then Z.shiftr x n else if op =? 2 then Z.land x n else x.
(* format!("{}.{}.{}.{}", ..): decimal numbers joined by '.' *)
Definition join_dots (l : list Z) : list Z :=
  match map dec_digits l with [] => [] | h :: t => h ++ flat_map (fun d => 46 :: d) t end.
Definition module_version (os : Z) (v : verinfo) : option (list Z) :=
  if (vi_sig v =? VERSION_SIGNATURE) && (vi_struct v =? VERSION_STRUCVERSION)
  then Some (join_dots (map (ver_comp v) (if existsb (Z.eqb os) VERSION_SPLIT_OS then VERSION_ARM_SPLIT else VERSION_ARM_ELSE)))
  else None.
