(* C15/Widths.v — executable: every Address-valued member of a report is padded to the pointer width. *)
From RM Require Export C15.Model C15.Schema.
Open Scope Z_scope.

(* `{:#010x}`: at least 8 digits (exactly 8 when the value fits in 32 bits, see c15_hex_width); `{:#018x}`: exactly 16 *)
Definition width_ok (w : pwidth) (x : list Z) : bool :=
  is_hexstring x && match w with W32 => (10 <=? length x)%nat | _ => (length x =? 18)%nat end.

(* the member names that carry an Address (json_hex / Address::serialize) in print_json *)
Definition ADDRESS_KEYS : list (list Z) :=
  [k_address; k_offset; k_offsets; k_module_offset; k_function_offset; k_base_addr; k_end_addr;
   k_thread; k_dialog_mode; k_abort_cause].

(* [k] is the name of the enclosing member; the free-form content of "soft_errors" (objects written by the dump writer, member
   names of their own) is not judged *)
Fixpoint widths (w : pwidth) (k : list Z) (v : json) {struct v} : bool :=
  match v with
  | JStr x => if memb k ADDRESS_KEYS then width_ok w x else true
  | JArr l => forallb (widths w k) l
  | JObj l => forallb (fun kv => let '(k', v') := kv in if list_eqb k' k_soft_errors then true else widths w k' v') l
  | _ => true
  end.

(* register values are not Addresses: their width is the register's (format_register); a register name is never an
   Address member name for the register files of minidump-common — made a hypothesis of the state *)
Definition regs_named_ok (regs : list (list Z * Z * nat)) : bool :=
  forallb (fun r : list Z * Z * nat => negb (memb (fst (fst r)) ADDRESS_KEYS)) regs.
