(* C15/Driver.v — entry points of the correspondence run (extracted to OCaml). *)
From RM Require Import C15.Model C15.Schema C15.Widths C15.Utf8 C15.Pretty C15.Scalar C15.Regs C15.Consistent C15.Offsets C15.KeyOrder C15.Float C15.FnOffsets C15.Version.
From RM Require C19.Model.
Open Scope Z_scope.

(* the modelled report; None = a trap on the modelled path.  keep_soft = false: the state's soft_errors value holds a
   float (outside the model's JSON numbers), the harness removed the member from the real view and the model drops it too *)
Definition drop_soft (j : json) : json :=
  match j with JObj l => JObj (filter (fun kv => negb (list_eqb (fst kv) k_soft_errors)) l) | x => x end.
Definition run_report (p : profile) (keep_soft : bool) (s : state) : option json :=
  match json_of_state p s with Ret j => Some (if keep_soft then j else drop_soft j) | _ => None end.
(* print_json(pretty = false) / print_json(pretty = true) *)
Definition render_compact (j : json) : list Z := serialise j.
Definition render_pretty (j : json) : list Z := pretty j.
(* the state's soft_errors value arrives as the UTF-8 bytes of its compact rendering *)
Definition parse_soft (bytes : list Z) : option json :=
  match utf8_decode (length bytes) bytes with Some cps => parse cps | None => None end.
(* the REAL pretty output is accepted by the whitespace-tolerant parser of c15_pretty_parse and is the same value as the
   real compact output *)
Definition pretty_ok (pretty_doc compact_doc : list Z) : bool :=
  match parse_ws pretty_doc, parse compact_doc with
  | Some a, Some b => list_eqb (serialise a) (serialise b)
  | _, _ => false
  end.

(* the model's parser on a document produced by the real writer: it must be accepted and
   re-serialise to the same code points *)
Definition reparse_ok (doc : list Z) : bool :=
  match parse doc with Some j => list_eqb (serialise j) doc | None => false end.

Definition mk_width (w : Z) : pwidth := if w =? 0 then W32 else if w =? 1 then W64 else WUnknown.

(* the binary32 confidence of a reported bit flip, recomputed from the details the report prints next to it
   (C19's exact Flocq model of BitFlipDetails::confidence); compared with f32::to_bits of the real value *)
Definition flip_confidence_bits (b : flip) : Z := flip_conf_bits b.

(* the TEXT print_json writes for that confidence (c15_confidence_text: binary32 widened to binary64, shortest decimal that reads
   back, ryu's layout); compared byte for byte with the number in the real compact output *)
Definition flip_confidence_text (b : flip) : list Z := flip_conf_text b.
(* the judgement of c15_confidence_text on the REAL text against f32::to_bits of the real value *)
Definition real_confidence_ok (bits : Z) (text : list Z) : bool := conf_text_ok bits text.

(* modules[].version from the raw VS_FIXEDFILEINFO fields of the module and the OS of the dump (c15_module_version: the arms regenerated from
   MinidumpModule::version) *)
Definition mk_version (os sg st fhi flo phi plo : Z) : option (list Z) :=
  module_version os {| vi_sig := sg; vi_struct := st; vi_fhi := fhi; vi_flo := flo; vi_phi := phi; vi_plo := plo |}.

(* the hypotheses of c15_schema_conformance / c15_address_widths / c15_report_valid, evaluated on a real process state *)
Definition wf_ok (s : state) : bool := wf_state s && regs_named_ok (s_registers s) && state_scalar s.

(* the registers of the requesting thread's frame 0 come from the register file of its raw context kind (c15_register_tables) *)
Definition regs_ok (kind : Z) (s : state) : bool :=
  match s_registers s with [] => true | _ :: _ => regs_from_table kind (s_registers s) end.

(* the theorem's conclusion evaluated on the REAL output: the model's parser reads the real document and the
   Gallina checker judges it against the schema regenerated from json-schema.md *)
Definition real_conforms (doc : list Z) : bool :=
  match parse doc with Some j => conforms DOC_SCHEMA j | None => false end.

(* c15_consistent's conclusion evaluated on the REAL output *)
Definition real_consistent (doc : list Z) : bool :=
  match parse doc with Some j => consistent j | None => false end.

(* c15_offsets_checker's conclusion evaluated on the REAL output, and its hypothesis on the real state *)
Definition real_offsets (doc : list Z) : bool :=
  match parse doc with Some j => offsets_ok j | None => false end.
Definition mods_ok (s : state) : bool := frames_in_modules s.
(* c15_function_offsets' conclusion evaluated on the REAL output against the function bases of the real state *)
Definition real_fn_offsets (s : state) (doc : list Z) : bool :=
  match parse doc with Some j => fn_offsets_ok s j | None => false end.
(* c15_keys_sorted: its hypothesis on the real state, its conclusion on the REAL output *)
Definition keys_ok (s : state) : bool := keys_hyp s.
Definition real_sorted (doc : list Z) : bool :=
  match parse doc with Some j => keys_sorted j | None => false end.

(* c15_address_widths' conclusion evaluated on the REAL output *)
Definition real_widths (w : pwidth) (doc : list Z) : bool :=
  match parse doc with Some j => widths w [] j | None => false end.

(* bytes <-> code points through the Gallina UTF-8 encoder / strict decoder of theorem c15_utf8 (the OCaml glue has no UTF-8
   code of its own): the model's bytes are compared with the real bytes, the real bytes must decode *)
Definition encode_utf8 (s : list Z) : list Z := utf8 s.
Definition decode_utf8 (b : list Z) : option (list Z) := utf8_decode (length b) b.
