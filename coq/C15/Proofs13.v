(* C15/Proofs13.v — [parse_ws] is a conservative extension of the whitespace-free parser [parse]: every document [parse] accepts
   is accepted by [parse_ws] with the same value. *)
From Coq Require Import Lia.
From RM Require Import C15.Model C15.Pretty C15.Proofs C15.Proofs6.
Open Scope Z_scope.

Lemma parse_nat_head c r n rest : parse_nat (c :: r) = Some (n, rest) -> 48 <= c <= 57.
Proof.
  unfold parse_nat. cbn [uint_of_chars]. destruct ((c <? 48) || (57 <? c)) eqn:E; [discriminate|].
  intros _. apply orb_false_iff in E. destruct E as [A B]. apply Z.ltb_ge in A, B. lia.
Qed.

(* the first character of anything parse_val accepts is not whitespace *)
Lemma parse_val_head f c r v rest : parse_val f (c :: r) = Some (v, rest) -> is_ws c = false.
Proof.
  destruct f as [|f]; [discriminate|]. cbn [parse_val].
  destruct (c =? 110) eqn:E1; [apply Z.eqb_eq in E1; subst; reflexivity|].
  destruct (c =? 116) eqn:E2; [apply Z.eqb_eq in E2; subst; reflexivity|].
  destruct (c =? 102) eqn:E3; [apply Z.eqb_eq in E3; subst; reflexivity|].
  destruct (c =? 34) eqn:E4; [apply Z.eqb_eq in E4; subst; reflexivity|].
  destruct (c =? 91) eqn:E5; [apply Z.eqb_eq in E5; subst; reflexivity|].
  destruct (c =? 123) eqn:E6; [apply Z.eqb_eq in E6; subst; reflexivity|].
  destruct (c =? 45) eqn:E7; [apply Z.eqb_eq in E7; subst; reflexivity|].
  destruct (parse_nat (c :: r)) as [[n rest']|] eqn:P; [|discriminate]. intros _.
  apply parse_nat_head in P. apply not_ws; lia.
Qed.

Lemma skip_ws_val f s v rest : parse_val f s = Some (v, rest) -> skip_ws s = s.
Proof.
  destruct s as [|c r]; [reflexivity|]. intro H. apply skip_ws_head. eapply parse_val_head. exact H.
Qed.

Lemma ext_fuel : forall f,
  (forall s v rest, parse_val f s = Some (v, rest) -> pw_val f s = Some (v, rest)) /\
  (forall s l rest, parse_elems f s = Some (l, rest) -> pw_elems f s = Some (l, rest)) /\
  (forall s l rest, parse_members f s = Some (l, rest) -> pw_members f s = Some (l, rest)).
Proof.
  induction f as [|f (IHv & IHe & IHm)]; [repeat split; intros; discriminate|]. repeat split.
  - (* values *)
    intros s v rest H. pose proof (skip_ws_val _ _ _ _ H) as Hs. cbn [pw_val]. rewrite Hs.
    destruct s as [|c r]; [discriminate H|]. cbn [parse_val] in H.
    destruct (c =? 110); [exact H|]. destruct (c =? 116); [exact H|]. destruct (c =? 102); [exact H|]. destruct (c =? 34); [exact H|].
    destruct (c =? 91).
    { destruct r as [|c2 r']; [discriminate H|]. destruct (c2 =? 93) eqn:E93.
      - apply Z.eqb_eq in E93. subst c2. rewrite skip_ws_head by reflexivity. exact H.
      - destruct (parse_elems f (c2 :: r')) as [[l rest']|] eqn:PE; [|discriminate H].
        assert (W : is_ws c2 = false).
        { destruct f as [|f']; [discriminate PE|]. cbn [parse_elems] in PE.
          destruct (parse_val f' (c2 :: r')) as [[v0 r0]|] eqn:PV; [|discriminate PE]. eapply parse_val_head. exact PV. }
        rewrite (skip_ws_head c2 r' W), E93, (IHe _ _ _ PE). exact H. }
    destruct (c =? 123).
    { destruct r as [|c2 r']; [discriminate H|]. destruct (c2 =? 125) eqn:E125.
      - apply Z.eqb_eq in E125. subst c2. rewrite skip_ws_head by reflexivity. exact H.
      - destruct (parse_members f (c2 :: r')) as [[l rest']|] eqn:PM; [|discriminate H].
        assert (W : is_ws c2 = false).
        { destruct f as [|f']; [discriminate PM|]. cbn [parse_members] in PM.
          destruct (c2 =? 34) eqn:E34; [apply Z.eqb_eq in E34; subst; reflexivity|discriminate PM]. }
        rewrite (skip_ws_head c2 r' W), E125, (IHm _ _ _ PM). exact H. }
    exact H.
  - (* elements *)
    intros s l rest H. cbn [parse_elems] in H. cbn [pw_elems].
    destruct (parse_val f s) as [[v r0]|] eqn:PV; [|discriminate H]. rewrite (IHv _ _ _ PV).
    destruct r0 as [|c r]; [discriminate H|].
    destruct (c =? 44) eqn:E44.
    + apply Z.eqb_eq in E44. subst c. rewrite skip_ws_head by reflexivity. change (44 =? 44) with true. cbn iota.
      destruct (parse_elems f r) as [[l' rest']|] eqn:PE; [|discriminate H]. rewrite (IHe _ _ _ PE). exact H.
    + destruct (c =? 93) eqn:E93; [|discriminate H]. apply Z.eqb_eq in E93. subst c. rewrite skip_ws_head by reflexivity. exact H.
  - (* members *)
    intros s l rest H. cbn [parse_members] in H. cbn [pw_members].
    destruct s as [|c r]; [discriminate H|]. destruct (c =? 34) eqn:E34; [|discriminate H].
    apply Z.eqb_eq in E34. subst c. rewrite skip_ws_head by reflexivity. change (34 =? 34) with true. cbn iota.
    destruct (parse_str r) as [[k r1]|]; [|discriminate H]. destruct r1 as [|c1 r1']; [discriminate H|].
    destruct (c1 =? 58) eqn:E58; [|discriminate H]. apply Z.eqb_eq in E58. subst c1. rewrite skip_ws_head by reflexivity.
    change (58 =? 58) with true. cbn iota.
    destruct (parse_val f r1') as [[v r2]|] eqn:PV; [|discriminate H]. rewrite (IHv _ _ _ PV).
    destruct r2 as [|c2 r2']; [discriminate H|].
    destruct (c2 =? 44) eqn:E44.
    + apply Z.eqb_eq in E44. subst c2. rewrite skip_ws_head by reflexivity. change (44 =? 44) with true. cbn iota.
      destruct (parse_members f r2') as [[l' rest']|] eqn:PM; [|discriminate H]. rewrite (IHm _ _ _ PM). exact H.
    + destruct (c2 =? 125) eqn:E125; [|discriminate H]. apply Z.eqb_eq in E125. subst c2. rewrite skip_ws_head by reflexivity. exact H.
Qed.

Lemma parse_ws_extends s v : parse s = Some v -> parse_ws s = Some v.
Proof.
  unfold parse, parse_ws. destruct (parse_val (S (length s)) s) as [[v' rest]|] eqn:P; [|discriminate].
  destruct rest; [|discriminate]. intro H. rewrite (proj1 (ext_fuel _) _ _ _ P). exact H.
Qed.
