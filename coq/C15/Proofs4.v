(* C15/Proofs4.v — every Address-valued member of the report of a well-formed state is padded to the
   state's pointer width. *)
From Coq Require Import Lia.
From RM Require Import C15.Model C15.Schema C15.Widths C15.Proofs C15.Proofs2 C15.Proofs3.
Open Scope Z_scope.

Lemma u64b_range x : u64b x = true -> 0 <= x < two64.
Proof. unfold u64b. intro H. apply andb_prop in H. destruct H as [A B]. apply Z.leb_le in A. apply Z.ltb_lt in B. lia. Qed.

Lemma width_addr w x : u64b x = true -> width_ok w (address_str w x) = true.
Proof.
  intro H. apply u64b_range in H. unfold width_ok. rewrite hex_addr. cbn [andb].
  destruct (address_width w x H) as (A & B & C & _).
  destruct w.
  - apply Nat.leb_le. destruct (Z_lt_ge_dec x two32) as [L|G]; [rewrite (B eq_refl L); lia|].
    unfold address_str. assert (E : (x <? two32) = false) by (apply Z.ltb_ge; lia). rewrite E.
    cbn [length].
    (* a value >= 2^32 has at least 9 significant digits *)
    pose proof (hex_fixed_length 16 x) as L16.
    assert (V : hex_value (strip0 (hex_fixed 16 x)) = x).
    { assert (S : forall l, hex_value (strip0 l) = hex_value l).
      { induction l as [|c t IH]; [reflexivity|]. destruct t as [|c2 t2]; [destruct c as [|q|q]; try reflexivity;
          repeat (destruct q as [q|q|]; try reflexivity)|].
        assert (D : strip0 (c :: c2 :: t2) = (if c =? 48 then strip0 (c2 :: t2) else c :: c2 :: t2)).
        { destruct (c =? 48) eqn:E0; [apply Z.eqb_eq in E0; subst c; reflexivity|].
          cbn [strip0]. destruct c as [|q|q]; try reflexivity. repeat (destruct q as [q|q|]; try reflexivity). discriminate E0. }
        rewrite D. destruct (c =? 48) eqn:E0; [|reflexivity]. apply Z.eqb_eq in E0. subst c. rewrite IH.
        unfold hex_value. cbn [fold_left]. reflexivity. }
      rewrite S. rewrite hex_fixed_value by lia. apply Z.mod_small. change (16 ^ Z.of_nat 16) with two64. lia. }
    assert (B8 : forall l, Forall is_lower_hex l -> 0 <= hex_value l < 16 ^ Z.of_nat (length l)).
    { induction l as [|c t IH] using rev_ind; intro F; [cbn; lia|].
      apply Forall_app in F. destruct F as [Ft Fc]. inversion Fc as [|? ? Hc _]; subst.
      rewrite hex_value_app, app_length. cbn [length]. rewrite Nat.add_1_r, Nat2Z.inj_succ, Z.pow_succ_r by lia.
      specialize (IH Ft). unfold is_lower_hex in Hc.
      assert (0 <= (if c <? 58 then c - 48 else c - 87) < 16).
      { destruct (c <? 58) eqn:E5; [apply Z.ltb_lt in E5|apply Z.ltb_ge in E5]; lia. }
      nia. }
    pose proof (strip0_sub _ (hex_fixed_lower 16 x)) as (S1 & _ & _).
    specialize (B8 _ S1). rewrite V in B8.
    destruct (le_lt_dec 8 (length (strip0 (hex_fixed 16 x)))) as [Ok|Bad]; [lia|exfalso].
    assert (16 ^ Z.of_nat (length (strip0 (hex_fixed 16 x))) <= 16 ^ 8) by (apply Z.pow_le_mono_r; lia).
    change (16 ^ 8) with two32 in *. lia.
  - rewrite A by discriminate. reflexivity.
  - rewrite A by discriminate. reflexivity.
Qed.

Definition addr_key (k : list Z) : Prop := memb k ADDRESS_KEYS = true.

Lemma w_hex w k x : u64b x = true -> widths w k (jhex w x) = true.
Proof. intro H. unfold jhex. cbn [widths]. destruct (memb k ADDRESS_KEYS); [apply width_addr; exact H|reflexivity]. Qed.
Lemma w_ohex w k o : ou64b o = true -> widths w k (jopt (jhex w) o) = true.
Proof. destruct o; [apply w_hex|reflexivity]. Qed.
Lemma w_obj w k l : Forall (fun kv => widths w (fst kv) (snd kv) = true) l -> widths w k (JObj l) = true.
Proof.
  intro H. cbn [widths]. apply forallb_forall. rewrite Forall_forall in H. intros [k' v'] Hin.
  destruct (list_eqb k' k_soft_errors); [reflexivity|exact (H _ Hin)].
Qed.
Lemma w_obj_soft w k l : Forall (fun kv => fst kv = k_soft_errors \/ widths w (fst kv) (snd kv) = true) l -> widths w k (JObj l) = true.
Proof.
  intro H. cbn [widths]. apply forallb_forall. rewrite Forall_forall in H. intros [k' v'] Hin.
  destruct (H _ Hin) as [E|E]; cbn [fst snd] in E; [subst k'; reflexivity|].
  destruct (list_eqb k' k_soft_errors); [reflexivity|exact E].
Qed.
Lemma w_arr_map {A} w k (f : A -> json) l : (forall a, In a l -> widths w k (f a) = true) -> widths w k (JArr (map f l)) = true.
Proof.
  intro H. cbn [widths]. apply forallb_forall. intros v Hv. apply in_map_iff in Hv. destruct Hv as (a & <- & Ha). exact (H a Ha).
Qed.
Lemma w_arr_or_null {A} w k (f : A -> json) l : (forall a, In a l -> widths w k (f a) = true) ->
  widths w k (match l with [] => JNull | a :: r => JArr (map f (a :: r)) end) = true.
Proof. intro H. destruct l; [reflexivity|]. apply w_arr_map. exact H. Qed.
Lemma w_ostr w k o : memb k ADDRESS_KEYS = false -> widths w k (jopt JStr o) = true.
Proof. intro H. destruct o; [cbn [jopt widths]; rewrite H|]; reflexivity. Qed.
Lemma w_onum w k o : widths w k (jopt JNum o) = true.
Proof. destruct o; reflexivity. Qed.

Ltac wobj := apply w_obj; repeat (apply Forall_cons || apply Forall_nil); cbn [fst snd].
Ltac wleaf := first [ reflexivity | apply w_onum | (apply w_ostr; reflexivity) | (apply w_hex; assumption) | (apply w_ohex; assumption) ].

Lemma sub_u64 a b : u64b a = true -> (0 <=? b) && (b <=? a) = true -> u64b (a - b) = true.
Proof.
  intros Ha Hb. apply u64b_range in Ha. apply andb_prop in Hb. destruct Hb as [B1 B2]. apply Z.leb_le in B1, B2.
  unfold u64b. apply andb_true_iff. split; [apply Z.leb_le|apply Z.ltb_lt]; lia.
Qed.

Lemma frame_fields_w w idx f : wf_frame f = true ->
  Forall (fun kv => widths w (fst kv) (snd kv) = true) (match frame_obj w idx f with JObj l => l | _ => [] end).
Proof.
  intro Hw. unfold wf_frame in Hw. splitb. unfold frame_obj.
  repeat (apply Forall_cons || apply Forall_nil); cbn [fst snd]; try wleaf.
  - destruct (fr_function_base f); [apply w_hex; apply sub_u64; assumption|reflexivity].
  - apply w_arr_or_null. intros a _. unfold json_of_inline. wobj; wleaf.
  - destruct (fr_module f); reflexivity.
  - destruct (fr_module f) as [[nm b]|]; [apply w_hex; apply sub_u64; assumption|reflexivity].
  - apply w_arr_or_null. intros a Ha. wobj; try wleaf. apply w_arr_map. intros o Ho. apply w_hex.
    match goal with H : forallb _ (fr_unloaded f) = true |- _ => rewrite forallb_forall in H; specialize (H a Ha); rewrite forallb_forall in H; exact (H o Ho) end.
Qed.
Lemma frame_w w k idx f : wf_frame f = true -> widths w k (frame_obj w idx f) = true.
Proof. intro H. apply (w_obj w k). exact (frame_fields_w w idx f H). Qed.

Lemma registers_widths w k regs : regs_named_ok regs = true -> widths w k (json_registers regs) = true.
Proof.
  intro H. unfold json_registers. cbn [widths]. apply forallb_forall. intros [k' v'] Hin. apply in_map_iff in Hin.
  destruct Hin as (r & E & Hr). inversion E; subst. unfold regs_named_ok in H. rewrite forallb_forall in H. specialize (H r Hr).
  cbn [widths]. apply negb_true_iff in H. rewrite H. destruct (list_eqb (fst (fst r)) k_soft_errors); reflexivity.
Qed.

Lemma frames_w w l : forallb wf_frame l = true -> forall idx,
  Forall (fun v => widths w k_frames v = true) (map (fun q => frame_obj w (fst q) (snd q)) (combine (seq idx (length l)) l)).
Proof.
  induction l as [|f t IH]; intros Hw idx; [constructor|]. cbn [forallb] in Hw. splitb.
  cbn [length seq combine map fst snd]. constructor; [apply frame_w; assumption|apply IH; assumption].
Qed.

Lemma thread_w w k t : wf_thread t = true -> widths w k (thread_obj w t) = true.
Proof.
  unfold wf_thread. intro H. splitb. unfold thread_obj. wobj; try wleaf.
  cbn [widths]. apply forallb_forall. apply Forall_forall. apply frames_w. assumption.
Qed.

Lemma cthread_w w k t i regs : wf_thread t = true -> regs_named_ok regs = true ->
  widths w k (crashing_copy (json_registers regs) i (thread_obj w t)) = true.
Proof.
  unfold wf_thread. intros H Hr. splitb. unfold thread_obj.
  destruct (th_frames t) as [|f0 fs] eqn:E.
  - cbn [length seq combine map crashing_copy]. wobj; wleaf.
  - cbn [length seq combine map fst snd crashing_copy].
    match goal with H : forallb wf_frame (_ :: _) = true |- _ => cbn [forallb] in H end. splitb.
    wobj; try wleaf. cbn [widths forallb]. apply andb_true_iff. split.
    + pose proof (frame_fields_w w 0 f0 ltac:(assumption)) as F. unfold frame_obj in *. cbn [add_registers firstn skipn app].
      apply w_obj.
      repeat match goal with H : Forall _ (_ :: _) |- _ => inversion H; clear H; subst end.
      repeat (apply Forall_cons || apply Forall_nil); try assumption. cbn [fst snd]. apply registers_widths. exact Hr.
    + apply forallb_forall. apply Forall_forall. apply (frames_w w fs). assumption.
Qed.

Lemma wf_module_u64 m : wf_module m = true -> u64b (m_base m) = true /\ u64b (m_base m + m_size m) = true.
Proof.
  unfold wf_module, u64b. intro H. splitb.
  repeat match goal with H : (_ <=? _) = true |- _ => apply Z.leb_le in H | H : (_ <? _) = true |- _ => apply Z.ltb_lt in H end.
  split; apply andb_true_iff; split; try apply Z.leb_le; try apply Z.ltb_lt; lia.
Qed.
Lemma module_w w k certs stats m : wf_module m = true -> widths w k (mod_obj w certs stats m) = true.
Proof. intro H. destruct (wf_module_u64 m H). unfold mod_obj. cbv zeta. wobj; wleaf. Qed.
Lemma unloaded_w w k certs m : wf_module m = true -> widths w k (unl_obj w certs m) = true.
Proof. intro H. destruct (wf_module_u64 m H). unfold unl_obj. wobj; wleaf. Qed.

Lemma crash_w w k c req a : match c with Some c => wf_crash c = true | None => True end ->
  widths w k (json_of_crash w c req a) = true.
Proof.
  intro Hc. unfold json_of_crash. wobj; try wleaf.
  - destruct c as [c|]; [|reflexivity]. unfold wf_crash in Hc. splitb. cbn [jopt]. wleaf.
  - destruct c as [c|]; [|reflexivity]. unfold wf_crash in Hc. splitb.
    destruct (cr_adjusted c) as [[x|x]|]; [| |reflexivity]; wobj; wleaf.
  - destruct c as [c|]; [|reflexivity]. cbn [jopt]. apply w_arr_map. intros; reflexivity.
  - destruct req; reflexivity.
  - destruct c as [c|]; [|reflexivity]. wleaf.
  - destruct c as [c|]; [|reflexivity]. unfold wf_crash in Hc. splitb.
    destruct (cr_ipu c) as [[|x g]|]; [reflexivity| |reflexivity]. destruct g; wobj; wleaf.
  - destruct c as [c|]; [|reflexivity]. unfold wf_crash in Hc. splitb.
    destruct (cr_accesses c) as [l|]; [|reflexivity]. cbn [jopt]. apply w_arr_map. intros x Hx.
    match goal with H : forallb wf_access l = true |- _ => rewrite forallb_forall in H; specialize (H x Hx) end.
    unfold wf_access in *. splitb. unfold json_of_access.
    destruct (a_type x <? 3); destruct (a_guard x); cbn [app]; wobj; wleaf.
  - destruct c as [c|]; [|reflexivity]. unfold wf_crash in Hc. splitb.
    apply w_arr_or_null. intros x Hx.
    match goal with H : forallb wf_flip _ = true |- _ => rewrite forallb_forall in H; specialize (H x Hx) end.
    unfold wf_flip in *. splitb. unfold json_of_flip. wobj; try wleaf.
  - destruct c; reflexivity.
Qed.

Lemma tail_w s : wf_state s = true ->
  Forall (fun kv => fst kv = k_soft_errors \/ widths (s_width s) (fst kv) (snd kv) = true) (tail_obj s).
Proof.
  intro Hw. unfold wf_state in Hw. splitb. unfold tail_obj. cbv zeta.
  repeat (apply Forall_cons || apply Forall_nil); cbn [fst snd]; try (left; reflexivity); right; try wleaf.
  - destruct (s_handles s) as [l|]; [|reflexivity]. cbn [jopt]. apply w_arr_map. intros h _. unfold json_of_handle. wobj; wleaf.
  - destruct (s_lsb s) as [[[[i r] c] d]|]; [|reflexivity]. cbn [jopt]. wobj; wleaf.
  - destruct (s_mac_crash s) as [l|]; [|reflexivity]. cbn [jopt]. splitb. wobj; try wleaf.
    apply w_arr_map. intros r Hr.
    match goal with H : forallb wf_macrec l = true |- _ => rewrite forallb_forall in H; specialize (H r Hr) end.
    unfold wf_macrec in *. splitb. unfold json_of_macrec. wobj; wleaf.
  - apply w_arr_map. intros m Hm. apply module_w.
    match goal with H : forallb wf_module (s_modules s) = true |- _ => rewrite forallb_forall in H; exact (H m Hm) end.
  - destruct (s_limits s) as [l|]; [|reflexivity]. cbn [jopt]. wobj. apply w_arr_map. intros x _. unfold json_of_limit.
    wobj; try wleaf; destruct (li_hard x), (li_soft x); reflexivity.
  - unfold json_of_sys. wobj; try wleaf. destruct (sy_microcode (s_sys s)); reflexivity.
  - apply w_arr_map. intros t Ht. apply thread_w.
    match goal with H : forallb wf_thread _ = true |- _ => rewrite forallb_forall in H; exact (H t Ht) end.
  - apply w_arr_map. intros m Hm. apply unloaded_w.
    match goal with H : forallb wf_module (s_unloaded s) = true |- _ => rewrite forallb_forall in H; exact (H m Hm) end.
Qed.

Lemma report_widths s : wf_state s = true -> regs_named_ok (s_registers s) = true ->
  widths (s_width s) [] (report_obj s) = true.
Proof.
  intros Hw Hr. pose proof (tail_w s Hw) as T. pose proof Hw as Hw0. unfold wf_state in Hw. splitb.
  assert (Hci : widths (s_width s) k_crash_info (json_of_crash (s_width s) (s_crash s) (s_requesting s) (s_assertion s)) = true).
  { apply crash_w. destruct (s_crash s); [assumption|exact I]. }
  unfold report_obj. destruct (s_requesting s) as [i|] eqn:Er.
  - destruct (nth_error (s_threads s) i) as [t|] eqn:Et; [|reflexivity].
    destruct (th_frames t) as [|f0 fs] eqn:Ef.
    + apply w_obj_soft. constructor; [right; exact Hci|exact T].
    + apply w_obj_soft. constructor; [right; exact Hci|]. constructor; [|exact T]. right. cbn [fst snd]. apply cthread_w; [|exact Hr].
      match goal with H : forallb wf_thread _ = true |- _ => rewrite forallb_forall in H; apply H end. eapply nth_error_In; exact Et.
  - apply w_obj_soft. constructor; [right; exact Hci|exact T].
Qed.
