(* C15/Proofs5.v — the bytes of the report are valid UTF-8 that decodes to the serialised code points. *)
From Coq Require Import Lia.
From RM Require Import C15.Model C15.Utf8 C15.Proofs.
Open Scope Z_scope.

Ltac btrue :=
  repeat match goal with
         | |- context [?a <? ?b] => let H := fresh in destruct (Z.ltb_spec a b) as [H|H]; try lia
         | |- context [?a <=? ?b] => let H := fresh in destruct (Z.leb_spec a b) as [H|H]; try lia
         end.

Lemma scalar_range c : scalar c = true -> 0 <= c < 1114112 /\ (c < 55296 \/ 57343 < c).
Proof.
  unfold scalar. intro H. apply andb_prop in H. destruct H as [H N]. apply andb_prop in H. destruct H as [A B].
  apply Z.leb_le in A. apply Z.ltb_lt in B. apply negb_true_iff in N. apply andb_false_iff in N.
  split; [lia|]. destruct N as [N|N]; [apply Z.leb_gt in N|apply Z.leb_gt in N]; lia.
Qed.

Lemma decode_char c rest f : scalar c = true ->
  utf8_decode (S f) (utf8_char c ++ rest) = match utf8_decode f rest with Some l => Some (c :: l) | None => None end.
Proof.
  intro Hs. pose proof (scalar_range c Hs) as (R & NS).
  pose proof (Z.div_mod c 64 ltac:(lia)) as E1. pose proof (Z.mod_pos_bound c 64 ltac:(lia)) as B1.
  pose proof (Z.div_mod (c / 64) 64 ltac:(lia)) as E2. pose proof (Z.mod_pos_bound (c / 64) 64 ltac:(lia)) as B2.
  pose proof (Z.div_mod (c / 64 / 64) 64 ltac:(lia)) as E3. pose proof (Z.mod_pos_bound (c / 64 / 64) 64 ltac:(lia)) as B3.
  remember (c / 64) as q1. remember (c mod 64) as r1. remember (q1 / 64) as q2. remember (q1 mod 64) as r2.
  remember (q2 / 64) as q3. remember (q2 mod 64) as r3.
  unfold utf8_char. rewrite <- Heqq1, <- Heqr1, <- Heqq2, <- Heqr2, <- Heqq3, <- Heqr3.
  destruct (Z.ltb_spec c 128) as [L1|L1].
  - cbn [app utf8_decode]. btrue. reflexivity.
  - destruct (Z.ltb_spec c 2048) as [L2|L2].
    + cbn [app utf8_decode]. unfold cont.
      assert (T0 : (0 <=? 192 + q1) && (192 + q1 <? 128) = false) by (btrue; reflexivity). rewrite T0.
      assert (T1 : (194 <=? 192 + q1) && (192 + q1 <? 224) = true) by (btrue; reflexivity). rewrite T1.
      assert (T2 : (128 <=? 128 + r1) && (128 + r1 <? 192) = true) by (btrue; reflexivity). rewrite T2.
      replace ((192 + q1 - 192) * 64 + (128 + r1 - 128)) with c by lia. reflexivity.
    + destruct (Z.ltb_spec c 65536) as [L3|L3].
      * cbn [app utf8_decode]. unfold cont.
        assert (T0 : (0 <=? 224 + q2) && (224 + q2 <? 128) = false) by (btrue; reflexivity). rewrite T0.
        assert (T1 : (194 <=? 224 + q2) && (224 + q2 <? 224) = false) by (btrue; reflexivity). rewrite T1.
        assert (T2 : (224 <=? 224 + q2) && (224 + q2 <? 240) = true) by (btrue; reflexivity). rewrite T2.
        assert (T3 : (128 <=? 128 + r2) && (128 + r2 <? 192) = true) by (btrue; reflexivity). rewrite T3.
        assert (T4 : (128 <=? 128 + r1) && (128 + r1 <? 192) = true) by (btrue; reflexivity). rewrite T4.
        replace (((224 + q2 - 224) * 64 + (128 + r2 - 128)) * 64 + (128 + r1 - 128)) with c by lia.
        rewrite Hs. assert (T5 : (2048 <=? c) = true) by (apply Z.leb_le; lia). rewrite T5. reflexivity.
      * cbn [app utf8_decode]. unfold cont.
        assert (T0 : (0 <=? 240 + q3) && (240 + q3 <? 128) = false) by (btrue; reflexivity). rewrite T0.
        assert (T1 : (194 <=? 240 + q3) && (240 + q3 <? 224) = false) by (btrue; reflexivity). rewrite T1.
        assert (T2 : (224 <=? 240 + q3) && (240 + q3 <? 240) = false) by (btrue; reflexivity). rewrite T2.
        assert (T2' : (240 <=? 240 + q3) && (240 + q3 <? 245) = true) by (btrue; reflexivity). rewrite T2'.
        assert (T3 : (128 <=? 128 + r3) && (128 + r3 <? 192) = true) by (btrue; reflexivity). rewrite T3.
        assert (T4 : (128 <=? 128 + r2) && (128 + r2 <? 192) = true) by (btrue; reflexivity). rewrite T4.
        assert (T4' : (128 <=? 128 + r1) && (128 + r1 <? 192) = true) by (btrue; reflexivity). rewrite T4'.
        replace ((((240 + q3 - 240) * 64 + (128 + r3 - 128)) * 64 + (128 + r2 - 128)) * 64 + (128 + r1 - 128)) with c by lia.
        rewrite Hs. assert (T5 : (65536 <=? c) = true) by (apply Z.leb_le; lia). rewrite T5. reflexivity.
Qed.

Lemma decode_encode s : forall fuel, (length s <= fuel)%nat -> forallb scalar s = true -> utf8_decode fuel (utf8 s) = Some s.
Proof.
  induction s as [|c t IH]; intros fuel Hf Hs.
  - destruct fuel; reflexivity.
  - cbn [forallb] in Hs. apply andb_prop in Hs. destruct Hs as [Hc Ht].
    destruct fuel as [|f]; [cbn [length] in Hf; lia|]. unfold utf8. cbn [flat_map]. fold (utf8 t).
    rewrite decode_char by exact Hc. rewrite IH; [reflexivity|cbn [length] in Hf; lia|exact Ht].
Qed.

Lemma utf8_char_len c : (1 <= length (utf8_char c))%nat.
Proof. unfold utf8_char. destruct (c <? 128), (c <? 2048), (c <? 65536); cbn [length]; lia. Qed.
Lemma utf8_len s : (length s <= length (utf8 s))%nat.
Proof.
  induction s as [|c t IH]; [cbn; lia|]. unfold utf8. cbn [flat_map]. fold (utf8 t). rewrite app_length. cbn [length].
  pose proof (utf8_char_len c). lia.
Qed.

(* ------------------------------------------------------------------ serialise emits scalar values only *)
Lemma ascii_scalar c : 0 <= c < 128 -> scalar c = true.
Proof. intro H. unfold scalar. btrue; reflexivity. Qed.

Lemma forallb_app' {A} (f : A -> bool) a b : forallb f a = true -> forallb f b = true -> forallb f (a ++ b) = true.
Proof. intros Ha Hb. rewrite forallb_app, Ha, Hb. reflexivity. Qed.

Lemma hex_fixed_scalar n : forall x, forallb scalar (hex_fixed n x) = true.
Proof.
  induction n as [|n IH]; intro x; [reflexivity|]. cbn [hex_fixed]. apply forallb_app'; [apply IH|].
  cbn [forallb]. rewrite ascii_scalar; [reflexivity|]. unfold hex_digit. pose proof (Z.mod_pos_bound x 16 ltac:(lia)).
  destruct (x mod 16 <? 10); lia.
Qed.

Lemma esc_char_scalar c : scalar c = true -> forallb scalar (esc_char c) = true.
Proof.
  intro H. unfold esc_char.
  repeat match goal with |- context [if ?b then _ else _] => destruct b; [try reflexivity|] end.
  - cbn [app forallb]. rewrite hex_fixed_scalar. reflexivity.
  - cbn [forallb]. rewrite H. reflexivity.
Qed.
Lemma esc_str_scalar s : forallb scalar s = true -> forallb scalar (esc_str s) = true.
Proof.
  induction s as [|c t IH]; [reflexivity|]. cbn [forallb]. intro H. apply andb_prop in H. destruct H as [Hc Ht].
  unfold esc_str. cbn [flat_map]. apply forallb_app'; [apply esc_char_scalar; exact Hc|apply IH; exact Ht].
Qed.
Lemma ser_str_scalar s : forallb scalar s = true -> forallb scalar (ser_str s) = true.
Proof. intro H. unfold ser_str. cbn [forallb]. apply forallb_app'; [apply esc_str_scalar; exact H|reflexivity]. Qed.

Lemma uint_scalar u : forallb scalar (chars_of_uint u) = true.
Proof. induction u; cbn [chars_of_uint forallb]; try reflexivity; rewrite IHu; reflexivity. Qed.
Lemma ser_num_scalar n : forallb scalar (ser_num n) = true.
Proof. unfold ser_num, dec_digits. destruct (n <? 0); cbn [forallb]; rewrite uint_scalar; reflexivity. Qed.

Fixpoint jsize (v : json) : nat :=
  match v with
  | JArr l => S (list_sum (map jsize l))
  | JObj l => S (list_sum (map (fun kv => jsize (snd kv)) l))
  | _ => 1%nat
  end.

Lemma elems_scalar (ser : json -> list Z) l :
  (forall x, In x l -> forallb scalar (ser x) = true) -> forallb scalar (ser_elems ser l) = true.
Proof.
  induction l as [|x t IH]; intro H; [reflexivity|]. cbn [ser_elems].
  apply forallb_app'; [apply H; left; reflexivity|]. destruct t as [|y t']; [reflexivity|].
  change (forallb scalar (44 :: ser_elems ser (y :: t'))) with (forallb scalar (ser_elems ser (y :: t'))).
  apply IH. intros z Hz. apply H. right. exact Hz.
Qed.
Lemma members_scalar (ser : json -> list Z) l :
  (forall k x, In (k, x) l -> forallb scalar k = true /\ forallb scalar (ser x) = true) ->
  forallb scalar (ser_members ser l) = true.
Proof.
  induction l as [|[k x] t IH]; intro H; [reflexivity|]. cbn [ser_members].
  destruct (H k x (or_introl eq_refl)) as [Hk Hx].
  apply forallb_app'; [apply ser_str_scalar; exact Hk|].
  change (forallb scalar (58 :: ser x ++ match t with [] => [125] | _ :: _ => 44 :: ser_members ser t end))
    with (forallb scalar (ser x ++ match t with [] => [125] | _ :: _ => 44 :: ser_members ser t end)).
  apply forallb_app'; [exact Hx|]. destruct t as [|y t']; [reflexivity|].
  change (forallb scalar (44 :: ser_members ser (y :: t'))) with (forallb scalar (ser_members ser (y :: t'))).
  apply IH. intros k' x' Hin. apply H. right. exact Hin.
Qed.
Lemma In_sum {A} (f : A -> nat) l x : In x l -> (f x <= list_sum (map f l))%nat.
Proof.
  induction l as [|a t IH]; [intros []|]. intros [->|H]; cbn [map]; rewrite lsum_cons; [lia|]. specialize (IH H). lia.
Qed.

Lemma serialise_scalar_n : forall n v, (jsize v <= n)%nat -> jscalar v = true -> forallb scalar (serialise v) = true.
Proof.
  induction n as [|n IH]; intros v Hn Hv; [exfalso; destruct v; simpl in Hn; inversion Hn|].
  destruct v as [| [|] | z | s | l | l]; try reflexivity.
  - apply ser_num_scalar.
  - apply ser_str_scalar. exact Hv.
  - change (forallb scalar (serialise (JArr l))) with (forallb scalar (ser_elems serialise l)).
    change (jsize (JArr l)) with (S (list_sum (map jsize l))) in Hn. apply le_S_n in Hn.
    cbn [jscalar] in Hv. rewrite forallb_forall in Hv.
    apply elems_scalar. intros x Hx. apply IH; [pose proof (In_sum jsize l x Hx); lia|exact (Hv x Hx)].
  - change (forallb scalar (serialise (JObj l))) with (forallb scalar (ser_members serialise l)).
    change (jsize (JObj l)) with (S (list_sum (map (fun kv => jsize (snd kv)) l))) in Hn. apply le_S_n in Hn.
    cbn [jscalar] in Hv. rewrite forallb_forall in Hv.
    apply members_scalar. intros k x Hin. specialize (Hv (k, x) Hin). cbn beta iota in Hv.
    apply andb_prop in Hv. destruct Hv as [Hk Hx]. split; [exact Hk|].
    apply IH; [pose proof (In_sum (fun kv : list Z * json => jsize (snd kv)) l (k, x) Hin) as B; cbn [snd] in B; lia|exact Hx].
Qed.

Lemma serialise_scalar v : jscalar v = true -> forallb scalar (serialise v) = true.
Proof. apply (serialise_scalar_n (jsize v)). lia. Qed.

Lemma report_bytes_utf8 v : jscalar v = true ->
  utf8_decode (length (utf8 (serialise v))) (utf8 (serialise v)) = Some (serialise v).
Proof. intro H. apply decode_encode; [apply utf8_len|apply serialise_scalar; exact H]. Qed.
