(* C15/Offsets.v — executable: "module offsets equal address minus base", judged on the JSON value alone: every frame that names a
   module has a module_offset, and some element of "modules" with that filename has base_addr <= offset and
   module_offset = offset - base_addr (as numbers: the hex strings are decoded); a frame without module has no module_offset.
   [frames_in_modules]: the hypothesis on the state (a frame's module is a member of the module list — module_at_address().cloned()
   in the stack walker), evaluated on every real state by the driver. *)
From RM Require Export C15.Model C15.Consistent.
Open Scope Z_scope.

Definition hexval (l : list Z) : Z := fold_left (fun a c => a * 16 + (if c <? 58 then c - 48 else c - 87)) l 0.

Definition module_covers (name : list Z) (off moff : Z) (m : json) : bool :=
  match jmem k_filename m, jmem k_base_addr m with
  | JStr fnm, JStr (48 :: 120 :: b) => list_eqb fnm name && (hexval b <=? off) && (moff =? off - hexval b)
  | _, _ => false
  end.
Definition frame_offsets_ok (mods : list json) (f : json) : bool :=
  match jmem k_module f with
  | JStr name =>
      match jmem k_offset f, jmem k_module_offset f with
      | JStr (48 :: 120 :: o), JStr (48 :: 120 :: mo) => existsb (module_covers name (hexval o) (hexval mo)) mods
      | _, _ => false
      end
  | JNull => is_null (jmem k_module_offset f)
  | _ => false
  end.
Definition offsets_ok (j : json) : bool :=
  match jmem k_modules j, jmem k_threads j with
  | JArr ms, JArr ts =>
      forallb (fun t => match jmem k_frames t with JArr fs => forallb (frame_offsets_ok ms) fs | _ => false end) ts
  | _, _ => false
  end.

Definition frame_in_modules (mods : list modul) (f : frame) : bool :=
  match fr_module f with
  | Some (name, base) => existsb (fun m => list_eqb (basename (m_file m)) (basename name) && (m_base m =? base)) mods
  | None => true
  end.
Definition frames_in_modules (s : state) : bool :=
  forallb (fun t => forallb (frame_in_modules (s_modules s)) (th_frames t)) (s_threads s).
