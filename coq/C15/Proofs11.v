(* C15/Proofs11.v — the report of every well-formed state passes the self-consistency checker [consistent]. *)
From Coq Require Import Lia.
From RM Require Import C15.Model C15.Schema C15.Consistent C15.Proofs C15.Proofs2 C15.Proofs3.
Open Scope Z_scope.

Lemma json_eqb_refl : forall v, json_eqb v v = true.
Proof.
  apply json_ind'.
  - reflexivity.
  - intros []; reflexivity.
  - intro n. apply Z.eqb_refl.
  - intro s. apply list_eqb_refl.
  - intros l H. cbn [json_eqb]. induction H as [|x t Hx _ IH]; [reflexivity|]. rewrite Hx. exact IH.
  - intros l H. cbn [json_eqb]. induction H as [|[k x] t Hx _ IH]; [reflexivity|]. cbn [snd] in Hx. rewrite list_eqb_refl, Hx. exact IH.
Qed.

Lemma num_is_nat n : num_is (JNum (Z.of_nat n)) n = true.
Proof. apply Z.eqb_refl. Qed.

Lemma frames_len w : forall l idx, length (map (fun q => frame_obj w (fst q) (snd q)) (combine (seq idx (length l)) l)) = length l.
Proof. intros l idx. rewrite map_length, combine_length, seq_length. apply Nat.min_id. Qed.

Lemma frame_checks w i f :
  num_is (jmem k_frame (frame_obj w i f)) i = true /\
  json_eqb (jmem k_missing_symbols (frame_obj w i f)) (JBool (is_null (jmem k_function (frame_obj w i f)))) = true.
Proof.
  split; [apply num_is_nat|].
  change (jmem k_missing_symbols (frame_obj w i f)) with (JBool (match fr_function f with Some _ => false | None => true end)).
  change (jmem k_function (frame_obj w i f)) with (jopt JStr (fr_function f)).
  destruct (fr_function f); reflexivity.
Qed.

Lemma frames_checked w : forall l idx,
  frames_ok idx (map (fun q => frame_obj w (fst q) (snd q)) (combine (seq idx (length l)) l)) = true.
Proof.
  induction l as [|f t IH]; intro idx; [reflexivity|]. cbn [length seq combine map fst snd frames_ok].
  destruct (frame_checks w idx f) as [A B]. rewrite A, B. apply IH.
Qed.

Lemma thread_checked w t : thread_ok (thread_obj w t) = true.
Proof.
  unfold thread_ok.
  change (jmem k_frames (thread_obj w t))
    with (JArr (map (fun q => frame_obj w (fst q) (snd q)) (combine (seq 0 (length (th_frames t))) (th_frames t)))).
  change (jmem k_frame_count (thread_obj w t)) with (JNum (Z.of_nat (length (th_frames t)))).
  cbv beta iota. rewrite frames_len, num_is_nat, frames_checked. reflexivity.
Qed.

Lemma copy_checked w t i regs f0 fs : th_frames t = f0 :: fs ->
  copy_ok i (thread_obj w t) (crashing_copy regs i (thread_obj w t)) = true.
Proof.
  intro E. unfold thread_obj. rewrite E. cbn [length seq combine map fst snd crashing_copy].
  unfold copy_ok.
  match goal with |- num_is ?a i && _ = true => change a with (JNum (Z.of_nat i)) end. rewrite num_is_nat. cbn [andb].
  cbn [jmem jassoc list_eqb k_frames k_frame_count Z.eqb Pos.eqb andb].
  assert (R : jremove k_registers (add_registers regs (frame_obj w 0 f0)) = frame_obj w 0 f0) by reflexivity.
  assert (H1 : jhas k_registers (add_registers regs (frame_obj w 0 f0)) = true) by reflexivity.
  assert (H2 : jhas k_registers (frame_obj w 0 f0) = false) by reflexivity.
  rewrite H1, H2, R, !json_eqb_refl. reflexivity.
Qed.

Lemma threads_checked w l : forallb thread_ok (map (thread_obj w) l) = true.
Proof. apply forallb_forall. intros x Hx. apply in_map_iff in Hx. destruct Hx as (t & <- & _). apply thread_checked. Qed.

Lemma mac_checked w o :
  match jopt (fun l => JObj [(k_num_records, JNum (Z.of_nat (length l))); (k_records, JArr (map (json_of_macrec w) l))]) o with
  | JNull => true
  | m => match jmem k_records m with JArr rs => num_is (jmem k_num_records m) (length rs) | _ => false end
  end = true.
Proof.
  destruct o as [l|]; [|reflexivity]. cbn [jopt].
  change (jmem k_records (JObj [(k_num_records, JNum (Z.of_nat (length l))); (k_records, JArr (map (json_of_macrec w) l))]))
    with (JArr (map (json_of_macrec w) l)).
  change (jmem k_num_records (JObj [(k_num_records, JNum (Z.of_nat (length l))); (k_records, JArr (map (json_of_macrec w) l))]))
    with (JNum (Z.of_nat (length l))).
  cbv beta iota. rewrite map_length. apply num_is_nat.
Qed.

Lemma report_consistent s : wf_state s = true -> consistent (report_obj s) = true.
Proof.
  intro Hw. pose proof (wf_state_ok s Hw) as (_ & _ & _ & Hr).
  set (ci := json_of_crash (s_width s) (s_crash s) (s_requesting s) (s_assertion s)).
  assert (Hct : jmem k_crashing_thread ci = jopt (fun i => JNum (Z.of_nat i)) (s_requesting s)) by reflexivity.
  (* the members [consistent] reads, for both shapes of the report *)
  assert (Base : forall extra,
            (extra = [] \/ exists c, extra = [(k_crashing_thread, c)]) ->
            let j := JObj ((k_crash_info, ci) :: extra ++ tail_obj s) in
            jmem k_threads j = JArr (map (thread_obj (s_width s)) (s_threads s)) /\
            jmem k_thread_count j = JNum (Z.of_nat (length (s_threads s))) /\
            jmem k_crash_info j = ci /\
            jmem k_mac_crash_info j =
              jopt (fun l => JObj [(k_num_records, JNum (Z.of_nat (length l))); (k_records, JArr (map (json_of_macrec (s_width s)) l))]) (s_mac_crash s)).
  { intros extra [->|(c & ->)]; cbn [app]; repeat split; reflexivity. }
  unfold report_obj. fold ci. unfold consistent.
  destruct (s_requesting s) as [i|] eqn:Er.
  - destruct (nth_error (s_threads s) i) as [t|] eqn:Et; [|exfalso; apply nth_error_None in Et; lia].
    destruct (th_frames t) as [|f0 fs] eqn:Ef.
    + destruct (Base [] (or_introl eq_refl)) as (B1 & B2 & B3 & B4). cbn [app] in *. rewrite B1, B2, B3, B4, Hct. cbn [jopt].
      rewrite map_length, num_is_nat, threads_checked, Nat2Z.id, (map_nth_error _ _ _ Et). cbn [andb].
      assert (L : (0 <=? Z.of_nat i) = true) by (apply Z.leb_le; lia). rewrite L. cbn [andb].
      change (jmem k_frames (thread_obj (s_width s) t))
        with (JArr (map (fun q => frame_obj (s_width s) (fst q) (snd q)) (combine (seq 0 (length (th_frames t))) (th_frames t)))).
      rewrite Ef. cbn [length seq combine map]. cbv beta iota.
      assert (N : jhas k_crashing_thread (JObj ((k_crash_info, ci) :: tail_obj s)) = false) by reflexivity. rewrite N. cbn [negb andb].
      apply mac_checked.
    + set (cc := crashing_copy (json_registers (s_registers s)) i (thread_obj (s_width s) t)).
      destruct (Base [(k_crashing_thread, cc)] (or_intror (ex_intro _ cc eq_refl))) as (B1 & B2 & B3 & B4). cbn [app] in *.
      rewrite B1, B2, B3, B4, Hct. cbn [jopt].
      rewrite map_length, num_is_nat, threads_checked, Nat2Z.id, (map_nth_error _ _ _ Et). cbn [andb].
      assert (L : (0 <=? Z.of_nat i) = true) by (apply Z.leb_le; lia). rewrite L. cbn [andb].
      assert (N : jhas k_crashing_thread (JObj ((k_crash_info, ci) :: (k_crashing_thread, cc) :: tail_obj s)) = true) by reflexivity.
      assert (M : jmem k_crashing_thread (JObj ((k_crash_info, ci) :: (k_crashing_thread, cc) :: tail_obj s)) = cc) by reflexivity.
      rewrite N, M. unfold cc. rewrite (copy_checked (s_width s) t i _ f0 fs Ef).
      change (jmem k_frames (thread_obj (s_width s) t))
        with (JArr (map (fun q => frame_obj (s_width s) (fst q) (snd q)) (combine (seq 0 (length (th_frames t))) (th_frames t)))).
      rewrite Ef. cbn [length seq combine map]. cbv beta iota. cbn [andb].
      apply mac_checked.
  - destruct (Base [] (or_introl eq_refl)) as (B1 & B2 & B3 & B4). cbn [app] in *. rewrite B1, B2, B3, B4, Hct. cbn [jopt].
    rewrite map_length, num_is_nat, threads_checked. cbn [andb].
    assert (N : jhas k_crashing_thread (JObj ((k_crash_info, ci) :: tail_obj s)) = false) by reflexivity. rewrite N. cbn [negb andb].
    apply mac_checked.
Qed.
