(* C15/Proofs16.v — strictly sorted member names are pairwise distinct. *)
From Coq Require Import Lia.
From RM Require Import C15.Model C15.Schema C15.KeyOrder C15.Proofs C15.Proofs2.
Open Scope Z_scope.

Lemma str_ltb_irrefl : forall a, str_ltb a a = false.
Proof. induction a as [|x a IH]; [reflexivity|]. cbn [str_ltb]. rewrite Z.ltb_irrefl. exact IH. Qed.

Lemma str_ltb_trans : forall a b c, str_ltb a b = true -> str_ltb b c = true -> str_ltb a c = true.
Proof.
  induction a as [|x a IH]; intros b c H1 H2.
  - destruct b as [|y b]; [discriminate H1|]. destruct c as [|z c]; [discriminate H2|reflexivity].
  - destruct b as [|y b]; [discriminate H1|]. destruct c as [|z c]; [discriminate H2|].
    cbn [str_ltb] in *.
    destruct (x <? y) eqn:A1; destruct (y <? x) eqn:A2; destruct (y <? z) eqn:B1; destruct (z <? y) eqn:B2;
      destruct (x <? z) eqn:C1; destruct (z <? x) eqn:C2; try reflexivity; try discriminate;
      repeat match goal with
             | H : (_ <? _) = true |- _ => apply Z.ltb_lt in H
             | H : (_ <? _) = false |- _ => apply Z.ltb_ge in H
             end; try lia.
    eapply IH; eassumption.
Qed.

Lemma sorted_all_greater a : forall l, sorted_strict (a :: l) = true -> forall b, In b l -> str_ltb a b = true.
Proof.
  induction l as [|x t IH]; intros H b Hb; [destruct Hb|].
  cbn [sorted_strict] in H. apply andb_prop in H. destruct H as [Hax Ht]. destruct Hb as [<-|Hb]; [exact Hax|].
  apply IH; [|exact Hb]. destruct t as [|y t']; [reflexivity|].
  cbn [sorted_strict] in Ht |- *. apply andb_prop in Ht. destruct Ht as [Hxy Ht'].
  rewrite (str_ltb_trans a x y Hax Hxy). exact Ht'.
Qed.

Lemma sorted_tail a l : sorted_strict (a :: l) = true -> sorted_strict l = true.
Proof. destruct l as [|b t]; [reflexivity|]. cbn [sorted_strict]. intro H. apply andb_prop in H. exact (proj2 H). Qed.

Lemma sorted_nodup : forall l, sorted_strict l = true -> nodupb l = true.
Proof.
  induction l as [|a t IH]; intro H; [reflexivity|]. cbn [nodupb]. rewrite (IH (sorted_tail a t H)), andb_true_r.
  apply negb_true_iff. destruct (memb a t) eqn:M; [|reflexivity]. exfalso.
  assert (Hin : In a t).
  { clear -M. induction t as [|y t IH]; [discriminate M|]. cbn [memb] in M. apply orb_prop in M. destruct M as [M|M].
    - left. apply list_eqb_eq in M. symmetry. exact M.
    - right. apply IH. exact M. }
  pose proof (sorted_all_greater a t H a Hin) as L. rewrite str_ltb_irrefl in L. discriminate L.
Qed.
