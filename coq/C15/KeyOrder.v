(* C15/KeyOrder.v — executable: every object of a JSON value lists its members in strictly increasing code-point order of the names
   (serde_json's Map is a BTreeMap<String, Value>: iteration order = byte order of the UTF-8 names = code-point order; strict = no
   duplicate name).  The model writes its objects in that order by hand (optional members, `registers` inserted into frame 0,
   `threads_index` appended, `crashing_thread` inserted after `crash_info`): c15_keys_sorted proves it for every state. *)
From RM Require Export C15.Model.
Open Scope Z_scope.

Fixpoint str_ltb (a b : list Z) : bool :=
  match a, b with
  | [], [] => false
  | [], _ :: _ => true
  | _ :: _, [] => false
  | x :: a', y :: b' => if x <? y then true else if y <? x then false else str_ltb a' b'
  end.
Fixpoint sorted_strict (l : list (list Z)) : bool :=
  match l with
  | a :: ((b :: _) as t) => str_ltb a b && sorted_strict t
  | _ => true
  end.
Fixpoint keys_sorted (v : json) : bool :=
  match v with
  | JArr l => forallb keys_sorted l
  | JObj l => sorted_strict (map fst l) && forallb (fun kv => keys_sorted (snd kv)) l
  | _ => true
  end.

(* hypotheses on the state: the register names arrive sorted (the harness sorts them as the BTreeMap does) and the soft_errors value,
   itself read from a serde_json rendering, has sorted objects *)
Definition keys_hyp (s : state) : bool :=
  sorted_strict (map (fun r : list Z * Z * nat => fst (fst r)) (s_registers s)) &&
  match s_soft s with Some v => keys_sorted v | None => true end.
