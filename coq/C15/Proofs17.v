(* C15/Proofs17.v — possible_bit_flips[].confidence: the binary32 decoder agrees with Flocq's, the rendering of every confidence
   the heuristics can produce (C19's exact Flocq model, all details values) is judged correct by [conf_text_ok]. *)
From Coq Require Import Lia.
From Flocq Require Import IEEE754.Binary IEEE754.Bits Core.
From RM Require Import C15.Model C15.Float.
From RM Require C19.Model C19.Proofs.
Open Scope Z_scope.

(* [b32_decode] reads the same sign / mantissa / exponent out of a bit pattern as Flocq's b32_of_bits, for every 32-bit pattern *)
Lemma b32_decode_flocq bits : 0 <= bits < 4294967296 ->
  match B2FF _ _ (b32_of_bits bits) with
  | F754_zero s => b32_decode bits = Some (s, 0, -149)
  | F754_finite s m e => b32_decode bits = Some (s, Zpos m, e)
  | _ => b32_decode bits = None
  end.
Proof.
  intros Hb. unfold b32_of_bits, binary_float_of_bits. rewrite B2FF_FF2B.
  unfold binary_float_of_bits_aux, split_bits, b32_decode.
  change (2 ^ 23 * 2 ^ 8) with 2147483648. change (2 ^ 23) with 8388608. change (2 ^ 8 - 1) with 255. change (2 ^ 8) with 256.
  change (SpecFloat.emin (23 + 1) (2 ^ (8 - 1))) with (-149).
  assert (Hm : 0 <= bits mod 8388608 < 8388608) by (apply Z.mod_pos_bound; lia).
  assert (He : 0 <= (bits / 8388608) mod 256 < 256) by (apply Z.mod_pos_bound; lia).
  assert (Hdiv : bits / 8388608 < 512) by (apply Z.div_lt_upper_bound; lia).
  assert (Hdiv0 : 0 <= bits / 8388608) by (apply Z.div_pos; lia).
  set (ex := (bits / 8388608) mod 256) in *. set (mn := bits mod 8388608) in *.
  destruct (Zbool.Zeq_bool ex 0) eqn:E0.
  - apply Zbool.Zeq_bool_eq in E0. rewrite E0. cbn [Z.eqb].
    destruct mn as [|p|p] eqn:Emn; try reflexivity; lia.
  - apply Zbool.Zeq_bool_neq in E0.
    assert (E0' : (ex =? 0) = false) by (apply Z.eqb_neq; exact E0).
    destruct (Zbool.Zeq_bool ex 255) eqn:E255.
    + apply Zbool.Zeq_bool_eq in E255. rewrite E255. cbn [Z.eqb Pos.eqb].
      destruct mn as [|p|p]; try reflexivity.
    + apply Zbool.Zeq_bool_neq in E255.
      assert (E255' : (ex =? 255) = false) by (apply Z.eqb_neq; exact E255).
      rewrite E255', E0'.
      destruct (mn + 8388608) as [|p|p] eqn:Ep; try lia.
      replace (8388608 + mn) with (Z.pos p) by lia. replace (ex + -149 - 1) with (ex - 150) by lia. reflexivity.
Qed.


(* every confidence the heuristics can produce: C19's 80 classes (confidence_clamp: every details value falls into one) *)
Lemma conf_render_classes :
  forallb (fun d => conf_text_ok (C19.Model.confidence_bits d) (render_f32 (C19.Model.confidence_bits d))) C19.Proofs.all_classes = true.
Proof. vm_compute. reflexivity. Qed.

Lemma conf_render_ok d : conf_text_ok (C19.Model.confidence_bits d) (render_f32 (C19.Model.confidence_bits d)) = true.
Proof.
  unfold C19.Model.confidence_bits. rewrite C19.Proofs.confidence_clamp.
  pose proof conf_render_classes as H. rewrite forallb_forall in H.
  exact (H (C19.Proofs.clamp d) (C19.Proofs.clamp_in d)).
Qed.

(* what an accepted text is *)
Lemma conf_text_ok_meaning bits t : conf_text_ok bits t = true ->
  exists m e c k, b32_decode bits = Some (false, m, e) /\ num_value t = Some (false, c, k) /\ json_number t = true /\
    ((m = 0 /\ c = 0) \/
     (m <> 0 /\ in_interval m e c k = true /\ scale_cmp c k 1 0 <> Gt /\ no_shorter m e c k = true)).
Proof.
  unfold conf_text_ok, json_number. destruct (b32_decode bits) as [[[sg m] e]|]; [|discriminate].
  destruct (num_value t) as [[[neg c] k]|]; [|discriminate].
  destruct (m =? 0) eqn:Em.
  - intro H. apply andb_prop in H. destruct H as [H Hn]. apply andb_prop in H. destruct H as [Hc Hs].
    destruct sg; [discriminate|]. destruct neg; [discriminate|].
    exists m, e, c, k. repeat split; try reflexivity. left. split; [apply Z.eqb_eq; exact Em|apply Z.eqb_eq; exact Hc].
  - intro H. apply andb_prop in H. destruct H as [H Hsh]. apply andb_prop in H. destruct H as [H Hle].
    apply andb_prop in H. destruct H as [H Hin]. apply andb_prop in H. destruct H as [Hs Hn].
    destruct sg; [discriminate|]. destruct neg; [discriminate|].
    exists m, e, c, k. repeat split; try reflexivity. right. split; [apply Z.eqb_neq; exact Em|].
    split; [exact Hin|]. split; [|exact Hsh]. intro E. rewrite E in Hle. discriminate.
Qed.

Lemma flip_conf_ok b : conf_text_ok (flip_conf_bits b) (flip_conf_text b) = true.
Proof. unfold flip_conf_text, flip_conf_bits. apply conf_render_ok. Qed.

(* on the confidences the heuristics can produce the judgement separates the values: the text rendered for one class is rejected for
   every class with another bit pattern *)
Definition class_bits : list Z := map C19.Model.confidence_bits C19.Proofs.all_classes.
Lemma conf_discriminates_classes :
  forallb (fun b1 => let t := render_f32 b1 in forallb (fun b2 => (b1 =? b2) || negb (conf_text_ok b2 t)) class_bits) class_bits = true.
Proof. vm_compute. reflexivity. Qed.
Lemma conf_discriminates d1 d2 :
  conf_text_ok (C19.Model.confidence_bits d2) (render_f32 (C19.Model.confidence_bits d1)) = true ->
  C19.Model.confidence_bits d1 = C19.Model.confidence_bits d2.
Proof.
  unfold C19.Model.confidence_bits. rewrite (C19.Proofs.confidence_clamp d1), (C19.Proofs.confidence_clamp d2).
  fold (C19.Model.confidence_bits (C19.Proofs.clamp d1)). fold (C19.Model.confidence_bits (C19.Proofs.clamp d2)).
  intro H. pose proof conf_discriminates_classes as A. rewrite forallb_forall in A.
  assert (I1 : In (C19.Model.confidence_bits (C19.Proofs.clamp d1)) class_bits) by (apply in_map; apply C19.Proofs.clamp_in).
  assert (I2 : In (C19.Model.confidence_bits (C19.Proofs.clamp d2)) class_bits) by (apply in_map; apply C19.Proofs.clamp_in).
  specialize (A _ I1). cbv zeta in A. rewrite forallb_forall in A. specialize (A _ I2).
  apply orb_prop in A. destruct A as [A|A]; [apply Z.eqb_eq; exact A|]. rewrite H in A. discriminate.
Qed.
