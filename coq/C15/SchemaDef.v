(* C15/SchemaDef.v — the type of documented schemas; translate/c15_schema.py regenerates
   Gen/C15Schema.v (DOC_SCHEMA) from minidump-processor/json-schema.md on every run. *)
From Coq Require Import ZArith List.
Import ListNotations.
Open Scope Z_scope.

Inductive schema :=
| SStr | SBool | SHex | SU32 | SU64 | SF32 | SAnyObj
| SNever                                              (* no alternative besides the listed literals *)
| SEnum (names : list (list Z)) (alt : schema)       (* "a" | "b" | <alt> *)
| SArr (item : schema)
| SObj (fields : list (list Z * schema))
| SMap (value : schema).                              (* arbitrary member names, documented as "some_register_name" *)
