(* C15/Proofs7.v — the hex string of an Address denotes the FULL 64-bit value for every pointer width (a 32-bit width is a
   minimum padding, never a truncation), so distinct values never print alike. *)
From Coq Require Import Lia.
From RM Require Import C15.Model C15.Proofs.
Open Scope Z_scope.

Lemma strip0_unfold c c2 t2 : strip0 (c :: c2 :: t2) = (if c =? 48 then strip0 (c2 :: t2) else c :: c2 :: t2).
Proof.
  destruct (c =? 48) eqn:E0; [apply Z.eqb_eq in E0; subst c; reflexivity|].
  cbn [strip0]. destruct c as [|q|q]; try reflexivity. repeat (destruct q as [q|q|]; try reflexivity). discriminate E0.
Qed.

Lemma strip0_value : forall l, hex_value (strip0 l) = hex_value l.
Proof.
  induction l as [|c t IH]; [reflexivity|]. destruct t as [|c2 t2]; [destruct c as [|q|q]; try reflexivity;
    repeat (destruct q as [q|q|]; try reflexivity)|].
  rewrite strip0_unfold. destruct (c =? 48) eqn:E0; [|reflexivity]. apply Z.eqb_eq in E0. subst c. rewrite IH.
  unfold hex_value. cbn [fold_left]. reflexivity.
Qed.

Lemma address_denotes w x : 0 <= x < two64 -> hex_value (skipn 2 (address_str w x)) = x.
Proof.
  intro Hx.
  assert (V16 : hex_value (hex_fixed 16 x) = x).
  { rewrite hex_fixed_value by lia. apply Z.mod_small. change (16 ^ Z.of_nat 16) with two64. lia. }
  unfold address_str. cbn [skipn]. destruct w; try exact V16.
  destruct (x <? two32) eqn:E.
  - apply Z.ltb_lt in E. rewrite hex_fixed_value by lia. apply Z.mod_small. change (16 ^ Z.of_nat 8) with two32. lia.
  - rewrite strip0_value. exact V16.
Qed.

Lemma address_injective w x y : 0 <= x < two64 -> 0 <= y < two64 -> address_str w x = address_str w y -> x = y.
Proof.
  intros Hx Hy E. rewrite <- (address_denotes w x Hx), <- (address_denotes w y Hy), E. reflexivity.
Qed.

(* ------------------------------------------------------------------ the format strings of the source *)
From RM Require Import C15.Schema C15.Widths C15.Proofs2 C15.Proofs3 C15.Proofs4 Gen.C15Fmt.

(* Rust's `{:#0Nx}` on an unsigned integer: "0x", then the minimal hex digits of the value padded with zeros on the left so
   that the whole text has at least N characters *)
Definition min_hex (x : Z) : list Z := strip0 (hex_fixed 16 x).
Definition fmt_alt_hex (n x : Z) : list Z :=
  48 :: 120 :: repeat 48 (Z.to_nat (n - 2) - length (min_hex x)) ++ min_hex x.
(* `e as uK` truncates; K = 0 stands for the plain expression *)
Definition cast_arg (k x : Z) : Z := if k =? 0 then x else x mod 2 ^ k.
Fixpoint select_arm {A} (arms : list (Z * A)) (i : Z) : option A :=
  match arms with
  | [] => None
  | (p, a) :: t => if (p =? i) || (p =? -1) then Some a else select_arm t i
  end.
Definition width_index (w : pwidth) : Z := match w with W32 => 0 | W64 => 1 | WUnknown => 2 end.
(* what the match of `Display for Address`, as translated, writes *)
Definition address_display (w : pwidth) (x : Z) : list Z :=
  match select_arm (map (fun a => (fst (fst a), (snd (fst a), snd a))) ADDRESS_ARMS) (width_index w) with
  | Some (n, k) => fmt_alt_hex n (cast_arg k x)
  | None => []
  end.
Definition lim_index (l : lim) : Z := match l with LErr => 0 | LUnlimited => 1 | LLimited _ => 2 end.
(* what the match of `Serialize for Limit`, as translated, writes *)
Definition lim_display (l : lim) : json :=
  match select_arm LIMIT_ARMS (lim_index l) with
  | Some (Some text) => JStr text
  | Some None => match l with LLimited n => JNum n | _ => JNull end
  | None => JNull
  end.

Lemma strip0_len : forall l, (length (strip0 l) <= length l)%nat.
Proof.
  induction l as [|c t IH]; [cbn; lia|]. destruct t as [|c2 t2].
  - destruct c as [|q|q]; try (cbn; lia). repeat (destruct q as [q|q|]; try (cbn; lia)).
  - rewrite strip0_unfold. destruct (c =? 48); [cbn [length] in *; lia|lia].
Qed.
Lemma strip0_single c : strip0 [c] = [c].
Proof. destruct c as [|q|q]; try reflexivity. repeat (destruct q as [q|q|]; try reflexivity). Qed.

Lemma pad_strip0 : forall l, l <> [] -> repeat 48 (length l - length (strip0 l)) ++ strip0 l = l.
Proof.
  induction l as [|c t IH]; intro Hne; [contradiction|]. destruct t as [|c2 t2].
  - rewrite strip0_single. cbn [length]. rewrite Nat.sub_diag. reflexivity.
  - rewrite strip0_unfold. destruct (c =? 48) eqn:E.
    + apply Z.eqb_eq in E. subst c. pose proof (strip0_len (c2 :: t2)) as L.
      specialize (IH ltac:(discriminate)). cbn [length] in L, IH |- *.
      replace (S (S (length t2)) - length (strip0 (c2 :: t2)))%nat
        with (S (S (length t2) - length (strip0 (c2 :: t2))))%nat by lia.
      cbn [repeat app]. rewrite IH. reflexivity.
    + rewrite Nat.sub_diag. reflexivity.
Qed.

Lemma hex_fixed_zero n : hex_fixed n 0 = repeat 48 n.
Proof.
  induction n as [|n IH]; [reflexivity|]. cbn [hex_fixed]. change (0 / 16) with 0. rewrite IH. change (hex_digit (0 mod 16)) with 48.
  clear IH. induction n as [|n IH]; [reflexivity|]. cbn [repeat app]. rewrite IH. reflexivity.
Qed.
Lemma hex_fixed_high n : forall m x, 0 <= x < 16 ^ Z.of_nat m -> hex_fixed (n + m) x = repeat 48 n ++ hex_fixed m x.
Proof.
  induction m as [|m IH]; intros x Hx.
  - cbn in Hx. assert (x = 0) by lia. subst x. rewrite Nat.add_0_r, hex_fixed_zero, app_nil_r. reflexivity.
  - rewrite Nat.add_succ_r. cbn [hex_fixed]. rewrite IH; [rewrite app_assoc; reflexivity|].
    rewrite Nat2Z.inj_succ, Z.pow_succ_r in Hx by lia. split; [apply Z.div_pos; lia|apply Z.div_lt_upper_bound; lia].
Qed.
Lemma strip0_zeros n : forall l, l <> [] -> strip0 (repeat 48 n ++ l) = strip0 l.
Proof.
  induction n as [|n IH]; intros l Hl; [reflexivity|]. cbn [repeat app].
  destruct (repeat 48 n ++ l) as [|c2 t2] eqn:E.
  - exfalso. destruct n; cbn in E; [contradiction|discriminate E].
  - rewrite strip0_unfold. change (48 =? 48) with true. cbn iota. rewrite <- E. apply IH. exact Hl.
Qed.

Lemma address_str_display w x : 0 <= x < two64 -> address_str w x = address_display w x.
Proof.
  intro Hx. pose proof (hex_fixed_length 16 x) as L16.
  assert (Hne16 : hex_fixed 16 x <> []) by (intro E; rewrite E in L16; discriminate L16).
  assert (F18 : fmt_alt_hex 18 x = 48 :: 120 :: hex_fixed 16 x).
  { unfold fmt_alt_hex, min_hex. change (Z.to_nat (18 - 2)) with 16%nat.
    pose proof (pad_strip0 (hex_fixed 16 x) Hne16) as P. rewrite L16 in P. rewrite P. reflexivity. }
  unfold address_display. destruct w; cbn [width_index]; change (ADDRESS_ARMS) with [(0, 10, 0); (-1, 18, 0)]; cbn [map fst snd select_arm];
    cbn [Z.eqb Pos.eqb orb]; unfold cast_arg; cbn [Z.eqb]; try (rewrite F18; reflexivity).
  unfold address_str. destruct (x <? two32) eqn:E.
  - apply Z.ltb_lt in E. unfold fmt_alt_hex, min_hex. change (Z.to_nat (10 - 2)) with 8%nat.
    pose proof (hex_fixed_length 8 x) as L8.
    assert (Hne8 : hex_fixed 8 x <> []) by (intro E8; rewrite E8 in L8; discriminate L8).
    change 16%nat with (8 + 8)%nat. rewrite (hex_fixed_high 8 8 x) by (change (16 ^ Z.of_nat 8) with two32; lia).
    rewrite strip0_zeros by exact Hne8. pose proof (pad_strip0 (hex_fixed 8 x) Hne8) as P. rewrite L8 in P. rewrite P. reflexivity.
  - apply Z.ltb_ge in E. unfold fmt_alt_hex. change (Z.to_nat (10 - 2)) with 8%nat.
    assert (U : u64b x = true) by (unfold u64b; apply andb_true_intro; split; [apply Z.leb_le|apply Z.ltb_lt]; lia).
    pose proof (width_addr W32 x U) as Wd. unfold width_ok in Wd. apply andb_prop in Wd. destruct Wd as [_ Wd].
    apply Nat.leb_le in Wd. unfold address_str in Wd. assert (E' : (x <? two32) = false) by (apply Z.ltb_ge; lia). rewrite E' in Wd.
    cbn [length] in Wd. fold (min_hex x) in Wd.
    replace (8 - length (min_hex x))%nat with 0%nat by lia. reflexivity.
Qed.

Lemma json_of_lim_display l : json_of_lim l = lim_display l.
Proof. destruct l; reflexivity. Qed.

(* Rust's formatter on concrete values, as [fmt_alt_hex] models it *)
Lemma fmt_alt_hex_examples :
  fmt_alt_hex 10 255 = [48; 120; 48; 48; 48; 48; 48; 48; 102; 102] /\
  fmt_alt_hex 10 4294967296 = [48; 120; 49; 48; 48; 48; 48; 48; 48; 48; 48] /\
  fmt_alt_hex 18 0 = 48 :: 120 :: repeat 48 16 /\ fmt_alt_hex 4 0 = [48; 120; 48; 48] /\
  cast_arg 32 4294967296 = 0 /\ cast_arg 0 4294967296 = 4294967296.
Proof. vm_compute. repeat split; reflexivity. Qed.
