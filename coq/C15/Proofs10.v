(* C15/Proofs10.v — registers taken from a register file of the source are never named like an Address member and have 8 or 16 digits. *)
From Coq Require Import Lia.
From RM Require Import C15.Model C15.Schema C15.Widths C15.Regs C15.Proofs2.
Open Scope Z_scope.

Lemma tables_ok : forallb table_ok REGISTER_TABLES = true.
Proof. vm_compute. reflexivity. Qed.

Lemma memb_In x l : memb x l = true -> In x l.
Proof.
  induction l as [|y t IH]; [discriminate|]. cbn [memb]. intro H. apply orb_prop in H. destruct H as [H|H].
  - left. apply list_eqb_eq in H. symmetry. exact H.
  - right. apply IH. exact H.
Qed.

Lemma regs_from_table_ok kind regs : regs_from_table kind regs = true ->
  regs_named_ok regs = true /\ forallb (fun r : list Z * Z * nat => (snd r <=? 16)%nat && (1 <=? snd r)%nat) regs = true.
Proof.
  unfold regs_from_table. intro H. apply existsb_exists in H. destruct H as (t & Ht & H).
  apply andb_prop in H. destruct H as [_ H]. unfold regs_in_table in H. rewrite forallb_forall in H.
  pose proof tables_ok as T. rewrite forallb_forall in T. specialize (T t Ht). unfold table_ok in T.
  apply andb_prop in T. destruct T as [T B]. apply andb_prop in T. destruct T as [T _]. rewrite forallb_forall in T.
  split.
  - unfold regs_named_ok. apply forallb_forall. intros r Hr. specialize (H r Hr). apply andb_prop in H. destruct H as [Hm _].
    apply T. apply memb_In. exact Hm.
  - apply forallb_forall. intros r Hr. specialize (H r Hr). apply andb_prop in H. destruct H as [_ Hd]. apply Z.eqb_eq in Hd.
    apply orb_prop in B. destruct B as [B|B]; apply Z.eqb_eq in B; rewrite B in Hd; apply andb_true_intro; split;
      [apply Nat.leb_le|apply Nat.leb_le|apply Nat.leb_le|apply Nat.leb_le]; lia.
Qed.
