(* C15/Proofs14.v — the report of a well-formed state whose frame modules are members of the module list passes [offsets_ok]. *)
From Coq Require Import Lia.
From RM Require Import C15.Model C15.Schema C15.Consistent C15.Offsets C15.Proofs C15.Proofs2 C15.Proofs3 C15.Proofs7.
Open Scope Z_scope.

Lemma hexval_addr w x : 0 <= x < two64 -> exists d, address_str w x = 48 :: 120 :: d /\ hexval d = x.
Proof.
  intro H. pose proof (address_denotes w x H) as D. unfold address_str in *. eexists. split; [reflexivity|]. exact D.
Qed.

Lemma frame_offsets_checked w certs stats mods i f : wf_frame f = true -> forallb wf_module mods = true -> frame_in_modules mods f = true ->
  frame_offsets_ok (map (mod_obj w certs stats) mods) (frame_obj w i f) = true.
Proof.
  intros Hw Hm Hin. unfold frame_offsets_ok.
  change (jmem k_module (frame_obj w i f)) with (jopt (fun m => JStr (basename (fst m))) (fr_module f)).
  change (jmem k_offset (frame_obj w i f)) with (jhex w (fr_instr f)).
  change (jmem k_module_offset (frame_obj w i f))
    with (match fr_module f with Some (_, base) => jhex w (fr_instr f - base) | None => JNull end).
  unfold frame_in_modules in Hin. unfold wf_frame in Hw.
  destruct (fr_module f) as [[nm base]|]; [|reflexivity]. cbn [jopt fst].
  repeat (apply andb_prop in Hw; destruct Hw as [Hw ?]).
  repeat match goal with H : _ && _ = true |- _ => apply andb_prop in H; destruct H end.
  repeat match goal with H : (_ <=? _) = true |- _ => apply Z.leb_le in H | H : (_ <? _) = true |- _ => apply Z.ltb_lt in H end.
  destruct (hexval_addr w (fr_instr f) ltac:(lia)) as (o & Eo & Vo).
  destruct (hexval_addr w (fr_instr f - base) ltac:(lia)) as (mo & Emo & Vmo).
  unfold jhex. rewrite Eo, Emo. rewrite Vo, Vmo.
  apply existsb_exists in Hin. destruct Hin as (m & Hmin & Hc). apply andb_prop in Hc. destruct Hc as [Hn Hb]. apply Z.eqb_eq in Hb.
  apply existsb_exists. exists (mod_obj w certs stats m). split; [apply in_map; exact Hmin|].
  unfold module_covers.
  change (jmem k_filename (mod_obj w certs stats m)) with (JStr (basename (m_file m))).
  change (jmem k_base_addr (mod_obj w certs stats m)) with (jhex w (m_base m)).
  rewrite forallb_forall in Hm. specialize (Hm m Hmin). unfold wf_module in Hm.
  repeat (apply andb_prop in Hm; destruct Hm as [Hm ?]).
  repeat match goal with H : (_ <=? _) = true |- _ => apply Z.leb_le in H | H : (_ <? _) = true |- _ => apply Z.ltb_lt in H end.
  destruct (hexval_addr w (m_base m) ltac:(lia)) as (b & Eb & Vb). unfold jhex. rewrite Eb, Vb, Hn, Hb.
  assert (L : (base <=? fr_instr f) = true) by (apply Z.leb_le; lia). rewrite L, Z.eqb_refl. reflexivity.
Qed.

Lemma report_offsets s : wf_state s = true -> frames_in_modules s = true -> offsets_ok (report_obj s) = true.
Proof.
  intros Hw Hin. pose proof (wf_state_ok s Hw) as (_ & _ & _ & Hr).
  assert (Hmods : forallb wf_module (s_modules s) = true /\ forallb wf_thread (s_threads s) = true).
  { unfold wf_state in Hw. repeat (apply andb_prop in Hw; destruct Hw as [Hw ?]). split; assumption. }
  destruct Hmods as [Hm Ht].
  set (ci := json_of_crash (s_width s) (s_crash s) (s_requesting s) (s_assertion s)).
  assert (Base : forall extra, (extra = [] \/ exists c, extra = [(k_crashing_thread, c)]) ->
            let j := JObj ((k_crash_info, ci) :: extra ++ tail_obj s) in
            jmem k_threads j = JArr (map (thread_obj (s_width s)) (s_threads s)) /\
            jmem k_modules j = JArr (map (mod_obj (s_width s) (s_certinfo s) (s_symstats s)) (s_modules s))).
  { intros extra [->|(c & ->)]; cbn [app]; split; reflexivity. }
  assert (G : forall extra, (extra = [] \/ exists c, extra = [(k_crashing_thread, c)]) ->
            offsets_ok (JObj ((k_crash_info, ci) :: extra ++ tail_obj s)) = true).
  { intros extra He. destruct (Base extra He) as [B1 B2]. unfold offsets_ok. rewrite B1, B2.
    apply forallb_forall. intros tj Htj. apply in_map_iff in Htj. destruct Htj as (t & <- & Hti).
    change (jmem k_frames (thread_obj (s_width s) t))
      with (JArr (map (fun q => frame_obj (s_width s) (fst q) (snd q)) (combine (seq 0 (length (th_frames t))) (th_frames t)))).
    apply forallb_forall. intros fj Hfj. apply in_map_iff in Hfj. destruct Hfj as ([i f] & <- & Hq). cbn [fst snd].
    apply in_combine_r in Hq.
    rewrite forallb_forall in Ht. specialize (Ht t Hti). unfold wf_thread in Ht.
    repeat (apply andb_prop in Ht; destruct Ht as [Ht ?]).
    match goal with H : forallb wf_frame _ = true |- _ => rewrite forallb_forall in H; specialize (H f Hq); rename H into Hf end.
    unfold frames_in_modules in Hin. rewrite forallb_forall in Hin. specialize (Hin t Hti). rewrite forallb_forall in Hin.
    apply frame_offsets_checked; [exact Hf|exact Hm|exact (Hin f Hq)]. }
  unfold report_obj. fold ci. destruct (s_requesting s) as [i|].
  - destruct (nth_error (s_threads s) i) as [t|] eqn:Et; [|exfalso; apply nth_error_None in Et; lia].
    destruct (th_frames t).
    + exact (G [] (or_introl eq_refl)).
    + exact (G [(k_crashing_thread, _)] (or_intror (ex_intro _ _ eq_refl))).
  - exact (G [] (or_introl eq_refl)).
Qed.
