(* C15/Consistent.v — executable: the self-consistency the property demands of a report, judged on the JSON value alone
   (run on the REAL print_json output by the driver; proved of the model's report for every well-formed state):
   thread_count = |threads|; per thread frame_count = |frames|, frame = position, missing_symbols <=> no function;
   the crashing_thread copy exists iff crash_info.crashing_thread names a thread with frames, and is that thread with
   threads_index appended and registers inserted into frame 0 (everything else equal); mac_crash_info.num_records = |records|. *)
From RM Require Export C15.Model.
Open Scope Z_scope.

Fixpoint json_eqb (a b : json) {struct a} : bool :=
  match a, b with
  | JNull, JNull => true
  | JBool x, JBool y => Bool.eqb x y
  | JNum x, JNum y => x =? y
  | JStr x, JStr y => list_eqb x y
  | JArr x, JArr y =>
      (fix go (x y : list json) {struct x} : bool :=
         match x, y with
         | [], [] => true
         | a :: x', b :: y' => json_eqb a b && go x' y'
         | _, _ => false
         end) x y
  | JObj x, JObj y =>
      (fix go (x y : list (list Z * json)) {struct x} : bool :=
         match x, y with
         | [], [] => true
         | (k, a) :: x', (k', b) :: y' => list_eqb k k' && json_eqb a b && go x' y'
         | _, _ => false
         end) x y
  | _, _ => false
  end.

Fixpoint jassoc (k : list Z) (l : list (list Z * json)) : option json :=
  match l with
  | [] => None
  | (k', v) :: t => if list_eqb k k' then Some v else jassoc k t
  end.
(* a member of an object; absent = null ("all fields are optional, and can be null or absent") *)
Definition jmem (k : list Z) (j : json) : json :=
  match j with JObj l => match jassoc k l with Some v => v | None => JNull end | _ => JNull end.
Definition jhas (k : list Z) (j : json) : bool :=
  match j with JObj l => match jassoc k l with Some _ => true | None => false end | _ => false end.
Definition jremove (k : list Z) (j : json) : json :=
  match j with JObj l => JObj (filter (fun kv => negb (list_eqb (fst kv) k)) l) | x => x end.
Definition is_null (j : json) : bool := match j with JNull => true | _ => false end.
Definition jlen (j : json) : option nat := match j with JArr l => Some (length l) | _ => None end.
Definition num_is (j : json) (n : nat) : bool := match j with JNum x => x =? Z.of_nat n | _ => false end.

(* frames: "frame" = position, missing_symbols <=> function is null *)
Fixpoint frames_ok (i : nat) (fs : list json) : bool :=
  match fs with
  | [] => true
  | f :: t => num_is (jmem k_frame f) i &&
              json_eqb (jmem k_missing_symbols f) (JBool (is_null (jmem k_function f))) &&
              frames_ok (S i) t
  end.
Definition thread_ok (t : json) : bool :=
  match jmem k_frames t with
  | JArr fs => num_is (jmem k_frame_count t) (length fs) && frames_ok 0 fs
  | _ => false
  end.

(* the copy [c] of thread [t] with index [i]: threads_index = i, registers only in frame 0, everything else equal *)
Definition copy_ok (i : nat) (t c : json) : bool :=
  num_is (jmem k_threads_index c) i &&
  match jmem k_frames t, jmem k_frames c with
  | JArr (f0 :: fs), JArr (g0 :: gs) =>
      jhas k_registers g0 && negb (jhas k_registers f0) &&
      json_eqb (jremove k_registers g0) f0 && json_eqb (JArr gs) (JArr fs) &&
      json_eqb (jremove k_frames (jremove k_threads_index c)) (jremove k_frames t)
  | _, _ => false
  end.

Definition consistent (j : json) : bool :=
  match jmem k_threads j with
  | JArr ts =>
      num_is (jmem k_thread_count j) (length ts) && forallb thread_ok ts &&
      match jmem k_crashing_thread (jmem k_crash_info j) with
      | JNum x =>
          match nth_error ts (Z.to_nat x) with
          | Some t =>
              (0 <=? x) &&
              match jmem k_frames t with
              | JArr (_ :: _) => jhas k_crashing_thread j && copy_ok (Z.to_nat x) t (jmem k_crashing_thread j)
              | _ => negb (jhas k_crashing_thread j)
              end
          | None => false
          end
      | JNull => negb (jhas k_crashing_thread j)
      | _ => false
      end &&
      match jmem k_mac_crash_info j with
      | JNull => true
      | m => match jmem k_records m with JArr rs => num_is (jmem k_num_records m) (length rs) | _ => false end
      end
  | _ => false
  end.
