From Coq Require Extraction.
From Coq Require Import ExtrOcamlBasic.
From RM Require Import C15.Driver.
Extraction "c15_model.ml" run_report render_compact render_pretty parse_soft pretty_ok reparse_ok mk_width flip_confidence_bits flip_confidence_text real_confidence_ok mk_version wf_ok regs_ok real_conforms real_widths real_consistent real_offsets real_fn_offsets mods_ok keys_ok real_sorted encode_utf8 decode_utf8.
