From Coq Require Extraction.
From Coq Require Import ExtrOcamlBasic.
From RM Require Import C15.Driver.
Extraction "c15_model.ml" run_state reparse_ok mk_width flip_confidence_bits wf_ok real_conforms real_widths encode_utf8 decode_utf8.
