(* C15/Schema.v — executable definitions: conformance of a JSON value to a documented schema
   ([conforms], judged against DOC_SCHEMA, which translate/c15_schema.py regenerates from
   json-schema.md on every run), and the well-formedness conditions on a process state under which
   the report is proved conformant ([wf_state]; evaluated on every real state by the driver). *)
From RM Require Export C15.Model C15.SchemaDef Gen.C15Schema Gen.C15Keys.
Open Scope Z_scope.

Definition is_lower_hexb (c : Z) : bool := ((48 <=? c) && (c <=? 57)) || ((97 <=? c) && (c <=? 102)).
(* <hexstring>: "0x" followed by 1..16 lower-case hex digits *)
Definition is_hexstring (s : list Z) : bool :=
  match s with
  | 48 :: 120 :: d => forallb is_lower_hexb d && (1 <=? length d)%nat && (length d <=? 16)%nat
  | _ => false
  end.
Fixpoint memb (x : list Z) (l : list (list Z)) : bool :=
  match l with [] => false | y :: t => list_eqb x y || memb x t end.
Fixpoint nodupb (l : list (list Z)) : bool :=
  match l with [] => true | x :: t => negb (memb x t) && nodupb t end.

(* "Assume all fields are optional, and can be null or absent": null conforms to everything; an
   object may only carry documented member names, each at most once *)
Fixpoint conforms (s : schema) (v : json) {struct s} : bool :=
  match v with
  | JNull => true
  | _ =>
    match s with
    | SStr => match v with JStr _ => true | _ => false end
    | SBool => match v with JBool _ => true | _ => false end
    | SHex => match v with JStr x => is_hexstring x | _ => false end
    | SU32 => match v with JNum n => (0 <=? n) && (n <? two32) | _ => false end
    | SU64 => match v with JNum n => (0 <=? n) && (n <? two64) | _ => false end
    | SF32 => false                       (* the model never emits a float (confidence is outside the model) *)
    | SAnyObj => match v with JObj _ => true | _ => false end
    | SNever => false
    | SEnum names alt => (match v with JStr x => memb x names | _ => false end) || conforms alt v
    | SArr t => match v with JArr l => forallb (conforms t) l | _ => false end
    | SMap t => match v with JObj l => nodupb (map fst l) && forallb (fun kv => conforms t (snd kv)) l | _ => false end
    | SObj fs =>
        match v with
        | JObj l =>
            nodupb (map fst l) &&
            forallb (fun kv =>
                       (fix find (fs : list (list Z * schema)) : bool :=
                          match fs with
                          | [] => false
                          | (k, t) :: r => if list_eqb (fst kv) k then conforms t (snd kv) else find r
                          end) fs) l
        | _ => false
        end
    end
  end.

(* the documented type of a member *)
Fixpoint sfind (k : list Z) (fs : list (list Z * schema)) : option schema :=
  match fs with
  | [] => None
  | (k', t) :: r => if list_eqb k k' then Some t else sfind k r
  end.
Definition sub1 (s : schema) (k : list Z) : schema :=
  match s with SObj fs => match sfind k fs with Some t => t | None => SNever end | _ => SNever end.
Definition item (s : schema) : schema := match s with SArr t => t | SMap t => t | _ => SNever end.

(* every member name the document lists, at any level *)
Fixpoint all_keys (s : schema) : list (list Z) :=
  match s with
  | SEnum _ alt => all_keys alt
  | SArr t => all_keys t
  | SMap t => all_keys t
  | SObj fs => (fix go (fs : list (list Z * schema)) : list (list Z) :=
                  match fs with [] => [] | (k, t) :: r => k :: all_keys t ++ go r end) fs
  | _ => []
  end.

(* ------------------------------------------------------------------ well-formed states *)
Definition u32b (n : Z) : bool := (0 <=? n) && (n <? two32).
Definition u64b (n : Z) : bool := (0 <=? n) && (n <? two64).
Definition ou32b (o : option Z) : bool := match o with Some n => u32b n | None => true end.
Definition ou64b (o : option Z) : bool := match o with Some n => u64b n | None => true end.
Definition natu32b (n : nat) : bool := Z.of_nat n <? two32.

Definition wf_frame (f : frame) : bool :=
  u64b (fr_instr f) &&
  match fr_module f with Some (_, base) => (0 <=? base) && (base <=? fr_instr f) | None => true end &&
  match fr_function_base f with Some base => (0 <=? base) && (base <=? fr_instr f) | None => true end &&
  ou32b (fr_line f) && (1 <=? fr_trust f) && (fr_trust f <=? 6) &&
  forallb (fun e => forallb u64b (snd e)) (fr_unloaded f) &&
  forallb (fun i => ou32b (in_line i)) (fr_inlines f).
Definition wf_thread (t : thread) : bool :=
  u32b (th_id t) && natu32b (length (th_frames t)) && forallb wf_frame (th_frames t).
Definition wf_module (m : modul) : bool := (0 <=? m_base m) && (0 <=? m_size m) && (m_base m + m_size m <? two64).
Definition wf_access (a : access) : bool := u64b (a_addr a) && ou32b (a_size a) && (0 <=? a_type a) && (a_type a <=? 3).
Definition wf_flip (b : flip) : bool := u64b (bf_addr b) && u32b (bf_nearby b).
Definition wf_crash (c : crash) : bool :=
  u64b (cr_addr c) &&
  match cr_adjusted c with Some (AdjNonCanonical a) => u64b a | Some (AdjNull o) => u64b o | None => true end &&
  match cr_accesses c with Some l => forallb wf_access l | None => true end &&
  match cr_ipu c with Some (IpuUpdate a _) => u64b a | _ => true end &&
  forallb wf_flip (cr_flips c) &&
  forallb (fun i => (0 <=? i) && (i <=? 4)) (cr_incons c).
(* sy_os = 8 (Os::Unknown) is excluded: finding F-C15a *)
Definition wf_sys (y : sysinfo) : bool :=
  (0 <=? sy_os y) && (sy_os y <=? 7) && (0 <=? sy_cpu y) && (sy_cpu y <=? 9) && u32b (sy_cpu_count y) &&
  match sy_microcode y with Some n => u64b n | None => true end.
Definition wf_lim (l : lim) : bool := match l with LLimited n => u64b n | _ => true end.
Definition wf_macrec (r : macrec) : bool := ou64b (mc_thread r) && ou64b (mc_dialog r) && ou64b (mc_abort r).
Definition wf_state (s : state) : bool :=
  natu32b (length (s_threads s)) && forallb wf_thread (s_threads s) &&
  forallb wf_module (s_modules s) && forallb wf_module (s_unloaded s) &&
  match s_requesting s with Some i => (i <? length (s_threads s))%nat | None => true end &&
  forallb (fun r => (snd r <=? 16)%nat && (1 <=? snd r)%nat) (s_registers s) &&
  nodupb (map (fun r => fst (fst r)) (s_registers s)) &&
  ou32b (s_pid s) && ou32b (s_mapcount s) &&
  match s_crash s with Some c => wf_crash c | None => true end &&
  wf_sys (s_sys s) &&
  match s_limits s with Some l => forallb (fun x => wf_lim (li_soft x) && wf_lim (li_hard x)) l | None => true end &&
  match s_mac_crash s with Some l => natu32b (length l) && forallb wf_macrec l | None => true end &&
  match s_handles s with Some l => forallb (fun h => ou64b (h_handle h)) l | None => true end.
