(* C15/Properties.v — property theorems only.
   "partial": serde_json's writer is modelled by [serialise] (checked against the real bytes by
   the correspondence run, not verified); schema conformance of all fields is an oracle. *)
From Coq Require Import Lia Permutation Sorted.
From RM Require Import Gen.C15Fmt.
From RM Require Import C15.Model C15.Schema C15.Widths C15.Utf8 C15.Pretty C15.Proofs C15.Proofs2 C15.Proofs3 C15.Proofs4 C15.Proofs5 C15.Proofs6 C15.Proofs7 C15.Scalar C15.Proofs8 C15.Proofs9 C15.Regs C15.Proofs10 C15.Consistent C15.Proofs11 C15.Proofs12 C15.Proofs13 C15.Offsets C15.Proofs14 C15.KeyOrder C15.Proofs15 C15.Proofs16 C15.Float C15.Proofs17 C15.FnOffsets C15.Proofs18 C15.FloatQ C15.Proofs19 C15.Version C15.Proofs20.
From RM Require C19.Model.
From Flocq Require IEEE754.Binary IEEE754.Bits.
Open Scope Z_scope.

(* Escaping is total and correct: every JSON value — arbitrary nesting, arbitrary integers,
   strings over arbitrary code points (quotes, backslashes, control characters, non-BMP) —
   serialises to a document that parses back to exactly that value. *)
Theorem c15_serialise_parse : forall v : json, parse (serialise v) = Some v.
Proof. exact serialise_parse. Qed.
Print Assumptions c15_serialise_parse.

(* no raw control character ever appears inside a serialised string *)
Theorem c15_escape_no_raw_control : forall c x, In x (esc_char c) -> ~ (0 <= x < 32).
Proof. exact esc_char_no_control. Qed.
Print Assumptions c15_escape_no_raw_control.

(* the hypotheses under which print_json's arithmetic cannot trap: C08 / C11 soundness (a frame's
   module and function start at or below its instruction) and C14 c14_modules_of_stream (a listed
   module's base + size fits in u64) *)
Definition c15_state_ok := state_ok.

(* thread_count = |threads|; per thread frame_count = |frames| = number of frames of the state *)
Theorem c15_counts : forall p s, state_ok s ->
  exists j ts, json_of_state p s = Ret j /\
    jget k_threads j = Some (JArr ts) /\
    jget k_thread_count j = Some (JNum (Z.of_nat (length ts))) /\
    length ts = length (s_threads s) /\
    forall i t, nth_error (s_threads s) i = Some t ->
      exists tj fs, nth_error ts i = Some tj /\ jget k_frames tj = Some (JArr fs) /\
                    jget k_frame_count tj = Some (JNum (Z.of_nat (length fs))) /\
                    length fs = length (th_frames t) /\ jget k_thread_id tj = Some (JNum (th_id t)).
Proof.
  intros p s Hok. destruct (state_json p s Hok) as (j & ts & Hj & F2 & Ht & Hc & _).
  exists j, ts. split; [exact Hj|]. split; [exact Ht|]. split; [exact Hc|].
  split; [symmetry; eapply Forall2_len; exact F2|].
  intros i t Hn. destruct (Forall2_nth _ _ _ F2 i t Hn) as (tj & Hn' & Htj).
  destruct (thread_counts p _ t tj Htj) as (fs & H1 & H2 & H3 & H4 & _). exists tj, fs. auto.
Qed.
Print Assumptions c15_counts.

(* "frame" is the position in the frames array *)
Theorem c15_frame_numbers : forall p w t tj fs,
  json_of_thread p w t = Ret tj -> jget k_frames tj = Some (JArr fs) ->
  forall i fj, nth_error fs i = Some fj -> jget k_frame fj = Some (JNum (Z.of_nat i)).
Proof.
  intros p w t tj fs H Hf. destruct (thread_counts p w t tj H) as (fs' & H1 & _ & _ & _ & Hn).
  rewrite H1 in Hf. inversion Hf; subst. exact Hn.
Qed.
Print Assumptions c15_frame_numbers.

(* module_offset = offset - module base, function_offset = offset - function base, in both build
   profiles, no trap, given the soundness hypotheses *)
Theorem c15_offsets : forall p w idx f, frame_ok f ->
  exists j, json_of_frame p w idx f = Ret j /\
    jget k_frame j = Some (JNum (Z.of_nat idx)) /\
    jget k_offset j = Some (JStr (address_str w (fr_instr f))) /\
    jget k_module_offset j =
      Some (match fr_module f with Some (_, base) => JStr (address_str w (fr_instr f - base)) | None => JNull end) /\
    jget k_function_offset j =
      Some (match fr_function_base f with Some base => JStr (address_str w (fr_instr f - base)) | None => JNull end) /\
    jget k_missing_symbols j = Some (JBool (match fr_function f with Some _ => false | None => true end)) /\
    jget k_trust j = Some (JStr (trust_name (fr_trust f))) /\
    jget k_module j = Some (match fr_module f with Some (name, _) => JStr (basename name) | None => JNull end).
Proof.
  intros p w idx f H. destruct (frame_json p w idx f H) as (j & A & B & C & D & E & F & G & I). exists j.
  repeat split; try assumption. rewrite I. destruct (fr_module f) as [[nm b]|]; reflexivity.
Qed.
Print Assumptions c15_offsets.

(* the modules / unloaded_modules arrays mirror the module lists, in order: element i describes module i with
   filename = basename of its code file (the unloaded module's name as it is), base_addr = its base,
   end_addr = base + size, cert_subject = cert_info[filename], loaded / missing symbols from symbol_stats[filename];
   pid is the state's *)
Theorem c15_modules_mirror : forall p s, state_ok s ->
  exists j ms us, json_of_state p s = Ret j /\
    jget k_modules j = Some (JArr ms) /\ jget k_unloaded_modules j = Some (JArr us) /\
    length ms = length (s_modules s) /\ length us = length (s_unloaded s) /\
    (forall i m, nth_error (s_modules s) i = Some m ->
       exists mj, nth_error ms i = Some mj /\
         jget k_filename mj = Some (JStr (basename (m_file m))) /\
         jget k_base_addr mj = Some (JStr (address_str (s_width s) (m_base m))) /\
         jget k_end_addr mj = Some (JStr (address_str (s_width s) (m_base m + m_size m))) /\
         jget k_code_id mj = Some (JStr (m_code_id m)) /\
         jget k_cert_subject mj = Some (jopt JStr (lookup (basename (m_file m)) (s_certinfo s))) /\
         jget k_missing_symbols mj =
           Some (JBool (match lookup (basename (m_file m)) (s_symstats s) with Some st => negb (ss_loaded st) | None => false end))) /\
    (forall i m, nth_error (s_unloaded s) i = Some m ->
       exists mj, nth_error us i = Some mj /\
         jget k_filename mj = Some (JStr (m_file m)) /\
         jget k_base_addr mj = Some (JStr (address_str (s_width s) (m_base m))) /\
         jget k_end_addr mj = Some (JStr (address_str (s_width s) (m_base m + m_size m))) /\
         jget k_cert_subject mj = Some (jopt JStr (lookup (m_file m) (s_certinfo s)))) /\
    jget k_pid j = Some (match s_pid s with Some n => JNum n | None => JNull end).
Proof.
  intros p s Hok. destruct (state_json p s Hok) as (j & ts & Hj & _ & _ & _ & Hp & Hm & Hu & _).
  exists j. eexists. eexists. split; [exact Hj|]. split; [exact Hm|]. split; [exact Hu|].
  split; [apply map_length|]. split; [apply map_length|]. split; [|split].
  - intros i m Hn. eexists. split; [apply map_nth_error; exact Hn|]. unfold mod_obj. cbv zeta.
    repeat split; try reflexivity. cbn [jget assoc]. destruct (lookup (basename (m_file m)) (s_symstats s)); reflexivity.
  - intros i m Hn. eexists. split; [apply map_nth_error; exact Hn|]. repeat split; reflexivity.
  - rewrite Hp. destruct (s_pid s); reflexivity.
Qed.
Print Assumptions c15_modules_mirror.

(* the crashing_thread copy exists exactly when the requesting thread has a frame; it is
   threads[threads_index] with threads_index appended and registers inserted into frame 0 *)
Theorem c15_crashing_thread_copy : forall p s, state_ok s ->
  exists j ts, json_of_state p s = Ret j /\ jget k_threads j = Some (JArr ts) /\
    (s_requesting s = None -> jget k_crashing_thread j = None) /\
    forall i t, s_requesting s = Some i -> nth_error (s_threads s) i = Some t ->
      (th_frames t = [] -> jget k_crashing_thread j = None) /\
      (th_frames t <> [] ->
         exists tj cc f0 fs, nth_error ts i = Some tj /\ jget k_crashing_thread j = Some cc /\
           jget k_frames tj = Some (JArr (f0 :: fs)) /\
           jget k_threads_index cc = Some (JNum (Z.of_nat i)) /\
           jget k_frame_count cc = jget k_frame_count tj /\
           jget k_thread_id cc = jget k_thread_id tj /\
           jget k_thread_name cc = jget k_thread_name tj /\
           jget k_last_error_value cc = jget k_last_error_value tj /\
           jget k_frames cc = Some (JArr (add_registers (json_registers (s_registers s)) f0 :: fs)) /\
           jget k_registers (add_registers (json_registers (s_registers s)) f0) = Some (json_registers (s_registers s)) /\
           forall k, k <> k_registers ->
             jget k (add_registers (json_registers (s_registers s)) f0) = jget k f0).
Proof.
  intros p s Hok. destruct (state_json p s Hok) as (j & ts & Hj & F2 & Ht & _ & _ & _ & _ & Hc).
  exists j, ts. split; [exact Hj|]. split; [exact Ht|]. split; [intro Hr; rewrite Hr in Hc; exact Hc|].
  intros i t Hr Hn. rewrite Hr, Hn in Hc.
  destruct (Forall2_nth _ _ _ F2 i t Hn) as (tj & Hn' & Htj). rewrite Hn' in Hc. split.
  - intro Hf. rewrite Hf in Hc. exact Hc.
  - intro Hf. destruct (th_frames t) as [|fr0 frs] eqn:Ef; [contradiction|].
    destruct (thread_json p _ t tj Htj) as (fs & Hfs & Etj & Hl). rewrite Ef in *.
    cbn [json_of_frames] in Hfs. apply obind_ret in Hfs. destruct Hfs as (f0 & Hf0 & Hfs).
    apply obind_ret in Hfs. destruct Hfs as (fs' & _ & Hfs). inversion Hfs; subst fs.
    exists tj, (crashing_copy (json_registers (s_registers s)) i tj), f0, fs'.
    split; [exact Hn'|]. split; [exact Hc|]. rewrite Etj.
    destruct (crashing_copy_spec (json_registers (s_registers s)) i (JNum (Z.of_nat (length (fr0 :: frs)))) f0 fs'
                (jopt JStr (th_last_error t)) (JNum (th_id t)) (jopt JStr (th_name t))) as (C1 & C2 & C3 & C4 & C4' & C5).
    destruct (frame_registers p _ _ _ _ (json_registers (s_registers s)) Hf0) as (R1 & R2).
    repeat split; try assumption; reflexivity.
Qed.
Print Assumptions c15_crashing_thread_copy.

(* Address display: "0x" + lower-case hex; exactly 18 characters for 64-bit and unknown pointer
   widths, exactly 10 for a 32-bit width when the value fits in 32 bits (a wider value is not
   truncated: `{:#010x}` is a minimum width), and the digits denote the value *)
Theorem c15_hex_width : forall w x, 0 <= x < two64 ->
  (w <> W32 -> length (address_str w x) = 18%nat) /\
  (w = W32 -> x < two32 -> length (address_str w x) = 10%nat) /\
  (w = W32 -> two32 <= x -> (3 <= length (address_str w x) <= 18)%nat) /\
  (exists digits, address_str w x = 48 :: 120 :: digits /\ Forall is_lower_hex digits) /\
  ((w <> W32 \/ x < two32) -> hex_value (skipn 2 (address_str w x)) = x).
Proof. exact address_width. Qed.
Print Assumptions c15_hex_width.

(* Every enumeration-valued string the report can carry is one of the values json-schema.md lists for that
   member.  FINITE CHECK (vm_compute over the name tables that translate/c15_enums.py regenerates from the source and
   from json-schema.md on every run), not an induction: trust (every FrameTrust variant except the unreachable
   `None`, whose as_str() is the typo "non"), access_type (Read / Write / ReadWrite; Underivable emits no member),
   crash_inconsistencies, cpu_arch (all ten), os (the eight named systems; Unknown(id) is finding F-C15a). *)
Theorem c15_enumerations :
  (forall n, In n (skipn 1 TRUST_NAMES) -> In n DOC_TRUST) /\
  (forall n, In n (firstn 3 ACCESS_NAMES) -> In n DOC_ACCESS_TYPE) /\
  (forall n, In n INCONSISTENCY_NAMES -> In n DOC_INCONSISTENCIES) /\
  (forall n, In n CPU_NAMES -> In n DOC_CPU_ARCH) /\
  (forall n, In n OS_NAMES -> In n DOC_OS) /\
  (length TRUST_NAMES = 7 /\ length ACCESS_NAMES = 4 /\ length INCONSISTENCY_NAMES = 5 /\
   length CPU_NAMES = 10 /\ length OS_NAMES = 8)%nat.
Proof.
  repeat split; try (apply subset_In; vm_compute; reflexivity); reflexivity.
Qed.
Print Assumptions c15_enumerations.

(* the two strings that are NOT in the documented sets: F-C15a (known) and the unreachable trust typo *)
Theorem c15_os_unknown_known_witness :
  os_name 8 32768 = [48; 120; 48; 120; 48; 48; 56; 48; 48; 48] /\ ~ In (os_name 8 32768) DOC_OS /\
  ~ In (trust_name 0) DOC_TRUST.
Proof.
  split; [vm_compute; reflexivity|]. split; intro H; vm_compute in H; repeat (destruct H as [H|H]; [discriminate H|]); exact H.
Qed.
Print Assumptions c15_os_unknown_known_witness.

(* SCHEMA CONFORMANCE, every process state.  DOC_SCHEMA is the schema tree that translate/c15_schema.py regenerates
   from the ```rust,ignore block of minidump-processor/json-schema.md on every run (field names, leaf types <u32> <u64>
   <bool> <string> <hexstring>, enumerations, arrays, the register map).  For every state satisfying the executable
   well-formedness conditions [wf_state] (evaluated on every real state by the correspondence run: numeric members within
   the documented integer types, enumeration indices in range, frame / module arithmetic does not wrap — the C08 / C11 /
   C14 conclusions —, the requesting thread exists, distinct register names; Os::Unknown is excluded: finding F-C15a) and
   in BOTH build profiles the report is produced without trap, is a JSON value whose serialisation parses back to it, and
   conforms to the documented schema: every member name at every level is documented and occurs once, every value has the
   documented type or is null, every enumeration-valued string is a documented value, every Address / register / microcode
   string is "0x" + 1..16 lower-case hex digits.  "soft_errors" is inside the model since round 5 (for EVERY content of the
   dump's soft-errors stream: see c15_soft_errors).  Outside the model (so outside this theorem):
   possible_bit_flips[].confidence (the model's document has every other member of print_json's). *)
Theorem c15_schema_conformance : forall p s, wf_state s = true ->
  exists j, json_of_state p s = Ret j /\ conforms DOC_SCHEMA j = true /\ parse (serialise j) = Some j.
Proof.
  intros p s H. exists (report_obj s). split; [exact (report_pure p s H)|]. split; [exact (report_conforms s H)|apply serialise_parse].
Qed.
Print Assumptions c15_schema_conformance.

(* the report does not depend on the build profile when the state is well-formed *)
Theorem c15_profile_independent : forall s, wf_state s = true -> json_of_state Debug s = json_of_state Release s.
Proof. intros s H. rewrite (report_pure Debug s H), (report_pure Release s H). reflexivity. Qed.
Print Assumptions c15_profile_independent.

(* [conforms] is not vacuous: it rejects an undocumented member, a duplicated member, a number where a hex string is
   documented, an upper-case / unprefixed / 17-digit hex string, an undocumented enumeration value and a too large <u32> *)
Theorem c15_conforms_rejects :
  conforms DOC_SCHEMA (JObj [([120], JNum 1)]) = false /\
  conforms DOC_SCHEMA (JObj [(k_pid, JNum 1); (k_pid, JNum 1)]) = false /\
  conforms DOC_SCHEMA (JObj [(k_pid, JNum 4294967296)]) = false /\
  conforms DOC_SCHEMA (JObj [(k_crash_info, JObj [(k_address, JNum 16)])]) = false /\
  conforms DOC_SCHEMA (JObj [(k_crash_info, JObj [(k_address, JStr [48; 120; 65])])]) = false /\
  conforms DOC_SCHEMA (JObj [(k_crash_info, JObj [(k_address, JStr [49; 48])])]) = false /\
  conforms DOC_SCHEMA (JObj [(k_crash_info, JObj [(k_address, JStr (48 :: 120 :: repeat 48 17))])]) = false /\
  conforms DOC_SCHEMA (JObj [(k_system_info, JObj [(k_os, JStr (os_name 8 32768))])]) = false /\
  conforms DOC_SCHEMA (JObj [(k_threads, JArr [JObj [(k_frames, JArr [JObj [(k_trust, JStr (trust_name 0))]])]])]) = false /\
  conforms DOC_SCHEMA (JObj [(k_threads, JArr [JObj [(k_frames, JArr [JObj [(k_trust, JStr (trust_name 2))]])]])]) = true.
Proof. vm_compute. repeat split; reflexivity. Qed.
Print Assumptions c15_conforms_rejects.

(* POINTER WIDTH, whole document.  In the report of every well-formed state every Address-valued member — crash_info.address,
   adjusted_address.address / offset, memory_accesses[].address, instruction_pointer_update.address,
   possible_bit_flips[].address, every frame's offset / module_offset / function_offset and unloaded_modules[].offsets[] (in
   threads and in the crashing_thread copy), modules / unloaded_modules base_addr / end_addr, mac_crash_info thread /
   dialog_mode / abort_cause — is "0x" + lower-case hex digits: exactly 16 digits for 64-bit and unknown pointer widths, at least
   8 for a 32-bit width (exactly 8 when the value is below 2^32: c15_hex_width).  [widths] walks the document and judges
   every string under one of those member names; the driver evaluates it on the real output as well.
   regs_named_ok: no register is called like an Address member (true of every register file in minidump-common). *)
Theorem c15_address_widths : forall p s, wf_state s = true -> regs_named_ok (s_registers s) = true ->
  exists j, json_of_state p s = Ret j /\ widths (s_width s) [] j = true.
Proof.
  intros p s H Hr. exists (report_obj s). split; [exact (report_pure p s H)|exact (report_widths s H Hr)].
Qed.
Print Assumptions c15_address_widths.

(* [widths] is not vacuous: a 32-bit-padded address in a 64-bit report, an unpadded address and an upper-case one are rejected *)
Theorem c15_widths_rejects :
  widths W64 [] (JObj [(k_crash_info, JObj [(k_address, JStr (address_str W32 4096))])]) = false /\
  widths WUnknown [] (JObj [(k_modules, JArr [JObj [(k_base_addr, JStr [48; 120; 49; 48])]])]) = false /\
  widths W32 [] (JObj [(k_threads, JArr [JObj [(k_frames, JArr [JObj [(k_offset, JStr [48; 120; 49; 48])]])]])]) = false /\
  widths W32 [] (JObj [(k_crash_info, JObj [(k_address, JStr (address_str W32 4096))])]) = true /\
  widths W32 [] (JObj [(k_crash_info, JObj [(k_address, JStr (address_str W32 (two32 + 5)))])]) = true /\
  length (address_str W32 (two32 + 5)) = 11%nat.
Proof. vm_compute. repeat split; reflexivity. Qed.
Print Assumptions c15_widths_rejects.

(* VALID UTF-8.  The bytes of the report are the UTF-8 encoding [utf8] of the serialised code points.  For every JSON value whose
   strings (member names and values) consist of Unicode scalar values — which is what Rust `String`s hold: control characters,
   quotes, backslashes, U+2028, U+FFFD from lossy decoding, non-BMP — those bytes are accepted by the STRICT decoder (no overlong
   forms, no surrogates, nothing above U+10FFFF, no stray continuation byte) and decode to exactly the serialised code points, which
   parse back to the value: bytes -> code points -> value is total and lossless. *)
Theorem c15_utf8 : forall v, jscalar v = true ->
  utf8_decode (length (utf8 (serialise v))) (utf8 (serialise v)) = Some (serialise v) /\
  parse (serialise v) = Some v /\ forallb scalar (serialise v) = true.
Proof. intros v H. split; [exact (report_bytes_utf8 v H)|]. split; [apply serialise_parse|exact (serialise_scalar v H)]. Qed.
Print Assumptions c15_utf8.

(* the decoder is strict, and the encoder is the standard one on U+00E9, U+2028, U+FFFD, U+1F600 *)
Theorem c15_utf8_rejects :
  utf8_decode 2 [192; 128] = None /\ utf8_decode 3 [237; 160; 128] = None /\ utf8_decode 4 [244; 144; 128; 128] = None /\
  utf8_decode 1 [128] = None /\ utf8_decode 3 [224; 128; 128] = None /\ utf8_decode 2 [226; 128] = None /\
  utf8 [233; 8232; 65533; 128512] = [195; 169; 226; 128; 168; 239; 191; 189; 240; 159; 152; 128] /\
  utf8_decode 12 (utf8 [233; 8232; 65533; 128512]) = Some [233; 8232; 65533; 128512].
Proof. vm_compute. repeat split; reflexivity. Qed.
Print Assumptions c15_utf8_rejects.

(* Every member name print_json can emit — read off the source by translate/c15_keys.py on every run: the keys of its
   json! literals, map["..."] assignments and insert(String::from("...")) calls, plus the fields of the serde-derived
   PossibleBitFlip / BitFlipDetails — is a member name of the documented schema (FINITE CHECK by vm_compute over the two
   regenerated tables), and the two members outside the model have the documented types the oracle checks them against. *)
Theorem c15_source_keys_documented :
  (forall k, In k SOURCE_KEYS -> In k (all_keys DOC_SCHEMA)) /\
  sub1 DOC_SCHEMA k_soft_errors = SArr SAnyObj /\
  sub1 (item (sub1 (sub1 DOC_SCHEMA k_crash_info) k_possible_bit_flips)) k_confidence = SF32.
Proof. split; [apply subset_In; vm_compute; reflexivity|split; reflexivity]. Qed.
Print Assumptions c15_source_keys_documented.

(* SOFT ERRORS.  The MozSoftErrors stream is free-form JSON text, so the state's soft_errors value is ANY JSON value (s_soft is
   unconstrained by wf_state).  In the report of every well-formed state the member is that value when it is an array of objects and
   null otherwise, and it conforms to the documented type ([ <object> ], read from json-schema.md) — for every stream content. *)
Theorem c15_soft_errors : forall p s, wf_state s = true ->
  exists j, json_of_state p s = Ret j /\
    jget k_soft_errors j = Some (soft_value (s_soft s)) /\
    conforms (sub1 DOC_SCHEMA k_soft_errors) (soft_value (s_soft s)) = true /\
    (forall v, s_soft s = Some v -> soft_ok v = true -> jget k_soft_errors j = Some v) /\
    (forall v, s_soft s = Some v -> soft_ok v = false -> jget k_soft_errors j = Some JNull).
Proof.
  intros p s H. exists (report_obj s). split; [exact (report_pure p s H)|].
  assert (G : jget k_soft_errors (report_obj s) = Some (soft_value (s_soft s))).
  { pose proof (wf_state_ok s H) as (_ & _ & _ & Hr). unfold report_obj. destruct (s_requesting s) as [i|]; [|reflexivity].
    destruct (nth_error (s_threads s) i) as [t|] eqn:E.
    - destruct (th_frames t); reflexivity.
    - exfalso. apply nth_error_None in E. lia. }
  split; [exact G|]. split; [apply soft_conforms|]. split; intros v Hv Hok; rewrite G, Hv; unfold soft_value; rewrite Hok; reflexivity.
Qed.
Print Assumptions c15_soft_errors.

(* F-C15d (fixed in /repo): before the fix print_json passed the stream's value through.  Such values violate the documented type,
   which is why the pass-through model made c15_schema_conformance unprovable: a number, a string, an object, an array with a
   non-object element.  The fixed code reports null for each of them; an array of objects (also the empty one) is reported as is. *)
Theorem c15_soft_errors_passthrough_refuted :
  let t := sub1 DOC_SCHEMA k_soft_errors in
  conforms t (JNum 7) = false /\ conforms t (JStr [115]) = false /\ conforms t (JObj [([97], JNum 1)]) = false /\
  conforms t (JArr [JObj []; JStr [120]]) = false /\
  soft_value (Some (JNum 7)) = JNull /\ soft_value (Some (JStr [115])) = JNull /\ soft_value (Some (JObj [([97], JNum 1)])) = JNull /\
  soft_value (Some (JArr [JObj []; JStr [120]])) = JNull /\
  soft_value (Some (JArr [])) = JArr [] /\ soft_value (Some (JArr [JObj [([97], JNum 1)]])) = JArr [JObj [([97], JNum 1)]].
Proof. vm_compute. repeat split; reflexivity. Qed.
Print Assumptions c15_soft_errors_passthrough_refuted.

(* PRETTY OUTPUT.  print_json(pretty = true) writes [pretty v] (serde_json's PrettyFormatter: two-space indent, ": " after a member
   name, "[]" / "{}" for empty containers; compared byte for byte with the real pretty output on every case).  For every JSON value
   the pretty rendering AND the compact one are accepted by [parse_ws] — the RFC 8259 grammar with insignificant whitespace (space,
   tab, LF, CR) around every value and structural character, raw control characters in strings rejected, numbers in normal form, no
   trailing text — and parse back to exactly that value, so both outputs are valid JSON denoting the same value; the compact layout of
   the parametrised serialiser is [serialise]. *)
Theorem c15_pretty_parse : forall v,
  parse_ws (pretty v) = Some v /\ parse_ws (serialise v) = Some v /\ ser_lo COMPACT 0 v = serialise v.
Proof. intro v. split; [apply pretty_parse_ws|]. split; [apply compact_parse_ws|apply ser_lo_compact]. Qed.
Print Assumptions c15_pretty_parse.

(* the round trip does not depend on the particular layout: ANY whitespace-only layout (another indent width, CR LF line ends, spaces before
   commas ...) of any value at any nesting depth parses back to the value *)
Theorem c15_any_layout : forall L, ws_layout L -> forall v d, parse_ws (ser_lo L d v) = Some v.
Proof. exact ser_lo_parse_ws. Qed.
Print Assumptions c15_any_layout.

(* [parse_ws] is a conservative extension of the whitespace-free parser [parse] (the one the driver uses to read the real compact output before
   [conforms], [widths] and [consistent] judge it): whatever [parse] accepts, [parse_ws] accepts with the same value *)
Theorem c15_parse_ws_extends : forall s v, parse s = Some v -> parse_ws s = Some v.
Proof. exact parse_ws_extends. Qed.
Print Assumptions c15_parse_ws_extends.

(* the pretty bytes are valid UTF-8 as well: strict decoding returns the pretty code points *)
Theorem c15_pretty_utf8 : forall v, jscalar v = true ->
  utf8_decode (length (utf8 (pretty v))) (utf8 (pretty v)) = Some (pretty v) /\ forallb scalar (pretty v) = true.
Proof. intros v H. split; [exact (pretty_bytes_utf8 v H)|exact (pretty_scalar v H)]. Qed.
Print Assumptions c15_pretty_utf8.

(* [parse_ws] is not vacuous: two values, a trailing comma, a missing colon, a leading zero, a raw LF inside a string, an unclosed
   array, a vertical tab as whitespace and trailing text are rejected; whitespace in every legal position is accepted; and the pretty
   layout of a small document is the expected text *)
Theorem c15_parse_ws_rejects :
  parse_ws [49; 32; 50] = None /\ parse_ws [91; 49; 44; 93] = None /\ parse_ws [123; 34; 97; 34; 32; 49; 125] = None /\
  parse_ws [48; 49] = None /\ parse_ws [34; 10; 34] = None /\ parse_ws [91; 49] = None /\ parse_ws [11; 49] = None /\
  parse_ws [110; 117; 108; 108; 120] = None /\ parse_ws [] = None /\
  parse_ws [32; 91; 10; 49; 9; 44; 13; 123; 32; 34; 97; 34; 32; 58; 32; 110; 117; 108; 108; 32; 125; 32; 93; 10]
    = Some (JArr [JNum 1; JObj [([97], JNull)]]) /\
  pretty (JObj [([97], JArr [JNum 1; JObj []; JArr []]); ([98], JObj [([99], JNull)])]) =
    [123; 10; 32; 32; 34; 97; 34; 58; 32; 91; 10; 32; 32; 32; 32; 49; 44; 10; 32; 32; 32; 32; 123; 125; 44; 10; 32; 32; 32; 32; 91; 93;
     10; 32; 32; 93; 44; 10; 32; 32; 34; 98; 34; 58; 32; 123; 10; 32; 32; 32; 32; 34; 99; 34; 58; 32; 110; 117; 108; 108; 10; 32; 32;
     125; 10; 125].
Proof. vm_compute. repeat split; reflexivity. Qed.
Print Assumptions c15_parse_ws_rejects.

(* ADDRESSES DENOTE THE FULL VALUE.  For every pointer width — also a 32-bit one with a value of 2^32 or more (a module ending at
   0x1_0000_0000, a 64-bit register of a MIPS / SPARC context, a corrupt module base) — the digits after "0x" denote the whole
   64-bit value: the 32-bit format is a minimum padding, never a truncation; hence two different values never print alike. *)
Theorem c15_address_denotes : forall w x, 0 <= x < two64 -> hex_value (skipn 2 (address_str w x)) = x.
Proof. exact address_denotes. Qed.
Print Assumptions c15_address_denotes.

Theorem c15_address_injective : forall w x y, 0 <= x < two64 -> 0 <= y < two64 -> address_str w x = address_str w y -> x = y.
Proof. exact address_injective. Qed.
Print Assumptions c15_address_injective.

(* the modules / unloaded_modules arrays mirror the module lists BY VALUE for every pointer width: the hex strings of element i decode
   to module i's base and base + size *)
Theorem c15_modules_denote : forall p s, wf_state s = true ->
  exists j ms us, json_of_state p s = Ret j /\
    jget k_modules j = Some (JArr ms) /\ jget k_unloaded_modules j = Some (JArr us) /\
    (forall i m, nth_error (s_modules s) i = Some m ->
       exists mj b e, nth_error ms i = Some mj /\ jget k_base_addr mj = Some (JStr b) /\ jget k_end_addr mj = Some (JStr e) /\
         hex_value (skipn 2 b) = m_base m /\ hex_value (skipn 2 e) = m_base m + m_size m) /\
    (forall i m, nth_error (s_unloaded s) i = Some m ->
       exists mj b e, nth_error us i = Some mj /\ jget k_base_addr mj = Some (JStr b) /\ jget k_end_addr mj = Some (JStr e) /\
         hex_value (skipn 2 b) = m_base m /\ hex_value (skipn 2 e) = m_base m + m_size m).
Proof.
  intros p s Hw. pose proof (wf_state_ok s Hw) as Hok. pose proof Hok as (_ & Hm & Hu & _).
  destruct (c15_modules_mirror p s Hok) as (j & ms & us & Hj & Hms & Hus & _ & _ & Hmod & Hunl & _).
  exists j, ms, us. split; [exact Hj|]. split; [exact Hms|]. split; [exact Hus|]. split.
  - intros i m Hn. destruct (Hmod i m Hn) as (mj & A & _ & B & C & _). exists mj. eexists. eexists.
    split; [exact A|]. split; [exact B|]. split; [exact C|].
    rewrite Forall_forall in Hm. destruct (Hm m (nth_error_In _ _ Hn)) as (M1 & M2 & M3).
    split; apply address_denotes; lia.
  - intros i m Hn. destruct (Hunl i m Hn) as (mj & A & _ & B & C & _). exists mj. eexists. eexists.
    split; [exact A|]. split; [exact B|]. split; [exact C|].
    rewrite Forall_forall in Hu. destruct (Hu m (nth_error_In _ _ Hn)) as (M1 & M2 & M3).
    split; apply address_denotes; lia.
Qed.
Print Assumptions c15_modules_denote.

(* THE FORMAT STRINGS OF THE SOURCE.  translate/c15_fmt.py reads the match arms of `impl Display for Address` (pointer-width pattern,
   the N of `{:#0Nx}`, the formatted expression incl. a truncating `as uK` cast), the default of the thread-local pointer width and the
   arms of `impl Serialize for Limit` off process_state.rs on every run (and aborts unless every Address reaches the document through that
   Display impl: serde(into = "String"), From<Address> for String, json_hex, set_print_context).  [fmt_alt_hex] models Rust's `{:#0Nx}`
   (minimal digits, zero-padded to N characters in all).  For every pointer width and every 64-bit value the model's address_str is
   exactly what the translated arms write, and json_of_lim is what the translated Limit arms write: an edit of a width, a cast of the
   formatted value, a guard or another serializer call in Limit breaks this theorem (or aborts the translator) without any test input. *)
Theorem c15_format_semantics :
  (forall w x, 0 <= x < two64 -> address_str w x = address_display w x) /\
  (forall l, json_of_lim l = lim_display l) /\
  ADDRESS_DEFAULT_WIDTH = width_index WUnknown.
Proof. split; [exact address_str_display|]. split; [exact json_of_lim_display|reflexivity]. Qed.
Print Assumptions c15_format_semantics.

(* FINITE CHECK: the translated arms are the ones the model was written for; the formatter model on concrete values *)
Theorem c15_format_pinned :
  ADDRESS_ARMS = [(0, 10, 0); (-1, 18, 0)] /\ ADDRESS_DEFAULT_WIDTH = 2 /\
  LIMIT_ARMS = [(0, Some s_err); (1, Some s_unlimited); (2, None)] /\
  fmt_alt_hex 10 255 = [48; 120; 48; 48; 48; 48; 48; 48; 102; 102] /\
  fmt_alt_hex 10 4294967296 = [48; 120; 49; 48; 48; 48; 48; 48; 48; 48; 48] /\
  cast_arg 32 4294967296 = 0 /\
  CONFIDENCE_FLOAT_BITS = 32.    (* PossibleBitFlip.confidence: Option<f32>, derived Serialize, no attribute - what C15/Float.v renders *)
Proof. vm_compute. repeat split; reflexivity. Qed.
Print Assumptions c15_format_pinned.

(* non-vacuity of the 32-bit case: a module ending exactly at 2^32 on a 32-bit platform *)
Example c15_nonvacuous_wide32 :
  address_str W32 4294967296 = [48; 120; 49; 48; 48; 48; 48; 48; 48; 48; 48] /\
  address_str W32 4294901760 = [48; 120; 102; 102; 102; 102; 48; 48; 48; 48] /\
  hex_value (skipn 2 (address_str W32 18446744073709551615)) = 18446744073709551615.
Proof. vm_compute. repeat split; reflexivity. Qed.

(* THE PROPERTY, every process state.  For every state satisfying the executable hypotheses [wf_state] (numeric ranges, enumeration
   indices, the C08 / C11 / C14 arithmetic conclusions) and [state_scalar] (every string of the state consists of Unicode scalar values —
   true of every Rust `String`: names with quotes, control characters, non-BMP and lossily decoded text), in both build profiles:
   print_json produces a report j without trap; j conforms to the schema regenerated from json-schema.md; and for BOTH renderings — the
   compact [serialise j] and the pretty [pretty j] — the UTF-8 bytes are accepted by the strict decoder and decode to the rendering, and the
   rendering is accepted by the RFC 8259 parser with insignificant whitespace and denotes exactly j (so the two outputs are valid UTF-8,
   valid JSON and equal as values); j passes the self-consistency checker [consistent] (counts, frame numbers, the crashing_thread copy), the
   module-offset checker [offsets_ok] when the frame modules are members of the module list, and the pointer-width walker [widths] when the registers
   come from a register file of the source; j passes the function-offset judgement [fn_offsets_ok] against the function bases of s (the document does
   not print them).  The one member outside the integer-only JSON type, possible_bit_flips[].confidence, is covered by c15_report_confidences
   below (kept apart: it rests on Flocq, i.e. on the classical-reals axioms of the standard library; this theorem has no axioms).  All hypotheses are evaluated on every real state of the run, all checkers on every real output. *)
Theorem c15_report_valid : forall p s, wf_state s = true -> state_scalar s = true ->
  exists j, json_of_state p s = Ret j /\ conforms DOC_SCHEMA j = true /\
    utf8_decode (length (utf8 (serialise j))) (utf8 (serialise j)) = Some (serialise j) /\
    parse_ws (serialise j) = Some j /\ parse (serialise j) = Some j /\
    utf8_decode (length (utf8 (pretty j))) (utf8 (pretty j)) = Some (pretty j) /\
    parse_ws (pretty j) = Some j /\
    consistent j = true /\
    (frames_in_modules s = true -> offsets_ok j = true) /\
    (forall kind, regs_from_table kind (s_registers s) = true -> widths (s_width s) [] j = true) /\
    fn_offsets_ok s j = true.
Proof.
  intros p s Hw Hs. exists (report_obj s). pose proof (report_scalar s Hs) as J.
  split; [exact (report_pure p s Hw)|]. split; [exact (report_conforms s Hw)|].
  split; [exact (report_bytes_utf8 _ J)|]. split; [apply compact_parse_ws|]. split; [apply serialise_parse|].
  split; [exact (pretty_bytes_utf8 _ J)|]. split; [apply pretty_parse_ws|].
  split; [exact (report_consistent s Hw)|]. split; [exact (report_offsets s Hw)|].
  split; [intros kind Hr; apply (report_widths s Hw); exact (proj1 (regs_from_table_ok kind _ Hr))|].
  exact (report_fn_offsets s Hw).
Qed.
Print Assumptions c15_report_valid.

(* [state_scalar] is not vacuous: a lone surrogate in a thread name, a module file or inside the soft-errors value is rejected *)
Theorem c15_state_scalar_rejects :
  sc_thread {| th_id := 1; th_name := Some [55296]; th_last_error := None; th_frames := [] |} = false /\
  sc_module {| m_base := 0; m_size := 1; m_file := [97; 57343]; m_debug_file := []; m_debug_id := []; m_code_id := []; m_version := None |} = false /\
  jscalar (JArr [JObj [([1114112], JNull)]]) = false /\
  sc_thread {| th_id := 1; th_name := Some [34; 92; 0; 31; 65533; 128512; 1114111]; th_last_error := None; th_frames := [] |} = true.
Proof. vm_compute. repeat split; reflexivity. Qed.
Print Assumptions c15_state_scalar_rejects.

(* PROC_LIMITS.  For every well-formed state with a limits table (the HashMap's entries in ANY iteration order l): the report's
   proc_limits.limits is [sort_limits l] rendered element by element — a permutation of the table, in non-decreasing code-point (= UTF-8
   byte) order of the names; each element carries its name, unit and the two limits, where a numeric limit is the JSON NUMBER with exactly
   that value for EVERY u64 (also above 2^53: no string, no rounding — the number's text is its decimal digits and parses back to it),
   `unlimited` and `err` are those two strings. *)
Theorem c15_proc_limits : forall p s l, wf_state s = true -> s_limits s = Some l ->
  exists j, json_of_state p s = Ret j /\
    jget k_proc_limits j = Some (JObj [(k_limits, JArr (map json_of_limit (sort_limits l)))]) /\
    Permutation (sort_limits l) l /\
    StronglySorted (fun a b => str_leb (li_name a) (li_name b) = true) (sort_limits l) /\
    (forall x, jget k_name (json_of_limit x) = Some (JStr (li_name x)) /\ jget k_unit (json_of_limit x) = Some (JStr (li_unit x)) /\
       jget k_soft (json_of_limit x) =
         Some (match li_soft x with LLimited n => JNum n | LUnlimited => JStr s_unlimited | LErr => JStr s_err end) /\
       jget k_hard (json_of_limit x) =
         Some (match li_hard x with LLimited n => JNum n | LUnlimited => JStr s_unlimited | LErr => JStr s_err end)) /\
    (forall n, 0 <= n -> serialise (JNum n) = dec_digits n /\ parse (serialise (JNum n)) = Some (JNum n)).
Proof.
  intros p s l Hw Hl. destruct (limits_json p s l Hw Hl) as (j & Hj & Hp). exists j.
  split; [exact Hj|]. split; [exact Hp|]. split; [apply sort_perm|]. split; [apply sort_sorted|]. split.
  - intro x. unfold json_of_limit. cbn [jget assoc list_eqb]. rewrite !lim_value. repeat split; reflexivity.
  - intros n Hn. split; [|apply serialise_parse]. cbn [serialise]. unfold ser_num.
    assert (E : (n <? 0) = false) by (apply Z.ltb_ge; lia). rewrite E. reflexivity.
Qed.
Print Assumptions c15_proc_limits.

(* non-vacuity: limits above 2^53 are numbers with all their digits; the sort is by code points *)
Example c15_nonvacuous_limits :
  serialise (json_of_lim (LLimited 18446744073709551615)) = [49;56;52;52;54;55;52;52;48;55;51;55;48;57;53;53;49;54;49;53] /\
  serialise (json_of_lim (LLimited 9007199254740993)) = [57;48;48;55;49;57;57;50;53;52;55;52;48;57;57;51] /\
  map li_name (sort_limits [ {| li_name := [98]; li_soft := LErr; li_hard := LErr; li_unit := [] |};
                             {| li_name := [233]; li_soft := LErr; li_hard := LErr; li_unit := [] |};
                             {| li_name := [65; 98]; li_soft := LErr; li_hard := LErr; li_unit := [] |};
                             {| li_name := [65]; li_soft := LErr; li_hard := LErr; li_unit := [] |} ]) = [[65]; [65; 98]; [98]; [233]].
Proof. vm_compute. repeat split; reflexivity. Qed.

(* REGISTER FILES OF THE SOURCE.  REGISTER_TABLES is regenerated by translate/c15_regs.py from minidump/src/context.rs on every run: per raw
   context kind the general-purpose register names json_registers walks and size_of::<Register>() (format_register prints 2 digits per byte).
   FINITE CHECK: in every table no register is named like an Address member, the names are distinct and the size is 4 or 8.  Hence for
   registers taken from the table of a context kind ([regs_from_table], evaluated on every real state of the run) the hypothesis
   regs_named_ok of c15_address_widths and the digit-count clause of wf_state hold, and the whole-document pointer-width theorem needs no
   hypothesis about register names. *)
Theorem c15_register_tables :
  forallb table_ok REGISTER_TABLES = true /\ length REGISTER_TABLES = 9%nat /\
  (forall kind regs, regs_from_table kind regs = true ->
     regs_named_ok regs = true /\ forallb (fun r : list Z * Z * nat => (snd r <=? 16)%nat && (1 <=? snd r)%nat) regs = true) /\
  (forall p s kind, wf_state s = true -> regs_from_table kind (s_registers s) = true ->
     exists j, json_of_state p s = Ret j /\ widths (s_width s) [] j = true).
Proof.
  split; [exact tables_ok|]. split; [reflexivity|]. split; [exact regs_from_table_ok|].
  intros p s kind Hw Hr. apply c15_address_widths; [exact Hw|exact (proj1 (regs_from_table_ok kind _ Hr))].
Qed.
Print Assumptions c15_register_tables.

(* SELF-CONSISTENCY AS A CHECKER.  [consistent] judges a JSON value alone: thread_count = |threads|; per thread frame_count = |frames|, every
   frame's "frame" is its position and missing_symbols <=> function is null; the crashing_thread copy is present exactly when
   crash_info.crashing_thread names a thread that has frames, and then it is that thread with threads_index = the index appended and "registers"
   inserted into frame 0 and nowhere else, every other member and every other frame equal; mac_crash_info.num_records = |records|.  The report of
   every well-formed state passes it, in both build profiles; the driver runs the same checker on the REAL print_json output of every case. *)
Theorem c15_consistent : forall p s, wf_state s = true -> exists j, json_of_state p s = Ret j /\ consistent j = true.
Proof. intros p s H. exists (report_obj s). split; [exact (report_pure p s H)|exact (report_consistent s H)]. Qed.
Print Assumptions c15_consistent.

Definition ex_fr (i : Z) (fn : json) (ms : bool) : json := JObj [(k_frame, JNum i); (k_function, fn); (k_missing_symbols, JBool ms)].
Definition ex_th (n : Z) (fs : list json) : json := JObj [(k_frame_count, JNum n); (k_frames, JArr fs); (k_thread_id, JNum 7)].
Definition ex_doc (n : Z) (ts : list json) (ci : json) (extra : list (list Z * json)) : json :=
  JObj ((k_crash_info, JObj [(k_crashing_thread, ci)]) :: extra ++ [(k_thread_count, JNum n); (k_threads, JArr ts)]).
Definition ex_fr_regs (f : json) : json := match f with JObj l => JObj (l ++ [(k_registers, JObj [])]) | x => x end.
Definition ex_copy (i : Z) (n : Z) (fs : list json) (id : Z) : json :=
  JObj [(k_frame_count, JNum n); (k_frames, JArr fs); (k_thread_id, JNum id); (k_threads_index, JNum i)].

(* [consistent] is not vacuous *)
Theorem c15_consistent_rejects :
  let f0 := ex_fr 0 (JStr [102]) false in let f1 := ex_fr 1 JNull true in
  let t := ex_th 2 [f0; f1] in let t0 := ex_th 0 [] in
  (* accepted: no requesting thread; a requesting thread without frames; a proper copy *)
  consistent (ex_doc 2 [t; t0] JNull []) = true /\
  consistent (ex_doc 2 [t; t0] (JNum 1) []) = true /\
  consistent (ex_doc 2 [t; t0] (JNum 0) [(k_crashing_thread, ex_copy 0 2 [ex_fr_regs f0; f1] 7)]) = true /\
  (* rejected: wrong thread_count / frame_count / frame number / missing_symbols *)
  consistent (ex_doc 3 [t; t0] JNull []) = false /\
  consistent (ex_doc 1 [ex_th 1 [f0; f1]] JNull []) = false /\
  consistent (ex_doc 1 [ex_th 2 [f0; ex_fr 2 JNull true]] JNull []) = false /\
  consistent (ex_doc 1 [ex_th 2 [f0; ex_fr 1 JNull false]] JNull []) = false /\
  (* rejected: no copy although thread 0 has frames; a copy without a requesting thread; a copy for a thread without frames *)
  consistent (ex_doc 2 [t; t0] (JNum 0) []) = false /\
  consistent (ex_doc 2 [t; t0] JNull [(k_crashing_thread, ex_copy 0 2 [ex_fr_regs f0; f1] 7)]) = false /\
  consistent (ex_doc 2 [t; t0] (JNum 1) [(k_crashing_thread, ex_copy 1 0 [] 7)]) = false /\
  (* rejected: wrong threads_index; another thread_id; no registers; registers in frame 1 as well; a frame changed; index out of range *)
  consistent (ex_doc 2 [t; t0] (JNum 0) [(k_crashing_thread, ex_copy 1 2 [ex_fr_regs f0; f1] 7)]) = false /\
  consistent (ex_doc 2 [t; t0] (JNum 0) [(k_crashing_thread, ex_copy 0 2 [ex_fr_regs f0; f1] 8)]) = false /\
  consistent (ex_doc 2 [t; t0] (JNum 0) [(k_crashing_thread, ex_copy 0 2 [f0; f1] 7)]) = false /\
  consistent (ex_doc 2 [t; t0] (JNum 0) [(k_crashing_thread, ex_copy 0 2 [ex_fr_regs f0; ex_fr_regs f1] 7)]) = false /\
  consistent (ex_doc 2 [t; t0] (JNum 0) [(k_crashing_thread, ex_copy 0 2 [ex_fr_regs (ex_fr 0 (JStr [103]) false); f1] 7)]) = false /\
  consistent (ex_doc 2 [t; t0] (JNum 2) []) = false /\ consistent (ex_doc 2 [t; t0] (JNum (-1)) []) = false /\
  (* mac_crash_info.num_records *)
  consistent (ex_doc 0 [] JNull [(k_mac_crash_info, JObj [(k_num_records, JNum 2); (k_records, JArr [JObj []])])]) = false /\
  consistent (ex_doc 0 [] JNull [(k_mac_crash_info, JObj [(k_num_records, JNum 1); (k_records, JArr [JObj []])])]) = true.
Proof. vm_compute. repeat split; reflexivity. Qed.
Print Assumptions c15_consistent_rejects.

(* BASENAME (module filename, frame module, debug_file).  translate/c15_fmt.py pins minidump_common::utils::basename
   (`match f.rfind([separators]) { None => f, Some(index) => &f[(index + 1)..] }`) and reads the separators off the source.  The model's
   [basename] is exactly that function: a string without separator is returned as it is, otherwise the text after the LAST separator — and every
   string is of one of the two forms, so the two equations determine it. *)
Theorem c15_basename :
  (forall c, is_sep c = true <-> In c BASENAME_SEPARATORS) /\
  (forall s, (forall c, In c s -> is_sep c = false) -> basename s = s) /\
  (forall a c b, is_sep c = true -> (forall x, In x b -> is_sep x = false) -> basename (a ++ c :: b) = b) /\
  (forall s, (forall c, In c s -> is_sep c = false) \/
             exists a c b, s = a ++ c :: b /\ is_sep c = true /\ (forall x, In x b -> is_sep x = false)).
Proof. split; [exact is_sep_table|]. split; [exact basename_nosep|]. split; [exact basename_last_sep|exact last_sep_split]. Qed.
Print Assumptions c15_basename.

Example c15_nonvacuous_basename :
  basename [67; 58; 92; 97; 47; 98; 92; 109; 46; 100] = [109; 46; 100] /\ basename [109] = [109] /\ basename [97; 47] = [] /\ basename [] = [].
Proof. vm_compute. repeat split; reflexivity. Qed.

(* MODULE OFFSETS AS A CHECKER.  [offsets_ok] judges a JSON value alone: every frame that names a module has a module_offset, and some element of
   "modules" with that filename has base_addr <= offset and module_offset = offset - base_addr as NUMBERS (the hex strings are decoded, so the pointer
   width plays no role); a frame without module has no module_offset.  The report of every well-formed state whose frame modules are members of the
   module list ([frames_in_modules]: what module_at_address().cloned() in the stack walker yields; evaluated on every real state) passes it, in both
   build profiles; the driver runs the same checker on the REAL print_json output of every case. *)
Theorem c15_offsets_checker : forall p s, wf_state s = true -> frames_in_modules s = true ->
  exists j, json_of_state p s = Ret j /\ offsets_ok j = true.
Proof. intros p s H Hi. exists (report_obj s). split; [exact (report_pure p s H)|exact (report_offsets s H Hi)]. Qed.
Print Assumptions c15_offsets_checker.

Definition ex_mod (name : list Z) (base : Z) : json := JObj [(k_base_addr, jhex W64 base); (k_filename, JStr name)].
Definition ex_ofr (m : json) (off : Z) (moff : json) : json := JObj [(k_module, m); (k_module_offset, moff); (k_offset, jhex W64 off)].
Definition ex_odoc (ms fs : list json) : json := JObj [(k_modules, JArr ms); (k_threads, JArr [JObj [(k_frames, JArr fs)]])].
(* [offsets_ok] is not vacuous: a wrong offset, an offset relative to another module's base, a module name that is not in the list, a base above
   the instruction, a missing module_offset and a module_offset without module are rejected; equal names at different bases are told apart; the
   32-bit and the 64-bit rendering of the same numbers are both accepted *)
Theorem c15_offsets_rejects :
  let ms := [ex_mod [97] 4096; ex_mod [98] 8192; ex_mod [97] 65536] in
  offsets_ok (ex_odoc ms [ex_ofr (JStr [97]) 4100 (jhex W64 4); ex_ofr (JStr [97]) 65540 (jhex W32 4); ex_ofr JNull 5 JNull]) = true /\
  offsets_ok (ex_odoc ms [ex_ofr (JStr [97]) 4100 (jhex W64 5)]) = false /\
  offsets_ok (ex_odoc ms [ex_ofr (JStr [98]) 8200 (jhex W64 4104)]) = false /\
  offsets_ok (ex_odoc ms [ex_ofr (JStr [99]) 4100 (jhex W64 4)]) = false /\
  offsets_ok (ex_odoc [ex_mod [97] 4096] [ex_ofr (JStr [97]) 4000 (jhex W64 18446744073709551520)]) = false /\
  offsets_ok (ex_odoc ms [ex_ofr (JStr [97]) 4100 JNull]) = false /\
  offsets_ok (ex_odoc ms [ex_ofr JNull 4100 (jhex W64 4)]) = false.
Proof. vm_compute. repeat split; reflexivity. Qed.
Print Assumptions c15_offsets_rejects.

(* MEMBER ORDER.  serde_json's Map is a BTreeMap, so every object of the real output lists its members in strictly increasing byte order of
   the names (= code-point order; strict = no duplicate).  The model writes its objects in that order by hand — optional members of memory accesses,
   `registers` inserted into frame 0 of the copy, `threads_index` appended, `crashing_thread` after `crash_info`.  For EVERY state (no well-formedness
   needed) whose register names arrive sorted and whose soft_errors value has sorted objects ([keys_hyp], evaluated on every real state) every object
   of the model's report is strictly sorted; the driver runs [keys_sorted] on every real output as well. *)
Theorem c15_keys_sorted : forall p s j, keys_hyp s = true -> json_of_state p s = Ret j -> wf_state s = true -> keys_sorted j = true.
Proof.
  intros p s j Hk Hj Hw. rewrite (report_pure p s Hw) in Hj. inversion Hj; subst j. exact (report_keys_sorted s Hk).
Qed.
Print Assumptions c15_keys_sorted.

(* strictly sorted names are pairwise distinct: c15_keys_sorted therefore also says that NO object of the report — at any depth, also inside the
   free-form soft_errors value — repeats a member name, and [keys_hyp] implies the register-name clause of wf_state *)
Theorem c15_sorted_unique :
  (forall l, sorted_strict l = true -> nodupb l = true) /\
  (forall s, keys_hyp s = true -> nodupb (map (fun r : list Z * Z * nat => fst (fst r)) (s_registers s)) = true).
Proof.
  split; [exact sorted_nodup|]. intros s H. unfold keys_hyp in H. apply andb_prop in H. apply sorted_nodup. exact (proj1 H).
Qed.
Print Assumptions c15_sorted_unique.

Theorem c15_keys_sorted_rejects :
  keys_sorted (JObj [([98], JNull); ([97], JNull)]) = false /\ keys_sorted (JObj [([97], JNull); ([97], JNull)]) = false /\
  keys_sorted (JArr [JObj [([97], JObj [([97; 98], JNull); ([97], JNull)])]]) = false /\
  keys_sorted (JObj [([65], JNull); ([97], JNull); ([97; 0], JNull); ([98], JArr [JObj []]); ([233], JNull); ([128512], JNull)]) = true.
Proof. vm_compute. repeat split; reflexivity. Qed.
Print Assumptions c15_keys_sorted_rejects.

(* ---- non-vacuity ---- *)
Example c15_nonvacuous_roundtrip :
  let v := JObj [([97; 34; 92; 10; 1; 128512], JArr [JNum (-42); JNum 0; JNull; JBool true; JStr [31; 127; 8]; JObj []; JArr []])] in
  serialise v = [123; 34; 97; 92; 34; 92; 92; 92; 110; 92; 117; 48; 48; 48; 49; 128512; 34; 58; 91; 45; 52; 50; 44; 48; 44;
                 110; 117; 108; 108; 44; 116; 114; 117; 101; 44; 34; 92; 117; 48; 48; 49; 102; 127; 92; 98; 34; 44; 123; 125; 44; 91; 93; 93; 125]
  /\ parse (serialise v) = Some v.
Proof. vm_compute. split; reflexivity. Qed.

Definition ex_state : state :=
  {| s_width := W32; s_pid := Some 7;
     s_threads := [ {| th_id := 1; th_name := Some [110; 34]; th_last_error := Some [69];
                       th_frames :=
                        [ {| fr_instr := 4198400; fr_module := Some ([47; 109], 4194304); fr_function := Some [102];
                             fr_function_base := Some 4198144; fr_file := None; fr_line := Some 3;
                             fr_trust := 4; fr_unloaded := [];
                             fr_inlines := [ {| in_function := [105]; in_file := None; in_line := Some 9 |} ] |};
                          {| fr_instr := 16; fr_module := None; fr_function := None; fr_function_base := None;
                             fr_file := None; fr_line := None; fr_trust := 1; fr_unloaded := [([117], [16; 32])];
                             fr_inlines := [] |} ] |};
                    {| th_id := 2; th_name := None; th_last_error := None; th_frames := [] |} ];
     s_requesting := Some 0%nat; s_registers := [([101; 105; 112], 4198400, 8%nat)];
     s_modules := [ {| m_base := 4194304; m_size := 65536; m_file := [47; 109]; m_debug_file := [100]; m_debug_id := [48];
                       m_code_id := []; m_version := None |};
                    {| m_base := 8388608; m_size := 4096; m_file := [120; 92; 109]; m_debug_file := []; m_debug_id := [];
                       m_code_id := [65]; m_version := Some [49] |} ];
     s_unloaded := [ {| m_base := 12582912; m_size := 1; m_file := [117]; m_debug_file := []; m_debug_id := [];
                        m_code_id := []; m_version := None |} ];
     s_crash := Some {| cr_reason := [83]; cr_addr := 16; cr_adjusted := Some (AdjNull 16); cr_instr := Some [97; 100; 100];
                        cr_accesses := Some [ {| a_addr := 16; a_size := Some 4; a_guard := true; a_type := 2 |} ];
                        cr_ipu := Some IpuNone;
                        cr_flips := [ {| bf_addr := 0; bf_reg := Some [114]; bf_nc := false; bf_null := true; bf_low := true;
                                         bf_nearby := 0; bf_poison := false |} ];
                        cr_incons := [4] |};
     s_sys := {| sy_os := 3; sy_os_raw := 0; sy_os_ver := None; sy_cpu := 0; sy_cpu_info := None; sy_cpu_count := 1;
                 sy_microcode := Some 26 |};
     s_lsb := Some ([105], [114], [99], [100]); s_mapcount := Some 3;
     s_certinfo := [([109], [77; 111; 122])];
     s_symstats := [([109], {| ss_url := None; ss_loaded := false; ss_corrupt := true; ss_extra := Some ([47; 120; 47; 121], [65]) |})];
     s_assertion := Some [33];
     s_limits := Some [ {| li_name := [98]; li_soft := LLimited 5; li_hard := LUnlimited; li_unit := [] |};
                        {| li_name := [97]; li_soft := LErr; li_hard := LLimited 18446744073709551615; li_unit := [117] |} ];
     s_mac_crash := Some [ {| mc_thread := Some 1; mc_dialog := None; mc_abort := Some 4294967296; mc_module := Some [109];
                              mc_message := None; mc_signature := None; mc_backtrace := None; mc_message2 := Some [34] |} ];
     s_bootargs := Some [45; 118];
     s_handles := Some [ {| h_handle := Some 18446744073709551615; h_type := Some [70]; h_object := None |} ];
     s_soft := Some (JArr [JObj [([97; 100; 100; 114; 101; 115; 115], JStr [63]); ([110], JArr [JNum (-1); JNull])]; JObj []]) |}.
Example c15_nonvacuous_state : state_ok ex_state /\ wf_state ex_state = true /\ state_scalar ex_state = true /\ regs_named_ok (s_registers ex_state) = true /\
  exists j, json_of_state Debug ex_state = Ret j /\ parse (serialise j) = Some j /\ conforms DOC_SCHEMA j = true /\ consistent j = true /\ offsets_ok j = true /\ frames_in_modules ex_state = true /\ keys_hyp ex_state = true /\ keys_sorted j = true /\
            jget k_thread_count j = Some (JNum 2) /\ (1400 < length (serialise j))%nat.
Proof.
  assert (W : wf_state ex_state = true) by (vm_compute; reflexivity).
  split; [apply wf_state_ok; exact W|]. split; [exact W|]. split; [vm_compute; reflexivity|]. split; [reflexivity|].
  eexists. split; [vm_compute; reflexivity|]. split; [apply serialise_parse|]. split; [vm_compute; reflexivity|]. split; [vm_compute; reflexivity|]. split; [vm_compute; reflexivity|]. split; [vm_compute; reflexivity|]. split; [vm_compute; reflexivity|]. split; [vm_compute; reflexivity|].
  split; [reflexivity|vm_compute; lia].
Qed.

(* the registers of the example state come from the x86 register file of the source; a name of another file or a wrong digit count is rejected *)
Example c15_nonvacuous_regs :
  regs_from_table 0 (s_registers ex_state) = true /\ regs_from_table 1 (s_registers ex_state) = false /\
  regs_from_table 0 [([101; 105; 112], 4198400, 16%nat)] = false /\ regs_from_table 1 [([114; 105; 112], 1, 16%nat); ([114; 56], 2, 16%nat)] = true.
Proof. vm_compute. repeat split; reflexivity. Qed.

(* ------------------------------------------------------------------ possible_bit_flips[].confidence (binary32)
   print_json writes the member through `json!`: the f32 is widened to f64 and serde_json prints the shortest decimal that reads
   back as that f64 (ryu), in ryu's layout.  [render_f32] is that text as a function of the bit pattern, [conf_text_ok bits text]
   the judgement "text is an RFC 8259 number, it lies in the round-to-nearest-even interval of the widened value (so a correctly
   rounding reader gets exactly the binary32 back), it is within [0,1], no decimal with fewer digits reads back" - exact integer
   arithmetic, independent of [render_f32].
   For EVERY details value (any register count; C19's exact Flocq model of BitFlipDetails::confidence, whose statement list is
   regenerated from the source) the text the model renders for the confidence is accepted by that judgement.
   FINITE CHECK (vm_compute) over the 80 classes of details values, extended to all values by C19's confidence_clamp. *)
Theorem c15_confidence_text : forall d : C19.Model.details,
  conf_text_ok (C19.Model.confidence_bits d) (render_f32 (C19.Model.confidence_bits d)) = true.
Proof. exact conf_render_ok. Qed.
Print Assumptions c15_confidence_text.

(* what the judgement says about an accepted text, for every bit pattern and every text *)
Theorem c15_confidence_judgement : forall bits t, conf_text_ok bits t = true ->
  exists m e c k, b32_decode bits = Some (false, m, e) /\ num_value t = Some (false, c, k) /\ json_number t = true /\
    ((m = 0 /\ c = 0) \/
     (m <> 0 /\ in_interval m e c k = true /\ scale_cmp c k 1 0 <> Gt /\ no_shorter m e c k = true)).
Proof. exact conf_text_ok_meaning. Qed.
Print Assumptions c15_confidence_judgement.

(* the bit-pattern decoder of the judgement reads the same sign, mantissa and exponent as Flocq's b32_of_bits - every 32-bit pattern *)
Theorem c15_b32_decode : forall bits, 0 <= bits < 4294967296 ->
  match Binary.B2FF _ _ (Bits.b32_of_bits bits) with
  | Binary.F754_zero s => b32_decode bits = Some (s, 0, -149)
  | Binary.F754_finite s m e => b32_decode bits = Some (s, Zpos m, e)
  | _ => b32_decode bits = None
  end.
Proof. exact b32_decode_flocq. Qed.
Print Assumptions c15_b32_decode.

(* non-vacuity / rejection: the rendering of concrete binary32 values (0.36874998 = 0x3ebccccc prints as the widened double, a power of
   two, one, zero, the smallest subnormal, a value printed with an exponent, a large one); the judgement rejects a text that denotes
   another binary32, a longer-than-shortest text, a value above 1, a negative one and five texts that are not RFC 8259 numbers *)
Example c15_nonvacuous_confidence :
  render_f32 1052560588 = [48; 46; 51; 54; 56; 55; 52; 57; 57; 55; 54; 49; 53; 56; 49; 52; 50; 49] /\   (* 0.3687499761581421 *)
  render_f32 1056964608 = [48; 46; 53] /\ render_f32 1065353216 = [49; 46; 48] /\ render_f32 0 = [48; 46; 48] /\
  render_f32 1 = [49; 46; 52; 48; 49; 50; 57; 56; 52; 54; 52; 51; 50; 52; 56; 49; 55; 101; 45; 52; 53] /\  (* 1.401298464324817e-45 *)
  render_f32 1266679808 = [49; 54; 55; 55; 55; 50; 49; 54; 46; 48] /\                                     (* 16777216.0 *)
  render_f32 2139095040 = [110; 117; 108; 108] /\
  conf_text_ok 1052560588 [48; 46; 51; 54; 56; 55; 52; 57; 57; 55; 54; 49; 53; 56; 49; 52; 50; 49] = true /\
  conf_text_ok 1052560588 [48; 46; 51; 54; 56; 55; 53] = false /\                                          (* 0.36875: another binary32 *)
  conf_text_ok 1052560588 [48; 46; 51; 54; 56; 55; 52; 57; 57; 55; 54; 49; 53; 56; 49; 52; 50; 49; 48; 49] = false /\  (* two more digits *)
  conf_text_ok 1056964608 [53; 101; 45; 49] = true /\ conf_text_ok 1056964608 [48; 46; 53; 48] = true /\   (* 5e-1, 0.50: same digits *)
  conf_text_ok 1069547520 [49; 46; 53] = false /\ conf_text_ok 3204448256 [45; 48; 46; 53] = false /\       (* 1.5, -0.5 *)
  json_number [46; 53] = false /\ json_number [48; 46] = false /\ json_number [48; 49; 46; 53] = false /\
  json_number [49; 101] = false /\ json_number [48; 46; 53; 32] = false /\
  num_value [45; 49; 50; 46; 53; 48; 69; 43; 48; 51] = Some (true, 1250, 1) /\
  exists d, C19.Model.confidence_bits d = 1048576000 /\ render_f32 (C19.Model.confidence_bits d) = [48; 46; 50; 53].
Proof.
  repeat (split; [vm_compute; reflexivity|]).
  exists {| C19.Model.d_nc := false; C19.Model.d_null := false; C19.Model.d_low := false; C19.Model.d_nearby := 0; C19.Model.d_poison := false |}.
  vm_compute. split; reflexivity.
Qed.

(* ------------------------------------------------------------------ function offsets, judged on the document
   "function offsets equal address minus base": the document does not print the function base, so the judgement [fn_offsets_ok] walks
   the threads / frames of the document in step with the process state and takes the base from the state's frame: fb <= offset and
   function_offset = offset - fb on the DECODED hex strings of the document; no function base, no function_offset.  For every
   well-formed state, both build profiles, the report passes; the driver runs the same judgement on every REAL print_json output with
   the function bases of the real state. *)
Theorem c15_function_offsets : forall p s, wf_state s = true ->
  exists j, json_of_state p s = Ret j /\ fn_offsets_ok s j = true.
Proof. intros p s H. exists (report_obj s). split; [apply report_pure; exact H|apply report_fn_offsets; exact H]. Qed.
Print Assumptions c15_function_offsets.

Definition fo_doc (frames1 : list json) (more : list json) : json :=
  JObj [(k_threads, JArr (JObj [(k_frames, JArr frames1)] :: JObj [(k_frames, JArr [])] :: more))].
Definition fo_frame (off : list Z) (fo : option (list Z)) : json :=
  JObj ((k_offset, JStr off) :: match fo with Some x => [(k_function_offset, JStr x)] | None => [] end).
(* ex_state: thread 0 has a frame at 0x401000 in a function based at 0x400f00 and a frame without function, thread 1 has no frames *)
Theorem c15_function_offsets_rejects :
  fn_offsets_ok ex_state (fo_doc [fo_frame [48; 120; 48; 48; 52; 48; 49; 48; 48; 48] (Some [48; 120; 48; 48; 48; 48; 48; 49; 48; 48]); fo_frame [48; 120; 48; 48; 48; 48; 48; 48; 49; 48] None] []) = true /\
  fn_offsets_ok ex_state (fo_doc [fo_frame [48; 120; 48; 48; 52; 48; 49; 48; 48; 48] (Some [48; 120; 48; 48; 48; 48; 48; 49; 48; 49]); fo_frame [48; 120; 48; 48; 48; 48; 48; 48; 49; 48] None] []) = false /\   (* 0x101 *)
  fn_offsets_ok ex_state (fo_doc [fo_frame [48; 120; 48; 48; 52; 48; 49; 48; 48; 48] (Some [48; 120; 48; 48; 52; 48; 49; 48; 48; 48]); fo_frame [48; 120; 48; 48; 48; 48; 48; 48; 49; 48] None] []) = false /\   (* the address itself *)
  fn_offsets_ok ex_state (fo_doc [fo_frame [48; 120; 48; 48; 52; 48; 49; 48; 48; 48] None; fo_frame [48; 120; 48; 48; 48; 48; 48; 48; 49; 48] None] []) = false /\           (* function_offset missing *)
  fn_offsets_ok ex_state (fo_doc [fo_frame [48; 120; 48; 48; 52; 48; 49; 48; 48; 48] (Some [48; 120; 48; 48; 48; 48; 48; 49; 48; 48]); fo_frame [48; 120; 48; 48; 48; 48; 48; 48; 49; 48] (Some [48; 120; 48; 48; 48; 48; 48; 48; 49; 48])] []) = false /\ (* offset without a function base *)
  fn_offsets_ok ex_state (fo_doc [fo_frame [48; 120; 48; 48; 52; 48; 49; 48; 48; 48] (Some [48; 120; 48; 48; 48; 48; 48; 49; 48; 48])] []) = false /\                        (* a frame missing *)
  fn_offsets_ok ex_state (fo_doc [fo_frame [48; 120; 48; 48; 52; 48; 49; 48; 48; 48] (Some [48; 120; 48; 48; 48; 48; 48; 49; 48; 48]); fo_frame [48; 120; 48; 48; 48; 48; 48; 48; 49; 48] None] [JObj [(k_frames, JArr [])]]) = false /\  (* a thread too many *)
  fn_offsets_ok ex_state (fo_doc [fo_frame [48; 120; 48; 48; 52; 48; 48; 48; 48; 48] (Some [48; 120; 48; 48; 48; 48; 48; 49; 48; 48]); fo_frame [48; 120; 48; 48; 48; 48; 48; 48; 49; 48] None] []) = false /\   (* offset below the function base + offset *)
  fn_offsets_ok ex_state (JObj []) = false /\
  exists j, json_of_state Release ex_state = Ret j /\ fn_offsets_ok ex_state j = true.
Proof.
  repeat (split; [vm_compute; reflexivity|]). exists (report_obj ex_state).
  split; [apply report_pure; vm_compute; reflexivity|vm_compute; reflexivity].
Qed.
Print Assumptions c15_function_offsets_rejects.

(* ------------------------------------------------------------------ what the integer tests of the confidence judgement mean
   [scale_cmp c k w q] is the comparison of c * 10^k with w * 2^q as RATIONAL numbers (all integers c k w q); hence [in_interval m e c k]
   is the two-sided inequality [interval_Q] around the widened value, whose frame [b64_frame] is, for every mantissa below 2^53, a
   53-bit mantissa (times 4: quarter ulps) denoting the same number, the lower half-gap halved only below a power of two [frame_Q]
   (definitions in C15/FloatQ.v). *)
Theorem c15_confidence_interval : forall m e c k w q,
  scale_cmp c k w q = cmp_Q c k w q /\ (in_interval m e c k = true <-> interval_Q m e c k) /\
  (0 < m < 9007199254740992 -> frame_Q m e).
Proof. intros. split; [apply scale_cmp_spec|]. split; [apply in_interval_spec|apply b64_frame_spec]. Qed.
Print Assumptions c15_confidence_interval.

(* Flocq's own normalisation of the decoded m * 2^e to binary64 (round to nearest even - exact here) has the mantissa and the exponent
   of [b64_frame], for the confidence of EVERY details value.  FINITE CHECK (vm_compute) over the 80 classes of details values, extended
   to all values by C19's confidence_clamp; c15_widening_samples: the same on the smallest subnormal, the largest subnormal, the smallest
   normal, 0.5, 1.0, 0.36874998 and the largest finite binary32. *)
Theorem c15_widening_flocq : forall d : C19.Model.details, widen_agrees (C19.Model.confidence_bits d) = true.
Proof. exact widen_ok. Qed.
Print Assumptions c15_widening_flocq.
Theorem c15_widening_samples : forallb widen_agrees [1; 8388607; 8388608; 1056964608; 1065353216; 1052560588; 2139095039] = true.
Proof. exact widen_samples. Qed.
Print Assumptions c15_widening_samples.

(* on the confidences the heuristics can produce the judgement separates the values: a text rendered for one details value is accepted for
   another details value only if both have the same binary32 confidence (FINITE CHECK over the 80 x 80 pairs of classes, extended to all
   details values by C19's confidence_clamp) - so a report that prints the confidence of another flip, or a rounded one, is rejected *)
Theorem c15_confidence_discriminates : forall d1 d2 : C19.Model.details,
  conf_text_ok (C19.Model.confidence_bits d2) (render_f32 (C19.Model.confidence_bits d1)) = true ->
  C19.Model.confidence_bits d1 = C19.Model.confidence_bits d2.
Proof. exact conf_discriminates. Qed.
Print Assumptions c15_confidence_discriminates.

(* every reported bit flip of every process state: the text print_json writes for its binary32 confidence ([flip_conf_text]: the confidence
   recomputed from the details the report prints - C19's exact Flocq model -, widened, shortest decimal, ryu's layout) is accepted by the
   judgement [conf_text_ok]: an RFC 8259 number that reads back as exactly that binary32, within [0,1], with no shorter equivalent *)
Theorem c15_report_confidences : forall (s : state) c b, s_crash s = Some c -> In b (cr_flips c) ->
  conf_text_ok (flip_conf_bits b) (flip_conf_text b) = true.
Proof. intros s c b _ _. apply flip_conf_ok. Qed.
Print Assumptions c15_report_confidences.

(* ------------------------------------------------------------------ modules[].version
   MinidumpModule::version (minidump/src/minidump.rs) is interpreted from what translate/c15_fmt.py reads off its source on every run: the two
   VS_FIXEDFILEINFO constants, the Os variants of the matches!, the four format! arguments of each arm.  For EVERY version_info and OS:
   the member is null exactly when signature / struct_version differ from the constants; otherwise it is a text of decimal digits and dots
   (hence of Unicode scalar values: the [state_scalar] clause of the member) - for Windows / Mac OS X / iOS the 16-bit halves of the file
   version, else file / product version words.  c15_module_version_pinned (FINITE CHECK): the translated tables are the ones the arms
   lemma was proved for; concrete texts.  The driver computes the member of every real module from the raw fields, so the byte-for-byte
   comparison of the whole document checks it against the real code. *)
Theorem c15_module_version : forall os v,
  (module_version os v = None <-> ~ (vi_sig v = VERSION_SIGNATURE /\ vi_struct v = VERSION_STRUCVERSION)) /\
  (forall t, module_version os v = Some t -> Forall ver_char t) /\
  (0 <= vi_fhi v -> 0 <= vi_flo v -> vi_sig v = VERSION_SIGNATURE -> vi_struct v = VERSION_STRUCVERSION ->
   module_version os v =
   Some (if (os =? 0) || (os =? 1) || (os =? 2)
         then dot4 (vi_fhi v / 65536) (vi_fhi v mod 65536) (vi_flo v / 65536) (vi_flo v mod 65536)
         else dot4 (vi_fhi v) (vi_flo v) (vi_phi v) (vi_plo v))).
Proof.
  intros os v. split; [apply module_version_none|]. split; [intros t; apply module_version_chars|apply module_version_arms].
Qed.
Print Assumptions c15_module_version.

Theorem c15_module_version_pinned :
  VERSION_SIGNATURE = 4277077181 /\ VERSION_STRUCVERSION = 65536 /\ VERSION_SPLIT_OS = [1; 2; 0] /\
  VERSION_ARM_SPLIT = [(0, 1, 16); (0, 2, 65535); (1, 1, 16); (1, 2, 65535)] /\ VERSION_ARM_ELSE = [(0, 0, 0); (1, 0, 0); (2, 0, 0); (3, 0, 0)] /\
  module_version 0 {| vi_sig := 4277077181; vi_struct := 65536; vi_fhi := 65538; vi_flo := 4294967295; vi_phi := 7; vi_plo := 8 |}
    = Some [49; 46; 50; 46; 54; 53; 53; 51; 53; 46; 54; 53; 53; 51; 53] /\                                 (* Windows: 1.2.65535.65535 *)
  module_version 3 {| vi_sig := 4277077181; vi_struct := 65536; vi_fhi := 65538; vi_flo := 0; vi_phi := 7; vi_plo := 4294967295 |}
    = Some [54; 53; 53; 51; 56; 46; 48; 46; 55; 46; 52; 50; 57; 52; 57; 54; 55; 50; 57; 53] /\              (* Linux: 65538.0.7.4294967295 *)
  module_version 0 {| vi_sig := 0; vi_struct := 65536; vi_fhi := 1; vi_flo := 2; vi_phi := 3; vi_plo := 4 |} = None /\
  module_version 3 {| vi_sig := 4277077181; vi_struct := 0; vi_fhi := 1; vi_flo := 2; vi_phi := 3; vi_plo := 4 |} = None.
Proof. vm_compute. repeat split; reflexivity. Qed.
Print Assumptions c15_module_version_pinned.
